/-
  GabiProofs.RevLemmas — helper lemmas about the RSA-B revocation accumulator model
  (`GabiModel.Revocation`): hash framing, event hashing, event chains, update verification,
  the product cache, the branches of `Witness.update`, and the algebra of witness updates in an
  arbitrary commutative group / in `(ZMod n)ˣ`.
  Property theorems built from these: `GabiProps/C09.lean`, `GabiProps/C10.lean`.
-/
import GabiModel.Revocation
import GabiProofs.NumLemmas
import GabiProofs.DerLemmas
import GabiProofs.Bridge
import Mathlib.Data.List.Chain
import Mathlib.Data.List.Forall2
import Mathlib.Data.Int.ModEq
import Mathlib.Algebra.Group.Basic
import Mathlib.Algebra.BigOperators.Group.List.Basic
import Mathlib.Tactic.Ring
import Mathlib.Tactic.LinearCombination
import Mathlib.RingTheory.Coprime.Lemmas
import Mathlib.RingTheory.Int.Basic

namespace Gabi.Rev
open Gabi

/-! ### whole-hash equality -/

theorem hashEqual_iff (a b : Hash) : hashEqual a b = true ↔ a = b := by
  unfold hashEqual
  exact beq_iff_eq

theorem hashEqual_false_iff (a b : Hash) : hashEqual a b = false ↔ a ≠ b := by
  rw [Ne, ← hashEqual_iff]; cases hashEqual a b <;> simp

/-- a proper prefix (or proper extension) of a hash is not equal to it. -/
theorem hashEqual_append_false (a t : Hash) (ht : t ≠ []) :
    hashEqual (a ++ t) a = false ∧ hashEqual a (a ++ t) = false := by
  constructor <;> rw [hashEqual_false_iff] <;> intro h
  · exact ht (List.append_right_eq_self.mp h)
  · exact ht (List.append_right_eq_self.mp h.symm)

theorem hashEquals_iff (ev : Event) (h : Hash) :
    ev.hashEquals h = true ↔ hashAlgOk h = true ∧ ev.hash = h := by
  unfold Event.hashEquals
  rw [Bool.and_eq_true, hashEqual_iff]

/-! ### `SAcc.unmarshalVerify`, `Update.verify` -/

theorem unmarshalVerify_some {pk : PublicKey} {s acc : SAcc}
    (h : s.unmarshalVerify pk = some acc) :
    pk.counter = s.pkCounter ∧ s.sigOk = true ∧ acc = s := by
  unfold SAcc.unmarshalVerify at h
  split at h
  · exact absurd h (by simp)
  · split at h
    · exact absurd h (by simp)
    · rename_i h1 h2
      refine ⟨by simpa using h1, by simpa using h2, (Option.some.inj h).symm⟩

theorem unmarshalVerify_eq_some_iff (pk : PublicKey) (s acc : SAcc) :
    s.unmarshalVerify pk = some acc ↔ pk.counter = s.pkCounter ∧ s.sigOk = true ∧ acc = s := by
  constructor
  · exact unmarshalVerify_some
  · rintro ⟨h1, h2, rfl⟩
    simp [SAcc.unmarshalVerify, h1, h2]

theorem verify_eq_some_iff (pk : PublicKey) (u : Update) (acc : SAcc) :
    u.verify pk = some acc ↔
      pk.counter = u.sacc.pkCounter ∧ u.sacc.sigOk = true ∧ acc = u.sacc ∧
        eventsVerify u.events u.sacc.eventHash = true := by
  unfold Update.verify
  cases hs : u.sacc.unmarshalVerify pk with
  | none =>
    simp only [reduceCtorEq, false_iff]
    rintro ⟨h1, h2, -, -⟩
    have := (unmarshalVerify_eq_some_iff pk u.sacc u.sacc).mpr ⟨h1, h2, rfl⟩
    rw [hs] at this; exact absurd this (by simp)
  | some a =>
    obtain ⟨h1, h2, rfl⟩ := unmarshalVerify_some hs
    simp only
    by_cases hev : eventsVerify u.events u.sacc.eventHash = true
    · simp only [hev, if_true, Option.some.injEq]
      exact ⟨fun h => ⟨h1, h2, h.symm, trivial⟩, fun h => h.2.2.1.symm⟩
    · simp [hev]

theorem verify_some {pk : PublicKey} {u : Update} {acc : SAcc} (h : u.verify pk = some acc) :
    acc = u.sacc := ((verify_eq_some_iff pk u acc).mp h).2.2.1

/-- `Update.verify` does not look at the product cache. -/
theorem verify_cache_irrelevant (pk : PublicKey) (u : Update) (c : Option (Int × Nat)) :
    ({ u with product := c } : Update).verify pk = u.verify pk := rfl

/-! ### the event-chain check -/

/-- the loop of `EventList.Verify`, as a proposition about positions. -/
theorem eventsVerify_go_iff (start : Nat) (l : List Event) (i : Nat) (prev : Option Event) :
    eventsVerify.go start i prev l = true ↔
      (∀ f, l.head? = some f →
        (match prev with
        | none => hashAlgOk f.parentHash
        | some p => p.hashEquals f.parentHash) = true) ∧
      List.IsChain (fun a b : Event => a.hashEquals b.parentHash = true) l ∧
      ∀ k (hk : k < l.length), l[k].index = i + k + start := by
  induction l generalizing i prev with
  | nil => simp [eventsVerify.go]
  | cons ev rest ih =>
    unfold eventsVerify.go
    simp only [Bool.and_eq_true, decide_eq_true_eq, ih, List.head?_cons, Option.some.injEq,
      forall_eq']
    constructor
    · rintro ⟨⟨hp, hi⟩, hh, hc, hidx⟩
      refine ⟨hp, ?_, ?_⟩
      · cases rest with
        | nil => exact List.isChain_singleton _
        | cons ev' rest' =>
          rw [List.isChain_cons_cons]
          exact ⟨by simpa using hh ev', hc⟩
      · intro k hk
        cases k with
        | zero => simp [← hi]
        | succ k =>
          have := hidx k (by simpa using hk)
          simp only [List.getElem_cons_succ]
          omega
    · rintro ⟨hp, hc, hidx⟩
      refine ⟨⟨hp, ?_⟩, ?_, ?_, ?_⟩
      · have := hidx 0 (by simp)
        simp at this; omega
      · intro f hf
        cases rest with
        | nil => simp at hf
        | cons ev' rest' =>
          rw [List.isChain_cons_cons] at hc
          simp only [List.head?_cons, Option.some.injEq] at hf
          subst hf; exact hc.1
      · cases rest with
        | nil => exact List.isChain_nil
        | cons ev' rest' =>
          rw [List.isChain_cons_cons] at hc
          exact hc.2
      · intro k hk
        have := hidx (k + 1) (by simpa using hk)
        simp only [List.getElem_cons_succ] at this
        omega

/-- **specification of `EventList.Verify`**: a non-empty list is accepted iff its last event
    hashes to the hash in the accumulator, the parent hash of the first event is a well-formed
    hash, every later event carries (a well-formed copy of) the hash of its predecessor, and the
    indices count up by one from the first. -/
theorem eventsVerify_spec (evs : List Event) (h : Hash) :
    eventsVerify evs h = true ↔
      evs = [] ∨
      ((∃ last, evs.getLast? = some last ∧ last.hashEquals h = true) ∧
       (∀ f, evs.head? = some f → hashAlgOk f.parentHash = true) ∧
       List.IsChain (fun a b : Event => a.hashEquals b.parentHash = true) evs ∧
       ∀ k (hk : k < evs.length), evs[k].index = (evs.head?.map (·.index)).getD 0 + k) := by
  unfold eventsVerify
  cases hl : evs.getLast? with
  | none =>
    have : evs = [] := by simpa using hl
    simp [this]
  | some last =>
    have hne : evs ≠ [] := by rintro rfl; simp at hl
    simp only [hne, false_or, Option.some.injEq, exists_eq_left']
    by_cases hh : last.hashEquals h = true
    · simp only [hh, Bool.not_true, Bool.false_eq_true, if_false, true_and]
      rw [eventsVerify_go_iff]
      simp only [Nat.zero_add]
      constructor
      · rintro ⟨a, b, c⟩
        exact ⟨a, b, fun k hk => by rw [c k hk]; omega⟩
      · rintro ⟨a, b, c⟩
        exact ⟨a, b, fun k hk => by rw [c k hk]; omega⟩
    · simp [hh]

/-! ### `Update.prepend` -/

theorem prepend_nil (u : Update) : u.prepend [] = some u := by
  simp [Update.prepend]

theorem prepend_some {u u' : Update} {evs : List Event} (h : u.prepend evs = some u') :
    u'.sacc = u.sacc ∧
      ((evs = [] ∧ u' = u) ∨
       (evs ≠ [] ∧ eventsVerify u'.events u.sacc.eventHash = true ∧
         ∃ m, m ≤ u.events.length ∧ u'.events = evs ++ u.events.drop m)) := by
  unfold Update.prepend at h
  split at h
  · rename_i hl
    have : evs = [] := by simpa using hl
    obtain rfl := Option.some.inj h
    exact ⟨rfl, Or.inl ⟨this, rfl⟩⟩
  · exact absurd h (by simp)
  · rename_i last ourFirst hl hf
    have hne : evs ≠ [] := by rintro rfl; simp at hl
    simp only at h
    split at h
    · exact absurd h (by simp)
    · split at h
      · exact absurd h (by simp)
      · rename_i hmn
        split at h
        · rename_i hev
          obtain rfl := Option.some.inj h
          exact ⟨rfl, Or.inr ⟨hne, hev, _, Nat.le_of_not_gt hmn, rfl⟩⟩
        · exact absurd h (by simp)

/-! ### `Witness.update`: failure branches -/

theorem update_verify_none {pk : PublicKey} {w : Witness} {upd : Update}
    (h : upd.verify pk = none) : w.update pk upd = (.err, w, upd) := by
  unfold Witness.update; rw [h]

/-- the eleven exits of `Witness.update`, with the conditions under which each is taken (the
    verified accumulator is `upd.sacc` itself). -/
inductive UpdateBranch (pk : PublicKey) (w : Witness) (upd : Update) :
    UpdateResult × Witness × Update → Prop
  | verifyFail : upd.verify pk = none → UpdateBranch pk w upd (.err, w, upd)
  | sameIndexOlder : upd.verify pk = some upd.sacc → upd.sacc.index = w.sacc.index →
      upd.sacc.time ≤ w.sacc.time → UpdateBranch pk w upd (.ok, w, upd)
  | sameIndexNewer : upd.verify pk = some upd.sacc → upd.sacc.index = w.sacc.index →
      ¬ upd.sacc.time ≤ w.sacc.time → UpdateBranch pk w upd (.ok, { w with sacc := upd.sacc }, upd)
  | noEvents : upd.verify pk = some upd.sacc → upd.sacc.index ≠ w.sacc.index →
      upd.events = [] → UpdateBranch pk w upd (.ok, w, upd)
  | older : upd.verify pk = some upd.sacc → upd.sacc.index ≠ w.sacc.index →
      upd.events ≠ [] → upd.sacc.index ≤ w.sacc.index → UpdateBranch pk w upd (.ok, w, upd)
  | tooNew : upd.verify pk = some upd.sacc → upd.events ≠ [] → w.sacc.index < upd.sacc.index →
      w.sacc.index + 1 < (upd.events.head?.map (·.index)).getD 0 →
      UpdateBranch pk w upd (.err, w, upd)
  | productPanic : upd.verify pk = some upd.sacc → upd.events ≠ [] →
      w.sacc.index < upd.sacc.index →
      (upd.events.head?.map (·.index)).getD 0 ≤ w.sacc.index + 1 →
      upd.productFrom (w.sacc.index + 1) = none → UpdateBranch pk w upd (.panic, w, upd)
  | revoked (prod : Int) (upd' : Update) : upd.verify pk = some upd.sacc → upd.events ≠ [] →
      w.sacc.index < upd.sacc.index →
      (upd.events.head?.map (·.index)).getD 0 ≤ w.sacc.index + 1 →
      upd.productFrom (w.sacc.index + 1) = some (prod, upd') →
      (xgcd w.e.toNat prod.toNat).1 ≠ 1 → UpdateBranch pk w upd (.revoked, w, upd')
  | expPanic (prod : Int) (upd' : Update) : upd.verify pk = some upd.sacc → upd.events ≠ [] →
      w.sacc.index < upd.sacc.index →
      (upd.events.head?.map (·.index)).getD 0 ≤ w.sacc.index + 1 →
      upd.productFrom (w.sacc.index + 1) = some (prod, upd') →
      (xgcd w.e.toNat prod.toNat).1 = 1 →
      (goExp w.u (xgcd w.e.toNat prod.toNat).2.2 pk.n = none ∨
        goExp upd.sacc.nu (xgcd w.e.toNat prod.toNat).2.1 pk.n = none) →
      UpdateBranch pk w upd (.panic, w, upd')
  | updated (prod : Int) (upd' : Update) (ub na : Int) : upd.verify pk = some upd.sacc →
      upd.events ≠ [] → w.sacc.index < upd.sacc.index →
      (upd.events.head?.map (·.index)).getD 0 ≤ w.sacc.index + 1 →
      upd.productFrom (w.sacc.index + 1) = some (prod, upd') →
      (xgcd w.e.toNat prod.toNat).1 = 1 →
      goExp w.u (xgcd w.e.toNat prod.toNat).2.2 pk.n = some ub →
      goExp upd.sacc.nu (xgcd w.e.toNat prod.toNat).2.1 pk.n = some na →
      goExp (ub * na % pk.n) w.e pk.n = some upd.sacc.nu →
      UpdateBranch pk w upd (.ok, { w with u := ub * na % pk.n, sacc := upd.sacc }, upd')
  | invalidated (prod : Int) (upd' : Update) (ub na : Int) : upd.verify pk = some upd.sacc →
      upd.events ≠ [] → w.sacc.index < upd.sacc.index →
      (upd.events.head?.map (·.index)).getD 0 ≤ w.sacc.index + 1 →
      upd.productFrom (w.sacc.index + 1) = some (prod, upd') →
      (xgcd w.e.toNat prod.toNat).1 = 1 →
      goExp w.u (xgcd w.e.toNat prod.toNat).2.2 pk.n = some ub →
      goExp upd.sacc.nu (xgcd w.e.toNat prod.toNat).2.1 pk.n = some na →
      goExp (ub * na % pk.n) w.e pk.n ≠ some upd.sacc.nu →
      UpdateBranch pk w upd (.err, w, upd')

theorem update_branch (pk : PublicKey) (w : Witness) (upd : Update) :
    UpdateBranch pk w upd (w.update pk upd) := by
  unfold Witness.update
  cases hv : upd.verify pk with
  | none => exact .verifyFail hv
  | some newAcc =>
    obtain rfl := verify_some hv
    simp only
    by_cases h1 : upd.sacc.index = w.sacc.index
    · rw [if_pos h1]
      by_cases h2 : upd.sacc.time ≤ w.sacc.time
      · rw [if_pos h2]; exact .sameIndexOlder hv h1 h2
      · rw [if_neg h2]; exact .sameIndexNewer hv h1 h2
    · rw [if_neg h1]
      by_cases h3 : upd.events = []
      · rw [if_pos (by simp [h3])]; exact .noEvents hv h1 h3
      · rw [if_neg (by simp [h3])]
        by_cases h4 : upd.sacc.index ≤ w.sacc.index
        · rw [if_pos h4]; exact .older hv h1 h3 h4
        · rw [if_neg h4]
          have h4' : w.sacc.index < upd.sacc.index := by omega
          by_cases h5 : (upd.events.head?.map (·.index)).getD 0 > w.sacc.index + 1
          · rw [if_pos h5]; exact .tooNew hv h3 h4' h5
          · rw [if_neg h5]
            have h5' : (upd.events.head?.map (·.index)).getD 0 ≤ w.sacc.index + 1 := by omega
            cases hp : upd.productFrom (w.sacc.index + 1) with
            | none => exact .productPanic hv h3 h4' h5' hp
            | some r =>
              obtain ⟨prod, upd'⟩ := r
              simp only
              by_cases h6 : (xgcd w.e.toNat prod.toNat).1 = 1
              · rw [if_neg (by simpa using h6)]
                cases hub : goExp w.u (xgcd w.e.toNat prod.toNat).2.2 pk.n with
                | none => exact .expPanic prod upd' hv h3 h4' h5' hp h6 (Or.inl hub)
                | some ub =>
                  cases hna : goExp upd.sacc.nu (xgcd w.e.toNat prod.toNat).2.1 pk.n with
                  | none => exact .expPanic prod upd' hv h3 h4' h5' hp h6 (Or.inr hna)
                  | some na =>
                    simp only
                    by_cases h7 : goExp (ub * na % pk.n) w.e pk.n = some upd.sacc.nu
                    · rw [if_pos (by simpa using h7)]
                      exact .updated prod upd' ub na hv h3 h4' h5' hp h6 hub hna h7
                    · rw [if_neg (by simpa using h7)]
                      exact .invalidated prod upd' ub na hv h3 h4' h5' hp h6 hub hna h7
              · rw [if_pos (by simpa using h6)]
                exact .revoked prod upd' hv h3 h4' h5' hp h6

/-- every branch of `Witness.update` that does not return `ok` returns the witness it was
    given. -/
theorem update_not_ok_witness (pk : PublicKey) (w : Witness) (upd : Update)
    (h : (w.update pk upd).1 ≠ .ok) : (w.update pk upd).2.1 = w := by
  have hb := update_branch pk w upd
  generalize w.update pk upd = r at hb h ⊢
  cases hb <;> first | rfl | exact absurd rfl h

/-! ### the algebra of a witness update (any commutative group) -/
section Algebra
variable {G : Type*} [CommGroup G]

/-- `u^e = ν`, `ν'^prod = ν`, `a·e + b·prod = 1` ⇒ `(u^b · ν'^a)^e = ν'`. -/
theorem update_algebra {u ν ν' : G} {e prod a b : ℤ} (hu : u ^ e = ν) (hν : ν' ^ prod = ν)
    (hab : a * e + b * prod = 1) : (u ^ b * ν' ^ a) ^ e = ν' := by
  rw [mul_zpow, ← zpow_mul, ← zpow_mul, mul_comm b e, zpow_mul, hu, ← hν, ← zpow_mul, ← zpow_add]
  have : prod * b + a * e = 1 := by linear_combination hab
  rw [this, zpow_one]

/-- companion of `update_algebra`: the new witness raised to the removed product is the old one. -/
theorem update_algebra_prod {u ν ν' : G} {e prod a b : ℤ} (hu : u ^ e = ν) (hν : ν' ^ prod = ν)
    (hab : a * e + b * prod = 1) : (u ^ b * ν' ^ a) ^ prod = u := by
  rw [mul_zpow, ← zpow_mul, ← zpow_mul, mul_comm a prod, zpow_mul ν', hν, ← hu, ← zpow_mul,
    ← zpow_add]
  have : b * prod + e * a = 1 := by linear_combination hab
  rw [this, zpow_one]

/-- the new witness does not depend on which Bezout pair is used. -/
theorem update_algebra_indep {u ν ν' : G} {e prod a b a' b' : ℤ} (hu : u ^ e = ν)
    (hν : ν' ^ prod = ν) (hab : a * e + b * prod = 1) (hab' : a' * e + b' * prod = 1) :
    u ^ b * ν' ^ a = u ^ b' * ν' ^ a' := by
  have h1 := update_algebra hu hν hab
  have h2 := update_algebra_prod hu hν hab
  have h1' := update_algebra hu hν hab'
  have h2' := update_algebra_prod hu hν hab'
  have key : ∀ x : G, x = (x ^ e) ^ a * (x ^ prod) ^ b := by
    intro x
    rw [← zpow_mul, ← zpow_mul, ← zpow_add]
    have : e * a + prod * b = 1 := by linear_combination hab
    rw [this, zpow_one]
  rw [key (u ^ b * ν' ^ a), key (u ^ b' * ν' ^ a'), h1, h2, h1', h2']

end Algebra

/-! ### a removed value has no Bezout pair -/

theorem gcd_ne_one_of_dvd {e prod : Int} (hd : e ∣ prod) (he : e.natAbs ≠ 1) :
    Int.gcd e prod ≠ 1 := by
  rw [Int.gcd_eq_natAbs_left_iff_dvd.mpr hd]; exact he

theorem xgcd_ne_one_of_dvd {e prod : Int} (he : 1 < e) (hp : 0 < prod) (hd : e ∣ prod) :
    (xgcd e.toNat prod.toNat).1 ≠ 1 := by
  rw [xgcd_gcd]
  have := gcd_ne_one_of_dvd hd (by omega)
  rwa [Int.gcd, ← Int.toNat_of_nonneg (by omega : 0 ≤ e), ← Int.toNat_of_nonneg (by omega : 0 ≤ prod),
    Int.natAbs_natCast, Int.natAbs_natCast] at this

/-! ### `Witness.update`: the revoked exit, monotonicity of the index, validity -/

/-- the exit taken when the witness value and the removed product have no Bezout pair. -/
theorem update_revoked {pk : PublicKey} {w : Witness} {upd upd' : Update} {newAcc : SAcc}
    {prod : Int} (hv : upd.verify pk = some newAcc) (hne : upd.events ≠ [])
    (hidx : w.sacc.index < newAcc.index)
    (hstart : (upd.events.head?.map (·.index)).getD 0 ≤ w.sacc.index + 1)
    (hp : upd.productFrom (w.sacc.index + 1) = some (prod, upd'))
    (hg : (xgcd w.e.toNat prod.toNat).1 ≠ 1) :
    w.update pk upd = (.revoked, w, upd') := by
  have hb := update_branch pk w upd
  obtain rfl := verify_some hv
  generalize w.update pk upd = r at hb ⊢
  cases hb with
  | verifyFail h => rw [hv] at h; exact absurd h (by simp)
  | sameIndexOlder _ h => omega
  | sameIndexNewer _ h => omega
  | noEvents _ _ h => exact absurd h hne
  | older _ _ _ h => omega
  | tooNew _ _ _ h => omega
  | productPanic _ _ _ _ h => rw [hp] at h; exact absurd h (by simp)
  | revoked prod₁ upd₁ _ _ _ _ h =>
    rw [hp] at h; obtain ⟨rfl, rfl⟩ := Prod.mk.inj (Option.some.inj h); rfl
  | expPanic prod₁ upd₁ _ _ _ _ h h' =>
    rw [hp] at h; obtain ⟨rfl, rfl⟩ := Prod.mk.inj (Option.some.inj h); exact absurd h' hg
  | updated prod₁ upd₁ _ _ _ _ _ _ h h' =>
    rw [hp] at h; obtain ⟨rfl, rfl⟩ := Prod.mk.inj (Option.some.inj h); exact absurd h' hg
  | invalidated prod₁ upd₁ _ _ _ _ _ _ h h' =>
    rw [hp] at h; obtain ⟨rfl, rfl⟩ := Prod.mk.inj (Option.some.inj h); exact absurd h' hg

/-- the witness never moves to an accumulator with a smaller index; `e` never changes. -/
theorem update_index_mono (pk : PublicKey) (w : Witness) (upd : Update) :
    w.sacc.index ≤ (w.update pk upd).2.1.sacc.index ∧ (w.update pk upd).2.1.e = w.e := by
  have hb := update_branch pk w upd
  generalize w.update pk upd = r at hb ⊢
  cases hb <;> first | exact ⟨Nat.le_refl _, rfl⟩ | (refine ⟨?_, rfl⟩; simp only; omega)

/-- after an update the witness carries either the accumulator it had or the one of the update;
    and it carries the one of the update whenever that one is strictly newer in index and `ok`
    was returned for a non-empty update. -/
theorem update_sacc_cases (pk : PublicKey) (w : Witness) (upd : Update) :
    (w.update pk upd).2.1 = w ∨
      ((w.update pk upd).1 = .ok ∧ (w.update pk upd).2.1.sacc = upd.sacc ∧
        upd.verify pk = some upd.sacc) := by
  have hb := update_branch pk w upd
  generalize w.update pk upd = r at hb ⊢
  cases hb <;> first | exact Or.inl rfl | (rename_i hv _ _; exact Or.inr ⟨rfl, rfl, hv⟩) | skip
  all_goals (right; exact ⟨rfl, rfl, by assumption⟩)

/-- `ok` means: still valid. In the exit that recomputes `u` validity has literally been
    re-checked; in the exits that keep the witness nothing changes; in the remaining exit (same
    index, later time: only the signed accumulator is replaced) validity needs the two
    accumulators of equal index to have the same value – this is *not* checked by the code. -/
theorem update_ok_valid (pk : PublicKey) (w : Witness) (upd : Update)
    (hok : (w.update pk upd).1 = .ok) (hw : witnessValid pk w = true)
    (hsame : upd.sacc.index = w.sacc.index → w.sacc.time < upd.sacc.time →
      upd.sacc.nu = w.sacc.nu) :
    witnessValid pk (w.update pk upd).2.1 = true := by
  have hb := update_branch pk w upd
  generalize w.update pk upd = r at hb hok ⊢
  cases hb with
  | sameIndexNewer _ h1 h2 =>
    unfold witnessValid at hw ⊢
    simp only
    rw [hsame h1 (by omega)]; exact hw
  | updated prod upd' ub na _ _ _ _ _ _ _ _ h =>
    unfold witnessValid
    simp only [h, beq_self_eq_true]
  | _ => exact hw

/-- in the exit that changes `u`, the new witness is valid whether or not the old one was. -/
theorem update_changed_valid (pk : PublicKey) (w : Witness) (upd : Update)
    (hok : (w.update pk upd).1 = .ok) (hch : (w.update pk upd).2.1.u ≠ w.u) :
    witnessValid pk (w.update pk upd).2.1 = true := by
  have hb := update_branch pk w upd
  generalize w.update pk upd = r at hb hok hch ⊢
  cases hb with
  | updated prod upd' ub na _ _ _ _ _ _ _ _ h =>
    unfold witnessValid
    simp only [h, beq_self_eq_true]
  | _ => exact absurd rfl hch

def toyParams : SysParams :=
  { LePrime := 3, Lh := 8, Lm := 8, Ln := 7, Lstatzk := 1, Le := 4, LeCommit := 12, LmCommit := 17,
    LRA := 8, LsCommit := 18, Lv := 20, LvCommit := 29, LvPrime := 8, LvPrimeCommit := 300 }

/-- `n = 7·11`; the squares modulo 77 form a group of order 15. -/
def toyKey : PublicKey :=
  { n := 77, z := 9, s := 4, g := none, h := none, r := [16, 25, 36], counter := 0,
    params := toyParams, hasEcdsa := true, issuer := "toy" }

/-! ### multihash framing: varints and `hashDecode` -/

theorem uvarint_go_append (t : List UInt8) (fuel : Nat) (bs : List UInt8) (shift acc n v : Nat)
    (rest : List UInt8) (h : uvarint.go fuel bs shift acc n = some (v, rest)) :
    uvarint.go fuel (bs ++ t) shift acc n = some (v, rest ++ t) := by
  induction fuel generalizing bs shift acc n with
  | zero => simp [uvarint.go] at h
  | succ fuel ih =>
    cases bs with
    | nil => simp [uvarint.go] at h
    | cons b bs =>
      simp only [uvarint.go, List.cons_append] at h ⊢
      split
      · rename_i hb
        rw [if_pos hb] at h
        split
        · rename_i hz; rw [if_pos hz] at h; exact absurd h (by simp)
        · rename_i hz; rw [if_neg hz] at h
          obtain ⟨rfl, rfl⟩ := Prod.mk.inj (Option.some.inj h); rfl
      · rename_i hb
        rw [if_neg hb] at h
        exact ih _ _ _ _ h

/-- a varint followed by anything decodes to the same value, leaving the rest. -/
theorem uvarint_append {bs rest : List UInt8} {v : Nat} (h : uvarint bs = some (v, rest))
    (t : List UInt8) : uvarint (bs ++ t) = some (v, rest ++ t) :=
  uvarint_go_append t 9 bs 0 0 0 v rest h

theorem uvarint_go_length (fuel : Nat) (bs : List UInt8) (shift acc n v : Nat)
    (rest : List UInt8) (h : uvarint.go fuel bs shift acc n = some (v, rest)) :
    rest.length < bs.length := by
  induction fuel generalizing bs shift acc n with
  | zero => simp [uvarint.go] at h
  | succ fuel ih =>
    cases bs with
    | nil => simp [uvarint.go] at h
    | cons b bs =>
      simp only [uvarint.go] at h
      split at h
      · split at h
        · exact absurd h (by simp)
        · obtain ⟨rfl, rfl⟩ := Prod.mk.inj (Option.some.inj h); simp
      · have := ih _ _ _ _ h
        simp only [List.length_cons]; omega

/-- minimal encoding: a continuation byte forces the value above the current weight. -/
theorem uvarint_go_ge (fuel : Nat) (bs : List UInt8) (shift acc n v : Nat)
    (rest : List UInt8) (hn : 0 < n) (h : uvarint.go fuel bs shift acc n = some (v, rest)) :
    acc + 2 ^ shift ≤ v := by
  induction fuel generalizing bs shift acc n with
  | zero => simp [uvarint.go] at h
  | succ fuel ih =>
    cases bs with
    | nil => simp [uvarint.go] at h
    | cons b bs =>
      simp only [uvarint.go] at h
      split at h
      · split at h
        · exact absurd h (by simp)
        · rename_i hz
          obtain ⟨rfl, rfl⟩ := Prod.mk.inj (Option.some.inj h)
          have hb : 1 ≤ b.toNat := by
            by_contra hc
            exact hz ⟨by omega, hn⟩
          have := Nat.mul_le_mul_right (2 ^ shift) hb
          omega
      · have := ih _ _ _ _ (Nat.succ_pos n) h
        have h2 : 2 ^ (shift + 7) = 128 * 2 ^ shift := by rw [pow_add]; ring
        have : 0 ≤ (b.toNat - 128) * 2 ^ shift := Nat.zero_le _
        have hp : 0 < 2 ^ shift := Nat.pow_pos (by norm_num)
        omega

/-- values below 128 have exactly one encoding: the single byte. -/
theorem uvarint_small {bs rest : List UInt8} {v : Nat} (h : uvarint bs = some (v, rest))
    (hv : v < 128) : bs = v.toUInt8 :: rest := by
  unfold uvarint at h
  cases bs with
  | nil => simp [uvarint.go] at h
  | cons b bs =>
    simp only [uvarint.go] at h
    split at h
    · split at h
      · exact absurd h (by simp)
      · obtain ⟨rfl, rfl⟩ := Prod.mk.inj (Option.some.inj h)
        simp
    · have := uvarint_go_ge _ _ _ _ _ _ _ (by norm_num) h
      omega

theorem uvarint_single (b : UInt8) (r : List UInt8) (hb : b.toNat < 128) :
    uvarint (b :: r) = some (b.toNat, r) := by
  simp [uvarint, uvarint.go, hb]

theorem hashDecode_eq_some_iff (h : Hash) (d : List UInt8) :
    hashDecode h = some d ↔
      2 ≤ h.length ∧ ∃ rest, uvarint h = some (sha2_256Code, rest) ∧
        uvarint rest = some (d.length, d) ∧ d.length ≤ 2 ^ 31 - 1 := by
  unfold hashDecode
  by_cases hl : h.length < 2
  · simp only [hl, if_true, reduceCtorEq, false_iff]
    rintro ⟨h2, -⟩; omega
  · rw [if_neg hl]
    cases h1 : uvarint h with
    | none => simp
    | some r =>
      obtain ⟨code, rest⟩ := r
      simp only
      cases h2 : uvarint rest with
      | none =>
        simp only [reduceCtorEq, Option.some.injEq, Prod.mk.injEq, false_iff]
        rintro ⟨-, rest', ⟨-, rfl⟩, h3, -⟩
        rw [h2] at h3; exact absurd h3 (by simp)
      | some r2 =>
        obtain ⟨len, digest⟩ := r2
        simp only
        constructor
        · intro hh
          split at hh
          · exact absurd hh (by simp)
          · split at hh
            · exact absurd hh (by simp)
            · split at hh
              · exact absurd hh (by simp)
              · rename_i a b c
                obtain rfl := Option.some.inj hh
                have b' : digest.length = len := by simpa using b
                have c' : code = sha2_256Code := by simpa using c
                subst b' c'
                exact ⟨by omega, rest, rfl, by rw [h2], by omega⟩
        · rintro ⟨-, rest', h3, h4, h5⟩
          obtain ⟨rfl, rfl⟩ := Prod.mk.inj (Option.some.inj h3)
          rw [h2] at h4
          obtain ⟨rfl, rfl⟩ := Prod.mk.inj (Option.some.inj h4)
          rw [if_neg (by omega), if_neg (by simp), if_neg (by simp)]

/-- **self-delimiting**: no proper extension (hence no proper truncation) of a well-formed hash
    is well-formed. -/
theorem hashAlgOk_append {h t : Hash} (h1 : hashAlgOk h = true) (h2 : hashAlgOk (h ++ t) = true) :
    t = [] := by
  unfold hashAlgOk at h1 h2
  obtain ⟨d, hd⟩ := Option.isSome_iff_exists.mp h1
  obtain ⟨d', hd'⟩ := Option.isSome_iff_exists.mp h2
  obtain ⟨-, rest, ha, hb, -⟩ := (hashDecode_eq_some_iff _ _).mp hd
  obtain ⟨-, rest', ha', hb', -⟩ := (hashDecode_eq_some_iff _ _).mp hd'
  rw [uvarint_append ha t] at ha'
  obtain ⟨-, rfl⟩ := Prod.mk.inj (Option.some.inj ha')
  rw [uvarint_append hb t] at hb'
  obtain ⟨hlen, rfl⟩ := Prod.mk.inj (Option.some.inj hb')
  simpa using hlen

/-- two well-formed hashes, each followed by arbitrary bytes: if the concatenations agree, the
    hashes agree (and so do the remainders). -/
theorem hashAlgOk_append_inj {a b x y : List UInt8} (ha : hashAlgOk a = true)
    (hb : hashAlgOk b = true) (h : a ++ x = b ++ y) : a = b ∧ x = y := by
  rcases List.append_eq_append_iff.mp h with ⟨c, rfl, rfl⟩ | ⟨c, rfl, rfl⟩
  · obtain rfl := hashAlgOk_append ha hb; simp
  · obtain rfl := hashAlgOk_append hb ha; simp

/-- digests shorter than 128 bytes: the frame is `0x12 ‖ length ‖ digest`, nothing else. -/
theorem hashDecode_short {h : Hash} {d : List UInt8} (hd : hashDecode h = some d)
    (hlen : d.length < 128) : h = 0x12 :: d.length.toUInt8 :: d := by
  obtain ⟨-, rest, ha, hb, -⟩ := (hashDecode_eq_some_iff _ _).mp hd
  have h1 := uvarint_small ha (by decide)
  have h2 := uvarint_small hb hlen
  rw [h1, h2]; rfl

theorem hashDecode_frame (d : List UInt8) (hlen : d.length < 128) :
    hashDecode (0x12 :: d.length.toUInt8 :: d) = some d := by
  rw [hashDecode_eq_some_iff]
  have hl : (d.length.toUInt8).toNat = d.length := by
    simp; omega
  refine ⟨by simp, d.length.toUInt8 :: d, uvarint_single _ _ (by decide), ?_, by omega⟩
  have := uvarint_single d.length.toUInt8 d (by omega)
  rw [hl] at this; exact this

/-- the hash of an event is always a well-formed SHA2-256 multihash. -/
theorem hashAlgOk_eventHash (ev : Event) : hashAlgOk ev.hash = true := by
  unfold hashAlgOk Event.hash
  have := hashDecode_frame (Sha256.hash ev.hashBytes) (by rw [Sha256.hash_length]; norm_num)
  rw [Sha256.hash_length] at this
  rw [show (0x20 : UInt8) = (32 : Nat).toUInt8 from rfl, this]; rfl

/-- a well-formed hash has at least two bytes (so the empty hash is never accepted). -/
theorem hashAlgOk_length {h : Hash} (hh : hashAlgOk h = true) : 2 ≤ h.length := by
  obtain ⟨d, hd⟩ := Option.isSome_iff_exists.mp hh
  exact ((hashDecode_eq_some_iff _ _).mp hd).1

/-! ### the bytes hashed for an event determine the event -/

theorem be64_length (n : Nat) : (be64 n).length = 8 := Der.toBytesFixed_length 8 n

theorem be64_injective {a b : Nat} (ha : a < 2 ^ 64) (hb : b < 2 ^ 64) (h : be64 a = be64 b) :
    a = b :=
  Der.toBytesFixed_injective (k := 8) (by norm_num at ha ⊢; exact ha) (by norm_num at hb ⊢; exact hb) h

theorem intBytes_injective_nonneg {a b : Int} (ha : 0 ≤ a) (hb : 0 ≤ b)
    (h : intBytes a = intBytes b) : a = b := by
  unfold intBytes at h
  have := congrArg ofBytesBE h
  rw [ofBytesBE_natBytesBE, ofBytesBE_natBytesBE] at this
  omega

/-- index (8 bytes) ‖ well-formed parent hash ‖ minimal bytes of a non-negative `E`
    is an injective encoding. -/
theorem event_hashBytes_injective {e1 e2 : Event}
    (h1 : hashAlgOk e1.parentHash = true) (h2 : hashAlgOk e2.parentHash = true)
    (p1 : 0 ≤ e1.e) (p2 : 0 ≤ e2.e) (i1 : e1.index < 2 ^ 64) (i2 : e2.index < 2 ^ 64)
    (h : e1.hashBytes = e2.hashBytes) : e1 = e2 := by
  unfold Event.hashBytes at h
  rw [List.append_assoc, List.append_assoc] at h
  obtain ⟨ha, hb⟩ := List.append_inj h (by rw [be64_length, be64_length])
  obtain ⟨hc, hd⟩ := hashAlgOk_append_inj h1 h2 hb
  have hi := be64_injective i1 i2 ha
  have he := intBytes_injective_nonneg p1 p2 hd
  cases e1; cases e2; simp_all

/-- equal event hashes: equal events, or an explicit SHA-256 collision. -/
theorem event_hash_binds {e1 e2 : Event}
    (h1 : hashAlgOk e1.parentHash = true) (h2 : hashAlgOk e2.parentHash = true)
    (p1 : 0 ≤ e1.e) (p2 : 0 ≤ e2.e) (i1 : e1.index < 2 ^ 64) (i2 : e2.index < 2 ^ 64)
    (h : e1.hash = e2.hash) :
    e1 = e2 ∨ (e1.hashBytes ≠ e2.hashBytes ∧
      Sha256.hash e1.hashBytes = Sha256.hash e2.hashBytes) := by
  by_cases hb : e1.hashBytes = e2.hashBytes
  · exact Or.inl (event_hashBytes_injective h1 h2 p1 p2 i1 i2 hb)
  · right
    refine ⟨hb, ?_⟩
    unfold Event.hash at h
    exact List.tail_eq_of_cons_eq (List.tail_eq_of_cons_eq h)

/-- without well-formedness of the parent hash the encoding is ambiguous: a byte can be moved
    from the end of the parent hash to the front of `E`. -/
def ambiguousEvent1 : Event := { index := 0, e := 7, parentHash := [0x12, 0x01, 0x05] }
def ambiguousEvent2 : Event := { index := 0, e := 0x0507, parentHash := [0x12, 0x01] }

theorem ambiguous_hashBytes :
    ambiguousEvent1 ≠ ambiguousEvent2 ∧
      ambiguousEvent1.hashBytes = ambiguousEvent2.hashBytes ∧
      hashAlgOk ambiguousEvent1.parentHash = true ∧
      hashAlgOk ambiguousEvent2.parentHash = false := by
  refine ⟨by decide, by decide, by decide, by decide⟩

/-! ### the product cache of an update object -/

/-- what `Update.Product(from)` computes on an object without cache: the product of the values of
    the events with index `≥ frm` (`none`: slice bounds out of range, a Go panic). -/
def trueProduct (events : List Event) (frm : Nat) : Option Int :=
  match events.head? with
  | none => some 1
  | some h =>
    if frm < h.index ∨ frm - h.index > events.length then none
    else some (((events.drop (frm - h.index)).map (·.e)).foldl (· * ·) 1)

/-- the cache invariant: a cached product is the true product for the cached start index. -/
def CacheOk (u : Update) : Prop :=
  ∀ p f, u.product = some (p, f) → trueProduct u.events f = some p

theorem cacheOk_none (u : Update) (h : u.product = none) : CacheOk u := by
  intro p f hp; rw [h] at hp; exact absurd hp (by simp)

theorem cacheOk_fresh (sacc : SAcc) (events : List Event) :
    CacheOk { sacc := sacc, events := events } := cacheOk_none _ rfl

/-- on a coherent object `productFrom` returns the true product – whatever the cache contains –
    and leaves a coherent object with the same accumulator and events. -/
theorem productFrom_coherent (u : Update) (frm : Nat) (hc : CacheOk u) :
    (trueProduct u.events frm = none ∧ u.productFrom frm = none) ∨
    ∃ p u', trueProduct u.events frm = some p ∧ u.productFrom frm = some (p, u') ∧
      u'.sacc = u.sacc ∧ u'.events = u.events ∧ CacheOk u' := by
  unfold Update.productFrom
  cases hpr : u.product with
  | some c =>
    obtain ⟨p, f⟩ := c
    have hpf := hc p f hpr
    simp only
    by_cases hcond : f = frm ∨ u.events.isEmpty = true
    · rw [if_pos hcond]
      right
      refine ⟨p, u, ?_, rfl, rfl, rfl, hc⟩
      rcases hcond with rfl | he
      · exact hpf
      · have : u.events = [] := by simpa using he
        unfold trueProduct at hpf ⊢
        rw [this] at hpf ⊢
        simpa using hpf
    · rw [if_neg hcond]
      unfold trueProduct
      cases hh : u.events.head? with
      | none =>
        exfalso; apply hcond; right
        cases hev : u.events with
        | nil => rfl
        | cons a l => rw [hev] at hh; simp at hh
      | some h =>
        simp only
        by_cases hb : frm < h.index ∨ frm - h.index > u.events.length
        · rw [if_pos hb, if_pos hb]; exact Or.inl ⟨rfl, rfl⟩
        · rw [if_neg hb, if_neg hb]
          right
          refine ⟨_, _, rfl, rfl, rfl, rfl, ?_⟩
          intro p' f' hp'
          simp only [Option.some.injEq, Prod.mk.injEq] at hp'
          obtain ⟨rfl, rfl⟩ := hp'
          unfold trueProduct
          simp only [hh, if_neg hb]
  | none =>
    simp only
    unfold trueProduct
    cases hh : u.events.head? with
    | none =>
      right
      refine ⟨1, _, rfl, rfl, rfl, rfl, ?_⟩
      intro p' f' hp'
      simp only [Option.some.injEq, Prod.mk.injEq] at hp'
      obtain ⟨rfl, rfl⟩ := hp'
      unfold trueProduct
      simp only [hh]
    | some h =>
      simp only
      by_cases hb : frm < h.index ∨ frm - h.index > u.events.length
      · rw [if_pos hb, if_pos hb]; exact Or.inl ⟨rfl, rfl⟩
      · rw [if_neg hb, if_neg hb]
        right
        refine ⟨_, _, rfl, rfl, rfl, rfl, ?_⟩
        intro p' f' hp'
        simp only [Option.some.injEq, Prod.mk.injEq] at hp'
        obtain ⟨rfl, rfl⟩ := hp'
        unfold trueProduct
        simp only [hh, if_neg hb]

/-- functional form: the value returned is the true product. -/
theorem productFrom_value (u : Update) (frm : Nat) (hc : CacheOk u) :
    (u.productFrom frm).map (·.1) = trueProduct u.events frm := by
  rcases productFrom_coherent u frm hc with ⟨h1, h2⟩ | ⟨p, u', h1, h2, -⟩
  · rw [h1, h2]; rfl
  · rw [h1, h2]; rfl

/-- the object `u` with its cache emptied. -/
def Update.fresh (u : Update) : Update := { u with product := none }

theorem fresh_cacheOk (u : Update) : CacheOk u.fresh := cacheOk_none _ rfl

/-- `Witness.update` sees the update object only through its accumulator, its events and the
    value returned by `productFrom`. -/
theorem update_congr (pk : PublicKey) (w : Witness) (s : SAcc) (ev : List Event)
    (c1 c2 : Option (Int × Nat))
    (h : ((Update.mk s ev c1).productFrom (w.sacc.index + 1)).map (·.1) =
         ((Update.mk s ev c2).productFrom (w.sacc.index + 1)).map (·.1)) :
    (w.update pk ⟨s, ev, c1⟩).1 = (w.update pk ⟨s, ev, c2⟩).1 ∧
    (w.update pk ⟨s, ev, c1⟩).2.1 = (w.update pk ⟨s, ev, c2⟩).2.1 := by
  unfold Witness.update
  have hv : Update.verify pk ⟨s, ev, c1⟩ = Update.verify pk ⟨s, ev, c2⟩ := rfl
  rw [hv]
  cases Update.verify pk ⟨s, ev, c2⟩ with
  | none => exact ⟨rfl, rfl⟩
  | some newAcc =>
    simp only
    split_ifs
    any_goals exact ⟨rfl, rfl⟩
    cases h1 : (Update.mk s ev c1).productFrom (w.sacc.index + 1) with
    | none =>
      cases h2 : (Update.mk s ev c2).productFrom (w.sacc.index + 1) with
      | none => exact ⟨rfl, rfl⟩
      | some r2 => rw [h1, h2] at h; simp at h
    | some r1 =>
      cases h2 : (Update.mk s ev c2).productFrom (w.sacc.index + 1) with
      | none => rw [h1, h2] at h; simp at h
      | some r2 =>
        rw [h1, h2] at h
        obtain ⟨p1, u1⟩ := r1
        obtain ⟨p2, u2⟩ := r2
        simp only [Option.map_some, Option.some.injEq] at h
        subst h
        simp only
        split_ifs
        · exact ⟨rfl, rfl⟩
        · split
          · split_ifs <;> exact ⟨rfl, rfl⟩
          · exact ⟨rfl, rfl⟩

/-- **one update object shared by several witnesses**: with a coherent cache (in particular any
    cache left behind by earlier `Witness.update`/`productFrom` calls) the result and the witness
    are the same as with a fresh copy of the object, and the object stays coherent, with the same
    accumulator and events. -/
theorem update_shared (pk : PublicKey) (w : Witness) (upd : Update) (hc : CacheOk upd) :
    (w.update pk upd).1 = (w.update pk upd.fresh).1 ∧
    (w.update pk upd).2.1 = (w.update pk upd.fresh).2.1 := by
  obtain ⟨s, ev, c⟩ := upd
  apply update_congr
  rw [productFrom_value _ _ hc, productFrom_value _ _ (cacheOk_none _ rfl)]

/-- the object returned by `Witness.update` is the object given or the one `productFrom`
    returned: same accumulator, same events, coherent cache. -/
theorem update_object (pk : PublicKey) (w : Witness) (upd : Update) (hc : CacheOk upd) :
    (w.update pk upd).2.2.sacc = upd.sacc ∧ (w.update pk upd).2.2.events = upd.events ∧
    CacheOk (w.update pk upd).2.2 := by
  have hb := update_branch pk w upd
  have hP := productFrom_coherent upd (w.sacc.index + 1) hc
  generalize w.update pk upd = r at hb ⊢
  cases hb
  case revoked prod upd' _ _ _ _ hp _ | expPanic prod upd' _ _ _ _ hp _ _ |
      updated prod upd' _ _ _ _ _ _ hp _ _ _ _ | invalidated prod upd' _ _ _ _ _ _ hp _ _ _ _ =>
    rcases hP with ⟨-, h2⟩ | ⟨p, u', -, h2, h3, h4, h5⟩
    · rw [hp] at h2; exact absurd h2 (by simp)
    · rw [hp] at h2
      obtain ⟨rfl, rfl⟩ := Prod.mk.inj (Option.some.inj h2)
      exact ⟨h3, h4, h5⟩
  all_goals exact ⟨rfl, rfl, hc⟩

theorem fresh_eq_of {u1 u2 : Update} (hs : u1.sacc = u2.sacc) (he : u1.events = u2.events) :
    u1.fresh = u2.fresh := by
  cases u1; cases u2; simp_all [Update.fresh]

/-- one update object handed from witness to witness (each call may fill or replace the cache). -/
def updateAll (pk : PublicKey) (upd : Update) : List Witness → List (UpdateResult × Witness) × Update
  | [] => ([], upd)
  | w :: ws =>
    let r := w.update pk upd
    let rest := updateAll pk r.2.2 ws
    ((r.1, r.2.1) :: rest.1, rest.2)

theorem updateAll_eq_fresh (pk : PublicKey) (upd : Update) (hc : CacheOk upd) (ws : List Witness) :
    (updateAll pk upd ws).1 =
      ws.map (fun w => ((w.update pk upd.fresh).1, (w.update pk upd.fresh).2.1)) := by
  induction ws generalizing upd with
  | nil => rfl
  | cons w ws ih =>
    obtain ⟨h1, h2⟩ := update_shared pk w upd hc
    obtain ⟨h3, h4, h5⟩ := update_object pk w upd hc
    simp only [updateAll, List.map_cons, List.cons.injEq, Prod.mk.injEq]
    refine ⟨⟨h1, h2⟩, ?_⟩
    rw [ih _ h5, fresh_eq_of h3 h4]

/-! ### an accepted chain is determined by the hash it ends in -/

/-- an explicit SHA-256 collision. -/
def Sha256Collision : Prop := ∃ a b : List UInt8, a ≠ b ∧ Sha256.hash a = Sha256.hash b

/-- the side conditions under which the hashed bytes determine the event (`E ≥ 0`, the index
    fits `uint64` – both hold for every value the Go types can represent). -/
def Event.InRange (ev : Event) : Prop := 0 ≤ ev.e ∧ ev.index < 2 ^ 64

theorem isChain_parent_ok {l : List Event}
    (hc : List.IsChain (fun a b : Event => a.hashEquals b.parentHash = true) l)
    (hf : ∀ f, l.head? = some f → hashAlgOk f.parentHash = true) :
    ∀ e ∈ l, hashAlgOk e.parentHash = true := by
  induction l with
  | nil => simp
  | cons a t ih =>
    intro e he
    rcases List.mem_cons.mp he with rfl | he
    · exact hf _ rfl
    · cases t with
      | nil => simp at he
      | cons b t' =>
        rw [List.isChain_cons_cons] at hc
        exact ih hc.2 (fun f hf' => by
          simp only [List.head?_cons, Option.some.injEq] at hf'
          subst hf'
          exact ((hashEquals_iff _ _).mp hc.1).1) e he

/-- every event of an accepted list carries a well-formed parent hash. -/
theorem eventsVerify_parent_ok {evs : List Event} {h : Hash} (hv : eventsVerify evs h = true) :
    ∀ e ∈ evs, hashAlgOk e.parentHash = true := by
  rcases (eventsVerify_spec evs h).mp hv with rfl | ⟨-, hf, hc, -⟩
  · simp
  · exact isChain_parent_ok hc hf

theorem revChain_prefix (hinj : ¬ Sha256Collision) (r1 r2 : List Event)
    (c1 : List.IsChain (fun b a : Event => a.hashEquals b.parentHash = true) r1)
    (c2 : List.IsChain (fun b a : Event => a.hashEquals b.parentHash = true) r2)
    (p1 : ∀ e ∈ r1, hashAlgOk e.parentHash = true ∧ e.InRange)
    (p2 : ∀ e ∈ r2, hashAlgOk e.parentHash = true ∧ e.InRange)
    (hh : ∀ a b, r1.head? = some a → r2.head? = some b → a.hash = b.hash) :
    r1 <+: r2 ∨ r2 <+: r1 := by
  induction r1 generalizing r2 with
  | nil => exact Or.inl List.nil_prefix
  | cons a t1 ih =>
    cases r2 with
    | nil => exact Or.inr List.nil_prefix
    | cons b t2 =>
      have hab := hh a b rfl rfl
      obtain ⟨ha, ha1, ha2⟩ := p1 a (by simp)
      obtain ⟨hb, hb1, hb2⟩ := p2 b (by simp)
      have : a = b := by
        rcases event_hash_binds ha hb ha1 hb1 ha2 hb2 hab with h | ⟨h1, h2⟩
        · exact h
        · exact absurd ⟨_, _, h1, h2⟩ hinj
      subst this
      have c1' : List.IsChain (fun b a : Event => a.hashEquals b.parentHash = true) t1 := by
        cases t1 with
        | nil => exact List.isChain_nil
        | cons _ _ => exact (List.isChain_cons_cons.mp c1).2
      have c2' : List.IsChain (fun b a : Event => a.hashEquals b.parentHash = true) t2 := by
        cases t2 with
        | nil => exact List.isChain_nil
        | cons _ _ => exact (List.isChain_cons_cons.mp c2).2
      have := ih t2 c1' c2' (fun e he => p1 e (List.mem_cons_of_mem _ he))
        (fun e he => p2 e (List.mem_cons_of_mem _ he)) (by
          intro a' b' h1 h2
          cases t1 with
          | nil => simp at h1
          | cons x t1' =>
            cases t2 with
            | nil => simp at h2
            | cons y t2' =>
              simp only [List.head?_cons, Option.some.injEq] at h1 h2
              subst h1 h2
              rw [((hashEquals_iff _ _).mp (List.isChain_cons_cons.mp c1).1).2,
                ((hashEquals_iff _ _).mp (List.isChain_cons_cons.mp c2).1).2])
      rcases this with h | h
      · exact Or.inl ((List.prefix_cons_inj a).mpr h)
      · exact Or.inr ((List.prefix_cons_inj a).mpr h)

/-- two event lists accepted for the same accumulator hash: one is a suffix of the other, or a
    SHA-256 collision exists. -/
theorem chain_suffix {l1 l2 : List Event} {h : Hash}
    (v1 : eventsVerify l1 h = true) (v2 : eventsVerify l2 h = true)
    (r1 : ∀ e ∈ l1, e.InRange) (r2 : ∀ e ∈ l2, e.InRange) :
    l1 <:+ l2 ∨ l2 <:+ l1 ∨ Sha256Collision := by
  by_cases hinj : Sha256Collision
  · exact Or.inr (Or.inr hinj)
  have ok1 := eventsVerify_parent_ok v1
  have ok2 := eventsVerify_parent_ok v2
  rcases (eventsVerify_spec l1 h).mp v1 with rfl | ⟨⟨last1, hl1, hh1⟩, -, c1, -⟩
  · exact Or.inl (List.nil_suffix)
  rcases (eventsVerify_spec l2 h).mp v2 with rfl | ⟨⟨last2, hl2, hh2⟩, -, c2, -⟩
  · exact Or.inr (Or.inl List.nil_suffix)
  have := revChain_prefix hinj l1.reverse l2.reverse (List.isChain_reverse.mpr c1)
    (List.isChain_reverse.mpr c2)
    (fun e he => ⟨ok1 e (List.mem_reverse.mp he), r1 e (List.mem_reverse.mp he)⟩)
    (fun e he => ⟨ok2 e (List.mem_reverse.mp he), r2 e (List.mem_reverse.mp he)⟩)
    (by
      intro a b ha hb
      rw [List.head?_reverse] at ha hb
      rw [hl1] at ha; rw [hl2] at hb
      obtain rfl := Option.some.inj ha
      obtain rfl := Option.some.inj hb
      rw [((hashEquals_iff _ _).mp hh1).2, ((hashEquals_iff _ _).mp hh2).2])
  rcases this with h | h
  · exact Or.inl (List.reverse_prefix.mp h)
  · exact Or.inr (Or.inl (List.reverse_prefix.mp h))

/-- … in particular two accepted lists of the same length are equal. -/
theorem chain_binds {l1 l2 : List Event} {h : Hash}
    (v1 : eventsVerify l1 h = true) (v2 : eventsVerify l2 h = true)
    (r1 : ∀ e ∈ l1, e.InRange) (r2 : ∀ e ∈ l2, e.InRange) (hlen : l1.length = l2.length) :
    l1 = l2 ∨ Sha256Collision := by
  rcases chain_suffix v1 v2 r1 r2 with h | h | h
  · exact Or.inl (h.eq_of_length hlen)
  · exact Or.inl (h.eq_of_length hlen.symm).symm
  · exact Or.inr h

/-! ### an honest history of removals, in an arbitrary commutative group -/
section History
variable {G : Type*} [CommGroup G]

/-- accumulator after the first `k` removals: `ν₀ ^ (d₁⋯d_k)` (`d_i = e_i⁻¹ mod ord`, as in
    `Accumulator.Remove`). -/
def accAt (ν₀ : G) (ds : List ℤ) (k : ℕ) : G := ν₀ ^ (ds.take k).prod

/-- product of the values removed by the events with index in `(i, j]`. -/
def window (es : List ℤ) (i j : ℕ) : ℤ := ((es.drop i).take (j - i)).prod

/-- `d_k` inverts `e_k` modulo the group order, for every `k`. -/
def InvPairs (ord : ℤ) (es ds : List ℤ) : Prop :=
  List.Forall₂ (fun e d : ℤ => d * e ≡ 1 [ZMOD ord]) es ds

theorem accAt_zero (ν₀ : G) (ds : List ℤ) : accAt ν₀ ds 0 = ν₀ := by simp [accAt]

theorem prod_inv_modEq {ord : ℤ} {es ds : List ℤ} (h : InvPairs ord es ds) :
    ds.prod * es.prod ≡ 1 [ZMOD ord] := by
  induction h with
  | nil => simp
  | cons hd _ ih =>
    rw [List.prod_cons, List.prod_cons]
    have := hd.mul ih
    rw [one_mul] at this
    refine Int.ModEq.trans ?_ this
    rw [show ∀ a b c d : ℤ, a * b * (c * d) = a * c * (b * d) from fun a b c d => by ring]

theorem zpow_eq_of_modEq {ν : G} {ord a b : ℤ} (hν : ν ^ ord = 1) (h : a ≡ b [ZMOD ord]) :
    ν ^ a = ν ^ b := by
  obtain ⟨t, ht⟩ := h.symm.dvd
  have : a = b + ord * t := by linear_combination ht
  rw [this, zpow_add, zpow_mul, hν, one_zpow, mul_one]

/-- **the chain lemma**: raising the later accumulator to the product of the values removed in
    between gives back the earlier accumulator. -/
theorem accAt_window {ν₀ : G} {ord : ℤ} {es ds : List ℤ} (hν : ν₀ ^ ord = 1)
    (h : InvPairs ord es ds) {i j : ℕ} (hij : i ≤ j) :
    accAt ν₀ ds j ^ window es i j = accAt ν₀ ds i := by
  unfold accAt window
  have hj : j = i + (j - i) := by omega
  conv_lhs => rw [hj, List.take_add, List.prod_append]
  have hw : InvPairs ord ((es.drop i).take (i + (j - i) - i)) ((ds.drop i).take (j - i)) := by
    rw [Nat.add_sub_cancel_left]
    exact List.forall₂_take _ (List.forall₂_drop _ h)
  have := prod_inv_modEq hw
  rw [← zpow_mul]
  apply zpow_eq_of_modEq hν
  have h2 := this.mul_left (List.take i ds).prod
  rw [mul_one, ← mul_assoc] at h2
  exact h2

theorem accAt_ord {ν₀ : G} {ord : ℤ} (hν : ν₀ ^ ord = 1) (ds : List ℤ) (k : ℕ) :
    accAt ν₀ ds k ^ ord = 1 := by
  unfold accAt
  rw [← zpow_mul, mul_comm, zpow_mul, hν, one_zpow]

theorem isCoprime_list_prod {e : ℤ} {l : List ℤ} (h : ∀ x ∈ l, IsCoprime e x) :
    IsCoprime e l.prod := by
  induction l with
  | nil => exact isCoprime_one_right
  | cons a t ih =>
    rw [List.prod_cons]
    exact IsCoprime.mul_right (h a (by simp)) (ih fun x hx => h x (List.mem_cons_of_mem _ hx))

theorem isCoprime_window {e : ℤ} {es : List ℤ} (h : ∀ x ∈ es, IsCoprime e x) (i j : ℕ) :
    IsCoprime e (window es i j) :=
  isCoprime_list_prod fun x hx => h x (List.mem_of_mem_drop (List.mem_of_mem_take hx))

/-- **the Bezout step along an honest history**: a witness for an unremoved value at index `i`
    is moved to any later index `j` by any Bezout pair for `e` and the removed product. -/
theorem honest_step {ν₀ u : G} {ord e a b : ℤ} {es ds : List ℤ} (hν : ν₀ ^ ord = 1)
    (h : InvPairs ord es ds) {i j : ℕ} (hij : i ≤ j) (hu : u ^ e = accAt ν₀ ds i)
    (hab : a * e + b * window es i j = 1) :
    (u ^ b * accAt ν₀ ds j ^ a) ^ e = accAt ν₀ ds j :=
  update_algebra hu (accAt_window hν h hij) hab

/-- a revoked value can never again get a witness against a later accumulator *by the update
    formula*: there is no Bezout pair. -/
theorem no_bezout_of_removed {e a b : ℤ} {es : List ℤ} {i j : ℕ} (he : e.natAbs ≠ 1)
    (hmem : e ∈ (es.drop i).take (j - i)) : a * e + b * window es i j ≠ 1 := by
  intro hab
  have hd : e ∣ window es i j := List.dvd_prod hmem
  have : IsCoprime e (window es i j) := ⟨a, b, hab⟩
  have hu : IsUnit e := this.isUnit_of_dvd' (dvd_refl e) hd
  exact he (Int.isUnit_iff_natAbs_eq.mp hu)

end History

/-! ### an honest issuer history in the model -/

theorem accRemove_some {n order nu : Int} {index : Nat} {e : Int} {parent : Event} {nu' : Int}
    {ev : Event} (h : accRemove n order nu index e parent = some (nu', ev)) :
    ∃ d, commonModInverse e order = some d ∧ goExp nu d n = some nu' ∧
      ev = { index := index + 1, e := e, parentHash := parent.hash } := by
  unfold accRemove at h
  cases hd : commonModInverse e order with
  | none => rw [hd] at h; simp at h
  | some d =>
    rw [hd] at h
    simp only [Option.bind_eq_bind, Option.bind_some] at h
    cases hg : goExp nu d n with
    | none => rw [hg] at h; simp at h
    | some x =>
      rw [hg] at h
      simp only [Option.bind_some, Option.pure_def, Option.some.injEq,
        Prod.mk.injEq] at h
      exact ⟨d, rfl, by rw [← h.1, hg], h.2.symm⟩

/-- the issuer's side of a revocation history: modulus `N`, an exponent `ord` annihilating the
    initial accumulator (`p'q'` for a quadratic residue), the removed values `es` in order and the
    accumulator values `nu 0, nu 1, …` produced by `Accumulator.Remove`. -/
structure Honest (pk : PublicKey) (N : ℕ) (ord : Int) (es : List Int) (nu : ℕ → Int) : Prop where
  n_eq : pk.n = (N : Int)
  n_gt : 1 < N
  ord_gt : 1 < ord
  base : goExp (nu 0) ord pk.n = some 1
  es_pos : ∀ x ∈ es, 0 < x
  step : ∀ k (hk : k < es.length), ∃ parent ev,
    accRemove pk.n ord (nu k) k es[k] parent = some (nu (k + 1), ev)

/-- the inverses `Accumulator.Remove` used. -/
def invList (ord : Int) (es : List Int) : List Int :=
  es.map fun e => (commonModInverse e ord).getD 0

theorem Honest.invPairs {pk : PublicKey} {N : ℕ} {ord : Int} {es : List Int} {nu : ℕ → Int}
    (H : Honest pk N ord es nu) : InvPairs ord es (invList ord es) := by
  unfold InvPairs invList
  rw [List.forall₂_map_right_iff, List.forall₂_same]
  intro x hx
  obtain ⟨k, hk, rfl⟩ := List.getElem_of_mem hx
  obtain ⟨parent, ev, hs⟩ := H.step k hk
  obtain ⟨d, hd, -, -⟩ := accRemove_some hs
  obtain ⟨-, -, h3⟩ := commonModInverse_some H.ord_gt hd
  rw [hd, Option.getD_some]
  unfold Int.ModEq
  rw [mul_comm, h3, Int.emod_eq_of_lt (by norm_num) H.ord_gt]

theorem Honest.units {pk : PublicKey} {N : ℕ} {ord : Int} {es : List Int} {nu : ℕ → Int}
    (H : Honest pk N ord es nu) :
    zunit N (nu 0) ^ ord = 1 ∧
    ∀ k, k ≤ es.length → IsUnit ((nu k : Int) : ZMod N) ∧
      zunit N (nu k) = accAt (zunit N (nu 0)) (invList ord es) k ∧
      (0 < k → 0 ≤ nu k ∧ nu k < N) := by
  have hb := H.base
  rw [H.n_eq] at hb
  have hord : (0 : Int) < ord := by have := H.ord_gt; omega
  refine ⟨zunit_pow_order H.n_gt hord hb, ?_⟩
  intro k
  induction k with
  | zero =>
    intro _
    exact ⟨isUnit_of_goExp_one (by have := H.n_gt; omega) hord hb, (accAt_zero _ _).symm,
      fun h => absurd h (by simp)⟩
  | succ k ih =>
    intro hk
    have hk' : k < es.length := by omega
    obtain ⟨hu, hz, -⟩ := ih (by omega)
    obtain ⟨parent, ev, hs⟩ := H.step k hk'
    obtain ⟨d, hd, hg, -⟩ := accRemove_some hs
    rw [H.n_eq] at hg
    obtain ⟨r0, r1, hc⟩ := goExp_unit_eq H.n_gt hu hg
    refine ⟨isUnit_of_cast hc, ?_, fun _ => ⟨r0, r1⟩⟩
    rw [zunit_of_cast hc, hz]
    unfold accAt
    rw [← zpow_mul]
    congr 1
    have hlen : k < (invList ord es).length := by simpa [invList] using hk'
    rw [List.take_add_one, List.getElem?_eq_getElem hlen, Option.toList_some, List.prod_append,
      List.prod_singleton]
    congr 1
    simp [invList, hd]

/-! ### honest updates applied to a non-revoked witness -/

/-- the witness `w` for the value `e` stands at index `idx` of the history. -/
structure TracksAt (pk : PublicKey) (nu : ℕ → Int) (e : Int) (w : Witness) (idx : ℕ) : Prop where
  index : w.sacc.index = idx
  nu : w.sacc.nu = nu idx
  e : w.e = e
  valid : witnessValid pk w = true

/-- an update message of the honest issuer for the events with index `frm..hi` (event `0` is the
    initial event with value 1, event `k ≥ 1` removes `es[k-1]`), possibly with a filled but
    coherent product cache. -/
structure HonestUpdate (pk : PublicKey) (es : List Int) (nu : ℕ → Int) (upd : Update)
    (frm hi : ℕ) : Prop where
  le : frm ≤ hi
  hi_le : hi ≤ es.length
  verified : upd.verify pk = some upd.sacc
  index : upd.sacc.index = hi
  nu : upd.sacc.nu = nu hi
  events_e : upd.events.map (·.e) = ((1 :: es).drop frm).take (hi + 1 - frm)
  start : upd.events.head?.map (·.index) = some frm
  cache : CacheOk upd

theorem HonestUpdate.length {pk : PublicKey} {es : List Int} {nu : ℕ → Int} {upd : Update}
    {frm hi : ℕ} (U : HonestUpdate pk es nu upd frm hi) : upd.events.length = hi + 1 - frm := by
  have := congrArg List.length U.events_e
  have h1 := U.le; have h2 := U.hi_le
  simp only [List.length_map, List.length_take, List.length_drop, List.length_cons] at this
  omega

theorem HonestUpdate.trueProduct {pk : PublicKey} {es : List Int} {nu : ℕ → Int} {upd : Update}
    {frm hi : ℕ} (U : HonestUpdate pk es nu upd frm hi) {idx : ℕ} (h1 : frm ≤ idx + 1)
    (h2 : idx < hi) : trueProduct upd.events (idx + 1) = some (window es idx hi) := by
  have hlen := U.length
  have hst := U.start
  unfold Rev.trueProduct
  cases hh : upd.events.head? with
  | none => rw [hh] at hst; simp at hst
  | some h =>
    rw [hh] at hst
    simp only [Option.map_some, Option.some.injEq] at hst
    simp only [hst]
    rw [if_neg (by omega)]
    congr 1
    rw [← List.prod_eq_foldl, List.map_drop, U.events_e, List.drop_take, List.drop_drop]
    unfold window
    have e1 : frm + (idx + 1 - frm) = idx + 1 := by omega
    have e2 : hi + 1 - frm - (idx + 1 - frm) = hi - idx := by omega
    rw [e1, e2, List.drop_succ_cons]

theorem window_pos {es : List Int} (h : ∀ x ∈ es, 0 < x) (i j : ℕ) : 0 < window es i j := by
  unfold window
  apply List.prod_pos
  intro x hx
  exact h x (List.mem_of_mem_drop (List.mem_of_mem_take hx))

/-- the arithmetic heart of an honest update: the removed product is coprime to the witness
    value, both modular powers exist, and the recomputed witness passes the validity check
    against the new accumulator. -/
theorem honest_core {pk : PublicKey} {N : ℕ} {ord : Int} {es : List Int} {nu : ℕ → Int}
    (H : Honest pk N ord es nu) {e : Int} (he : 1 < e) {w : Witness} {idx hi : ℕ}
    (hcop : ∀ x ∈ (es.drop idx).take (hi - idx), Int.gcd e x = 1)
    (T : TracksAt pk nu e w idx) (hih : idx < hi) (hhi : hi ≤ es.length) :
    (xgcd w.e.toNat (window es idx hi).toNat).1 = 1 ∧
    (∃ ub, goExp w.u (xgcd w.e.toNat (window es idx hi).toNat).2.2 pk.n = some ub) ∧
    (∃ na, goExp (nu hi) (xgcd w.e.toNat (window es idx hi).toNat).2.1 pk.n = some na) ∧
    ∀ ub na, goExp w.u (xgcd w.e.toNat (window es idx hi).toNat).2.2 pk.n = some ub →
      goExp (nu hi) (xgcd w.e.toNat (window es idx hi).toNat).2.1 pk.n = some na →
      goExp (ub * na % pk.n) w.e pk.n = some (nu hi) := by
  obtain ⟨hν, hk⟩ := H.units
  obtain ⟨hu_idx, hz_idx, -⟩ := hk idx (by omega)
  obtain ⟨hu_hi, hz_hi, hr_hi⟩ := hk hi hhi
  obtain ⟨hr0, hr1⟩ := hr_hi (by omega)
  obtain ⟨Ti, Tn, Te, Tv⟩ := T
  subst Te
  have hN := H.n_gt
  have hN0 : 0 < N := by omega
  rw [H.n_eq]
  have hP : 0 < window es idx hi := window_pos H.es_pos idx hi
  generalize hPd : window es idx hi = P at hP ⊢
  have hcopP : IsCoprime w.e P := by
    rw [← hPd]
    exact isCoprime_list_prod (fun x hx => Int.isCoprime_iff_gcd_eq_one.mpr (hcop x hx))
  -- gcd
  have hg : (xgcd w.e.toNat P.toNat).1 = 1 := by
    rw [xgcd_gcd]
    have := Int.isCoprime_iff_gcd_eq_one.mp hcopP
    unfold Int.gcd at this
    have e1 : w.e.natAbs = w.e.toNat := by omega
    have e2 : P.natAbs = P.toNat := by omega
    rwa [e1, e2] at this
  -- Bezout
  have hbez : (xgcd w.e.toNat P.toNat).2.1 * w.e + (xgcd w.e.toNat P.toNat).2.2 * P = 1 := by
    have := xgcd_bezout w.e.toNat P.toNat
    rw [hg, Int.toNat_of_nonneg (by omega : 0 ≤ w.e), Int.toNat_of_nonneg (by omega : 0 ≤ P)] at this
    push_cast at this
    linear_combination this
  generalize (xgcd w.e.toNat P.toNat).2.1 = a at hbez ⊢
  generalize (xgcd w.e.toNat P.toNat).2.2 = b at hbez ⊢
  -- the old witness is a unit and `U^e = ν_idx`
  have hvalid : goExp w.u w.e N = some (nu idx) := by
    unfold witnessValid at Tv
    rw [H.n_eq, Tn] at Tv
    exact eq_of_beq Tv
  have huU : IsUnit ((w.u : Int) : ZMod N) := by
    have hc := goExp_cast hN0 w.u w.e (by omega) hvalid
    rw [hc] at hu_idx
    exact (isUnit_pow_iff (by omega : w.e.toNat ≠ 0)).mp hu_idx
  have hUe : zunit N w.u ^ w.e = accAt (zunit N (nu 0)) (invList ord es) idx := by
    rw [← hz_idx]
    exact (zunit_of_cast (goExp_unit_eq hN huU hvalid).2.2).symm
  have hstep := honest_step hν H.invPairs (Nat.le_of_lt hih) hUe (hPd ▸ hbez)
  rw [← hz_hi] at hstep
  refine ⟨hg, ?_, ?_, ?_⟩
  · obtain ⟨r, hr, -⟩ := goExp_unit hN huU b; exact ⟨r, hr⟩
  · obtain ⟨r, hr, -⟩ := goExp_unit hN hu_hi a; exact ⟨r, hr⟩
  · intro ub na hub hna
    obtain ⟨-, -, cub⟩ := goExp_unit_eq hN huU hub
    obtain ⟨-, -, cna⟩ := goExp_unit_eq hN hu_hi hna
    obtain ⟨-, -, cnew⟩ := mul_emod_unit hN0 cub cna
    have hunew := isUnit_of_cast cnew
    obtain ⟨r, hr, r0, r1, cr⟩ := goExp_unit hN hunew w.e
    rw [hr]
    congr 1
    apply eq_of_cast_eq r0 r1 hr0 hr1
    rw [cr, zunit_of_cast cnew, hstep, zunit_val hu_hi]

theorem verify_congr (pk : PublicKey) {u1 u2 : Update} (hs : u1.sacc = u2.sacc)
    (he : u1.events = u2.events) : u1.verify pk = u2.verify pk := by
  cases u1; cases u2; simp only at hs he; subst hs he; rfl

theorem HonestUpdate.productFrom {pk : PublicKey} {es : List Int} {nu : ℕ → Int} {upd : Update}
    {frm hi : ℕ} (U : HonestUpdate pk es nu upd frm hi) {idx : ℕ} (h1 : frm ≤ idx + 1)
    (h2 : idx < hi) : ∃ upd', upd.productFrom (idx + 1) = some (window es idx hi, upd') := by
  have ht := U.trueProduct h1 h2
  rcases productFrom_coherent upd (idx + 1) U.cache with ⟨h, -⟩ | ⟨p, u', h, h', -⟩
  · rw [ht] at h; exact absurd h (by simp)
  · rw [ht] at h; obtain rfl := Option.some.inj h
    exact ⟨u', h'⟩

/-- the index a witness standing at `idx` reaches through an honest update for events
    `frm..hi`: it jumps to `hi` when the update is newer and connects (`frm ≤ idx+1`), and stays
    where it is otherwise (older or equal update; or update too new, which is an error). -/
def stepIdx (idx : ℕ) (win : ℕ × ℕ) : ℕ :=
  if idx < win.2 ∧ win.1 ≤ idx + 1 then win.2 else idx

theorem le_stepIdx (idx : ℕ) (win : ℕ × ℕ) : idx ≤ stepIdx idx win := by
  unfold stepIdx; split <;> omega

theorem stepIdx_le_max (idx : ℕ) (win : ℕ × ℕ) : stepIdx idx win ≤ max idx win.2 := by
  unfold stepIdx; split <;> omega

/-- **`Witness.update` refines the index machine on honest input**: a valid witness for an
    unremoved value, standing at `idx`, given any honest update (any window, any coherent cache
    state), ends valid at `stepIdx idx (frm, hi)`; the call returns `ok`, except for an update
    that does not connect (`idx + 1 < frm`), where it returns `err` and changes nothing; the
    update object remains an honest update for the same window. -/
theorem honest_update {pk : PublicKey} {N : ℕ} {ord : Int} {es : List Int} {nu : ℕ → Int}
    (H : Honest pk N ord es nu) {e : Int} (he : 1 < e) {w : Witness} {idx : ℕ}
    (T : TracksAt pk nu e w idx) {upd : Update} {frm hi : ℕ}
    (U : HonestUpdate pk es nu upd frm hi)
    (hcop : idx < hi → frm ≤ idx + 1 → ∀ x ∈ (es.drop idx).take (hi - idx), Int.gcd e x = 1) :
    TracksAt pk nu e (w.update pk upd).2.1 (stepIdx idx (frm, hi)) ∧
    HonestUpdate pk es nu (w.update pk upd).2.2 frm hi ∧
    ((w.update pk upd).1 = .ok ∨
      ((w.update pk upd).1 = .err ∧ idx + 1 < frm ∧ idx < hi ∧ (w.update pk upd).2.1 = w)) := by
  obtain ⟨o1, o2, o3⟩ := update_object pk w upd U.cache
  have hU' : HonestUpdate pk es nu (w.update pk upd).2.2 frm hi :=
    { le := U.le, hi_le := U.hi_le
      verified := by rw [verify_congr pk o1 o2, o1]; exact U.verified
      index := by rw [o1]; exact U.index
      nu := by rw [o1]; exact U.nu
      events_e := by rw [o2]; exact U.events_e
      start := by rw [o2]; exact U.start
      cache := o3 }
  refine ⟨?_, hU', ?_⟩
  all_goals
    have hb := update_branch pk w upd
    have hstart : (upd.events.head?.map (·.index)).getD 0 = frm := by rw [U.start]; rfl
    have hlen := U.length
    have hle := U.le
    have hUi := U.index
    have hTi := T.index
    generalize w.update pk upd = r at hb ⊢
    try unfold stepIdx
    try simp only
    cases hb with
    | verifyFail h => rw [U.verified] at h; exact absurd h (by simp)
    | sameIndexOlder _ h1 _ =>
      first
      | (rw [if_neg (by omega)]; exact T)
      | exact Or.inl rfl
    | sameIndexNewer _ h1 _ =>
      first
      | (rw [if_neg (by omega)]
         refine ⟨by simp only; omega, ?_, T.e, ?_⟩
         · simp only; rw [U.nu]; congr 1; omega
         · have := T.valid
           unfold witnessValid at this ⊢
           simp only
           rw [U.nu, show hi = idx by omega, ← T.nu]; exact this)
      | exact Or.inl rfl
    | noEvents _ _ h => rw [h] at hlen; simp at hlen; omega
    | older _ _ _ h =>
      first
      | (rw [if_neg (by omega)]; exact T)
      | exact Or.inl rfl
    | tooNew _ _ h1 h2 =>
      first
      | (rw [if_neg (by omega)]; exact T)
      | exact Or.inr ⟨rfl, by omega, by omega, rfl⟩
    | productPanic _ _ h1 h2 h3 =>
      obtain ⟨u', hu'⟩ := U.productFrom (idx := idx) (by omega) (by omega)
      rw [hTi, hu'] at h3; exact absurd h3 (by simp)
    | revoked prod upd' _ _ h1 h2 h3 h4 =>
      obtain ⟨u', hu'⟩ := U.productFrom (idx := idx) (by omega) (by omega)
      rw [hTi, hu'] at h3
      obtain ⟨rfl, rfl⟩ := Prod.mk.inj (Option.some.inj h3)
      exact absurd (honest_core H he (hcop (by omega) (by omega)) T (by omega) U.hi_le).1 h4
    | expPanic prod upd' _ _ h1 h2 h3 h4 h5 =>
      obtain ⟨u', hu'⟩ := U.productFrom (idx := idx) (by omega) (by omega)
      rw [hTi, hu'] at h3
      obtain ⟨rfl, rfl⟩ := Prod.mk.inj (Option.some.inj h3)
      obtain ⟨-, ⟨ub, hub⟩, ⟨na, hna⟩, -⟩ := honest_core H he (hcop (by omega) (by omega)) T (by omega : idx < hi) U.hi_le
      rw [U.nu] at h5
      rcases h5 with h5 | h5
      · rw [hub] at h5; exact absurd h5 (by simp)
      · rw [hna] at h5; exact absurd h5 (by simp)
    | updated prod upd' ub na _ _ h1 h2 h3 h4 h5 h6 h7 =>
      first
      | (rw [if_pos (by omega)]
         refine ⟨by simp only; omega, by simp only; exact U.nu, T.e, ?_⟩
         unfold witnessValid
         simp only [h7, beq_self_eq_true])
      | exact Or.inl rfl
    | invalidated prod upd' ub na _ _ h1 h2 h3 h4 h5 h6 h7 =>
      obtain ⟨u', hu'⟩ := U.productFrom (idx := idx) (by omega) (by omega)
      rw [hTi, hu'] at h3
      obtain ⟨rfl, rfl⟩ := Prod.mk.inj (Option.some.inj h3)
      obtain ⟨-, -, -, hfin⟩ := honest_core H he (hcop (by omega) (by omega)) T (by omega : idx < hi) U.hi_le
      rw [U.nu] at h6 h7
      exact absurd (hfin ub na h5 h6) h7

/-- a witness fed a sequence of update messages, one after the other. -/
def applyAll (pk : PublicKey) (w : Witness) : List Update → Witness
  | [] => w
  | u :: us => applyAll pk (w.update pk u).2.1 us

theorem le_foldl_stepIdx (wins : List (ℕ × ℕ)) (idx : ℕ) :
    idx ≤ wins.foldl stepIdx idx := by
  induction wins generalizing idx with
  | nil => exact Nat.le_refl _
  | cons a t ih => exact Nat.le_trans (le_stepIdx idx a) (ih _)

/-- **any sequence of honest updates** – any windows, in any order, repeated, overlapping, with
    any coherent cache state: the witness stays valid, standing at the index the index machine
    computes. -/
theorem honest_sequence {pk : PublicKey} {N : ℕ} {ord : Int} {es : List Int} {nu : ℕ → Int}
    (H : Honest pk N ord es nu) {e : Int} (he : 1 < e) (hcop : ∀ x ∈ es, Int.gcd e x = 1)
    (ups : List (Update × ℕ × ℕ)) (hU : ∀ x ∈ ups, HonestUpdate pk es nu x.1 x.2.1 x.2.2)
    {w : Witness} {idx : ℕ} (T : TracksAt pk nu e w idx) :
    TracksAt pk nu e (applyAll pk w (ups.map (·.1))) ((ups.map (·.2)).foldl stepIdx idx) := by
  induction ups generalizing w idx with
  | nil => exact T
  | cons a t ih =>
    simp only [List.map_cons, applyAll, List.foldl_cons]
    exact ih (fun x hx => hU x (List.mem_cons_of_mem _ hx))
      (honest_update H he T (hU a (by simp))
        (fun _ _ x hx => hcop x (List.mem_of_mem_drop (List.mem_of_mem_take hx)))).1

/-- **one honest update object handed to several witnesses** (each for its own unremoved value,
    each standing at its own index): every one of them ends valid at the index the machine
    computes for it. -/
theorem honest_shared {pk : PublicKey} {N : ℕ} {ord : Int} {es : List Int} {nu : ℕ → Int}
    (H : Honest pk N ord es nu) {frm hi : ℕ} (ws : List (Witness × ℕ))
    (hT : ∀ x ∈ ws, 1 < x.1.e ∧ (∀ y ∈ es, Int.gcd x.1.e y = 1) ∧ TracksAt pk nu x.1.e x.1 x.2)
    {upd : Update} (U : HonestUpdate pk es nu upd frm hi) :
    List.Forall₂ (fun (x : Witness × ℕ) (r : UpdateResult × Witness) =>
        TracksAt pk nu x.1.e r.2 (stepIdx x.2 (frm, hi)))
      ws (updateAll pk upd (ws.map (·.1))).1 := by
  induction ws generalizing upd with
  | nil => exact List.Forall₂.nil
  | cons a t ih =>
    obtain ⟨he, hcop, T⟩ := hT a (by simp)
    obtain ⟨h1, h2, -⟩ := honest_update H he T U
      (fun _ _ x hx => hcop x (List.mem_of_mem_drop (List.mem_of_mem_take hx)))
    simp only [List.map_cons, updateAll]
    exact List.Forall₂.cons h1 (ih (fun x hx => hT x (List.mem_cons_of_mem _ hx)) h2)

/-! ### a removed value: reported as revoked, never moved past its removal -/

theorem mem_window_iff {es : List Int} {i j : ℕ} {x : Int} :
    x ∈ (es.drop i).take (j - i) ↔ ∃ k, ∃ hk : k < es.length, i ≤ k ∧ k < j ∧ es[k] = x := by
  constructor
  · intro h
    obtain ⟨n, hn, rfl⟩ := List.getElem_of_mem h
    simp only [List.length_take, List.length_drop] at hn
    refine ⟨i + n, by omega, by omega, by omega, ?_⟩
    simp [List.getElem_take, List.getElem_drop]
  · rintro ⟨k, hk, h1, h2, rfl⟩
    rw [List.mem_iff_getElem]
    refine ⟨k - i, by simp only [List.length_take, List.length_drop]; omega, ?_⟩
    simp only [List.getElem_take, List.getElem_drop]
    congr 1; omega

/-- an honest update whose events include the removal of the witness's own value is answered
    with `revoked`; the witness is left exactly as it was. -/
theorem revoked_update {pk : PublicKey} {es : List Int} {nu : ℕ → Int} (hpos : ∀ x ∈ es, 0 < x)
    {w : Witness} (he : 1 < w.e) {upd : Update} {frm hi : ℕ}
    (U : HonestUpdate pk es nu upd frm hi) (h1 : frm ≤ w.sacc.index + 1) (h2 : w.sacc.index < hi)
    (hmem : w.e ∈ (es.drop w.sacc.index).take (hi - w.sacc.index)) :
    ∃ upd', w.update pk upd = (.revoked, w, upd') := by
  obtain ⟨upd', hp⟩ := U.productFrom h1 h2
  refine ⟨upd', update_revoked U.verified ?_ (by rw [U.index]; exact h2) (by rw [U.start]; exact h1)
    hp (xgcd_ne_one_of_dvd he (window_pos hpos _ _) (List.dvd_prod hmem))⟩
  intro h
  have := U.length
  rw [h] at this
  have := U.le
  simp at *
  omega

/-- the index machine of a witness whose value is removed by event `k+1`: updates that end at or
    before `k` act as usual, all others leave it where it is. -/
def stepIdxRemoved (k : ℕ) (idx : ℕ) (win : ℕ × ℕ) : ℕ :=
  if win.2 ≤ k then stepIdx idx win else idx

theorem stepIdxRemoved_le {k idx : ℕ} (h : idx ≤ k) (win : ℕ × ℕ) :
    stepIdxRemoved k idx win ≤ k := by
  unfold stepIdxRemoved stepIdx
  split
  · split <;> omega
  · exact h

/-- **a removed value**: `es[k] = e` is removed by event `k+1`; the witness stands at `idx ≤ k`.
    Whatever honest update it is given, it ends – still valid for the accumulator it stands at –
    at an index `≤ k`, i.e. never at an accumulator from which its value has been removed; and
    every update reaching beyond `k` that connects is answered with `revoked`. -/
theorem removed_update {pk : PublicKey} {N : ℕ} {ord : Int} {es : List Int} {nu : ℕ → Int}
    (H : Honest pk N ord es nu) {e : Int} (he : 1 < e) {k : ℕ} (hk : k < es.length)
    (hek : es[k] = e) (hcop : ∀ j, ∀ hj : j < es.length, j < k → Int.gcd e es[j] = 1)
    {w : Witness} {idx : ℕ} (hidx : idx ≤ k) (T : TracksAt pk nu e w idx)
    {upd : Update} {frm hi : ℕ} (U : HonestUpdate pk es nu upd frm hi) :
    TracksAt pk nu e (w.update pk upd).2.1 (stepIdxRemoved k idx (frm, hi)) ∧
    HonestUpdate pk es nu (w.update pk upd).2.2 frm hi ∧
    (k < hi → frm ≤ idx + 1 → (w.update pk upd).1 = .revoked) := by
  by_cases hhi : hi ≤ k
  · obtain ⟨h1, h2, -⟩ := honest_update H he T U (by
      intro _ _ x hx
      obtain ⟨j, hj, _, _, rfl⟩ := mem_window_iff.mp hx
      exact hcop j hj (by omega))
    refine ⟨?_, h2, fun h => by omega⟩
    unfold stepIdxRemoved; rw [if_pos hhi]; exact h1
  · obtain ⟨o1, o2, o3⟩ := update_object pk w upd U.cache
    have hU' : HonestUpdate pk es nu (w.update pk upd).2.2 frm hi :=
      { le := U.le, hi_le := U.hi_le
        verified := by rw [verify_congr pk o1 o2, o1]; exact U.verified
        index := by rw [o1]; exact U.index
        nu := by rw [o1]; exact U.nu
        events_e := by rw [o2]; exact U.events_e
        start := by rw [o2]; exact U.start
        cache := o3 }
    have hstep : stepIdxRemoved k idx (frm, hi) = idx := by
      unfold stepIdxRemoved; rw [if_neg hhi]
    rw [hstep]
    by_cases hc : frm ≤ idx + 1
    · have hTi := T.index
      have hTe := T.e
      obtain ⟨upd', hr⟩ := revoked_update (w := w) H.es_pos (by rw [hTe]; exact he) U
        (by rw [hTi]; exact hc) (by rw [hTi]; omega)
        (by rw [hTi, hTe]; exact mem_window_iff.mpr ⟨k, hk, hidx, by omega, hek⟩)
      refine ⟨?_, hU', fun _ _ => by rw [hr]⟩
      rw [hr]; exact T
    · -- the update does not connect: `err`, nothing changes
      have hb := update_branch pk w upd
      have hstart : (upd.events.head?.map (·.index)).getD 0 = frm := by rw [U.start]; rfl
      have hUi := U.index
      have hTi := T.index
      refine ⟨?_, hU', fun _ h => absurd h hc⟩
      generalize w.update pk upd = r at hb ⊢
      cases hb
      case sameIndexNewer => omega
      case updated => omega
      all_goals exact T

theorem removed_sequence {pk : PublicKey} {N : ℕ} {ord : Int} {es : List Int} {nu : ℕ → Int}
    (H : Honest pk N ord es nu) {e : Int} (he : 1 < e) {k : ℕ} (hk : k < es.length)
    (hek : es[k] = e) (hcop : ∀ j, ∀ hj : j < es.length, j < k → Int.gcd e es[j] = 1)
    (ups : List (Update × ℕ × ℕ)) (hU : ∀ x ∈ ups, HonestUpdate pk es nu x.1 x.2.1 x.2.2)
    {w : Witness} {idx : ℕ} (hidx : idx ≤ k) (T : TracksAt pk nu e w idx) :
    ∃ idx', idx ≤ idx' ∧ idx' ≤ k ∧ TracksAt pk nu e (applyAll pk w (ups.map (·.1))) idx' := by
  induction ups generalizing w idx with
  | nil => exact ⟨idx, Nat.le_refl _, hidx, T⟩
  | cons a t ih =>
    simp only [List.map_cons, applyAll]
    obtain ⟨h1, -, -⟩ := removed_update H he hk hek hcop hidx T (hU a (by simp))
    obtain ⟨i', a1, a2, a3⟩ := ih (fun x hx => hU x (List.mem_cons_of_mem _ hx))
      (stepIdxRemoved_le hidx _) h1
    refine ⟨i', Nat.le_trans ?_ a1, a2, a3⟩
    unfold stepIdxRemoved
    split
    · exact le_stepIdx _ _
    · exact Nat.le_refl _

/-! ### a toy history (non-vacuity of the hypotheses used above)
  `n = 77`, squares of order dividing 15, `ν₀ = 4`; removed values 7 then 11; a witness for 13. -/

theorem toy_inv7 : commonModInverse 7 15 = some 13 := by
  cases h : commonModInverse 7 15 with
  | none =>
    rw [commonModInverse_none_iff 7 15 (by norm_num)] at h
    exact absurd (by decide) h
  | some r =>
    obtain ⟨h1, h2, h3⟩ := commonModInverse_some (by norm_num) h
    congr 1; omega

theorem toy_inv11 : commonModInverse 11 15 = some 11 := by
  cases h : commonModInverse 11 15 with
  | none =>
    rw [commonModInverse_none_iff 11 15 (by norm_num)] at h
    exact absurd (by decide) h
  | some r =>
    obtain ⟨h1, h2, h3⟩ := commonModInverse_some (by norm_num) h
    congr 1; omega

def toyNu : ℕ → Int
  | 0 => 4
  | 1 => 53
  | 2 => 9
  | _ => 0

def toyEv0 : Event := { index := 0, e := 1, parentHash := 0x12 :: 0x20 :: List.replicate 32 0 }
def toyEv1 : Event := { index := 1, e := 7, parentHash := toyEv0.hash }
def toyEv2 : Event := { index := 2, e := 11, parentHash := toyEv1.hash }

def toySacc (i : ℕ) (ev : Event) : SAcc :=
  { nu := toyNu i, index := i, time := i, eventHash := ev.hash, pkCounter := 0, sigOk := true }

/-- the issuer's update message for events 1..2. -/
def toyUpdate : Update := { sacc := toySacc 2 toyEv2, events := [toyEv1, toyEv2] }

/-- a witness for the value 13 issued at index 0: `60^13 = 4 (mod 77)`. -/
def toyWitness : Witness := { u := 60, e := 13, sacc := toySacc 0 toyEv0 }

theorem toy_honest : Honest toyKey 77 15 [7, 11] toyNu where
  n_eq := rfl
  n_gt := by norm_num
  ord_gt := by norm_num
  base := by
    show goExp 4 15 77 = some 1
    rw [goExp_nonneg 4 15 77 (by norm_num) (by norm_num)]; decide
  es_pos := by decide
  step := by
    intro k hk
    have : k = 0 ∨ k = 1 := by simp at hk; omega
    rcases this with rfl | rfl
    · refine ⟨toyEv0, { index := 1, e := 7, parentHash := toyEv0.hash }, ?_⟩
      show accRemove 77 15 4 0 7 toyEv0 = some (53, _)
      unfold accRemove
      rw [toy_inv7]
      simp only [Option.bind_eq_bind, Option.bind_some]
      rw [goExp_nonneg 4 13 77 (by norm_num) (by norm_num)]
      rfl
    · refine ⟨toyEv1, { index := 2, e := 11, parentHash := toyEv1.hash }, ?_⟩
      show accRemove 77 15 53 1 11 toyEv1 = some (9, _)
      unfold accRemove
      rw [toy_inv11]
      simp only [Option.bind_eq_bind, Option.bind_some]
      rw [goExp_nonneg 53 11 77 (by norm_num) (by norm_num)]
      rfl

theorem toy_tracks : TracksAt toyKey toyNu 13 toyWitness 0 where
  index := rfl
  nu := rfl
  e := rfl
  valid := by
    show (goExp 60 13 77 == some 4) = true
    rw [goExp_nonneg 60 13 77 (by norm_num) (by norm_num)]; decide

theorem toy_update : HonestUpdate toyKey [7, 11] toyNu toyUpdate 1 2 where
  le := by norm_num
  hi_le := by simp
  verified := by
    rw [verify_eq_some_iff]
    refine ⟨rfl, rfl, rfl, ?_⟩
    rw [eventsVerify_spec]
    right
    refine ⟨⟨toyEv2, rfl, ?_⟩, ?_, ?_, ?_⟩
    · rw [hashEquals_iff]; exact ⟨hashAlgOk_eventHash _, rfl⟩
    · intro f hf
      obtain rfl : toyEv1 = f := by simpa [toyUpdate] using hf
      exact hashAlgOk_eventHash _
    · show List.IsChain _ [toyEv1, toyEv2]
      rw [List.isChain_cons_cons]
      refine ⟨?_, List.isChain_singleton _⟩
      rw [hashEquals_iff]; exact ⟨hashAlgOk_eventHash _, rfl⟩
    · intro k hk
      have : k = 0 ∨ k = 1 := by simp [toyUpdate] at hk; omega
      rcases this with rfl | rfl <;> rfl
  index := rfl
  nu := rfl
  events_e := rfl
  start := rfl
  cache := cacheOk_fresh _ _

/-- `ok` is only ever returned for an update that verified. -/
theorem update_ok_verified {pk : PublicKey} {w : Witness} {upd : Update}
    (h : (w.update pk upd).1 = .ok) : upd.verify pk = some upd.sacc := by
  have hb := update_branch pk w upd
  generalize w.update pk upd = r at hb h
  cases hb <;> first | assumption | exact absurd h (by simp)

/-- the witness changes only when `ok` is returned for a verified update with a strictly newer
    accumulator (newer index, or same index and later time). -/
theorem update_changed {pk : PublicKey} {w : Witness} {upd : Update}
    (h : (w.update pk upd).2.1 ≠ w) :
    (w.update pk upd).1 = .ok ∧ upd.verify pk = some upd.sacc ∧
      (w.sacc.index < upd.sacc.index ∨
        (w.sacc.index = upd.sacc.index ∧ w.sacc.time < upd.sacc.time)) := by
  have hb := update_branch pk w upd
  generalize w.update pk upd = r at hb h
  cases hb
  case sameIndexNewer hv h1 h2 => exact ⟨rfl, hv, Or.inr ⟨h1.symm, by omega⟩⟩
  case updated hv _ h1 _ _ _ _ _ _ => exact ⟨rfl, hv, Or.inl h1⟩
  all_goals exact absurd rfl h

/-- an issuer-signed accumulator with the *same index* but another value and a later time: the
    model (like the Go code) takes it over without re-checking the witness. -/
def toyBadUpdate : Update :=
  { sacc := { nu := 5, index := 0, time := 1, eventHash := [], pkCounter := 0, sigOk := true },
    events := [] }

theorem same_index_unchecked :
    witnessValid toyKey toyWitness = true ∧
    (toyWitness.update toyKey toyBadUpdate).1 = .ok ∧
    witnessValid toyKey (toyWitness.update toyKey toyBadUpdate).2.1 = false := by
  have h : toyWitness.update toyKey toyBadUpdate =
      (.ok, { toyWitness with sacc := toyBadUpdate.sacc }, toyBadUpdate) := by decide
  refine ⟨toy_tracks.valid, by rw [h], ?_⟩
  rw [h]
  show (goExp 60 13 77 == some 5) = false
  rw [goExp_nonneg 60 13 77 (by norm_num) (by norm_num)]; decide

end Gabi.Rev
