/-
  GabiProofs.ConcExpWorkers — lemmas about GabiModel.Conc.ExpWorkers (keyproof/exp.go worker pool):
  slot ranges of the closures are prefix sums (`offsets_getD`), disjoint and inside the list; the
  counting invariant `Inv` (each closure index below min(counter, nTodo) is in the log or being run,
  exactly once; exited workers = counter − nTodo) is preserved by every step, hence for all schedules:
  `exec_log_nodup`, `exec_working_fresh`, `exec_complete`.
-/
import GabiModel.Conc.ExpWorkers
import Mathlib.Tactic.Ring

/-!
  Proofs about `GabiModel.Conc.ExpWorkers`: slot ranges of the closures are disjoint and inside the
  list; for every schedule of the worker pool each closure is run at most once, and exactly once when
  all workers have exited.
-/
namespace Gabi.Conc.ExpWorkers

/-! ## slot ranges -/

theorem sum_take_succ (l : List Nat) (k : Nat) :
    (l.take (k + 1)).sum = (l.take k).sum + l.getD k 0 := by
  induction l generalizing k with
  | nil => simp
  | cons a l ih =>
    cases k with
    | zero => simp
    | succ k =>
      simp only [List.take_succ_cons, List.sum_cons, List.getD_cons_succ, ih k]
      omega

theorem sum_take_mono (l : List Nat) {a b : Nat} (h : a ≤ b) :
    (l.take a).sum ≤ (l.take b).sum := by
  induction h with
  | refl => exact Nat.le_refl _
  | step _ ih => rw [sum_take_succ]; omega

theorem sum_take_le (l : List Nat) (a : Nat) : (l.take a).sum ≤ l.sum := by
  by_cases h : a ≤ l.length
  · have := sum_take_mono l h
    rwa [List.take_length] at this
  · rw [List.take_of_length_le (by omega)]

/-- closure k starts where the appends before it ended -/
theorem offsets_getD (base : Nat) (sizes : List Nat) (k : Nat) (hk : k < sizes.length) :
    (offsets base sizes).getD k 0 = base + (sizes.take k).sum := by
  induction sizes generalizing base k with
  | nil => simp at hk
  | cons n rest ih =>
    cases k with
    | zero => simp [offsets]
    | succ k =>
      simp only [offsets, List.getD_cons_succ, List.take_succ_cons, List.sum_cons]
      rw [ih (base + n) k (by simpa using hk)]
      omega

theorem slotRange_end (base : Nat) (sizes : List Nat) (k : Nat) (hk : k < sizes.length) :
    (slotRange base sizes k).1 + (slotRange base sizes k).2
      = base + (sizes.take (k + 1)).sum := by
  simp only [slotRange, offsets_getD base sizes k hk, sum_take_succ]
  omega

/-- slot ranges of different closures are disjoint (the earlier one ends before the later one
    starts) -/
theorem slots_disjoint (base : Nat) (sizes : List Nat) (k k' : Nat) (h : k < k')
    (hk' : k' < sizes.length) :
    (slotRange base sizes k).1 + (slotRange base sizes k).2 ≤ (slotRange base sizes k').1 := by
  rw [slotRange_end base sizes k (by omega)]
  simp only [slotRange, offsets_getD base sizes k' hk']
  have := sum_take_mono sizes (show k + 1 ≤ k' by omega)
  omega

/-- and all lie inside the list: [base, base + sum sizes) -/
theorem slots_in_list (base : Nat) (sizes : List Nat) (k : Nat) (hk : k < sizes.length) :
    base ≤ (slotRange base sizes k).1 ∧
    (slotRange base sizes k).1 + (slotRange base sizes k).2 ≤ base + sizes.sum := by
  constructor
  · simp only [slotRange, offsets_getD base sizes k hk]
    omega
  · rw [slotRange_end base sizes k hk]
    have := sum_take_le sizes (k + 1)
    omega

/-! ## the worker pool -/

/-- counting in a list after replacing the element at position `w` -/
theorem count_set_of_getElem? {l : List Worker} {w : Nat} {a : Worker} (hw : l[w]? = some a)
    (a' b : Worker) :
    (l.set w a').count b
      = (l.count b - if a = b then 1 else 0) + if a' = b then 1 else 0 := by
  obtain ⟨hlt, hget⟩ := List.getElem?_eq_some_iff.mp hw
  rw [List.count_set hlt, hget]
  simp only [beq_iff_eq]

theorem count_pos_of_getElem? {l : List Worker} {w : Nat} {a : Worker} (hw : l[w]? = some a) :
    0 < l.count a :=
  List.count_pos_iff.mpr (List.mem_iff_getElem?.mpr ⟨w, hw⟩)

/-- two different positions holding the same value: it is counted at least twice -/
theorem two_le_count_of_getElem? {l : List Worker} {w w' : Nat} {k : Nat} (hne : w' ≠ w)
    (hw : l[w]? = some (.working k)) (hw' : l[w']? = some (.working k)) :
    2 ≤ l.count (.working k) := by
  have h1 := count_set_of_getElem? hw .idle (.working k)
  have h2 : (l.set w .idle)[w']? = some (.working k) := by
    rw [List.getElem?_set_ne (Ne.symm hne)]; exact hw'
  have h3 := count_pos_of_getElem? h2
  simp at h1
  omega

/-- the invariant of every reachable state -/
structure Inv (nTodo nWorkers : Nat) (s : St) : Prop where
  nTodo_eq : s.nTodo = nTodo
  len : s.workers.length = nWorkers
  /-- every add above `nTodo` made exactly one worker exit -/
  exited : s.workers.count .exited = s.counter - nTodo
  /-- the indices handed out so far, `k < min counter nTodo`, are each either in the log or being
      run by exactly one worker; nothing else is -/
  cnt : ∀ k, (s.log.map (·.2)).count k + s.workers.count (.working k)
      = if k < min s.counter nTodo then 1 else 0

theorem init_inv (nTodo nWorkers : Nat) : Inv nTodo nWorkers (init nTodo nWorkers) := by
  refine ⟨rfl, by simp [init], ?_, ?_⟩
  · simp [init, List.count_replicate]
  · intro k
    simp [init, List.count_replicate]

theorem step_inv {nTodo nWorkers : Nat} (h : nTodo + nWorkers < W32) {s : St}
    (hs : Inv nTodo nWorkers s) (w : Nat) : Inv nTodo nWorkers (step s w) := by
  obtain ⟨h1, h2, h3, h4⟩ := hs
  unfold step
  split
  · next hw =>
    -- idle: atomic add
    have hcs := count_set_of_getElem? hw
    have hlen : ∀ a, (s.workers.set w a).length = nWorkers := by
      intro a; rw [List.length_set]; exact h2
    -- no wrap
    have hnowrap : s.counter + 1 < W32 := by
      have hle := List.count_le_length (a := Worker.exited) (l := s.workers.set w .exited)
      rw [hlen, hcs] at hle
      simp at hle
      omega
    have hc : (s.counter + 1) % W32 = s.counter + 1 := Nat.mod_eq_of_lt hnowrap
    simp only [hc]
    split
    · next hgt =>
      rw [h1] at hgt
      refine ⟨h1, hlen _, ?_, ?_⟩
      · simp only [hcs]
        simp
        omega
      · intro k
        have := h4 k
        simp only [hcs]
        simp only [reduceCtorEq, if_false, Nat.sub_zero, Nat.add_zero]
        rw [show min (s.counter + 1) nTodo = min s.counter nTodo by omega]
        exact this
    · next hle =>
      rw [h1] at hle
      refine ⟨h1, hlen _, ?_, ?_⟩
      · simp only [hcs]
        simp
        omega
      · intro k
        have := h4 k
        simp only [hcs]
        simp only [reduceCtorEq, if_false, Nat.sub_zero, Worker.working.injEq,
          Nat.add_sub_cancel]
        by_cases hk : s.counter = k
        · subst hk
          have h5 : ¬ s.counter < min s.counter nTodo := by omega
          have h6 : s.counter < min (s.counter + 1) nTodo := by omega
          simp only [h5, if_false] at this
          simp only [h6, if_true]
          omega
        · have h5 : (k < min (s.counter + 1) nTodo) ↔ (k < min s.counter nTodo) := by omega
          simp only [hk, if_false, h5]
          exact this
  · next k hw =>
    -- working k: closure done, log it
    have hcs := count_set_of_getElem? hw
    have hpos := count_pos_of_getElem? hw
    refine ⟨h1, by simp only [List.length_set]; exact h2, ?_, ?_⟩
    · simp only [hcs]
      simpa using h3
    · intro k'
      have := h4 k'
      simp only [hcs, List.map_cons, List.count_cons]
      simp only [reduceCtorEq, if_false, Worker.working.injEq, Nat.add_zero, beq_iff_eq]
      by_cases hk : k = k'
      · subst hk
        simp only [if_true]
        omega
      · simp only [hk, if_false]
        omega
  · exact ⟨h1, h2, h3, h4⟩

theorem exec_inv {nTodo nWorkers : Nat} (h : nTodo + nWorkers < W32) (sched : List Nat) {s : St}
    (hs : Inv nTodo nWorkers s) : Inv nTodo nWorkers (exec s sched) := by
  induction sched generalizing s with
  | nil => exact hs
  | cons w rest ih => exact ih (step_inv h hs w)

theorem exec_init_inv (nTodo nWorkers : Nat) (sched : List Nat) (h : nTodo + nWorkers < W32) :
    Inv nTodo nWorkers (exec (init nTodo nWorkers) sched) :=
  exec_inv h sched (init_inv nTodo nWorkers)

/-- for EVERY schedule: no closure index is run twice (by the same or different workers), every
    index run is a valid one -/
theorem exec_log_nodup (nTodo nWorkers : Nat) (sched : List Nat) (h : nTodo + nWorkers < W32) :
    ((exec (init nTodo nWorkers) sched).log.map (·.2)).Nodup ∧
    ∀ x ∈ (exec (init nTodo nWorkers) sched).log, x.2 < nTodo := by
  have hinv := exec_init_inv nTodo nWorkers sched h
  constructor
  · rw [List.nodup_iff_count]
    intro k
    have := hinv.cnt k
    split at this <;> omega
  · intro x hx
    have hmem : x.2 ∈ (exec (init nTodo nWorkers) sched).log.map (·.2) :=
      List.mem_map.mpr ⟨x, hx, rfl⟩
    have hpos := List.count_pos_iff.mpr hmem
    have := hinv.cnt x.2
    split at this <;> omega

/-- no closure is being run by a worker while it is already in the log or run by another worker -/
theorem exec_working_fresh (nTodo nWorkers : Nat) (sched : List Nat) (h : nTodo + nWorkers < W32)
    (w k : Nat) (hw : (exec (init nTodo nWorkers) sched).workers[w]? = some (.working k)) :
    k < nTodo ∧ k ∉ (exec (init nTodo nWorkers) sched).log.map (·.2) ∧
    ∀ w', w' ≠ w → (exec (init nTodo nWorkers) sched).workers[w']? ≠ some (.working k) := by
  have hinv := exec_init_inv nTodo nWorkers sched h
  have hpos := count_pos_of_getElem? hw
  have hcnt := hinv.cnt k
  refine ⟨?_, ?_, ?_⟩
  · split at hcnt <;> omega
  · rw [← List.count_eq_zero]
    split at hcnt <;> omega
  · intro w' hne hw'
    have := two_le_count_of_getElem? hne hw hw'
    split at hcnt <;> omega

/-- when all workers have exited (and there is at least one), every closure has been run exactly
    once -/
theorem exec_complete (nTodo nWorkers : Nat) (sched : List Nat) (h : nTodo + nWorkers < W32)
    (hw : 0 < nWorkers)
    (hall : ∀ w ∈ (exec (init nTodo nWorkers) sched).workers, w = Worker.exited) :
    ∀ k, k < nTodo → k ∈ (exec (init nTodo nWorkers) sched).log.map (·.2) := by
  have hinv := exec_init_inv nTodo nWorkers sched h
  intro k hk
  have hex : (exec (init nTodo nWorkers) sched).workers.count .exited = nWorkers := by
    refine Eq.trans (List.count_eq_length.mpr ?_) hinv.len
    intro b hb
    exact (hall b hb).symm
  have hcounter := hinv.exited
  rw [hex] at hcounter
  have hnone : (exec (init nTodo nWorkers) sched).workers.count (.working k) = 0 := by
    rw [List.count_eq_zero]
    intro hmem
    have := hall _ hmem
    cases this
  have hcnt := hinv.cnt k
  rw [hnone] at hcnt
  have hlt : k < min (exec (init nTodo nWorkers) sched).counter nTodo := by omega
  simp only [hlt, if_true] at hcnt
  apply List.count_pos_iff.mp
  omega

end Gabi.Conc.ExpWorkers
