/-
  GabiProofs.Serial — helper lemmas for C18 (serialisation round trips).
-/
import GabiModel.Serial
import GabiProofs.NumLemmas
import Mathlib.Tactic.SplitIfs
import Mathlib.Tactic.Ring
import Mathlib.Tactic.NormNum
namespace Gabi.Serial
open Gabi

/-! ## base64 -/

theorem b64Dec_enc (n : Nat) (h : n < 64) : b64Dec? (b64Enc n) = some n := by
  unfold b64Enc b64Dec?
  split_ifs <;> first | omega | (simp only [Option.some.injEq]; omega)

theorem b64Enc_ne_pad (n : Nat) : b64Enc n ≠ pad := by
  unfold b64Enc pad
  split_ifs <;> omega

theorem b64Enc_notNewline (n : Nat) : notNewline (b64Enc n) = true := by
  unfold b64Enc notNewline
  split_ifs <;> simp <;> omega

theorem b64Enc_ge (n : Nat) : 43 ≤ b64Enc n ∧ b64Enc n ≠ 92 := by
  unfold b64Enc
  split_ifs <;> omega

theorem toUInt8_toNat' (a : UInt8) : a.toNat.toUInt8 = a := by
  apply UInt8.toNat_inj.mp
  simp

private theorem u8lt (a : UInt8) : a.toNat < 256 := a.toNat_lt

theorem b64DecodeGroups_encode (bs : List UInt8) : b64DecodeGroups (b64Encode bs) = some bs := by
  induction bs using b64Encode.induct with
  | case1 => simp [b64Encode, b64DecodeGroups]
  | case2 a =>
    have ha := u8lt a
    simp only [b64Encode, b64DecodeGroups, List.isEmpty_nil, true_and, if_true]
    rw [b64Dec_enc _ (by omega), b64Dec_enc _ (by omega)]
    have : a.toNat / 4 * 4 + a.toNat % 4 * 16 / 16 = a.toNat := by omega
    simp only [this, toUInt8_toNat']
  | case3 a b =>
    have ha := u8lt a
    have hb := u8lt b
    simp only [b64Encode, b64DecodeGroups, List.isEmpty_nil, true_and, if_true]
    rw [if_neg (b64Enc_ne_pad _), b64Dec_enc _ (by omega), b64Dec_enc _ (by omega), b64Dec_enc _ (by omega)]
    have h1 : a.toNat / 4 * 4 + (a.toNat % 4 * 16 + b.toNat / 16) / 16 = a.toNat := by omega
    have h2 : (a.toNat % 4 * 16 + b.toNat / 16) % 16 * 16 + b.toNat % 16 * 4 / 4 = b.toNat := by omega
    simp only [h1, h2, toUInt8_toNat']
  | case4 a b c rest ih =>
    have ha := u8lt a
    have hb := u8lt b
    have hc := u8lt c
    simp only [b64Encode, b64DecodeGroups]
    rw [if_neg (by intro h; exact b64Enc_ne_pad _ h.2), b64Dec_enc _ (by omega), b64Dec_enc _ (by omega),
      b64Dec_enc _ (by omega), b64Dec_enc _ (by omega), ih]
    have h1 : a.toNat / 4 * 4 + (a.toNat % 4 * 16 + b.toNat / 16) / 16 = a.toNat := by omega
    have h2 : (a.toNat % 4 * 16 + b.toNat / 16) % 16 * 16 + (b.toNat % 16 * 4 + c.toNat / 64) / 4 = b.toNat := by omega
    have h3 : (b.toNat % 16 * 4 + c.toNat / 64) % 4 * 64 + c.toNat % 64 = c.toNat := by omega
    simp only [h1, h2, h3, toUInt8_toNat']

/-- every character of an encoding is an alphabet character or '='. -/
theorem b64Encode_chars (bs : List UInt8) : ∀ c ∈ b64Encode bs, 43 ≤ c ∧ c ≠ 92 := by
  induction bs using b64Encode.induct with
  | case1 => simp [b64Encode]
  | case2 a =>
    intro c hc
    simp only [b64Encode, List.mem_cons, List.not_mem_nil, or_false] at hc
    rcases hc with h | h | h | h <;> subst h <;> first | exact b64Enc_ge _ | (unfold pad; omega)
  | case3 a b =>
    intro c hc
    simp only [b64Encode, List.mem_cons, List.not_mem_nil, or_false] at hc
    rcases hc with h | h | h | h <;> subst h <;> first | exact b64Enc_ge _ | (unfold pad; omega)
  | case4 a b c rest ih =>
    intro x hx
    simp only [b64Encode, List.mem_cons] at hx
    rcases hx with h | h | h | h | h
    · subst h; exact b64Enc_ge _
    · subst h; exact b64Enc_ge _
    · subst h; exact b64Enc_ge _
    · subst h; exact b64Enc_ge _
    · exact ih x h

theorem b64Encode_filter (bs : List UInt8) : (b64Encode bs).filter notNewline = b64Encode bs := by
  rw [List.filter_eq_self]
  intro c hc
  have := b64Encode_chars bs c hc
  unfold notNewline
  simp
  omega

theorem b64Decode_encode (bs : List UInt8) : b64Decode (b64Encode bs) = some bs := by
  unfold b64Decode
  rw [b64Encode_filter, b64DecodeGroups_encode]

/-! ## decimal -/

theorem natToDec_small (n : Nat) (h : n < 10) : natToDec n = [48 + n] := by
  rw [natToDec]; simp [h]

theorem natToDec_big (n : Nat) (h : ¬ n < 10) : natToDec n = natToDec (n / 10) ++ [48 + n % 10] := by
  rw [natToDec]; simp [h]

theorem natToDec_ne_nil (n : Nat) : natToDec n ≠ [] := by
  by_cases h : n < 10
  · rw [natToDec_small n h]; simp
  · rw [natToDec_big n h]; simp

theorem natToDec_digits (n : Nat) : ∀ c ∈ natToDec n, isDigit c = true := by
  induction n using Nat.strong_induction_on with
  | _ n ih =>
    by_cases h : n < 10
    · rw [natToDec_small n h]
      intro c hc
      simp only [List.mem_singleton] at hc
      subst hc
      simp [isDigit]; omega
    · rw [natToDec_big n h]
      intro c hc
      rcases List.mem_append.mp hc with hc | hc
      · exact ih (n / 10) (by omega) c hc
      · simp only [List.mem_singleton] at hc
        subst hc
        simp [isDigit]; omega

theorem foldl_decStep_natToDec (n : Nat) : (natToDec n).foldl decStep (some 0) = some n := by
  induction n using Nat.strong_induction_on with
  | _ n ih =>
    by_cases h : n < 10
    · rw [natToDec_small n h]
      have : isDigit (48 + n) = true := by simp [isDigit]; omega
      simp [decStep, this]
    · rw [natToDec_big n h, List.foldl_append, ih (n / 10) (by omega)]
      have : isDigit (48 + n % 10) = true := by simp [isDigit]; omega
      simp only [List.foldl_cons, List.foldl_nil, decStep, this, if_true]
      congr 1
      omega

theorem decToNat_natToDec (n : Nat) : decToNat? (natToDec n) = some n := by
  unfold decToNat?
  have h : (natToDec n).isEmpty = false := by
    cases hl : natToDec n with
    | nil => exact absurd hl (natToDec_ne_nil n)
    | cons c r => rfl
  rw [h]
  simp only [Bool.false_eq_true, if_false]
  exact foldl_decStep_natToDec n

theorem natToDec_head (n : Nat) : ∃ c r, natToDec n = c :: r ∧ isDigit c = true := by
  cases hl : natToDec n with
  | nil => exact absurd hl (natToDec_ne_nil n)
  | cons c r =>
    refine ⟨c, r, rfl, ?_⟩
    exact natToDec_digits n c (by rw [hl]; simp)

theorem parseDecInt_intToDec (z : Int) : parseDecInt? (intToDec z) = some z := by
  unfold intToDec
  split_ifs with hz
  · simp only [parseDecInt?, if_true, decToNat_natToDec]
    congr 1
    simp only [Int.ofNat_eq_natCast]
    omega
  · obtain ⟨c, r, hcr, hd⟩ := natToDec_head z.toNat
    have h45 : c ≠ 45 := by
      intro h; subst h; simp [isDigit] at hd
    have h43 : c ≠ 43 := by
      intro h; subst h; simp [isDigit] at hd
    rw [hcr]
    simp only [parseDecInt?, if_neg h45, if_neg h43]
    rw [← hcr, decToNat_natToDec]
    simp only [Int.ofNat_eq_natCast]
    congr 1
    omega


/-! ## trimming -/

theorem dropWhile_id_of_head (p : Nat → Bool) (l : Text) (h : ∀ c, l.head? = some c → p c = false) :
    l.dropWhile p = l := by
  cases l with
  | nil => rfl
  | cons a r =>
    have := h a rfl
    simp [List.dropWhile, this]

theorem trimWith_id (p : Nat → Bool) (t : Text) (h1 : ∀ c, t.head? = some c → p c = false)
    (h2 : ∀ c, t.getLast? = some c → p c = false) : trimWith p t = t := by
  unfold trimWith
  rw [dropWhile_id_of_head p t h1, dropWhile_id_of_head p t.reverse, List.reverse_reverse]
  intro c hc
  rw [List.head?_reverse] at hc
  exact h2 c hc

theorem natToDec_last (n : Nat) : ∃ c, (natToDec n).getLast? = some c ∧ isDigit c = true := by
  cases hl : (natToDec n).getLast? with
  | none =>
    rw [List.getLast?_eq_none_iff] at hl
    exact absurd hl (natToDec_ne_nil n)
  | some c =>
    exact ⟨c, rfl, natToDec_digits n c (List.mem_of_getLast? hl)⟩

theorem isDigit_not_space {c : Nat} (h : isDigit c = true) : isSpace c = false := by
  simp [isDigit] at h
  simp [isSpace]
  omega

theorem isDigit_not_jsonWs {c : Nat} (h : isDigit c = true) : isJsonWs c = false := by
  simp [isDigit] at h
  simp [isJsonWs]
  omega

theorem trimSpace_natToDec (n : Nat) : trimSpace (natToDec n) = natToDec n := by
  apply trimWith_id
  · intro c hc
    obtain ⟨c', r, hcr, hd⟩ := natToDec_head n
    rw [hcr] at hc
    simp at hc
    subst hc
    exact isDigit_not_space hd
  · intro c hc
    obtain ⟨c', hc', hd⟩ := natToDec_last n
    rw [hc'] at hc
    simp at hc
    subst hc
    exact isDigit_not_space hd

theorem intToDec_neg (z : Int) (h : z < 0) : intToDec z = 45 :: natToDec z.natAbs := by
  simp [intToDec, h]

theorem intToDec_nonneg (z : Int) (h : 0 ≤ z) : intToDec z = natToDec z.toNat := by
  simp [intToDec, Int.not_lt.mpr h]

theorem getLast?_cons_natToDec (a : Nat) (n : Nat) :
    (a :: natToDec n).getLast? = (natToDec n).getLast? := by
  cases hl : natToDec n with
  | nil => exact absurd hl (natToDec_ne_nil n)
  | cons c r => simp [List.getLast?_cons_cons]

theorem trimSpace_intToDec (z : Int) : trimSpace (intToDec z) = intToDec z := by
  by_cases hz : z < 0
  · rw [intToDec_neg z hz]
    apply trimWith_id
    · intro c hc
      simp at hc
      subst hc
      simp [isSpace]
    · intro c hc
      rw [getLast?_cons_natToDec] at hc
      obtain ⟨c', hc', hd⟩ := natToDec_last z.natAbs
      rw [hc'] at hc
      simp at hc
      subst hc
      exact isDigit_not_space hd
  · rw [intToDec_nonneg z (Int.not_lt.mp hz)]
    exact trimSpace_natToDec _

/-! ## big.Int codecs -/

theorem unmarshalXML_marshalXML (z : Int) :
    unmarshalXML (marshalXML z) = if z < 0 then .error .negative else .ok z := by
  simp [unmarshalXML, marshalXML, parseDecInt_intToDec]

theorem marshalText_nonneg (z : Int) (h : 0 ≤ z) :
    marshalText z = .ok (b64Encode (natBytesBE z.toNat)) := by
  simp [marshalText, Int.not_lt.mpr h]

theorem marshalJSON_nonneg (z : Int) (h : 0 ≤ z) :
    marshalJSON z = .ok (34 :: b64Encode (natBytesBE z.toNat) ++ [34]) := by
  simp [marshalJSON, marshalText_nonneg z h]

theorem unmarshalJSON_quoted (prev : Int) (bs : List UInt8) :
    unmarshalJSON prev (34 :: b64Encode bs ++ [34]) = .ok (Int.ofNat (ofBytesBE bs)) := by
  simp only [unmarshalJSON, List.cons_append]
  rw [List.dropLast_concat, b64Decode_encode]

theorem unmarshalJSON_marshalJSON (prev z : Int) (h : 0 ≤ z) :
    unmarshalJSON prev (34 :: b64Encode (natBytesBE z.toNat) ++ [34]) = .ok z := by
  rw [unmarshalJSON_quoted, ofBytesBE_natBytesBE]
  congr 1
  simp only [Int.ofNat_eq_natCast]
  omega

theorem jsonUnmarshalInt_quoted (prev : Int) (bs : List UInt8) :
    jsonUnmarshalInt prev (34 :: b64Encode bs ++ [34]) = .ok (Int.ofNat (ofBytesBE bs)) := by
  have htrim : trimWith isJsonWs (34 :: b64Encode bs ++ [34]) = 34 :: b64Encode bs ++ [34] := by
    apply trimWith_id
    · intro c hc
      simp at hc
      subst hc
      simp [isJsonWs]
    · intro c hc
      rw [List.cons_append, ← List.cons_append, List.getLast?_concat] at hc
      simp at hc
      subst hc
      simp [isJsonWs]
  unfold jsonUnmarshalInt
  simp only [htrim]
  simp only [List.cons_append]
  have hlast : (b64Encode bs ++ [34]).getLast? = some 34 := List.getLast?_concat ..
  have hany : (b64Encode bs).any (fun c => c < 32 || c == 92 || c == 34) = false := by
    rw [List.any_eq_false]
    intro c hc
    have := b64Encode_chars bs c hc
    simp
    omega
  simp only [hlast, ne_eq, not_true_eq_false, if_false, List.dropLast_concat, hany, Bool.false_eq_true]
  rw [← List.cons_append, unmarshalJSON_quoted]

theorem natToDec_head_pos (n : Nat) (h : 0 < n) :
    ∃ c r, natToDec n = c :: r ∧ 49 ≤ c ∧ c ≤ 57 := by
  induction n using Nat.strong_induction_on with
  | _ n ih =>
    by_cases hs : n < 10
    · exact ⟨48 + n, [], natToDec_small n hs, by omega, by omega⟩
    · obtain ⟨c, r, hcr, h1, h2⟩ := ih (n / 10) (by omega) (by omega)
      refine ⟨c, r ++ [48 + n % 10], ?_, h1, h2⟩
      rw [natToDec_big n hs, hcr]
      rfl

theorem jsonIntBody_natToDec (n : Nat) : jsonIntBody (natToDec n) = true := by
  by_cases h : n = 0
  · subst h
    rw [natToDec_small 0 (by omega)]
    simp [jsonIntBody]
  · obtain ⟨c, r, hcr, h1, h2⟩ := natToDec_head_pos n (by omega)
    have hall : ∀ x ∈ r, isDigit x = true := by
      intro x hx
      exact natToDec_digits n x (by rw [hcr]; exact List.mem_cons_of_mem _ hx)
    rw [hcr]
    unfold jsonIntBody
    have : c ≠ 48 := by omega
    simp only [this, if_false]
    simp only [h1, h2, decide_true, Bool.true_and, List.all_eq_true]
    exact hall

theorem trimJson_intToDec (z : Int) : trimWith isJsonWs (intToDec z) = intToDec z := by
  by_cases hz : z < 0
  · rw [intToDec_neg z hz]
    apply trimWith_id
    · intro c hc
      simp at hc
      subst hc
      simp [isJsonWs]
    · intro c hc
      rw [getLast?_cons_natToDec] at hc
      obtain ⟨c', hc', hd⟩ := natToDec_last z.natAbs
      rw [hc'] at hc
      simp at hc
      subst hc
      exact isDigit_not_jsonWs hd
  · rw [intToDec_nonneg z (Int.not_lt.mp hz)]
    apply trimWith_id
    · intro c hc
      obtain ⟨c', r, hcr, hd⟩ := natToDec_head z.toNat
      rw [hcr] at hc
      simp at hc
      subst hc
      exact isDigit_not_jsonWs hd
    · intro c hc
      obtain ⟨c', hc', hd⟩ := natToDec_last z.toNat
      rw [hc'] at hc
      simp at hc
      subst hc
      exact isDigit_not_jsonWs hd

/-- the unquoted (decimal) JSON form: accepted for non-negative values, refused for negative. -/
theorem unmarshalJSON_decimal (prev z : Int) :
    unmarshalJSON prev (intToDec z) = if z < 0 then .error .negative else .ok z := by
  by_cases hz : z < 0
  · have hn : z.natAbs ≠ 0 := by omega
    obtain ⟨c, r, hcr, h1, h2⟩ := natToDec_head_pos z.natAbs (by omega)
    have hbody := jsonIntBody_natToDec z.natAbs
    have hdec := decToNat_natToDec z.natAbs
    have ht := trimJson_intToDec z
    rw [intToDec_neg z hz] at ht ⊢
    simp only [hz, if_true]
    have : unmarshalJSON prev (45 :: natToDec z.natAbs) = unmarshalJSONUnquoted prev (45 :: natToDec z.natAbs) := by
      simp [unmarshalJSON]
    rw [this]
    unfold unmarshalJSONUnquoted
    simp only [ht]
    simp [hbody, hdec, hn]
  · have hz' : 0 ≤ z := Int.not_lt.mp hz
    obtain ⟨c, r, hcr, hd⟩ := natToDec_head z.toNat
    have hbody := jsonIntBody_natToDec z.toNat
    have hdec := decToNat_natToDec z.toNat
    have ht := trimJson_intToDec z
    rw [intToDec_nonneg z hz'] at ht ⊢
    simp only [hz, if_false]
    have hc34 : c ≠ 34 := by intro h; subst h; simp [isDigit] at hd
    have hc45 : c ≠ 45 := by intro h; subst h; simp [isDigit] at hd
    have hc110 : c ≠ 110 := by intro h; subst h; simp [isDigit] at hd
    have : unmarshalJSON prev (natToDec z.toNat) = unmarshalJSONUnquoted prev (natToDec z.toNat) := by
      rw [hcr]
      unfold unmarshalJSON
      split
      · rename_i heq; simp at heq; exact absurd heq.1 hc34
      · rfl
    rw [this]
    unfold unmarshalJSONUnquoted
    simp only [ht]
    have hnull : natToDec z.toNat ≠ [110, 117, 108, 108] := by
      rw [hcr]; intro h; simp at h; exact hc110 h.1
    have hneg : ¬ ((natToDec z.toNat).head? = some 45) := by
      rw [hcr]; simp; exact hc45
    simp only [hnull, if_false, hneg, hbody, if_true, hdec]
    simp only [decide_false, Bool.false_eq_true, false_and, if_false]
    congr 1
    simp only [Int.ofNat_eq_natCast]
    omega

theorem ofBytesBE_foldl_acc (acc : Nat) (b : List UInt8) :
    b.foldl (fun a x => a * 256 + x.toNat) acc = acc * 256 ^ b.length + ofBytesBE b := by
  induction b generalizing acc with
  | nil => simp [ofBytesBE]
  | cons x r ih =>
    simp only [List.foldl_cons, List.length_cons, ofBytesBE]
    rw [ih, ih (0 * 256 + x.toNat), Nat.pow_succ]
    ring

theorem ofBytesBE_append (a b : List UInt8) :
    ofBytesBE (a ++ b) = ofBytesBE a * 256 ^ b.length + ofBytesBE b := by
  unfold ofBytesBE
  rw [List.foldl_append, ofBytesBE_foldl_acc]
  rfl

theorem ofBytesBE_replicate_zero (k : Nat) : ofBytesBE (List.replicate k 0) = 0 := by
  induction k with
  | zero => rfl
  | succ k ih =>
    rw [List.replicate_succ']
    rw [ofBytesBE_snoc, ih]
    rfl

theorem ofBytesBE_leading_zeros (k : Nat) (bs : List UInt8) :
    ofBytesBE (List.replicate k 0 ++ bs) = ofBytesBE bs := by
  rw [ofBytesBE_append, ofBytesBE_replicate_zero]
  simp

/-! ## CBOR byte strings -/

theorem fixedBE_one (n : Nat) : fixedBE 1 n = [(n % 256).toUInt8] := by
  simp [fixedBE, List.range_succ]

theorem fixedBE_two (n : Nat) : fixedBE 2 n = [(n / 256 % 256).toUInt8, (n % 256).toUInt8] := by
  simp [fixedBE, List.range_succ]

theorem ofNat_toUInt8_toNat (n : Nat) (h : n < 256) : n.toUInt8.toNat = n := by
  simp [Nat.toUInt8, UInt8.toNat_ofNat']
  omega

theorem cborBytes_roundtrip (b : List UInt8) (h : b.length < 65536) :
    cborBytesDecode? (cborBytesHead b.length ++ b) = some b := by
  unfold cborBytesHead
  by_cases h1 : b.length < 24
  · simp only [h1, if_true, List.cons_append, List.nil_append, cborBytesDecode?]
    have e : (0x40 + b.length).toUInt8.toNat = 0x40 + b.length := ofNat_toUInt8_toNat _ (by omega)
    rw [e]
    simp
    omega
  · by_cases h2 : b.length < 256
    · simp only [h1, h2, if_false, if_true, List.cons_append, cborBytesDecode?, fixedBE_one]
      have e : (b.length % 256).toUInt8.toNat = b.length := by rw [toUInt8_mod_toNat]; omega
      simp [ofBytesBE, e]
    · simp only [h1, h2, h, if_false, if_true, List.cons_append, cborBytesDecode?, fixedBE_two]
      have e1 : (b.length / 256 % 256).toUInt8.toNat = b.length / 256 := by rw [toUInt8_mod_toNat]; omega
      have e2 : (b.length % 256).toUInt8.toNat = b.length % 256 := toUInt8_mod_toNat _
      simp [ofBytesBE, e1, e2]
      omega
/-! ## file permissions -/

namespace FilePerm

theorem created_private (p : Proc) : created p 0o600 &&& 0o077 = 0 := by
  unfold created
  rw [Nat.and_comm 0o600, Nat.and_assoc]
  have : (0o600 : Nat) &&& 0o077 = 0 := by decide
  rw [this, Nat.and_zero]

theorem writeToFile_private (p : Proc) (force : Bool) (prior : Prior) (m : Nat)
    (h : writeToFile p force prior = .ok m) : m &&& 0o077 = 0 := by
  unfold writeToFile at h
  cases force <;> cases prior <;> simp only [Bool.false_eq_true, if_false, if_true] at h
  all_goals first
    | (injection h with h; subst h; exact created_private p)
    | (injection h with h; subst h; decide)
    | (split at h <;> first | (injection h with h; subst h; decide) | exact absurd h (by simp))
    | exact absurd h (by simp)

end FilePerm

/-! ## compressed event lists -/

namespace Events

theorem rebuild_map {H : Type} (hash : Event H → H) (evs : List (Event H)) (ev : Event H)
    (hc : Chained hash (ev :: evs)) :
    rebuild hash ev.index ev.parent ((ev :: evs).map (·.e)) = ev :: evs := by
  induction evs generalizing ev with
  | nil => simp [rebuild]
  | cons b rest ih =>
    obtain ⟨hi, hp, hrest⟩ := hc
    have := ih b hrest
    simp only [List.map_cons, rebuild] at this ⊢
    rw [← hi, ← hp]
    rw [this]

theorem uncompress_compress {H : Type} (hash : Event H → H) (dflt : H) (evs : List (Event H))
    (hc : Chained hash evs) : uncompress hash (compress dflt evs) = evs := by
  cases evs with
  | nil => simp [compress, uncompress, rebuild]
  | cons ev rest => exact rebuild_map hash rest ev hc

end Events

end Gabi.Serial
