/-
  GabiProofs.KeyProofLemmas — helper lemmas for property C17 (package keyproof).
-/
import GabiModel.KeyProof
import GabiProofs.NumLemmas
import Mathlib.Data.Nat.Totient
import Mathlib.FieldTheory.Finite.Basic
import Mathlib.Data.ZMod.Basic
import Mathlib.Tactic.Ring
import Mathlib.Tactic.Linarith
import Mathlib.Tactic.LinearCombination
import Mathlib.Tactic.NormNum.Prime
import Mathlib.Algebra.Group.Basic
import Mathlib.Algebra.Group.Int.Defs
import GabiProofs.Legendre

namespace Gabi.KeyProof
open Gabi

/-! ## round sequencing -/

theorem firstFailure_accept_iff (l : List Nat) (f : Nat → Verdict) :
    firstFailure l f = .accept ↔ ∀ i ∈ l, f i = .accept := by
  induction l with
  | nil => simp [firstFailure]
  | cons a as ih =>
    unfold firstFailure
    cases h : f a <;> simp [h, ih]

theorem andThen_accept_iff (a : Verdict) (b : Unit → Verdict) :
    a.andThen b = .accept ↔ a = .accept ∧ b () = .accept := by
  cases a <;> simp [Verdict.andThen]

theorem ofBool_accept_iff (b : Bool) : ofBool b = .accept ↔ b = true := by
  cases b <;> simp [ofBool]

theorem collect_eq_some {α : Type} (l : List (Option α)) (rs : List α) :
    collect l = some rs ↔ l = rs.map some := by
  induction l generalizing rs with
  | nil => cases rs <;> simp [collect]
  | cons a as ih =>
    cases a with
    | none => cases rs <;> simp [collect]
    | some x =>
      unfold collect
      cases h : collect as with
      | none =>
        cases rs with
        | nil => simp
        | cons r rs' =>
          simp only [List.map_cons, List.cons.injEq, Option.some.injEq, reduceCtorEq, false_iff, not_and]
          intro _ h2
          have := (ih rs').mpr h2
          rw [h] at this
          exact absurd this (by simp)
      | some xs =>
        have hx := (ih xs).mp h
        cases rs with
        | nil => simp
        | cons r rs' =>
          simp only [Option.some.injEq, List.cons.injEq, List.map_cons]
          constructor
          · rintro ⟨rfl, rfl⟩; exact ⟨rfl, hx⟩
          · rintro ⟨rfl, h2⟩
            refine ⟨rfl, ?_⟩
            have := (ih rs').mpr h2
            rw [h] at this
            exact Option.some.inj this

theorem rounds_eq_some {α : Type} (k : Nat) (f : Nat → Option α) (rs : List α) :
    rounds k f = some rs ↔ rs.length = k ∧ ∀ i, i < k → f i = rs[i]? := by
  unfold rounds
  rw [collect_eq_some]
  constructor
  · intro h
    have hl : rs.length = k := by
      have := congrArg List.length h
      simpa using this.symm
    refine ⟨hl, fun i hi => ?_⟩
    have := congrArg (fun l => l[i]?) h
    simp only [List.getElem?_map, List.getElem?_range hi, Option.map_some] at this
    cases hr : rs[i]? with
    | none => rw [hr] at this; exact absurd this (by simp)
    | some x => rw [hr] at this; simpa using this
  · rintro ⟨hl, h⟩
    apply List.ext_getElem?
    intro i
    by_cases hi : i < k
    · simp only [List.getElem?_map, List.getElem?_range hi, Option.map_some, h i hi]
      have : i < rs.length := by omega
      simp [List.getElem?_eq_getElem this]
    · have h1 : (List.map f (List.range k))[i]? = none := by
        simp [List.getElem?_eq_none_iff]; omega
      have h2 : (List.map some rs)[i]? = none := by
        simp [List.getElem?_eq_none_iff]; omega
      rw [h1, h2]

theorem collect_isSome {α : Type} (l : List (Option α)) (h : ∀ x ∈ l, x.isSome = true) :
    ∃ rs, collect l = some rs := by
  induction l with
  | nil => exact ⟨[], rfl⟩
  | cons a as ih =>
    obtain ⟨rs, hrs⟩ := ih (fun x hx => h x (List.mem_cons_of_mem _ hx))
    cases a with
    | none => have := h none (List.mem_cons_self); simp at this
    | some x => exact ⟨x :: rs, by simp [collect, hrs]⟩

theorem rounds_isSome {α : Type} (k : Nat) (f : Nat → Option α) (h : ∀ i, i < k → (f i).isSome = true) :
    ∃ rs, rounds k f = some rs := by
  unfold rounds
  apply collect_isSome
  intro x hx
  obtain ⟨i, hi, rfl⟩ := List.mem_map.mp hx
  exact h i (List.mem_range.mp hi)

/-! ## roots: exponent inverse modulo the totient -/

/-- if `e·m ≡ 1 (mod φ(N))` then `x ↦ x^m` inverts `x ↦ x^e` on the units modulo `N`. -/
theorem pow_pow_inverse_exponent {N : Nat} (c e m : Nat) (hφ : 2 ≤ Nat.totient N)
    (hc : Nat.Coprime c N) (hem : e * m % Nat.totient N = 1) :
    (c ^ m) ^ e % N = c % N := by
  have hdiv := Nat.div_add_mod (e * m) (Nat.totient N)
  rw [hem] at hdiv
  rw [← pow_mul, mul_comm m e, ← hdiv, pow_add, pow_mul, pow_one]
  have h1 : c ^ Nat.totient N ≡ 1 [MOD N] := Nat.ModEq.pow_totient hc
  have h2 : (c ^ Nat.totient N) ^ (e * m / Nat.totient N) ≡ 1 ^ (e * m / Nat.totient N) [MOD N] := h1.pow _
  rw [one_pow] at h2
  have h3 : (c ^ Nat.totient N) ^ (e * m / Nat.totient N) * c ≡ 1 * c [MOD N] := h2.mul_right c
  rw [one_mul] at h3
  exact h3

theorem totient_two_primes {p q : Nat} (hp : p.Prime) (hq : q.Prime) (hne : p ≠ q) :
    Nat.totient (p * q) = (p - 1) * (q - 1) := by
  rw [Nat.totient_mul ((Nat.coprime_primes hp hq).mpr hne), Nat.totient_prime hp, Nat.totient_prime hq]


theorem roundChallenge_range (challenge index : Int) (i : Nat) {n : Int} (hn : 0 < n) :
    0 ≤ roundChallenge challenge index i n ∧ roundChallenge challenge index i n < n :=
  ⟨Int.emod_nonneg _ (by omega), Int.emod_lt_of_pos _ hn⟩

/-- Int version: a response `c^m mod N` raised to `e` gives back `c`. -/
theorem int_root_correct {N : Nat} (c m : Int) (e : Nat) (hc0 : 0 ≤ c) (hcN : c < N) (hm0 : 0 ≤ m)
    (hφ : 2 ≤ Nat.totient N) (hcop : Nat.gcd c.natAbs N = 1)
    (hem : ((e : Int) * m) % (Nat.totient N : Int) = 1) :
    (c ^ m.toNat % (N : Int)) ^ e % (N : Int) = c := by
  rw [int_emod_pow_emod]
  obtain ⟨c', rfl⟩ := Int.eq_ofNat_of_zero_le hc0
  obtain ⟨m', rfl⟩ := Int.eq_ofNat_of_zero_le hm0
  simp only [Int.toNat_natCast, Int.natAbs_natCast] at *
  have hem' : e * m' % Nat.totient N = 1 := by
    have : ((e * m' % Nat.totient N : Nat) : Int) = 1 := by push_cast; exact hem
    exact_mod_cast this
  have key := pow_pow_inverse_exponent c' e m' hφ hcop hem'
  have hlt : c' < N := by exact_mod_cast hcN
  rw [Nat.mod_eq_of_lt hlt] at key
  have : (((c' ^ m') ^ e % N : Nat) : Int) = (c' : Int) := by rw [key]
  push_cast at this
  exact this


/-- the contract of a modular square-root routine (`common.ModSqrt(·, [P, Q])`, property C19): what
    it returns is a root in `[0, N)`, and it returns one whenever a root exists. -/
structure SqrtSpec (sqrt : Int → Option Int) (n : Int) : Prop where
  sound : ∀ a r, sqrt a = some r → 0 ≤ r ∧ r < n ∧ r * r % n = a % n
  complete : ∀ a, (∃ x : Int, x * x % n = a % n) → (sqrt a).isSome

/-- `primePowerProductBuildProof` with the square-root routine as a parameter. -/
def pppBuildWith (sqrt : Int → Option Int) (n challenge index : Int) : Option (List Int) :=
  if n = 0 then none else
  rounds Gen.kp_primePowerProductIters fun i =>
    let c := roundChallenge challenge index i n
    if Nat.gcd c.natAbs n.natAbs ≠ 1 then none else pppResponse sqrt n c

/-! ## key conditions -/

/-- The conditions under which `keyproof.CanProve(p', q')` answers true, with primality as a
    proposition, `p', q'` odd, and both primes of the same bit length (gabi generates both with
    `Ln/2` bits; property C16). `P = 2p'+1`, `Q = 2q'+1`. -/
structure KeyCond (pp qp : Nat) : Prop where
  pp_prime : pp.Prime
  qp_prime : qp.Prime
  p_prime : (2 * pp + 1).Prime
  q_prime : (2 * qp + 1).Prime
  pp_odd : pp ≠ 2
  qp_odd : qp ≠ 2
  p_mod8 : (2 * pp + 1) % 8 ≠ 1
  q_mod8 : (2 * qp + 1) % 8 ≠ 1
  pp_mod8 : pp % 8 ≠ 1
  qp_mod8 : qp % 8 ≠ 1
  pq_mod8 : (2 * pp + 1) % 8 ≠ (2 * qp + 1) % 8
  ppqp_mod8 : pp % 8 ≠ qp % 8
  same_len : natBitLen (2 * pp + 1) = natBitLen (2 * qp + 1)

theorem not_chain_of_same_len {a b : Nat} (h : natBitLen (2 * a + 1) = natBitLen b) : b ≠ a := by
  rintro rfl
  -- natBitLen (2b+1) = natBitLen b is impossible
  have hb : b ≠ 0 := by
    rintro rfl
    simp [natBitLen] at h
  have h1 := two_pow_natBitLen_le b hb
  have h2 : 2 * b + 1 < 2 ^ natBitLen b := by
    have := lt_two_pow_natBitLen (2 * b + 1)
    rwa [h] at this
  have hpos : 0 < natBitLen b := (natBitLen_pos_iff b).mpr hb
  have : 2 ^ natBitLen b = 2 * 2 ^ (natBitLen b - 1) := by
    conv_lhs => rw [show natBitLen b = (natBitLen b - 1) + 1 by omega]
    rw [pow_succ]; ring
  omega

namespace KeyCond
variable {pp qp : Nat}

theorem ne (k : KeyCond pp qp) : pp ≠ qp := by
  intro h; exact k.ppqp_mod8 (by rw [h])

theorem totient_eq (k : KeyCond pp qp) : Nat.totient ((2 * pp + 1) * (2 * qp + 1)) = 4 * (pp * qp) := by
  have hne : 2 * pp + 1 ≠ 2 * qp + 1 := by have := k.ne; omega
  rw [totient_two_primes k.p_prime k.q_prime hne]
  simp only [Nat.add_sub_cancel]
  ring

/-- `gcd(N, φ(N)) = 1`: the square-free prover's inverse `N⁻¹ mod φ(N)` exists. -/
theorem coprime_totient (k : KeyCond pp qp) :
    Nat.Coprime ((2 * pp + 1) * (2 * qp + 1)) (Nat.totient ((2 * pp + 1) * (2 * qp + 1))) := by
  rw [k.totient_eq]
  have hpp2 := k.pp_prime.two_le
  have hqp2 := k.qp_prime.two_le
  have aux : ∀ {a b : Nat}, (2 * a + 1).Prime → a.Prime → b.Prime → 2 ≤ a →
      natBitLen (2 * b + 1) = natBitLen (2 * a + 1) → a ≠ b → Nat.Coprime (2 * a + 1) (4 * (a * b)) := by
    intro a b hP ha hb ha2 hlen hab
    rw [Nat.Prime.coprime_iff_not_dvd hP]
    intro hdvd
    have h4 : (4 : Nat) = 2 * 2 := rfl
    rw [h4] at hdvd
    rcases (Nat.Prime.dvd_mul hP).mp hdvd with h | h
    · rcases (Nat.Prime.dvd_mul hP).mp h with h | h <;>
      · have := Nat.le_of_dvd (by omega) h; omega
    · rcases (Nat.Prime.dvd_mul hP).mp h with h | h
      · have := Nat.le_of_dvd (by omega) h; omega
      · have heq := (Nat.prime_dvd_prime_iff_eq hP hb).mp h
        exact not_chain_of_same_len hlen heq
  exact Nat.Coprime.mul_left (aux k.p_prime k.pp_prime k.qp_prime hpp2 k.same_len.symm k.ne)
    (by
      have := aux k.q_prime k.qp_prime k.pp_prime hqp2 k.same_len k.ne.symm
      rwa [Nat.mul_comm qp pp] at this)

/-- `gcd(odd(N−1), φ(N)) = 1`: the disjoint-prime-product prover's inverse exists. -/
theorem coprime_oddPart (k : KeyCond pp qp) :
    Nat.Coprime (stripTwos ((2 * pp + 1) * (2 * qp + 1) - 1)).1 (Nat.totient ((2 * pp + 1) * (2 * qp + 1))) := by
  rw [k.totient_eq]
  have hpp2 := k.pp_prime.two_le
  have hqp2 := k.qp_prime.two_le
  have hN1 : (2 * pp + 1) * (2 * qp + 1) - 1 = 2 * (2 * (pp * qp) + pp + qp) := by
    have : (2 * pp + 1) * (2 * qp + 1) = 2 * (2 * (pp * qp) + pp + qp) + 1 := by ring
    omega
  have hne0 : (2 * pp + 1) * (2 * qp + 1) - 1 ≠ 0 := by
    rw [hN1]; have : 0 < pp * qp := Nat.mul_pos (by omega) (by omega); omega
  obtain ⟨hfact, hodd⟩ := stripTwos_spec _ hne0
  set o := (stripTwos ((2 * pp + 1) * (2 * qp + 1) - 1)).1 with ho
  have hdvd : o ∣ 2 * (2 * (pp * qp) + pp + qp) := by
    rw [← hN1]; exact ⟨_, hfact⟩
  have hodd_cop : Nat.Coprime o 2 := by
    rw [Nat.coprime_comm, Nat.Prime.coprime_iff_not_dvd Nat.prime_two]
    intro h; have := Nat.mod_eq_zero_of_dvd h; omega
  have aux : ∀ {a b : Nat}, a.Prime → b.Prime → a ≠ 2 → a ≠ b → o ∣ 2 * (2 * (a * b) + a + b) → Nat.Coprime o a := by
    intro a b ha hb ha2 hab hd
    rw [Nat.coprime_comm, Nat.Prime.coprime_iff_not_dvd ha]
    intro h
    have h1 : a ∣ 2 * (2 * (a * b) + a + b) := dvd_trans h hd
    have h2 : a ∣ 2 * b := by
      have e : 2 * (2 * (a * b) + a + b) = a * (4 * b + 2) + 2 * b := by ring
      rw [e] at h1
      exact (Nat.dvd_add_right (Dvd.intro _ rfl)).mp h1
    rcases (Nat.Prime.dvd_mul ha).mp h2 with h3 | h3
    · exact ha2 ((Nat.prime_dvd_prime_iff_eq ha Nat.prime_two).mp h3)
    · exact hab ((Nat.prime_dvd_prime_iff_eq ha hb).mp h3)
  have c1 : Nat.Coprime o pp := aux k.pp_prime k.qp_prime k.pp_odd k.ne hdvd
  have c2 : Nat.Coprime o qp := by
    apply aux k.qp_prime k.pp_prime k.qp_odd k.ne.symm
    have e : 2 * (2 * (qp * pp) + qp + pp) = 2 * (2 * (pp * qp) + pp + qp) := by ring
    rw [e]; exact hdvd
  have c4 : Nat.Coprime o 4 := by
    have : (4 : Nat) = 2 * 2 := rfl
    rw [this]; exact Nat.Coprime.mul_right hodd_cop hodd_cop
  exact Nat.Coprime.mul_right c4 (Nat.Coprime.mul_right c1 c2)

end KeyCond

/-! ## the representation proof interpreter over an abstract commutative group -/

section Repr
variable {G : Type} [CommGroup G]

/-- the interpreter's operations in a commutative group: integer powers. -/
def zpowOps : GroupOps G := { one := 1, mul := fun a b => a * b, pow := fun b e => b ^ e }

theorem zpow_emod_of_zpow_eq_one (b : G) (order e : Int) (h : b ^ order = 1) : b ^ (e % order) = b ^ e := by
  conv_rhs => rw [← Int.mul_ediv_add_emod e order]
  rw [zpow_add, zpow_mul, h, one_zpow, one_mul]

/-- every named base has order dividing `order` (the elements of the prime-order subgroup). -/
def BasesInSubgroup (order : Int) (bases : BaseLookup G) : Prop :=
  ∀ name b, bases name = some b → b.val ^ order = 1

theorem baseExp_emod {order : Int} (ho : 0 < order) {bases : BaseLookup G} (hB : BasesInSubgroup order bases)
    (name : String) (e : Int) :
    baseExp zpowOps order bases name (e % order) = (bases name).map (fun b => b.val ^ e) := by
  unfold baseExp
  cases hb : bases name with
  | none => rfl
  | some b =>
    have h0 : 0 ≤ e % order := Int.emod_nonneg _ (by omega)
    have h1 : e % order < order := Int.emod_lt_of_pos _ ho
    have hz := zpow_emod_of_zpow_eq_one b.val order e (hB name b hb)
    simp only [Option.map_some]
    split
    · unfold groupFoldExp
      simp only [show ¬ e % order < 0 by omega, if_false, show ¬ e % order ≥ order by omega]
      simp [zpowOps, hz]
    · simp [zpowOps, hz]

/-- closed form of the right-hand-side fold: `start · ∏ base^(power·value)`. -/
def rhsSpec (bases : BaseLookup G) (value : String → Option Int) : List RhsContribution → Option G
  | [] => some 1
  | r :: rest =>
    match value r.secret, bases r.base, rhsSpec bases value rest with
    | some v, some b, some x => some (b.val ^ (r.power * v) * x)
    | _, _, _ => none

theorem rhsProduct_eq_spec {order : Int} (ho : 0 < order) {bases : BaseLookup G} (hB : BasesInSubgroup order bases)
    (value : String → Option Int) (rhs : List RhsContribution) (start : G) :
    rhsProduct zpowOps order bases value rhs start = (rhsSpec bases value rhs).map (fun x => start * x) := by
  induction rhs generalizing start with
  | nil => simp [rhsProduct, rhsSpec]
  | cons r rest ih =>
    unfold rhsProduct at ih ⊢
    rw [List.foldlM_cons]
    unfold rhsSpec
    cases hv : value r.secret with
    | none => simp
    | some v =>
      have hbe := baseExp_emod ho hB r.base (r.power * v)
      cases hb : bases r.base with
      | none =>
        rw [hb] at hbe
        simp [hbe]
      | some b =>
        rw [hb] at hbe
        simp only [Option.map_some] at hbe
        simp only [Option.bind_eq_bind, Option.bind_some, hbe, Option.pure_def]
        refine (ih _).trans ?_
        cases hx : rhsSpec bases value rest with
        | none => simp
        | some x => simp [zpowOps, mul_assoc]


theorem rhsSpec_honest {order : Int} {bases : BaseLookup G} (hB : BasesInSubgroup order bases)
    (secret randomizer : String → Option Int) (c : Int) (rhs : List RhsContribution) (R S : G)
    (hR : rhsSpec bases randomizer rhs = some R) (hS : rhsSpec bases secret rhs = some S) :
    rhsSpec bases (honestResult order c secret randomizer) rhs = some (R * (S ^ c)⁻¹) := by
  induction rhs generalizing R S with
  | nil =>
    simp only [rhsSpec, Option.some.injEq] at hR hS ⊢
    subst hR; subst hS; simp
  | cons r rest ih =>
    unfold rhsSpec at hR hS ⊢
    cases hb : bases r.base with
    | none => rw [hb] at hR; cases randomizer r.secret <;> simp at hR
    | some b =>
      cases hr : randomizer r.secret with
      | none => rw [hr] at hR; simp at hR
      | some rv =>
        cases hs : secret r.secret with
        | none => rw [hs] at hS; simp at hS
        | some sv =>
          rw [hb, hr] at hR
          rw [hb, hs] at hS
          cases hR' : rhsSpec bases randomizer rest with
          | none => rw [hR'] at hR; simp at hR
          | some R' =>
            cases hS' : rhsSpec bases secret rest with
            | none => rw [hS'] at hS; simp at hS
            | some S' =>
              rw [hR'] at hR; rw [hS'] at hS
              simp only [Option.some.injEq] at hR hS
              have hres : honestResult order c secret randomizer r.secret = some ((rv - sv * c) % order) := by
                simp [honestResult, hr, hs]
              rw [hres, ih R' S' hR' hS']
              simp only [Option.some.injEq]
              have hbo := hB r.base b hb
              have e1 : b.val ^ (r.power * ((rv - sv * c) % order)) = b.val ^ (r.power * (rv - sv * c)) := by
                rw [mul_comm r.power, zpow_mul, zpow_emod_of_zpow_eq_one _ _ _ hbo, ← zpow_mul, mul_comm]
              rw [e1, ← hR, ← hS]
              have e2 : r.power * (rv - sv * c) = r.power * rv + -(r.power * sv * c) := by ring
              rw [e2, zpow_add, zpow_neg, mul_zpow, ← zpow_mul, mul_inv]
              rw [mul_mul_mul_comm]

theorem rhsSpec_diff {bases : BaseLookup G} (res' res : String → Option Int) (rhs : List RhsContribution) (X' X : G)
    (hX' : rhsSpec bases res' rhs = some X') (hX : rhsSpec bases res rhs = some X) :
    rhsSpec bases (resultDiff res' res) rhs = some (X' * X⁻¹) := by
  induction rhs generalizing X' X with
  | nil =>
    simp only [rhsSpec, Option.some.injEq] at hX' hX ⊢
    subst hX'; subst hX; simp
  | cons r rest ih =>
    unfold rhsSpec at hX' hX ⊢
    cases hb : bases r.base with
    | none => rw [hb] at hX; cases res r.secret <;> simp at hX
    | some b =>
      cases hr : res' r.secret with
      | none => rw [hr] at hX'; simp at hX'
      | some a =>
        cases hs : res r.secret with
        | none => rw [hs] at hX; simp at hX
        | some a0 =>
          rw [hb, hr] at hX'
          rw [hb, hs] at hX
          cases hR' : rhsSpec bases res' rest with
          | none => rw [hR'] at hX'; simp at hX'
          | some R' =>
            cases hS' : rhsSpec bases res rest with
            | none => rw [hS'] at hX; simp at hX
            | some S' =>
              rw [hR'] at hX'; rw [hS'] at hX
              simp only [Option.some.injEq] at hX' hX
              have hres : resultDiff res' res r.secret = some (a - a0) := by simp [resultDiff, hr, hs]
              rw [hres, ih R' S' hR' hS']
              simp only [Option.some.injEq]
              rw [← hX', ← hX, mul_sub, zpow_sub, mul_inv, mul_mul_mul_comm]

theorem rhsSpec_scale {bases : BaseLookup G} (d : Int) (v : String → Option Int) (rhs : List RhsContribution) (W : G)
    (hW : rhsSpec bases v rhs = some W) :
    rhsSpec bases (scaleValues d v) rhs = some (W ^ d) := by
  induction rhs generalizing W with
  | nil =>
    simp only [rhsSpec, Option.some.injEq] at hW ⊢
    subst hW; simp
  | cons r rest ih =>
    unfold rhsSpec at hW ⊢
    cases hb : bases r.base with
    | none => rw [hb] at hW; cases v r.secret <;> simp at hW
    | some b =>
      cases hv : v r.secret with
      | none => rw [hv] at hW; simp at hW
      | some x =>
        rw [hb, hv] at hW
        cases hW' : rhsSpec bases v rest with
        | none => rw [hW'] at hW; simp at hW
        | some W' =>
          rw [hW'] at hW
          simp only [Option.some.injEq] at hW
          have hres : scaleValues d v r.secret = some (d * x) := by simp [scaleValues, hv]
          rw [hres, ih W' hW']
          simp only [Option.some.injEq]
          rw [← hW, mul_zpow, ← zpow_mul]
          congr 2
          ring

end Repr

end Gabi.KeyProof
