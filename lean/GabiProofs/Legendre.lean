/-
  GabiProofs.Legendre — `Gabi.legendreSymbol` (model of `common.LegendreSymbol`) equals
  Mathlib's `jacobiSym` for odd positive moduli.
-/
import GabiModel.MathUtil
import Mathlib.NumberTheory.LegendreSymbol.JacobiSymbol
import Mathlib.NumberTheory.LegendreSymbol.QuadraticReciprocity
import Mathlib.Tactic.Ring
import Mathlib.Tactic.Linarith
import Mathlib.Tactic.NormNum

namespace Gabi

open NumberTheorySymbols

/-! ### stripTwos -/

theorem stripTwos_spec (n : Nat) (h : n ≠ 0) :
    n = (stripTwos n).1 * 2 ^ (stripTwos n).2 ∧ (stripTwos n).1 % 2 = 1 := by
  induction n using Nat.strongRecOn with
  | _ n ih =>
    unfold stripTwos
    split
    · contradiction
    · split
      · next heven =>
        have := ih (n / 2) (by omega) (by omega)
        obtain ⟨h1, h2⟩ := this
        refine ⟨?_, by simpa using h2⟩
        simp only []
        rw [Nat.pow_succ, ← Nat.mul_assoc, ← h1]
        omega
      · simp; omega

/-! ### auxiliary facts on the Jacobi symbol -/

/-- `J(2 | m) ^ t` in the form used by the loop. -/
theorem jacobiSym_two_pow (m t : Nat) (hm : m % 2 = 1) :
    jacobiSym 2 m ^ t = if t % 2 = 1 ∧ (m % 8 = 3 ∨ m % 8 = 5) then -1 else 1 := by
  rw [jacobiSym.at_two (Nat.odd_iff.mpr hm), ZMod.χ₈_nat_eq_if_mod_eight,
    if_neg (Nat.mod_two_ne_zero.mpr hm)]
  by_cases h8 : m % 8 = 1 ∨ m % 8 = 7
  · rw [if_pos h8, one_pow, if_neg]
    omega
  · rw [if_neg h8]
    have h8' : m % 8 = 3 ∨ m % 8 = 5 := by omega
    rcases Nat.mod_two_eq_zero_or_one t with ht | ht
    · rw [if_neg (by omega)]
      exact Even.neg_one_pow (Nat.even_iff.mpr ht)
    · rw [if_pos ⟨ht, h8'⟩]
      exact Odd.neg_one_pow (Nat.odd_iff.mpr ht)

theorem jacobiSym_zero_left_odd (m : Nat) (hm : m % 2 = 1) :
    jacobiSym 0 m = if m = 1 then 1 else 0 := by
  by_cases h1 : m = 1
  · subst h1; simp [jacobiSym.one_right]
  · rw [if_neg h1]
    exact jacobiSym.zero_left (by omega)

/-! ### the loop -/

theorem legendreLoop_eq (n m : Nat) (j : Int) (hm : m % 2 = 1) :
    legendreLoop n m j = j * jacobiSym (n : Int) m := by
  induction n using Nat.strongRecOn generalizing m j with
  | _ n ih =>
    unfold legendreLoop
    split
    · next h0 =>
      subst h0
      rw [Nat.cast_zero, jacobiSym_zero_left_odd m hm]
      split <;> simp
    · next h0 =>
      obtain ⟨hspec, hodd⟩ := stripTwos_spec n h0
      have hle := stripTwos_fst_le n
      have hpos := stripTwos_fst_pos n h0
      simp only []
      generalize hn' : (stripTwos n).1 = n' at *
      generalize ht : (stripTwos n).2 = t at *
      have hlt : m % n' < n := lt_of_lt_of_le (Nat.mod_lt m hpos) hle
      rw [ih (m % n') hlt n' _ hodd]
      -- right-hand side
      have hJ : jacobiSym (n : Int) m
          = jacobiSym 2 m ^ t * jacobiSym (n' : Int) m := by
        conv_lhs => rw [hspec]
        rw [Nat.cast_mul, Nat.cast_pow, Nat.cast_ofNat, jacobiSym.mul_left, jacobiSym.pow_left,
          mul_comm]
      have hQR := jacobiSym.quadratic_reciprocity_if hodd hm
      have hmod : jacobiSym ((m % n' : Nat) : Int) n' = jacobiSym (m : Int) n' := by
        rw [Int.natCast_mod, ← jacobiSym.mod_left]
      rw [hJ, jacobiSym_two_pow m t hm, ← hQR, hmod]
      have hcond : (m % 4 = 3 ∧ n' % 4 = 3) ↔ (n' % 4 = 3 ∧ m % 4 = 3) := and_comm
      simp only [hcond]
      split_ifs <;> ring

/-! ### the symbol -/

theorem legendreSymbol_eq_jacobiSym (a : Int) (p : Nat) (hp : p % 2 = 1) :
    legendreSymbol a (p : Int) = jacobiSym a p := by
  unfold legendreSymbol
  have hp0 : (p : Int) ≠ 0 := by
    have : p ≠ 0 := by omega
    exact_mod_cast this
  rw [Int.toNat_natCast, legendreLoop_eq _ _ _ hp, one_mul,
    Int.toNat_of_nonneg (Int.emod_nonneg a hp0), ← jacobiSym.mod_left]

theorem legendreSymbol_eq_legendreSym (a : Int) (p : Nat) [Fact p.Prime] (hp : p ≠ 2) :
    legendreSymbol a (p : Int) = legendreSym p a := by
  have hodd : p % 2 = 1 := (Fact.out : p.Prime).eq_two_or_odd.resolve_left hp
  rw [legendreSymbol_eq_jacobiSym a p hodd, jacobiSym.legendreSym.to_jacobiSym]

theorem legendreSymbol_eq_one_iff (a : Int) (p : Nat) [Fact p.Prime] (hp : p ≠ 2)
    (ha : (a : ZMod p) ≠ 0) :
    legendreSymbol a (p : Int) = 1 ↔ IsSquare (a : ZMod p) := by
  rw [legendreSymbol_eq_legendreSym a p hp]
  exact legendreSym.eq_one_iff p ha

theorem legendreSymbol_eq_neg_one_iff (a : Int) (p : Nat) [Fact p.Prime] (hp : p ≠ 2) :
    legendreSymbol a (p : Int) = -1 ↔ ¬ IsSquare (a : ZMod p) := by
  rw [legendreSymbol_eq_legendreSym a p hp]
  exact legendreSym.eq_neg_one_iff p

/-- the same two statements with the hypothesis phrased as non-divisibility in `ℤ`. -/
theorem legendreSymbol_eq_one_iff' (a : Int) (p : Nat) [Fact p.Prime] (hp : p ≠ 2)
    (ha : ¬ (p : Int) ∣ a) :
    legendreSymbol a (p : Int) = 1 ↔ IsSquare (a : ZMod p) :=
  legendreSymbol_eq_one_iff a p hp (by rwa [Ne, ZMod.intCast_zmod_eq_zero_iff_dvd])

theorem legendreSymbol_eq_zero_iff (a : Int) (p : Nat) [Fact p.Prime] (hp : p ≠ 2) :
    legendreSymbol a (p : Int) = 0 ↔ (p : Int) ∣ a := by
  rw [legendreSymbol_eq_legendreSym a p hp, legendreSym.eq_zero_iff,
    ZMod.intCast_zmod_eq_zero_iff_dvd]

theorem legendreSymbol_range (a : Int) (p : Nat) (hp : p % 2 = 1) :
    legendreSymbol a p = -1 ∨ legendreSymbol a p = 0 ∨ legendreSymbol a p = 1 := by
  rw [legendreSymbol_eq_jacobiSym a p hp]
  rcases jacobiSym.trichotomy a p with h | h | h <;> simp [h]

end Gabi

#print axioms Gabi.stripTwos_spec
#print axioms Gabi.legendreLoop_eq
#print axioms Gabi.legendreSymbol_eq_jacobiSym
#print axioms Gabi.legendreSymbol_eq_legendreSym
#print axioms Gabi.legendreSymbol_eq_one_iff
#print axioms Gabi.legendreSymbol_eq_one_iff'
#print axioms Gabi.legendreSymbol_eq_neg_one_iff
#print axioms Gabi.legendreSymbol_eq_zero_iff
#print axioms Gabi.legendreSymbol_range
