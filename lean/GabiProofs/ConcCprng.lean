/-
  GabiProofs.ConcCprng — lemmas about GabiModel.Conc.Cprng (CPRNG.Read):
  * arithmetic of `nBlocks`, `atomicAdd` without uint64 wrap, the encrypt loop (`loop_blocks`, `loop_bytes`);
  * coarse model: `run` = closed form `runSpec` (contiguous, pairwise disjoint reservations);
  * fine model: invariant `Inv` preserved by every step of every caller (`Inv_step`, `Inv_exec`), giving
    `exec_log_nodup` / `exec_log_owner` / `exec_log_range` for all schedules.
-/
import GabiModel.Conc.Cprng
import Mathlib.Tactic.Ring
import Mathlib.Data.List.Nodup

/-!
  Proofs about the CPRNG counter model (`GabiModel.Conc.Cprng`): every counter block is handed
  to at most one caller, in the coarse (`run`) and in the fine-grained (`step`/`exec`) model.
-/
namespace Gabi.Conc.Cprng

/-! ### arithmetic of `nBlocks`, `atomicAdd` -/

theorem W_pos : 0 < W := Nat.two_pow_pos 64

/-- blocks requested cover the requested bytes, with less than one block of slack -/
theorem nBlocks_covers (len : Nat) (h : 0 < len) :
    16 * (nBlocks len - 1) < len ∧ len ≤ 16 * nBlocks len := by
  unfold nBlocks; omega

theorem nBlocks_pos (len : Nat) : 0 < nBlocks len := by unfold nBlocks; omega

theorem nBlocks_step (len : Nat) (h : 16 < len) : nBlocks len = nBlocks (len - 16) + 1 := by
  unfold nBlocks; omega

theorem nBlocks_le16 (len : Nat) (h : len ≤ 16) : nBlocks len = 1 := by
  unfold nBlocks; omega

theorem atomicAdd_noWrap (c n : Nat) (h : c + n < W) : atomicAdd c n = (c + n, c) := by
  have hn : n < W := by omega
  have hc : c < W := by omega
  unfold atomicAdd
  simp only [Nat.mod_eq_of_lt h, Nat.mod_eq_of_lt hn]
  have e : c + n + W - n = c + W := by omega
  rw [e, Nat.add_mod_right, Nat.mod_eq_of_lt hc]

/-! ### the encrypt loop -/

/-- the encrypt loop of a read uses exactly the blocks iv, iv+1, …, iv+nBlocks-1 -/
theorem loop_blocks (iv len : Nat) (hl : 0 < len) (h : iv + nBlocks len ≤ W) :
    (loop iv len).map (·.1) = List.range' iv (nBlocks len) := by
  induction len using Nat.strongRecOn generalizing iv with
  | _ len ih =>
    rw [loop]
    split
    · next hge =>
      rcases Nat.eq_or_lt_of_le hge with heq | hlt
      · subst heq
        rw [loop]
        simp [nBlocks_le16]
      · have hs := nBlocks_step len hlt
        have hiv : (iv + 1) % W = iv + 1 := Nat.mod_eq_of_lt (by have := nBlocks_pos (len - 16); omega)
        rw [hiv, List.map_cons, ih (len - 16) (by omega) (iv + 1) (by omega) (by omega), hs]
        simp [List.range'_succ]
    · next hlt =>
      have hne : len ≠ 0 := by omega
      simp [hne, nBlocks_le16 len (by omega)]

/-- … and fills exactly len bytes, at most 16 from each block -/
theorem loop_bytes (iv len : Nat) :
    ((loop iv len).map (·.2)).sum = len ∧ ∀ x ∈ loop iv len, 0 < x.2 ∧ x.2 ≤ 16 := by
  induction len using Nat.strongRecOn generalizing iv with
  | _ len ih =>
    rw [loop]
    split
    · next hge =>
      obtain ⟨h1, h2⟩ := ih (len - 16) (by omega) ((iv + 1) % W)
      refine ⟨?_, ?_⟩
      · simp only [List.map_cons, List.sum_cons, h1]; omega
      · intro x hx
        rcases List.mem_cons.1 hx with rfl | hx
        · simp
        · exact h2 x hx
    · next hlt =>
      split
      · next h0 => subst h0; simp
      · next hne =>
        refine ⟨by simp, ?_⟩
        intro x hx
        rcases List.mem_singleton.1 hx with rfl
        simp only; omega

/-! ### coarse model -/

/-- blocks requested by one read (empty reads request none) -/
def blk (l : Nat) : Nat := if l = 0 then 0 else nBlocks l

/-- total number of blocks requested by a list of reads (empty reads request none) -/
def total (lens : List Nat) : Nat := (lens.map (fun l => if l = 0 then 0 else nBlocks l)).sum

theorem total_nil : total [] = 0 := rfl

theorem total_cons (l : Nat) (rest : List Nat) : total (l :: rest) = blk l + total rest := by
  simp [total, blk]

/-- closed form of `run` without wrap-around -/
def runSpec (c : Nat) : List Nat → List (Nat × Nat)
  | [] => []
  | l :: rest => (c, blk l) :: runSpec (c + blk l) rest

theorem run_eq (c : Nat) (lens : List Nat) (h : c + total lens < W) :
    run c lens = (runSpec c lens, c + total lens) := by
  induction lens generalizing c with
  | nil => simp [run, runSpec, total]
  | cons l rest ih =>
    rw [total_cons] at h
    rw [run]
    split
    · next h0 =>
      subst h0
      have hb : blk 0 = 0 := by simp [blk]
      rw [hb] at h
      rw [ih c (by omega)]
      simp [runSpec, total_cons, hb]
    · next hne =>
      have hb : blk l = nBlocks l := by simp [blk, hne]
      rw [hb] at h
      rw [atomicAdd_noWrap _ _ (by omega)]
      simp only
      rw [ih (c + nBlocks l) (by omega)]
      simp [runSpec, total_cons, hb, Nat.add_assoc]

theorem runSpec_bounds (c : Nat) (lens : List Nat) :
    ∀ x ∈ runSpec c lens, c ≤ x.1 ∧ x.1 + x.2 ≤ c + total lens := by
  induction lens generalizing c with
  | nil => simp [runSpec]
  | cons l rest ih =>
    intro x hx
    rw [runSpec] at hx
    rw [total_cons]
    rcases List.mem_cons.1 hx with rfl | hx
    · simp only; omega
    · have := ih _ x hx; omega

theorem runSpec_pairwise (c : Nat) (lens : List Nat) :
    List.Pairwise (fun a b : Nat × Nat => a.1 + a.2 ≤ b.1) (runSpec c lens) := by
  induction lens generalizing c with
  | nil => simp [runSpec]
  | cons l rest ih =>
    rw [runSpec]
    refine List.Pairwise.cons ?_ (ih _)
    intro x hx
    exact (runSpec_bounds _ _ x hx).1

theorem runSpec_ivs (c : Nat) (lens : List Nat) :
    runSpec c lens = (List.range lens.length).map
      (fun k => (c + total (lens.take k), blk (lens.getD k 0))) := by
  induction lens generalizing c with
  | nil => simp [runSpec]
  | cons l rest ih =>
    rw [runSpec, List.length_cons, List.range_succ_eq_map, List.map_cons, List.map_map, ih]
    congr 1
    apply List.map_congr_left
    intro k _
    simp [total_cons, Nat.add_assoc]

/-- coarse model: for every list of reads in any order of their atomic adds, without uint64 wrap,
    the ranges handed out are pairwise disjoint, contiguous (each starts where the previous ended),
    start at c and end at the final counter c + total. -/
theorem run_contiguous (c : Nat) (lens : List Nat) (h : c + total lens < W) :
    (run c lens).2 = c + total lens ∧
    List.Pairwise (fun a b => a.1 + a.2 ≤ b.1) (run c lens).1 ∧
    (∀ x ∈ (run c lens).1, c ≤ x.1 ∧ x.1 + x.2 ≤ c + total lens) := by
  rw [run_eq c lens h]
  exact ⟨rfl, runSpec_pairwise c lens, runSpec_bounds c lens⟩

/-- exact form: the k-th read (in add order) gets iv = c + total (lens.take k) -/
theorem run_ivs (c : Nat) (lens : List Nat) (h : c + total lens < W) :
    (run c lens).1 = (List.range lens.length).map
      (fun k => (c + total (lens.take k),
        if lens.getD k 0 = 0 then 0 else nBlocks (lens.getD k 0))) := by
  rw [run_eq c lens h]
  exact runSpec_ivs c lens

/-! ### fine-grained model -/

/-- blocks a call will still request from the shared counter -/
def weight : Call → Nat
  | .idle len => blk len
  | _ => 0

def pending (calls : List Call) : Nat := (calls.map weight).sum

theorem pending_set {calls : List Call} {i : Nat} {c c' : Call} (h : calls[i]? = some c) :
    pending (calls.set i c') + weight c = pending calls + weight c' := by
  induction calls generalizing i with
  | nil => simp at h
  | cons a t ih =>
    cases i with
    | zero =>
      simp at h
      subst h
      simp [pending]; omega
    | succ i =>
      simp at h
      have := ih h
      simp [pending] at this ⊢; omega

theorem pending_init (lens : List Nat) : pending (lens.map Call.idle) = total lens := by
  simp [pending, total, List.map_map, Function.comp_def, weight, blk]

theorem getElem?_set_running {calls : List Call} {i j : Nat} {c : Call} {iv len : Nat}
    (h : (calls.set i c)[j]? = some (Call.running iv len)) :
    (j = i ∧ c = Call.running iv len) ∨ (j ≠ i ∧ calls[j]? = some (Call.running iv len)) := by
  rw [List.getElem?_set] at h
  split at h
  · next hij =>
    subst hij
    split at h
    · left; exact ⟨rfl, Option.some.inj h⟩
    · cases h
  · next hij => right; exact ⟨fun e => hij e.symm, h⟩

/-- the invariant of the fine-grained model (relative to start counter `c0` and bound `B`) -/
structure Inv (c0 B : Nat) (s : St) : Prop where
  lo : c0 ≤ s.counter
  hi : s.counter + pending s.calls ≤ B
  logR : ∀ x ∈ s.log, c0 ≤ x.2 ∧ x.2 < s.counter
  runR : ∀ i iv len : Nat, s.calls[i]? = some (Call.running iv len) →
    0 < len ∧ c0 ≤ iv ∧ iv + nBlocks len ≤ s.counter
  disj : ∀ i j iv len iv' len' : Nat, i ≠ j → s.calls[i]? = some (Call.running iv len) →
    s.calls[j]? = some (Call.running iv' len') → iv + nBlocks len ≤ iv' ∨ iv' + nBlocks len' ≤ iv
  logD : ∀ i iv len : Nat, s.calls[i]? = some (Call.running iv len) →
    ∀ x ∈ s.log, x.2 < iv ∨ iv + nBlocks len ≤ x.2
  nodup : (s.log.map (·.2)).Nodup

theorem Inv_init (c0 : Nat) (lens : List Nat) : Inv c0 (c0 + total lens) (init c0 lens) := by
  have hno : ∀ i iv len : Nat, (init c0 lens).calls[i]? ≠ some (Call.running iv len) := by
    intro i iv len h
    simp only [init, List.getElem?_map, Option.map_eq_some_iff] at h
    obtain ⟨a, _, ha⟩ := h
    cases ha
  refine ⟨Nat.le_refl _, ?_, ?_, ?_, ?_, ?_, ?_⟩
  · simp [init, pending_init]
  · simp [init]
  · intro i iv len h; exact absurd h (hno _ _ _)
  · intro i j iv len iv' len' _ h; exact absurd h (hno _ _ _)
  · intro i iv len h; exact absurd h (hno _ _ _)
  · simp [init]

/-- a call finishes (or stutters) without touching counter or log -/
theorem Inv_done {c0 B : Nat} {s : St} (inv : Inv c0 B s) {i : Nat} {c : Call}
    (hi : s.calls[i]? = some c) : Inv c0 B { s with calls := s.calls.set i Call.done } := by
  have hp := pending_set (c' := Call.done) hi
  have hw : weight Call.done = 0 := rfl
  refine ⟨inv.lo, ?_, inv.logR, ?_, ?_, ?_, inv.nodup⟩
  · have := inv.hi; simp only; omega
  · intro j iv len h
    rcases getElem?_set_running h with ⟨_, hc⟩ | ⟨_, hj⟩
    · cases hc
    · exact inv.runR j iv len hj
  · intro j k iv len iv' len' hjk h1 h2
    rcases getElem?_set_running h1 with ⟨_, hc⟩ | ⟨_, hj⟩
    · cases hc
    rcases getElem?_set_running h2 with ⟨_, hc⟩ | ⟨_, hk⟩
    · cases hc
    exact inv.disj j k iv len iv' len' hjk hj hk
  · intro j iv len h
    rcases getElem?_set_running h with ⟨_, hc⟩ | ⟨_, hj⟩
    · cases hc
    · exact inv.logD j iv len hj

/-- the atomic add of a non-empty read -/
theorem Inv_start {c0 B : Nat} {s : St} (inv : Inv c0 B s) {i len : Nat}
    (hi : s.calls[i]? = some (.idle len)) (hne : len ≠ 0) :
    Inv c0 B { s with counter := s.counter + nBlocks len,
                      calls := s.calls.set i (Call.running s.counter len) } := by
  have hp := pending_set (c' := Call.running s.counter len) hi
  have hw : weight (Call.running s.counter len) = 0 := rfl
  have hw' : weight (Call.idle len) = nBlocks len := by simp [weight, blk, hne]
  have hpos := nBlocks_pos len
  refine ⟨?_, ?_, ?_, ?_, ?_, ?_, inv.nodup⟩
  · have := inv.lo; simp only; omega
  · have := inv.hi; simp only; omega
  · intro x hx
    have := inv.logR x hx
    simp only; omega
  · intro j iv l h
    rcases getElem?_set_running h with ⟨_, hc⟩ | ⟨_, hj⟩
    · cases hc
      have := inv.lo
      simp only; omega
    · have := inv.runR j iv l hj
      simp only; omega
  · intro j k iv l iv' l' hjk h1 h2
    rcases getElem?_set_running h1 with ⟨rfl, hc⟩ | ⟨hj1, hj⟩
    · rcases getElem?_set_running h2 with ⟨rfl, _⟩ | ⟨_, hk⟩
      · exact absurd rfl hjk
      · cases hc
        have := inv.runR k iv' l' hk
        omega
    · rcases getElem?_set_running h2 with ⟨rfl, hc⟩ | ⟨_, hk⟩
      · cases hc
        have := inv.runR j iv l hj
        omega
      · exact inv.disj j k iv l iv' l' hjk hj hk
  · intro j iv l h x hx
    rcases getElem?_set_running h with ⟨_, hc⟩ | ⟨_, hj⟩
    · cases hc
      have := inv.logR x hx
      omega
    · exact inv.logD j iv l hj x hx

/-- a running call encrypts its next block `iv` and moves to `c'`, whose future range (if any)
    lies strictly after `iv` inside the old one -/
theorem Inv_enc {c0 B : Nat} {s : St} (inv : Inv c0 B s) {i iv len : Nat} {c' : Call}
    (hi : s.calls[i]? = some (Call.running iv len)) (hw : weight c' = 0)
    (hc' : ∀ iv' len', c' = Call.running iv' len' →
      0 < len' ∧ iv < iv' ∧ iv' + nBlocks len' ≤ iv + nBlocks len) :
    Inv c0 B { s with calls := s.calls.set i c', log := (i, iv) :: s.log } := by
  have hp := pending_set (c' := c') hi
  have hw0 : weight (Call.running iv len) = 0 := rfl
  have hpos := nBlocks_pos len
  have hr := inv.runR i iv len hi
  refine ⟨inv.lo, ?_, ?_, ?_, ?_, ?_, ?_⟩
  · have := inv.hi; simp only; omega
  · intro x hx
    rcases List.mem_cons.1 hx with rfl | hx
    · simp only; omega
    · exact inv.logR x hx
  · intro j iv1 l1 h
    rcases getElem?_set_running h with ⟨_, hc⟩ | ⟨_, hj⟩
    · have := hc' iv1 l1 hc
      simp only; omega
    · exact inv.runR j iv1 l1 hj
  · intro j k iv1 l1 iv2 l2 hjk h1 h2
    rcases getElem?_set_running h1 with ⟨rfl, hc⟩ | ⟨hj1, hj⟩
    · rcases getElem?_set_running h2 with ⟨rfl, _⟩ | ⟨_, hk⟩
      · exact absurd rfl hjk
      · have := hc' iv1 l1 hc
        have := inv.disj j k iv len iv2 l2 hjk hi hk
        omega
    · rcases getElem?_set_running h2 with ⟨rfl, hc⟩ | ⟨_, hk⟩
      · have := hc' iv2 l2 hc
        have := inv.disj j k iv1 l1 iv len hjk hj hi
        omega
      · exact inv.disj j k iv1 l1 iv2 l2 hjk hj hk
  · intro j iv1 l1 h x hx
    rcases getElem?_set_running h with ⟨rfl, hc⟩ | ⟨hji, hj⟩
    · have := hc' iv1 l1 hc
      rcases List.mem_cons.1 hx with rfl | hx
      · simp only; omega
      · have := inv.logD j iv len hi x hx
        omega
    · rcases List.mem_cons.1 hx with rfl | hx
      · have := inv.disj j i iv1 l1 iv len hji hj hi
        simp only; omega
      · exact inv.logD j iv1 l1 hj x hx
  · simp only [List.map_cons, List.nodup_cons]
    refine ⟨?_, inv.nodup⟩
    intro hmem
    obtain ⟨x, hx, hxe⟩ := List.mem_map.1 hmem
    have := inv.logD i iv len hi x hx
    omega

theorem Inv_step {c0 B : Nat} (hB : B < W) {s : St} (inv : Inv c0 B s) (i : Nat) :
    Inv c0 B (step s i) := by
  unfold step
  split
  · next len hi =>
    split
    · exact Inv_done inv hi
    · next hne =>
      have hp := pending_set (c' := Call.done) hi
      have hw' : weight (Call.idle len) = nBlocks len := by simp [weight, blk, hne]
      have hw : weight Call.done = 0 := rfl
      have := inv.hi
      rw [atomicAdd_noWrap _ _ (by omega)]
      exact Inv_start inv hi hne
  · next iv len hi =>
    have hr := inv.runR i iv len hi
    have := inv.hi
    split
    · next hge =>
      apply Inv_enc inv hi
      · split <;> rfl
      · intro iv' len' hc
        split at hc
        · cases hc
        · next hne =>
          have hs := nBlocks_step len (by omega)
          have hiv : (iv + 1) % W = iv + 1 :=
            Nat.mod_eq_of_lt (by have := nBlocks_pos len; omega)
          rw [hiv] at hc
          cases hc
          omega
    · split
      · exact Inv_done inv hi
      · apply Inv_enc inv hi rfl
        intro iv' len' hc
        cases hc
  · exact inv

theorem Inv_exec {c0 B : Nat} (hB : B < W) (sched : List Nat) {s : St} (inv : Inv c0 B s) :
    Inv c0 B (exec s sched) := by
  induction sched generalizing s with
  | nil => exact inv
  | cons i rest ih => exact ih (Inv_step hB inv i)

/-- fine model: for EVERY schedule (any interleaving of atomic adds and block encryptions of any
    number of callers), no counter block is encrypted twice … -/
theorem exec_log_nodup (c0 : Nat) (lens : List Nat) (sched : List Nat)
    (h : c0 + total lens < W) :
    ((exec (init c0 lens) sched).log.map (·.2)).Nodup :=
  (Inv_exec h sched (Inv_init c0 lens)).nodup

/-- … hence never handed to two callers -/
theorem exec_log_owner (c0 : Nat) (lens : List Nat) (sched : List Nat)
    (h : c0 + total lens < W) (i j b : Nat)
    (hi : (i, b) ∈ (exec (init c0 lens) sched).log)
    (hj : (j, b) ∈ (exec (init c0 lens) sched).log) : i = j := by
  have := List.inj_on_of_nodup_map (exec_log_nodup c0 lens sched h) hi hj rfl
  exact congrArg Prod.fst this

/-- all blocks used lie in [c0, counter) and the counter never exceeds c0 + total -/
theorem exec_log_range (c0 : Nat) (lens : List Nat) (sched : List Nat)
    (h : c0 + total lens < W) :
    (exec (init c0 lens) sched).counter ≤ c0 + total lens ∧
    ∀ x ∈ (exec (init c0 lens) sched).log,
      c0 ≤ x.2 ∧ x.2 < (exec (init c0 lens) sched).counter := by
  have inv := Inv_exec h sched (Inv_init c0 lens)
  exact ⟨by have := inv.hi; omega, inv.logR⟩

end Gabi.Conc.Cprng
