/-
  GabiProofs.ListLogic — decision logic of `proofListVerifyWith` (prooflist.go:ProofList.Verify):
  an equational unfolding of the two `for` loops, loop invariants, and the per-proof facts
  (`challengeContribution` keeps `c` and the responses, contributes at least two values;
  `verifyWithChallenge` accepts only the proof's own `c`). Used by GabiProps.C02 / C03.
-/
import GabiModel.Proofs
import GabiProofs.DerLemmas
import GabiProofs.NumLemmas
import Mathlib.Tactic.NormNum
import Mathlib.Data.List.Basic
import Mathlib.Data.List.Perm.Basic
import Mathlib.Data.List.Forall2
import Mathlib.Algebra.BigOperators.Group.List.Basic
namespace Gabi

/-! ### 1. the loops of `proofListVerifyWith` as named functions -/

abbrev PLItem := (Proof × String × PublicKey) × (Int × Int)

/-- per-proof step of the first loop -/
def contribOne (o : SigOracle) (x : PLItem) : GoM (Option (List Int × Proof)) :=
  match x with
  | ((.d p, kid, pk), ch) => do
      match ← (p.challengeContribution o kid pk ch.1).run with
      | none => pure none
      | some (c, p') => pure (some (c, .d p'))
  | ((.u p, _, pk), _) => do
      match ← p.challengeContribution pk with
      | none => pure none
      | some c => pure (some (c, .u p))

def body1 (o : SigOracle) (x : PLItem) (s : Option Bool × List Int × List Proof) :
    GoM (ForInStep (Option Bool × List Int × List Proof)) := do
  match ← contribOne o x with
  | none => pure (.done (some false, s.2.1, s.2.2))
  | some (c, q) => pure (.yield (none, s.2.1 ++ c, s.2.2 ++ [q]))

def verifyOne (o : SigOracle) (expected : Nat) (x : PLItem) : GoM Bool :=
  match x with
  | ((.d p, kid, pk), ch) => do
      let r ← p.verifyWithChallenge o kid pk ch.2 expected
      pure r.1
  | ((.u p, _, pk), _) => p.verifyWithChallenge pk expected

def labelOf (kss : List String) (i : Nat) : String :=
  if kss.length > 0 then kss[i]?.getD "" else ""

def body2 (o : SigOracle) (kss : List String) (expected : Nat) (x : PLItem)
    (s : Option Bool × List (String × Option Int) × Nat) :
    GoM (ForInStep (Option Bool × List (String × Option Int) × Nat)) := do
  let ok ← verifyOne o expected x
  if !ok then pure (.done (some false, s.2.1, s.2.2))
  else
    match s.2.1.lookup (labelOf kss s.2.2) with
    | none => pure (.yield (none, (labelOf kss s.2.2, x.1.1.secretKeyResponse) :: s.2.1, s.2.2 + 1))
    | some resp => do
      let r ← deref "secretkey response" resp
      let mine ← deref "secretkey response" x.1.1.secretKeyResponse
      if r ≠ mine then pure (.done (some false, s.2.1, s.2.2))
      else pure (.yield (none, s.2.1, s.2.2 + 1))


theorem bind_forIn_congr {α β γ : Type} {L : List α} {init : β}
    {f f' : α → β → GoM (ForInStep β)} {k k' : β → GoM γ}
    (hf : ∀ x s, f x s = f' x s) (hk : ∀ s, k s = k' s) :
    (forIn L init f >>= k) = (forIn L init f' >>= k') := by
  have h1 : f = f' := funext fun x => funext fun s => hf x s
  have h2 : k = k' := funext hk
  subst h1; subst h2; rfl

theorem proofListVerifyWith_eq (o : SigOracle) (keys : List (String × PublicKey)) (pl : List Proof)
    (ctx nonce : Int) (issig : Bool) (kss : List String) (choices : List (Int × Int)) :
    proofListVerifyWith o keys pl ctx nonce issig kss choices =
      if (pl.isEmpty || decide (pl.length ≠ keys.length) ||
          decide (kss.length > 0) && decide (pl.length ≠ kss.length)) = true then pure false
      else
        (forIn ((pl.zip keys).zip choices) (none, [], []) (body1 o) >>= fun s =>
          match s.1 with
          | some r => pure r
          | none =>
            forIn ((s.2.2.zip keys).zip choices) (none, [], 0)
              (body2 o kss (createChallenge ctx nonce s.2.1 issig)) >>= fun s2 =>
            match s2.1 with
            | some r => pure r
            | none => pure true) := by
  unfold proofListVerifyWith
  split
  · rfl
  · apply bind_forIn_congr
    · intro x s
      obtain ⟨⟨proof, kid, pk⟩, ch⟩ := x
      cases proof with
      | d p =>
        simp only [body1, contribOne]
        cases h : OptionT.run (Gabi.ProofD.challengeContribution o kid pk p ch.fst) with
        | error e => rfl
        | ok v => cases v with
          | none => rfl
          | some w => rfl
      | u p =>
        simp only [body1, contribOne]
        cases h : Gabi.ProofU.challengeContribution pk p with
        | error e => rfl
        | ok v => cases v with
          | none => rfl
          | some w => rfl
    · intro s
      obtain ⟨r, cs, up⟩ := s
      cases r with
      | some r => rfl
      | none =>
        apply bind_forIn_congr
        · intro x s
          obtain ⟨⟨proof, kid, pk⟩, ch⟩ := x
          cases proof with
          | d p =>
            simp only [body2, verifyOne]
            cases h : Gabi.ProofD.verifyWithChallenge o kid pk p ch.snd ↑(createChallenge ctx nonce cs issig) with
            | error e => rfl
            | ok v => rfl
          | u p =>
            simp only [body2, verifyOne]
            cases h : Gabi.ProofU.verifyWithChallenge pk p ↑(createChallenge ctx nonce cs issig) with
            | error e => rfl
            | ok v => rfl
        · intro s; obtain ⟨r, _⟩ := s; cases r <;> rfl
/-! ### 2. per-proof facts -/

theorem GoE.bind_ok_some {α β : Type} {x : GoE α} {f : α → GoE β} {v : β}
    (h : (x >>= f).run = .ok (some v)) : ∃ a, x.run = .ok (some a) ∧ (f a).run = .ok (some v) := by
  rw [OptionT.run_bind] at h
  cases hx : x.run with
  | error e => rw [hx] at h; cases h
  | ok oa =>
    rw [hx] at h
    cases oa with
    | none => cases h
    | some a => exact ⟨a, rfl, h⟩

theorem GoE.liftM_ok_some {α : Type} {y : GoM α} {v : α}
    (h : (liftM y : GoE α).run = .ok (some v)) : y = .ok v := by
  cases y with
  | error e => cases h
  | ok a => cases h; rfl


theorem ProofU.verifyWithChallenge_ok {pk : PublicKey} {p : ProofU} {e : Int}
    (h : p.verifyWithChallenge pk e = .ok true) : p.wellFormed pk = true ∧ p.c = some e := by
  unfold ProofU.verifyWithChallenge ProofU.correctResponseSizes at h
  cases hw : p.wellFormed pk with
  | false => simp [hw] at h; cases h
  | true =>
    refine ⟨rfl, ?_⟩
    cases hv : p.vPrimeResponse with
    | none => simp [hw, hv, deref] at h; cases h
    | some vp =>
      cases hc : p.c with
      | none => simp [hw, hv, hc, deref] at h; cases h
      | some c =>
        simp [hw, hv, hc, deref] at h
        have h' : (decide (0 ≤ vp) && decide (vp ≤ 2 ^ (pk.params.LvPrimeCommit + 1) - 1) && decide (c = e)) = true :=
          Except.ok.inj h
        simp at h'
        rw [h'.2]

theorem ProofU.challengeContribution_ok {pk : PublicKey} {p : ProofU} {cs : List Int}
    (h : p.challengeContribution pk = .ok (some cs)) : p.wellFormed pk = true ∧ cs.length = 2 := by
  unfold ProofU.challengeContribution at h
  cases hw : p.wellFormed pk with
  | false => simp [hw] at h; cases h
  | true =>
    refine ⟨rfl, ?_⟩
    simp [hw] at h
    cases hr : p.reconstructUcommit pk with
    | error err => rw [hr] at h; cases h
    | ok ouc =>
      rw [hr] at h
      cases ouc with
      | none => cases h
      | some uc =>
        cases hu : p.u with
        | none => rw [hu] at h; cases h
        | some u =>
          rw [hu] at h
          have h' : some [u, uc] = some cs := Except.ok.inj h
          cases h'; rfl


theorem GoM.bind_ok {α β : Type} {x : GoM α} {f : α → GoM β} {v : β}
    (h : (x >>= f) = .ok v) : ∃ a, x = .ok a ∧ f a = .ok v := by
  cases x with
  | error e => cases h
  | ok a => exact ⟨a, rfl, h⟩

theorem GoM.pure_ok {α : Type} {a v : α} (h : (pure a : GoM α) = .ok v) : a = v := Except.ok.inj h

theorem ProofD.verifyWithChallenge_ok {o : SigOracle} {kid : String} {pk : PublicKey} {p : ProofD}
    {i e : Int} {r : Bool × Option Accumulator}
    (h : p.verifyWithChallenge o kid pk i e = .ok r) (hr : r.1 = true) :
    p.wellFormed pk = true ∧ p.c = some e := by
  unfold ProofD.verifyWithChallenge at h
  cases hw : p.wellFormed pk with
  | false => simp [hw] at h; cases h; cases hr
  | true =>
    refine ⟨rfl, ?_⟩
    simp only [hw, Bool.not_true, Bool.false_eq_true, if_false] at h
    obtain ⟨⟨nrv, acc⟩, -, h⟩ := GoM.bind_ok h
    cases nrv with
    | false => cases h; cases hr
    | true =>
      simp only [Bool.not_true, Bool.false_eq_true, if_false] at h
      obtain ⟨b, -, h⟩ := GoM.bind_ok h
      cases b with
      | false => cases h; cases hr
      | true =>
        simp only [Bool.not_true, Bool.false_eq_true, if_false] at h
        obtain ⟨c, hc, h⟩ := GoM.bind_ok h
        cases hpc : p.c with
        | none => rw [hpc] at hc; cases hc
        | some c' =>
          rw [hpc] at hc; cases hc
          have := GoM.pure_ok h
          subst this
          simp at hr
          rw [hr]

theorem GoE.failure_bind_run {α β : Type} (f : α → GoE β) :
    ((failure : GoE α) >>= f).run = .ok none := rfl

theorem ProofD.challengeContribution_ok {o : SigOracle} {kid : String} {pk : PublicKey} {p : ProofD}
    {i : Int} {cs : List Int} {p' : ProofD}
    (h : (p.challengeContribution o kid pk i).run = .ok (some (cs, p'))) :
    p.wellFormed pk = true ∧ p'.c = p.c ∧ p'.a = p.a ∧ p'.eResponse = p.eResponse ∧
      p'.vResponse = p.vResponse ∧ p'.aResponses = p.aResponses ∧ p'.aDisclosed = p.aDisclosed ∧
      ∃ a z rest, p.a = some a ∧ p.reconstructZ pk = .ok (some z) ∧ cs = a :: z :: rest := by
  unfold ProofD.challengeContribution at h
  cases hw : p.wellFormed pk with
  | false => simp only [hw, Bool.not_false, if_true] at h; cases h
  | true =>
    refine ⟨rfl, ?_⟩
    simp only [hw, Bool.not_true, Bool.false_eq_true, if_false] at h
    obtain ⟨z, hz, h1⟩ := GoE.bind_ok_some h
    clear h
    obtain ⟨a, ha, h2⟩ := GoE.bind_ok_some h1
    clear h1
    obtain ⟨c, hc, h⟩ := GoE.bind_ok_some h2
    clear h2
    have ha' := GoE.liftM_ok_some ha
    have hpa : p.a = some a := by
      cases hpa : p.a with
      | none => rw [hpa] at ha'; cases ha'
      | some a' => rw [hpa] at ha'; cases ha'; rfl
    have hz' : p.reconstructZ pk = .ok (some z) := hz
    split at h
    · obtain ⟨x, -, h⟩ := GoE.bind_ok_some h
      have h' : (([a, z] ++ x.1, _) : List Int × ProofD) = (cs, p') := Option.some.inj (Except.ok.inj h)
      cases h'
      exact ⟨rfl, rfl, rfl, rfl, rfl, rfl, a, z, x.1, hpa, hz', rfl⟩
    · obtain ⟨resp, -, h⟩ := GoE.bind_ok_some h
      split at h
      · cases h
      · obtain ⟨contrib, -, h⟩ := GoE.bind_ok_some h
        obtain ⟨x, -, h⟩ := GoE.bind_ok_some h
        have h' : (([a, z] ++ contrib ++ x.1, _) : List Int × ProofD) = (cs, p') := Option.some.inj (Except.ok.inj h)
        cases h'
        exact ⟨rfl, rfl, rfl, rfl, rfl, rfl, a, z, contrib ++ x.1, hpa, hz', by simp⟩

/-! ### 3. loop invariants -/

theorem loop1_spec (o : SigOracle) : ∀ (L : List PLItem) (cs : List Int) (up : List Proof)
    (r : Option Bool) (cs' : List Int) (up' : List Proof),
    forIn L ((none : Option Bool), cs, up) (body1 o) = .ok (r, cs', up') →
    r = some false ∨ (r = none ∧ ∃ outs : List (List Int × Proof),
      List.Forall₂ (fun x out => contribOne o x = .ok (some out)) L outs ∧
      cs' = cs ++ (outs.map (·.1)).flatten ∧ up' = up ++ outs.map (·.2)) := by
  intro L
  induction L with
  | nil =>
    intro cs up r cs' up' h
    rw [List.forIn_nil] at h
    have h' := GoM.pure_ok h
    cases h'
    exact Or.inr ⟨rfl, [], List.Forall₂.nil, by simp, by simp⟩
  | cons x xs ih =>
    intro cs up r cs' up' h
    rw [List.forIn_cons] at h
    obtain ⟨st, hst, h⟩ := GoM.bind_ok h
    unfold body1 at hst
    obtain ⟨oc, hoc, hst⟩ := GoM.bind_ok hst
    cases oc with
    | none =>
      have := GoM.pure_ok hst
      subst this
      have h' := GoM.pure_ok h
      cases h'
      exact Or.inl rfl
    | some out =>
      obtain ⟨c, q⟩ := out
      have := GoM.pure_ok hst
      subst this
      rcases ih _ _ _ _ _ h with hr | ⟨hr, outs, hf, hcs, hup⟩
      · exact Or.inl hr
      · refine Or.inr ⟨hr, (c, q) :: outs, List.Forall₂.cons hoc hf, ?_, ?_⟩
        · simp [hcs]
        · simp [hup]

/-- the linking conditions enforced by the second loop, for the labels `labelOf kss (i + k)` of
    the remaining proofs (responses `rs`) and the table `seen` built from the earlier ones. -/
def LinkOK (kss : List String) (seen : List (String × Option Int)) (i : Nat)
    (rs : List (Option Int)) : Prop :=
  (∀ k ρ r, rs[k]? = some ρ → seen.lookup (labelOf kss (i + k)) = some r →
      ∃ v, r = some v ∧ ρ = some v) ∧
  (∀ k l ρ ρ', k < l → rs[k]? = some ρ → rs[l]? = some ρ' →
      labelOf kss (i + k) = labelOf kss (i + l) → ∃ v, ρ = some v ∧ ρ' = some v)

theorem lookup_cons_ne {a k : String} {b : Option Int} {es : List (String × Option Int)}
    (h : a ≠ k) : List.lookup a ((k, b) :: es) = List.lookup a es := by
  rw [List.lookup_cons]
  have : (a == k) = false := by simpa using h
  rw [this]

theorem deref_ok {α : Type} {w : String} {x : Option α} {v : α} (h : deref w x = .ok v) :
    x = some v := by
  cases x with
  | none => cases h
  | some a => cases h; rfl

theorem loop2_spec (o : SigOracle) (kss : List String) (e : Nat) :
    ∀ (L : List PLItem) (seen : List (String × Option Int)) (i : Nat)
      (r : Option Bool) (seen' : List (String × Option Int)) (i' : Nat),
    forIn L ((none : Option Bool), seen, i) (body2 o kss e) = .ok (r, seen', i') →
    r = some false ∨ (r = none ∧ (∀ x ∈ L, verifyOne o e x = .ok true) ∧
      LinkOK kss seen i (L.map (·.1.1.secretKeyResponse))) := by
  intro L
  induction L with
  | nil =>
    intro seen i r seen' i' h
    rw [List.forIn_nil] at h
    have h' := GoM.pure_ok h
    cases h'
    refine Or.inr ⟨rfl, by simp, ?_, ?_⟩
    · intro k ρ r hk; simp at hk
    · intro k l ρ ρ' _ hk; simp at hk
  | cons x xs ih =>
    intro seen i r seen' i' h
    rw [List.forIn_cons] at h
    obtain ⟨st, hst, h⟩ := GoM.bind_ok h
    unfold body2 at hst
    obtain ⟨ok, hok, hst⟩ := GoM.bind_ok hst
    cases ok with
    | false =>
      have := GoM.pure_ok hst
      subst this
      have h' := GoM.pure_ok h
      cases h'
      exact Or.inl rfl
    | true =>
      simp only [Bool.not_true, Bool.false_eq_true, if_false] at hst
      cases hl : List.lookup (labelOf kss i) seen with
      | none =>
        simp only [hl] at hst
        have := GoM.pure_ok hst
        subst this
        rcases ih _ _ _ _ _ h with hr | ⟨hr, hv, hA, hB⟩
        · exact Or.inl hr
        · refine Or.inr ⟨hr, ?_, ?_, ?_⟩
          · intro y hy
            rcases List.mem_cons.1 hy with rfl | hy
            · exact hok
            · exact hv y hy
          · intro k ρ r hk hlk
            cases k with
            | zero => rw [Nat.add_zero, hl] at hlk; cases hlk
            | succ k =>
              simp only [List.map_cons, List.getElem?_cons_succ] at hk
              have hne : labelOf kss (i + (k + 1)) ≠ labelOf kss i := by
                intro heq; rw [heq, hl] at hlk; cases hlk
              have e1 : i + (k + 1) = i + 1 + k := by omega
              rw [e1] at hlk hne
              exact hA k ρ r hk (by rw [lookup_cons_ne hne]; exact hlk)
          · intro k l ρ ρ' hkl hk hl' hlab
            cases l with
            | zero => omega
            | succ l =>
              simp only [List.map_cons, List.getElem?_cons_succ] at hl'
              have e2 : i + (l + 1) = i + 1 + l := by omega
              cases k with
              | zero =>
                simp only [List.map_cons, List.getElem?_cons_zero] at hk
                cases hk
                rw [Nat.add_zero, e2] at hlab
                obtain ⟨v, h1, h2⟩ := hA l ρ' _ hl' (by rw [← hlab]; exact List.lookup_cons_self)
                exact ⟨v, h1, h2⟩
              | succ k =>
                simp only [List.map_cons, List.getElem?_cons_succ] at hk
                have e1 : i + (k + 1) = i + 1 + k := by omega
                rw [e1, e2] at hlab
                exact hB k l ρ ρ' (by omega) hk hl' hlab
      | some resp =>
        simp only [hl] at hst
        obtain ⟨rv, hrv, hst⟩ := GoM.bind_ok hst
        obtain ⟨mine, hmine, hst⟩ := GoM.bind_ok hst
        have hresp := deref_ok hrv
        have hmine' := deref_ok hmine
        by_cases hne : rv ≠ mine
        · simp only [hne, ne_eq, not_false_eq_true, if_true] at hst
          have := GoM.pure_ok hst
          subst this
          have h' := GoM.pure_ok h
          cases h'
          exact Or.inl rfl
        · have heq : rv = mine := not_not.1 hne
          simp only [heq, ne_eq, not_true, if_false] at hst
          have := GoM.pure_ok hst
          subst this
          rcases ih _ _ _ _ _ h with hr | ⟨hr, hv, hA, hB⟩
          · exact Or.inl hr
          · refine Or.inr ⟨hr, ?_, ?_, ?_⟩
            · intro y hy
              rcases List.mem_cons.1 hy with rfl | hy
              · exact hok
              · exact hv y hy
            · intro k ρ r hk hlk
              cases k with
              | zero =>
                simp only [List.map_cons, List.getElem?_cons_zero] at hk
                rw [Nat.add_zero, hl] at hlk
                cases hlk; cases hk
                exact ⟨mine, by rw [hresp, heq], hmine'⟩
              | succ k =>
                simp only [List.map_cons, List.getElem?_cons_succ] at hk
                have e1 : i + (k + 1) = i + 1 + k := by omega
                rw [e1] at hlk
                exact hA k ρ r hk hlk
            · intro k l ρ ρ' hkl hk hl' hlab
              cases l with
              | zero => omega
              | succ l =>
                simp only [List.map_cons, List.getElem?_cons_succ] at hl'
                have e2 : i + (l + 1) = i + 1 + l := by omega
                cases k with
                | zero =>
                  simp only [List.map_cons, List.getElem?_cons_zero] at hk
                  cases hk
                  rw [Nat.add_zero, e2] at hlab
                  obtain ⟨v, h1, h2⟩ := hA l ρ' resp hl' (by rw [← hlab]; exact hl)
                  refine ⟨v, ?_, h2⟩
                  rw [hmine', ← heq, ← hresp, h1]
                | succ k =>
                  simp only [List.map_cons, List.getElem?_cons_succ] at hk
                  have e1 : i + (k + 1) = i + 1 + k := by omega
                  rw [e1, e2] at hlab
                  exact hB k l ρ ρ' (by omega) hk hl' hlab

theorem accepted_unfold {o : SigOracle} {keys : List (String × PublicKey)} {pl : List Proof}
    {ctx nonce : Int} {issig : Bool} {kss : List String} {choices : List (Int × Int)}
    (h : proofListVerifyWith o keys pl ctx nonce issig kss choices = .ok true) :
    pl ≠ [] ∧ pl.length = keys.length ∧ (kss = [] ∨ kss.length = pl.length) ∧
    ∃ outs : List (List Int × Proof),
      List.Forall₂ (fun x out => contribOne o x = .ok (some out)) ((pl.zip keys).zip choices) outs ∧
      (∀ x ∈ ((outs.map (·.2)).zip keys).zip choices,
        verifyOne o (createChallenge ctx nonce (outs.map (·.1)).flatten issig) x = .ok true) ∧
      LinkOK kss [] 0
        ((((outs.map (·.2)).zip keys).zip choices).map (·.1.1.secretKeyResponse)) := by
  rw [proofListVerifyWith_eq] at h
  split at h
  · cases h
  · rename_i hg
    simp only [Bool.or_eq_true, Bool.and_eq_true, decide_eq_true_eq, not_or, not_and] at hg
    obtain ⟨⟨hne, hlen⟩, hk⟩ := hg
    have hne' : pl ≠ [] := by simpa using hne
    have hlen' : pl.length = keys.length := not_not.1 hlen
    have hk' : kss = [] ∨ kss.length = pl.length := by
      by_cases h0 : kss.length > 0
      · exact Or.inr (not_not.1 (hk h0)).symm
      · left; exact List.length_eq_zero_iff.1 (by omega)
    refine ⟨hne', hlen', hk', ?_⟩
    obtain ⟨⟨r, cs, up⟩, hs, h⟩ := GoM.bind_ok h
    rcases loop1_spec o _ _ _ _ _ _ hs with hr | ⟨hr, outs, hf, hcs, hup⟩
    · subst hr; cases h
    · subst hr
      simp only [List.nil_append] at hcs hup
      subst hcs; subst hup
      simp only at h
      obtain ⟨⟨r2, seen, i⟩, hs2, h⟩ := GoM.bind_ok h
      rcases loop2_spec o kss _ _ _ _ _ _ _ hs2 with hr | ⟨hr, hv, hL⟩
      · subst hr; cases h
      · exact ⟨outs, hf, hv, hL⟩

/-! ### 3b. completeness of the loop invariants: acceptance as an equivalence -/

theorem loop1_complete (o : SigOracle) {L : List PLItem} {outs : List (List Int × Proof)}
    (h : List.Forall₂ (fun x out => contribOne o x = .ok (some out)) L outs) :
    ∀ (cs : List Int) (up : List Proof),
    forIn L ((none : Option Bool), cs, up) (body1 o) =
      .ok (none, cs ++ (outs.map (·.1)).flatten, up ++ outs.map (·.2)) := by
  induction h with
  | nil => intro cs up; simp [List.forIn_nil]; rfl
  | @cons x out L outs h1 _ ih =>
    intro cs up
    rw [List.forIn_cons]
    have : body1 o x (none, cs, up) = .ok (.yield (none, cs ++ out.1, up ++ [out.2])) := by
      unfold body1; rw [h1]; rfl
    rw [this]
    show forIn L (none, cs ++ out.1, up ++ [out.2]) (body1 o) = _
    rw [ih]
    simp

theorem loop2_complete (o : SigOracle) (kss : List String) (e : Nat) :
    ∀ (L : List PLItem) (seen : List (String × Option Int)) (i : Nat),
    (∀ x ∈ L, verifyOne o e x = .ok true) →
    LinkOK kss seen i (L.map (·.1.1.secretKeyResponse)) →
    ∃ seen' i', forIn L ((none : Option Bool), seen, i) (body2 o kss e) = .ok (none, seen', i') := by
  intro L
  induction L with
  | nil => intro seen i _ _; exact ⟨seen, i, rfl⟩
  | cons x xs ih =>
    intro seen i hv hL
    obtain ⟨hA, hB⟩ := hL
    have hx := hv x List.mem_cons_self
    have hxs : ∀ y ∈ xs, verifyOne o e y = .ok true := fun y hy => hv y (List.mem_cons_of_mem _ hy)
    rw [List.forIn_cons]
    cases hl : List.lookup (labelOf kss i) seen with
    | none =>
      have : body2 o kss e x (none, seen, i) =
          .ok (.yield (none, (labelOf kss i, x.1.1.secretKeyResponse) :: seen, i + 1)) := by
        unfold body2; rw [hx]; simp only [hl]; rfl
      rw [this]
      apply ih _ _ hxs
      constructor
      · intro k ρ r hk hlk
        have hk' : ((x :: xs).map (·.1.1.secretKeyResponse))[k + 1]? = some ρ := by
          simpa using hk
        have e1 : i + (k + 1) = i + 1 + k := by omega
        by_cases hlab : labelOf kss (i + 1 + k) = labelOf kss i
        · rw [hlab, List.lookup_cons_self] at hlk
          cases hlk
          exact hB 0 (k + 1) _ ρ (by omega) (by simp) hk' (by rw [Nat.add_zero, e1, hlab])
        · rw [lookup_cons_ne hlab] at hlk
          exact hA (k + 1) ρ r hk' (by rw [e1]; exact hlk)
      · intro k l ρ ρ' hkl hk hl' hlab
        have e1 : i + (k + 1) = i + 1 + k := by omega
        have e2 : i + (l + 1) = i + 1 + l := by omega
        exact hB (k + 1) (l + 1) ρ ρ' (by omega) (by simpa using hk) (by simpa using hl')
          (by rw [e1, e2]; exact hlab)
    | some resp =>
      obtain ⟨v, hr, hm⟩ := hA 0 x.1.1.secretKeyResponse resp (by simp) (by rw [Nat.add_zero]; exact hl)
      have : body2 o kss e x (none, seen, i) = .ok (.yield (none, seen, i + 1)) := by
        unfold body2; rw [hx]; simp only [hl, hr, hm]; simp [deref]; rfl
      rw [this]
      apply ih _ _ hxs
      constructor
      · intro k ρ r hk hlk
        have e1 : i + (k + 1) = i + 1 + k := by omega
        exact hA (k + 1) ρ r (by simpa using hk) (by rw [e1]; exact hlk)
      · intro k l ρ ρ' hkl hk hl' hlab
        have e1 : i + (k + 1) = i + 1 + k := by omega
        have e2 : i + (l + 1) = i + 1 + l := by omega
        exact hB (k + 1) (l + 1) ρ ρ' (by omega) (by simpa using hk) (by simpa using hl')
          (by rw [e1, e2]; exact hlab)

/-- acceptance is *equivalent* to the decision-logic conditions of `accepted_unfold`. -/
theorem accepted_iff {o : SigOracle} {keys : List (String × PublicKey)} {pl : List Proof}
    {ctx nonce : Int} {issig : Bool} {kss : List String} {choices : List (Int × Int)} :
    proofListVerifyWith o keys pl ctx nonce issig kss choices = .ok true ↔
    (pl ≠ [] ∧ pl.length = keys.length ∧ (kss = [] ∨ kss.length = pl.length) ∧
    ∃ outs : List (List Int × Proof),
      List.Forall₂ (fun x out => contribOne o x = .ok (some out)) ((pl.zip keys).zip choices) outs ∧
      (∀ x ∈ ((outs.map (·.2)).zip keys).zip choices,
        verifyOne o (createChallenge ctx nonce (outs.map (·.1)).flatten issig) x = .ok true) ∧
      LinkOK kss [] 0
        ((((outs.map (·.2)).zip keys).zip choices).map (·.1.1.secretKeyResponse))) := by
  constructor
  · exact accepted_unfold
  · rintro ⟨h1, h2, h3, outs, hf, hv, hL⟩
    rw [proofListVerifyWith_eq]
    have hg : ¬ ((pl.isEmpty || decide (pl.length ≠ keys.length) ||
        decide (kss.length > 0) && decide (pl.length ≠ kss.length)) = true) := by
      simp only [Bool.or_eq_true, Bool.and_eq_true, decide_eq_true_eq, not_or, not_and]
      refine ⟨⟨by simpa using h1, by simpa using h2⟩, ?_⟩
      intro hpos
      rcases h3 with h3 | h3
      · subst h3; simp at hpos
      · simp [h3]
    rw [if_neg hg, loop1_complete o hf]
    obtain ⟨seen', i', h2'⟩ := loop2_complete o kss _ _ _ _ hv hL
    simp only [List.nil_append] at h2' ⊢
    show ((forIn (((List.map (fun x => x.2) outs).zip keys).zip choices)
        ((none : Option Bool), ([] : List (String × Option Int)), 0)
        (body2 o kss (createChallenge ctx nonce (List.map (fun x => x.1) outs).flatten issig))) >>=
          fun s2 => match s2.1 with
            | some r => pure r
            | none => pure true) = Except.ok true
    rw [h2']
    rfl

/-! ### 4. the decision logic of an accepted list -/

/-- the challenge a proof carries (`Proof.Challenge()`). -/
def Proof.challenge : Proof → Option Int
  | .d p => p.c
  | .u p => p.c

/-- `cs` is the challenge contribution of proof `q` under key `key` (for a disclosure proof:
    with pick `pick` of `revocationAttrIndex`). -/
def HasContribution (o : SigOracle) (key : String × PublicKey) (pick : Int) (q : Proof)
    (cs : List Int) : Prop :=
  match q with
  | .d p => ∃ p', (p.challengeContribution o key.1 key.2 pick).run = .ok (some (cs, p'))
  | .u p => p.challengeContribution key.2 = .ok (some cs)

def Proof.wellFormedFor (pk : PublicKey) : Proof → Bool
  | .d p => p.wellFormed pk
  | .u p => p.wellFormed pk

theorem contribOne_ok {o : SigOracle} {q : Proof} {key : String × PublicKey} {ch : Int × Int}
    {out : List Int × Proof} (h : contribOne o ((q, key), ch) = .ok (some out)) :
    HasContribution o key ch.1 q out.1 ∧ out.2.challenge = q.challenge ∧
      out.2.secretKeyResponse = q.secretKeyResponse ∧ 2 ≤ out.1.length ∧
      q.wellFormedFor key.2 = true := by
  obtain ⟨kid, pk⟩ := key
  cases q with
  | d p =>
    unfold contribOne at h
    simp only at h
    obtain ⟨r, hr, h⟩ := GoM.bind_ok h
    cases r with
    | none => cases h
    | some cp =>
      obtain ⟨c, p'⟩ := cp
      have := GoM.pure_ok h
      cases this
      obtain ⟨hw, hc, -, -, -, har, -, a, z, rest, -, -, hcs⟩ := ProofD.challengeContribution_ok hr
      refine ⟨⟨p', hr⟩, hc, ?_, ?_, hw⟩
      · simp only [Proof.secretKeyResponse, har]
      · simp [hcs]
  | u p =>
    unfold contribOne at h
    simp only at h
    obtain ⟨r, hr, h⟩ := GoM.bind_ok h
    cases r with
    | none => cases h
    | some c =>
      have := GoM.pure_ok h
      cases this
      obtain ⟨hw, hl⟩ := ProofU.challengeContribution_ok hr
      exact ⟨hr, rfl, rfl, by simp [hl], hw⟩

theorem verifyOne_ok {o : SigOracle} {e : Nat} {q : Proof} {key : String × PublicKey}
    {ch : Int × Int} (h : verifyOne o e ((q, key), ch) = .ok true) :
    q.challenge = some (e : Int) := by
  obtain ⟨kid, pk⟩ := key
  cases q with
  | d p =>
    unfold verifyOne at h
    simp only at h
    obtain ⟨r, hr, h⟩ := GoM.bind_ok h
    exact (ProofD.verifyWithChallenge_ok hr (GoM.pure_ok h)).2
  | u p =>
    exact (ProofU.verifyWithChallenge_ok h).2

/-- the items the two loops range over. -/
def plItems (pl : List Proof) (keys : List (String × PublicKey)) (choices : List (Int × Int)) :
    List PLItem := (pl.zip keys).zip choices

theorem items2_eq {R : PLItem → List Int × Proof → Prop} :
    ∀ (pl : List Proof) (keys : List (String × PublicKey)) (choices : List (Int × Int))
      (outs : List (List Int × Proof)),
      List.Forall₂ R ((pl.zip keys).zip choices) outs →
      (((outs.map (·.2)).zip keys).zip choices) =
        List.zipWith (fun x out => ((out.2, x.1.2), x.2)) ((pl.zip keys).zip choices) outs := by
  intro pl
  induction pl with
  | nil => intro keys choices outs h; simp at h; subst h; simp
  | cons q pl ih =>
    intro keys choices outs h
    cases keys with
    | nil => simp at h; subst h; simp
    | cons key keys =>
      cases choices with
      | nil => simp at h; subst h; simp
      | cons ch choices =>
        simp only [List.zip_cons_cons] at h
        cases h with
        | cons h1 h2 =>
          simp only [List.map_cons, List.zip_cons_cons, List.zipWith_cons_cons, List.cons.injEq,
            true_and]
          exact ih keys choices _ h2

/-- what the decision logic checks for one item, given the expected challenge `e`. -/
def ItemOK (o : SigOracle) (e : Nat) (x : PLItem) (cs : List Int) : Prop :=
  HasContribution o x.1.2 x.2.1 x.1.1 cs ∧ x.1.1.challenge = some (e : Int) ∧ 2 ≤ cs.length ∧
    x.1.1.wellFormedFor x.1.2.2 = true

theorem forall₂_zipWith_transfer {o : SigOracle} {e : Nat} :
    ∀ (items : List PLItem) (outs : List (List Int × Proof)),
      List.Forall₂ (fun x out => contribOne o x = .ok (some out)) items outs →
      (∀ y ∈ List.zipWith (fun (x : PLItem) (out : List Int × Proof) => ((out.2, x.1.2), x.2)) items outs,
        verifyOne o e y = .ok true) →
      List.Forall₂ (ItemOK o e) items (outs.map (·.1)) ∧
      (List.zipWith (fun (x : PLItem) (out : List Int × Proof) => ((out.2, x.1.2), x.2)) items outs).map
          (·.1.1.secretKeyResponse) = items.map (·.1.1.secretKeyResponse) := by
  intro items outs h
  induction h with
  | nil => intro _; exact ⟨List.Forall₂.nil, rfl⟩
  | @cons x out items outs h1 _ ih =>
    intro hv
    simp only [List.zipWith_cons_cons, List.mem_cons, forall_eq_or_imp] at hv
    obtain ⟨hv1, hv2⟩ := hv
    obtain ⟨ih1, ih2⟩ := ih hv2
    obtain ⟨⟨q, key⟩, ch⟩ := x
    obtain ⟨hc, hch, hs, hl, hw⟩ := contribOne_ok h1
    have he := verifyOne_ok hv1
    refine ⟨List.Forall₂.cons ⟨hc, ?_, hl, hw⟩ ih1, ?_⟩
    · rw [← hch]; exact he
    · simp only [List.zipWith_cons_cons, List.map_cons, ih2, hs]

theorem accepted_items {o : SigOracle} {keys : List (String × PublicKey)} {pl : List Proof}
    {ctx nonce : Int} {issig : Bool} {kss : List String} {choices : List (Int × Int)}
    (h : proofListVerifyWith o keys pl ctx nonce issig kss choices = .ok true) :
    pl ≠ [] ∧ pl.length = keys.length ∧ (kss = [] ∨ kss.length = pl.length) ∧
    ∃ css : List (List Int),
      List.Forall₂ (ItemOK o (createChallenge ctx nonce css.flatten issig))
        (plItems pl keys choices) css ∧
      LinkOK kss [] 0 ((plItems pl keys choices).map (·.1.1.secretKeyResponse)) := by
  obtain ⟨h1, h2, h3, outs, hf, hv, hL⟩ := accepted_unfold h
  refine ⟨h1, h2, h3, outs.map (·.1), ?_⟩
  rw [items2_eq pl keys choices outs hf] at hv hL
  obtain ⟨ha, hb⟩ := forall₂_zipWith_transfer _ _ hf hv
  rw [hb] at hL
  exact ⟨ha, hL⟩

theorem plItems_length_of_le {pl : List Proof} {keys : List (String × PublicKey)}
    {choices : List (Int × Int)} (hk : pl.length = keys.length) (hc : pl.length ≤ choices.length) :
    (plItems pl keys choices).length = pl.length := by
  simp [plItems, List.length_zip, hk]; omega

theorem plItems_map_proof {pl : List Proof} {keys : List (String × PublicKey)}
    {choices : List (Int × Int)} (hk : pl.length = keys.length) (hc : pl.length ≤ choices.length) :
    (plItems pl keys choices).map (·.1.1) = pl := by
  have h1 : ((pl.zip keys).zip choices).map Prod.fst = pl.zip keys :=
    List.map_fst_zip (by simp [List.length_zip, hk]; omega)
  have h2 : (pl.zip keys).map Prod.fst = pl := List.map_fst_zip (by omega)
  have : (plItems pl keys choices).map (·.1.1) =
      (((pl.zip keys).zip choices).map Prod.fst).map Prod.fst := by
    simp [plItems, List.map_map, Function.comp_def]
  rw [this, h1, h2]

theorem plItems_map_resp {pl : List Proof} {keys : List (String × PublicKey)}
    {choices : List (Int × Int)} (hk : pl.length = keys.length) (hc : pl.length ≤ choices.length) :
    (plItems pl keys choices).map (·.1.1.secretKeyResponse) = pl.map Proof.secretKeyResponse := by
  conv_rhs => rw [← plItems_map_proof hk hc]
  simp [List.map_map, Function.comp_def]

theorem labelOf_nil (i : Nat) : labelOf [] i = "" := by simp [labelOf]

theorem labelOf_eq_of_getElem? {kss : List String} {i j : Nat} (h : kss[i]? = kss[j]?) :
    labelOf kss i = labelOf kss j := by simp [labelOf, h]

/-- two positions carry the same keyshare-server label (no labelling: always). -/
def SameLabel (kss : List String) (i j : Nat) : Prop := kss = [] ∨ kss[i]? = kss[j]?

theorem SameLabel.labelOf_eq {kss : List String} {i j : Nat} (h : SameLabel kss i j) :
    labelOf kss i = labelOf kss j := by
  rcases h with h | h
  · subst h; simp [labelOf_nil]
  · exact labelOf_eq_of_getElem? h

/-- C03 core: in an accepted list, two proofs with the same label have the same, non-nil
    secret-key response. -/
theorem accepted_linked {o : SigOracle} {keys : List (String × PublicKey)} {pl : List Proof}
    {ctx nonce : Int} {issig : Bool} {kss : List String} {choices : List (Int × Int)}
    (h : proofListVerifyWith o keys pl ctx nonce issig kss choices = .ok true)
    (hc : pl.length ≤ choices.length) {i j : Nat} (hij : i < j) (hj : j < pl.length)
    (hlab : labelOf kss i = labelOf kss j) :
    ∃ v, (pl[i]'(by omega)).secretKeyResponse = some v ∧ (pl[j]'hj).secretKeyResponse = some v := by
  obtain ⟨-, hk, -, css, -, hL⟩ := accepted_items h
  rw [plItems_map_resp hk hc] at hL
  have hi : i < pl.length := by omega
  refine hL.2 i j _ _ hij ?_ ?_ (by simpa using hlab)
  · simp [hi]
  · simp [hj]

/-- the contribution of one item as a total function (`[]` when the contribution fails). -/
def contributionOf (o : SigOracle) (x : PLItem) : List Int :=
  match contribOne o x with
  | .ok (some out) => out.1
  | _ => []

/-- the hashed contribution list of a proof list: the per-proof contributions, concatenated in
    list order. -/
def listContributions (o : SigOracle) (keys : List (String × PublicKey)) (pl : List Proof)
    (choices : List (Int × Int)) : List Int :=
  ((plItems pl keys choices).map (contributionOf o)).flatten

theorem contributionOf_eq {o : SigOracle} {x : PLItem} {cs : List Int}
    (h : HasContribution o x.1.2 x.2.1 x.1.1 cs) : contributionOf o x = cs := by
  obtain ⟨⟨q, kid, pk⟩, ch⟩ := x
  cases q with
  | d p =>
    obtain ⟨p', hp⟩ := h
    simp only at hp
    have : contribOne o ((Proof.d p, kid, pk), ch) = .ok (some (cs, .d p')) := by
      unfold contribOne
      simp only [hp]
      rfl
    simp [contributionOf, this]
  | u p =>
    have hp : p.challengeContribution pk = .ok (some cs) := h
    have : contribOne o ((Proof.u p, kid, pk), ch) = .ok (some (cs, .u p)) := by
      unfold contribOne
      simp only [hp]
      rfl
    simp [contributionOf, this]

theorem forall₂_mem_left {α β : Type} {R : α → β → Prop} {l1 : List α} {l2 : List β}
    (h : List.Forall₂ R l1 l2) {x : α} (hx : x ∈ l1) : ∃ y ∈ l2, R x y := by
  induction h with
  | nil => cases hx
  | cons h1 _ ih =>
    rcases List.mem_cons.1 hx with rfl | hx
    · exact ⟨_, List.mem_cons_self, h1⟩
    · obtain ⟨y, hy, hr⟩ := ih hx
      exact ⟨y, List.mem_cons_of_mem _ hy, hr⟩

theorem forall₂_map_eq {α β : Type} {R : α → β → Prop} {f : α → β} {l1 : List α} {l2 : List β}
    (h : List.Forall₂ R l1 l2) (hf : ∀ x y, R x y → f x = y) : l1.map f = l2 := by
  induction h with
  | nil => rfl
  | cons h1 _ ih => simp [hf _ _ h1, ih]

/-- the decision logic of an accepted list, with the contributions as a function of the list. -/
theorem accepted_logic {o : SigOracle} {keys : List (String × PublicKey)} {pl : List Proof}
    {ctx nonce : Int} {issig : Bool} {kss : List String} {choices : List (Int × Int)}
    (h : proofListVerifyWith o keys pl ctx nonce issig kss choices = .ok true) :
    pl ≠ [] ∧ pl.length = keys.length ∧ (kss = [] ∨ kss.length = pl.length) ∧
    ∃ css : List (List Int),
      css.flatten = listContributions o keys pl choices ∧
      List.Forall₂ (ItemOK o (createChallenge ctx nonce (listContributions o keys pl choices) issig))
        (plItems pl keys choices) css := by
  obtain ⟨h1, h2, h3, css, hf, -⟩ := accepted_items h
  have : (plItems pl keys choices).map (contributionOf o) = css :=
    forall₂_map_eq hf (fun x cs hx => contributionOf_eq hx.1)
  have hfl : css.flatten = listContributions o keys pl choices := by
    rw [listContributions, this]
  refine ⟨h1, h2, h3, css, hfl, ?_⟩
  rw [← hfl]; exact hf

/-- every member of an accepted list carries the expected challenge and is well-formed for
    some key of the list. -/
theorem accepted_member {o : SigOracle} {keys : List (String × PublicKey)} {pl : List Proof}
    {ctx nonce : Int} {issig : Bool} {kss : List String} {choices : List (Int × Int)}
    (h : proofListVerifyWith o keys pl ctx nonce issig kss choices = .ok true)
    (hc : pl.length ≤ choices.length) {q : Proof} (hq : q ∈ pl) :
    q.challenge = some ((createChallenge ctx nonce (listContributions o keys pl choices) issig : Nat) : Int) ∧
      ∃ key ∈ keys, q.wellFormedFor key.2 = true := by
  obtain ⟨-, hk, -, css, -, hf⟩ := accepted_logic h
  rw [← plItems_map_proof hk hc] at hq
  obtain ⟨x, hx, rfl⟩ := List.mem_map.1 hq
  obtain ⟨cs, -, hok⟩ := forall₂_mem_left hf hx
  refine ⟨hok.2.1, x.1.2, ?_, hok.2.2.2⟩
  have : x.1 ∈ pl.zip keys := (List.of_mem_zip hx).1
  exact (List.of_mem_zip this).2

/-! ### 5. closed forms of the reconstructed commitments (which base carries which exponent) -/

theorem idx_eq_ok {α : Type} {w : String} {l : List α} {i : Int} {b : α} (h : idx w l i = .ok b) :
    0 ≤ i ∧ l[i.toNat]? = some b := by
  unfold idx at h
  split at h
  · cases h
  · rename_i hi
    refine ⟨by omega, ?_⟩
    cases hl : l[i.toNat]? with
    | none => rw [hl] at h; cases h
    | some a => rw [hl] at h; cases h; rfl

/-- `t` is the factor `R_i^r mod n` for the map entry `kv = (i, r)`. -/
def IsFactor (pk : PublicKey) (kv : Int × Option Int) (t : Int) : Prop :=
  ∃ b r, 0 ≤ kv.1 ∧ pk.r[kv.1.toNat]? = some b ∧ kv.2 = some r ∧ modPow b r pk.n = some t

theorem ProofU.go_ok {pk : PublicKey} : ∀ (l : IntMap) (acc v : Int),
    ProofU.reconstructUcommit.go pk l acc = .ok (some v) →
    ∃ ts, List.Forall₂ (IsFactor pk) l ts ∧ v = ts.foldl (fun a t => a * t % pk.n) acc := by
  intro l
  induction l with
  | nil =>
    intro acc v h
    have : some acc = some v := GoM.pure_ok h
    cases this
    exact ⟨[], List.Forall₂.nil, rfl⟩
  | cons kv rest ih =>
    intro acc v h
    obtain ⟨i, r⟩ := kv
    unfold ProofU.reconstructUcommit.go at h
    obtain ⟨b, hb, h⟩ := GoM.bind_ok h
    obtain ⟨r', hr, h⟩ := GoM.bind_ok h
    cases ht : modPow b r' pk.n with
    | none => simp only [ht] at h; cases h
    | some t =>
      simp only [ht] at h
      obtain ⟨ts, hf, hv⟩ := ih _ _ h
      obtain ⟨h0, hbi⟩ := idx_eq_ok hb
      exact ⟨t :: ts, List.Forall₂.cons ⟨b, r', h0, hbi, deref_ok hr, ht⟩ hf, by simpa using hv⟩

theorem ProofD.go_ok {pk : PublicKey} : ∀ (l : IntMap) (acc v : Int),
    ProofD.reconstructZ.go pk l acc = .ok (some v) →
    ∃ ts, List.Forall₂ (IsFactor pk) l ts ∧ v = acc * ts.prod := by
  intro l
  induction l with
  | nil =>
    intro acc v h
    have : some acc = some v := GoM.pure_ok h
    cases this
    exact ⟨[], List.Forall₂.nil, by simp⟩
  | cons kv rest ih =>
    intro acc v h
    obtain ⟨i, r⟩ := kv
    unfold ProofD.reconstructZ.go at h
    obtain ⟨b, hb, h⟩ := GoM.bind_ok h
    obtain ⟨r', hr, h⟩ := GoM.bind_ok h
    cases ht : modPow b r' pk.n with
    | none => simp only [ht] at h; cases h
    | some t =>
      simp only [ht] at h
      obtain ⟨ts, hf, hv⟩ := ih _ _ h
      obtain ⟨h0, hbi⟩ := idx_eq_ok hb
      refine ⟨t :: ts, List.Forall₂.cons ⟨b, r', h0, hbi, deref_ok hr, ht⟩ hf, ?_⟩
      rw [hv, List.prod_cons, mul_assoc]

theorem foldl_mulmod (n : Int) : ∀ (ts : List Int) (acc : Int),
    (ts.foldl (fun a t => a * t % n) acc) % n = (acc * ts.prod) % n := by
  intro ts
  induction ts with
  | nil => intro acc; simp
  | cons t ts ih =>
    intro acc
    rw [List.foldl_cons, ih, List.prod_cons, ← mul_assoc, Int.mul_emod, Int.emod_emod_of_dvd _ (dvd_refl n),
      ← Int.mul_emod]

theorem forall₂_append_left {α β : Type} {R : α → β → Prop} : ∀ (l1 l2 : List α) (r : List β),
    List.Forall₂ R (l1 ++ l2) r →
    ∃ r1 r2, r = r1 ++ r2 ∧ List.Forall₂ R l1 r1 ∧ List.Forall₂ R l2 r2 := by
  intro l1
  induction l1 with
  | nil => intro l2 r h; exact ⟨[], r, rfl, List.Forall₂.nil, h⟩
  | cons a l1 ih =>
    intro l2 r h
    rw [List.cons_append] at h
    cases h with
    | cons h1 h2 =>
      obtain ⟨r1, r2, rfl, h3, h4⟩ := ih _ _ h2
      exact ⟨_ :: r1, r2, rfl, List.Forall₂.cons h1 h3, h4⟩

/-- the closed form of `ProofU.reconstructUcommit`: `U^{-c} · S^{v'} · R₀^{s} · ∏ R_i^{m_i}`. -/
theorem ProofU.reconstructUcommit_closed {pk : PublicKey} {p : ProofU} {v : Int}
    (h : p.reconstructUcommit pk = .ok (some v)) :
    ∃ u c vp s r0 uc sv r0s ts, p.u = some u ∧ p.c = some c ∧ p.vPrimeResponse = some vp ∧
      p.sResponse = some s ∧ pk.r[0]? = some r0 ∧
      modPow u (-c) pk.n = some uc ∧ modPow pk.s vp pk.n = some sv ∧
      modPow r0 s pk.n = some r0s ∧
      List.Forall₂ (IsFactor pk) p.mUserResponses ts ∧
      v % pk.n = (uc * sv * r0s * ts.prod) % pk.n := by
  unfold ProofU.reconstructUcommit at h
  obtain ⟨u, hu, h⟩ := GoM.bind_ok h
  obtain ⟨c, hc, h⟩ := GoM.bind_ok h
  obtain ⟨vp, hvp, h⟩ := GoM.bind_ok h
  obtain ⟨s, hs, h⟩ := GoM.bind_ok h
  obtain ⟨r0, hr0, h⟩ := GoM.bind_ok h
  split at h
  · rename_i uc sv r0s h1 h2 h3
    obtain ⟨ts, hf, hv⟩ := ProofU.go_ok _ _ _ h
    refine ⟨u, c, vp, s, r0, uc, sv, r0s, ts, deref_ok hu, deref_ok hc, deref_ok hvp, deref_ok hs,
      (idx_eq_ok hr0).2, h1, h2, h3, hf, ?_⟩
    rw [hv, foldl_mulmod, Int.mul_emod, Int.emod_emod_of_dvd _ (dvd_refl pk.n), ← Int.mul_emod]
  · cases h

theorem ProofU.wellFormed_keys {pk : PublicKey} {p : ProofU} (h : p.wellFormed pk = true) :
    ∀ kv ∈ p.mUserResponses, 1 ≤ kv.1 := by
  unfold ProofU.wellFormed at h
  simp only [Bool.and_eq_true, List.all_eq_true, decide_eq_true_eq] at h
  intro kv hkv
  exact (h.2 kv hkv).1.2

/-- `t` is the factor `R_i^{attrExp(a_i)} mod n` of a disclosed attribute `kv = (i, a_i)`. -/
def IsDisclosedFactor (pk : PublicKey) (kv : Int × Option Int) (t : Int) : Prop :=
  ∃ b attr, 0 ≤ kv.1 ∧ pk.r[kv.1.toNat]? = some b ∧ kv.2 = some attr ∧
    goExp b (attrExp pk.params.Lm attr) pk.n = some t

theorem disclosed_foldlM_ok {pk : PublicKey} : ∀ (l : IntMap) (num0 v : Int),
    l.foldlM (fun (num : Int) kv => do
        let attr ← deref "ADisclosed" kv.2
        let b ← idx "R[i]" pk.r kv.1
        let t ← deref "Exp" (goExp b (attrExp pk.params.Lm attr) pk.n)
        (pure (num * t) : GoM Int)) num0 = .ok v →
    ∃ ds, List.Forall₂ (IsDisclosedFactor pk) l ds ∧ v = num0 * ds.prod := by
  intro l
  induction l with
  | nil =>
    intro num0 v h
    have : num0 = v := GoM.pure_ok h
    exact ⟨[], List.Forall₂.nil, by simp [this]⟩
  | cons kv rest ih =>
    intro num0 v h
    rw [List.foldlM_cons] at h
    obtain ⟨x, hx, h⟩ := GoM.bind_ok h
    obtain ⟨attr, hattr, hx⟩ := GoM.bind_ok hx
    obtain ⟨b, hb, hx⟩ := GoM.bind_ok hx
    obtain ⟨t, ht, hx⟩ := GoM.bind_ok hx
    have := GoM.pure_ok hx
    subst this
    obtain ⟨ds, hf, hv⟩ := ih _ _ h
    obtain ⟨h0, hbi⟩ := idx_eq_ok hb
    refine ⟨t :: ds, List.Forall₂.cons ⟨b, attr, h0, hbi, deref_ok hattr, deref_ok ht⟩ hf, ?_⟩
    rw [hv, List.prod_cons, mul_assoc]

/-- the closed form of `ProofD.reconstructZ`:
    `(Z · (A^{2^{le-1}} · ∏_{disclosed} R_i^{a_i})^{-1})^{-c} · A^{e} · ∏_{hidden} R_i^{r_i} · S^{v}`. -/
theorem ProofD.reconstructZ_closed {pk : PublicKey} {p : ProofD} {z : Int}
    (h : p.reconstructZ pk = .ok (some z)) :
    ∃ a c er vr num0 ds inv knownC ae sv ts,
      p.a = some a ∧ p.c = some c ∧ p.eResponse = some er ∧ p.vResponse = some vr ∧
      goExp a (2 ^ (pk.params.Le - 1)) pk.n = some num0 ∧
      List.Forall₂ (IsDisclosedFactor pk) p.aDisclosed ds ∧
      goModInverse (num0 * ds.prod) pk.n = some inv ∧
      modPow (pk.z * inv) (-c) pk.n = some knownC ∧ modPow a er pk.n = some ae ∧
      modPow pk.s vr pk.n = some sv ∧
      List.Forall₂ (IsFactor pk) p.aResponses ts ∧
      z = knownC * ae * ts.prod * sv % pk.n := by
  unfold ProofD.reconstructZ at h
  obtain ⟨a, ha, h⟩ := GoM.bind_ok h
  obtain ⟨c, hc, h⟩ := GoM.bind_ok h
  obtain ⟨er, her, h⟩ := GoM.bind_ok h
  obtain ⟨vr, hvr, h⟩ := GoM.bind_ok h
  obtain ⟨num0, hnum0, h⟩ := GoM.bind_ok h
  obtain ⟨numerator, hnum, h⟩ := GoM.bind_ok h
  obtain ⟨ds, hds, hnumv⟩ := disclosed_foldlM_ok _ _ _ hnum
  split at h
  · cases h
  · rename_i inv hinv
    dsimp only at h
    split at h
    · rename_i knownC ae sv h1 h2 h3
      obtain ⟨ors, hrs, h⟩ := GoM.bind_ok h
      cases ors with
      | none => cases h
      | some rs =>
        obtain ⟨ts, hf, hv⟩ := ProofD.go_ok _ _ _ hrs
        have hz : some (knownC * ae * rs * sv % pk.n) = some z := GoM.pure_ok h
        cases hz
        rw [hnumv] at hinv
        refine ⟨a, c, er, vr, num0, ds, inv, knownC, ae, sv, ts, deref_ok ha, deref_ok hc,
          deref_ok her, deref_ok hvr, deref_ok hnum0, hds, hinv, h1, h2, h3, hf, ?_⟩
        rw [hv, one_mul]
    · cases h

theorem lookup_split : ∀ (l : IntMap) (k : Int) (v : Option Int),
    (l.map (·.1)).Nodup → l.lookup k = some v →
    ∃ l1 l2, l = l1 ++ (k, v) :: l2 ∧ ∀ kv ∈ l1 ++ l2, kv.1 ≠ k := by
  intro l
  induction l with
  | nil => intro k v _ h; cases h
  | cons x rest ih =>
    intro k v hnd h
    obtain ⟨a, b⟩ := x
    rw [List.map_cons, List.nodup_cons] at hnd
    rw [List.lookup_cons] at h
    by_cases hka : k = a
    · subst hka
      simp only [beq_self_eq_true] at h
      cases h
      refine ⟨[], rest, rfl, ?_⟩
      intro kv hkv heq
      apply hnd.1
      rw [← heq]
      exact List.mem_map.2 ⟨kv, by simpa using hkv, rfl⟩
    · have : (k == a) = false := by simpa using hka
      rw [this] at h
      obtain ⟨l1, l2, hl, hne⟩ := ih k v hnd.2 h
      refine ⟨(a, b) :: l1, l2, by rw [hl]; rfl, ?_⟩
      intro kv hkv
      rw [List.cons_append] at hkv
      rcases List.mem_cons.1 hkv with rfl | hkv
      · exact fun h => hka h.symm
      · exact hne kv hkv

theorem lookup_some_mem : ∀ (l : IntMap) (k : Int) (v : Option Int),
    l.lookup k = some v → (k, v) ∈ l := by
  intro l
  induction l with
  | nil => intro k v h; cases h
  | cons x rest ih =>
    intro k v h
    obtain ⟨a, b⟩ := x
    rw [List.lookup_cons] at h
    by_cases ha : k = a
    · subst ha; simp only [beq_self_eq_true] at h; cases h; exact List.mem_cons_self
    · have : (k == a) = false := by simpa using ha
      rw [this] at h
      exact List.mem_cons_of_mem _ (ih k v h)

theorem IntMap.get_some_lookup {m : IntMap} {k s : Int} (h : m.get k = some s) :
    m.lookup k = some (some s) := by
  unfold IntMap.get at h
  cases hl : List.lookup k m with
  | none => rw [hl] at h; cases h
  | some v => rw [hl] at h; simp only at h; rw [h]

theorem ProofD.wellFormed_facts {pk : PublicKey} {p : ProofD} (h : p.wellFormed pk = true) :
    (∃ s, p.aResponses.get 0 = some s) ∧ (∀ kv ∈ p.aResponses, 0 ≤ kv.1) ∧
      (∀ kv ∈ p.aDisclosed, 1 ≤ kv.1) ∧ p.aDisclosed.has 0 = false := by
  unfold ProofD.wellFormed at h
  simp only [Bool.and_eq_true, List.all_eq_true, decide_eq_true_eq, Bool.not_eq_true',
    Option.isSome_iff_exists] at h
  obtain ⟨⟨⟨⟨-, s, hs⟩, hA⟩, hD⟩, -⟩ := h
  have hhas : p.aResponses.has 0 = true := by
    simp [IntMap.has, IntMap.get_some_lookup hs]
  have hD1 : ∀ kv ∈ p.aDisclosed, 1 ≤ kv.1 := by
    intro kv hkv
    obtain ⟨⟨⟨_, h0⟩, _⟩, hn⟩ := hD kv hkv
    have : kv.1 ≠ 0 := by
      intro h0'; rw [h0', hhas] at hn; cases hn
    omega
  refine ⟨⟨s, hs⟩, fun kv hkv => (hA kv hkv).1.2, hD1, ?_⟩
  unfold IntMap.has
  cases hl : List.lookup 0 p.aDisclosed with
  | none => rfl
  | some v =>
    exfalso
    have hmem : ((0 : Int), v) ∈ p.aDisclosed := lookup_some_mem _ _ _ hl
    have := hD1 _ hmem
    simp at this

/-! ### 6. list surgery: dropped / inserted items change the length of the hashed list -/

theorem flatten_map_length_le_of_sublist {α : Type} {f : α → List Int} {l' l : List α}
    (hs : l'.Sublist l) : ((l'.map f).flatten).length ≤ ((l.map f).flatten).length := by
  induction hs with
  | slnil => simp
  | cons a _ ih => simp only [List.map_cons, List.flatten_cons, List.length_append]; omega
  | cons_cons a _ ih => simp only [List.map_cons, List.flatten_cons, List.length_append]; omega

theorem flatten_map_length_lt_of_sublist {α : Type} {f : α → List Int} {l' l : List α}
    (hs : l'.Sublist l) (hlt : l'.length < l.length) (hpos : ∀ x ∈ l, 0 < (f x).length) :
    ((l'.map f).flatten).length < ((l.map f).flatten).length := by
  induction hs with
  | slnil => simp at hlt
  | cons a hs _ =>
    have h1 := flatten_map_length_le_of_sublist (f := f) hs
    have h2 := hpos a List.mem_cons_self
    simp only [List.map_cons, List.flatten_cons, List.length_append]
    omega
  | cons_cons a hs ih =>
    have := ih (by simpa using hlt) (fun x hx => hpos x (List.mem_cons_of_mem _ hx))
    simp only [List.map_cons, List.flatten_cons, List.length_append]
    omega

theorem zip_eraseIdx {α β : Type} : ∀ (l1 : List α) (l2 : List β) (k : Nat),
    (l1.eraseIdx k).zip (l2.eraseIdx k) = (l1.zip l2).eraseIdx k := by
  intro l1
  induction l1 with
  | nil => intro l2 k; simp
  | cons a l1 ih =>
    intro l2 k
    cases l2 with
    | nil => simp
    | cons b l2 =>
      cases k with
      | zero => simp
      | succ k => simp [ih]

theorem plItems_eraseIdx (pl : List Proof) (keys : List (String × PublicKey))
    (choices : List (Int × Int)) (k : Nat) :
    plItems (pl.eraseIdx k) (keys.eraseIdx k) (choices.eraseIdx k) =
      (plItems pl keys choices).eraseIdx k := by
  simp only [plItems, zip_eraseIdx]

/-! ### 7. hash inputs and explicit collisions -/

/-- the byte string hashed by `createChallenge ctx nonce cs issig`. -/
def challengeInput (ctx nonce : Int) (cs : List Int) (issig : Bool) : List UInt8 :=
  hashCommitInput (ctx :: cs ++ [nonce]) issig

/-- an explicit SHA-256 collision: the two given byte strings differ and hash alike. -/
def Collision (a b : List UInt8) : Prop := a ≠ b ∧ Sha256.hash a = Sha256.hash b

theorem Collision.symm {a b : List UInt8} (h : Collision a b) : Collision b a :=
  ⟨fun e => h.1 e.symm, h.2.symm⟩

/-- `createChallenge_binds`, packaged. -/
theorem challenge_eq_binds {ctx ctx' n n' : Int} {cs cs' : List Int} {b b' : Bool}
    (hl : (challengeInput ctx n cs b).length < 256 ^ 126)
    (hl' : (challengeInput ctx' n' cs' b').length < 256 ^ 126)
    (h : createChallenge ctx n cs b = createChallenge ctx' n' cs' b') :
    (ctx = ctx' ∧ cs = cs' ∧ n = n' ∧ b = b') ∨
      Collision (challengeInput ctx n cs b) (challengeInput ctx' n' cs' b') :=
  createChallenge_binds hl hl' h

/-! ### 8. single proofs: `ProofD.verifyWith`, `ProofU.verify` -/

/-- the contribution of a single disclosure proof as a total function (`[]` on failure). -/
def ProofD.contribution (o : SigOracle) (kid : String) (pk : PublicKey) (p : ProofD) (pick : Int) :
    List Int :=
  match (p.challengeContribution o kid pk pick).run with
  | .ok (some (cs, _)) => cs
  | _ => []

/-- the contribution of a single issuance commitment proof (`[]` on failure). -/
def ProofU.contribution (pk : PublicKey) (p : ProofU) : List Int :=
  match p.challengeContribution pk with
  | .ok (some cs) => cs
  | _ => []

/-- single disclosure proof: `ProofD.verifyWith` accepts only if the proof's own `c` is the
    challenge of `(ctx, nonce, contribution, issig)`. -/
theorem ProofD.verifyWith_ok {o : SigOracle} {kid : String} {pk : PublicKey} {p : ProofD}
    {ctx nonce : Int} {issig : Bool} {i1 i2 : Int}
    (h : p.verifyWith o kid pk ctx nonce issig i1 i2 = .ok true) :
    (∃ p', (p.challengeContribution o kid pk i1).run = .ok (some (p.contribution o kid pk i1, p'))) ∧
    p.c = some ((createChallenge ctx nonce (p.contribution o kid pk i1) issig : Nat) : Int) := by
  unfold ProofD.verifyWith at h
  obtain ⟨r, hr, h⟩ := GoM.bind_ok h
  cases r with
  | none => cases h
  | some cp =>
    obtain ⟨cs, p'⟩ := cp
    simp only at h
    obtain ⟨x, hx, h⟩ := GoM.bind_ok h
    have hx1 : x.1 = true := GoM.pure_ok h
    have hc := (ProofD.verifyWithChallenge_ok hx hx1).2
    have hco : p.contribution o kid pk i1 = cs := by simp [ProofD.contribution, hr]
    rw [hco]
    exact ⟨⟨p', hr⟩, by rw [← (ProofD.challengeContribution_ok hr).2.1]; exact hc⟩

/-- single issuance commitment proof: `ProofU.verify` accepts only if the proof's own `c` is the
    challenge of `(ctx, nonce, contribution, false)` — always the disclosure-session flag. -/
theorem ProofU.verify_ok {pk : PublicKey} {p : ProofU} {ctx nonce : Int}
    (h : p.verify pk ctx nonce = .ok true) :
    p.challengeContribution pk = .ok (some (p.contribution pk)) ∧
    p.c = some ((createChallenge ctx nonce (p.contribution pk) false : Nat) : Int) := by
  unfold ProofU.verify at h
  obtain ⟨r, hr, h⟩ := GoM.bind_ok h
  cases r with
  | none => cases h
  | some cs =>
    simp only at h
    have hco : p.contribution pk = cs := by simp [ProofU.contribution, hr]
    rw [hco]
    exact ⟨hr, (ProofU.verifyWithChallenge_ok h).2⟩

end Gabi

/-! ### 9. a concrete accepted list (non-vacuity of the acceptance hypotheses)

  Two valid issuance commitment proofs for `U = 1` under a toy key (`n = 253 = 11·23`): the
  challenge `C` is the real hash of the session, kept symbolic (nothing is evaluated through
  SHA-256 in the kernel): `U^{-C} = 1` for every `C`. -/

namespace Gabi.Ex

def pk : PublicKey :=
  { n := 253, z := 4, s := 9, g := none, h := none, r := [16, 25], counter := 0,
    params := SysParams.ofBase toyBase, hasEcdsa := false, issuer := "toy" }

def noOracle : SigOracle := fun _ _ => none

theorem inv1 : goModInverse 1 253 = some 1 := by
  cases h : goModInverse 1 253 with
  | none =>
    have := (goModInverse_none_iff 1 253 (by norm_num)).1 h
    exact absurd (by decide) this
  | some inv =>
    obtain ⟨h0, h1, h2⟩ := goModInverse_some h
    simp at h1 h2
    congr 1
    omega

theorem modPow_one_neg (C : Nat) : modPow 1 (-(C : Int)) 253 = some 1 := by
  unfold modPow
  cases C with
  | zero => rw [goExp_nonneg 1 _ 253 (by norm_num) (by simp)]; simp
  | succ k =>
    rw [goExp_neg 1 _ 253 (by norm_num) (by omega), inv1]
    simp

theorem modPow_s0 : modPow 9 0 253 = some 1 := by
  unfold modPow; rw [goExp_nonneg _ _ _ (by norm_num) (by norm_num)]; norm_num
theorem modPow_s55 : modPow 9 55 253 = some 1 := by
  unfold modPow; rw [goExp_nonneg _ _ _ (by norm_num) (by norm_num)]
  have : Int.toNat 55 = 55 := rfl
  rw [this]; norm_num
theorem modPow_r0 : modPow 16 0 253 = some 1 := by
  unfold modPow; rw [goExp_nonneg _ _ _ (by norm_num) (by norm_num)]; norm_num

/-- a (trivial but valid) issuance commitment proof for `U = 1 = S^0·R₀^0`, resp. `S^55·R₀^0`
    (`S = 9` has order dividing 55 modulo 253), with challenge `C`. -/
def proofU (C : Nat) (vp : Int) : ProofU :=
  { u := some 1, c := some (C : Int), vPrimeResponse := some vp, sResponse := some 0,
    mUserResponses := [] }

theorem contrib (C : Nat) (vp : Int) (hvp : modPow 9 vp 253 = some 1) :
    (proofU C vp).challengeContribution pk = .ok (some [1, 1]) := by
  have hr : (proofU C vp).reconstructUcommit pk = .ok (some 1) := by
    unfold ProofU.reconstructUcommit
    simp only [proofU, deref, idx, pk]
    simp [modPow_one_neg, hvp, modPow_r0]
    rfl
  unfold ProofU.challengeContribution
  rw [hr]
  rfl

theorem verifyU (C : Nat) (vp : Int) (h0 : 0 ≤ vp) (h1 : vp ≤ 55) :
    (proofU C vp).verifyWithChallenge pk (C : Int) = .ok true := by
  have hw : (proofU C vp).wellFormed pk = true := by
    simp [ProofU.wellFormed, proofU, pk]
  have hp : pk.params.LvPrimeCommit = 672 := by decide
  unfold ProofU.verifyWithChallenge ProofU.correctResponseSizes
  rw [hw, hp]
  simp only [proofU, deref]
  have hM : (2 : Int) ^ 6 ≤ 2 ^ (672 + 1) := pow_le_pow_right₀ (by norm_num) (by norm_num)
  generalize (2 : Int) ^ (672 + 1) = M at hM ⊢
  have : vp ≤ M - 1 := by norm_num at hM; omega
  simp [h0, this]
  rfl

/-- the challenge of the example session. -/
def C : Nat := createChallenge 1 2 [1, 1, 1, 1] false

def pl : List Proof := [.u (proofU C 0), .u (proofU C 55)]
def keys : List (String × PublicKey) := [("k", pk), ("k", pk)]
def choices : List (Int × Int) := [(-1, -1), (-1, -1)]

/-- general form: any two of the example proofs, in any order. -/
theorem accepted_pair (a b : Int) (ha : modPow 9 a 253 = some 1) (hb : modPow 9 b 253 = some 1)
    (ha0 : 0 ≤ a) (ha1 : a ≤ 55) (hb0 : 0 ≤ b) (hb1 : b ≤ 55)
    (kss : List String) (hk : kss = [] ∨ kss.length = 2) :
    proofListVerifyWith noOracle keys [.u (proofU C a), .u (proofU C b)] 1 2 false kss choices =
      .ok true := by
  rw [accepted_iff]
  refine ⟨by simp, rfl, hk, [([1, 1], .u (proofU C a)), ([1, 1], .u (proofU C b))], ?_, ?_, ?_⟩
  · refine List.Forall₂.cons ?_ (List.Forall₂.cons ?_ List.Forall₂.nil)
    · show contribOne noOracle ((Proof.u (proofU C a), "k", pk), (-1, -1)) = _
      unfold contribOne; simp only [contrib C a ha]; rfl
    · show contribOne noOracle ((Proof.u (proofU C b), "k", pk), (-1, -1)) = _
      unfold contribOne; simp only [contrib C b hb]; rfl
  · intro x hx
    simp only [List.map_cons, List.map_nil, keys, choices, List.zip_cons_cons, List.zip_nil_right,
      List.mem_cons, List.not_mem_nil, or_false] at hx
    have hC : createChallenge 1 2 (([1, 1] : List Int) :: [[1, 1]]).flatten false = C := rfl
    simp only [List.map_cons, List.map_nil, hC]
    rcases hx with rfl | rfl
    · exact verifyU C a ha0 ha1
    · exact verifyU C b hb0 hb1
  · simp only [List.map_cons, List.map_nil, keys, choices, List.zip_cons_cons, List.zip_nil_right,
      Proof.secretKeyResponse, proofU]
    constructor
    · intro k ρ r _ hl; simp at hl
    · intro k l ρ ρ' hkl hk' hl' _
      have hl2 : l < 2 := by
        by_contra hge
        have : ([some (0:Int), some 0] : List (Option Int))[l]? = none := by
          apply List.getElem?_eq_none; simp; omega
        rw [this] at hl'; cases hl'
      have hk0 : k = 0 := by omega
      have hl1 : l = 1 := by omega
      subst hk0; subst hl1
      simp at hk' hl'
      exact ⟨0, hk'.symm, hl'.symm⟩

theorem accepted (kss : List String) (hk : kss = [] ∨ kss.length = 2) :
    proofListVerifyWith noOracle keys pl 1 2 false kss choices = .ok true :=
  accepted_pair 0 55 modPow_s0 modPow_s55 (by norm_num) (by norm_num) (by norm_num) (by norm_num)
    kss hk

/-- the same two proofs in the other order are accepted for the same session as well: both
    contribute `[1, 1]`, so the hashed bytes are identical. -/
theorem accepted_swapped (kss : List String) (hk : kss = [] ∨ kss.length = 2) :
    proofListVerifyWith noOracle keys pl.reverse 1 2 false kss choices = .ok true :=
  accepted_pair 55 0 modPow_s55 modPow_s0 (by norm_num) (by norm_num) (by norm_num) (by norm_num)
    kss hk

theorem pl_reverse_ne : pl.reverse ≠ pl := by
  intro h
  have h1 : (proofU C 55).vPrimeResponse = (proofU C 0).vPrimeResponse := by
    have := congrArg (fun l => l.head?) h
    simp only [pl, List.reverse_cons, List.reverse_nil, List.nil_append, List.cons_append,
      List.head?_cons, Option.some.injEq, Proof.u.injEq] at this
    rw [this]
  simp [proofU] at h1

theorem contributions : listContributions noOracle keys pl choices = [1, 1, 1, 1] := by
  have h0 : contributionOf noOracle ((Proof.u (proofU C 0), "k", pk), ((-1 : Int), (-1 : Int))) = [1, 1] :=
    contributionOf_eq (x := ((Proof.u (proofU C 0), "k", pk), ((-1 : Int), (-1 : Int))))
      (contrib C 0 modPow_s0)
  have h1 : contributionOf noOracle ((Proof.u (proofU C 55), "k", pk), ((-1 : Int), (-1 : Int))) = [1, 1] :=
    contributionOf_eq (x := ((Proof.u (proofU C 55), "k", pk), ((-1 : Int), (-1 : Int))))
      (contrib C 55 modPow_s55)
  simp only [listContributions, plItems, pl, keys, choices, List.zip_cons_cons, List.zip_nil_right,
    List.map_cons, List.map_nil, h0, h1]
  rfl

end Gabi.Ex
