/-
  GabiProofs.IssuanceE2E — the end of the issuance protocol on the model: `CredBuilder.construct`
  (`ConstructCredential`) as plain functions (`blindLoop`, `constructTail`, equation
  `construct_eq`), its decision logic and totality; the block the issuer signs (`issuerMsgs`) and
  the block the holder ends up with (`holderMsgs`), their relation (`SharesCombine`) and the
  product identity `repU_shares`; the issuer's signature on the user commitment verifies for the
  holder (`sign_commitment_verifies_aux`); the honest `construct` (`construct_honest_aux`).
  Property statements: `GabiProps/C06E2E.lean`.
-/
import GabiModel.Prover
import GabiProofs.IssuanceLemmas
namespace Gabi

/-- the share-combining loop of `ConstructCredential` (builder.go:182-193) as a recursive
    function: `.error why` = the error return, `.ok ms` = the attribute list after the loop. -/
def blindLoop (mIssuer : List (Int × Option Int)) :
    List (Int × Int) → List (Option Int) → Except String (List (Option Int))
  | [], ms => .ok ms
  | (i, miUser) :: rest, ms =>
    if i ≥ (ms.length : Int) then .error "too few attributes"
    else if (ms[i.toNat]?).join.isSome then .error "blind attribute not nil"
    else match (mIssuer.lookup i).join with
      | none => .error "issuer share missing"
      | some mi => blindLoop mIssuer rest (ms.set i.toNat (some (mi + miUser)))

/-- everything `ConstructCredential` does after the share loop. -/
def constructTail (pk : PublicKey) (signature : CLSignature) (witness : Option MsgWitness)
    (ms : List (Option Int)) : GoM ConstructResult :=
  match witness with
  | some w =>
    if !w.verify pk then pure (.rejected "witness") else do
      let vals ← ms.mapM (deref "attribute")
      if !(← clVerify pk signature vals) then pure (.rejected "signature")
      else if !(vals.contains (w.e.getD 0)) then pure (.rejected "revocation attribute")
      else pure (.credential signature vals)
  | none => do
    let vals ← ms.mapM (deref "attribute")
    if !(← clVerify pk signature vals) then pure (.rejected "signature")
    else pure (.credential signature vals)

theorem construct_forIn (mIssuer : List (Int × Option Int)) (L : List (Int × Int)) :
    ∀ ms : List (Option Int), ∃ ms'' : List (Option Int),
    (forIn L ((none : Option ConstructResult), ms) (fun x __s =>
          if x.1 ≥ (__s.2.length : Int) then
            pure (ForInStep.done (some (ConstructResult.rejected "too few attributes"), __s.2))
          else
            if __s.2[x.1.toNat]?.join.isSome = true then
              pure (ForInStep.done (some (ConstructResult.rejected "blind attribute not nil"), __s.2))
            else
              match (List.lookup x.1 mIssuer).join with
              | none => pure (ForInStep.done (some (ConstructResult.rejected "issuer share missing"), __s.2))
              | some mi => pure (ForInStep.yield (none, __s.2.set x.1.toNat (some (mi + x.2))))) :
        GoM (Option ConstructResult × List (Option Int))) =
      .ok (match blindLoop mIssuer L ms with
        | .ok ms' => (none, ms')
        | .error why => (some (.rejected why), ms'')) := by
  induction L with
  | nil => intro ms; exact ⟨ms, rfl⟩
  | cons kv L ih =>
    intro ms
    obtain ⟨i, mu⟩ := kv
    rw [List.forIn_cons]
    simp only [blindLoop]
    by_cases h1 : i ≥ (ms.length : Int)
    · simp only [h1, if_true]; exact ⟨ms, rfl⟩
    · simp only [h1, if_false]
      by_cases h2 : ms[i.toNat]?.join.isSome = true
      · simp only [h2, if_true]; exact ⟨ms, rfl⟩
      · simp only [h2]
        cases h3 : (List.lookup i mIssuer).join with
        | none => exact ⟨ms, rfl⟩
        | some mi =>
          obtain ⟨ms'', h⟩ := ih (ms.set i.toNat (some (mi + mu)))
          exact ⟨ms'', h⟩

theorem construct_eq (pk : PublicKey) (b : CredBuilder) (ps : ProofS) (sg : CLSignature)
    (mIssuer : List (Int × Option Int)) (attributes : List (Option Int)) (w : Option MsgWitness) :
    CredBuilder.construct pk b (some ps) (some sg) mIssuer attributes w =
      (ps.verify pk sg b.context b.nonce2 >>= fun ok =>
        if !ok then pure (.rejected "proofS") else
        match blindLoop mIssuer b.mUser (some b.secret :: attributes) with
        | .error why => pure (.rejected why)
        | .ok ms => constructTail pk
            { a := sg.a, e := sg.e, v := sg.v + b.vPrime, keyshareP := b.keyshareP } w ms) := by
  unfold CredBuilder.construct
  simp only
  congr 1
  funext ok
  cases ok with
  | false => rfl
  | true =>
    simp only [Bool.not_true, Bool.false_eq_true, if_false]
    obtain ⟨ms'', h⟩ := construct_forIn mIssuer b.mUser (some b.secret :: attributes)
    erw [h]
    cases hb : blindLoop mIssuer b.mUser (some b.secret :: attributes) with
    | error why => rfl
    | ok ms =>
      cases w with
      | none => rfl
      | some w =>
        simp only [constructTail, bind, Except.bind, pure, Except.pure]

/-! ### the share loop -/

theorem blindLoop_cons (mIssuer : List (Int × Option Int)) (i mu : Int) (rest : List (Int × Int))
    (ms : List (Option Int)) :
    blindLoop mIssuer ((i, mu) :: rest) ms =
      if i ≥ (ms.length : Int) then .error "too few attributes"
      else if (ms[i.toNat]?).join.isSome then .error "blind attribute not nil"
      else match (mIssuer.lookup i).join with
        | none => .error "issuer share missing"
        | some mi => blindLoop mIssuer rest (ms.set i.toNat (some (mi + mu))) := rfl

/-- `set` with a non-nil value never makes a non-nil position nil. -/
theorem join_isSome_set (ms : List (Option Int)) (k j : Nat) (x : Int)
    (h : (ms[j]?).join.isSome = true) : ((ms.set k (some x))[j]?).join.isSome = true := by
  rw [List.getElem?_set]
  split
  · split <;> simp_all
  · exact h

/-- (c) a missing issuer share makes the loop fail (possibly earlier, for another reason). -/
theorem blindLoop_error_of_missing (mIssuer : List (Int × Option Int)) (L : List (Int × Int)) :
    ∀ ms, (∃ kv ∈ L, (mIssuer.lookup kv.1).join = none) → ∃ why, blindLoop mIssuer L ms = .error why := by
  induction L with
  | nil => intro ms ⟨kv, h, _⟩; cases h
  | cons kv L ih =>
    intro ms ⟨kv', hmem, hnone⟩
    obtain ⟨i, mu⟩ := kv
    rw [blindLoop_cons]
    split
    · exact ⟨_, rfl⟩
    · split
      · exact ⟨_, rfl⟩
      · cases h3 : (List.lookup i mIssuer).join with
        | none => exact ⟨_, rfl⟩
        | some mi =>
          rcases List.mem_cons.mp hmem with rfl | hmem'
          · rw [h3] at hnone; cases hnone
          · exact ih _ ⟨kv', hmem', hnone⟩

/-- (d) a blind position that is already filled makes the loop fail. -/
theorem blindLoop_error_of_notNil (mIssuer : List (Int × Option Int)) (L : List (Int × Int)) :
    ∀ ms, (∃ kv ∈ L, (ms[kv.1.toNat]?).join.isSome = true) →
      ∃ why, blindLoop mIssuer L ms = .error why := by
  induction L with
  | nil => intro ms ⟨kv, h, _⟩; cases h
  | cons kv L ih =>
    intro ms ⟨kv', hmem, hsome⟩
    obtain ⟨i, mu⟩ := kv
    rw [blindLoop_cons]
    split
    · exact ⟨_, rfl⟩
    · split
      · exact ⟨_, rfl⟩
      · next h2 =>
        cases h3 : (List.lookup i mIssuer).join with
        | none => exact ⟨_, rfl⟩
        | some mi =>
          rcases List.mem_cons.mp hmem with rfl | hmem'
          · exact absurd hsome h2
          · exact ih _ ⟨kv', hmem', join_isSome_set _ _ _ _ hsome⟩

/-- a blind index beyond the attribute list makes the loop fail. -/
theorem blindLoop_error_of_tooFew (mIssuer : List (Int × Option Int)) (L : List (Int × Int)) :
    ∀ ms, (∃ kv ∈ L, kv.1 ≥ (ms.length : Int)) → ∃ why, blindLoop mIssuer L ms = .error why := by
  induction L with
  | nil => intro ms ⟨kv, h, _⟩; cases h
  | cons kv L ih =>
    intro ms ⟨kv', hmem, hge⟩
    obtain ⟨i, mu⟩ := kv
    rw [blindLoop_cons]
    split
    · exact ⟨_, rfl⟩
    · next h1 =>
      split
      · exact ⟨_, rfl⟩
      · cases h3 : (List.lookup i mIssuer).join with
        | none => exact ⟨_, rfl⟩
        | some mi =>
          rcases List.mem_cons.mp hmem with rfl | hmem'
          · exact absurd hge h1
          · exact ih _ ⟨kv', hmem', by rw [List.length_set]; exact hge⟩

/-- inversion of a successful loop, started on a list whose position 0 (the secret) is filled:
    the blind indices are distinct, lie in `[1, len)`, were nil, have an issuer share, and end up
    holding the sum of the two shares; every other position is unchanged. -/
theorem blindLoop_ok (mIssuer : List (Int × Option Int)) (L : List (Int × Int)) :
    ∀ ms ms', (ms[0]?).join.isSome = true → blindLoop mIssuer L ms = .ok ms' →
      ms'.length = ms.length ∧ (L.map (·.1)).Nodup ∧
      (∀ kv ∈ L, 1 ≤ kv.1 ∧ kv.1 < ms.length ∧ (ms[kv.1.toNat]?).join = none ∧
        ∃ mi, (mIssuer.lookup kv.1).join = some mi ∧ ms'[kv.1.toNat]? = some (some (mi + kv.2))) ∧
      (∀ j : Nat, (∀ kv ∈ L, kv.1 ≠ (j : Int)) → ms'[j]? = ms[j]?) := by
  induction L with
  | nil =>
    intro ms ms' _ h
    obtain rfl : ms = ms' := Except.ok.inj h
    exact ⟨rfl, List.nodup_nil, fun kv h => (by cases h), fun j _ => rfl⟩
  | cons kv L ih =>
    intro ms ms' h0 h
    obtain ⟨i, mu⟩ := kv
    rw [blindLoop_cons] at h
    split at h
    · cases h
    · next h1 =>
      split at h
      · cases h
      · next h2 =>
        cases h3 : (List.lookup i mIssuer).join with
        | none => rw [h3] at h; cases h
        | some mi =>
          rw [h3] at h
          simp only at h
          have hnone : (ms[i.toNat]?).join = none := by
            cases hj : (ms[i.toNat]?).join with
            | none => rfl
            | some x => rw [hj] at h2; exact absurd rfl h2
          have hi1 : 1 ≤ i := by
            by_contra hlt
            have : i.toNat = 0 := by omega
            rw [this] at hnone
            rw [hnone] at h0; cases h0
          have hilt : i.toNat < ms.length := by omega
          obtain ⟨hl, hnd, hkv, hoth⟩ := ih _ ms' (join_isSome_set _ _ _ _ h0) h
          rw [List.length_set] at hl hkv
          have hnotin : ∀ kv' ∈ L, kv'.1 ≠ i := by
            intro kv' hm heq
            have := (hkv kv' hm).2.2.1
            rw [heq, List.getElem?_set_self hilt] at this
            cases this
          refine ⟨hl, ?_, ?_, ?_⟩
          · rw [List.map_cons, List.nodup_cons]
            refine ⟨?_, hnd⟩
            intro hm
            obtain ⟨kv', hm', heq⟩ := List.mem_map.mp hm
            exact hnotin kv' hm' heq
          · intro kv' hm
            rcases List.mem_cons.mp hm with rfl | hm'
            · refine ⟨hi1, by omega, hnone, mi, h3, ?_⟩
              rw [hoth i.toNat (fun kv' hm' heq => hnotin kv' hm' (by omega)),
                List.getElem?_set_self hilt]
            · obtain ⟨a1, a2, a3, mi', a4, a5⟩ := hkv kv' hm'
              refine ⟨a1, a2, ?_, mi', a4, a5⟩
              have hne : i.toNat ≠ kv'.1.toNat := by
                have := hnotin kv' hm'; omega
              rwa [List.getElem?_set_ne hne] at a3
          · intro j hj
            rw [hoth j (fun kv' hm' => hj kv' (List.mem_cons_of_mem _ hm'))]
            have hne : i.toNat ≠ j := by
              have := hj (i, mu) (List.mem_cons_self ..); simp only at this; omega
            rw [List.getElem?_set_ne hne]

/-- the loop succeeds when the blind indices are distinct, in `[1, len)`, nil, and have an
    issuer share. -/
theorem blindLoop_succeeds (mIssuer : List (Int × Option Int)) (L : List (Int × Int)) :
    ∀ ms, (L.map (·.1)).Nodup →
      (∀ kv ∈ L, 1 ≤ kv.1 ∧ kv.1 < ms.length ∧ (ms[kv.1.toNat]?).join = none ∧
        ((mIssuer.lookup kv.1).join).isSome = true) →
      ∃ ms', blindLoop mIssuer L ms = .ok ms' := by
  induction L with
  | nil => intro ms _ _; exact ⟨ms, rfl⟩
  | cons kv L ih =>
    intro ms hnd hkv
    obtain ⟨i, mu⟩ := kv
    obtain ⟨a1, a2, a3, a4⟩ := hkv (i, mu) (List.mem_cons_self ..)
    simp only at a1 a2 a3 a4
    rw [List.map_cons, List.nodup_cons] at hnd
    rw [blindLoop_cons, if_neg (by omega), a3]
    simp only [Option.isSome_none, Bool.false_eq_true, if_false]
    cases h3 : (List.lookup i mIssuer).join with
    | none => rw [h3] at a4; cases a4
    | some mi =>
      apply ih _ hnd.2
      intro kv' hm'
      obtain ⟨b1, b2, b3, b4⟩ := hkv kv' (List.mem_cons_of_mem _ hm')
      refine ⟨b1, by rw [List.length_set]; exact b2, ?_, b4⟩
      have hne : i.toNat ≠ kv'.1.toNat := by
        have : kv'.1 ≠ i := fun heq => hnd.1 (List.mem_map.mpr ⟨kv', hm', heq⟩)
        omega
      rwa [List.getElem?_set_ne hne]

/-! ### after the loop -/

theorem mapM_deref_ok (what : String) (ms : List (Option Int)) (h : ∀ o ∈ ms, o.isSome = true) :
    ms.mapM (deref what) = (.ok (ms.map (·.getD 0)) : GoM (List Int)) := by
  induction ms with
  | nil => rfl
  | cons o ms ih =>
    rw [List.mapM_cons, ih (fun o' h' => h o' (List.mem_cons_of_mem _ h'))]
    have := h o (List.mem_cons_self ..)
    cases o with
    | none => cases this
    | some x => rfl

/-- a nil entry left in the list is dereferenced: Go panics (`attributes` is caller input). -/
theorem mapM_deref_error (what : String) (ms : List (Option Int)) (h : none ∈ ms) :
    ms.mapM (deref what) = (.error (.nilDeref what) : GoM (List Int)) := by
  induction ms with
  | nil => cases h
  | cons o ms ih =>
    rw [List.mapM_cons]
    cases o with
    | none => rfl
    | some x =>
      rcases List.mem_cons.mp h with h' | h'
      · cases h'
      · rw [ih h']; rfl

theorem mapM_deref_inv (what : String) (ms : List (Option Int)) (vals : List Int)
    (h : ms.mapM (deref what) = (.ok vals : GoM (List Int))) : ms = vals.map some := by
  induction ms generalizing vals with
  | nil =>
    obtain rfl : [] = vals := Except.ok.inj h
    rfl
  | cons o ms ih =>
    rw [List.mapM_cons] at h
    cases o with
    | none => cases h
    | some x =>
      cases h' : ms.mapM (deref what) with
      | error e => rw [h'] at h; cases h
      | ok vs =>
        rw [h'] at h
        obtain rfl : x :: vs = vals := Except.ok.inj h
        rw [ih vs h']; rfl

theorem constructTail_none (pk : PublicKey) (s : CLSignature) (ms : List (Option Int)) :
    constructTail pk s none ms = (ms.mapM (deref "attribute") >>= fun vals =>
      clVerify pk s vals >>= fun ok =>
        if !ok then pure (.rejected "signature") else pure (.credential s vals)) := rfl

theorem constructTail_some (pk : PublicKey) (s : CLSignature) (w : MsgWitness) (ms : List (Option Int)) :
    constructTail pk s (some w) ms =
      if !w.verify pk then pure (.rejected "witness") else
      (ms.mapM (deref "attribute") >>= fun vals =>
        clVerify pk s vals >>= fun ok =>
          if !ok then pure (.rejected "signature")
          else if !(vals.contains (w.e.getD 0)) then pure (.rejected "revocation attribute")
          else pure (.credential s vals)) := rfl

/-- what has been checked when the tail returns a credential. -/
theorem constructTail_credential (pk : PublicKey) (s : CLSignature) (w : Option MsgWitness)
    (ms : List (Option Int)) (s' : CLSignature) (vals : List Int)
    (h : constructTail pk s w ms = .ok (.credential s' vals)) :
    s' = s ∧ ms.mapM (deref "attribute") = .ok vals ∧ clVerify pk s vals = .ok true ∧
      ∀ w', w = some w' → w'.verify pk = true ∧ vals.contains (w'.e.getD 0) = true := by
  cases w with
  | none =>
    rw [constructTail_none] at h
    cases hm : ms.mapM (deref "attribute") with
    | error e => rw [hm] at h; cases h
    | ok vs =>
      rw [hm] at h
      cases hv : clVerify pk s vs with
      | error e => simp only [hv, bind, Except.bind] at h; cases h
      | ok ok =>
        cases ok with
        | false => simp only [hv, bind, Except.bind] at h; cases h
        | true =>
          simp only [hv, bind, Except.bind] at h
          cases h
          exact ⟨rfl, rfl, hv, fun w' hw => by cases hw⟩
  | some w =>
    rw [constructTail_some] at h
    cases hw : w.verify pk with
    | false => rw [hw] at h; cases h
    | true =>
      rw [hw] at h
      simp only [Bool.not_true, Bool.false_eq_true, if_false] at h
      cases hm : ms.mapM (deref "attribute") with
      | error e => rw [hm] at h; cases h
      | ok vs =>
        rw [hm] at h
        cases hv : clVerify pk s vs with
        | error e => simp only [hv, bind, Except.bind] at h; cases h
        | ok ok =>
          cases ok with
          | false => simp only [hv, bind, Except.bind] at h; cases h
          | true =>
            simp only [hv, bind, Except.bind] at h
            cases hc : vs.contains (w.e.getD 0) with
            | false => rw [hc] at h; cases h
            | true =>
              rw [hc] at h
              cases h
              exact ⟨rfl, rfl, hv, fun w' hw' => by cases hw'; exact ⟨hw, hc⟩⟩

/-- the tail never panics when no nil entry is left and `CLSignature.Verify` does not panic;
    and it then returns a credential or a rejection. -/
theorem constructTail_total (pk : PublicKey) (s : CLSignature) (w : Option MsgWitness)
    (ms : List (Option Int)) (vals : List Int) (ok : Bool)
    (hm : ms.mapM (deref "attribute") = .ok vals) (hv : clVerify pk s vals = .ok ok) :
    ∃ r, constructTail pk s w ms = .ok r := by
  cases w with
  | none =>
    rw [constructTail_none, hm]
    simp only [bind, Except.bind, hv]
    cases ok <;> exact ⟨_, rfl⟩
  | some w =>
    rw [constructTail_some, hm]
    simp only [bind, Except.bind, hv]
    cases w.verify pk
    · exact ⟨_, rfl⟩
    · cases ok
      · exact ⟨_, rfl⟩
      · cases vals.contains (w.e.getD 0) <;> exact ⟨_, rfl⟩

/-- **inversion of `ConstructCredential`**: a credential is returned only when both parts of the
    message are present, `ProofS` verified, the share loop succeeded, no nil attribute is left,
    the final signature `(A, e, v'' + v')` verifies over the final attributes, and a witness —
    if present — verified and its value is among the attributes. -/
theorem construct_credential_inv (pk : PublicKey) (b : CredBuilder) (proofS : Option ProofS)
    (sig : Option CLSignature) (mIssuer : List (Int × Option Int)) (attributes : List (Option Int))
    (w : Option MsgWitness) (s : CLSignature) (vals : List Int)
    (h : b.construct pk proofS sig mIssuer attributes w = .ok (.credential s vals)) :
    ∃ ps sg ms, proofS = some ps ∧ sig = some sg ∧
      ps.verify pk sg b.context b.nonce2 = .ok true ∧
      s = { a := sg.a, e := sg.e, v := sg.v + b.vPrime, keyshareP := b.keyshareP } ∧
      blindLoop mIssuer b.mUser (some b.secret :: attributes) = .ok ms ∧
      ms.mapM (deref "attribute") = .ok vals ∧ clVerify pk s vals = .ok true ∧
      ∀ w', w = some w' → w'.verify pk = true ∧ vals.contains (w'.e.getD 0) = true := by
  cases proofS with
  | none => cases h
  | some ps =>
  cases sig with
  | none => cases h
  | some sg =>
    rw [construct_eq] at h
    cases hp : ps.verify pk sg b.context b.nonce2 with
    | error e => rw [hp] at h; cases h
    | ok ok =>
      rw [hp] at h
      cases ok with
      | false => cases h
      | true =>
        simp only [bind, Except.bind, Bool.not_true, Bool.false_eq_true, if_false] at h
        cases hb : blindLoop mIssuer b.mUser (some b.secret :: attributes) with
        | error why => rw [hb] at h; cases h
        | ok ms =>
          rw [hb] at h
          obtain ⟨rfl, h1, h2, h3⟩ := constructTail_credential _ _ _ _ _ _ h
          exact ⟨ps, sg, ms, rfl, rfl, hp, rfl, rfl, h1, h2, h3⟩

/-! ### rejections and totality -/

/-- when `ProofS.Verify` does not panic and the share loop fails, the result is a rejection. -/
theorem construct_of_blindLoop_error (pk : PublicKey) (b : CredBuilder) (ps : ProofS)
    (sg : CLSignature) (mIssuer : List (Int × Option Int)) (attributes : List (Option Int))
    (w : Option MsgWitness) (okS : Bool) (why : String)
    (hps : ps.verify pk sg b.context b.nonce2 = .ok okS)
    (hb : blindLoop mIssuer b.mUser (some b.secret :: attributes) = .error why) :
    ∃ why', b.construct pk (some ps) (some sg) mIssuer attributes w = .ok (.rejected why') := by
  rw [construct_eq, hps]
  cases okS with
  | false => exact ⟨_, rfl⟩
  | true =>
    simp only [bind, Except.bind, Bool.not_true, Bool.false_eq_true, if_false, hb]
    exact ⟨_, rfl⟩

/-- when `ProofS` verified and the share loop succeeded, the result is that of the tail. -/
theorem construct_of_blindLoop_ok (pk : PublicKey) (b : CredBuilder) (ps : ProofS)
    (sg : CLSignature) (mIssuer : List (Int × Option Int)) (attributes : List (Option Int))
    (w : Option MsgWitness) (ms : List (Option Int))
    (hps : ps.verify pk sg b.context b.nonce2 = .ok true)
    (hb : blindLoop mIssuer b.mUser (some b.secret :: attributes) = .ok ms) :
    b.construct pk (some ps) (some sg) mIssuer attributes w =
      constructTail pk { a := sg.a, e := sg.e, v := sg.v + b.vPrime, keyshareP := b.keyshareP } w ms := by
  rw [construct_eq, hps]
  simp only [bind, Except.bind, Bool.not_true, Bool.false_eq_true, if_false, hb]

/-- after a successful loop no nil entry is left, provided every nil attribute was a blind
    index. -/
theorem blindLoop_all_some (mIssuer : List (Int × Option Int)) (L : List (Int × Int))
    (secret : Int) (attributes : List (Option Int)) (ms : List (Option Int))
    (hnil : ∀ j : Nat, attributes[j]? = some none → ∃ kv ∈ L, kv.1 = (j : Int) + 1)
    (hb : blindLoop mIssuer L (some secret :: attributes) = .ok ms) :
    ∀ o ∈ ms, o.isSome = true := by
  obtain ⟨_, _, hkv, hoth⟩ := blindLoop_ok mIssuer L _ ms rfl hb
  intro o ho
  obtain ⟨j, hj⟩ := List.getElem?_of_mem ho
  by_cases hex : ∃ kv ∈ L, kv.1 = (j : Int)
  · obtain ⟨kv, hm, heq⟩ := hex
    obtain ⟨_, _, _, mi, _, h5⟩ := hkv kv hm
    have : kv.1.toNat = j := by omega
    rw [this, hj] at h5
    obtain rfl := Option.some.inj h5
    rfl
  · have hne : ∀ kv ∈ L, kv.1 ≠ (j : Int) := fun kv hm heq => hex ⟨kv, hm, heq⟩
    rw [hoth j hne] at hj
    cases j with
    | zero =>
      simp only [List.getElem?_cons_zero] at hj
      obtain rfl := Option.some.inj hj
      rfl
    | succ k =>
      rw [List.getElem?_cons_succ] at hj
      cases o with
      | some x => rfl
      | none =>
        obtain ⟨kv, hm, heq⟩ := hnil k hj
        exact absurd (by rw [heq]; push_cast; ring) (hne kv hm)

/-- `CLSignature.Verify` does not panic on a key with invertible bases when there are at most as
    many messages as bases. -/
theorem clVerifyWith_total {n : ℕ} (isPrime : Nat → Bool) (pk : PublicKey) (s : CLSignature)
    (vals : List Int) (hN : pk.n = n) (hn : 1 < n) (hr : ∀ x ∈ pk.r, IsUnit (x : ZMod n))
    (hlen : vals.length ≤ pk.r.length) :
    ∃ ok, clVerifyWith isPrime pk s vals = .ok ok := by
  unfold clVerifyWith
  cases hint : eInInterval pk.params s.e with
  | false => exact ⟨false, rfl⟩
  | true =>
  cases hp : isPrime s.e.toNat with
  | false => exact ⟨false, rfl⟩
  | true =>
    have he := eInInterval_pos hint
    have hae := goExp_nonneg s.a s.e pk.n (by rw [hN]; exact_mod_cast (by omega : 0 < n)) (by omega)
    obtain ⟨r, hrr, _⟩ := representToBases_spec hn pk.r pk.params.Lm hr vals hlen
    rw [← hN] at hrr
    cases hany : vals.any (negOversized pk.params.Lm) with
    | true =>
      simp only [Bool.not_true, Bool.false_eq_true, if_false, hae, representToPublicKey_of_any hany,
        deref, bind, Except.bind, pure, Except.pure]
      exact ⟨_, rfl⟩
    | false =>
      simp only [Bool.not_true, Bool.false_eq_true, if_false, hae, representToPublicKey_ok hany hrr,
        deref, bind, Except.bind, pure, Except.pure]
      split <;> exact ⟨_, rfl⟩

/-- **`ConstructCredential` does not panic** when (1) `ProofS.Verify` does not, (2) every nil
    entry of `attributes` is a random-blind index of the builder, (3) there are enough bases,
    (4) the bases are invertible.  It then returns a credential or a rejection, for every
    `MIssuer` map and witness. -/
theorem construct_total_aux {n : ℕ} (pk : PublicKey) (b : CredBuilder) (ps : ProofS)
    (sg : CLSignature) (mIssuer : List (Int × Option Int)) (attributes : List (Option Int))
    (w : Option MsgWitness) (okS : Bool)
    (hN : pk.n = n) (hn : 1 < n) (hr : ∀ x ∈ pk.r, IsUnit (x : ZMod n))
    (hps : ps.verify pk sg b.context b.nonce2 = .ok okS)
    (hnil : ∀ j : Nat, attributes[j]? = some none → ∃ kv ∈ b.mUser, kv.1 = (j : Int) + 1)
    (hlen : attributes.length + 1 ≤ pk.r.length) :
    ∃ r, b.construct pk (some ps) (some sg) mIssuer attributes w = .ok r := by
  cases hb : blindLoop mIssuer b.mUser (some b.secret :: attributes) with
  | error why =>
    obtain ⟨why', h⟩ := construct_of_blindLoop_error pk b ps sg mIssuer attributes w okS why hps hb
    exact ⟨_, h⟩
  | ok ms =>
    cases okS with
    | false =>
      rw [construct_eq, hps]; exact ⟨_, rfl⟩
    | true =>
      rw [construct_of_blindLoop_ok pk b ps sg mIssuer attributes w ms hps hb]
      have hall := blindLoop_all_some mIssuer b.mUser b.secret attributes ms hnil hb
      have hl := (blindLoop_ok mIssuer b.mUser _ ms rfl hb).1
      obtain ⟨ok, hv⟩ := clVerifyWith_total probablyPrime pk
        { a := sg.a, e := sg.e, v := sg.v + b.vPrime, keyshareP := b.keyshareP }
        (ms.map (·.getD 0)) hN hn hr (by rw [List.length_map, hl]; exact hlen)
      exact constructTail_total pk _ w ms _ ok (mapM_deref_ok _ ms hall) hv

/-! ### the representation as a product over positions -/

section algebra
variable {n : ℕ}

/-- the unit of the base at position `j`. -/
noncomputable def baseN (n : ℕ) (bases : List Int) (j : ℕ) : (ZMod n)ˣ := zunit n (bases.getD j 0)

theorem rep_map_pos {G : Type*} [CommGroup G] {ι κ : Type*} (R : ι → G) (m : ι → ℤ) (f : κ → ι)
    (l : List κ) : Alg.rep R m (l.map f) = Alg.rep (fun k => R (f k)) (fun k => m (f k)) l := by
  simp [Alg.rep, List.map_map, Function.comp_def]

theorem rep_zero {G : Type*} [CommGroup G] {ι : Type*} (R : ι → G) (m : ι → ℤ) (l : List ι)
    (h : ∀ j ∈ l, m j = 0) : Alg.rep R m l = 1 := by
  induction l with
  | nil => rfl
  | cons a l ih =>
    rw [Alg.rep_cons, h a (List.mem_cons_self ..), zpow_zero, one_mul,
      ih (fun j hj => h j (List.mem_cons_of_mem _ hj))]

theorem repU_eq_range (lm : ℕ) (bases es : List Int) (h : es.length ≤ bases.length) :
    repU n lm bases es =
      Alg.rep (baseN n bases) (fun j => attrExp lm (es.getD j 0)) (List.range es.length) := by
  induction es generalizing bases with
  | nil => simp [repU_nil_right]
  | cons e es ih =>
    cases bases with
    | nil => simp at h
    | cons b bs =>
      rw [repU_cons, ih bs (by simpa using h), List.length_cons, List.range_succ_eq_map,
        Alg.rep_cons, rep_map_pos]
      rfl

theorem rep_single {G : Type*} [CommGroup G] (R : ℕ → G) (k x : Int) (l : List ℕ) (hl : l.Nodup)
    (hk0 : 0 ≤ k) (hk : k.toNat ∈ l) :
    Alg.rep R (fun j => if k = (j : Int) then x else 0) l = R k.toNat ^ x := by
  induction l with
  | nil => cases hk
  | cons a l ih =>
    rw [List.nodup_cons] at hl
    rw [Alg.rep_cons]
    by_cases ha : k = (a : Int)
    · have hka : k.toNat = a := by omega
      rw [if_pos ha, rep_zero, mul_one, hka]
      intro j hj
      rw [if_neg]
      intro hkj
      have : j = a := by omega
      exact hl.1 (this ▸ hj)
    · rw [if_neg ha, zpow_zero, one_mul]
      apply ih hl.2
      rcases List.mem_cons.mp hk with h' | h'
      · exact absurd (by omega) ha
      · exact h'

/-- the total user share attached to position `j`. -/
def sumAt (L : List (Int × Int)) (j : ℕ) : Int :=
  (L.map fun kv => if kv.1 = (j : Int) then kv.2 else 0).sum

theorem sumAt_cons (kv : Int × Int) (L : List (Int × Int)) (j : ℕ) :
    sumAt (kv :: L) j = (if kv.1 = (j : Int) then kv.2 else 0) + sumAt L j := by
  simp [sumAt]

theorem sumAt_eq_zero (L : List (Int × Int)) (j : ℕ) (h : ∀ kv ∈ L, kv.1 ≠ (j : Int)) :
    sumAt L j = 0 := by
  induction L with
  | nil => rfl
  | cons kv L ih =>
    rw [sumAt_cons, if_neg (h kv (List.mem_cons_self ..)),
      ih (fun kv' h' => h kv' (List.mem_cons_of_mem _ h')), add_zero]

theorem sumAt_of_mem (L : List (Int × Int)) (hnd : (L.map (·.1)).Nodup) (kv : Int × Int)
    (hm : kv ∈ L) (j : ℕ) (hj : kv.1 = (j : Int)) : sumAt L j = kv.2 := by
  induction L with
  | nil => cases hm
  | cons kv' L ih =>
    rw [List.map_cons, List.nodup_cons] at hnd
    rw [sumAt_cons]
    rcases List.mem_cons.mp hm with rfl | hm'
    · rw [if_pos hj, sumAt_eq_zero, add_zero]
      intro kv' h' heq
      exact hnd.1 (List.mem_map.mpr ⟨kv', h', by rw [heq, hj]⟩)
    · rw [if_neg, zero_add, ih hnd.2 hm']
      intro heq
      exact hnd.1 (List.mem_map.mpr ⟨kv, hm', by rw [heq, hj]⟩)

theorem rep_sumAt {G : Type*} [CommGroup G] (R : ℕ → G) (l : List ℕ) (hl : l.Nodup)
    (L : List (Int × Int)) (hL : ∀ kv ∈ L, 0 ≤ kv.1 ∧ kv.1.toNat ∈ l) :
    Alg.rep R (sumAt L) l = Alg.rep (fun kv : Int × Int => R kv.1.toNat) (fun kv => kv.2) L := by
  induction L with
  | nil => exact rep_zero _ _ _ (fun j _ => rfl)
  | cons kv L ih =>
    have : sumAt (kv :: L) = fun j => (fun j : ℕ => if kv.1 = (j : Int) then kv.2 else 0) j + sumAt L j := by
      funext j; exact sumAt_cons kv L j
    rw [this, Alg.rep_add, rep_single R kv.1 kv.2 l hl (hL kv (List.mem_cons_self ..)).1
      (hL kv (List.mem_cons_self ..)).2, ih (fun kv' h' => hL kv' (List.mem_cons_of_mem _ h')),
      Alg.rep_cons]

theorem attrExp_small (lm : ℕ) (a : Int) (h0 : 0 ≤ a) (h1 : a < 2 ^ lm) : attrExp lm a = a := by
  unfold attrExp
  rw [if_neg]
  rw [bitLen_eq_natBitLen, not_lt, natBitLen_le_iff]
  have : ((a.natAbs : ℕ) : Int) < ((2 ^ lm : ℕ) : Int) := by
    rw [Int.natAbs_of_nonneg h0]; push_cast; exact h1
  exact_mod_cast this

/-- `msI` is the block the issuer signs (`0` for the secret, its own shares at the random-blind
    positions, the attributes elsewhere) and `msH` the block the holder ends up with (the secret,
    the sums of the shares at the random-blind positions, the same attributes elsewhere).
    `mUser` maps the random-blind positions (distinct, in `[1, len)`) to the user's shares.
    Sizes: the secret has at most `lm` bits, each share is below `2^(lm-1)` (so that no sum is
    longer than `lm` bits and none of these exponents is hashed by `RepresentToBases`). -/
structure SharesCombine (lm : ℕ) (secret : Int) (mUser : List (Int × Int)) (msI msH : List Int) :
    Prop where
  len : msI.length = msH.length
  zero : msI[0]? = some 0
  sec : msH[0]? = some secret
  sec_nonneg : 0 ≤ secret
  sec_lt : secret < 2 ^ lm
  nodup : (mUser.map (·.1)).Nodup
  blind : ∀ kv ∈ mUser, 1 ≤ kv.1 ∧ kv.1 < msI.length ∧ 0 ≤ kv.2 ∧ kv.2 < 2 ^ (lm - 1) ∧
    ∃ mi, 0 ≤ mi ∧ mi < 2 ^ (lm - 1) ∧ msI[kv.1.toNat]? = some mi ∧
      msH[kv.1.toNat]? = some (mi + kv.2)
  other : ∀ j : ℕ, 1 ≤ j → (∀ kv ∈ mUser, kv.1 ≠ (j : Int)) → msH[j]? = msI[j]?

theorem two_shares_lt (lm : ℕ) (a b : Int) (ha0 : 0 ≤ a) (hb0 : 0 ≤ b) (ha : a < 2 ^ (lm - 1))
    (hb : b < 2 ^ (lm - 1)) :
    a < 2 ^ lm ∧ a + b < 2 ^ lm := by
  cases lm with
  | zero => simp only [Nat.zero_sub, pow_zero] at ha hb ⊢; omega
  | succ k =>
    simp only [Nat.add_sub_cancel] at ha hb
    rw [pow_succ]
    omega

/-- the guard of `RepresentToPublicKey` passes on the holder's block when it passes on the
    issuer's block: the secret and the sums of the shares are non-negative, the other messages
    are the same. -/
theorem SharesCombine.any_negOversized {lm : ℕ} {secret : Int} {mUser : List (Int × Int)}
    {msI msH : List Int} (h : SharesCombine lm secret mUser msI msH)
    (hI : msI.any (negOversized lm) = false) : msH.any (negOversized lm) = false := by
  rw [any_negOversized_eq_false_iff] at hI ⊢
  intro m hm
  obtain ⟨j, hj⟩ := List.getElem?_of_mem hm
  rcases Nat.eq_zero_or_pos j with rfl | hpos
  · rw [h.sec] at hj
    obtain rfl := Option.some.inj hj
    have := h.sec_nonneg
    omega
  · by_cases hex : ∃ kv ∈ mUser, kv.1 = (j : Int)
    · obtain ⟨kv, hkv, heq⟩ := hex
      obtain ⟨_, _, h2, _, mi, hmi0, _, _, hH⟩ := h.blind kv hkv
      have : kv.1.toNat = j := by omega
      rw [this, hj] at hH
      obtain rfl := Option.some.inj hH
      omega
    · have := h.other j hpos (fun kv hkv heq => hex ⟨kv, hkv, heq⟩)
      rw [hj] at this
      exact hI m (List.mem_of_getElem? this.symm)

/-- the holder's block is the issuer's block times `R_0^secret · ∏ R_i^{mUser_i}`. -/
theorem repU_shares (lm : ℕ) (bases : List Int) (secret : Int) (mUser : List (Int × Int))
    (msI msH : List Int) (h : SharesCombine lm secret mUser msI msH)
    (hlen : msH.length ≤ bases.length) :
    repU n lm bases msH =
      repU n lm bases msI * (baseU n bases 0 ^ secret * repKV n bases (fun kv => kv.2) mUser) := by
  rw [repU_eq_range lm bases msH hlen, repU_eq_range lm bases msI (h.len ▸ hlen), h.len]
  have key : ∀ j ∈ List.range msH.length, attrExp lm (msH.getD j 0) =
      attrExp lm (msI.getD j 0) + ((if (0 : Int) = (j : Int) then secret else 0) + sumAt mUser j) := by
    intro j _
    rw [List.getD_eq_getElem?_getD, List.getD_eq_getElem?_getD]
    cases j with
    | zero =>
      rw [h.zero, h.sec, Option.getD_some, Option.getD_some, attrExp_small lm secret h.sec_nonneg h.sec_lt,
        attrExp_small lm 0 (le_refl _) (by positivity), sumAt_eq_zero]
      · simp
      · intro kv hm heq
        have := (h.blind kv hm).1
        rw [heq] at this; simp at this
    | succ k =>
      rw [if_neg (by omega), zero_add]
      by_cases hex : ∃ kv ∈ mUser, kv.1 = ((k + 1 : ℕ) : Int)
      · obtain ⟨kv, hm, heq⟩ := hex
        obtain ⟨_, _, u0, u1, mi, i0, i1, hI, hH⟩ := h.blind kv hm
        have hk : kv.1.toNat = k + 1 := by omega
        rw [hk] at hI hH
        rw [hI, hH, Option.getD_some, Option.getD_some, sumAt_of_mem mUser h.nodup kv hm _ heq]
        obtain ⟨a1, a2⟩ := two_shares_lt lm mi kv.2 i0 u0 i1 u1
        rw [attrExp_small lm _ (by omega) a2, attrExp_small lm _ i0 a1]
      · have hne : ∀ kv ∈ mUser, kv.1 ≠ ((k + 1 : ℕ) : Int) := fun kv hm heq => hex ⟨kv, hm, heq⟩
        rw [h.other (k + 1) (by omega) hne, sumAt_eq_zero mUser _ hne, add_zero]
  rw [Alg.rep_congr _ key, Alg.rep_add, Alg.rep_add,
    rep_single (baseN n bases) 0 secret _ List.nodup_range (le_refl _)
      (by
        have : 0 < msH.length := by
          cases hm : msH with
          | nil => have := h.sec; rw [hm] at this; cases this
          | cons _ _ => simp
        simpa using this),
    rep_sumAt (baseN n bases) _ List.nodup_range mUser
      (fun kv hm => by
        obtain ⟨a1, a2, _⟩ := h.blind kv hm
        refine ⟨by omega, ?_⟩
        rw [List.mem_range, ← h.len]; omega)]
  rfl

end algebra

/-! ### the issuer signs the commitment; the holder's signature verifies -/

section sign
variable {n : ℕ}

/-- `userCommitment` with a keyshare contribution `P`: the commitment without it, times `P`. -/
theorem userCommitment_keyshare (pk : PublicKey) (secret vPrime : Int) (mUser : List (Int × Int))
    (p U0 : Int) (h : userCommitment pk secret vPrime mUser none = .ok U0) :
    userCommitment pk secret vPrime mUser (some p) = .ok (U0 * p % pk.n) := by
  unfold userCommitment at h ⊢
  cases h1 : idx "R[0]" pk.r 0 with
  | error e => simp [h1, bind, Except.bind] at h
  | ok r0 =>
  cases h2 : deref "Exp" (goExp pk.s vPrime pk.n) with
  | error e => simp [h1, h2, bind, Except.bind] at h
  | ok sv =>
  cases h3 : deref "Exp" (goExp r0 secret pk.n) with
  | error e => simp [h1, h2, h3, bind, Except.bind] at h
  | ok r0s =>
    simp only [h1, h2, h3, bind, Except.bind] at h ⊢
    split at h
    · cases h
    · next u hu =>
      simp only [pure, Except.pure] at h ⊢
      obtain rfl := Except.ok.inj h
      rfl

/-- the user commitment in the unit group, with or without keyshare contribution. -/
theorem userCommitment_spec_ks (pk : PublicKey) (secret vPrime : Int) (mUser : List (Int × Int))
    (kp : Option Int) (hN : pk.n = n) (hn : 1 < n)
    (hs : IsUnit (pk.s : ZMod n)) (hr : ∀ x ∈ pk.r, IsUnit (x : ZMod n)) (hr0 : pk.r ≠ [])
    (hkeys : ∀ kv ∈ mUser, 0 ≤ kv.1 ∧ kv.1 < pk.r.length)
    (hp : ∀ p, kp = some p → IsUnit (p : ZMod n)) :
    ∃ U, userCommitment pk secret vPrime mUser kp = .ok U ∧ 0 ≤ U ∧ U < n ∧
      (U : ZMod n) = ((zunit n pk.s ^ vPrime * baseU n pk.r 0 ^ secret *
        repKV n pk.r (fun kv => kv.2) mUser * keyshareU n kp : (ZMod n)ˣ) : ZMod n) := by
  obtain ⟨U0, h0, a0, a1, ac⟩ := userCommitment_spec pk secret vPrime mUser hN hn hs hr hr0 hkeys
  cases kp with
  | none => exact ⟨U0, h0, a0, a1, by rw [ac]; simp [keyshareU]⟩
  | some p =>
    refine ⟨U0 * p % pk.n, userCommitment_keyshare pk secret vPrime mUser p U0 h0, ?_, ?_, ?_⟩
    · rw [hN]; exact (emod_range (by omega) _).1
    · rw [hN]; exact (emod_range (by omega) _).2
    · rw [hN, cast_emod, Int.cast_mul, ac, keyshareU,
        Units.val_mul (_ * _ * _) (zunit n p), zunit_val (hp p rfl)]

/-- the group identity behind issuance: the issuer's equation for `(R_I · U, v'')` is the
    holder's equation for `(R_I · R_0^s · ∏R_i^{m_i} · P, v'' + v')`. -/
theorem issuance_algebra {G : Type*} [CommGroup G] {A RI R0s KV K S Z : G} {e v v' : ℤ}
    (h : A ^ e * (RI * (S ^ v' * R0s * KV * K)) * S ^ v = Z) :
    A ^ e * (RI * (R0s * KV) * K) * S ^ (v + v') = Z := by
  rw [zpow_add, ← h]
  ac_rfl

theorem goExp_eq_one_of_zunit (hn : 1 < n) {x order : Int} (hx : IsUnit (x : ZMod n))
    (h : zunit n x ^ order = 1) : goExp x order n = some 1 := by
  obtain ⟨r, hr, r0, r1, rc⟩ := goExp_unit hn hx order
  rw [hr]
  congr 1
  apply eq_of_cast_eq r0 r1 (by omega) (by exact_mod_cast hn)
  rw [rc, h]; simp

/-- **the issuer signs `U` and its block; the holder's signature verifies over the holder's
    block**, and `A` lies in the subgroup (which is what `ProofS` completeness needs). -/
theorem sign_commitment_verifies_aux (isPrime : Nat → Bool) (pk : PublicKey) (order : Int)
    (secret vPrime : Int) (mUser : List (Int × Int)) (kp : Option Int) (U : Int)
    (msI msH : List Int) (v e : Int) (sig : CLSignature)
    (hk : pk.InGroup order)
    (hP : ∀ p, kp = some p → goExp p order pk.n = some 1)
    (hU : userCommitment pk secret vPrime mUser kp = .ok U)
    (hsh : SharesCombine pk.params.Lm secret mUser msI msH)
    (hlen : msH.length ≤ pk.r.length)
    (hint : eInInterval pk.params e = true) (hprime : isPrime e.toNat = true)
    (h : clSignWith pk order U msI v e = some sig) :
    clVerifyWith isPrime pk { a := sig.a, e := sig.e, v := sig.v + vPrime, keyshareP := kp } msH =
        .ok true ∧
      goExp sig.a order pk.n = some 1 := by
  obtain ⟨hn, hz0, hz1, ho, hb⟩ := hk
  obtain ⟨n, hN⟩ : ∃ n : ℕ, pk.n = n := ⟨pk.n.toNat, (Int.toNat_of_nonneg (by omega)).symm⟩
  have hn' : 1 < n := by rw [hN] at hn; exact_mod_cast hn
  have ho0 : 0 < order := by omega
  rw [hN] at hb hP ⊢
  have hs := isUnit_of_goExp_one (by omega : 0 < n) ho0 (hb pk.s (by simp))
  have hz := isUnit_of_goExp_one (by omega : 0 < n) ho0 (hb pk.z (by simp))
  have hr : ∀ b ∈ pk.r, IsUnit (b : ZMod n) := fun b hbr =>
    isUnit_of_goExp_one (by omega : 0 < n) ho0 (hb b (by simp [hbr]))
  have hpu : ∀ p, kp = some p → IsUnit (p : ZMod n) := fun p hp =>
    isUnit_of_goExp_one (by omega : 0 < n) ho0 (hP p hp)
  have hlenH : 0 < msH.length := by
    cases hm : msH with
    | nil => have := hsh.sec; rw [hm] at this; cases this
    | cons _ _ => simp
  have hr0 : pk.r ≠ [] := by
    intro h0; rw [h0, List.length_nil] at hlen; omega
  have hkeys : ∀ kv ∈ mUser, 0 ≤ kv.1 ∧ kv.1 < pk.r.length := by
    intro kv hm
    obtain ⟨a1, a2, _⟩ := hsh.blind kv hm
    rw [hsh.len] at a2
    exact ⟨by omega, by omega⟩
  -- the commitment
  obtain ⟨U', hU', _, _, Uc⟩ := userCommitment_spec_ks pk secret vPrime mUser kp hN hn' hs hr hr0
    hkeys hpu
  rw [hU] at hU'
  obtain rfl := Except.ok.inj hU'
  -- the issuer's signature
  obtain ⟨he, hv, hkp, a0, a1, d, k, hd, hac⟩ :=
    clSignWith_spec pk order U msI v e hN hn' hz hs hr (isUnit_of_cast Uc)
      (by rw [hsh.len]; exact hlen) ho h
  rw [zunit_of_cast Uc] at hac
  have hA := zunit_of_cast hac
  -- orders
  have oS := zunit_pow_order hn' ho0 (hb pk.s (by simp))
  have oZ := zunit_pow_order hn' ho0 (hb pk.z (by simp))
  have oRI := repU_zpow_order pk.params.Lm pk.r msI order (fun b hbr =>
    zunit_pow_order hn' ho0 (hb b (by simp [hbr])))
  have oB : ∀ i : Int, 0 ≤ i → i < pk.r.length → baseU n pk.r i ^ order = 1 := by
    intro i _ hi'
    unfold baseU
    have hi : i.toNat < pk.r.length := by omega
    rw [List.getD_eq_getElem?_getD, List.getElem?_eq_getElem hi, Option.getD_some]
    exact zunit_pow_order hn' ho0 (hb _ (by simp [List.getElem_mem hi]))
  have oB0 : baseU n pk.r 0 ^ order = 1 :=
    oB 0 (le_refl _) (by have := List.length_pos_iff.mpr hr0; exact_mod_cast this)
  have oKV : repKV n pk.r (fun kv => kv.2) mUser ^ order = 1 :=
    Alg.rep_zpow_eq_one _ _ _ _ (fun kv hm => oB kv.1 (hkeys kv hm).1 (hkeys kv hm).2)
  have oK : keyshareU n kp ^ order = 1 := by
    cases kp with
    | none => simp [keyshareU]
    | some p => exact zunit_pow_order hn' ho0 (hP p rfl)
  have oSx : ∀ x : Int, (zunit n pk.s ^ x) ^ order = 1 := fun x => by
    rw [← zpow_mul, mul_comm, zpow_mul, oS, one_zpow]
  set Uu : (ZMod n)ˣ := zunit n pk.s ^ vPrime * baseU n pk.r 0 ^ secret *
    repKV n pk.r (fun kv => kv.2) mUser * keyshareU n kp with hUu
  have oU : Uu ^ order = 1 := by
    rw [hUu, mul_zpow, mul_zpow, mul_zpow, oSx, oKV, oK, ← zpow_mul, mul_comm secret, zpow_mul, oB0,
      one_zpow]
    simp
  have oQ : (zunit n pk.z / (zunit n pk.s ^ v * (repU n pk.params.Lm pk.r msI * Uu))) ^ order = 1 := by
    rw [div_zpow, mul_zpow, mul_zpow, oZ, oRI, oSx, oU]
    simp
  have hA' : zunit n sig.a =
      (zunit n pk.z / (zunit n pk.s ^ v * (repU n pk.params.Lm pk.r msI * Uu))) ^ d := by
    rw [hA, mul_assoc]
  have hsigned := Alg.cl_sign_verifies_of_inverse (ord := order) (k := k) (d := d) rfl oQ hd hA'
  constructor
  · -- verification
    obtain ⟨bb, hb1, hb2⟩ := clVerifyWith_iff isPrime pk
      { a := sig.a, e := sig.e, v := sig.v + vPrime, keyshareP := kp } msH hN hn' hz0
      (by rw [hN] at hz1 ⊢; exact hz1) hz hs hr (isUnit_of_cast hac) hpu hlen
      (by rw [he]; exact hint) (by rw [he]; exact hprime)
    rw [hb1, hb2.mpr]
    refine ⟨hsh.any_negOversized (clSignWith_some_guard h), ?_⟩
    simp only
    rw [he, hv, repU_shares pk.params.Lm pk.r secret mUser msI msH hsh hlen]
    exact issuance_algebra hsigned
  · -- `A` in the subgroup
    apply goExp_eq_one_of_zunit hn' (isUnit_of_cast hac)
    rw [hA', ← zpow_mul, mul_comm d order, zpow_mul, oQ, one_zpow]

end sign

/-! ### the two blocks of an honest run -/

/-- the issuer's share for position `i` according to the `MIssuer` map of the message. -/
def issuerShare (mIssuer : List (Int × Option Int)) (i : Int) : Int :=
  ((mIssuer.lookup i).join).getD 0

/-- the block the issuer signs (`signCommitmentAndAttributes`): `0` for the secret, then the
    attributes with the issuer's share at the nil (random-blind) positions. -/
def issuerMsgs (attributes : List (Option Int)) (mIssuer : List (Int × Option Int)) : List Int :=
  0 :: attributes.mapIdx fun j a => a.getD (issuerShare mIssuer ((j : Int) + 1))

/-- the holder's final block: the secret, then the attributes with the sum of the two shares at
    the nil (random-blind) positions. -/
def holderMsgs (secret : Int) (attributes : List (Option Int)) (mIssuer : List (Int × Option Int))
    (mUser : List (Int × Int)) : List Int :=
  secret :: attributes.mapIdx fun j a =>
    a.getD (issuerShare mIssuer ((j : Int) + 1) + (mUser.lookup ((j : Int) + 1)).getD 0)

theorem lookup_share_of_mem (L : List (Int × Int)) (hnd : (L.map (·.1)).Nodup) (kv : Int × Int)
    (hm : kv ∈ L) : L.lookup kv.1 = some kv.2 := by
  induction L with
  | nil => cases hm
  | cons kv' L ih =>
    rw [List.map_cons, List.nodup_cons] at hnd
    obtain ⟨k', x'⟩ := kv'
    rcases List.mem_cons.mp hm with rfl | hm'
    · simp [List.lookup]
    · have hne : kv.1 ≠ k' := fun heq => hnd.1 (List.mem_map.mpr ⟨kv, hm', heq⟩)
      have : (kv.1 == k') = false := by simpa using hne
      rw [List.lookup, this]
      exact ih hnd.2 hm'

theorem issuerMsgs_length (attributes : List (Option Int)) (mIssuer : List (Int × Option Int)) :
    (issuerMsgs attributes mIssuer).length = attributes.length + 1 := by
  simp [issuerMsgs]

theorem holderMsgs_length (secret : Int) (attributes : List (Option Int))
    (mIssuer : List (Int × Option Int)) (mUser : List (Int × Int)) :
    (holderMsgs secret attributes mIssuer mUser).length = attributes.length + 1 := by
  simp [holderMsgs]

theorem issuerMsgs_succ (attributes : List (Option Int)) (mIssuer : List (Int × Option Int)) (k : ℕ) :
    (issuerMsgs attributes mIssuer)[k + 1]? =
      (attributes[k]?).map fun a => a.getD (issuerShare mIssuer ((k : Int) + 1)) := by
  simp [issuerMsgs, List.getElem?_mapIdx]

theorem holderMsgs_succ (secret : Int) (attributes : List (Option Int))
    (mIssuer : List (Int × Option Int)) (mUser : List (Int × Int)) (k : ℕ) :
    (holderMsgs secret attributes mIssuer mUser)[k + 1]? =
      (attributes[k]?).map fun a =>
        a.getD (issuerShare mIssuer ((k : Int) + 1) + (mUser.lookup ((k : Int) + 1)).getD 0) := by
  simp [holderMsgs, List.getElem?_mapIdx]

/-- **each random-blind attribute is the sum of the two shares.** -/
theorem holderMsgs_blind (secret : Int) (attributes : List (Option Int))
    (mIssuer : List (Int × Option Int)) (mUser : List (Int × Int))
    (hnd : (mUser.map (·.1)).Nodup) (kv : Int × Int) (hm : kv ∈ mUser) (h1 : 1 ≤ kv.1)
    (hnil : attributes[kv.1.toNat - 1]? = some none) (mi : Int)
    (hmi : (mIssuer.lookup kv.1).join = some mi) :
    (holderMsgs secret attributes mIssuer mUser)[kv.1.toNat]? = some (mi + kv.2) := by
  obtain ⟨k, hk⟩ : ∃ k : ℕ, kv.1.toNat = k + 1 := ⟨kv.1.toNat - 1, by omega⟩
  have hk' : (k : Int) + 1 = kv.1 := by omega
  rw [hk, holderMsgs_succ, hk', lookup_share_of_mem mUser hnd kv hm]
  have : kv.1.toNat - 1 = k := by omega
  rw [this] at hnil
  rw [hnil, issuerShare, hmi]
  rfl

/-- the non-blind attributes are kept. -/
theorem holderMsgs_plain (secret : Int) (attributes : List (Option Int))
    (mIssuer : List (Int × Option Int)) (mUser : List (Int × Int)) (k : ℕ) (a : Int)
    (h : attributes[k]? = some (some a)) :
    (holderMsgs secret attributes mIssuer mUser)[k + 1]? = some a := by
  rw [holderMsgs_succ, h]; rfl

/-- the hypotheses on an honest run: `attributes` is nil exactly at the random-blind positions
    (the keys of `mUser`, distinct), and both parties' shares are below `2^(lm-1)`. -/
structure HonestShares (lm : ℕ) (attributes : List (Option Int)) (mIssuer : List (Int × Option Int))
    (mUser : List (Int × Int)) : Prop where
  nodup : (mUser.map (·.1)).Nodup
  blind : ∀ kv ∈ mUser, 1 ≤ kv.1 ∧ kv.1 ≤ attributes.length ∧
    attributes[kv.1.toNat - 1]? = some none ∧ 0 ≤ kv.2 ∧ kv.2 < 2 ^ (lm - 1) ∧
    ∃ mi, (mIssuer.lookup kv.1).join = some mi ∧ 0 ≤ mi ∧ mi < 2 ^ (lm - 1)
  nil_blind : ∀ j : ℕ, attributes[j]? = some none → ∃ kv ∈ mUser, kv.1 = (j : Int) + 1

theorem sharesCombine_msgs (lm : ℕ) (secret : Int) (attributes : List (Option Int))
    (mIssuer : List (Int × Option Int)) (mUser : List (Int × Int))
    (hs0 : 0 ≤ secret) (hs1 : secret < 2 ^ lm) (hh : HonestShares lm attributes mIssuer mUser) :
    SharesCombine lm secret mUser (issuerMsgs attributes mIssuer)
      (holderMsgs secret attributes mIssuer mUser) := by
  refine ⟨by rw [issuerMsgs_length, holderMsgs_length], rfl, rfl, hs0, hs1, hh.nodup, ?_, ?_⟩
  · intro kv hm
    obtain ⟨a1, a2, a3, a4, a5, mi, b1, b2, b3⟩ := hh.blind kv hm
    refine ⟨a1, by rw [issuerMsgs_length]; omega, a4, a5, mi, b2, b3, ?_,
      holderMsgs_blind secret attributes mIssuer mUser hh.nodup kv hm a1 a3 mi b1⟩
    obtain ⟨k, hk⟩ : ∃ k : ℕ, kv.1.toNat = k + 1 := ⟨kv.1.toNat - 1, by omega⟩
    have hk' : (k : Int) + 1 = kv.1 := by omega
    have : kv.1.toNat - 1 = k := by omega
    rw [this] at a3
    rw [hk, issuerMsgs_succ, hk', a3, issuerShare, b1]
    rfl
  · intro j hj hne
    obtain ⟨k, rfl⟩ : ∃ k, j = k + 1 := ⟨j - 1, by omega⟩
    rw [issuerMsgs_succ, holderMsgs_succ]
    cases hk : attributes[k]? with
    | none => rfl
    | some o =>
      cases o with
      | some a => rfl
      | none =>
        obtain ⟨kv, hm, heq⟩ := hh.nil_blind k hk
        exact absurd (by rw [heq]; push_cast; ring) (hne kv hm)

/-- the block the issuer signs passes the guard of `RepresentToPublicKey` when none of the supplied
    attributes is negative and longer than `lm` bits: the first message is `0` and the issuer's
    shares at the random-blind positions are non-negative. -/
theorem issuerMsgs_guard (lm : ℕ) (attributes : List (Option Int))
    (mIssuer : List (Int × Option Int)) (mUser : List (Int × Int))
    (hh : HonestShares lm attributes mIssuer mUser)
    (hattr : ∀ a, some a ∈ attributes → ¬ (a < 0 ∧ bitLen a > lm)) :
    ∀ m ∈ issuerMsgs attributes mIssuer, ¬ (m < 0 ∧ bitLen m > lm) := by
  intro m hm
  obtain ⟨j, hj⟩ := List.getElem?_of_mem hm
  cases j with
  | zero =>
    have h0 : (issuerMsgs attributes mIssuer)[0]? = some 0 := rfl
    rw [h0] at hj
    obtain rfl := Option.some.inj hj
    omega
  | succ k =>
    rw [issuerMsgs_succ] at hj
    cases hk : attributes[k]? with
    | none => rw [hk] at hj; cases hj
    | some o =>
      rw [hk] at hj
      cases o with
      | some a =>
        obtain rfl : a = m := Option.some.inj hj
        exact hattr a (List.mem_of_getElem? hk)
      | none =>
        obtain ⟨kv, hkv, heq⟩ := hh.nil_blind k hk
        obtain ⟨_, _, _, _, _, mi, b1, b2, _⟩ := hh.blind kv hkv
        have hm' : issuerShare mIssuer ((k : Int) + 1) = m := Option.some.inj hj
        rw [← heq, issuerShare, b1] at hm'
        have : mi = m := hm'
        omega

/-- **the honest `ConstructCredential`.** -/
theorem construct_honest_aux (pk : PublicKey) (order : Int) (b : CredBuilder)
    (attributes : List (Option Int)) (mIssuer : List (Int × Option Int)) (v e eCommit : Int)
    (sig : CLSignature) (ps : ProofS)
    (hk : pk.InGroup order)
    (hP : ∀ p, b.keyshareP = some p → goExp p order pk.n = some 1)
    (hU : userCommitment pk b.secret b.vPrime b.mUser b.keyshareP = .ok b.u)
    (hs0 : 0 ≤ b.secret) (hs1 : b.secret < 2 ^ pk.params.Lm)
    (hh : HonestShares pk.params.Lm attributes mIssuer b.mUser)
    (hlen : attributes.length + 1 ≤ pk.r.length)
    (hint : eInInterval pk.params e = true) (hprime : probablyPrime e.toNat = true)
    (hsig : clSignWith pk order b.u (issuerMsgs attributes mIssuer) v e = some sig)
    (hps : proveSignature pk order sig b.context b.nonce2 eCommit = some ps) :
    b.construct pk (some ps) (some sig) mIssuer attributes none =
        .ok (.credential { a := sig.a, e := sig.e, v := sig.v + b.vPrime, keyshareP := b.keyshareP }
          (holderMsgs b.secret attributes mIssuer b.mUser)) ∧
      clVerify pk { a := sig.a, e := sig.e, v := sig.v + b.vPrime, keyshareP := b.keyshareP }
          (holderMsgs b.secret attributes mIssuer b.mUser) = .ok true := by
  have hsh := sharesCombine_msgs pk.params.Lm b.secret attributes mIssuer b.mUser hs0 hs1 hh
  obtain ⟨hver, hAord⟩ := sign_commitment_verifies_aux probablyPrime pk order b.secret b.vPrime
    b.mUser b.keyshareP b.u _ _ v e sig hk hP hU hsh (by rw [holderMsgs_length]; exact hlen) hint
    hprime hsig
  refine ⟨?_, hver⟩
  -- ProofS
  obtain ⟨n, hN⟩ : ∃ n : ℕ, pk.n = n :=
    ⟨pk.n.toNat, (Int.toNat_of_nonneg (by have := hk.n_gt; omega)).symm⟩
  have hn' : 1 < n := by have := hk.n_gt; rw [hN] at this; exact_mod_cast this
  have hpsv := proofS_complete_aux pk order sig b.context b.nonce2 eCommit ps hN hn' hk.order_gt
    hAord hps
  -- the loop
  obtain ⟨ms, hb⟩ := blindLoop_succeeds mIssuer b.mUser (some b.secret :: attributes) hh.nodup
    (by
      intro kv hm
      obtain ⟨a1, a2, a3, _, _, mi, b1, _⟩ := hh.blind kv hm
      refine ⟨a1, by simp only [List.length_cons]; push_cast; omega, ?_, by rw [b1]; rfl⟩
      obtain ⟨k, hk'⟩ : ∃ k : ℕ, kv.1.toNat = k + 1 := ⟨kv.1.toNat - 1, by omega⟩
      have : kv.1.toNat - 1 = k := by omega
      rw [this] at a3
      rw [hk', List.getElem?_cons_succ, a3]; rfl)
  obtain ⟨hl, _, hkv, hoth⟩ := blindLoop_ok mIssuer b.mUser _ ms rfl hb
  have hms : ms = (holderMsgs b.secret attributes mIssuer b.mUser).map some := by
    apply List.ext_getElem?
    intro j
    rw [List.getElem?_map]
    by_cases hex : ∃ kv ∈ b.mUser, kv.1 = (j : Int)
    · obtain ⟨kv, hm, heq⟩ := hex
      obtain ⟨c1, _, _, mi, c4, c5⟩ := hkv kv hm
      obtain ⟨_, _, a3, _⟩ := hh.blind kv hm
      have hj : kv.1.toNat = j := by omega
      have := holderMsgs_blind b.secret attributes mIssuer b.mUser hh.nodup kv hm c1 a3 mi c4
      rw [hj] at this c5
      rw [c5, this]; rfl
    · have hne : ∀ kv ∈ b.mUser, kv.1 ≠ (j : Int) := fun kv hm heq => hex ⟨kv, hm, heq⟩
      rw [hoth j hne]
      cases j with
      | zero => rfl
      | succ k =>
        rw [List.getElem?_cons_succ, holderMsgs_succ]
        cases hk' : attributes[k]? with
        | none => rfl
        | some o =>
          cases o with
          | some a => rfl
          | none =>
            obtain ⟨kv, hm, heq⟩ := hh.nil_blind k hk'
            exact absurd (by rw [heq]; push_cast; ring) (hne kv hm)
  have hm : ms.mapM (deref "attribute") =
      (.ok (holderMsgs b.secret attributes mIssuer b.mUser) : GoM (List Int)) := by
    rw [mapM_deref_ok "attribute" ms (by rw [hms]; simp), hms, List.map_map]
    simp [Function.comp_def]
  rw [construct_of_blindLoop_ok pk b ps sig mIssuer attributes none ms hpsv hb, constructTail_none,
    hm]
  have hver' : clVerify pk { a := sig.a, e := sig.e, v := sig.v + b.vPrime, keyshareP := b.keyshareP }
      (holderMsgs b.secret attributes mIssuer b.mUser) = .ok true := hver
  simp only [bind, Except.bind]
  rw [hver']
  rfl

/-- the issuer's signing computation succeeds on the user commitment (for `e` invertible modulo
    `order`), on a block without a negative message longer than `Lm` (`RepresentToPublicKey`
    refuses such a block: nothing is signed). -/
theorem clSignWith_commitment_isSome (pk : PublicKey) (order : Int) (secret vPrime : Int)
    (mUser : List (Int × Int)) (kp : Option Int) (U : Int) (ms : List Int) (v e : Int)
    (hk : pk.InGroup order)
    (hP : ∀ p, kp = some p → goExp p order pk.n = some 1)
    (hU : userCommitment pk secret vPrime mUser kp = .ok U)
    (hkeys : ∀ kv ∈ mUser, 0 ≤ kv.1 ∧ kv.1 < pk.r.length)
    (hlen : ms.length ≤ pk.r.length)
    (hneg : ∀ m ∈ ms, ¬ (m < 0 ∧ bitLen m > pk.params.Lm)) (he : Int.gcd e order = 1) :
    ∃ sig, clSignWith pk order U ms v e = some sig := by
  obtain ⟨hn, hz0, hz1, ho, hb⟩ := hk
  obtain ⟨n, hN⟩ : ∃ n : ℕ, pk.n = n := ⟨pk.n.toNat, (Int.toNat_of_nonneg (by omega)).symm⟩
  have hn' : 1 < n := by rw [hN] at hn; exact_mod_cast hn
  have ho0 : 0 < order := by omega
  rw [hN] at hb hP
  have hs := isUnit_of_goExp_one (by omega : 0 < n) ho0 (hb pk.s (by simp))
  have hz := isUnit_of_goExp_one (by omega : 0 < n) ho0 (hb pk.z (by simp))
  have hr : ∀ b ∈ pk.r, IsUnit (b : ZMod n) := fun b hbr =>
    isUnit_of_goExp_one (by omega : 0 < n) ho0 (hb b (by simp [hbr]))
  have hpu : ∀ p, kp = some p → IsUnit (p : ZMod n) := fun p hp =>
    isUnit_of_goExp_one (by omega : 0 < n) ho0 (hP p hp)
  have hr0 : pk.r ≠ [] := by
    intro h0
    unfold userCommitment at hU
    rw [h0] at hU
    cases kp <;> cases hU
  obtain ⟨U', hU', _, _, Uc⟩ := userCommitment_spec_ks pk secret vPrime mUser kp hN hn' hs hr hr0
    hkeys hpu
  rw [hU] at hU'
  obtain rfl := Except.ok.inj hU'
  exact clSignWith_isSome pk order U ms v e hN hn' hz hs hr (isUnit_of_cast Uc) hlen
    (any_negOversized_eq_false_iff.mpr hneg) ho0 he

/-- a nil attribute that is not a random-blind index is dereferenced after the loop: the Go
    code panics (when nothing made it return earlier). -/
theorem construct_panics_aux (pk : PublicKey) (b : CredBuilder) (ps : ProofS) (sg : CLSignature)
    (mIssuer : List (Int × Option Int)) (attributes : List (Option Int)) (ms : List (Option Int))
    (hps : ps.verify pk sg b.context b.nonce2 = .ok true)
    (hb : blindLoop mIssuer b.mUser (some b.secret :: attributes) = .ok ms)
    (j : ℕ) (hj : attributes[j]? = some none) (hne : ∀ kv ∈ b.mUser, kv.1 ≠ (j : Int) + 1) :
    b.construct pk (some ps) (some sg) mIssuer attributes none = .error (.nilDeref "attribute") := by
  obtain ⟨_, _, _, hoth⟩ := blindLoop_ok mIssuer b.mUser _ ms rfl hb
  have := hoth (j + 1) (fun kv hm => by push_cast; exact hne kv hm)
  rw [List.getElem?_cons_succ, hj] at this
  rw [construct_of_blindLoop_ok pk b ps sg mIssuer attributes none ms hps hb, constructTail_none,
    mapM_deref_error "attribute" ms (List.mem_of_getElem? this)]
  rfl

/-- non-vacuity of `HonestShares` on the toy key (`Lm = 8`): attributes `[3, ⊥]`, issuer share
    `6` and user share `4` for position `2`. -/
theorem toy_honestShares : HonestShares toyKey.params.Lm [some 3, none] [(2, some 6)] [(2, 4)] := by
  refine ⟨by decide, ?_, ?_⟩
  · intro kv hm
    obtain rfl : kv = (2, 4) := by simpa using hm
    exact ⟨by decide, by decide, by decide, by decide, by decide, 6, by decide, by decide, by decide⟩
  · intro j hj
    match j, hj with
    | 0, hj => simp at hj
    | 1, _ => exact ⟨(2, 4), by simp, by decide⟩
    | (k + 2), hj => simp at hj

end Gabi
