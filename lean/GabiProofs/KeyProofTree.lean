/-
  GabiProofs.KeyProofTree — helper definitions and lemmas about the structure (wiring) of the
  composed key-correctness proof (GabiModel.KeyProofTree).

  1. The *ideal reading* of a structure tree: every named commitment `X` stands for an integer
     `v X` (the committed value), the generators are read as `v "g" = 1`, `v "h" = 0` (i.e. we look
     at the exponent of `g`; hiders do not matter), and a representation relation
         ∏ Lhs.base^power = ∏ Rhs.base^(power·secret)
     is read as  Σ power·v(base) = Σ power·v(secret)·v(base)  over ℤ.  Sub-proofs that the code
     AND-composes (one common challenge) are conjunctions, the two that it OR-composes (challenges
     XOR-split: the two branches of an exponentiation step, `aPlus1ResRep`/`aMin1ResRep`) are
     disjunctions.  That the relations hold over ℤ and not only modulo the group order is what the
     range proofs and the size of the group are for; this is NOT proved here (it is the reading
     under which the wiring is judged, see doc.go of package keyproof).
  2. Soundness of the wiring under the ideal reading: multiplication, exponentiation step,
     exponentiation, primality evidence, squares, whole key statement.
  3. The flat list of top-level claims, counting lemmas, name hygiene.
-/
import GabiModel.KeyProofTree
import Mathlib.Data.Int.ModEq
import Mathlib.Tactic.Ring
import Mathlib.Tactic.Linarith
import Mathlib.Data.List.Nodup
import Mathlib.Tactic.IntervalCases
namespace Gabi.KeyProof
open Gabi

/-! ## 1. The ideal reading -/

/-- a representation relation read in the exponent of `g` over ℤ. -/
def ReprStructure.holds (v : String → Int) (r : ReprStructure) : Prop :=
  (r.lhs.map fun l => l.power * v l.base).sum = (r.rhs.map fun x => x.power * v x.secret * v x.base).sum

/-- the valuation reads the generators as `g ↦ 1`, `h ↦ 0`. -/
structure Ideal (v : String → Int) : Prop where
  g : v "g" = 1
  h : v "h" = 0

def PedStructure.holds (v : String → Int) (s : PedStructure) : Prop := s.repr.holds v

/-- only the relation of a range proof is read; its bound is not part of the ideal reading. -/
def RangeStructure.holds (v : String → Int) (s : RangeStructure) : Prop := s.repr.holds v

def MulStructure.holds (v : String → Int) (s : MulStructure) : Prop :=
  s.modMultPedersen.holds v ∧ s.modMultRange.holds v ∧ s.multRepr.holds v

def StepAStructure.holds (v : String → Int) (s : StepAStructure) : Prop :=
  s.bitRep.holds v ∧ s.equalityRep.holds v

def StepBStructure.holds (v : String → Int) (s : StepBStructure) : Prop :=
  s.bitRep.holds v ∧ s.mul.holds v ∧ s.prePostMul.holds v

/-- the OR of the two branches (expstep.go: `Achallenge xor Bchallenge = challenge`). -/
def StepStructure.holds (v : String → Int) (s : StepStructure) : Prop :=
  s.stepa.holds v ∨ s.stepb.holds v

def ExpStructure.holds (v : String → Int) (s : ExpStructure) : Prop :=
  (∀ p ∈ s.expBits, p.holds v) ∧ s.expBitEq.holds v ∧ (∀ p ∈ s.basePows, p.holds v) ∧
  (∀ r ∈ s.basePowRange, r.holds v) ∧ (∀ m ∈ s.basePowRels, m.holds v) ∧
  s.start.holds v ∧ s.startRep.holds v ∧ (∀ p ∈ s.interRess, p.holds v) ∧
  (∀ r ∈ s.interResRange, r.holds v) ∧ (∀ st ∈ s.interSteps, st.holds v)

/-- `aPlus1ResRep` and `aMin1ResRep` are OR-composed (primeproof.go: `APlus1Challenge xor
    AMin1Challenge = challenge`), everything else is AND-composed. -/
def PrimeStructure.holds (v : String → Int) (s : PrimeStructure) : Prop :=
  s.halfP.holds v ∧ s.halfPRep.holds v ∧ s.prea.holds v ∧ s.preaRange.holds v ∧ s.a.holds v ∧
  s.aRange.holds v ∧ s.aneg.holds v ∧ s.anegRange.holds v ∧ s.aRes.holds v ∧ s.anegRes.holds v ∧
  (s.aPlus1ResRep.holds v ∨ s.aMin1ResRep.holds v) ∧ s.anegResRep.holds v ∧
  s.aExp.holds v ∧ s.anegExp.holds v

def IsSquareStructure.holds (v : String → Int) (s : IsSquareStructure) : Prop :=
  s.nPedersen.holds v ∧ (∀ p ∈ s.squaresPedersen, p.holds v) ∧ s.nRep.holds v ∧
  (∀ r ∈ s.squaresRep, r.holds v) ∧ (∀ p ∈ s.rootsRep, p.holds v) ∧
  (∀ r ∈ s.rootsRange, r.holds v) ∧ (∀ m ∈ s.rootsValid, m.holds v)

def ValidKeyStructure.holds (v : String → Int) (s : ValidKeyStructure) : Prop :=
  s.p.holds v ∧ s.q.holds v ∧ s.pprime.holds v ∧ s.qprime.holds v ∧
  s.pPprimeRel.holds v ∧ s.qQprimeRel.holds v ∧ s.pQNRel.holds v ∧
  s.pprimeIsPrime.holds v ∧ s.qprimeIsPrime.holds v ∧ s.basesValid.holds v

/-! ## 2. Soundness of the wiring under the ideal reading -/

/-- a Pedersen structure states nothing about the value (its relation is the definition of the
    commitment). -/
theorem ped_holds {v : String → Int} (hv : Ideal v) (name : String) : (pedStructure name).holds v := by
  simp [pedStructure, PedStructure.holds, ReprStructure.holds, hv.g, hv.h]

theorem pedRange_holds {v : String → Int} (hv : Ideal v) (name : String) (l1 l2 : Nat) :
    (pedRangeStructure name l1 l2).holds v := by
  simp [pedRangeStructure, RangeStructure.holds, ReprStructure.holds, hv.g, hv.h]

/-- the multiplication proof over (m1, m2, mod, result) states `result ≡ m1·m2 (mod mod)`. -/
theorem mul_sound {v : String → Int} (hv : Ideal v) (m1 m2 md result : String) (l : Nat)
    (h : (mulStructure m1 m2 md result l).holds v) :
    v result ≡ v m1 * v m2 [ZMOD v md] := by
  obtain ⟨-, -, h⟩ := h
  simp [mulStructure, ReprStructure.holds, hv.h] at h
  rw [Int.modEq_iff_dvd]
  exact ⟨v (joinU [joinU [m1, m2, md, result, "mul"], "mod"]), by linarith⟩

theorem stepA_sound {v : String → Int} (hv : Ideal v) (bit pre post : String)
    (h : (stepAStructure bit pre post).holds v) : v bit = 0 ∧ v post = v pre := by
  obtain ⟨h1, h2⟩ := h
  simp [stepAStructure, ReprStructure.holds, hv.h] at h1 h2
  exact ⟨h1, by linarith⟩

theorem stepB_sound {v : String → Int} (hv : Ideal v) (bit pre post mul md : String) (l : Nat)
    (h : (stepBStructure bit pre post mul md l).holds v) :
    v bit = 1 ∧ v post ≡ v mul * v pre [ZMOD v md] := by
  obtain ⟨h1, -, h3⟩ := h
  simp [stepBStructure, ReprStructure.holds, hv.h, hv.g] at h1
  exact ⟨by linarith, mul_sound hv _ _ _ _ _ h3⟩

/-- one exponentiation step: `bit = 0 ∧ post = pre` or `bit = 1 ∧ post ≡ mul·pre (mod mod)`. -/
theorem step_sound {v : String → Int} (hv : Ideal v) (bit pre post mul md : String) (l : Nat)
    (h : (stepStructure bit pre post mul md l).holds v) :
    (v bit = 0 ∧ v post = v pre) ∨ (v bit = 1 ∧ v post ≡ v mul * v pre [ZMOD v md]) := by
  rcases h with h | h
  · exact Or.inl (stepA_sound hv _ _ _ h)
  · exact Or.inr (stepB_sound hv _ _ _ _ _ _ h)

/-- the number with the binary digits `b 0, b 1, …, b (k-1)` (least significant first). -/
def bitsNat (b : Nat → Int) : Nat → Nat
  | 0 => 0
  | k + 1 => bitsNat b k + 2 ^ k * (b k).toNat

theorem bitsNat_lt (b : Nat → Int) (k : Nat) (hb : ∀ i, i < k → b i = 0 ∨ b i = 1) : bitsNat b k < 2 ^ k := by
  induction k with
  | zero => simp [bitsNat]
  | succ k ih =>
    have := ih (fun i hi => hb i (by omega))
    have hk : (b k).toNat ≤ 1 := by rcases hb k (by omega) with h | h <;> simp [h]
    have : 2 ^ k * (b k).toNat ≤ 2 ^ k := by nlinarith
    simp only [bitsNat, pow_succ]
    omega

theorem sum_bits_eq (b : Nat → Int) (k : Nat) (hb : ∀ i, i < k → b i = 0 ∨ b i = 1) :
    ((List.range k).map fun i => (2 : Int) ^ i * b i).sum = (bitsNat b k : Int) := by
  induction k with
  | zero => simp [bitsNat]
  | succ k ih =>
    rw [List.range_succ, List.map_append, List.sum_append, ih (fun i hi => hb i (by omega))]
    have hk : ((b k).toNat : Int) = b k := by rcases hb k (by omega) with h | h <;> simp [h]
    simp [bitsNat, hk]

/-- the arithmetic of square-and-multiply: with `B i ≡ base^(2^i)` built by squaring and `P i` the
    running product after bit `i`, `P k ≡ base^(b_0 + 2·b_1 + … + 2^k·b_k)`. -/
theorem exp_chain {m base : Int} {B b P : Nat → Int} {l : Nat}
    (hB0 : B 0 ≡ base [ZMOD m])
    (hBs : ∀ i, 0 < i → i < l → B i ≡ B (i - 1) * B (i - 1) [ZMOD m])
    (h0 : (b 0 = 0 ∧ P 0 = 1) ∨ (b 0 = 1 ∧ P 0 ≡ B 0 * 1 [ZMOD m]))
    (hs : ∀ i, 0 < i → i < l → (b i = 0 ∧ P i = P (i - 1)) ∨ (b i = 1 ∧ P i ≡ B i * P (i - 1) [ZMOD m])) :
    ∀ k, k < l → B k ≡ base ^ (2 ^ k) [ZMOD m] ∧ P k ≡ base ^ bitsNat b (k + 1) [ZMOD m] ∧
      (b k = 0 ∨ b k = 1) := by
  intro k
  induction k with
  | zero =>
    intro _
    refine ⟨by simpa using hB0, ?_, ?_⟩
    · rcases h0 with ⟨hb, hp⟩ | ⟨hb, hp⟩
      · simp [bitsNat, hb, hp]
      · simp only [bitsNat, hb]
        simpa using hp.trans (by simpa using hB0)
    · rcases h0 with ⟨hb, -⟩ | ⟨hb, -⟩ <;> simp [hb]
  | succ k ih =>
    intro hk
    obtain ⟨ihB, ihP, -⟩ := ih (by omega)
    have hB : B (k + 1) ≡ base ^ (2 ^ (k + 1)) [ZMOD m] := by
      have := hBs (k + 1) (by omega) hk
      simp only [Nat.add_sub_cancel] at this
      refine this.trans ?_
      have := ihB.mul ihB
      rw [← pow_add] at this
      rwa [pow_succ, Nat.mul_two]
    refine ⟨hB, ?_, ?_⟩
    · rcases hs (k + 1) (by omega) hk with ⟨hb, hp⟩ | ⟨hb, hp⟩
      · simp only [Nat.add_sub_cancel] at hp
        rw [hp]
        show P k ≡ base ^ (bitsNat b (k + 1) + 2 ^ (k + 1) * (b (k + 1)).toNat) [ZMOD m]
        simpa [hb] using ihP
      · simp only [Nat.add_sub_cancel] at hp
        refine hp.trans ?_
        show B (k + 1) * P k ≡ base ^ (bitsNat b (k + 1) + 2 ^ (k + 1) * (b (k + 1)).toNat) [ZMOD m]
        have := hB.mul ihP
        rw [← pow_add] at this
        simpa [hb, Nat.add_comm] using this
    · rcases hs (k + 1) (by omega) hk with ⟨hb, -⟩ | ⟨hb, -⟩ <;> simp [hb]

/-- **the exponentiation proof** over (base, exponent, mod, result) with at least two bits states
    `0 ≤ exponent < 2^bitlen` and `result ≡ base^exponent (mod mod)`. -/
theorem exp_sound {v : String → Int} (hv : Ideal v) (base exponent md result : String) (l : Nat) (hl : 2 ≤ l)
    (h : (expStructure base exponent md result l).holds v) :
    0 ≤ v exponent ∧ v exponent < 2 ^ l ∧ v result ≡ v base ^ (v exponent).toNat [ZMOD v md] := by
  obtain ⟨-, hEq, -, -, hRels, -, hStart, -, -, hSteps⟩ := h
  set my := expName base exponent md result with hmy
  -- the inner values
  let B : Nat → Int := fun i => v (expBaseName my i)
  let b : Nat → Int := fun i => v (expBitName my i)
  let P : Nat → Int := fun i => if i = l - 1 then v result else v (expInterName my i)
  have hstart : v (expStartName my) = 1 := by
    simp [expStructure, ReprStructure.holds, hv.h, hv.g, ← hmy] at hStart
    linarith
  have hrel : ∀ i, i < l → (expBasePowRel my base md l i).holds v := fun i hi =>
    hRels _ (by simp only [expStructure, List.mem_map, List.mem_range]; exact ⟨i, hi, rfl⟩)
  have hstep : ∀ i, i < l → (expInterStep my md result l i).holds v := fun i hi =>
    hSteps _ (by simp only [expStructure, List.mem_map, List.mem_range]; exact ⟨i, hi, rfl⟩)
  have hB0 : B 0 ≡ v base [ZMOD v md] := by
    have := mul_sound hv _ _ _ _ _ (by simpa [expBasePowRel] using hrel 0 (by omega))
    simpa [hstart] using this
  have hBs : ∀ i, 0 < i → i < l → B i ≡ B (i - 1) * B (i - 1) [ZMOD v md] := by
    intro i hi0 hil
    have h := hrel i hil
    rw [expBasePowRel, if_neg (by omega)] at h
    exact mul_sound hv _ _ _ _ _ h
  have h0 : (b 0 = 0 ∧ P 0 = 1) ∨ (b 0 = 1 ∧ P 0 ≡ B 0 * 1 [ZMOD v md]) := by
    have h := hstep 0 (by omega)
    rw [expInterStep, if_pos rfl] at h
    have hP0 : P 0 = v (expInterName my 0) := by simp only [P]; rw [if_neg (by omega)]
    rcases step_sound hv _ _ _ _ _ _ h with ⟨hb, hp⟩ | ⟨hb, hp⟩
    · exact Or.inl ⟨hb, by rw [hP0, hp, hstart]⟩
    · exact Or.inr ⟨hb, by rw [hP0]; simpa [hstart] using hp⟩
  have hs : ∀ i, 0 < i → i < l → (b i = 0 ∧ P i = P (i - 1)) ∨ (b i = 1 ∧ P i ≡ B i * P (i - 1) [ZMOD v md]) := by
    intro i hi0 hil
    have h := hstep i hil
    have hPpre : P (i - 1) = v (expInterName my (i - 1)) := by simp only [P]; rw [if_neg (by omega)]
    rw [expInterStep, if_neg (by omega)] at h
    by_cases hlast : i = l - 1
    · rw [if_pos hlast] at h
      have hPi : P i = v result := by simp only [P]; rw [if_pos hlast]
      rcases step_sound hv _ _ _ _ _ _ h with ⟨hb, hp⟩ | ⟨hb, hp⟩
      · exact Or.inl ⟨hb, by rw [hPi, hPpre, hp]⟩
      · exact Or.inr ⟨hb, by rw [hPi, hPpre]; exact hp⟩
    · rw [if_neg hlast] at h
      have hPi : P i = v (expInterName my i) := by simp only [P]; rw [if_neg hlast]
      rcases step_sound hv _ _ _ _ _ _ h with ⟨hb, hp⟩ | ⟨hb, hp⟩
      · exact Or.inl ⟨hb, by rw [hPi, hPpre, hp]⟩
      · exact Or.inr ⟨hb, by rw [hPi, hPpre]; exact hp⟩
  have hall := exp_chain hB0 hBs h0 hs
  have hbits : ∀ i, i < l → b i = 0 ∨ b i = 1 := fun i hi => (hall i hi).2.2
  -- the exponent is the number with these bits
  have hexp : v exponent = (bitsNat b l : Int) := by
    simp only [expStructure, ReprStructure.holds, ← hmy, List.map_cons, List.sum_cons, List.map_map,
      List.map_nil, List.sum_nil, hv.h] at hEq
    have hsum := sum_bits_eq b l hbits
    have : ((List.range l).map ((fun l => l.power * v l.base) ∘ fun i => (⟨expBitName my i, (2 : Int) ^ i⟩ : LhsContribution))).sum
        = ((List.range l).map fun i => (2 : Int) ^ i * b i).sum := rfl
    rw [this, hsum] at hEq
    linarith
  have hlt := bitsNat_lt b l hbits
  refine ⟨by rw [hexp]; positivity, by rw [hexp]; exact_mod_cast hlt, ?_⟩
  have hres := (hall (l - 1) (by omega)).2.1
  have hPl : P (l - 1) = v result := by simp [P]
  rw [hPl, Nat.sub_add_cancel (by omega)] at hres
  rw [hexp]
  simpa using hres

/-- **Euler-criterion evidence** that the prime proof gives for the value `x` of its prime name:
    `x = 2h+1` with `0 ≤ h < 2^l`, a value `a` with `a^h ≡ ±1 (mod x)` and a value `aneg` with
    `aneg^h ≡ −1 (mod x)`.  (That `a` is unpredictable — the relation `agenproof` to the hash of
    the `prea` commitment — is built on the fly in primeproof.go and is not part of the stored
    structure.) -/
def EulerEvidence (x : Int) (l : Nat) : Prop :=
  ∃ h a aneg : Int, x = 2 * h + 1 ∧ 0 ≤ h ∧ h < 2 ^ l ∧
    (a ^ h.toNat ≡ 1 [ZMOD x] ∨ a ^ h.toNat ≡ -1 [ZMOD x]) ∧ aneg ^ h.toNat ≡ -1 [ZMOD x]

/-- **the prime proof** over `name` states Euler-criterion evidence for the value of `name`,
    and nothing about any other name. -/
theorem prime_sound {v : String → Int} (hv : Ideal v) (name : String) (l : Nat) (hl : 2 ≤ l)
    (h : (primeStructure name l).holds v) : EulerEvidence (v name) l := by
  obtain ⟨-, hHalf, -, -, -, -, -, -, -, -, hOr, hNeg, hA, hAneg⟩ := h
  set my := joinU [name, "primeproof"] with hmy
  have hhalf : v name = 2 * v (joinU [my, "halfp"]) + 1 := by
    simp [primeStructure, ReprStructure.holds, hv.h, hv.g, ← hmy] at hHalf
    linarith
  obtain ⟨he0, helt, hares⟩ := exp_sound hv _ _ _ _ l hl hA
  obtain ⟨-, -, hanegres⟩ := exp_sound hv _ _ _ _ l hl hAneg
  have hneg : v (joinU [my, "anegres"]) = -1 := by
    simp [primeStructure, ReprStructure.holds, hv.h, hv.g, ← hmy] at hNeg
    linarith
  have hor : v (joinU [my, "ares"]) = 1 ∨ v (joinU [my, "ares"]) = -1 := by
    rcases hOr with h | h
    · left
      simp [primeStructure, ReprStructure.holds, hv.h, hv.g, ← hmy] at h
      linarith
    · right
      simp [primeStructure, ReprStructure.holds, hv.h, hv.g, ← hmy] at h
      linarith
  refine ⟨v (joinU [my, "halfp"]), v (joinU [my, "a"]), v (joinU [my, "aneg"]), hhalf, he0, helt, ?_, ?_⟩
  · rcases hor with h | h
    · exact Or.inl (by rw [← h]; exact hares.symm)
    · exact Or.inr (by rw [← h]; exact hares.symm)
  · rw [← hneg]; exact hanegres.symm

/-- `9` has no Euler-criterion evidence: no fourth power is `−1` modulo 9. -/
theorem no_evidence_for_nine (l : Nat) : ¬ EulerEvidence 9 l := by
  rintro ⟨h, a, aneg, h9, -, -, -, hneg⟩
  have hh : h = 4 := by omega
  subst hh
  have h1 : aneg ^ 4 % 9 = 8 := hneg
  have h2 : aneg ^ 4 % 9 = (aneg % 9) ^ 4 % 9 := ((Int.mod_modEq aneg 9).pow 4).symm
  rw [h2] at h1
  have hlo := Int.emod_nonneg aneg (by norm_num : (9 : Int) ≠ 0)
  have hhi := Int.emod_lt_of_pos aneg (by norm_num : (0 : Int) < 9)
  generalize aneg % 9 = r at h1 hlo hhi
  interval_cases r <;> simp at h1

/-- **the bases-valid proof** states that every supplied base is a square modulo `n`. -/
theorem isSquare_sound {v : String → Int} (hv : Ideal v) (n : Int) (squares : List Int)
    (h : (isSquareStructure n squares).holds v) :
    ∀ i (hi : i < squares.length), ∃ r : Int, r * r ≡ squares[i] [ZMOD n] := by
  obtain ⟨-, -, hN, hSq, -, -, hValid⟩ := h
  intro i hi
  have hn : v "N" = n := by
    simp [isSquareStructure, ReprStructure.holds, hv.h, hv.g] at hN
    linarith
  have hs : v (sqName i) = squares[i] := by
    have := hSq ⟨[⟨sqName i, -1⟩, ⟨"g", squares[i]⟩], [⟨"h", joinU ["s", fmtV i, "hider"], -1⟩]⟩ (by
      simp only [isSquareStructure, List.mem_map]
      exact ⟨(squares[i], i), by simp [List.mem_zipIdx_iff_getElem?, hi], rfl⟩)
    simp [ReprStructure.holds, hv.h, hv.g] at this
    linarith
  have hm := mul_sound hv _ _ _ _ _ (hValid (mulStructure (rootName i) (rootName i) "N" (sqName i) (bitLen n)) (by
    simp only [isSquareStructure, List.mem_map, List.mem_range]
    exact ⟨i, hi, rfl⟩))
  rw [hn, hs] at hm
  exact ⟨v (rootName i), hm.symm⟩

/-- **the whole key statement** (ideal reading of `NewValidKeyProofStructure(N, Bases)` for a
    modulus of at least 3 bits): `p = 2p'+1`, `q = 2q'+1`, `p·q = N`, Euler-criterion evidence for
    BOTH `p'` and `q'` at bit length `(bitlen N + 1)/2`, and every base is a square modulo `N`. -/
theorem validKey_sound {v : String → Int} (hv : Ideal v) (n : Int) (bases : List Int) (hn : 3 ≤ bitLen n)
    (h : (validKeyStructure n bases).holds v) :
    v "p" = 2 * v "pprime" + 1 ∧ v "q" = 2 * v "qprime" + 1 ∧ v "p" * v "q" = n ∧
    EulerEvidence (v "pprime") (primeBitlen n) ∧ EulerEvidence (v "qprime") (primeBitlen n) ∧
    ∀ i (hi : i < bases.length), ∃ r : Int, r * r ≡ bases[i] [ZMOD n] := by
  obtain ⟨-, -, -, -, hP, hQ, hN, hPP, hQP, hB⟩ := h
  have hl : 2 ≤ primeBitlen n := by unfold primeBitlen; omega
  refine ⟨?_, ?_, ?_, prime_sound hv _ _ hl hPP, prime_sound hv _ _ hl hQP, isSquare_sound hv n bases hB⟩
  · simp [validKeyStructure, ReprStructure.holds, hv.h, hv.g] at hP
    linarith
  · simp [validKeyStructure, ReprStructure.holds, hv.h, hv.g] at hQ
    linarith
  · simp [validKeyStructure, ReprStructure.holds, hv.h, hv.g] at hN
    linarith

/-! ### Non-vacuity: the assignment of an honest prover satisfies the ideal reading -/

instance (v : String → Int) (r : ReprStructure) : Decidable (r.holds v) := by unfold ReprStructure.holds; infer_instance
instance (v : String → Int) (s : PedStructure) : Decidable (s.holds v) := by unfold PedStructure.holds; infer_instance
instance (v : String → Int) (s : RangeStructure) : Decidable (s.holds v) := by unfold RangeStructure.holds; infer_instance
instance (v : String → Int) (s : MulStructure) : Decidable (s.holds v) := by unfold MulStructure.holds; infer_instance
instance (v : String → Int) (s : StepAStructure) : Decidable (s.holds v) := by unfold StepAStructure.holds; infer_instance
instance (v : String → Int) (s : StepBStructure) : Decidable (s.holds v) := by unfold StepBStructure.holds; infer_instance
instance (v : String → Int) (s : StepStructure) : Decidable (s.holds v) := by unfold StepStructure.holds; infer_instance
instance (v : String → Int) (s : ExpStructure) : Decidable (s.holds v) := by unfold ExpStructure.holds; infer_instance
instance (v : String → Int) (s : PrimeStructure) : Decidable (s.holds v) := by unfold PrimeStructure.holds; infer_instance
instance (v : String → Int) (s : IsSquareStructure) : Decidable (s.holds v) := by unfold IsSquareStructure.holds; infer_instance
instance (v : String → Int) (s : ValidKeyStructure) : Decidable (s.holds v) := by unfold ValidKeyStructure.holds; infer_instance

/-- the name of the quotient secret of the multiplication proof over (m1, m2, mod, result). -/
def mulQuot (m1 m2 md result : String) : String := joinU [joinU [m1, m2, md, result, "mul"], "mod"]

/-- the values an honest prover commits to inside the exponentiation proof
    `result = base^exponent mod md` with values `bv, ev, mv, rv` (`rv ≡ bv^ev mod mv`); intermediate
    results equal to `mv − 1` are committed as `−1` (exp.go, "ugly(ish) hack"). -/
def expWitness (base exponent md result : String) (bv ev mv rv : Int) (l : Nat) : List (String × Int) :=
  let my := expName base exponent md result
  let bitv : Nat → Int := fun i => (ev / 2 ^ i) % 2
  let basev : Nat → Int := fun i => bv ^ (2 ^ i) % mv
  let interv : Nat → Int := fun i =>
    if i = l - 1 then rv
    else (List.range (i + 1)).foldl (fun acc j =>
      if bitv j = 1 then (if acc * basev j % mv = mv - 1 then -1 else acc * basev j % mv) else acc) 1
  let pre : Nat → Int := fun i => if i = 0 then 1 else interv (i - 1)
  let idx := List.range l
  (idx.map fun i => (expBitName my i, bitv i)) ++ (idx.map fun i => (expBaseName my i, basev i)) ++
  [(expStartName my, 1)] ++ ((List.range (l - 1)).map fun i => (expInterName my i, interv i)) ++
  (idx.map fun i =>
    if i = 0 then (mulQuot (expStartName my) base md (expBaseName my 0), (bv - basev 0) / mv)
    else (mulQuot (expBaseName my (i - 1)) (expBaseName my (i - 1)) md (expBaseName my i),
          (basev (i - 1) * basev (i - 1) - basev i) / mv)) ++
  (idx.map fun i =>
    let prename := if i = 0 then expStartName my else expInterName my (i - 1)
    let postname := if i = 0 then expInterName my 0 else if i = l - 1 then result else expInterName my i
    (mulQuot (expBaseName my i) prename md postname, (basev i * pre i - interv i) / mv))

/-- the values an honest prover commits to inside the prime proof over `name` with value `x`,
    given `a` and `aneg`. -/
def primeWitness (name : String) (x av anegv : Int) (l : Nat) : List (String × Int) :=
  let my := joinU [name, "primeproof"]
  let h := (x - 1) / 2
  let r := av ^ h.toNat % x
  let ares := if r = 1 then 1 else r - x
  [(joinU [my, "halfp"], h), (joinU [my, "a"], av), (joinU [my, "aneg"], anegv),
   (joinU [my, "ares"], ares), (joinU [my, "anegres"], -1)] ++
  expWitness (joinU [my, "a"]) (joinU [my, "halfp"]) name (joinU [my, "ares"]) av h x ares l ++
  expWitness (joinU [my, "aneg"]) (joinU [my, "halfp"]) name (joinU [my, "anegres"]) anegv h x (-1) l

def isSquareWitness (n : Int) (squares roots : List Int) : List (String × Int) :=
  [("N", n)] ++ (squares.zipIdx.map fun (s, i) => (sqName i, s)) ++ (roots.zipIdx.map fun (r, i) => (rootName i, r)) ++
  ((squares.zip roots).zipIdx.map fun ((s, r), i) => (mulQuot (rootName i) (rootName i) "N" (sqName i), (r * r - s) / n))

/-- the honest assignment for the key `(2p'+1)(2q'+1)`; hiders are irrelevant (read as 0). -/
def validKeyWitness (pp qp ap anegp aq anegq : Int) (bases roots : List Int) : List (String × Int) :=
  let n := (2 * pp + 1) * (2 * qp + 1)
  [("g", 1), ("h", 0), ("p", 2 * pp + 1), ("q", 2 * qp + 1), ("pprime", pp), ("qprime", qp)] ++
  primeWitness "pprime" pp ap anegp (primeBitlen n) ++ primeWitness "qprime" qp aq anegq (primeBitlen n) ++
  isSquareWitness n bases roots

def valOf (w : List (String × Int)) : String → Int := fun name => (w.lookup name).getD 0

/-! ## 3. Counting -/

theorem sum_map_const {α : Type} (c : Nat) (l : List α) : (List.map (fun _ => c) l).sum = l.length * c := by
  induction l with
  | nil => simp
  | cons a l ih => simp [Nat.succ_mul, Nat.add_comm]

theorem sum_map_const_range (c n : Nat) : (List.map (fun _ => c) (List.range n)).sum = n * c := by
  simp

theorem ped_numCommitments (name : String) : (pedStructure name).numCommitments = numPedersen := rfl
theorem pedRange_numCommitments (name : String) (a b : Nat) : (pedRangeStructure name a b).numCommitments = numRange := rfl
theorem mul_numCommitments (m1 m2 md r : String) (l : Nat) : (mulStructure m1 m2 md r l).numCommitments = numMult := by
  simp [MulStructure.numCommitments, numMult, ReprStructure.numCommitments, PedStructure.numCommitments,
    RangeStructure.numCommitments, numPedersen, numRange]
theorem step_numCommitments (a b c d e : String) (l : Nat) : (stepStructure a b c d e l).numCommitments = numStep := by
  simp [stepStructure, StepStructure.numCommitments, StepAStructure.numCommitments, StepBStructure.numCommitments,
    stepBStructure, numStep, ReprStructure.numCommitments, mul_numCommitments, ped_numCommitments]
theorem basePowRel_numCommitments (a b c : String) (l i : Nat) : (expBasePowRel a b c l i).numCommitments = numMult := by
  unfold expBasePowRel; split <;> exact mul_numCommitments ..
theorem interStep_numCommitments (a b c : String) (l i : Nat) : (expInterStep a b c l i).numCommitments = numStep := by
  unfold expInterStep; split_ifs <;> exact step_numCommitments ..

theorem exp_numCommitments (a b c d : String) (l : Nat) : (expStructure a b c d l).numCommitments = numExp l := by
  simp [expStructure, ExpStructure.numCommitments, numExp, sumBy, Function.comp_def, ped_numCommitments,
    pedRange_numCommitments, basePowRel_numCommitments, interStep_numCommitments, ReprStructure.numCommitments]

theorem prime_numCommitments (name : String) (l : Nat) : (primeStructure name l).numCommitments = numPrime l := by
  simp [primeStructure, PrimeStructure.numCommitments, numPrime, exp_numCommitments, ped_numCommitments,
    pedRange_numCommitments, ReprStructure.numCommitments, numRange]
  ring

theorem isSquare_numCommitments (n : Int) (sq : List Int) :
    (isSquareStructure n sq).numCommitments = numIsSquare sq.length := by
  simp [isSquareStructure, IsSquareStructure.numCommitments, numIsSquare, sumBy, Function.comp_def, ped_numCommitments,
    pedRange_numCommitments, mul_numCommitments, ReprStructure.numCommitments]

theorem exp_numRangeProofs (a b c d : String) (l : Nat) :
    (expStructure a b c d l).numRangeProofs = l + l + (l - 1) + l := by
  simp [expStructure, ExpStructure.numRangeProofs, sumBy, Function.comp_def, MulStructure.numRangeProofs,
    StepStructure.numRangeProofs]

/-! ## 4. Names: prefixes, injectivity -/

/-- `x` begins with `P`. -/
def HasPre (P x : String) : Prop := ∃ t, x = P ++ t

theorem HasPre.refl (P : String) : HasPre P P := ⟨"", by simp⟩

theorem HasPre.append {P x : String} (h : HasPre P x) (y : String) : HasPre P (x ++ y) := by
  obtain ⟨t, rfl⟩ := h; exact ⟨t ++ y, by rw [String.append_assoc]⟩

theorem HasPre.trans {P Q x : String} (h1 : HasPre P Q) (h2 : HasPre Q x) : HasPre P x := by
  obtain ⟨t, rfl⟩ := h1; obtain ⟨u, rfl⟩ := h2; exact ⟨t ++ u, by rw [String.append_assoc]⟩

/-- a joined name begins with its first part. -/
theorem HasPre.joinU {P x : String} (h : HasPre P x) (rest : List String) : HasPre P (joinU (x :: rest)) := by
  cases rest with
  | nil => simpa [Gabi.KeyProof.joinU] using h
  | cons b r => simp only [Gabi.KeyProof.joinU]; exact (h.append _).append _

/-- a joined name of at least two parts begins with its first part and the separator. -/
theorem hasPre_joinU_sep (x b : String) (rest : List String) : HasPre (x ++ "_") (joinU (x :: b :: rest)) := by
  simp only [Gabi.KeyProof.joinU]; exact (HasPre.refl _).append _

theorem toString_inj {i j : Nat} (h : toString i = toString j) : i = j := by
  have h' := congrArg String.toList h
  rw [Nat.toString_eq_repr, Nat.toString_eq_repr, Nat.toList_repr, Nat.toList_repr] at h'
  have := congrArg (fun l => Nat.ofDigitChars 10 l 0) h'
  simpa [Nat.ofDigitChars_ten_toDigits] using this

theorem append_left_cancel' {a b c : String} (h : a ++ b = a ++ c) : b = c := by
  have := congrArg String.toList h
  simp at this
  exact String.toList_inj.mp this

/-! ## 5. The secret names of a tree (every name some sub-proof carries a response for) -/

def ReprStructure.secrets (r : ReprStructure) : List String := r.rhs.map (·.secret)
def PedStructure.secrets (s : PedStructure) : List String := s.repr.secrets
def RangeStructure.secrets (s : RangeStructure) : List String := s.repr.secrets
def MulStructure.secrets (s : MulStructure) : List String :=
  s.modMultPedersen.secrets ++ s.modMultRange.secrets ++ s.multRepr.secrets
def StepAStructure.secrets (s : StepAStructure) : List String := s.bitRep.secrets ++ s.equalityRep.secrets
def StepBStructure.secrets (s : StepBStructure) : List String :=
  s.bitRep.secrets ++ s.mul.secrets ++ s.prePostMul.secrets
def StepStructure.secrets (s : StepStructure) : List String := s.stepa.secrets ++ s.stepb.secrets
def ExpStructure.secrets (s : ExpStructure) : List String :=
  s.expBits.flatMap PedStructure.secrets ++ s.expBitEq.secrets ++ s.basePows.flatMap PedStructure.secrets ++
  s.basePowRange.flatMap RangeStructure.secrets ++ s.basePowRels.flatMap MulStructure.secrets ++
  s.start.secrets ++ s.startRep.secrets ++ s.interRess.flatMap PedStructure.secrets ++
  s.interResRange.flatMap RangeStructure.secrets ++ s.interSteps.flatMap StepStructure.secrets
def PrimeStructure.secrets (s : PrimeStructure) : List String :=
  s.halfP.secrets ++ s.halfPRep.secrets ++ s.prea.secrets ++ s.preaRange.secrets ++ s.a.secrets ++
  s.aRange.secrets ++ s.aneg.secrets ++ s.anegRange.secrets ++ s.aRes.secrets ++ s.anegRes.secrets ++
  s.aPlus1ResRep.secrets ++ s.aMin1ResRep.secrets ++ s.anegResRep.secrets ++ s.aExp.secrets ++ s.anegExp.secrets

theorem ped_secrets_pre {P name : String} (h : HasPre P name) : ∀ x ∈ (pedStructure name).secrets, HasPre P x := by
  intro x hx
  simp [pedStructure, PedStructure.secrets, ReprStructure.secrets] at hx
  rcases hx with rfl | rfl
  · exact h
  · exact h.joinU _

theorem pedRange_secrets_pre {P name : String} (h : HasPre P name) (a b : Nat) :
    ∀ x ∈ (pedRangeStructure name a b).secrets, HasPre P x := by
  intro x hx
  simp [pedRangeStructure, RangeStructure.secrets, ReprStructure.secrets] at hx
  rcases hx with rfl | rfl
  · exact h
  · exact h.joinU _

theorem mul_secrets_pre {P m1 : String} (h : HasPre P m1) (m2 md r : String) (l : Nat) :
    ∀ x ∈ (mulStructure m1 m2 md r l).secrets, HasPre P x := by
  intro x hx
  have hmy : HasPre P (joinU [joinU [m1, m2, md, r, "mul"], "mod"]) := (h.joinU _).joinU _
  simp only [mulStructure, MulStructure.secrets, List.mem_append] at hx
  rcases hx with (hx | hx) | hx
  · exact ped_secrets_pre hmy x hx
  · exact pedRange_secrets_pre hmy _ _ x hx
  · simp [ReprStructure.secrets] at hx
    rcases hx with rfl | rfl | rfl
    · exact h
    · exact hmy
    · exact (h.joinU _).joinU _

theorem step_secrets_pre {P bit mul : String} (hb : HasPre P bit) (hm : HasPre P mul) (pre post md : String) (l : Nat) :
    ∀ x ∈ (stepStructure bit pre post mul md l).secrets, HasPre P x := by
  intro x hx
  simp only [stepStructure, StepStructure.secrets, StepAStructure.secrets, StepBStructure.secrets, stepAStructure,
    stepBStructure, List.mem_append] at hx
  rcases hx with (hx | hx) | ((hx | hx) | hx)
  · simp [ReprStructure.secrets] at hx; subst hx; exact hb.joinU _
  · simp [ReprStructure.secrets] at hx; subst hx; exact (hb.joinU _).joinU _
  · simp [ReprStructure.secrets] at hx; subst hx; exact hb.joinU _
  · exact ped_secrets_pre hm x hx
  · exact mul_secrets_pre hm _ _ _ _ x hx

/-- every secret name inside an exponentiation proof begins with the name of its base. -/
theorem exp_secrets_pre {P base : String} (h : HasPre P base) (e md r : String) (l : Nat) :
    ∀ x ∈ (expStructure base e md r l).secrets, HasPre P x := by
  intro x hx
  have hmy : HasPre P (expName base e md r) := h.joinU _
  have hbit : ∀ i, HasPre P (expBitName (expName base e md r) i) := fun i => hmy.joinU _
  have hbase : ∀ i, HasPre P (expBaseName (expName base e md r) i) := fun i => hmy.joinU _
  have hinter : ∀ i, HasPre P (expInterName (expName base e md r) i) := fun i => hmy.joinU _
  have hstart : HasPre P (expStartName (expName base e md r)) := hmy.joinU _
  simp only [expStructure, ExpStructure.secrets, List.mem_append, List.mem_flatMap, List.mem_map, List.mem_range] at hx
  rcases hx with ((((((((hx | hx) | hx) | hx) | hx) | hx) | hx) | hx) | hx) | hx
  · obtain ⟨_, ⟨i, -, rfl⟩, hx⟩ := hx; exact ped_secrets_pre (hbit i) x hx
  · simp [ReprStructure.secrets] at hx; subst hx; exact hmy.joinU _
  · obtain ⟨_, ⟨i, -, rfl⟩, hx⟩ := hx; exact ped_secrets_pre (hbase i) x hx
  · obtain ⟨_, ⟨i, -, rfl⟩, hx⟩ := hx; exact pedRange_secrets_pre (hbase i) _ _ x hx
  · obtain ⟨_, ⟨i, -, rfl⟩, hx⟩ := hx
    unfold expBasePowRel at hx
    split at hx
    · exact mul_secrets_pre hstart _ _ _ _ x hx
    · exact mul_secrets_pre (hbase _) _ _ _ _ x hx
  · exact ped_secrets_pre hstart x hx
  · simp [ReprStructure.secrets] at hx; subst hx; exact hmy.joinU _
  · obtain ⟨_, ⟨i, -, rfl⟩, hx⟩ := hx; exact ped_secrets_pre (hinter i) x hx
  · obtain ⟨_, ⟨i, -, rfl⟩, hx⟩ := hx; exact pedRange_secrets_pre (hinter i) _ _ x hx
  · obtain ⟨_, ⟨i, -, rfl⟩, hx⟩ := hx
    unfold expInterStep at hx
    split_ifs at hx <;> exact step_secrets_pre (hbit i) (hbase i) _ _ _ _ x hx

/-- every secret name inside the prime proof over `name` is `name_hider` (the hider of the
    commitment whose primality is proven) or begins with `name_primeproof_`. -/
theorem prime_secrets_pre (name : String) (l : Nat) :
    ∀ x ∈ (primeStructure name l).secrets,
      x = joinU [name, "hider"] ∨ HasPre (joinU [name, "primeproof"] ++ "_") x := by
  intro x hx
  set my := joinU [name, "primeproof"] with hmy
  have hsub : ∀ t, HasPre (my ++ "_") (joinU [my, t]) := fun t => hasPre_joinU_sep my t []
  simp only [primeStructure, PrimeStructure.secrets, List.mem_append, ← hmy] at hx
  rcases hx with (((((((((((((hx | hx) | hx) | hx) | hx) | hx) | hx) | hx) | hx) | hx) | hx) | hx) | hx) | hx) | hx
  · exact Or.inr (ped_secrets_pre (hsub _) x hx)
  · simp [ReprStructure.secrets] at hx
    rcases hx with rfl | rfl
    · exact Or.inl rfl
    · exact Or.inr (hasPre_joinU_sep my _ _)
  · exact Or.inr (ped_secrets_pre (hsub _) x hx)
  · exact Or.inr (pedRange_secrets_pre (hsub _) _ _ x hx)
  · exact Or.inr (ped_secrets_pre (hsub _) x hx)
  · exact Or.inr (pedRange_secrets_pre (hsub _) _ _ x hx)
  · exact Or.inr (ped_secrets_pre (hsub _) x hx)
  · exact Or.inr (pedRange_secrets_pre (hsub _) _ _ x hx)
  · exact Or.inr (ped_secrets_pre (hsub _) x hx)
  · exact Or.inr (ped_secrets_pre (hsub _) x hx)
  · simp [ReprStructure.secrets] at hx; subst hx; exact Or.inr (hsub _)
  · simp [ReprStructure.secrets] at hx; subst hx; exact Or.inr (hsub _)
  · simp [ReprStructure.secrets] at hx; subst hx; exact Or.inr (hasPre_joinU_sep my _ _)
  · exact Or.inr (exp_secrets_pre (hsub _) _ _ _ _ x hx)
  · exact Or.inr (exp_secrets_pre (hsub _) _ _ _ _ x hx)

/-- the two prime proofs of the key statement share no secret name. -/
theorem prime_secrets_disjoint (l l' : Nat) :
    ∀ x ∈ (primeStructure "pprime" l).secrets, x ∉ (primeStructure "qprime" l').secrets := by
  intro x hx hx'
  have h1 := prime_secrets_pre "pprime" l x hx
  have h2 := prime_secrets_pre "qprime" l' x hx'
  simp only [Gabi.KeyProof.joinU] at h1 h2
  have hc : ∀ a b : String, x = a → x = b → a.toList.head? ≠ b.toList.head? → False :=
    fun a b ha hb hne => hne (by rw [← ha, ← hb])
  rcases h1 with h1 | ⟨t, h1⟩ <;> rcases h2 with h2 | ⟨t', h2⟩
  · exact hc _ _ h1 h2 (by decide)
  · exact hc _ _ h1 h2 (by simp)
  · exact hc _ _ h1 h2 (by simp)
  · exact hc _ _ h1 h2 (by simp)

/-! ### the commitments one exponentiation proof introduces have pairwise different names -/

/-- the names of the Pedersen commitments newExpProofStructure introduces, in construction order:
    bits, base powers, start, intermediate results. -/
def ExpStructure.innerNames (s : ExpStructure) : List String :=
  s.expBits.map (·.name) ++ s.basePows.map (·.name) ++ [s.start.name] ++ s.interRess.map (·.name)

theorem joinU3_inj {my k : String} {i j : Nat} (h : joinU [my, k, fmtV i] = joinU [my, k, fmtV j]) : i = j := by
  simp only [joinU, String.append_assoc] at h
  exact toString_inj (append_left_cancel' (append_left_cancel' (append_left_cancel' (append_left_cancel' h))))

theorem joinU3_kind {my k k' t t' : String} (hk : k.toList.take 2 ≠ k'.toList.take 2)
    (hk2 : 2 ≤ k.toList.length) (hk2' : 2 ≤ k'.toList.length) : joinU [my, k, t] ≠ joinU [my, k', t'] := by
  intro h
  simp only [joinU, String.append_assoc] at h
  have := congrArg String.toList (append_left_cancel' (append_left_cancel' h))
  simp only [String.toList_append] at this
  apply hk
  have h2 := congrArg (List.take 2) this
  rwa [List.take_append_of_le_length hk2, List.take_append_of_le_length hk2'] at h2

theorem exp_innerNames_nodup (base e md r : String) (l : Nat) : (expStructure base e md r l).innerNames.Nodup := by
  set my := expName base e md r with hmy
  have hbits : ((List.range l).map fun i => expBitName my i).Nodup :=
    (List.nodup_range).map_on fun i _ j _ h => joinU3_inj h
  have hbases : ((List.range l).map fun i => expBaseName my i).Nodup :=
    (List.nodup_range).map_on fun i _ j _ h => joinU3_inj h
  have hinters : ((List.range (l - 1)).map fun i => expInterName my i).Nodup :=
    (List.nodup_range).map_on fun i _ j _ h => joinU3_inj h
  have hstart_ne : ∀ k t, 2 ≤ k.toList.length → k.toList.take 2 ≠ ['s', 't'] → expStartName my ≠ joinU [my, k, t] := by
    intro k t hk hne h
    simp only [expStartName, joinU, String.append_assoc] at h
    have := congrArg String.toList (append_left_cancel' (append_left_cancel' h))
    simp only [String.toList_append] at this
    have h2 := congrArg (List.take 2) this
    rw [List.take_append_of_le_length hk] at h2
    exact hne (by rw [← h2]; decide)
  simp only [ExpStructure.innerNames, expStructure, ← hmy, List.map_map, Function.comp_def, pedStructure]
  rw [List.nodup_append, List.nodup_append, List.nodup_append]
  refine ⟨⟨⟨hbits, hbases, ?_⟩, List.nodup_singleton _, ?_⟩, hinters, ?_⟩
  · intro a ha b hb
    simp only [List.mem_map, List.mem_range] at ha hb
    obtain ⟨i, -, rfl⟩ := ha; obtain ⟨j, -, rfl⟩ := hb
    exact joinU3_kind (by decide) (by decide) (by decide)
  · intro a ha b hb
    simp only [List.mem_singleton] at hb; subst hb
    simp only [List.mem_append, List.mem_map, List.mem_range] at ha
    rcases ha with ⟨i, -, rfl⟩ | ⟨i, -, rfl⟩
    · exact (hstart_ne _ _ (by decide) (by decide)).symm
    · exact (hstart_ne _ _ (by decide) (by decide)).symm
  · intro a ha b hb
    simp only [List.mem_append, List.mem_map, List.mem_range, List.mem_singleton] at ha hb
    obtain ⟨j, -, rfl⟩ := hb
    rcases ha with (⟨i, -, rfl⟩ | ⟨i, -, rfl⟩) | rfl
    · exact joinU3_kind (by decide) (by decide) (by decide)
    · exact joinU3_kind (by decide) (by decide) (by decide)
    · exact hstart_ne _ _ (by decide) (by decide)

/-! ## 6. The flat list of claims a tree makes about named committed values -/

/-- an atomic claim, as the structure values label it. -/
inductive Claim where
  /-- `name` is a Pedersen commitment the prover can open. -/
  | pedersen (name : String)
  /-- knowledge of secrets satisfying the representation relation, verbatim. -/
  | linear (r : ReprStructure)
  /-- one of the two relations holds (challenges XOR-split). -/
  | oneOf (r1 r2 : ReprStructure)
  /-- range proof over `secret` with limits `l1`, `l2`. -/
  | inRange (secret : String) (l1 l2 : Nat)
  /-- `result ≡ m1·m2 (mod md)` between committed values. -/
  | mulMod (m1 m2 md result : String)
  /-- `result ≡ base^exponent (mod md)`, exponent of `bitlen` bits. -/
  | expMod (base exponent md result : String) (bitlen : Nat)
  /-- the value committed under `name` is (probably) prime, `bitlen` bits. -/
  | isPrime (name : String) (bitlen : Nat)
  /-- the `index`-th supplied base is a square modulo `modulus`. -/
  | isSquare (index : Nat) (base modulus : Int)

def Claim.primeOf : Claim → Option (String × Nat)
  | .isPrime n b => some (n, b)
  | _ => none

def Claim.squareOf : Claim → Option (Nat × Int × Int)
  | .isSquare i b m => some (i, b, m)
  | _ => none

def ExpStructure.claim (s : ExpStructure) : Claim := .expMod s.base s.exponent s.md s.result s.bitlen
def RangeStructure.claim (s : RangeStructure) : Claim := .inRange s.rangeSecret s.l1 s.l2
def MulStructure.claim (s : MulStructure) : Claim := .mulMod s.m1 s.m2 s.md s.result

/-- the claims of a prime proof, from its label fields and the labels of its direct parts. -/
def PrimeStructure.claims (s : PrimeStructure) : List Claim :=
  [.isPrime s.primeName s.bitlen, .pedersen s.halfP.name, .linear s.halfPRep, .pedersen s.prea.name, s.preaRange.claim,
   .pedersen s.a.name, s.aRange.claim, .pedersen s.aneg.name, s.anegRange.claim, .pedersen s.aRes.name,
   .pedersen s.anegRes.name, .oneOf s.aPlus1ResRep s.aMin1ResRep, .linear s.anegResRep, s.aExp.claim, s.anegExp.claim]

def IsSquareStructure.claims (s : IsSquareStructure) : List Claim :=
  [.pedersen s.nPedersen.name, .linear s.nRep] ++ (s.squares.zipIdx.map fun (b, i) => Claim.isSquare i b s.n) ++
  s.squaresPedersen.map (fun p => Claim.pedersen p.name) ++ s.squaresRep.map Claim.linear ++
  s.rootsRep.map (fun p => Claim.pedersen p.name) ++ s.rootsRange.map RangeStructure.claim ++
  s.rootsValid.map MulStructure.claim

/-- the claims of the key statement, in construction order. -/
def ValidKeyStructure.claims (s : ValidKeyStructure) : List Claim :=
  [.pedersen s.p.name, .pedersen s.q.name, .pedersen s.pprime.name, .pedersen s.qprime.name,
   .linear s.pPprimeRel, .linear s.qQprimeRel, .linear s.pQNRel] ++
  s.pprimeIsPrime.claims ++ s.qprimeIsPrime.claims ++ s.basesValid.claims

theorem filterMap_primeOf_isSquare (s : IsSquareStructure) : s.claims.filterMap Claim.primeOf = [] := by
  rw [List.filterMap_eq_nil_iff]
  intro a ha
  simp only [IsSquareStructure.claims, List.mem_append, List.mem_map, List.mem_cons, List.not_mem_nil, or_false] at ha
  rcases ha with (((((((rfl | rfl) | ⟨_, _, rfl⟩) | ⟨_, _, rfl⟩) | ⟨_, _, rfl⟩) | ⟨_, _, rfl⟩) | ⟨_, _, rfl⟩) | ⟨_, _, rfl⟩) <;> rfl

theorem filterMap_squareOf_isSquare (n : Int) (sq : List Int) :
    (isSquareStructure n sq).claims.filterMap Claim.squareOf = sq.zipIdx.map fun (b, i) => (i, b, n) := by
  have h0 : ∀ (l : List Claim), (∀ c ∈ l, c.squareOf = none) → l.filterMap Claim.squareOf = [] := by
    intro l h; simpa [List.filterMap_eq_nil_iff] using h
  simp only [IsSquareStructure.claims, List.filterMap_append]
  rw [h0 (List.map _ (isSquareStructure n sq).squaresPedersen) (by simp [Claim.squareOf]),
    h0 (List.map _ (isSquareStructure n sq).squaresRep) (by simp [Claim.squareOf]),
    h0 (List.map _ (isSquareStructure n sq).rootsRep) (by simp [Claim.squareOf]),
    h0 (List.map _ (isSquareStructure n sq).rootsRange) (by simp [Claim.squareOf, RangeStructure.claim]),
    h0 (List.map _ (isSquareStructure n sq).rootsValid) (by simp [Claim.squareOf, MulStructure.claim])]
  simp [isSquareStructure, Claim.squareOf, List.filterMap_map, Function.comp_def]

end Gabi.KeyProof
