/-
  GabiProofs.IssuanceLemmas — the issuance sub-proofs of the model (`ProofS`, `ProofU`,
  `CredBuilder`) in the unit group of `ZMod n`.
-/
import GabiModel.Prover
import GabiProofs.CLLemmas
import GabiProofs.DerLemmas
namespace Gabi
variable {n : ℕ}

/-- completeness of `ProofS` with the modulus written as a natural number. -/
theorem proofS_complete_aux (pk : PublicKey) (order : Int) (sig : CLSignature)
    (ctx nonce2 eCommit : Int) (ps : ProofS)
    (hN : pk.n = n) (hn : 1 < n) (ho : 1 < order)
    (hA : goExp sig.a order pk.n = some 1)
    (h : proveSignature pk order sig ctx nonce2 eCommit = some ps) :
    ps.verify pk sig ctx nonce2 = .ok true := by
  rw [hN] at hA
  have ho0 : 0 < order := by omega
  have hu := isUnit_of_goExp_one (by omega : 0 < n) ho0 hA
  have oA := zunit_pow_order hn ho0 hA
  unfold proveSignature at h
  simp only [hN, Option.bind_eq_bind, Option.bind_eq_some_iff, Option.pure_def,
    Option.some.injEq] at h
  obtain ⟨q, hq, d, hd, aC, haC, rfl⟩ := h
  obtain ⟨_, _, qc⟩ := goExp_unit_eq hn hu hq
  obtain ⟨aC0, aC1, aCc⟩ := goExp_unit_eq hn (isUnit_of_cast qc) haC
  rw [zunit_of_cast qc] at aCc
  -- d
  obtain ⟨_, _, hde⟩ := goModInverse_some hd
  have hoa : (order.natAbs : Int) = order := Int.natAbs_of_nonneg (by omega)
  rw [hoa, Int.emod_eq_of_lt (by omega : (0:Int) ≤ 1) ho] at hde
  have hd' : sig.e * d = 1 + (sig.e * d / order) * order := by
    have := Int.emod_add_mul_ediv (sig.e * d) order
    rw [hde] at this
    linear_combination -this
  set c : Int := (hashCommit [ctx, q, sig.a, nonce2, aC] false : Int) with hc
  have heR : (eCommit - c * d) % order =
      eCommit - c * d + (-((eCommit - c * d) / order)) * order := by
    have := Int.emod_add_mul_ediv (eCommit - c * d) order
    linear_combination this
  have key := Alg.proofS_complete' (A := zunit n sig.a) (e := sig.e) (eC := eCommit) (c := c)
    oA hd' heR
  obtain ⟨x, hx, x0, x1, xc⟩ := goExp_unit hn hu (c + (eCommit - c * d) % order * sig.e)
  have hxa : x = aC := eq_of_cast_eq x0 x1 aC0 aC1 (by rw [xc, aCc, key])
  subst hxa
  simp only [ProofS.verify, hN, hx, hq, deref, bind, Except.bind, pure, Except.pure]
  simp [hc]
/-! ### ProofU -/

theorem idx_of_lt {α} (what : String) (l : List α) (i : Int) (h0 : 0 ≤ i) (h1 : i < l.length) :
    ∃ a, idx what l i = .ok a ∧ l[i.toNat]? = some a := by
  have hi : i.toNat < l.length := by omega
  refine ⟨l[i.toNat], ?_, List.getElem?_eq_getElem hi⟩
  unfold idx
  simp only [not_lt.mpr h0, if_false, List.getElem?_eq_getElem hi]
  rfl

/-- the unit of the base with (signed) index `i`. -/
noncomputable def baseU (n : ℕ) (bases : List Int) (i : Int) : (ZMod n)ˣ :=
  zunit n (bases.getD i.toNat 0)

/-- `∏_{kv ∈ L} R_{kv.1} ^ f kv`. -/
noncomputable def repKV (n : ℕ) (bases : List Int) (f : Int × Int → Int) (L : List (Int × Int)) :
    (ZMod n)ˣ :=
  Alg.rep (fun kv : Int × Int => baseU n bases kv.1) f L

theorem repKV_nil (bases : List Int) (f : Int × Int → Int) : repKV n bases f [] = 1 := rfl

theorem repKV_cons (bases : List Int) (f : Int × Int → Int) (kv : Int × Int) (L : List (Int × Int)) :
    repKV n bases f (kv :: L) = baseU n bases kv.1 ^ f kv * repKV n bases f L :=
  Alg.rep_cons _ _ _ _

theorem idx_base (hn : 1 < n) (bases : List Int) (hb : ∀ b ∈ bases, IsUnit (b : ZMod n))
    (what : String) (i : Int) (h0 : 0 ≤ i) (h1 : i < bases.length) (y : Int) :
    ∃ b t, idx what bases i = .ok b ∧ goExp b y n = some t ∧ 0 ≤ t ∧ t < n ∧
      (t : ZMod n) = ((baseU n bases i ^ y : (ZMod n)ˣ) : ZMod n) := by
  obtain ⟨b, hb1, hb2⟩ := idx_of_lt what bases i h0 h1
  have hmem : b ∈ bases := List.mem_of_getElem? hb2
  obtain ⟨t, ht, t0, t1, tc⟩ := goExp_unit hn (hb b hmem) y
  refine ⟨b, t, hb1, ht, t0, t1, ?_⟩
  rw [tc, baseU, List.getD_eq_getElem?_getD, hb2, Option.getD_some]

/-- the reducing product loop of `CredentialBuilder.Commit`. -/
theorem foldlM_mod_spec (hn : 1 < n) (bases : List Int) (hb : ∀ b ∈ bases, IsUnit (b : ZMod n))
    (what what' : String) (f : Int × Int → Int) :
    ∀ (L : List (Int × Int)) (z0 : Int) (u : (ZMod n)ˣ),
      (∀ kv ∈ L, 0 ≤ kv.1 ∧ kv.1 < bases.length) → 0 ≤ z0 → z0 < n → (z0 : ZMod n) = (u : ZMod n) →
      ∃ z, L.foldlM (fun (z : Int) (kv : Int × Int) => do
          let b ← idx what bases kv.1
          let t ← deref what' (goExp b (f kv) n)
          pure (z * t % n)) z0 = (.ok z : GoM Int) ∧ 0 ≤ z ∧ z < n ∧
        (z : ZMod n) = ((u * repKV n bases f L : (ZMod n)ˣ) : ZMod n) := by
  intro L
  induction L with
  | nil =>
    intro z0 u _ h0 h1 hc
    exact ⟨z0, rfl, h0, h1, by simp [repKV_nil, hc]⟩
  | cons kv L ih =>
    intro z0 u hL h0 h1 hc
    obtain ⟨b, t, hb1, ht, _, _, tc⟩ :=
      idx_base hn bases hb what kv.1 (hL kv (by simp)).1 (hL kv (by simp)).2 (f kv)
    obtain ⟨m0, m1, mc⟩ := mul_emod_unit (by omega : 0 < n) hc tc
    obtain ⟨z, hz, z0', z1', zc⟩ := ih _ _ (fun kv' h' => hL kv' (by simp [h'])) m0 m1 mc
    refine ⟨z, ?_, z0', z1', ?_⟩
    · rw [List.foldlM_cons]
      simp only [hb1, ht, deref, bind, Except.bind, pure, Except.pure]
      exact hz
    · rw [zc, repKV_cons, mul_assoc]
/-- the non-reducing product loop of `userCommitment`. -/
theorem foldlM_nomod_spec (hn : 1 < n) (bases : List Int) (hb : ∀ b ∈ bases, IsUnit (b : ZMod n))
    (what what' : String) (f : Int × Int → Int) :
    ∀ (L : List (Int × Int)) (z0 : Int) (u : (ZMod n)ˣ),
      (∀ kv ∈ L, 0 ≤ kv.1 ∧ kv.1 < bases.length) → (z0 : ZMod n) = (u : ZMod n) →
      ∃ z, L.foldlM (fun (z : Int) (kv : Int × Int) => do
          let b ← idx what bases kv.1
          let t ← deref what' (goExp b (f kv) n)
          pure (z * t)) z0 = (.ok z : GoM Int) ∧
        (z : ZMod n) = ((u * repKV n bases f L : (ZMod n)ˣ) : ZMod n) := by
  intro L
  induction L with
  | nil =>
    intro z0 u _ hc
    exact ⟨z0, rfl, by simp [repKV_nil, hc]⟩
  | cons kv L ih =>
    intro z0 u hL hc
    obtain ⟨b, t, hb1, ht, _, _, tc⟩ :=
      idx_base hn bases hb what kv.1 (hL kv (by simp)).1 (hL kv (by simp)).2 (f kv)
    obtain ⟨z, hz, zc⟩ := ih _ _ (fun kv' h' => hL kv' (by simp [h'])) (mul_unit hc tc)
    refine ⟨z, ?_, ?_⟩
    · rw [List.foldlM_cons]
      simp only [hb1, ht, deref, bind, Except.bind, pure, Except.pure]
      exact hz
    · rw [zc, repKV_cons, mul_assoc]

theorem reconstructUcommit_go_nil (pk : PublicKey) (acc : Int) :
    ProofU.reconstructUcommit.go pk [] acc = .ok (some acc) := rfl

theorem reconstructUcommit_go_cons (pk : PublicKey) (i : Int) (r : Option Int) (rest : IntMap) (acc : Int) :
    ProofU.reconstructUcommit.go pk ((i, r) :: rest) acc =
      (idx "R[i]" pk.r i >>= fun b => deref "MUserResponse" r >>= fun r =>
        match modPow b r pk.n with
        | some t => ProofU.reconstructUcommit.go pk rest (acc * t % pk.n)
        | none => pure none) := rfl

/-- the product loop of `ProofU.reconstructUcommit` over responses `(i, some (g kv))`. -/
theorem reconstructUcommit_go_spec (pk : PublicKey) (hN : pk.n = n) (hn : 1 < n)
    (hb : ∀ b ∈ pk.r, IsUnit (b : ZMod n)) (g : Int × Int → Int) :
    ∀ (L : List (Int × Int)) (z0 : Int) (u : (ZMod n)ˣ),
      (∀ kv ∈ L, 0 ≤ kv.1 ∧ kv.1 < pk.r.length) → 0 ≤ z0 → z0 < n → (z0 : ZMod n) = (u : ZMod n) →
      ∃ z, ProofU.reconstructUcommit.go pk (L.map fun kv => (kv.1, some (g kv))) z0 = .ok (some z) ∧
        0 ≤ z ∧ z < n ∧ (z : ZMod n) = ((u * repKV n pk.r g L : (ZMod n)ˣ) : ZMod n) := by
  intro L
  induction L with
  | nil =>
    intro z0 u _ h0 h1 hc
    exact ⟨z0, rfl, h0, h1, by simp [repKV_nil, hc]⟩
  | cons kv L ih =>
    intro z0 u hL h0 h1 hc
    obtain ⟨b, t, hb1, ht, _, _, tc⟩ :=
      idx_base hn pk.r hb "R[i]" kv.1 (hL kv (by simp)).1 (hL kv (by simp)).2 (g kv)
    obtain ⟨m0, m1, mc⟩ := mul_emod_unit (by omega : 0 < n) hc tc
    obtain ⟨z, hz, z0', z1', zc⟩ := ih _ _ (fun kv' h' => hL kv' (by simp [h'])) m0 m1 mc
    refine ⟨z, ?_, z0', z1', ?_⟩
    · rw [List.map_cons, reconstructUcommit_go_cons]
      simp only [hb1, hN, modPow, ht, deref, bind, Except.bind, pure, Except.pure]
      exact hz
    · rw [zc, repKV_cons, mul_assoc]
theorem hashCommit_lt' (vs : List Int) (b : Bool) : hashCommit vs b < 2 ^ 256 := by
  have h := ofBytesBE_lt (Sha256.hash (hashCommitInput vs b))
  rw [Sha256.hash_length] at h
  have : (256 : Nat) ^ 32 = 2 ^ 256 := by norm_num
  unfold hashCommit; omega

theorem userCommitment_spec (pk : PublicKey) (secret vPrime : Int) (mUser : List (Int × Int))
    (hN : pk.n = n) (hn : 1 < n)
    (hs : IsUnit (pk.s : ZMod n)) (hr : ∀ x ∈ pk.r, IsUnit (x : ZMod n)) (hr0 : pk.r ≠ [])
    (hkeys : ∀ kv ∈ mUser, 0 ≤ kv.1 ∧ kv.1 < pk.r.length) :
    ∃ U, userCommitment pk secret vPrime mUser none = .ok U ∧ 0 ≤ U ∧ U < n ∧
      (U : ZMod n) = ((zunit n pk.s ^ vPrime * baseU n pk.r 0 ^ secret *
        repKV n pk.r (fun kv => kv.2) mUser : (ZMod n)ˣ) : ZMod n) := by
  have hlen : (0 : Int) < pk.r.length := by
    have := List.length_pos_iff.mpr hr0; exact_mod_cast this
  obtain ⟨r0, r0s, hr0i, hr0s, _, _, r0c⟩ := idx_base hn pk.r hr "R[0]" 0 (le_refl _) hlen secret
  obtain ⟨sv, hsv, _, _, svc⟩ := goExp_unit hn hs vPrime
  obtain ⟨z, hz, zc⟩ := foldlM_nomod_spec hn pk.r hr "R[i]" "Exp" (fun kv => kv.2) mUser
    (sv * r0s) _ hkeys (mul_unit svc r0c)
  refine ⟨z % n, ?_, (emod_range (by omega) _).1, (emod_range (by omega) _).2, ?_⟩
  · unfold userCommitment
    simp only [hN, hr0i, hsv, hr0s, deref, bind, Except.bind, pure, Except.pure]
    simp only [deref, bind, Except.bind, pure, Except.pure] at hz
    rw [hz]
  · rw [cast_emod, zc]

theorem commit_spec (pk : PublicKey) (b : CredBuilder) (skR : Int)
    (hN : pk.n = n) (hn : 1 < n)
    (hs : IsUnit (pk.s : ZMod n)) (hr : ∀ x ∈ pk.r, IsUnit (x : ZMod n)) (hr0 : pk.r ≠ [])
    (hkeys : ∀ kv ∈ b.mUser, 0 ≤ kv.1 ∧ kv.1 < pk.r.length) :
    ∃ Ut, b.commit pk skR = .ok [b.u, Ut] ∧ 0 ≤ Ut ∧ Ut < n ∧
      (Ut : ZMod n) = ((zunit n pk.s ^ b.vPrimeCommit * baseU n pk.r 0 ^ skR *
        repKV n pk.r (fun kv => (b.mUserCommit.lookup kv.1).getD 0) b.mUser : (ZMod n)ˣ) : ZMod n) := by
  have hlen : (0 : Int) < pk.r.length := by
    have := List.length_pos_iff.mpr hr0; exact_mod_cast this
  have hn0 : 0 < n := by omega
  obtain ⟨r0, r0s, hr0i, hr0s, _, _, r0c⟩ := idx_base hn pk.r hr "R[0]" 0 (le_refl _) hlen skR
  obtain ⟨sv, hsv, _, _, svc⟩ := goExp_unit hn hs b.vPrimeCommit
  have h1 : (((1 : Int) * sv : Int) : ZMod n) = ((zunit n pk.s ^ b.vPrimeCommit : (ZMod n)ˣ) : ZMod n) := by
    rw [one_mul, svc]
  obtain ⟨m0, m1, mc⟩ := mul_emod_unit hn0 h1 r0c
  obtain ⟨z, hz, z0, z1, zc⟩ := foldlM_mod_spec hn pk.r hr "R[i]" "Exp"
    (fun kv => (b.mUserCommit.lookup kv.1).getD 0) b.mUser _ _ hkeys m0 m1 mc
  refine ⟨z, ?_, z0, z1, zc⟩
  unfold CredBuilder.commit
  simp only [hN, hr0i, hsv, hr0s, deref, bind, Except.bind, pure, Except.pure, Option.getD_none]
  simp only [deref, bind, Except.bind, pure, Except.pure] at hz
  rw [hz]

theorem createProof_wellFormed (pk : PublicKey) (b : CredBuilder) (skR c : Int) (hr0 : pk.r ≠ [])
    (hkeys : ∀ kv ∈ b.mUser, 1 ≤ kv.1 ∧ kv.1 < pk.r.length) :
    (b.createProof skR c).wellFormed pk = true := by
  have h1 : pk.r.isEmpty = false := by
    cases hpr : pk.r with
    | nil => exact absurd hpr hr0
    | cons _ _ => rfl
  simp only [ProofU.wellFormed, CredBuilder.createProof, h1, Option.isSome_some, Bool.not_false,
    Bool.true_and, List.all_map, List.all_eq_true, Function.comp, Bool.and_eq_true,
    decide_eq_true_eq]
  intro kv hkv
  exact ⟨(hkeys kv hkv).1, (hkeys kv hkv).2⟩

theorem proofU_complete_aux (pk : PublicKey) (b : CredBuilder) (skR : Int) (ctx nonce : Int)
    (hN : pk.n = n) (hn : 1 < n)
    (hs : IsUnit (pk.s : ZMod n)) (hr : ∀ x ∈ pk.r, IsUnit (x : ZMod n)) (hr0 : pk.r ≠ [])
    (hkeys : ∀ kv ∈ b.mUser, 1 ≤ kv.1 ∧ kv.1 < pk.r.length)
    (hU : userCommitment pk b.secret b.vPrime b.mUser none = .ok b.u)
    (hvc0 : 0 ≤ b.vPrimeCommit) (hvc1 : b.vPrimeCommit < 2 ^ pk.params.LvPrimeCommit)
    (hv0 : 0 ≤ b.vPrime) (hv1 : b.vPrime < 2 ^ pk.params.LvPrime)
    (hpar : 256 + pk.params.LvPrime ≤ pk.params.LvPrimeCommit) :
    ∃ Ut, b.commit pk skR = .ok [b.u, Ut] ∧
      (b.createProof skR (createChallenge ctx nonce [b.u, Ut] false)).verify pk ctx nonce =
        .ok true := by
  have hkeys' : ∀ kv ∈ b.mUser, 0 ≤ kv.1 ∧ kv.1 < pk.r.length := fun kv h =>
    ⟨by have := (hkeys kv h).1; omega, (hkeys kv h).2⟩
  have hn0 : 0 < n := by omega
  obtain ⟨U, hU', U0, U1, Uc⟩ := userCommitment_spec pk b.secret b.vPrime b.mUser hN hn hs hr hr0 hkeys'
  rw [hU] at hU'
  obtain rfl := Except.ok.inj hU'
  obtain ⟨Ut, hUt, Ut0, Ut1, Utc⟩ := commit_spec pk b skR hN hn hs hr hr0 hkeys'
  refine ⟨Ut, hUt, ?_⟩
  set c : Int := (createChallenge ctx nonce [b.u, Ut] false : Int) with hc
  have hwf := createProof_wellFormed pk b skR c hr0 hkeys
  -- reconstruct
  have hlen : (0 : Int) < pk.r.length := by
    have := List.length_pos_iff.mpr hr0; exact_mod_cast this
  obtain ⟨r0, r0s, hr0i, hr0s, _, _, r0c⟩ :=
    idx_base hn pk.r hr "R[0]" 0 (le_refl _) hlen (skR + c * b.secret)
  obtain ⟨sv, hsv, _, _, svc⟩ := goExp_unit hn hs (b.vPrimeCommit + c * b.vPrime)
  obtain ⟨uc, huc, _, _, ucc⟩ := goExp_unit hn (isUnit_of_cast Uc) (-c)
  rw [zunit_of_cast Uc] at ucc
  obtain ⟨m0, m1, mc⟩ := mul_emod_unit hn0 (mul_unit ucc svc) r0c
  obtain ⟨z, hz, z0, z1, zc⟩ := reconstructUcommit_go_spec pk hN hn hr
    (fun kv => (b.mUserCommit.lookup kv.1).getD 0 + c * kv.2) b.mUser _ _ hkeys' m0 m1 mc
  have hzU : z = Ut := by
    apply eq_of_cast_eq z0 z1 Ut0 Ut1
    rw [zc, Utc]
    congr 1
    exact Alg.proofU_complete (fun kv : Int × Int => baseU n pk.r kv.1) b.mUser (fun kv => kv.2)
      (fun kv => (b.mUserCommit.lookup kv.1).getD 0)
  subst hzU
  have hrec : (b.createProof skR c).reconstructUcommit pk = .ok (some z) := by
    unfold ProofU.reconstructUcommit
    simp only [CredBuilder.createProof, hN, hr0i, modPow, huc, hsv, hr0s, deref, bind, Except.bind,
      pure, Except.pure]
    exact hz
  -- sizes
  have hcl : c < 2 ^ 256 := by
    have := hashCommit_lt' (ctx :: [b.u, z] ++ [nonce]) false
    rw [hc, createChallenge]; exact_mod_cast this
  have hc0 : 0 ≤ c := by rw [hc]; exact Int.natCast_nonneg _
  have hsz : 0 ≤ b.vPrimeCommit + c * b.vPrime ∧
      b.vPrimeCommit + c * b.vPrime ≤ 2 ^ (pk.params.LvPrimeCommit + 1) - 1 := by
    constructor
    · positivity
    · have h1 : c * b.vPrime ≤ 2 ^ 256 * 2 ^ pk.params.LvPrime :=
        mul_le_mul hcl.le hv1.le hv0 (by positivity)
      have h2 : (2 : Int) ^ 256 * 2 ^ pk.params.LvPrime ≤ 2 ^ pk.params.LvPrimeCommit := by
        rw [← pow_add]; exact pow_le_pow_right₀ (by norm_num) hpar
      have h3 : (2 : Int) ^ (pk.params.LvPrimeCommit + 1) = 2 * 2 ^ pk.params.LvPrimeCommit := by
        rw [pow_succ]; ring
      omega
  unfold ProofU.verify ProofU.challengeContribution ProofU.verifyWithChallenge
    ProofU.correctResponseSizes
  simp only [hwf, hrec, deref, bind, Except.bind, pure, Except.pure, Bool.not_true,
    Bool.false_eq_true, if_false]
  simp only [CredBuilder.createProof, ← hc]
  simp [hsz.1, hsz.2]

/-- `Issuer.proveSignature` succeeds when `A` is invertible and `e` is invertible mod `order`. -/
theorem proveSignature_isSome (pk : PublicKey) (order : Int) (sig : CLSignature)
    (ctx nonce2 eCommit : Int) (hN : pk.n = n) (hn : 1 < n) (ho : order ≠ 0)
    (hA : IsUnit (sig.a : ZMod n)) (he : Int.gcd sig.e order = 1) :
    ∃ ps, proveSignature pk order sig ctx nonce2 eCommit = some ps := by
  obtain ⟨q, hq, _, _, qc⟩ := goExp_unit hn hA sig.e
  obtain ⟨aC, haC, _⟩ := goExp_unit hn (isUnit_of_cast qc) eCommit
  cases hd : goModInverse sig.e order with
  | none => exact absurd he ((goModInverse_none_iff sig.e order ho).mp hd)
  | some d =>
    unfold proveSignature
    simp only [hN, hq, hd, haC, Option.bind_eq_bind, Option.bind_some, Option.pure_def]
    exact ⟨_, rfl⟩

end Gabi
