/-
  GabiProofs.RangeLemmas — helper lemmas about range (inequality) proofs
  (rangeproof/proof.go, rangeproof/splitutils.go, proofs.go:299-347) for the property files
  GabiProps.C12 / GabiProps.C13.

  Sections
   1. arithmetic of the three-square rescaling and `rangeProvable`
   2. the `int64` exponent of `rangeNewWithParams`
   3. `provesStatement` / `provenStatement` report only consequences of the established fact
   4. existence and size of square decompositions
   5. `wellFormed` and range proofs on non-hidden indices
   6. abstract algebra of `QrStructure` proofs (completeness, special soundness) and of the
      range-proof relation (extractor algebra)
   7. the exact shape of a successful `ProofD.rangeContributions`
-/
import GabiModel.Proofs
import GabiModel.Prover
import GabiModel.Generated
import GabiProofs.NumLemmas
import GabiProofs.MathUtilLemmas
import GabiProofs.VerifyLogic
import GabiProofs.GroupAlgebra
import GabiProofs.Bridge
import Mathlib.Algebra.Group.Basic
import Mathlib.Algebra.BigOperators.Group.List.Basic
import Mathlib.NumberTheory.SumFourSquares
import Mathlib.Tactic.Ring
import Mathlib.Tactic.Linarith
import Mathlib.Tactic.NormNum
import Mathlib.Tactic.LinearCombination

namespace Gabi

/-! ## 1. three-square rescaling, `rangeProvable` -/

theorem rescale_ge (m b : Int) : 4 * m - (4 * b - 2) ≥ 0 ↔ m ≥ b := by omega

theorem rescale_le (m b : Int) : -(4 * m - (4 * b - 2)) ≥ 0 ↔ m ≤ b - 1 := by omega

theorem rangeProvable_def (sign : Int) (factor : Nat) (bound m : Int) (table : Nat) :
    rangeProvable sign factor bound m table =
      (if sign ≠ 1 ∧ sign ≠ -1 then false else
       if table = 0 then
         if factor > 2 ^ 63 - 1 then false else
         decide (0 ≤ sign * ((factor : Int) * m - bound)) &&
           decide (sign * ((factor : Int) * m - bound) < 2 ^ 256)
       else
         if factor ≠ 1 then false else
         decide (0 ≤ sign * (4 * m - (4 * bound - 2))) &&
           decide (sign * (4 * m - (4 * bound - 2)) < (table : Int)) &&
           decide (sign * (4 * m - (4 * bound - 2)) % 4 = 2)) := rfl

/-- four squares (`table = 0`): exactly the true statements with a difference below `2^256`
    and a factor that fits `int64`. -/
theorem rangeProvable_four_iff (sign : Int) (factor : Nat) (bound m : Int) :
    rangeProvable sign factor bound m 0 = true ↔
      (sign = 1 ∨ sign = -1) ∧ factor ≤ 2 ^ 63 - 1 ∧
      0 ≤ sign * ((factor : Int) * m - bound) ∧ sign * ((factor : Int) * m - bound) < 2 ^ 256 := by
  rw [rangeProvable_def]
  by_cases hs : sign ≠ 1 ∧ sign ≠ -1
  · rw [if_pos hs]
    constructor
    · intro h; exact absurd h (by simp)
    · rintro ⟨h1 | h1, _⟩
      · exact absurd h1 hs.1
      · exact absurd h1 hs.2
  · rw [if_neg hs, if_pos rfl]
    have hs' : sign = 1 ∨ sign = -1 := by
      by_cases h1 : sign = 1
      · exact Or.inl h1
      · by_cases h2 : sign = -1
        · exact Or.inr h2
        · exact absurd ⟨h1, h2⟩ hs
    by_cases hf : factor > 2 ^ 63 - 1
    · rw [if_pos hf]
      constructor
      · intro h; exact absurd h (by simp)
      · rintro ⟨_, h2, _⟩; omega
    · rw [if_neg hf]
      simp only [Bool.and_eq_true, decide_eq_true_eq]
      constructor
      · rintro ⟨h1, h2⟩; exact ⟨hs', by omega, h1, h2⟩
      · rintro ⟨_, _, h1, h2⟩; exact ⟨h1, h2⟩

/-- three-square table with `table > 0` entries, factor 1: `≥` is provable iff `bound ≤ m` and
    the rescaled difference `4(m-bound)+2` is in the table; `≤` is provable iff `m ≤ bound-1`
    (sic) and the rescaled difference `4(bound-m)-2` is in the table. -/
theorem rangeProvable_table_iff (sign : Int) (bound m : Int) (table : Nat) (ht : 0 < table) :
    rangeProvable sign 1 bound m table = true ↔
      (sign = 1 ∧ bound ≤ m ∧ 4 * (m - bound) + 2 < (table : Int)) ∨
      (sign = -1 ∧ m ≤ bound - 1 ∧ 4 * (bound - m) - 2 < (table : Int)) := by
  rw [rangeProvable_def]
  by_cases hs : sign ≠ 1 ∧ sign ≠ -1
  · rw [if_pos hs]
    constructor
    · intro h; exact absurd h (by simp)
    · rintro (⟨h1, _⟩ | ⟨h1, _⟩)
      · exact absurd h1 hs.1
      · exact absurd h1 hs.2
  · rw [if_neg hs, if_neg (by omega : ¬ table = 0), if_neg (by simp : ¬ (1 : Nat) ≠ 1)]
    simp only [Bool.and_eq_true, decide_eq_true_eq]
    by_cases h1 : sign = 1
    · subst h1
      constructor
      · rintro ⟨⟨h1, h2⟩, _⟩; left; exact ⟨rfl, by omega, by omega⟩
      · rintro (⟨_, h1, h2⟩ | ⟨h1, _⟩)
        · exact ⟨⟨by omega, by omega⟩, by omega⟩
        · exact absurd h1 (by decide)
    · have h2 : sign = -1 := by
        by_cases h2 : sign = -1
        · exact h2
        · exact absurd ⟨h1, h2⟩ hs
      subst h2
      constructor
      · rintro ⟨⟨h1, h2⟩, _⟩; right; exact ⟨rfl, by omega, by omega⟩
      · rintro (⟨h1, _⟩ | ⟨_, h1, h2⟩)
        · exact absurd h1 (by decide)
        · exact ⟨⟨by omega, by omega⟩, by omega⟩

/-- factor ≠ 1 is never provable with the table. -/
theorem rangeProvable_table_factor (sign : Int) (factor : Nat) (bound m : Int) (table : Nat)
    (ht : 0 < table) (hf : factor ≠ 1) : rangeProvable sign factor bound m table = false := by
  rw [rangeProvable_def]
  by_cases hs : sign ≠ 1 ∧ sign ≠ -1
  · rw [if_pos hs]
  · rw [if_neg hs, if_neg (by omega : ¬ table = 0), if_pos hf]

/-- **known finding C13/three-square-le-at-equality**: with the three-square table `m ≤ b` is
    not provable at `m = b`, whatever the table size. -/
theorem rangeProvable_table_le_at_equality (b : Int) (table : Nat) (ht : 0 < table) :
    rangeProvable (-1) 1 b b table = false := by
  cases h : rangeProvable (-1) 1 b b table with
  | false => rfl
  | true =>
    rcases (rangeProvable_table_iff (-1) b b table ht).mp h with ⟨h1, _⟩ | ⟨_, h1, _⟩
    · exact absurd h1 (by decide)
    · omega

theorem rangeProvable_table_ge_at_equality (b : Int) (table : Nat) (ht : 2 < table) :
    rangeProvable 1 1 b b table = true :=
  (rangeProvable_table_iff 1 b b table (by omega)).mpr (Or.inl ⟨rfl, le_refl _, by omega⟩)

/-- … while four squares prove `m ≤ b` at `m = b`. -/
theorem rangeProvable_four_le_at_equality (b : Int) : rangeProvable (-1) 1 b b 0 = true := by
  rw [rangeProvable_four_iff]
  refine ⟨Or.inr rfl, by norm_num, ?_, ?_⟩
  · have : (-1 : Int) * (((1 : Nat) : Int) * b - b) = 0 := by push_cast; ring
    omega
  · have : (-1 : Int) * (((1 : Nat) : Int) * b - b) = 0 := by push_cast; ring
    rw [this]; positivity

/-! ## 2. the `int64` exponent of `rangeNewWithParams` -/

theorem power_exact (a : Nat) (sign : Int) (ha : a ≤ 2 ^ 63 - 1) (hs : sign = 1 ∨ sign = -1) :
    wrap64 (-(wrap64 (a : Int)) * wrap64 sign) = -(a : Int) * sign := by
  have ha' : (a : Int) ≤ 9223372036854775807 := by
    have : (2 : Nat) ^ 63 - 1 = 9223372036854775807 := by norm_num
    omega
  have h1 : wrap64 (a : Int) = a := wrap64_id (by rw [two_pow_63]; omega) (by rw [two_pow_63]; omega)
  rcases hs with rfl | rfl
  · have h2 : wrap64 1 = 1 := by decide
    rw [h1, h2]
    exact wrap64_id (by rw [two_pow_63]; omega) (by rw [two_pow_63]; omega)
  · have h2 : wrap64 (-1) = -1 := by decide
    rw [h1, h2]
    exact wrap64_id (by rw [two_pow_63]; omega) (by rw [two_pow_63]; omega)

/-- without the guard `a ≤ MaxInt64` the exponent wraps: factor `2^64-1` with sign `-1` yields
    the exponent `-1`, the one of factor `1` with sign `+1`. -/
theorem power_wraps_unguarded :
    wrap64 (-(wrap64 (((2 ^ 64 - 1 : Nat)) : Int)) * wrap64 (-1)) = -1 ∧
    wrap64 (-(wrap64 ((1 : Nat) : Int)) * wrap64 1) = -1 := by
  constructor <;> decide

theorem rangeNewWithParams_large (index sign : Int) (a : Nat) (k : Int) (nSplit ld : Nat)
    (ha : 2 ^ 63 ≤ a) : rangeNewWithParams index sign a k nSplit ld = none := by
  unfold rangeNewWithParams
  by_cases h1 : nSplit > 4
  · rw [if_pos h1]
  · rw [if_neg h1]
    by_cases h2 : sign ≠ 1 ∧ sign ≠ -1
    · rw [if_pos h2]
    · rw [if_neg h2, if_pos (by omega)]

/-- the structure built by `rangeNewWithParams`, with the mathematically intended exponent
    `-a·sign` of the attribute base. -/
theorem rangeNewWithParams_some {index sign : Int} {a : Nat} {k : Int} {nSplit ld : Nat}
    {s : RangeStructure} (h : rangeNewWithParams index sign a k nSplit ld = some s) :
    nSplit ≤ 4 ∧ (sign = 1 ∨ sign = -1) ∧ a ≤ 2 ^ 63 - 1 ∧
    s = { mCorrect := {
            lhs := [⟨"R" ++ toString index, if sign = 1 then -k else k⟩],
            rhs := [⟨"S", "v5", -1⟩, ⟨"R" ++ toString index, "m", -(a : Int) * sign⟩] ++
              (List.range nSplit).map (fun i => ⟨"C" ++ toString i, "d" ++ toString i, 1⟩) },
          cRep := (List.range nSplit).map (fun i =>
            { lhs := [⟨"C" ++ toString i, 1⟩],
              rhs := [⟨"R" ++ toString index, "d" ++ toString i, 1⟩, ⟨"S", "v" ++ toString i, 1⟩] }),
          index := index, sign := sign, a := a, k := k, ld := ld } := by
  unfold rangeNewWithParams at h
  by_cases h1 : nSplit > 4
  · rw [if_pos h1] at h; exact absurd h (by simp)
  · rw [if_neg h1] at h
    by_cases h2 : sign ≠ 1 ∧ sign ≠ -1
    · rw [if_pos h2] at h; exact absurd h (by simp)
    · rw [if_neg h2] at h
      by_cases h3 : a > 2 ^ 63 - 1
      · rw [if_pos h3] at h; exact absurd h (by simp)
      · rw [if_neg h3] at h
        have hs : sign = 1 ∨ sign = -1 := by
          by_cases h1 : sign = 1
          · exact Or.inl h1
          · by_cases h2' : sign = -1
            · exact Or.inr h2'
            · exact absurd ⟨h1, h2'⟩ h2
        have ha : a ≤ 2 ^ 63 - 1 := by omega
        refine ⟨by omega, hs, ha, ?_⟩
        simp only [Option.some.injEq] at h
        rw [← h, power_exact a sign ha hs]

/-- what `extractStructure` checked: descriptor sizes, 3 or 4 squares, factor 4 for three
    squares, sign `±1`, factor below `2^63`; and the structure is `rangeNewWithParams`. -/
theorem RangeProof.extractStructure_some {p : RangeProof} {index : Int} {pk : PublicKey}
    {s : RangeStructure} (h : p.extractStructure index pk = some s) :
    ∃ k, p.k = some k ∧ p.ld ≤ pk.params.Lm ∧ (p.cs.length = 3 ∨ p.cs.length = 4) ∧
      bitLen k ≤ pk.params.Lm + 64 ∧ (p.cs.length = 3 → p.a = 4) ∧
      rangeNewWithParams index p.sign p.a k p.cs.length p.ld = some s := by
  unfold RangeProof.extractStructure at h
  cases hk : p.k with
  | none => rw [hk] at h; exact absurd h (by simp)
  | some k =>
    rw [hk] at h
    simp only [Option.bind_eq_bind, Option.bind_some] at h
    split at h
    · exact absurd h (by simp)
    · next hc =>
      simp only [Bool.or_eq_true, decide_eq_true_eq, Bool.and_eq_true, not_or, not_and,
        not_lt, ne_eq, Decidable.not_not] at hc
      refine ⟨k, rfl, ?_, ?_, ?_, ?_, ?_⟩
      · omega
      · omega
      · omega
      · intro h3; simpa using hc.2 h3
      · simpa using h

/-! ## 3. `provesStatement` / `provenStatement` -/

theorem RangeProof.provesStatement_true {p : RangeProof} {sign : Int} {factor : Nat} {bound : Int}
    (h : p.provesStatement sign factor bound = true) :
    (sign = 1 ∨ sign = -1) ∧ p.sign = sign ∧ ∃ k, p.k = some k ∧
      ((p.cs.length = 3 ∧ factor ≤ (2 ^ 64 - 1) / 4 ∧ p.a = factor * 4 ∧
          (k = bound * 4 - 2 ∨ (if sign = 1 then k > bound * 4 - 2 else k < bound * 4 - 2))) ∨
       (p.cs.length ≠ 3 ∧ p.a = factor ∧
          (k = bound ∨ (if sign = 1 then k > bound else k < bound)))) := by
  unfold RangeProof.provesStatement at h
  by_cases hs : sign ≠ 1 ∧ sign ≠ -1
  · rw [if_pos hs] at h; exact absurd h (by simp)
  · rw [if_neg hs] at h
    have hs' : sign = 1 ∨ sign = -1 := by
      by_cases h1 : sign = 1
      · exact Or.inl h1
      · by_cases h2 : sign = -1
        · exact Or.inr h2
        · exact absurd ⟨h1, h2⟩ hs
    cases hk : p.k with
    | none => rw [hk] at h; exact absurd h (by simp)
    | some k =>
      rw [hk] at h
      simp only [] at h
      by_cases h3 : p.cs.length = 3
      · rw [if_pos h3] at h
        by_cases hf : factor > (2 ^ 64 - 1) / 4
        · rw [if_pos hf] at h; exact absurd h (by simp)
        · rw [if_neg hf] at h
          simp only [Bool.and_eq_true, Bool.or_eq_true, decide_eq_true_eq] at h
          refine ⟨hs', h.1.1, k, rfl, Or.inl ⟨h3, by omega, h.1.2, ?_⟩⟩
          rcases h.2 with h2 | h2
          · exact Or.inl h2
          · right
            by_cases h1 : sign = 1
            · simpa [h1] using h2
            · simpa [h1] using h2
      · rw [if_neg h3] at h
        simp only [Bool.and_eq_true, Bool.or_eq_true, decide_eq_true_eq] at h
        refine ⟨hs', h.1.1, k, rfl, Or.inr ⟨h3, h.1.2, ?_⟩⟩
        rcases h.2 with h2 | h2
        · exact Or.inl h2
        · right
          by_cases h1 : sign = 1
          · simpa [h1] using h2
          · simpa [h1] using h2

/-- every statement `provesStatement` accepts follows from the established fact
    `p.sign·(p.a·m − k) ≥ 0`, for every integer `m`. -/
theorem RangeProof.proves_sound {p : RangeProof} {m k : Int} {sign : Int} {factor : Nat} {bound : Int}
    (hk : p.k = some k) (hfact : p.sign * ((p.a : Int) * m - k) ≥ 0)
    (h : p.provesStatement sign factor bound = true) :
    sign * ((factor : Int) * m - bound) ≥ 0 := by
  obtain ⟨hs, hsign, k', hk', hcase⟩ := RangeProof.provesStatement_true h
  rw [hk] at hk'
  simp only [Option.some.injEq] at hk'
  subst hk'
  rw [hsign] at hfact
  rcases hcase with ⟨_, _, ha, hb⟩ | ⟨_, ha, hb⟩
  · rw [ha] at hfact
    push_cast at hfact
    have e : (factor : Int) * 4 * m = 4 * ((factor : Int) * m) := by ring
    rcases hs with rfl | rfl
    · simp only [if_true] at hb
      have : (factor : Int) * 4 * m - k ≥ 0 := by linarith
      rw [e] at this
      generalize (factor : Int) * m = t at this ⊢
      omega
    · simp only [show ¬ ((-1 : Int) = 1) by decide, if_false] at hb
      have : (factor : Int) * 4 * m - k ≤ 0 := by linarith
      rw [e] at this
      generalize (factor : Int) * m = t at this ⊢
      omega
  · rw [ha] at hfact
    generalize (factor : Int) * m = t at hfact ⊢
    rcases hs with rfl | rfl
    · simp only [if_true] at hb
      omega
    · simp only [show ¬ ((-1 : Int) = 1) by decide, if_false] at hb
      omega

theorem RangeProof.provenStatement_some {p : RangeProof} {sgn : Int} {f : Nat} {b : Int}
    (h : p.provenStatement = some (sgn, f, b)) :
    sgn = p.sign ∧ ∃ k, p.k = some k ∧
      ((p.cs.length = 3 ∧ f = p.a / 4 ∧ b = (k + 2) / 4) ∨ (p.cs.length ≠ 3 ∧ f = p.a ∧ b = k)) := by
  unfold RangeProof.provenStatement at h
  cases hk : p.k with
  | none => rw [hk] at h; exact absurd h (by simp)
  | some k =>
    rw [hk] at h
    simp only [Option.map_some, Option.some.injEq] at h
    by_cases h3 : p.cs.length = 3
    · rw [if_pos h3] at h
      simp only [Prod.mk.injEq] at h
      exact ⟨h.1.symm, k, rfl, Or.inl ⟨h3, h.2.1.symm, h.2.2.symm⟩⟩
    · rw [if_neg h3] at h
      simp only [Prod.mk.injEq] at h
      exact ⟨h.1.symm, k, rfl, Or.inr ⟨h3, h.2.1.symm, h.2.2.symm⟩⟩

/-- the statement `provenStatement` reports follows from the established fact (three squares:
    for the only factor the verifier accepts, `p.a = 4`), for every integer `m`. -/
theorem RangeProof.proven_statement_sound {p : RangeProof} {m k : Int} {sgn : Int} {f : Nat} {b : Int}
    (hk : p.k = some k) (hsign : p.sign = 1 ∨ p.sign = -1) (h3 : p.cs.length = 3 → p.a = 4)
    (hfact : p.sign * ((p.a : Int) * m - k) ≥ 0)
    (h : p.provenStatement = some (sgn, f, b)) :
    sgn * ((f : Int) * m - b) ≥ 0 := by
  obtain ⟨hs, k', hk', hcase⟩ := RangeProof.provenStatement_some h
  rw [hk] at hk'
  simp only [Option.some.injEq] at hk'
  subst hk' hs
  rcases hcase with ⟨hl, hf, hb⟩ | ⟨_, hf, hb⟩
  · have ha := h3 hl
    rw [ha] at hf hfact
    have hf1 : f = 1 := by omega
    subst hf1 hb
    push_cast at hfact ⊢
    rcases hsign with hs | hs <;> rw [hs] at hfact ⊢ <;> omega
  · subst hf hb
    exact hfact

/-- for the bound the honest prover sends (`k = 4·bound − 2`) the reported bound is `bound`. -/
theorem provenStatement_bound_roundtrip (bound : Int) : (bound * 4 - 2 + 2) / 4 = bound := by omega

/-! ## 4. square decompositions exist and are small -/

theorem sq_lt_sq_bound {x d : Nat} {n : Nat} (h : x ^ 2 ≤ d) (hd : d < 2 ^ (2 * n)) : x < 2 ^ n := by
  by_contra hx
  have hx : 2 ^ n ≤ x := Nat.le_of_not_lt hx
  have : (2 ^ n) ^ 2 ≤ x ^ 2 := Nat.pow_le_pow_left hx 2
  rw [← Nat.pow_mul, Nat.mul_comm] at this
  omega

/-- Lagrange: every `d < 2^(2n)` is a sum of four squares with roots of at most `n` bits. -/
theorem split_exists_nat (d n : Nat) (hd : d < 2 ^ (2 * n)) :
    ∃ a b c e : Nat, a ^ 2 + b ^ 2 + c ^ 2 + e ^ 2 = d ∧
      natBitLen a ≤ n ∧ natBitLen b ≤ n ∧ natBitLen c ≤ n ∧ natBitLen e ≤ n := by
  obtain ⟨a, b, c, e, h⟩ := Nat.sum_four_squares d
  refine ⟨a, b, c, e, h, ?_, ?_, ?_, ?_⟩ <;> rw [natBitLen_le_iff] <;>
    exact sq_lt_sq_bound (by omega) hd

/-- whatever four-square decomposition a (correct) splitter returns for `d < 2^(2n)`, every
    root passes the size check `bitLen dᵢ ≤ n` of `CommitmentsFromSecrets`. -/
theorem quadOk_small {d n : Nat} {q : Quad} (h : QuadOk d q) (hd : d < 2 ^ (2 * n)) :
    bitLen q.1 ≤ n ∧ bitLen q.2.1 ≤ n ∧ bitLen q.2.2.1 ≤ n ∧ bitLen q.2.2.2 ≤ n := by
  obtain ⟨h1, h2, h3, h4, hsum⟩ := h
  have key : ∀ x : Int, 0 ≤ x → x ^ 2 ≤ (d : Int) → bitLen x ≤ n := by
    intro x hx hxd
    rw [bitLen_eq_natBitLen, natBitLen_le_iff]
    apply sq_lt_sq_bound (d := d) _ hd
    have : ((x.natAbs ^ 2 : Nat) : Int) ≤ (d : Int) := by
      push_cast
      rw [sq_abs]; exact hxd
    exact_mod_cast this
  refine ⟨key _ h1 ?_, key _ h2 ?_, key _ h3 ?_, key _ h4 ?_⟩ <;> nlinarith [sq_nonneg q.1, sq_nonneg q.2.1, sq_nonneg q.2.2.1, sq_nonneg q.2.2.2]

/-! ## 5. `wellFormed` and range proofs on non-hidden indices -/

theorem ProofD.not_wellFormed_of_range_not_hidden {pk : PublicKey} {p : ProofD} {rps : RPMap}
    (hrps : p.rangeProofs = some rps) {kv : Int × List (Option RangeProof)} (hkv : kv ∈ rps)
    (hh : p.aResponses.has kv.1 = false) : p.wellFormed pk = false := by
  cases hw : p.wellFormed pk with
  | false => rfl
  | true =>
    obtain ⟨_, _, _, _, hR, _⟩ := (ProofD.wellFormed_iff pk p).mp hw
    rw [hrps] at hR
    have := (hR kv hkv).1
    rw [hh] at this
    exact absurd this (by simp)

theorem ProofD.not_wellFormed_of_range_disclosed {pk : PublicKey} {p : ProofD} {rps : RPMap}
    (hrps : p.rangeProofs = some rps) {kv : Int × List (Option RangeProof)} (hkv : kv ∈ rps)
    (hd : p.aDisclosed.has kv.1 = true) : p.wellFormed pk = false := by
  cases hw : p.wellFormed pk with
  | false => rfl
  | true =>
    obtain ⟨_, _, _, hD, hR, _⟩ := (ProofD.wellFormed_iff pk p).mp hw
    rw [hrps] at hR
    have h1 := (hR kv hkv).1
    unfold IntMap.has at hd
    cases hl : p.aDisclosed.lookup kv.1 with
    | none => rw [hl] at hd; exact absurd hd (by simp)
    | some v =>
      have h2 := (hD _ (lookup_mem hl)).2.2.2
      simp only at h2
      rw [h1] at h2
      exact absurd h2 (by simp)

theorem ProofD.not_wellFormed_of_range_outside {pk : PublicKey} {p : ProofD} {rps : RPMap}
    (hrps : p.rangeProofs = some rps) {kv : Int × List (Option RangeProof)} (hkv : kv ∈ rps)
    (ho : kv.1 < 0 ∨ (pk.r.length : Int) ≤ kv.1) : p.wellFormed pk = false := by
  cases hw : p.wellFormed pk with
  | false => rfl
  | true =>
    obtain ⟨_, _, hA, _, hR, _⟩ := (ProofD.wellFormed_iff pk p).mp hw
    rw [hrps] at hR
    have h1 := (hR kv hkv).1
    unfold IntMap.has at h1
    cases hl : p.aResponses.lookup kv.1 with
    | none => rw [hl] at h1; exact absurd h1 (by simp)
    | some v =>
      have h2 := hA _ (lookup_mem hl)
      simp only at h2
      omega

theorem ProofD.not_wellFormed_of_nil_rangeproof {pk : PublicKey} {p : ProofD} {rps : RPMap}
    (hrps : p.rangeProofs = some rps) {kv : Int × List (Option RangeProof)} (hkv : kv ∈ rps)
    (hn : none ∈ kv.2) : p.wellFormed pk = false := by
  cases hw : p.wellFormed pk with
  | false => rfl
  | true =>
    obtain ⟨_, _, _, _, hR, _⟩ := (ProofD.wellFormed_iff pk p).mp hw
    rw [hrps] at hR
    have := (hR kv hkv).2 none hn
    exact absurd this (by simp)

/-! ## 7. the exact shape of a successful `rangeContributions` -/

/-- what one range proof (with its extracted structure) contributes: it is non-nil, passes the
    structure check with `MResponse := mresp`, and `cs` are its reconstructed commitments for
    that `MResponse` and the challenge `c`. -/
def RangeStepRel (pk : PublicKey) (c mresp : Int) (x : RangeStructure × Option RangeProof)
    (cs : List Int) : Prop :=
  ∃ rp, x.2 = some rp ∧
    x.1.verifyProofStructure pk { rp with mResponse := some mresp } = true ∧
    x.1.commitmentsFromProof pk { rp with mResponse := some mresp } c = .ok cs

/-- what one attribute index contributes: nothing when the map has no entry for it; otherwise
    the hidden response of that index is `mresp` and the proofs stored for it contribute, in list
    order, with `MResponse := mresp`. -/
def RangeIndexRel (pk : PublicKey) (p : ProofD) (c : Int) (structs : List (Int × List RangeStructure))
    (rps : RPMap) (index : Int) (part : List Int) : Prop :=
  match structs.lookup index, rps.lookup index with
  | some ss, some proofs => ∃ mresp css, p.aResponses.get index = some mresp ∧
      List.Forall₂ (RangeStepRel pk c mresp) (ss.zip proofs) css ∧ part = css.flatten
  | _, _ => part = []

theorem rangeInner_ok_some' {pk : PublicKey} {c mresp : Int} {x : RangeStructure × Option RangeProof}
    {st : List Int × List (Option RangeProof)} {t : ForInStep (List Int × List (Option RangeProof))}
    (h : (rangeInner pk c mresp x st).run = .ok (some t)) :
    ∃ cs, RangeStepRel pk c mresp x cs ∧ ∃ l, t = .yield (st.1 ++ cs, l) := by
  unfold rangeInner at h
  rw [GoE.run_bind_ok_some_iff] at h
  obtain ⟨rp, hrp, h⟩ := h
  rw [GoE.run_liftM_ok_some_iff, deref_ok_iff] at hrp
  simp only [] at h
  split at h
  · rw [GoE.run_bind_ok_some_iff] at h
    obtain ⟨_, hf, _⟩ := h
    exact absurd hf (GoE.failure_ne _)
  · next hv =>
    rw [GoE.run_bind_ok_some_iff] at h
    obtain ⟨cs, hcs, h⟩ := h
    rw [GoE.run_liftM_ok_some_iff] at hcs
    rw [GoE.run_pure] at h
    simp only [Except.ok.injEq, Option.some.injEq] at h
    exact ⟨cs, ⟨rp, hrp, by simpa using hv, hcs⟩, _, h.symm⟩

theorem rangeInner_forIn {pk : PublicKey} {c mresp : Int} (xs : List (RangeStructure × Option RangeProof))
    {st st' : List Int × List (Option RangeProof)}
    (h : (forIn xs st (rangeInner pk c mresp)).run = .ok (some st')) :
    ∃ css, List.Forall₂ (RangeStepRel pk c mresp) xs css ∧ st'.1 = st.1 ++ css.flatten := by
  induction xs generalizing st with
  | nil =>
    rw [List.forIn_nil, GoE.run_pure] at h
    simp only [Except.ok.injEq, Option.some.injEq] at h
    subst h
    exact ⟨[], List.Forall₂.nil, by simp⟩
  | cons x rest ih =>
    rw [List.forIn_cons, GoE.run_bind_ok_some_iff] at h
    obtain ⟨t, ht, h⟩ := h
    obtain ⟨cs, hrel, l, rfl⟩ := rangeInner_ok_some' ht
    obtain ⟨css, hF, heq⟩ := ih h
    exact ⟨cs :: css, List.Forall₂.cons hrel hF, by rw [heq]; simp⟩

theorem rangeOuter_ok_some' {pk : PublicKey} {p : ProofD} {c : Int}
    {structs : List (Int × List RangeStructure)} {rps : RPMap} {index : Int} {st : List Int × RPMap}
    {t : ForInStep (List Int × RPMap)}
    (h : (rangeOuter pk p c structs rps index st).run = .ok (some t)) :
    ∃ part, RangeIndexRel pk p c structs rps index part ∧ ∃ m', t = .yield (st.1 ++ part, m') := by
  unfold rangeOuter at h
  unfold RangeIndexRel
  split at h
  · next ss proofs hss hproofs =>
    rw [GoE.run_bind_ok_some_iff] at h
    obtain ⟨mresp, hm, h⟩ := h
    rw [GoE.run_liftM_ok_some_iff, deref_ok_iff] at hm
    rw [GoE.run_bind_ok_some_iff] at h
    obtain ⟨st1, hst1, h⟩ := h
    rw [GoE.run_pure] at h
    simp only [Except.ok.injEq, Option.some.injEq] at h
    obtain ⟨css, hF, heq⟩ := rangeInner_forIn _ hst1
    simp only at heq
    refine ⟨css.flatten, ?_, _, by rw [← h, heq]⟩
    rw [hss, hproofs]
    exact ⟨mresp, css, hm, hF, rfl⟩
  · next hno =>
    rw [GoE.run_pure] at h
    simp only [Except.ok.injEq, Option.some.injEq] at h
    refine ⟨[], ?_, st.2, by rw [← h]; simp⟩
    split
    · next ss proofs hss hproofs => exact absurd hproofs (hno ss proofs hss)
    · rfl

theorem rangeOuter_forIn {pk : PublicKey} {p : ProofD} {c : Int}
    {structs : List (Int × List RangeStructure)} {rps : RPMap} (indices : List Int)
    {st st' : List Int × RPMap}
    (h : (forIn indices st (rangeOuter pk p c structs rps)).run = .ok (some st')) :
    ∃ parts, List.Forall₂ (RangeIndexRel pk p c structs rps) indices parts ∧
      st'.1 = st.1 ++ parts.flatten := by
  induction indices generalizing st with
  | nil =>
    rw [List.forIn_nil, GoE.run_pure] at h
    simp only [Except.ok.injEq, Option.some.injEq] at h
    subst h
    exact ⟨[], List.Forall₂.nil, by simp⟩
  | cons x rest ih =>
    rw [List.forIn_cons, GoE.run_bind_ok_some_iff] at h
    obtain ⟨t, ht, h⟩ := h
    obtain ⟨part, hrel, m', rfl⟩ := rangeOuter_ok_some' ht
    obtain ⟨parts, hF, heq⟩ := ih h
    exact ⟨part :: parts, List.Forall₂.cons hrel hF, by rw [heq]; simp⟩

/-- **shape of the range contributions**: the contributions are the concatenation, over
    `index = 0, 1, …, max hidden index` in increasing order, of the per-index parts; each part is
    the concatenation in list order of the commitments reconstructed from the proofs stored for
    that index, with `MResponse := AResponses[index]`. -/
theorem ProofD.rangeContributions_shape {pk : PublicKey} {p : ProofD} {c : Int}
    {rc : List Int} {rps' : Option RPMap} {rps : RPMap}
    (h : (p.rangeContributions pk c).run = .ok (some (rc, rps')))
    (hrps : p.rangeProofs = some rps) :
    ∃ structs parts, (extractAll pk rps).run = .ok (some structs) ∧
      List.Forall₂ (RangeIndexRel pk p c structs rps) p.rangeIndices parts ∧
      rc = parts.flatten := by
  rw [ProofD.rangeContributions_eq, hrps] at h
  simp only [] at h
  rw [GoE.run_bind_ok_some_iff] at h
  obtain ⟨structs, hstructs, h⟩ := h
  rw [GoE.run_bind_ok_some_iff] at h
  obtain ⟨st, hst, h⟩ := h
  rw [GoE.run_pure] at h
  simp only [Except.ok.injEq, Option.some.injEq, Prod.mk.injEq] at h
  obtain ⟨parts, hF, heq⟩ := rangeOuter_forIn _ hst
  exact ⟨structs, parts, hstructs, hF, by rw [← h.1, heq]; simp⟩

theorem ProofD.rangeContributions_none {pk : PublicKey} {p : ProofD} {c : Int}
    (hrps : p.rangeProofs = none) : (p.rangeContributions pk c).run = .ok (some ([], none)) := by
  rw [ProofD.rangeContributions_eq, hrps]; rfl

/-- the indices the loop visits are `0, 1, …, max` in increasing order. -/
theorem ProofD.rangeIndices_eq (p : ProofD) :
    p.rangeIndices = (List.range (p.maxAttribute.toNat + 1)).map (fun (i : Nat) => (i : Int)) := rfl

theorem ProofD.rangeIndices_sorted (p : ProofD) : p.rangeIndices.Pairwise (· < ·) := by
  rw [ProofD.rangeIndices_eq, List.pairwise_map]
  exact List.Pairwise.imp (fun h => by exact_mod_cast h) List.pairwise_lt_range

/-- per-index part when the entry is known: the structures are those extracted from the very
    proofs of the entry. -/
theorem RangeIndexRel.of_lookup {pk : PublicKey} {p : ProofD} {c : Int}
    {structs : List (Int × List RangeStructure)} {rps : RPMap}
    (hstructs : (extractAll pk rps).run = .ok (some structs))
    {index : Int} {proofs : List (Option RangeProof)} (hl : rps.lookup index = some proofs)
    {part : List Int} (h : RangeIndexRel pk p c structs rps index part) :
    ∃ ss mresp css, p.aResponses.get index = some mresp ∧
      List.Forall₂ (fun rp s => ∃ rp', rp = some rp' ∧ rp'.extractStructure index pk = some s) proofs ss ∧
      List.Forall₂ (RangeStepRel pk c mresp) (ss.zip proofs) css ∧ part = css.flatten := by
  have hF := extractAll_ok_some hstructs
  rcases forall₂_lookup hF index with ⟨hn, _⟩ | ⟨proofs', ss, hl', hss, hR⟩
  · rw [hl] at hn; simp at hn
  · rw [hl] at hl'
    simp only [Option.some.injEq] at hl'
    subst hl'
    unfold RangeIndexRel at h
    rw [hss, hl] at h
    obtain ⟨mresp, css, hm, hF2, hp⟩ := h
    exact ⟨ss, mresp, css, hm, hR, hF2, hp⟩

/-! ## 6. abstract algebra of `QrStructure` proofs and of the range-proof relation

  `G` is any commutative group (for the model: the unit group of `ZMod n`), `B` interprets base
  names, `val` interprets secret / response / randomiser names. -/

namespace QrAlg
open Gabi.Alg

variable {G : Type*} [CommGroup G]

/-- `∏ base^power` over the left-hand side. -/
def lhsProd (s : QrStructure) (B : String → G) : G :=
  (s.lhs.map fun l => B l.base ^ l.power).prod

/-- `∏ base^(power · val secret)` over the right-hand side. -/
def rhsProd (s : QrStructure) (B : String → G) (val : String → ℤ) : G :=
  rep (fun r : RhsContribution => B r.base) (fun r => r.power * val r.secret) s.rhs

/-- the relation a `QrStructure` proof is about: `∏ lhs = ∏ base^(power·secret)`. -/
def Holds (s : QrStructure) (B : String → G) (secret : String → ℤ) : Prop :=
  lhsProd s B = rhsProd s B secret

/-- shape of `commitmentFromProof`: `(∏ lhs)⁻¹ ^ c · ∏ base^(power·response)`. -/
def fromProof (s : QrStructure) (B : String → G) (c : ℤ) (resp : String → ℤ) : G :=
  (lhsProd s B)⁻¹ ^ c * rhsProd s B resp

/-- shape of `commitmentFromSecrets`: `∏ base^(power·randomiser)`. -/
def fromSecrets (s : QrStructure) (B : String → G) (rand : String → ℤ) : G :=
  rhsProd s B rand

theorem rhsProd_congr (s : QrStructure) (B : String → G) {v w : String → ℤ}
    (h : ∀ r ∈ s.rhs, v r.secret = w r.secret) : rhsProd s B v = rhsProd s B w :=
  rep_congr _ (fun r hr => by rw [h r hr])

/-- **completeness** of every `QrStructure` proof: honest responses `rand + c·secret` for
    secrets satisfying the relation reconstruct exactly the prover's commitment. -/
theorem qr_complete (s : QrStructure) (B : String → G) (c : ℤ) (secret rand resp : String → ℤ)
    (hrel : Holds s B secret)
    (hresp : ∀ r ∈ s.rhs, resp r.secret = rand r.secret + c * secret r.secret) :
    fromProof s B c resp = fromSecrets s B rand := by
  unfold fromProof fromSecrets
  unfold Holds at hrel
  rw [hrel]
  unfold rhsProd
  have e : rep (fun r : RhsContribution => B r.base) (fun r => r.power * resp r.secret) s.rhs =
      rep (fun r : RhsContribution => B r.base)
        (fun r => r.power * rand r.secret + c * (r.power * secret r.secret)) s.rhs :=
    rep_congr _ (fun r hr => by rw [hresp r hr]; ring)
  rw [e, rep_add, rep_const_mul]
  to_additive_goal
  module

/-- **special soundness**: two accepting transcripts with the same commitment give
    `(∏ lhs)^(c−c') = ∏ base^(power·(resp−resp'))`. -/
theorem qr_special_soundness (s : QrStructure) (B : String → G) (c c' : ℤ) (resp resp' : String → ℤ)
    (h : fromProof s B c resp = fromProof s B c' resp') :
    lhsProd s B ^ (c - c') = rhsProd s B (fun n => resp n - resp' n) := by
  unfold fromProof at h
  unfold rhsProd at h ⊢
  have e : rep (fun r : RhsContribution => B r.base) (fun r => r.power * (resp r.secret - resp' r.secret)) s.rhs =
      rep (fun r : RhsContribution => B r.base)
        (fun r => r.power * resp r.secret - r.power * resp' r.secret) s.rhs :=
    rep_congr _ (fun r _ => by ring)
  rw [e, rep_sub]
  have h := ofMul_congr h
  simp only [ofMul_mul, ofMul_zpow, ofMul_inv] at h
  to_additive_goal
  linear_combination (norm := module) (-1 : ℤ) • h

/-- **extraction**: if the response differences are multiples of the challenge difference
    (`resp − resp' = (c−c')·w`; this divisibility is what the strong-RSA argument provides), the
    witness `w` satisfies the relation up to an element of order dividing `c − c'`; in a group
    without such elements it satisfies the relation. -/
theorem qr_extract (s : QrStructure) (B : String → G) (c c' : ℤ) (resp resp' w : String → ℤ)
    (h : fromProof s B c resp = fromProof s B c' resp')
    (hdiv : ∀ r ∈ s.rhs, resp r.secret - resp' r.secret = (c - c') * w r.secret) :
    (lhsProd s B / rhsProd s B w) ^ (c - c') = 1 := by
  have h1 := qr_special_soundness s B c c' resp resp' h
  have e : rhsProd s B (fun n => resp n - resp' n) = rhsProd s B (fun n => (c - c') * w n) :=
    rhsProd_congr s B hdiv
  rw [e] at h1
  unfold rhsProd at h1 ⊢
  have e2 : rep (fun r : RhsContribution => B r.base) (fun r => r.power * ((c - c') * w r.secret)) s.rhs =
      rep (fun r : RhsContribution => B r.base) (fun r => (c - c') * (r.power * w r.secret)) s.rhs :=
    rep_congr _ (fun r _ => by ring)
  rw [e2, rep_const_mul] at h1
  rw [div_zpow, h1, div_self']

theorem qr_extract_holds (s : QrStructure) (B : String → G) (c c' : ℤ) (resp resp' w : String → ℤ)
    (h : fromProof s B c resp = fromProof s B c' resp')
    (hdiv : ∀ r ∈ s.rhs, resp r.secret - resp' r.secret = (c - c') * w r.secret)
    (htors : ∀ g : G, g ^ (c - c') = 1 → g = 1) : Holds s B w := by
  have := htors _ (qr_extract s B c c' resp resp' w h hdiv)
  exact div_eq_one.mp this

/-! ### the range-proof relation -/

theorem rep_map {ι κ : Type*} (R : κ → G) (m : κ → ℤ) (f : ι → κ) (l : List ι) :
    rep R m (l.map f) = rep (fun i => R (f i)) (fun i => m (f i)) l := by
  unfold rep
  rw [List.map_map]
  rfl

/-- `∏ Cᵢ^{dᵢ}` for `Cᵢ = R^{dᵢ}·S^{vᵢ}`. -/
theorem rep_commitments {R S : G} (C : ℕ → G) (d v : ℕ → ℤ) (l : List ℕ)
    (hC : ∀ i ∈ l, C i = R ^ d i * S ^ v i) :
    rep C d l = R ^ (l.map fun i => d i ^ 2).sum * S ^ (l.map fun i => d i * v i).sum := by
  induction l with
  | nil => simp
  | cons i l ih =>
    rw [rep_cons, ih (fun j hj => hC j (by simp [hj])), hC i (by simp)]
    simp only [List.map_cons, List.sum_cons]
    to_additive_goal
    module

/-- **extractor algebra** (item 1): witnesses of the sub-statements `Cᵢ = R^{dᵢ}S^{vᵢ}` and
    `R^e = S^{-v5}·R^{pw·m}·∏Cᵢ^{dᵢ}` give a relation between `R` and `S` alone. -/
theorem relation_exponents {R S : G} (C : ℕ → G) (d v : ℕ → ℤ) (n : ℕ) (e pw m v5 : ℤ)
    (hC : ∀ i < n, C i = R ^ d i * S ^ v i)
    (hrel : R ^ e = S ^ (-v5) * R ^ (pw * m) * rep C d (List.range n)) :
    R ^ (e - pw * m - ((List.range n).map fun i => d i ^ 2).sum) =
      S ^ (((List.range n).map fun i => d i * v i).sum - v5) := by
  rw [rep_commitments C d v _ (fun i hi => hC i (List.mem_range.mp hi))] at hrel
  have h := ofMul_congr hrel
  simp only [ofMul_mul, ofMul_zpow] at h
  to_additive_goal
  linear_combination (norm := module) (1 : ℤ) • h

theorem sum_sq_nonneg (d : ℕ → ℤ) (l : List ℕ) : 0 ≤ (l.map fun i => d i ^ 2).sum := by
  induction l with
  | nil => simp
  | cons i l ih => simp only [List.map_cons, List.sum_cons]; positivity

/-- the exponents `rangeNewWithParams` uses for `sign = ±1`. -/
theorem range_exponent_identity {sign : ℤ} (hs : sign = 1 ∨ sign = -1) (a k m D : ℤ) :
    (if sign = 1 then -k else k) - (-a * sign) * m - D = sign * (a * m - k) - D := by
  rcases hs with rfl | rfl
  · simp only [if_true]; ring
  · simp only [show ¬ ((-1 : ℤ) = 1) by decide, if_false]; ring

/-- **relation ⇒ inequality, or an explicit non-trivial relation between `R` and `S`**:
    for `sign = ±1`, extracted witnesses either satisfy `Σdᵢ² = sign·(a·m − k)` – so
    `sign·(a·m−k) ≥ 0` – or `(x, y)` with `x ≠ 0` and `R^x = S^y` has been found. -/
theorem relation_implies_inequality_or_relation {R S : G} (C : ℕ → G) (d v : ℕ → ℤ) (n : ℕ)
    {sign : ℤ} (hs : sign = 1 ∨ sign = -1) (a k m v5 : ℤ)
    (hC : ∀ i < n, C i = R ^ d i * S ^ v i)
    (hrel : R ^ (if sign = 1 then -k else k) =
      S ^ (-v5) * R ^ ((-a * sign) * m) * rep C d (List.range n)) :
    (((List.range n).map fun i => d i ^ 2).sum = sign * (a * m - k) ∧ 0 ≤ sign * (a * m - k)) ∨
    (∃ x y : ℤ, x ≠ 0 ∧ R ^ x = S ^ y ∧
      x = sign * (a * m - k) - ((List.range n).map fun i => d i ^ 2).sum ∧
      y = ((List.range n).map fun i => d i * v i).sum - v5) := by
  have h := relation_exponents C d v n _ _ m v5 hC hrel
  rw [range_exponent_identity hs] at h
  by_cases hx : sign * (a * m - k) - ((List.range n).map fun i => d i ^ 2).sum = 0
  · left
    have : ((List.range n).map fun i => d i ^ 2).sum = sign * (a * m - k) := by omega
    exact ⟨this, by rw [← this]; exact sum_sq_nonneg d _⟩
  · right
    exact ⟨_, _, hx, h, rfl, rfl⟩

/-- **relation ⇒ inequality** under the hypothesis that `R` and `S` have no non-trivial
    relation with a left exponent of absolute value at most `bnd` (the size of the extracted
    exponents). -/
theorem relation_implies_inequality {R S : G} (C : ℕ → G) (d v : ℕ → ℤ) (n : ℕ)
    {sign : ℤ} (hs : sign = 1 ∨ sign = -1) (a k m v5 : ℤ) (bnd : ℤ)
    (hindep : ∀ x y : ℤ, |x| ≤ bnd → R ^ x = S ^ y → x = 0)
    (hsize : |sign * (a * m - k) - ((List.range n).map fun i => d i ^ 2).sum| ≤ bnd)
    (hC : ∀ i < n, C i = R ^ d i * S ^ v i)
    (hrel : R ^ (if sign = 1 then -k else k) =
      S ^ (-v5) * R ^ ((-a * sign) * m) * rep C d (List.range n)) :
    ((List.range n).map fun i => d i ^ 2).sum = sign * (a * m - k) ∧ 0 ≤ sign * (a * m - k) := by
  rcases relation_implies_inequality_or_relation C d v n hs a k m v5 hC hrel with h | ⟨x, y, hx, hxy, ex, _⟩
  · exact h
  · exact absurd (hindep x y (by rw [ex]; exact hsize) hxy) hx

/-- the unbounded form of the hypothesis (`hrel` of the task statement). -/
theorem relation_implies_inequality' {R S : G} (C : ℕ → G) (d v : ℕ → ℤ) (n : ℕ)
    {sign : ℤ} (hs : sign = 1 ∨ sign = -1) (a k m v5 : ℤ)
    (hindep : ∀ x y : ℤ, R ^ x = S ^ y → x = 0 ∧ y = 0)
    (hC : ∀ i < n, C i = R ^ d i * S ^ v i)
    (hrel : R ^ (if sign = 1 then -k else k) =
      S ^ (-v5) * R ^ ((-a * sign) * m) * rep C d (List.range n)) :
    ((List.range n).map fun i => d i ^ 2).sum = sign * (a * m - k) ∧ 0 ≤ sign * (a * m - k) := by
  rcases relation_implies_inequality_or_relation C d v n hs a k m v5 hC hrel with h | ⟨x, y, hx, hxy, _, _⟩
  · exact h
  · exact absurd (hindep x y hxy).1 hx

/-- **honest relation** (completeness algebra, item 10): a square decomposition of the
    difference with `v5 = Σdᵢvᵢ` satisfies the `mCorrect` relation. -/
theorem honest_range_relation {R S : G} (C : ℕ → G) (d v : ℕ → ℤ) (n : ℕ)
    {sign : ℤ} (hs : sign = 1 ∨ sign = -1) (a k m v5 : ℤ)
    (hC : ∀ i < n, C i = R ^ d i * S ^ v i)
    (hsq : ((List.range n).map fun i => d i ^ 2).sum = sign * (a * m - k))
    (hv5 : v5 = ((List.range n).map fun i => d i * v i).sum) :
    R ^ (if sign = 1 then -k else k) =
      S ^ (-v5) * R ^ ((-a * sign) * m) * rep C d (List.range n) := by
  rw [rep_commitments C d v _ (fun i hi => hC i (List.mem_range.mp hi)), hsq, ← hv5]
  have e : (if sign = 1 then -k else k) = (-a * sign) * m + sign * (a * m - k) := by
    rcases hs with rfl | rfl
    · simp only [if_true]; ring
    · simp only [show ¬ ((-1 : ℤ) = 1) by decide, if_false]; ring
  rw [e]
  to_additive_goal
  module

/-! ### the structures built by `rangeNewWithParams`, interpreted -/

section model
variable (B : String → G) (val : String → ℤ)

theorem holds_mCorrect_iff {index sign : Int} {a : Nat} {k : Int} {n ld : Nat} {s : RangeStructure}
    (h : rangeNewWithParams index sign a k n ld = some s) :
    Holds s.mCorrect B val ↔
      B ("R" ++ toString index) ^ (if sign = 1 then -k else k) =
        B "S" ^ (-(val "v5")) * B ("R" ++ toString index) ^ ((-(a : ℤ) * sign) * val "m") *
          rep (fun i : ℕ => B ("C" ++ toString i)) (fun i => val ("d" ++ toString i)) (List.range n) := by
  obtain ⟨_, _, _, rfl⟩ := rangeNewWithParams_some h
  unfold Holds lhsProd rhsProd
  simp only [List.map_cons, List.map_nil, List.prod_cons, List.prod_nil, mul_one,
    List.cons_append, List.nil_append, rep_cons, rep_map, neg_mul, one_mul, mul_assoc]

theorem holds_cRep_iff {index sign : Int} {a : Nat} {k : Int} {n ld : Nat} {s : RangeStructure}
    (h : rangeNewWithParams index sign a k n ld = some s) :
    (∀ q ∈ s.cRep, Holds q B val) ↔
      ∀ i < n, B ("C" ++ toString i) =
        B ("R" ++ toString index) ^ val ("d" ++ toString i) * B "S" ^ val ("v" ++ toString i) := by
  obtain ⟨_, _, _, rfl⟩ := rangeNewWithParams_some h
  simp only [List.mem_map, List.mem_range, forall_exists_index, and_imp]
  constructor
  · intro hq i hi
    have := hq _ i hi rfl
    unfold Holds lhsProd rhsProd at this
    simpa using this
  · rintro hq _ i hi rfl
    unfold Holds lhsProd rhsProd
    simpa using hq i hi

/-- **soundness of the range structure**: secrets satisfying all sub-statements of a structure
    built by `rangeNewWithParams` satisfy `Σdᵢ² = sign·(a·m − k) ≥ 0`, or yield an explicit
    non-trivial relation between the attribute base and `S`. -/
theorem range_structure_sound {index sign : Int} {a : Nat} {k : Int} {n ld : Nat} {s : RangeStructure}
    (h : rangeNewWithParams index sign a k n ld = some s)
    (hm : Holds s.mCorrect B val) (hc : ∀ q ∈ s.cRep, Holds q B val) :
    (((List.range n).map fun i => val ("d" ++ toString i) ^ 2).sum = sign * ((a : ℤ) * val "m" - k) ∧
      0 ≤ sign * ((a : ℤ) * val "m" - k)) ∨
    (∃ x y : ℤ, x ≠ 0 ∧ B ("R" ++ toString index) ^ x = B "S" ^ y) := by
  obtain ⟨_, hs, _, _⟩ := rangeNewWithParams_some h
  rw [holds_mCorrect_iff B val h] at hm
  rw [holds_cRep_iff B val h] at hc
  rcases relation_implies_inequality_or_relation (fun i : ℕ => B ("C" ++ toString i))
    (fun i => val ("d" ++ toString i)) (fun i => val ("v" ++ toString i)) n hs a k (val "m")
    (val "v5") hc hm with h1 | ⟨x, y, hx, hxy, _, _⟩
  · exact Or.inl h1
  · exact Or.inr ⟨x, y, hx, hxy⟩

/-- **completeness of the range structure**: an honest decomposition satisfies every
    sub-statement. -/
theorem range_structure_complete {index sign : Int} {a : Nat} {k : Int} {n ld : Nat} {s : RangeStructure}
    (h : rangeNewWithParams index sign a k n ld = some s)
    (hC : ∀ i < n, B ("C" ++ toString i) =
        B ("R" ++ toString index) ^ val ("d" ++ toString i) * B "S" ^ val ("v" ++ toString i))
    (hsq : ((List.range n).map fun i => val ("d" ++ toString i) ^ 2).sum =
      sign * ((a : ℤ) * val "m" - k))
    (hv5 : val "v5" = ((List.range n).map fun i => val ("d" ++ toString i) * val ("v" ++ toString i)).sum) :
    Holds s.mCorrect B val ∧ ∀ q ∈ s.cRep, Holds q B val := by
  obtain ⟨_, hs, _, _⟩ := rangeNewWithParams_some h
  refine ⟨?_, (holds_cRep_iff B val h).mpr hC⟩
  rw [holds_mCorrect_iff B val h]
  exact honest_range_relation (fun i : ℕ => B ("C" ++ toString i))
    (fun i => val ("d" ++ toString i)) (fun i => val ("v" ++ toString i)) n hs a k (val "m")
    (val "v5") hC hsq hv5

end model

end QrAlg

/-! ## 8. bridge: the model's `commitmentFromProof` / `commitmentFromSecrets` compute the
  abstract shapes of section 6 in the unit group of `ZMod n` -/

namespace QrBridge
open QrAlg Gabi.Alg

variable {n : ℕ}

/-- interpretation of base names in `(ZMod n)ˣ` (junk `1` for unknown names). -/
noncomputable def unitBases (n : ℕ) (bases : String → Option Int) : String → (ZMod n)ˣ :=
  fun name => zunit n ((bases name).getD 1)

/-- interpretation of response / randomiser names (junk `0` for unknown names). -/
def intVals (results : String → Option Int) : String → ℤ := fun name => (results name).getD 0

/-- every base the structure mentions is known and invertible modulo `n`. -/
def BasesOk (n : ℕ) (s : QrStructure) (bases : String → Option Int) : Prop :=
  (∀ l ∈ s.lhs, ∃ b, bases l.base = some b ∧ IsUnit (b : ZMod n)) ∧
  (∀ r ∈ s.rhs, ∃ b, bases r.base = some b ∧ IsUnit (b : ZMod n))

theorem expInto_unit (hn : 1 < n) {bases : String → Option Int} {name : String} {b : Int}
    (hb : bases name = some b) (hu : IsUnit (b : ZMod n)) (prev e : Int) :
    0 ≤ expInto prev (bases name) e n ∧ expInto prev (bases name) e n < n ∧
    ((expInto prev (bases name) e n : Int) : ZMod n) =
      ((unitBases n bases name ^ e : (ZMod n)ˣ) : ZMod n) := by
  obtain ⟨r, hr, h0, h1, hc⟩ := goExp_unit hn hu e
  unfold expInto unitBases
  rw [hb]
  simp only [hr, Option.getD_some]
  exact ⟨h0, h1, hc⟩

theorem lhs_fold_cast (hn : 1 < n) (bases : String → Option Int) (ls : List LhsContribution)
    (hl : ∀ l ∈ ls, ∃ b, bases l.base = some b ∧ IsUnit (b : ZMod n))
    (acc : Int × Int) (u : (ZMod n)ˣ) (hacc : (acc.1 : ZMod n) = (u : ZMod n)) :
    (((ls.foldl (fun (acc : Int × Int) l =>
        let tmp := expInto acc.2 (bases l.base) l.power n
        (acc.1 * tmp % n, tmp)) acc).1 : Int) : ZMod n) =
      ((u * (ls.map fun l => unitBases n bases l.base ^ l.power).prod : (ZMod n)ˣ) : ZMod n) := by
  induction ls generalizing acc u with
  | nil => simpa using hacc
  | cons l rest ih =>
    rw [List.foldl_cons]
    obtain ⟨b, hb, hu⟩ := hl l (List.mem_cons_self ..)
    obtain ⟨_, _, hc⟩ := expInto_unit hn hb hu acc.2 l.power
    have := ih (fun l' hl' => hl l' (List.mem_cons_of_mem _ hl'))
      (acc.1 * expInto acc.2 (bases l.base) l.power n % n, expInto acc.2 (bases l.base) l.power n)
      (u * unitBases n bases l.base ^ l.power)
      (mul_emod_unit (by omega) hacc hc).2.2
    rw [this, List.map_cons, List.prod_cons, mul_assoc]

theorem rhs_go_cast (hn : 1 < n) (bases results : String → Option Int) (rs : List RhsContribution)
    (hr : ∀ r ∈ rs, ∃ b, bases r.base = some b ∧ IsUnit (b : ZMod n))
    (hres : ∀ r ∈ rs, (results r.secret).isSome)
    (commitment contribution : Int) (u : (ZMod n)ˣ)
    (h0 : 0 ≤ commitment) (h1 : commitment < n) (hacc : (commitment : ZMod n) = (u : ZMod n)) :
    ∃ v, QrStructure.commitmentFromProof.go n bases results rs commitment contribution = .ok v ∧
      0 ≤ v ∧ v < n ∧
      (v : ZMod n) = ((u * rep (fun r : RhsContribution => unitBases n bases r.base)
        (fun r => r.power * intVals results r.secret) rs : (ZMod n)ˣ) : ZMod n) := by
  induction rs generalizing commitment contribution u with
  | nil =>
    refine ⟨commitment, rfl, h0, h1, ?_⟩
    simpa using hacc
  | cons r rest ih =>
    unfold QrStructure.commitmentFromProof.go
    obtain ⟨b, hb, hu⟩ := hr r (List.mem_cons_self ..)
    have hsome := hres r (List.mem_cons_self ..)
    obtain ⟨res, hresv⟩ := Option.isSome_iff_exists.mp hsome
    rw [hresv, deref_some, GoM.ok_bind]
    obtain ⟨_, _, hc⟩ := expInto_unit hn hb hu contribution (r.power * res)
    obtain ⟨m0, m1, mc⟩ := mul_emod_unit (by omega : 0 < n) hacc hc
    obtain ⟨v, hv, v0, v1, vc⟩ := ih (fun r' hr' => hr r' (List.mem_cons_of_mem _ hr'))
      (fun r' hr' => hres r' (List.mem_cons_of_mem _ hr')) _
      (expInto contribution (bases r.base) (r.power * res) n) _ m0 m1 mc
    refine ⟨v, hv, v0, v1, ?_⟩
    rw [vc, rep_cons, mul_assoc]
    have : intVals results r.secret = res := by unfold intVals; rw [hresv]; rfl
    rw [this]

theorem secrets_go_cast (hn : 1 < n) (bases rnd : String → Option Int) (rs : List RhsContribution)
    (hr : ∀ r ∈ rs, ∃ b, bases r.base = some b ∧ IsUnit (b : ZMod n))
    (hres : ∀ r ∈ rs, (rnd r.secret).isSome)
    (commitment contribution : Int) (u : (ZMod n)ˣ)
    (hacc : (commitment : ZMod n) = (u : ZMod n)) :
    ∃ v, QrStructure.commitmentFromSecrets.go n bases rnd rs commitment contribution = .ok v ∧
      (v : ZMod n) = ((u * rep (fun r : RhsContribution => unitBases n bases r.base)
        (fun r => r.power * intVals rnd r.secret) rs : (ZMod n)ˣ) : ZMod n) ∧
      (rs ≠ [] → 0 ≤ v ∧ v < n) := by
  induction rs generalizing commitment contribution u with
  | nil =>
    refine ⟨commitment, rfl, ?_, fun h => absurd rfl h⟩
    simpa using hacc
  | cons r rest ih =>
    unfold QrStructure.commitmentFromSecrets.go
    obtain ⟨b, hb, hu⟩ := hr r (List.mem_cons_self ..)
    have hsome := hres r (List.mem_cons_self ..)
    obtain ⟨res, hresv⟩ := Option.isSome_iff_exists.mp hsome
    rw [hresv, deref_some, GoM.ok_bind]
    obtain ⟨_, _, hc⟩ := expInto_unit hn hb hu contribution (r.power * res)
    obtain ⟨m0, m1, mc⟩ := mul_emod_unit (by omega : 0 < n) hacc hc
    obtain ⟨v, hv, vc, vr⟩ := ih (fun r' hr' => hr r' (List.mem_cons_of_mem _ hr'))
      (fun r' hr' => hres r' (List.mem_cons_of_mem _ hr')) _
      (expInto contribution (bases r.base) (r.power * res) n) _ mc
    refine ⟨v, hv, ?_, fun _ => ?_⟩
    · rw [vc, rep_cons, mul_assoc]
      have : intVals rnd r.secret = res := by unfold intVals; rw [hresv]; rfl
      rw [this]
    · cases rest with
      | nil =>
        unfold QrStructure.commitmentFromSecrets.go at hv
        simp only [GoM.pure_eq_ok, Except.ok.injEq] at hv
        rw [← hv]; exact ⟨m0, m1⟩
      | cons _ _ => exact vr (by simp)

/-- **bridge for the verifier**: for known invertible bases and present responses the model's
    reconstructed commitment is the representative in `[0,n)` of
    `(∏ lhs)⁻¹ ^ c · ∏ base^(power·response)` computed in `(ZMod n)ˣ`. -/
theorem commitmentFromProof_cast (hn : 1 < n) (s : QrStructure) (c : Int)
    (bases results : String → Option Int) (hb : BasesOk n s bases)
    (hres : ∀ r ∈ s.rhs, (results r.secret).isSome) :
    ∃ v, s.commitmentFromProof n c bases results = .ok v ∧ 0 ≤ v ∧ v < n ∧
      (v : ZMod n) = ((fromProof s (unitBases n bases) c (intVals results) : (ZMod n)ˣ) : ZMod n) := by
  unfold QrStructure.commitmentFromProof
  simp only []
  have hL := lhs_fold_cast hn bases s.lhs hb.1 ((1 : Int), (0 : Int)) 1 (by simp)
  rw [one_mul] at hL
  obtain ⟨inv, hinv, _, _, hic⟩ := goModInverse_unit (by omega : 0 < n) (isUnit_of_cast hL)
  rw [zunit_of_cast hL] at hic
  rw [hinv]
  simp only [Option.getD_some]
  obtain ⟨r, hr, r0, r1, hrc⟩ := goExp_unit hn (isUnit_of_cast hic) c
  rw [zunit_of_cast hic] at hrc
  rw [hr]
  simp only [Option.getD_some]
  obtain ⟨v, hv, v0, v1, vc⟩ := rhs_go_cast hn bases results s.rhs hb.2 hres r 0 _ r0 r1 hrc
  exact ⟨v, hv, v0, v1, vc⟩

/-- **bridge for the prover**: the model's `commitmentFromSecrets` is `∏ base^(power·randomiser)`
    in `(ZMod n)ˣ`. -/
theorem commitmentFromSecrets_cast (hn : 1 < n) (s : QrStructure)
    (bases rnd : String → Option Int) (hb : BasesOk n s bases)
    (hres : ∀ r ∈ s.rhs, (rnd r.secret).isSome) :
    ∃ v, s.commitmentFromSecrets n bases rnd = .ok v ∧
      (v : ZMod n) = ((fromSecrets s (unitBases n bases) (intVals rnd) : (ZMod n)ˣ) : ZMod n) ∧
      (s.rhs ≠ [] → 0 ≤ v ∧ v < n) := by
  unfold QrStructure.commitmentFromSecrets
  obtain ⟨v, hv, vc, vr⟩ := secrets_go_cast hn bases rnd s.rhs hb.2 hres 1 0 1 (by simp)
  rw [one_mul] at vc
  exact ⟨v, hv, vc, vr⟩

/-- **model-level completeness of a `QrStructure` proof**: if the secrets satisfy the relation
    in `(ZMod n)ˣ` and the responses are `randomiser + c·secret`, the verifier's
    `commitmentFromProof` returns exactly the prover's `commitmentFromSecrets`. -/
theorem commitment_roundtrip (hn : 1 < n) (s : QrStructure) (hne : s.rhs ≠ []) (c : Int)
    (bases rnd secrets results : String → Option Int) (hb : BasesOk n s bases)
    (hrnd : ∀ r ∈ s.rhs, (rnd r.secret).isSome)
    (hres : ∀ r ∈ s.rhs, (results r.secret).isSome)
    (hresp : ∀ r ∈ s.rhs, intVals results r.secret = intVals rnd r.secret + c * intVals secrets r.secret)
    (hrel : Holds s (unitBases n bases) (intVals secrets)) :
    ∃ v, s.commitmentFromSecrets n bases rnd = .ok v ∧ s.commitmentFromProof n c bases results = .ok v := by
  obtain ⟨v, hv, vc, vr⟩ := commitmentFromSecrets_cast hn s bases rnd hb hrnd
  obtain ⟨w, hw, w0, w1, wc⟩ := commitmentFromProof_cast hn s c bases results hb hres
  have := qr_complete s (unitBases n bases) c (intVals secrets) (intVals rnd) (intVals results) hrel hresp
  rw [this, ← vc] at wc
  obtain ⟨v0, v1⟩ := vr hne
  have : w = v := eq_of_cast_eq w0 w1 v0 v1 wc
  subst this
  exact ⟨w, hv, hw⟩

/-- **model-level special soundness**: two transcripts (challenges `c`, `c'`) for which the
    model reconstructs the same commitment give `(∏ lhs)^(c−c') = ∏ base^(power·(resp−resp'))` in
    `(ZMod n)ˣ`. -/
theorem commitment_special_soundness (hn : 1 < n) (s : QrStructure) (c c' : Int)
    (bases results results' : String → Option Int) (hb : BasesOk n s bases)
    (hres : ∀ r ∈ s.rhs, (results r.secret).isSome)
    (hres' : ∀ r ∈ s.rhs, (results' r.secret).isSome)
    (h : s.commitmentFromProof n c bases results = s.commitmentFromProof n c' bases results') :
    lhsProd s (unitBases n bases) ^ (c - c') =
      rhsProd s (unitBases n bases) (fun nm => intVals results nm - intVals results' nm) := by
  obtain ⟨v, hv, _, _, vc⟩ := commitmentFromProof_cast hn s c bases results hb hres
  obtain ⟨w, hw, _, _, wc⟩ := commitmentFromProof_cast hn s c' bases results' hb hres'
  rw [hv, hw] at h
  simp only [Except.ok.injEq] at h
  subst h
  apply qr_special_soundness
  apply Units.ext
  rw [← vc, ← wc]

end QrBridge

/-! ## 9. a non-invertible commitment `Cᵢ` voids the check (defect, see GabiProps.C12)

  `verifyProofStructure` bounds the size of `Cᵢ` but never checks that it is invertible. For
  `Cᵢ = 0` every reconstructed commitment is `0`, whatever `k`, `sign`, `a` and the responses. -/

theorem commitmentFromProof_go_zero (n : Int) (bases results : String → Option Int)
    (rs : List RhsContribution) (contribution : Int) (hres : ∀ r ∈ rs, (results r.secret).isSome) :
    QrStructure.commitmentFromProof.go n bases results rs 0 contribution = .ok 0 := by
  induction rs generalizing contribution with
  | nil => rfl
  | cons r rest ih =>
    unfold QrStructure.commitmentFromProof.go
    obtain ⟨res, hr⟩ := Option.isSome_iff_exists.mp (hres r (List.mem_cons_self ..))
    rw [hr, deref_some, GoM.ok_bind]
    simp only [Int.zero_mul, Int.zero_emod]
    exact ih _ (fun r' hr' => hres r' (List.mem_cons_of_mem _ hr'))

theorem goExp_zero_pos {n e : Int} (hn : 0 < n) (he : 0 < e) : goExp 0 e n = some 0 := by
  rw [goExp_nonneg 0 e n hn (le_of_lt he)]
  have : e.toNat ≠ 0 := by omega
  rw [zero_pow this]
  simp

theorem commitmentFromProof_go_zero_base {n : Int} (hn : 0 < n) (bases results : String → Option Int)
    (pre post : List RhsContribution) (r : RhsContribution) {res : Int}
    (hb : bases r.base = some 0) (hr : results r.secret = some res) (hpos : 0 < r.power * res)
    (hpre : ∀ r' ∈ pre, (results r'.secret).isSome) (hpost : ∀ r' ∈ post, (results r'.secret).isSome)
    (commitment contribution : Int) :
    QrStructure.commitmentFromProof.go n bases results (pre ++ r :: post) commitment contribution = .ok 0 := by
  induction pre generalizing commitment contribution with
  | nil =>
    rw [List.nil_append]
    unfold QrStructure.commitmentFromProof.go
    rw [hr, deref_some, GoM.ok_bind]
    have : expInto contribution (bases r.base) (r.power * res) n = 0 := by
      unfold expInto
      rw [hb]
      simp only [goExp_zero_pos hn hpos, Option.getD_some]
    rw [this]
    simp only [Int.mul_zero, Int.zero_emod]
    exact commitmentFromProof_go_zero n bases results post 0 hpost
  | cons r' rest ih =>
    rw [List.cons_append]
    unfold QrStructure.commitmentFromProof.go
    obtain ⟨res', hr'⟩ := Option.isSome_iff_exists.mp (hpre r' (List.mem_cons_self ..))
    rw [hr', deref_some, GoM.ok_bind]
    exact ih (fun x hx => hpre x (List.mem_cons_of_mem _ hx)) _ _

/-- a zero base with a positive exponent anywhere on the right-hand side makes the reconstructed
    commitment `0`, independently of the left-hand side (the statement) and of the challenge. -/
theorem QrStructure.commitmentFromProof_zero_base (s : QrStructure) {n : Int} (hn : 0 < n) (c : Int)
    (bases results : String → Option Int) (pre post : List RhsContribution) (r : RhsContribution)
    (hs : s.rhs = pre ++ r :: post) {res : Int}
    (hb : bases r.base = some 0) (hr : results r.secret = some res) (hpos : 0 < r.power * res)
    (hres : ∀ r' ∈ s.rhs, (results r'.secret).isSome) :
    s.commitmentFromProof n c bases results = .ok 0 := by
  unfold QrStructure.commitmentFromProof
  simp only []
  rw [hs]
  rw [hs] at hres
  exact commitmentFromProof_go_zero_base hn bases results pre post r hb hr hpos
    (fun x hx => hres x (by simp [hx])) (fun x hx => hres x (by simp [hx])) _ _

/-- a zero on the left-hand side (`lhs = [⟨C, 1⟩]`, `C = 0`) also gives `0`: the inversion fails
    silently and `0^c = 0`. -/
theorem QrStructure.commitmentFromProof_zero_lhs (s : QrStructure) {n : Int} (hn : 1 < n) {c : Int}
    (hc : 0 < c) (bases results : String → Option Int) {name : String}
    (hs : s.lhs = [⟨name, 1⟩]) (hb : bases name = some 0)
    (hres : ∀ r' ∈ s.rhs, (results r'.secret).isSome) :
    s.commitmentFromProof n c bases results = .ok 0 := by
  unfold QrStructure.commitmentFromProof
  simp only []
  rw [hs]
  have h1 : expInto 0 (bases name) 1 n = 0 := by
    unfold expInto
    rw [hb]
    simp only [goExp_zero_pos (by omega : (0 : Int) < n) (by decide : (0 : Int) < 1), Option.getD_some]
  have h2 : goModInverse 0 n = none := by
    rw [goModInverse_none_iff 0 n (by omega)]
    rw [Int.gcd_zero_left]
    omega
  simp only [List.foldl_cons, List.foldl_nil, h1, Int.mul_zero, Int.zero_emod, h2, Option.getD_none,
    goExp_zero_pos (by omega : (0 : Int) < n) hc, Option.getD_some]
  exact commitmentFromProof_go_zero n bases results s.rhs 0 hres

theorem rangeBases_C (pk : PublicKey) (p : RangeProof) (i : Nat) :
    rangeBases pk p ("C" ++ toString i) = (p.cs[i]?).join := by
  have h1 : "C" ++ toString i ≠ "Z" := name_ne_of_head 'C' 'Z' (by decide) _ ""
  have h2 : "C" ++ toString i ≠ "S" := name_ne_of_head 'C' 'S' (by decide) _ ""
  have h3 : "C" ++ toString i ≠ "G" := name_ne_of_head 'C' 'G' (by decide) _ ""
  have h4 : "C" ++ toString i ≠ "H" := name_ne_of_head 'C' 'H' (by decide) _ ""
  have h5 : parseIdx 'R' ("C" ++ toString i) = none := parseIdx_other 'R' 'C' (by decide) _
  have h6 : parseIdx 'C' ("C" ++ toString i) = some i := parseIdx_self 'C' i
  have hb : pk.base ("C" ++ toString i) = none := by
    unfold PublicKey.base
    split
    · next h => exact absurd h h1
    · next h => exact absurd h h2
    · next h => exact absurd h h3
    · next h => exact absurd h h4
    · rw [h5]
  unfold rangeBases
  rw [hb, h6]

theorem List.mapM_const_ok {α β} (f : α → GoM β) (b : β) (l : List α) (h : ∀ a ∈ l, f a = .ok b) :
    l.mapM f = .ok (l.map fun _ => b) := by
  induction l with
  | nil => rfl
  | cons a rest ih =>
    rw [List.mapM_cons, h a (List.mem_cons_self ..), GoM.ok_bind,
      ih (fun a' ha' => h a' (List.mem_cons_of_mem _ ha')), GoM.ok_bind]
    rfl

/-- the structure check of the verifier **as it was** when the defect was found (no
    invertibility check on `Cᵢ`, no sign check on the responses); kept here so that the
    counterexample stays a theorem after the check is repaired. -/
def RangeStructure.verifyProofStructureOld (s : RangeStructure) (pk : PublicKey) (p : RangeProof) : Bool :=
  let pr := pk.params
  if s.cRep.length ≠ p.cs.length || s.cRep.length ≠ p.ds.length || s.cRep.length ≠ p.vs.length then false else
  match p.v5, p.mResponse with
  | some v5, some m =>
    if bitLen v5 > pr.Lm + s.ld + 2 + pr.Lh + pr.Lstatzk + 1 || bitLen m > pr.Lm + pr.Lh + pr.Lstatzk + 1 then false
    else
      (List.range s.cRep.length).all fun i =>
        match p.cs[i]?, p.ds[i]?, p.vs[i]? with
        | some (some c), some (some d), some (some v) =>
          !(bitLen c > bitLen pk.n || bitLen d > s.ld + pr.Lh + pr.Lstatzk + 1 ||
            bitLen v > pr.Lm + pr.Lh + pr.Lstatzk + 1)
        | _, _, _ => false
  | _, _ => false

theorem RangeStructure.verifyProofStructureOld_true {s : RangeStructure} {pk : PublicKey} {p : RangeProof}
    (h : s.verifyProofStructureOld pk p = true) :
    p.v5.isSome ∧ p.mResponse.isSome ∧
      ∀ i, i < s.cRep.length → (p.ds[i]?).join.isSome ∧ (p.vs[i]?).join.isSome := by
  unfold RangeStructure.verifyProofStructureOld at h
  simp only [] at h
  split at h
  · simp at h
  · split at h
    · next v5 m hv5 hm =>
      split at h
      · simp at h
      · rw [List.all_eq_true] at h
        refine ⟨by simp [hv5], by simp [hm], ?_⟩
        intro i hi
        have := h i (List.mem_range.mpr hi)
        split at this
        · next c d v hc hd hv => simp [hd, hv]
        · simp at this
    · simp at h

/-- **the defect, on the model**: for a range proof whose commitments `Cᵢ` are all `0` and whose
    `d` responses are positive, every reconstructed commitment is `0` – independently of the
    descriptor (`k`, `sign`, `a`), of the attribute response and of the challenge. When the defect
    was found the verifier therefore hashed constants (the list was `replicate (n+1) 0`): the
    range proof bound nothing. Since Go commit d9916c2 the list starts with the statement
    (`Cᵢ`, `k`, `a`, `sign`, `l_d`), so the descriptor is hashed even here. -/
theorem RangeStructure.commitmentsFromProof_zero {rp : RangeProof} {index : Int} {pk : PublicKey}
    {s : RangeStructure} (h : rp.extractStructure index pk = some s)
    (hv : s.verifyProofStructureOld pk rp = true) (hn : 1 < pk.n) {c : Int} (hc : 0 < c)
    (hcs : ∀ i < rp.cs.length, rp.cs[i]? = some (some 0))
    (hds : ∀ i < rp.cs.length, ∃ d, rp.ds[i]? = some (some d) ∧ 0 < d) :
    s.commitmentsFromProof pk rp c =
      .ok (List.replicate rp.cs.length 0 ++ [s.k, (s.a : Int), s.sign, (s.ld : Int)] ++
        List.replicate (rp.cs.length + 1) 0) := by
  obtain ⟨k, hk, _, hlen, _, _, hnew⟩ := RangeProof.extractStructure_some h
  have hsec := rangeNewWithParams_secretsOk hnew
  obtain ⟨_, hcl, hmsec, hcsec⟩ := hsec
  obtain ⟨hv5, hmr, hdv⟩ := RangeStructure.verifyProofStructureOld_true hv
  rw [hcl] at hdv
  obtain ⟨_, _, _, hs⟩ := rangeNewWithParams_some hnew
  have hpos : 0 < rp.cs.length := by omega
  -- results present
  have hresM : ∀ r ∈ s.mCorrect.rhs, (rangeResults rp r.secret).isSome := by
    intro r hr
    rcases hmsec r hr with h | h | ⟨i, hi, h⟩
    · rw [h, rangeResults_v5]; exact hv5
    · rw [h, rangeResults_m]; exact hmr
    · rw [h, rangeResults_d]; exact (hdv i hi).1
  have hresC : ∀ q ∈ s.cRep, ∀ r ∈ q.rhs, (rangeResults rp r.secret).isSome := by
    intro q hq r hr
    obtain ⟨i, hi, h | h⟩ := hcsec q hq r hr
    · rw [h, rangeResults_d]; exact (hdv i hi).1
    · rw [h, rangeResults_v _ _ (by omega)]; exact (hdv i hi).2
  -- mCorrect
  obtain ⟨d0, hd0, hd0pos⟩ := hds 0 hpos
  have hM : s.mCorrect.commitmentFromProof pk.n c (rangeBases pk rp) (rangeResults rp) = .ok 0 := by
    have hrange : List.range rp.cs.length = 0 :: (List.range (rp.cs.length - 1)).map (· + 1) := by
      obtain ⟨m, hm⟩ : ∃ m, rp.cs.length = m + 1 := ⟨rp.cs.length - 1, by omega⟩
      rw [hm, List.range_succ_eq_map]; simp
    apply QrStructure.commitmentFromProof_zero_base s.mCorrect (by omega) c _ _
      [⟨"S", "v5", -1⟩, ⟨"R" ++ toString index, "m", -(rp.a : Int) * rp.sign⟩]
      (((List.range (rp.cs.length - 1)).map (· + 1)).map
        (fun i => (⟨"C" ++ toString i, "d" ++ toString i, 1⟩ : RhsContribution)))
      ⟨"C" ++ toString 0, "d" ++ toString 0, 1⟩ _ (res := d0) _ _ _ hresM
    · rw [hs]
      simp only []
      rw [hrange, List.map_cons]
    · rw [rangeBases_C, hcs 0 hpos]; rfl
    · rw [rangeResults_d, hd0]; rfl
    · simpa using hd0pos
  -- cRep
  have hC : ∀ q ∈ s.cRep, q.commitmentFromProof pk.n c (rangeBases pk rp) (rangeResults rp) = .ok 0 := by
    intro q hq
    have hq' := hq
    rw [hs] at hq'
    simp only [List.mem_map, List.mem_range] at hq'
    obtain ⟨i, hi, hqi⟩ := hq'
    apply QrStructure.commitmentFromProof_zero_lhs q hn hc _ _ (name := "C" ++ toString i)
    · rw [← hqi]
    · rw [rangeBases_C, hcs i hi]; rfl
    · exact hresC q hq
  have hD : ∀ x ∈ rp.cs, deref "Cs[i]" x = (.ok 0 : GoM Int) := by
    intro x hx
    obtain ⟨i, hi, hxi⟩ := List.getElem_of_mem hx
    have := hcs i hi
    rw [List.getElem?_eq_getElem hi, hxi] at this
    cases Option.some.inj this
    rfl
  unfold RangeStructure.commitmentsFromProof
  rw [hM, GoM.ok_bind, List.mapM_const_ok _ 0 _ hC, GoM.ok_bind,
    List.mapM_const_ok _ 0 _ hD, GoM.ok_bind]
  simp only [GoM.pure_eq_ok, Except.ok.injEq]
  rw [List.replicate_succ, List.map_const', List.map_const', hcl]

/-! ## 9b. the statement is part of the challenge contributions (Go commit d9916c2) -/

theorem List.mapM_ok_forall₂ {α β} (f : α → GoM β) (l : List α) (bs : List β)
    (h : l.mapM f = .ok bs) : List.Forall₂ (fun a b => f a = .ok b) l bs := by
  induction l generalizing bs with
  | nil =>
    rw [List.mapM_nil, GoM.pure_eq_ok] at h
    cases h; exact List.Forall₂.nil
  | cons a rest ih =>
    rw [List.mapM_cons, GoM.bind_ok_iff] at h
    obtain ⟨b, hb, h⟩ := h
    rw [GoM.bind_ok_iff] at h
    obtain ⟨bs', hbs', h⟩ := h
    rw [GoM.pure_eq_ok] at h
    cases h
    exact List.Forall₂.cons hb (ih bs' hbs')

theorem mapM_deref_ok {w : String} {l : List (Option Int)} {vs : List Int}
    (h : l.mapM (deref w) = .ok vs) : l = vs.map some := by
  have hf := List.mapM_ok_forall₂ _ _ _ h
  induction hf with
  | nil => rfl
  | cons hab _ ih =>
    rw [deref_ok_iff] at hab
    rw [List.map_cons, hab]
    congr 1
    exact ih (by
      rw [List.mapM_cons, GoM.bind_ok_iff] at h
      obtain ⟨b, _, h⟩ := h
      rw [GoM.bind_ok_iff] at h
      obtain ⟨bs', hbs', h⟩ := h
      rw [GoM.pure_eq_ok] at h
      cases h; exact hbs')

/-- shape of the list `commitmentsFromProof` returns: the commitments `Cᵢ` of the proof (all
    present), then `k`, `a`, `sign`, `l_d` of the structure, then one reconstructed commitment
    for `mCorrect` and one per `cRep`. -/
theorem RangeStructure.commitmentsFromProof_shape {s : RangeStructure} {pk : PublicKey} {p : RangeProof}
    {c : Int} {l : List Int} (h : s.commitmentsFromProof pk p c = .ok l) :
    ∃ cs rest : List Int, p.cs = cs.map some ∧ rest.length = s.cRep.length + 1 ∧
      l = cs ++ [s.k, (s.a : Int), s.sign, (s.ld : Int)] ++ rest := by
  unfold RangeStructure.commitmentsFromProof at h
  rw [GoM.bind_ok_iff] at h
  obtain ⟨m, _, h⟩ := h
  rw [GoM.bind_ok_iff] at h
  obtain ⟨rs, hrs, h⟩ := h
  rw [GoM.bind_ok_iff] at h
  obtain ⟨st, hst, h⟩ := h
  rw [GoM.pure_eq_ok] at h
  cases h
  refine ⟨st, m :: rs, mapM_deref_ok hst, ?_, rfl⟩
  rw [List.length_cons, (List.mapM_ok_forall₂ _ _ _ hrs).length_eq]

/-- two lists that start with equally many `Cᵢ` followed by the four descriptor values, placed
    after a common prefix, are equal only if the `Cᵢ` and the descriptor values agree. -/
theorem statement_block_inj {pre cs cs' rest rest' post post' : List Int} {k a sg ld k' a' sg' ld' : Int}
    (hlen : cs.length = cs'.length)
    (h : pre ++ (cs ++ [k, a, sg, ld] ++ rest) ++ post = pre ++ (cs' ++ [k', a', sg', ld'] ++ rest') ++ post') :
    cs = cs' ∧ k = k' ∧ a = a' ∧ sg = sg' ∧ ld = ld' := by
  simp only [List.append_assoc, List.append_cancel_left_eq] at h
  obtain ⟨h1, h2⟩ := List.append_inj h hlen
  simp only [List.cons_append, List.cons.injEq] at h2
  exact ⟨h1, h2.1, h2.2.1, h2.2.2.1, h2.2.2.2.1⟩

/-! ## 10. model-level completeness and extraction for range structures

  The algebra of section 6 applies to the model's integers through the bridge of section 8 as
  soon as every base is invertible modulo `n`. For the key's bases this is a property of the
  key; for the prover-supplied `Cᵢ` it is the predicate `UnitCs` (which the repaired
  `verifyProofStructure` checks). -/

/-- every commitment `Cᵢ` of the range proof is present, in `(0, n)` and invertible modulo `n`. -/
def UnitCs (pk : PublicKey) (p : RangeProof) : Prop :=
  ∀ c ∈ p.cs, ∃ x, c = some x ∧ 0 < x ∧ x < pk.n ∧ Int.gcd x pk.n = 1

theorem rangeBases_S (pk : PublicKey) (p : RangeProof) : rangeBases pk p "S" = some pk.s := by
  simp [rangeBases, PublicKey.base]

theorem rangeBases_R (pk : PublicKey) (p : RangeProof) (i : Nat) {b : Int} (hb : pk.r[i]? = some b) :
    rangeBases pk p ("R" ++ toString (i : Int)) = some b := by
  have e : toString (i : Int) = toString i := rfl
  rw [e]
  have h1 : "R" ++ toString i ≠ "Z" := name_ne_of_head 'R' 'Z' (by decide) _ ""
  have h2 : "R" ++ toString i ≠ "S" := name_ne_of_head 'R' 'S' (by decide) _ ""
  have h3 : "R" ++ toString i ≠ "G" := name_ne_of_head 'R' 'G' (by decide) _ ""
  have h4 : "R" ++ toString i ≠ "H" := name_ne_of_head 'R' 'H' (by decide) _ ""
  have h6 : parseIdx 'R' ("R" ++ toString i) = some i := parseIdx_self 'R' i
  have hbase : pk.base ("R" ++ toString i) = some b := by
    unfold PublicKey.base
    split
    · next h => exact absurd h h1
    · next h => exact absurd h h2
    · next h => exact absurd h h3
    · next h => exact absurd h h4
    · rw [h6]; exact hb
  unfold rangeBases
  rw [hbase]

/-- invertible key bases and `UnitCs` give the hypothesis `BasesOk` of the bridge, for every
    sub-structure of an extracted range structure. -/
theorem range_basesOk {rp : RangeProof} {i : Nat} {pk : PublicKey} {s : RangeStructure} {N : ℕ}
    (h : rp.extractStructure (i : Int) pk = some s) (hN : pk.n = (N : Int))
    (hS : Int.gcd pk.s pk.n = 1) {b : Int} (hb : pk.r[i]? = some b) (hR : Int.gcd b pk.n = 1)
    (hC : UnitCs pk rp) :
    ∀ q ∈ s.mCorrect :: s.cRep, QrBridge.BasesOk N q (rangeBases pk rp) := by
  obtain ⟨k, _, _, _, _, _, hnew⟩ := RangeProof.extractStructure_some h
  obtain ⟨_, _, _, hs⟩ := rangeNewWithParams_some hnew
  have uS : ∃ x, rangeBases pk rp "S" = some x ∧ IsUnit (x : ZMod N) :=
    ⟨pk.s, rangeBases_S pk rp, by rw [isUnit_iff_gcd, ← hN]; exact hS⟩
  have uR : ∃ x, rangeBases pk rp ("R" ++ toString (i : Int)) = some x ∧ IsUnit (x : ZMod N) :=
    ⟨b, rangeBases_R pk rp i hb, by rw [isUnit_iff_gcd, ← hN]; exact hR⟩
  have uC : ∀ j < rp.cs.length, ∃ x, rangeBases pk rp ("C" ++ toString j) = some x ∧ IsUnit (x : ZMod N) := by
    intro j hj
    obtain ⟨x, hx, _, _, hg⟩ := hC _ (List.getElem_mem hj)
    refine ⟨x, ?_, by rw [isUnit_iff_gcd, ← hN]; exact hg⟩
    rw [rangeBases_C, List.getElem?_eq_getElem hj, hx]; rfl
  intro q hq
  rw [hs] at hq
  simp only [List.mem_cons, List.mem_map, List.mem_range] at hq
  rcases hq with rfl | ⟨j, hj, rfl⟩
  · refine ⟨?_, ?_⟩
    · intro l hl
      simp only [List.mem_cons, List.not_mem_nil, or_false] at hl
      subst hl; exact uR
    · intro r hr
      simp only [List.cons_append, List.nil_append, List.mem_cons, List.mem_map, List.mem_range] at hr
      rcases hr with rfl | rfl | ⟨j, hj, rfl⟩
      · exact uS
      · exact uR
      · exact uC j hj
  · refine ⟨?_, ?_⟩
    · intro l hl
      simp only [List.mem_cons, List.not_mem_nil, or_false] at hl
      subst hl; exact uC j hj
    · intro r hr
      simp only [List.mem_cons, List.not_mem_nil, or_false] at hr
      rcases hr with rfl | rfl
      · exact uR
      · exact uS

theorem range_rhs_ne_nil {index sign : Int} {a : Nat} {k : Int} {n ld : Nat} {s : RangeStructure}
    (h : rangeNewWithParams index sign a k n ld = some s) : ∀ q ∈ s.mCorrect :: s.cRep, q.rhs ≠ [] := by
  obtain ⟨_, _, _, hs⟩ := rangeNewWithParams_some h
  intro q hq
  rw [hs] at hq
  simp only [List.mem_cons, List.mem_map, List.mem_range] at hq
  rcases hq with rfl | ⟨j, _, rfl⟩ <;> simp

open QrAlg QrBridge in
/-- **model-level completeness** of a range structure: if the secrets are an honest
    decomposition (`Cᵢ = R^{dᵢ}S^{vᵢ}`, `Σdᵢ² = sign·(a·m−k)`, `v5 = Σdᵢvᵢ`, read in `(ZMod n)ˣ`),
    and every response is `randomiser + c·secret`, then for the `mCorrect` structure and every
    `cRep` structure the verifier's `commitmentFromProof` returns exactly the integer the prover's
    `commitmentFromSecrets` produced — so the challenge hash is reproduced. -/
theorem range_model_complete {index sign : Int} {a : Nat} {k : Int} {nS ld : Nat} {s : RangeStructure}
    (h : rangeNewWithParams index sign a k nS ld = some s) {N : ℕ} (hN : 1 < N) (c : Int)
    (bases rnd secrets results : String → Option Int)
    (hb : ∀ q ∈ s.mCorrect :: s.cRep, BasesOk N q bases)
    (hrnd : ∀ q ∈ s.mCorrect :: s.cRep, ∀ r ∈ q.rhs, (rnd r.secret).isSome)
    (hres : ∀ q ∈ s.mCorrect :: s.cRep, ∀ r ∈ q.rhs, (results r.secret).isSome)
    (hresp : ∀ name, intVals results name = intVals rnd name + c * intVals secrets name)
    (hC : ∀ i < nS, unitBases N bases ("C" ++ toString i) =
        unitBases N bases ("R" ++ toString index) ^ intVals secrets ("d" ++ toString i) *
          unitBases N bases "S" ^ intVals secrets ("v" ++ toString i))
    (hsq : ((List.range nS).map fun i => intVals secrets ("d" ++ toString i) ^ 2).sum =
      sign * ((a : ℤ) * intVals secrets "m" - k))
    (hv5 : intVals secrets "v5" =
      ((List.range nS).map fun i => intVals secrets ("d" ++ toString i) * intVals secrets ("v" ++ toString i)).sum) :
    ∀ q ∈ s.mCorrect :: s.cRep, ∃ v, q.commitmentFromSecrets N bases rnd = .ok v ∧
      q.commitmentFromProof N c bases results = .ok v := by
  obtain ⟨hm, hc⟩ := range_structure_complete (unitBases N bases) (intVals secrets) h hC hsq hv5
  intro q hq
  have hrel : Holds q (unitBases N bases) (intVals secrets) := by
    rcases List.mem_cons.mp hq with rfl | hq'
    · exact hm
    · exact hc q hq'
  exact commitment_roundtrip hN q (range_rhs_ne_nil h q hq) c bases rnd secrets results (hb q hq)
    (hrnd q hq) (hres q hq) (fun r _ => hresp r.secret) hrel

open QrAlg QrBridge in
/-- **model-level extraction** for a range structure: two transcripts (challenges `c`, `c'`,
    responses `results`, `results'`) on which the model reconstructs the same commitments, with
    response differences divisible by `c − c'` (quotients `w`; CRYPTO-HYP: strong RSA gives this
    divisibility) and no `(c−c')`-torsion in the relevant quotients (CRYPTO-HYP `htors`: holds in
    `QR_n` for safe-prime `n` and `|c−c'| <` the group order's prime factors), yield
    `Σ w(dᵢ)² = sign·(a·w(m) − k)`, hence `sign·(a·w(m) − k) ≥ 0`, unless `w` is an explicit
    non-trivial relation between the attribute base and `S`. -/
theorem range_model_extract {index sign : Int} {a : Nat} {k : Int} {nS ld : Nat} {s : RangeStructure}
    (h : rangeNewWithParams index sign a k nS ld = some s) {N : ℕ} (hN : 1 < N) (c c' : Int)
    (bases results results' : String → Option Int) (w : String → ℤ)
    (hb : ∀ q ∈ s.mCorrect :: s.cRep, BasesOk N q bases)
    (hres : ∀ q ∈ s.mCorrect :: s.cRep, ∀ r ∈ q.rhs, (results r.secret).isSome)
    (hres' : ∀ q ∈ s.mCorrect :: s.cRep, ∀ r ∈ q.rhs, (results' r.secret).isSome)
    (heq : ∀ q ∈ s.mCorrect :: s.cRep,
      q.commitmentFromProof N c bases results = q.commitmentFromProof N c' bases results')
    (hdiv : ∀ name, intVals results name - intVals results' name = (c - c') * w name)
    (htors : ∀ q ∈ s.mCorrect :: s.cRep,
      (lhsProd q (unitBases N bases) / rhsProd q (unitBases N bases) w) ^ (c - c') = 1 →
        lhsProd q (unitBases N bases) = rhsProd q (unitBases N bases) w) :
    (((List.range nS).map fun i => w ("d" ++ toString i) ^ 2).sum = sign * ((a : ℤ) * w "m" - k) ∧
      0 ≤ sign * ((a : ℤ) * w "m" - k)) ∨
    (∃ x y : ℤ, x ≠ 0 ∧ unitBases N bases ("R" ++ toString index) ^ x = unitBases N bases "S" ^ y) := by
  have hholds : ∀ q ∈ s.mCorrect :: s.cRep, Holds q (unitBases N bases) w := by
    intro q hq
    apply htors q hq
    have hss := commitment_special_soundness hN q c c' bases results results' (hb q hq)
      (hres q hq) (hres' q hq) (heq q hq)
    have e : rhsProd q (unitBases N bases) (fun nm => intVals results nm - intVals results' nm) =
        rhsProd q (unitBases N bases) (fun nm => (c - c') * w nm) :=
      rhsProd_congr q _ (fun r _ => hdiv r.secret)
    rw [e] at hss
    unfold rhsProd at hss ⊢
    have e2 : Alg.rep (fun r : RhsContribution => unitBases N bases r.base)
          (fun r => r.power * ((c - c') * w r.secret)) q.rhs =
        Alg.rep (fun r : RhsContribution => unitBases N bases r.base)
          (fun r => (c - c') * (r.power * w r.secret)) q.rhs :=
      Alg.rep_congr _ (fun r _ => by ring)
    rw [e2, Alg.rep_const_mul] at hss
    rw [div_zpow, hss, div_self']
  exact range_structure_sound (unitBases N bases) w h (hholds _ (List.mem_cons_self ..))
    (fun q hq => hholds q (List.mem_cons_of_mem _ hq))

/-- name used by the coordinator: the bridge hypothesis follows from the (repaired) structure
    check, abstracted as `UnitCs`. -/
theorem verifyProofStructure_basesOk {rp : RangeProof} {i : Nat} {pk : PublicKey} {s : RangeStructure} {N : ℕ}
    (h : rp.extractStructure (i : Int) pk = some s) (hN : pk.n = (N : Int))
    (hS : Int.gcd pk.s pk.n = 1) {b : Int} (hb : pk.r[i]? = some b) (hR : Int.gcd b pk.n = 1)
    (hC : UnitCs pk rp) :
    ∀ q ∈ s.mCorrect :: s.cRep, QrBridge.BasesOk N q (rangeBases pk rp) :=
  range_basesOk h hN hS hb hR hC

/-! ## 11. what acceptance of a disclosure proof says about its range proofs -/

theorem RangeIndexRel_congr {pk : PublicKey} {p p1 : ProofD} (hA : p1.aResponses = p.aResponses) (c : Int)
    (structs : List (Int × List RangeStructure)) (rps : RPMap) (index : Int) (part : List Int) :
    RangeIndexRel pk p1 c structs rps index part ↔ RangeIndexRel pk p c structs rps index part := by
  unfold RangeIndexRel
  rw [hA]

theorem ProofD.rangeIndices_congr {p p1 : ProofD} (hA : p1.aResponses = p.aResponses) :
    p1.rangeIndices = p.rangeIndices := by
  unfold ProofD.rangeIndices ProofD.maxAttribute
  rw [hA]

theorem forall₂_split {α β} {R : α → β → Prop} {l1 : List α} {l2 : List β}
    (h : List.Forall₂ R l1 l2) {a : α} (ha : a ∈ l1) :
    ∃ b pre post, l2 = pre ++ b :: post ∧ R a b := by
  induction h with
  | nil => simp at ha
  | @cons a' b' l1 l2 hab _ ih =>
    rcases List.mem_cons.mp ha with rfl | hm
    · exact ⟨b', [], l2, rfl, hab⟩
    · obtain ⟨b, pre, post, he, hR⟩ := ih hm
      exact ⟨b, b' :: pre, post, by rw [he]; rfl, hR⟩

/-- **acceptance ⇒ the challenge covers the range proofs**: the challenge of an accepted proof
    is the hash of context, `[A, Z]`, the non-revocation contributions `l1`, the range
    contributions `rc` and the nonce, where `rc` has the shape of `rangeContributions_shape`
    computed with the proof's own challenge `c` and hidden responses. -/
theorem ProofD.accept_range_shape {o : SigOracle} {kid : String} {pk : PublicKey} {p : ProofD}
    {ctx nonce : Int} {issig : Bool} {i1 i2 : Int} {rps : RPMap}
    (h : p.verifyWith o kid pk ctx nonce issig i1 i2 = .ok true) (hrps : p.rangeProofs = some rps) :
    ∃ a z c l1 rc structs parts, p.a = some a ∧ p.c = some c ∧
      c = ((createChallenge ctx nonce ([a, z] ++ l1 ++ rc) issig : Nat) : Int) ∧
      (extractAll pk rps).run = .ok (some structs) ∧
      List.Forall₂ (RangeIndexRel pk p c structs rps) p.rangeIndices parts ∧
      rc = parts.flatten := by
  obtain ⟨_, _, contrib, p', hc, hch⟩ := ProofD.accept_facts h
  obtain ⟨_, z, a, c, _, ha, hcc, l1, p1, hstep, rc, rps', hrc, hcontrib, _⟩ :=
    ProofD.challengeContribution_ok_some hc
  have hp1 : p1.rangeProofs = p.rangeProofs ∧ p1.aResponses = p.aResponses := by
    rcases hstep with ⟨_, _, rfl⟩ | ⟨nr, resp, nr', _, _, _, _, _, rfl⟩ <;> exact ⟨rfl, rfl⟩
  obtain ⟨structs, parts, hst, hF, hflat⟩ := ProofD.rangeContributions_shape hrc (hp1.1.trans hrps)
  rw [ProofD.rangeIndices_congr hp1.2] at hF
  refine ⟨a, z, c, l1, rc, structs, parts, ha, hcc, ?_, hst, ?_, hflat⟩
  · rw [hcc] at hch
    rw [← hcontrib]
    exact Option.some.inj hch
  · exact List.Forall₂.imp (fun _ _ hr => (RangeIndexRel_congr hp1.2 c structs rps _ _).mp hr) hF

/-- **acceptance, per attribute index**: for every entry `index ↦ proofs` of the range-proof
    map of an accepted proof, the hidden response `mresp = AResponses[index]` exists and the
    commitments reconstructed from `proofs` with `MResponse := mresp` and the proof's own
    challenge form a contiguous block of the hashed contributions. -/
theorem ProofD.accept_range_at_index {o : SigOracle} {kid : String} {pk : PublicKey} {p : ProofD}
    {ctx nonce : Int} {issig : Bool} {i1 i2 : Int} {rps : RPMap}
    (h : p.verifyWith o kid pk ctx nonce issig i1 i2 = .ok true) (hrps : p.rangeProofs = some rps)
    {index : Int} {proofs : List (Option RangeProof)} (hl : rps.lookup index = some proofs) :
    ∃ a z c l1 rc, p.a = some a ∧ p.c = some c ∧
      c = ((createChallenge ctx nonce ([a, z] ++ l1 ++ rc) issig : Nat) : Int) ∧
      ∃ ss mresp css pre post, p.aResponses.get index = some mresp ∧
        List.Forall₂ (fun rp s => ∃ rp', rp = some rp' ∧ rp'.extractStructure index pk = some s) proofs ss ∧
        List.Forall₂ (RangeStepRel pk c mresp) (ss.zip proofs) css ∧
        rc = pre ++ css.flatten ++ post := by
  obtain ⟨a, z, c, l1, rc, structs, parts, ha, hc, hch, hst, hF, hflat⟩ := ProofD.accept_range_shape h hrps
  refine ⟨a, z, c, l1, rc, ha, hc, hch, ?_⟩
  -- the index is hidden, hence visited
  have hw := (ProofD.accept_facts h).1
  obtain ⟨_, _, hA, _, hR, _⟩ := (ProofD.wellFormed_iff pk p).mp hw
  rw [hrps] at hR
  simp only [Option.getD_some] at hR
  have hhas := (hR _ (lookup_mem hl)).1
  have h0 : 0 ≤ index := by
    unfold IntMap.has at hhas
    cases hl' : p.aResponses.lookup index with
    | none => simp [hl'] at hhas
    | some v => exact (hA _ (lookup_mem hl')).2.1
  obtain ⟨part, pre, post, hparts, hrel⟩ := forall₂_split hF (p.mem_rangeIndices h0 hhas)
  obtain ⟨ss, mresp, css, hm, hex, hsteps, hpart⟩ := RangeIndexRel.of_lookup hst hl hrel
  refine ⟨ss, mresp, css, pre.flatten, post.flatten, hm, hex, hsteps, ?_⟩
  rw [hflat, hparts, ← hpart]
  simp

/-! ## 12. `SquaresTable.Ld()` is large enough for every root the table can return -/

theorem tableLd_go_spec (fuel l ld : Nat) (h : l < fuel) :
    ld ≤ tableLd.go fuel l ld ∧ l < 4 ^ (tableLd.go fuel l ld - ld) := by
  induction fuel generalizing l ld with
  | zero => omega
  | succ fuel ih =>
    unfold tableLd.go
    by_cases hl : l > 0
    · rw [if_pos hl]
      have hlt : l / 4 < fuel := by omega
      obtain ⟨h1, h2⟩ := ih (l / 4) (ld + 1) hlt
      refine ⟨by omega, ?_⟩
      have e : tableLd.go fuel (l / 4) (ld + 1) - ld = (tableLd.go fuel (l / 4) (ld + 1) - (ld + 1)) + 1 := by
        omega
      rw [e, Nat.pow_succ]
      omega
    · rw [if_neg hl]
      simp only [Nat.sub_self, Nat.pow_zero]
      omega

/-- every root `x` of a decomposition of a value `d` the table accepts (`d < len`) has fewer than
    `tableLd len` bits, so the size check `dᵢ.BitLen() ≤ l_d` of `CommitmentsFromSecrets` passes. -/
theorem table_root_fits {x d len : Nat} (hx : x ^ 2 ≤ d) (hd : d < len) : natBitLen x < tableLd len := by
  unfold tableLd
  obtain ⟨_, h2⟩ := tableLd_go_spec (len + 1) len 0 (by omega)
  simp only [Nat.sub_zero] at h2
  have h4 : (4 : Nat) ^ tableLd.go (len + 1) len 0 = 2 ^ (2 * tableLd.go (len + 1) len 0) := by
    rw [Nat.pow_mul]
  have : natBitLen x ≤ tableLd.go (len + 1) len 0 := by
    rw [natBitLen_le_iff]
    exact sq_lt_sq_bound hx (by omega)
  omega

end Gabi
