import GabiModel.Num
import Mathlib.Tactic.Ring
import Mathlib.Tactic.Linarith
import Mathlib.Data.Nat.GCD.Basic
import Mathlib.Data.Int.GCD
import Mathlib.Data.Nat.Log
import Mathlib.Tactic.NormNum
import Mathlib.Tactic.LinearCombination
import Mathlib.Data.Int.Basic

namespace Gabi

theorem powMod_eq (b e n : Nat) : powMod b e n = b ^ e % n := by
  induction e using Nat.strongRecOn generalizing b with
  | _ e ih =>
    unfold powMod
    split
    · next h => subst h; simp
    · next h =>
      have hlt : e / 2 < e := by omega
      simp only [ih (e / 2) hlt]
      have key : (b * b % n) ^ (e / 2) % n = (b * b) ^ (e / 2) % n := by
        exact (Nat.pow_mod (b * b) (e / 2) n).symm
      have hsq : (b * b) ^ (e / 2) = b ^ (2 * (e / 2)) := by
        rw [Nat.pow_mul]; congr 1; exact (Nat.pow_two b).symm
      split
      · next hodd =>
        have he : e = 2 * (e / 2) + 1 := by omega
        rw [key, hsq]
        conv => rhs; rw [he, Nat.pow_succ, Nat.mul_comm]
        rw [Nat.mul_mod, Nat.mod_mod, Nat.mod_mod, ← Nat.mul_mod]
      · next heven =>
        have he : e = 2 * (e / 2) := by omega
        rw [key, hsq, ← he]

/-! ## xgcd -/

theorem xgcdAux_spec (a b : Int) (r0 : Nat) (s0 t0 : Int) (r1 : Nat) (s1 t1 : Int)
    (h0 : (r0 : Int) = a * s0 + b * t0) (h1 : (r1 : Int) = a * s1 + b * t1) :
    (xgcdAux r0 s0 t0 r1 s1 t1).1 = Nat.gcd r0 r1 ∧
    a * (xgcdAux r0 s0 t0 r1 s1 t1).2.1 + b * (xgcdAux r0 s0 t0 r1 s1 t1).2.2
      = ((xgcdAux r0 s0 t0 r1 s1 t1).1 : Int) := by
  induction r1 using Nat.strongRecOn generalizing r0 s0 t0 s1 t1 with
  | _ r1 ih =>
    unfold xgcdAux
    split
    · next h => subst h; simp [h0]
    · next h =>
      have hlt : r0 % r1 < r1 := Nat.mod_lt _ (Nat.pos_of_ne_zero h)
      have h2 : ((r0 % r1 : Nat) : Int)
          = a * (s0 - ((r0 / r1 : Nat) : Int) * s1) + b * (t0 - ((r0 / r1 : Nat) : Int) * t1) := by
        have hdm : (r0 : Int) = (r1 : Int) * ((r0 / r1 : Nat) : Int) + ((r0 % r1 : Nat) : Int) := by
          exact_mod_cast (Nat.div_add_mod r0 r1).symm
        linear_combination h0 - hdm - ((r0 / r1 : Nat) : Int) * h1
      have := ih (r0 % r1) hlt r1 s1 t1 (s0 - ((r0 / r1 : Nat) : Int) * s1)
        (t0 - ((r0 / r1 : Nat) : Int) * t1) h1 h2
      refine ⟨?_, this.2⟩
      rw [this.1, Nat.gcd_comm r0 r1, Nat.gcd_rec r1 r0, Nat.gcd_comm]

theorem xgcd_gcd (a b : Nat) : (xgcd a b).1 = Nat.gcd a b :=
  (xgcdAux_spec a b a 1 0 b 0 1 (by simp) (by simp)).1

theorem xgcd_bezout (a b : Nat) :
    (a : Int) * (xgcd a b).2.1 + (b : Int) * (xgcd a b).2.2 = ((xgcd a b).1 : Int) :=
  (xgcdAux_spec a b a 1 0 b 0 1 (by simp) (by simp)).2


theorem goModInverse_def (g n : Int) : goModInverse g n =
    if n.natAbs = 0 then none else
    if (xgcd (g % (n.natAbs : Int)).toNat n.natAbs).1 ≠ 1 then none
    else some ((xgcd (g % (n.natAbs : Int)).toNat n.natAbs).2.1 % (n.natAbs : Int)) := by
  rfl

theorem commonModInverse_def (a n : Int) : commonModInverse a n =
    if n.natAbs = 0 then none else
    if (xgcd (a % (n.natAbs : Int)).toNat n.natAbs).1 ≠ 1 then none
    else some (if (xgcd (a % (n.natAbs : Int)).toNat n.natAbs).2.1 % (n.natAbs : Int) < 1
      then (xgcd (a % (n.natAbs : Int)).toNat n.natAbs).2.1 % (n.natAbs : Int) + (n.natAbs : Int)
      else (xgcd (a % (n.natAbs : Int)).toNat n.natAbs).2.1 % (n.natAbs : Int)) := by
  rfl

/-- the shared core of both modular inverses: the gcd that is computed -/
theorem modInv_core_gcd (g : Int) (m : Nat) (hm : m ≠ 0) :
    (xgcd (g % (m : Int)).toNat m).1 = Int.gcd g m := by
  have hpos : (0 : Int) < m := by exact_mod_cast Nat.pos_of_ne_zero hm
  have h0 : 0 ≤ g % (m : Int) := Int.emod_nonneg _ (ne_of_gt hpos)
  rw [xgcd_gcd, ← Int.gcd_emod g m]
  conv => rhs; rw [← Int.toNat_of_nonneg h0]
  exact (Int.gcd_natCast_natCast _ _).symm

/-- the shared core of both modular inverses: the Bezout coefficient is an inverse -/
theorem modInv_core_inv (g : Int) (m : Nat) (hm : m ≠ 0)
    (h1 : (xgcd (g % (m : Int)).toNat m).1 = 1) :
    (g * ((xgcd (g % (m : Int)).toNat m).2.1 % (m : Int))) % (m : Int) = 1 % (m : Int) := by
  have hpos : (0 : Int) < m := by exact_mod_cast Nat.pos_of_ne_zero hm
  have h0 : 0 ≤ g % (m : Int) := Int.emod_nonneg _ (ne_of_gt hpos)
  have hb := xgcd_bezout (g % (m : Int)).toNat m
  rw [h1, Int.toNat_of_nonneg h0] at hb
  set x := (xgcd (g % (m : Int)).toNat m).2.1
  set y := (xgcd (g % (m : Int)).toNat m).2.2
  rw [Int.mul_emod, Int.emod_emod, ← Int.mul_emod]
  -- g * x ≡ (g % m) * x = 1 - m*y
  have : g * x = 1 + (m : Int) * (g / (m : Int) * x - y) := by
    have hdm := Int.mul_ediv_add_emod g (m : Int)
    push_cast at hb ⊢
    linear_combination hb + x * hdm.symm
  rw [this, Int.add_mul_emod_self_left]

theorem goModInverse_some {g n inv : Int} (h : goModInverse g n = some inv) :
    0 ≤ inv ∧ inv < (n.natAbs : Int) ∧
      (g * inv) % (n.natAbs : Int) = 1 % (n.natAbs : Int) := by
  rw [goModInverse_def] at h
  split at h
  · exact absurd h (by simp)
  · next hm =>
    split at h
    · exact absurd h (by simp)
    · next hd =>
      have hd1 : (xgcd (g % (n.natAbs : Int)).toNat n.natAbs).1 = 1 := not_not.mp hd
      have hpos : (0 : Int) < n.natAbs := by exact_mod_cast Nat.pos_of_ne_zero hm
      have hinv := Option.some.inj h
      subst hinv
      exact ⟨Int.emod_nonneg _ (ne_of_gt hpos), Int.emod_lt_of_pos _ hpos,
        modInv_core_inv g n.natAbs hm hd1⟩

theorem goModInverse_none_iff (g n : Int) (hn : n ≠ 0) :
    goModInverse g n = none ↔ Int.gcd g n ≠ 1 := by
  have hm : n.natAbs ≠ 0 := Int.natAbs_ne_zero.mpr hn
  rw [goModInverse_def, if_neg hm, modInv_core_gcd g n.natAbs hm]
  have : Int.gcd g (n.natAbs : Int) = Int.gcd g n := by
    rw [Int.gcd_def, Int.gcd_def, Int.natAbs_natCast]
  rw [this]
  split <;> simp_all

theorem commonModInverse_some {a n r : Int} (hn : 1 < n)
    (h : commonModInverse a n = some r) : 1 ≤ r ∧ r < n ∧ (a * r) % n = 1 := by
  have hnn : (n.natAbs : Int) = n := Int.natAbs_of_nonneg (by omega)
  have hm : n.natAbs ≠ 0 := by omega
  rw [commonModInverse_def, if_neg hm] at h
  split at h
  · exact absurd h (by simp)
  · next hd =>
    have hd1 : (xgcd (a % (n.natAbs : Int)).toNat n.natAbs).1 = 1 := not_not.mp hd
    have hcore := modInv_core_inv a n.natAbs hm hd1
    have hr := Option.some.inj h
    rw [hnn] at hcore hr
    have h1n : (1 : Int) % n = 1 := Int.emod_eq_of_lt (by omega) hn
    rw [h1n] at hcore
    have hpos : (0 : Int) < n := by omega
    have hlo := Int.emod_nonneg (xgcd (a % n).toNat n.natAbs).2.1 (ne_of_gt hpos)
    have hhi := Int.emod_lt_of_pos (xgcd (a % n).toNat n.natAbs).2.1 hpos
    generalize (xgcd (a % n).toNat n.natAbs).2.1 % n = z at hcore hr hlo hhi
    have hz : z ≠ 0 := by
      rintro rfl
      simp at hcore
    have hz1 : ¬ z < 1 := by omega
    rw [if_neg hz1] at hr
    subst hr
    exact ⟨by omega, hhi, hcore⟩

theorem commonModInverse_none_iff (a n : Int) (hn : 0 < n) :
    commonModInverse a n = none ↔ Int.gcd a n ≠ 1 := by
  have hm : n.natAbs ≠ 0 := by omega
  rw [commonModInverse_def, if_neg hm, modInv_core_gcd a n.natAbs hm]
  have : Int.gcd a (n.natAbs : Int) = Int.gcd a n := by
    rw [Int.gcd_def, Int.gcd_def, Int.natAbs_natCast]
  rw [this]
  split <;> simp_all

/-! ## goExp -/

theorem int_emod_pow_emod (x m : Int) (e : Nat) : (x % m) ^ e % m = x ^ e % m := by
  induction e with
  | zero => simp
  | succ k ih =>
    rw [pow_succ, pow_succ, Int.mul_emod, ih, Int.emod_emod, ← Int.mul_emod]

theorem powMod_cast (a : Int) (e : Nat) (m : Nat) (ha : 0 ≤ a) :
    ((powMod a.toNat e m : Nat) : Int) = a ^ e % (m : Int) := by
  rw [powMod_eq]
  push_cast
  rw [Int.toNat_of_nonneg ha]

theorem goExp_nonneg (x y m : Int) (hm : 0 < m) (hy : 0 ≤ y) :
    goExp x y m = some (x ^ y.toNat % m) := by
  have hnn : (m.natAbs : Int) = m := Int.natAbs_of_nonneg (by omega)
  have hmm : m.natAbs ≠ 0 := by omega
  have hy' : ¬ y < 0 := by omega
  unfold goExp
  simp only [if_neg hmm, if_neg hy']
  rw [powMod_cast _ _ _ (by rw [hnn]; exact Int.emod_nonneg _ (by omega)), hnn,
    int_emod_pow_emod]

theorem goExp_neg (x y m : Int) (hm : 0 < m) (hy : y < 0) :
    goExp x y m = (goModInverse x m).map (fun inv => inv ^ (-y).toNat % m) := by
  have hnn : (m.natAbs : Int) = m := Int.natAbs_of_nonneg (by omega)
  have hmm : m.natAbs ≠ 0 := by omega
  unfold goExp
  simp only [if_neg hmm, if_pos hy]
  cases hinv : goModInverse x m with
  | none => rfl
  | some inv =>
    have h0 := (goModInverse_some hinv).1
    simp only [Option.map_some]
    rw [powMod_cast _ _ _ h0, hnn]

theorem goExp_range {x y m r : Int} (hm : 0 < m) (h : goExp x y m = some r) :
    0 ≤ r ∧ r < m := by
  have key : ∀ z : Int, 0 ≤ z % m ∧ z % m < m := fun z =>
    ⟨Int.emod_nonneg _ (by omega), Int.emod_lt_of_pos _ hm⟩
  by_cases hy : y < 0
  · rw [goExp_neg x y m hm hy] at h
    cases hinv : goModInverse x m with
    | none => rw [hinv] at h; exact absurd h (by simp)
    | some inv =>
      rw [hinv] at h
      have := Option.some.inj h
      subst this
      exact key _
  · rw [goExp_nonneg x y m hm (by omega)] at h
    have := Option.some.inj h
    subst this
    exact key _

/-! ## bit length -/

theorem natBitLen_le_iff (n k : Nat) : natBitLen n ≤ k ↔ n < 2 ^ k := by
  unfold natBitLen
  split
  · next h => subst h; simp
  · next h => exact Nat.log2_lt h

theorem natBitLen_zero : natBitLen 0 = 0 := by simp [natBitLen]

theorem natBitLen_pos_iff (n : Nat) : 0 < natBitLen n ↔ n ≠ 0 := by
  unfold natBitLen
  split
  · next h => simp [h]
  · next h => simp [h]

theorem natBitLen_eq_zero_iff (n : Nat) : natBitLen n = 0 ↔ n = 0 := by
  have := natBitLen_pos_iff n
  omega

theorem lt_two_pow_natBitLen (n : Nat) : n < 2 ^ natBitLen n :=
  (natBitLen_le_iff n _).mp (Nat.le_refl _)

theorem two_pow_natBitLen_le (n : Nat) (h : n ≠ 0) : 2 ^ (natBitLen n - 1) ≤ n := by
  have hpos := (natBitLen_pos_iff n).mpr h
  have := (natBitLen_le_iff n (natBitLen n - 1)).not
  omega

/-- characterisation: `natBitLen n = k + 1` iff `2^k ≤ n < 2^(k+1)` -/
theorem natBitLen_eq_succ_iff (n k : Nat) : natBitLen n = k + 1 ↔ 2 ^ k ≤ n ∧ n < 2 ^ (k + 1) := by
  have h1 := natBitLen_le_iff n k
  have h2 := natBitLen_le_iff n (k + 1)
  omega

theorem bitLen_eq_natBitLen (x : Int) : bitLen x = natBitLen x.natAbs := rfl

/-! ## big-endian bytes -/

theorem natBytesBEAux_acc (fuel n : Nat) (acc : List UInt8) :
    natBytesBEAux fuel n acc = natBytesBEAux fuel n [] ++ acc := by
  induction fuel generalizing n acc with
  | zero => simp [natBytesBEAux]
  | succ f ih =>
    unfold natBytesBEAux
    split
    · simp
    · rw [ih (n / 256) ((n % 256).toUInt8 :: acc), ih (n / 256) [(n % 256).toUInt8]]
      simp

theorem natBytesBEAux_zero (fuel : Nat) : natBytesBEAux fuel 0 [] = [] := by
  cases fuel <;> simp [natBytesBEAux]

theorem natBytesBEAux_succ (fuel n : Nat) (h : n ≠ 0) :
    natBytesBEAux (fuel + 1) n [] = natBytesBEAux fuel (n / 256) [] ++ [(n % 256).toUInt8] := by
  conv => lhs; unfold natBytesBEAux
  rw [if_neg h, natBytesBEAux_acc]

theorem ofBytesBE_snoc (l : List UInt8) (b : UInt8) :
    ofBytesBE (l ++ [b]) = ofBytesBE l * 256 + b.toNat := by
  simp [ofBytesBE, List.foldl_append]

theorem ofBytesBE_nil : ofBytesBE [] = 0 := rfl

theorem toUInt8_mod_toNat (n : Nat) : ((n % 256).toUInt8).toNat = n % 256 := by
  simp

/-- With enough fuel the auxiliary loop produces the base-256 digits of `n`. -/
theorem ofBytesBE_natBytesBEAux (fuel n : Nat) (h : n < 256 ^ fuel) :
    ofBytesBE (natBytesBEAux fuel n []) = n := by
  induction fuel generalizing n with
  | zero =>
    have : n = 0 := by simpa using h
    subst this; rfl
  | succ f ih =>
    by_cases hn : n = 0
    · subst hn; rw [natBytesBEAux_zero]; rfl
    · have hlt : n / 256 < 256 ^ f := by
        apply Nat.div_lt_of_lt_mul
        rw [Nat.pow_succ, Nat.mul_comm] at h
        exact h
      rw [natBytesBEAux_succ f n hn, ofBytesBE_snoc, ih _ hlt, toUInt8_mod_toNat]
      omega

theorem natBitLen_div_256 (n : Nat) : natBitLen (n / 256) = natBitLen n - 8 := by
  have key : ∀ k, natBitLen (n / 256) ≤ k ↔ natBitLen n ≤ k + 8 := by
    intro k
    rw [natBitLen_le_iff, natBitLen_le_iff, Nat.pow_add,
      Nat.div_lt_iff_lt_mul (by norm_num : 0 < 256)]
  have h1 := key (natBitLen (n / 256))
  have h2 := key (natBitLen n - 8)
  omega

theorem natBytesBE_fuel (n : Nat) : n < 256 ^ (natBitLen n / 8 + 1) := by
  have h : natBitLen n ≤ 8 * (natBitLen n / 8 + 1) := by omega
  have := (natBitLen_le_iff n _).mp h
  rwa [Nat.pow_mul] at this

theorem natBytesBEAux_length (fuel n : Nat) (h : n < 256 ^ fuel) :
    (natBytesBEAux fuel n []).length = (natBitLen n + 7) / 8 := by
  induction fuel generalizing n with
  | zero =>
    have : n = 0 := by simpa using h
    subst this; simp [natBytesBEAux, natBitLen_zero]
  | succ f ih =>
    by_cases hn : n = 0
    · subst hn; rw [natBytesBEAux_zero]; simp [natBitLen_zero]
    · have hlt : n / 256 < 256 ^ f := by
        apply Nat.div_lt_of_lt_mul
        rw [Nat.pow_succ, Nat.mul_comm] at h
        exact h
      rw [natBytesBEAux_succ f n hn, List.length_append, ih _ hlt, natBitLen_div_256]
      have := (natBitLen_pos_iff n).mpr hn
      simp only [List.length_singleton]
      omega

theorem natBytesBEAux_head (fuel n : Nat) (h : n < 256 ^ fuel) (hn : n ≠ 0) :
    (natBytesBEAux fuel n []).head? ≠ some 0 := by
  induction fuel generalizing n with
  | zero =>
    have : n = 0 := by simpa using h
    exact absurd this hn
  | succ f ih =>
    have hlt : n / 256 < 256 ^ f := by
      apply Nat.div_lt_of_lt_mul
      rw [Nat.pow_succ, Nat.mul_comm] at h
      exact h
    rw [natBytesBEAux_succ f n hn]
    by_cases hq : n / 256 = 0
    · rw [hq, natBytesBEAux_zero]
      have hsmall : n < 256 := by omega
      intro hc
      simp only [List.nil_append, List.head?_cons, Option.some.injEq] at hc
      have := congrArg UInt8.toNat hc
      rw [toUInt8_mod_toNat] at this
      simp at this
      omega
    · have hih := ih (n / 256) hlt hq
      cases hl : natBytesBEAux f (n / 256) [] with
      | nil =>
        have hlen := natBytesBEAux_length f _ hlt
        have hp := (natBitLen_pos_iff (n / 256)).mpr hq
        rw [hl, List.length_nil] at hlen
        omega
      | cons b t => rw [hl] at hih; simpa using hih

theorem ofBytesBE_natBytesBE (n : Nat) : ofBytesBE (natBytesBE n) = n :=
  ofBytesBE_natBytesBEAux _ n (natBytesBE_fuel n)

theorem natBytesBE_length (n : Nat) : (natBytesBE n).length = (natBitLen n + 7) / 8 :=
  natBytesBEAux_length _ n (natBytesBE_fuel n)

theorem natBytesBE_zero : natBytesBE 0 = [] := natBytesBEAux_zero _

theorem natBytesBE_head_ne_zero (n : Nat) (h : n ≠ 0) : (natBytesBE n).head? ≠ some 0 :=
  natBytesBEAux_head _ n (natBytesBE_fuel n) h

/-! ## int64 wrap -/

theorem wrap64_def (x : Int) : wrap64 x =
    if x % 18446744073709551616 ≥ 9223372036854775808
    then x % 18446744073709551616 - 18446744073709551616 else x % 18446744073709551616 := by
  unfold wrap64
  norm_num

theorem two_pow_63 : (2 ^ 63 : Int) = 9223372036854775808 := by norm_num
theorem two_pow_64 : (2 ^ 64 : Int) = 18446744073709551616 := by norm_num

theorem wrap64_range (x : Int) : -(2^63 : Int) ≤ wrap64 x ∧ wrap64 x < 2^63 := by
  rw [wrap64_def, two_pow_63]
  split <;> omega

theorem wrap64_congr (x : Int) : (wrap64 x - x) % (2^64 : Int) = 0 := by
  rw [wrap64_def, two_pow_64]
  split <;> omega

theorem wrap64_id {x : Int} (h1 : -(2^63 : Int) ≤ x) (h2 : x < 2^63) : wrap64 x = x := by
  rw [two_pow_63] at h1 h2
  rw [wrap64_def]
  split <;> omega

/-- bonus: `goInt64` (Go's `big.Int.Int64`) is the same two's-complement wrap. -/
theorem goInt64_eq_wrap64 (x : Int) : goInt64 x = wrap64 x := by
  rw [wrap64_def]
  unfold goInt64
  simp only [two_pow_64, two_pow_63, Int.ofNat_eq_natCast]
  have e : (2 ^ 64 : Nat) = 18446744073709551616 := by norm_num
  rw [e]
  split <;> split <;> split <;> omega

end Gabi

#print axioms Gabi.powMod_eq
#print axioms Gabi.xgcd_gcd
#print axioms Gabi.xgcd_bezout
#print axioms Gabi.goModInverse_some
#print axioms Gabi.goModInverse_none_iff
#print axioms Gabi.commonModInverse_some
#print axioms Gabi.commonModInverse_none_iff
#print axioms Gabi.goExp_nonneg
#print axioms Gabi.goExp_neg
#print axioms Gabi.goExp_range
#print axioms Gabi.natBitLen_le_iff
#print axioms Gabi.natBitLen_pos_iff
#print axioms Gabi.lt_two_pow_natBitLen
#print axioms Gabi.two_pow_natBitLen_le
#print axioms Gabi.bitLen_eq_natBitLen
#print axioms Gabi.ofBytesBE_natBytesBE
#print axioms Gabi.natBytesBE_length
#print axioms Gabi.natBytesBE_zero
#print axioms Gabi.natBytesBE_head_ne_zero
#print axioms Gabi.wrap64_range
#print axioms Gabi.wrap64_congr
#print axioms Gabi.wrap64_id
#print axioms Gabi.goInt64_eq_wrap64
