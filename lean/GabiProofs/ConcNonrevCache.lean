/-
  GabiProofs.ConcNonrevCache — the linearity invariant of GabiModel.Conc.NonrevCache
  (credential.go nonrevConsumeBuilder / NonrevPrepareCache): `Inv` (channel within capacity, every
  builder id in exactly one place) holds initially and is preserved by every label (`inv_spawn`,
  `inv_adv`, `inv_fail`), hence in every reachable state of every schedule (`builder_linear`);
  corollaries `no_double_consume`, `consumed_exclusive`, `chan_le_one`, `finished_stable`.
-/
import GabiModel.Conc.NonrevCache
import Mathlib.Tactic.Ring
import Mathlib.Tactic.SplitIfs

/-!
  Proofs about the non-revocation builder cache transition system
  (GabiModel.Conc.NonrevCache): builder linearity for all schedules.
-/
namespace Gabi.Conc.NonrevCache

/-! ## list helpers -/

theorem sum_map_set (f : Op → Nat) (ops : List Op) (i : Nat) (old x : Op)
    (h : ops[i]? = some old) :
    ((ops.set i x).map f).sum + f old = (ops.map f).sum + f x := by
  induction ops generalizing i with
  | nil => simp at h
  | cons a t ih =>
    cases i with
    | zero =>
      simp at h; subst h
      simp only [List.set_cons_zero, List.map_cons, List.sum_cons]; omega
    | succ n =>
      simp at h
      have := ih n h
      simp only [List.set_cons_succ, List.map_cons, List.sum_cons]; omega

theorem le_sum_map_of_getElem? (f : Op → Nat) (ops : List Op) (i : Nat) (o : Op)
    (h : ops[i]? = some o) : f o ≤ (ops.map f).sum := by
  induction ops generalizing i with
  | nil => simp at h
  | cons a t ih =>
    cases i with
    | zero => simp at h; subst h; simp
    | succ n =>
      simp at h
      have := ih n h
      simp only [List.map_cons, List.sum_cons]; omega

theorem add_le_sum_map_of_getElem? (f : Op → Nat) (ops : List Op) (i j : Nat) (o1 o2 : Op)
    (hij : i ≠ j) (hi : ops[i]? = some o1) (hj : ops[j]? = some o2) :
    f o1 + f o2 ≤ (ops.map f).sum := by
  induction ops generalizing i j with
  | nil => simp at hi
  | cons a t ih =>
    cases i with
    | zero =>
      cases j with
      | zero => exact absurd rfl hij
      | succ m =>
        simp at hi hj; subst hi
        have := le_sum_map_of_getElem? f t m o2 hj
        simp only [List.map_cons, List.sum_cons]; omega
    | succ n =>
      cases j with
      | zero =>
        simp at hi hj; subst hj
        have := le_sum_map_of_getElem? f t n o1 hi
        simp only [List.map_cons, List.sum_cons]; omega
      | succ m =>
        simp at hi hj
        have := ih n m (by omega) hi hj
        simp only [List.map_cons, List.sum_cons]; omega

/-! ## Pc.holds on constructors -/

theorem holds_start (b : Nat) : Pc.holds b .start = 0 := rfl
theorem holds_recv (b : Nat) (h : Bool) : Pc.holds b (.recv h) = 0 := rfl
theorem holds_building (b : Nat) : Pc.holds b .building = 0 := rfl
theorem holds_gotCached (b b' : Nat) : Pc.holds b (.gotCached b') = if b' = b then 1 else 0 := rfl
theorem holds_holding (b b' : Nat) : Pc.holds b (.holding b') = if b' = b then 1 else 0 := rfl
theorem holds_finished_some (b b' : Nat) :
    Pc.holds b (.finished (some b')) = if b' = b then 1 else 0 := rfl
theorem holds_finished_none (b : Nat) : Pc.holds b (.finished none) = 0 := rfl

/-! ## setPc -/

/-- setting the pc of operation i moves exactly the units held by the old / new pc. -/
theorem places_setPc (cc : Bool) (c : List Nat) (sup : Nat) (ops : List Op) (d : List Nat)
    (i : Nat) (k : Kind) (pc : Pc) (op : Op) (b : Nat) (h : ops[i]? = some op) :
    places (setPc { chanCreated := cc, chan := c, supply := sup, ops := ops, discarded := d }
        i k pc) b + op.pc.holds b
      = c.count b + (ops.map (fun o => o.pc.holds b)).sum + d.count b + pc.holds b := by
  have := sum_map_set (fun o => o.pc.holds b) ops i op { kind := k, pc := pc } h
  simp only [places, setPc]
  simp only at this
  omega

theorem setPc_ops_ne (s : St) (i j : Nat) (k : Kind) (pc : Pc) (hij : i ≠ j) :
    (setPc s i k pc).ops[j]? = s.ops[j]? := by
  simp [setPc, List.getElem?_set_ne hij]

/-- the linearity invariant: the channel never exceeds its capacity, and every builder id drawn
    so far is in exactly one place, ids not yet drawn in none -/
def Inv (s : St) : Prop :=
  s.chan.length ≤ cap ∧ ∀ b, places s b = if b < s.supply then 1 else 0

theorem inv_init : Inv {} := by
  refine ⟨by simp [cap], fun b => ?_⟩
  simp [places]

theorem inv_spawn (s : St) (k : Kind) (h : Inv s) : Inv (step s (.spawn k)) := by
  obtain ⟨hc, hp⟩ := h
  refine ⟨hc, fun b => ?_⟩
  show places _ b = if b < s.supply then 1 else 0
  rw [← hp b]
  simp only [step, places, List.map_append, List.sum_append, List.map_cons, List.map_nil,
    List.sum_cons, List.sum_nil, holds_start]
  omega

theorem inv_adv (s : St) (i : Nat) (h : Inv s) : Inv (adv s i) := by
  obtain ⟨hc, hp⟩ := h
  cases hop : s.ops[i]? with
  | none => simp only [adv, hop]; exact ⟨hc, hp⟩
  | some op =>
    obtain ⟨k, pc⟩ := op
    have h2 : ∀ b, s.chan.count b + (s.ops.map (fun o => o.pc.holds b)).sum
          + s.discarded.count b = if b < s.supply then 1 else 0 := hp
    cases pc with
    | start =>
      cases k
      · simp only [adv, hop]
        refine ⟨hc, fun b => ?_⟩
        have h1 := places_setPc true s.chan s.supply s.ops s.discarded i .prepare (.recv true)
          _ b hop
        show places _ b = if b < s.supply then 1 else 0
        rw [← h2 b]
        simp only [holds_start, holds_recv] at h1
        omega
      · simp only [adv, hop]
        refine ⟨hc, fun b => ?_⟩
        have h1 := places_setPc s.chanCreated s.chan s.supply s.ops s.discarded i .consume
          (.recv s.chanCreated) _ b hop
        show places _ b = if b < s.supply then 1 else 0
        rw [← h2 b]
        simp only [holds_start, holds_recv] at h1
        omega
    | recv hv =>
      simp only [adv, hop]
      split
      · next b' rest hch =>
        refine ⟨?_, fun b => ?_⟩
        · show rest.length ≤ cap
          rw [hch] at hc; simp only [List.length_cons] at hc; omega
        · have h1 := places_setPc s.chanCreated rest s.supply s.ops s.discarded i k
            (.gotCached b') _ b hop
          show places _ b = if b < s.supply then 1 else 0
          rw [← h2 b, hch, List.count_cons]
          simp only [holds_recv, holds_gotCached, beq_iff_eq] at h1 ⊢
          omega
      · refine ⟨hc, fun b => ?_⟩
        obtain ⟨cc, c, sup, ops, d⟩ := s
        have h1 := places_setPc cc c sup ops d i k .building _ b hop
        show places _ b = if b < sup then 1 else 0
        rw [← h2 b]
        simp only [holds_recv, holds_building] at h1 ⊢
        omega
    | gotCached b' =>
      obtain ⟨cc, c, sup, ops, d⟩ := s
      cases k
      · simp only [adv, hop]
        refine ⟨hc, fun b => ?_⟩
        have h1 := places_setPc cc c sup ops d i .prepare (.holding b') _ b hop
        show places _ b = if b < sup then 1 else 0
        rw [← h2 b]
        simp only [holds_gotCached, holds_holding] at h1 ⊢
        omega
      · simp only [adv, hop]
        refine ⟨hc, fun b => ?_⟩
        have h1 := places_setPc cc c sup ops d i .consume (.finished (some b')) _ b hop
        show places _ b = if b < sup then 1 else 0
        rw [← h2 b]
        simp only [holds_gotCached, holds_finished_some] at h1 ⊢
        omega
    | building =>
      obtain ⟨cc, c, sup, ops, d⟩ := s
      cases k
      · simp only [adv, hop]
        refine ⟨hc, fun b => ?_⟩
        have h1 := places_setPc cc c (sup + 1) ops d i .prepare (.holding sup) _ b hop
        have h3 := h2 b
        show places _ b = if b < sup + 1 then 1 else 0
        simp only [holds_building, holds_holding] at h1 h3 ⊢
        split_ifs at h1 h3 ⊢ <;> omega
      · simp only [adv, hop]
        refine ⟨hc, fun b => ?_⟩
        have h1 := places_setPc cc c (sup + 1) ops d i .consume (.finished (some sup)) _ b hop
        have h3 := h2 b
        show places _ b = if b < sup + 1 then 1 else 0
        simp only [holds_building, holds_finished_some] at h1 h3 ⊢
        split_ifs at h1 h3 ⊢ <;> omega
    | holding b' =>
      obtain ⟨cc, c, sup, ops, d⟩ := s
      simp only [adv, hop]
      split
      · next hlt =>
        refine ⟨?_, fun b => ?_⟩
        · show (c ++ [b']).length ≤ cap
          simp only [List.length_append, List.length_cons, List.length_nil] at hlt ⊢
          omega
        · have h1 := places_setPc cc (c ++ [b']) sup ops d i k (.finished none) _ b hop
          show places _ b = if b < sup then 1 else 0
          rw [← h2 b]
          simp only [holds_holding, holds_finished_none, List.count_append, List.count_cons,
            List.count_nil, beq_iff_eq] at h1 ⊢
          omega
      · refine ⟨hc, fun b => ?_⟩
        have h1 := places_setPc cc c sup ops (b' :: d) i k (.finished none) _ b hop
        show places _ b = if b < sup then 1 else 0
        rw [← h2 b]
        simp only [holds_holding, holds_finished_none, List.count_cons, beq_iff_eq] at h1 ⊢
        omega
    | finished r => simp only [adv, hop]; exact ⟨hc, hp⟩

theorem inv_fail (s : St) (i : Nat) (h : Inv s) : Inv (step s (.fail i)) := by
  obtain ⟨hc, hp⟩ := h
  obtain ⟨cc, c, sup, ops, d⟩ := s
  have h2 : ∀ b, c.count b + (ops.map (fun o => o.pc.holds b)).sum
        + d.count b = if b < sup then 1 else 0 := hp
  simp only [step]
  split
  · next k b' hop =>
    refine ⟨hc, fun b => ?_⟩
    have h1 := places_setPc cc c sup ops (b' :: d) i k (.finished none) _ b hop
    show places _ b = if b < sup then 1 else 0
    rw [← h2 b]
    simp only [holds_gotCached, holds_finished_none, List.count_cons, beq_iff_eq] at h1 ⊢
    omega
  · exact ⟨hc, hp⟩

theorem inv_step (s : St) (l : Label) (h : Inv s) : Inv (step s l) := by
  cases l with
  | spawn k => exact inv_spawn s k h
  | adv i => exact inv_adv s i h
  | fail i => exact inv_fail s i h

/-- more general start: from any state satisfying Inv -/
theorem inv_exec (s : St) (ls : List Label) (h : Inv s) : Inv (exec s ls) := by
  induction ls generalizing s with
  | nil => exact h
  | cons l t ih => exact ih (step s l) (inv_step s l h)

/-- for ALL schedules (arbitrary interleavings of arbitrarily many operations, including
    failures) -/
theorem builder_linear (ls : List Label) : Inv (exec {} ls) :=
  inv_exec {} ls inv_init

theorem places_le_one (s : St) (h : Inv s) (b : Nat) : places s b ≤ 1 := by
  rw [h.2 b]; split_ifs <;> omega

theorem inv_no_double_consume (s : St) (h : Inv s) (i j b : Nat)
    (hi : consumedBy s i b) (hj : consumedBy s j b) : i = j := by
  by_contra hij
  have h1 := add_le_sum_map_of_getElem? (fun o => o.pc.holds b) s.ops i j _ _ hij hi hj
  have h2 := places_le_one s h b
  simp only [places] at h2
  simp only [holds_finished_some, if_true] at h1
  omega

theorem inv_consumed_exclusive (s : St) (h : Inv s) (i b : Nat) (hi : consumedBy s i b) :
    b ∉ s.chan ∧ b ∉ s.discarded ∧
    ∀ j op, j ≠ i → s.ops[j]? = some op → op.pc.holds b = 0 := by
  have h2 := places_le_one s h b
  simp only [places] at h2
  have h0 := le_sum_map_of_getElem? (fun o => o.pc.holds b) s.ops i _ hi
  simp only [holds_finished_some, if_true] at h0
  refine ⟨?_, ?_, ?_⟩
  · rw [← List.count_eq_zero (a := b)]; omega
  · rw [← List.count_eq_zero (a := b)]; omega
  · intro j op hji hj
    have h1 := add_le_sum_map_of_getElem? (fun o => o.pc.holds b) s.ops i j _ _
      (fun e => hji e.symm) hi hj
    simp only [holds_finished_some, if_true] at h1
    omega

/-- no builder is consumed by two proofs -/
theorem no_double_consume (ls : List Label) (i j b : Nat)
    (hi : consumedBy (exec {} ls) i b) (hj : consumedBy (exec {} ls) j b) : i = j :=
  inv_no_double_consume _ (builder_linear ls) i j b hi hj

/-- a consumed builder is nowhere else: not in the channel, not discarded, not held by another
    operation -/
theorem consumed_exclusive (ls : List Label) (i b : Nat) (hi : consumedBy (exec {} ls) i b) :
    b ∉ (exec {} ls).chan ∧ b ∉ (exec {} ls).discarded ∧
    ∀ j op, j ≠ i → (exec {} ls).ops[j]? = some op → op.pc.holds b = 0 :=
  inv_consumed_exclusive _ (builder_linear ls) i b hi

theorem chan_le_one (ls : List Label) : (exec {} ls).chan.length ≤ 1 :=
  (builder_linear ls).1

/-- the executable invariant test used by the driver agrees with Inv on the ids it inspects -/
theorem invOk_of_inv (s : St) (h : Inv s) : invOk s = true := by
  simp [invOk, h.1, h.2]

theorem adv_finished (s : St) (i : Nat) (k : Kind) (r : Option Nat)
    (h : s.ops[i]? = some { kind := k, pc := .finished r }) : adv s i = s := by
  simp only [adv, h]

theorem adv_ops_ne (s : St) (i j : Nat) (hij : i ≠ j) : (adv s i).ops[j]? = s.ops[j]? := by
  unfold adv
  repeat' split
  all_goals first | rfl | exact setPc_ops_ne _ i j _ _ hij

/-- once an operation is finished it never changes again (results of proofs are stable) -/
theorem finished_stable (s : St) (l : Label) (i : Nat) (k : Kind) (r : Option Nat)
    (h : s.ops[i]? = some { kind := k, pc := .finished r }) :
    (step s l).ops[i]? = some { kind := k, pc := .finished r } := by
  cases l with
  | spawn k' =>
    have hlt : i < s.ops.length := by
      by_contra hge
      rw [List.getElem?_eq_none (by omega)] at h
      exact absurd h (by simp)
    show (s.ops ++ _)[i]? = _
    rw [List.getElem?_append_left hlt]; exact h
  | adv i' =>
    by_cases e : i' = i
    · subst e; show (adv s i').ops[i']? = _; rw [adv_finished s i' k r h]; exact h
    · show (adv s i').ops[i]? = _; rw [adv_ops_ne s i' i e]; exact h
  | fail i' =>
    simp only [step]
    split
    · next k' b' hop =>
      have e : i' ≠ i := by
        rintro rfl
        rw [h] at hop; simp at hop
      rw [setPc_ops_ne _ i' i _ _ e]; exact h
    · exact h


end Gabi.Conc.NonrevCache
