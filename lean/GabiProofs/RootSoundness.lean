/-
  GabiProofs.RootSoundness — qualitative soundness facts behind the `keyproof` sub-proofs
  (Gennaro–Micciancio–Rabin "square-free" and "disjoint prime product" proofs): when the
  modulus has the wrong shape, some unit challenge has no root of the required degree.
-/
import Mathlib.Data.Nat.Totient
import Mathlib.Data.ZMod.Basic
import Mathlib.GroupTheory.Perm.Cycle.Type
import Mathlib.GroupTheory.OrderOfElement
import Mathlib.Algebra.Group.Hom.Basic
import Mathlib.Data.Fintype.Card
import Mathlib.Data.ZMod.Units
import Mathlib.Data.Nat.ModEq
import Mathlib.FieldTheory.Finite.Basic
import Mathlib.NumberTheory.LegendreSymbol.Basic
import Mathlib.Tactic.Ring
import Mathlib.Tactic.Linarith
import Mathlib.Tactic.NormNum

namespace Gabi.KeyProof

/-- if a prime `s` divides both `φ(N)` and `e`, then `x ↦ x^e` is not surjective on the
units modulo `N`. -/
theorem exists_unit_not_pow {N e s : ℕ} (hs : s.Prime) (hsφ : s ∣ Nat.totient N) (hse : s ∣ e)
    (hN : 1 < N) : ∃ u : (ZMod N)ˣ, ∀ x : (ZMod N)ˣ, x ^ e ≠ u := by
  have : NeZero N := ⟨by omega⟩
  have : Fact s.Prime := ⟨hs⟩
  have hcard : s ∣ Nat.card (ZMod N)ˣ := by
    rw [Nat.card_eq_fintype_card, ZMod.card_units_eq_totient]; exact hsφ
  obtain ⟨g, hg⟩ := exists_prime_orderOf_dvd_card' s hcard
  have hge : g ^ e = 1 := by
    rw [← orderOf_dvd_iff_pow_eq_one, hg]; exact hse
  have hg1 : g ≠ 1 := by
    intro h
    rw [h, orderOf_one] at hg
    exact hs.one_lt.ne hg
  have hninj : ¬ Function.Injective (fun x : (ZMod N)ˣ => x ^ e) := by
    intro hinj
    apply hg1
    apply hinj
    simp [hge]
  have hnsurj : ¬ Function.Surjective (fun x : (ZMod N)ˣ => x ^ e) := by
    rwa [← Finite.injective_iff_surjective]
  simp only [Function.Surjective, not_forall, not_exists] at hnsurj
  exact hnsurj

/-- for an exponent `e` sharing a prime factor `s` with `φ(N)`, some residue coprime to `N`
is not an `e`-th power modulo `N`. -/
theorem exists_not_eth_power_of_common_prime {N e s : ℕ} (hs : s.Prime)
    (hsφ : s ∣ Nat.totient N) (hse : s ∣ e) (hN : 1 < N) :
    ∃ c : ℕ, c < N ∧ Nat.Coprime c N ∧ ¬ ∃ r : ℕ, r ^ e % N = c := by
  have : NeZero N := ⟨by omega⟩
  have : Fact (1 < N) := ⟨hN⟩
  obtain ⟨u, hu⟩ := exists_unit_not_pow hs hsφ hse hN
  refine ⟨(u : ZMod N).val, ZMod.val_lt _, ZMod.val_coe_unit_coprime u, ?_⟩
  rintro ⟨r, hr⟩
  have hcast : ((r : ZMod N)) ^ e = (u : ZMod N) := by
    have := congrArg (fun n : ℕ => (n : ZMod N)) hr
    simp only [ZMod.natCast_mod, ZMod.natCast_zmod_val, Nat.cast_pow] at this
    exact this
  by_cases he : e = 0
  · subst he
    apply hu 1
    apply Units.ext
    simpa using hcast
  · have hunit : IsUnit ((r : ZMod N) ^ e) := by rw [hcast]; exact u.isUnit
    rw [isUnit_pow_iff he] at hunit
    obtain ⟨x, hx⟩ := hunit
    apply hu x
    apply Units.ext
    rw [Units.val_pow_eq_pow_val, hx, hcast]

/-- if `p^2 ∣ N` for a prime `p`, some residue coprime to `N` is not an `N`-th power modulo `N`. -/
theorem exists_not_nth_power_of_sq_dvd {N p : ℕ} (hp : p.Prime) (hdiv : p ^ 2 ∣ N) (hN : 0 < N) :
    ∃ c : ℕ, c < N ∧ Nat.Coprime c N ∧ ¬ ∃ r : ℕ, r ^ N % N = c := by
  have hpN : p ∣ N := dvd_trans (dvd_pow_self p (by norm_num)) hdiv
  have hφ : p ∣ Nat.totient N := by
    refine dvd_trans ?_ (Nat.totient_dvd_of_dvd hdiv)
    rw [Nat.totient_prime_pow hp (by norm_num)]
    simp
  have h1 : 1 < N := lt_of_lt_of_le hp.one_lt (Nat.le_of_dvd hN hpN)
  exact exists_not_eth_power_of_common_prime hp hφ hpN h1

/-! ## three distinct odd prime factors: no multiplier in `{±1, ±2}` makes every unit a square -/

/-- realise a prescribed Legendre symbol `±1` by a natural number. -/
theorem exists_nat_legendreSym (ℓ : ℕ) [Fact ℓ.Prime] (hℓ : ℓ ≠ 2) (t : Bool) :
    ∃ z : ℕ, legendreSym ℓ (z : ℤ) = if t then -1 else 1 := by
  cases t with
  | false => exact ⟨1, by simp [legendreSym.at_one ℓ]⟩
  | true =>
    obtain ⟨a, ha⟩ := FiniteField.exists_nonsquare (F := ZMod ℓ) (by rwa [ZMod.ringChar_zmod_n])
    refine ⟨a.val, ?_⟩
    simp only [if_true]
    rw [legendreSym.eq_neg_one_iff]
    simp [ha]

theorem legendreSym_congr_nat (ℓ : ℕ) [Fact ℓ.Prime] {a b : ℕ} (h : a ≡ b [MOD ℓ]) :
    legendreSym ℓ (a : ℤ) = legendreSym ℓ (b : ℤ) := by
  have : ((a : ℤ) : ZMod ℓ) = ((b : ℤ) : ZMod ℓ) := by
    rw [Int.cast_natCast, Int.cast_natCast]
    exact (ZMod.natCast_eq_natCast_iff _ _ _).mpr h
  unfold legendreSym
  rw [this]

theorem coprime_of_legendreSym_ne_zero (ℓ : ℕ) [Fact ℓ.Prime] {a : ℕ}
    (h : legendreSym ℓ (a : ℤ) ≠ 0) : Nat.Coprime a ℓ := by
  rw [Nat.coprime_comm, Nat.Prime.coprime_iff_not_dvd Fact.out]
  intro hd
  apply h
  rw [legendreSym.eq_zero_iff, Int.cast_natCast, ZMod.natCast_eq_zero_iff]
  exact hd

theorem multiplier_ne_zero (ℓ : ℕ) [Fact ℓ.Prime] (hℓ : ℓ ≠ 2) {m : ℤ}
    (hm : m ∈ ([1, -1, 2, -2] : List ℤ)) : ((m : ℤ) : ZMod ℓ) ≠ 0 := by
  intro h
  rw [ZMod.intCast_zmod_eq_zero_iff_dvd, Int.natCast_dvd] at h
  have h2 := (Fact.out : ℓ.Prime).two_le
  have hle : m.natAbs ≤ 2 ∧ 0 < m.natAbs := by
    simp only [List.mem_cons, List.not_mem_nil, or_false] at hm
    rcases hm with rfl | rfl | rfl | rfl <;> decide
  have := Nat.le_of_dvd hle.2 h
  omega

theorem legendreSym_mul_eq_neg_one (ℓ : ℕ) [Fact ℓ.Prime] {m c : ℤ} (hm : (m : ZMod ℓ) ≠ 0)
    {t : Bool} (hc : legendreSym ℓ c = if t then -1 else 1)
    (hne : t ≠ decide (legendreSym ℓ m = -1)) : legendreSym ℓ (m * c) = -1 := by
  rw [legendreSym.mul, hc]
  rcases legendreSym.eq_one_or_neg_one ℓ hm with h | h <;> cases t <;> simp [h] at hne ⊢

theorem not_sq_of_legendreSym_eq_neg_one (ℓ : ℕ) [Fact ℓ.Prime] {N : ℕ} (hℓN : ℓ ∣ N) {a : ℤ}
    (h : legendreSym ℓ a = -1) : ¬ ∃ x : ℤ, (x * x - a) % (N : ℤ) = 0 := by
  rintro ⟨x, hx⟩
  rw [legendreSym.eq_neg_one_iff] at h
  apply h
  have hd : (ℓ : ℤ) ∣ x * x - a :=
    dvd_trans (Int.natCast_dvd_natCast.mpr hℓN) (Int.dvd_of_emod_eq_zero hx)
  refine ⟨(x : ZMod ℓ), ?_⟩
  have := (ZMod.intCast_zmod_eq_zero_iff_dvd _ _).mpr hd
  push_cast at this
  exact (sub_eq_zero.mp this).symm

theorem exists_triple_avoiding (s1 s2 s3 s4 : Bool × Bool × Bool) :
    ∃ t : Bool × Bool × Bool, t ≠ s1 ∧ t ≠ s2 ∧ t ≠ s3 ∧ t ≠ s4 := by
  have hcard : ({s1, s2, s3, s4} : Finset (Bool × Bool × Bool)).card
      < (Finset.univ : Finset (Bool × Bool × Bool)).card := by
    calc _ ≤ 4 := Finset.card_le_four
      _ < 8 := by norm_num
      _ = _ := by simp
  obtain ⟨t, _, ht⟩ := Finset.exists_mem_notMem_of_card_lt_card hcard
  simp only [Finset.mem_insert, Finset.mem_singleton, not_or] at ht
  exact ⟨t, ht⟩

/-- if `N > 0` has three distinct odd prime factors then some unit `c` has none of
`c, −c, 2c, −2c` a square modulo `N`. -/
theorem exists_no_sq_multiplier_of_three_primes {N p q r : ℕ} (hp : p.Prime) (hq : q.Prime)
    (hr : r.Prime) (hpq : p ≠ q) (hpr : p ≠ r) (hqr : q ≠ r) (hp2 : p ≠ 2) (hq2 : q ≠ 2)
    (hr2 : r ≠ 2) (hdiv : p * q * r ∣ N) (hN : 0 < N) :
    ∃ c : ℤ, Int.gcd c N = 1 ∧
      ∀ m ∈ ([1, -1, 2, -2] : List ℤ), ¬ ∃ x : ℤ, (x * x - m * c) % (N : ℤ) = 0 := by
  have : Fact p.Prime := ⟨hp⟩
  have : Fact q.Prime := ⟨hq⟩
  have : Fact r.Prime := ⟨hr⟩
  have : NeZero N := ⟨by omega⟩
  let σ : ℤ → Bool × Bool × Bool := fun m =>
    (decide (legendreSym p m = -1), decide (legendreSym q m = -1), decide (legendreSym r m = -1))
  obtain ⟨t, ht1, ht2, ht3, ht4⟩ := exists_triple_avoiding (σ 1) (σ (-1)) (σ 2) (σ (-2))
  obtain ⟨zp, hzp⟩ := exists_nat_legendreSym p hp2 t.1
  obtain ⟨zq, hzq⟩ := exists_nat_legendreSym q hq2 t.2.1
  obtain ⟨zr, hzr⟩ := exists_nat_legendreSym r hr2 t.2.2
  have cpq : Nat.Coprime p q := (Nat.coprime_primes hp hq).mpr hpq
  have cpr : Nat.Coprime p r := (Nat.coprime_primes hp hr).mpr hpr
  have cqr : Nat.Coprime q r := (Nat.coprime_primes hq hr).mpr hqr
  obtain ⟨k1, hk1p, hk1q⟩ := Nat.chineseRemainder cpq zp zq
  obtain ⟨k2, hk2pq, hk2r⟩ :=
    Nat.chineseRemainder (Nat.Coprime.mul_left cpr cqr : Nat.Coprime (p * q) r) k1 zr
  have hk2p : k2 ≡ zp [MOD p] := (hk2pq.of_mul_right q).trans hk1p
  have hk2q : k2 ≡ zq [MOD q] := (hk2pq.of_mul_left p).trans hk1q
  have Lp : legendreSym p k2 = if t.1 then -1 else 1 := (legendreSym_congr_nat p hk2p).trans hzp
  have Lq : legendreSym q k2 = if t.2.1 then -1 else 1 :=
    (legendreSym_congr_nat q hk2q).trans hzq
  have Lr : legendreSym r k2 = if t.2.2 then -1 else 1 :=
    (legendreSym_congr_nat r hk2r).trans hzr
  have ne0 : ∀ b : Bool, (if b then (-1 : ℤ) else 1) ≠ 0 := by intro b; cases b <;> simp
  have copk2 : Nat.Coprime k2 (p * q * r) :=
    Nat.Coprime.mul_right
      (Nat.Coprime.mul_right (coprime_of_legendreSym_ne_zero p (by rw [Lp]; exact ne0 _))
        (coprime_of_legendreSym_ne_zero q (by rw [Lq]; exact ne0 _)))
      (coprime_of_legendreSym_ne_zero r (by rw [Lr]; exact ne0 _))
  obtain ⟨u, hu⟩ := ZMod.unitsMap_surjective hdiv (ZMod.unitOfCoprime k2 copk2)
  have hval : (((u : ZMod N).val : ℕ) : ZMod (p * q * r)) = (k2 : ZMod (p * q * r)) := by
    have := congrArg (fun v : (ZMod (p * q * r))ˣ => (v : ZMod (p * q * r))) hu
    simp only [ZMod.unitsMap_val, ZMod.coe_unitOfCoprime] at this
    rw [ZMod.natCast_val]
    exact this
  have hmod : (u : ZMod N).val ≡ k2 [MOD p * q * r] :=
    (ZMod.natCast_eq_natCast_iff _ _ _).mp hval
  have Cp : legendreSym p ((u : ZMod N).val : ℤ) = if t.1 then -1 else 1 :=
    (legendreSym_congr_nat p ((hmod.of_mul_right r).of_mul_right q)).trans Lp
  have Cq : legendreSym q ((u : ZMod N).val : ℤ) = if t.2.1 then -1 else 1 :=
    (legendreSym_congr_nat q ((hmod.of_mul_right r).of_mul_left p)).trans Lq
  have Cr : legendreSym r ((u : ZMod N).val : ℤ) = if t.2.2 then -1 else 1 :=
    (legendreSym_congr_nat r (hmod.of_mul_left (p * q))).trans Lr
  have hpN : p ∣ N := dvd_trans (dvd_mul_of_dvd_left (dvd_mul_right p q) r) hdiv
  have hqN : q ∣ N := dvd_trans (dvd_mul_of_dvd_left (dvd_mul_left q p) r) hdiv
  have hrN : r ∣ N := dvd_trans (dvd_mul_left r (p * q)) hdiv
  refine ⟨((u : ZMod N).val : ℤ), ?_, ?_⟩
  · rw [Int.gcd_natCast_natCast]
    exact ZMod.val_coe_unit_coprime u
  · intro m hm
    have hne : t ≠ σ m := by
      have hm' := hm
      simp only [List.mem_cons, List.not_mem_nil, or_false] at hm'
      rcases hm' with rfl | rfl | rfl | rfl <;> assumption
    have hcoord : t.1 ≠ (σ m).1 ∨ t.2.1 ≠ (σ m).2.1 ∨ t.2.2 ≠ (σ m).2.2 := by
      by_contra hcon
      push Not at hcon
      exact hne (Prod.ext hcon.1 (Prod.ext hcon.2.1 hcon.2.2))
    rcases hcoord with h | h | h
    · exact not_sq_of_legendreSym_eq_neg_one p hpN
        (legendreSym_mul_eq_neg_one p (multiplier_ne_zero p hp2 hm) Cp h)
    · exact not_sq_of_legendreSym_eq_neg_one q hqN
        (legendreSym_mul_eq_neg_one q (multiplier_ne_zero q hq2 hm) Cq h)
    · exact not_sq_of_legendreSym_eq_neg_one r hrN
        (legendreSym_mul_eq_neg_one r (multiplier_ne_zero r hr2 hm) Cr h)

end Gabi.KeyProof
