/-
  GabiProofs.VerifyLogic — decision-logic / totality lemmas about the verification model
  (GabiModel.Proofs, ReprProof, GoM). Used by GabiProps.C08 and GabiProps.C01.
-/
import GabiModel.Proofs
import GabiProofs.NumLemmas
import Std.Data.String.ToNat
import Mathlib.Data.List.Forall2

namespace Gabi

/-! ## 1. monad toolkit: `GoM = Except GoPanic`, `GoE = OptionT GoM` -/

/-- "does not panic". -/
def GoM.IsOk {α} (x : GoM α) : Prop := ∃ a, x = .ok a

theorem GoM.isOk_pure {α} (a : α) : GoM.IsOk (pure a : GoM α) := ⟨a, rfl⟩
theorem GoM.isOk_ok {α} (a : α) : GoM.IsOk (.ok a : GoM α) := ⟨a, rfl⟩

theorem GoM.isOk_bind {α β} {x : GoM α} {f : α → GoM β} (hx : GoM.IsOk x)
    (hf : ∀ a, x = .ok a → GoM.IsOk (f a)) : GoM.IsOk (x >>= f) := by
  obtain ⟨a, rfl⟩ := hx
  exact hf a rfl

theorem GoM.bind_ok_iff {α β} {x : GoM α} {f : α → GoM β} {b : β} :
    (x >>= f) = .ok b ↔ ∃ a, x = .ok a ∧ f a = .ok b := by
  cases x with
  | error e => simp [bind, Except.bind]
  | ok a => simp [bind, Except.bind]

theorem GoM.ok_bind {α β} (a : α) (f : α → GoM β) : ((.ok a : GoM α) >>= f) = f a := rfl
theorem GoM.pure_eq_ok {α} (a : α) : (pure a : GoM α) = .ok a := rfl

theorem deref_ok_iff {α} (w : String) (x : Option α) (a : α) : deref w x = .ok a ↔ x = some a := by
  cases x <;> simp [deref, pure, Except.pure, throw, throwThe, MonadExceptOf.throw]

theorem deref_some {α} (w : String) (a : α) : deref w (some a) = .ok a := rfl

theorem deref_isOk {α} (w : String) {x : Option α} (h : x.isSome) : GoM.IsOk (deref w x) := by
  cases x with
  | none => simp at h
  | some a => exact ⟨a, rfl⟩

theorem idx_ok_iff {α} (w : String) (l : List α) (i : Int) (a : α) :
    idx w l i = .ok a ↔ 0 ≤ i ∧ l[i.toNat]? = some a := by
  unfold idx
  by_cases hi : i < 0
  · simp [hi, throw, throwThe, MonadExceptOf.throw]
  · simp only [hi, if_false]
    cases h : l[i.toNat]? with
    | none => simp [throw, throwThe, MonadExceptOf.throw]
    | some b => simp [pure, Except.pure]; omega

theorem idx_isOk {α} (w : String) (l : List α) (i : Int) (h0 : 0 ≤ i) (h1 : i < l.length) :
    GoM.IsOk (idx w l i) := by
  have hlt : i.toNat < l.length := by omega
  refine ⟨l[i.toNat], ?_⟩
  rw [idx_ok_iff]
  exact ⟨h0, List.getElem?_eq_getElem hlt⟩

/-- result of a `GoE` computation is a verdict (value or error return), not a panic. -/
def GoE.IsOk {α} (x : GoE α) : Prop := GoM.IsOk x.run

theorem GoE.run_bind_ok_some_iff {α β} {x : GoE α} {f : α → GoE β} {b : β} :
    (x >>= f).run = .ok (some b) ↔ ∃ a, x.run = .ok (some a) ∧ (f a).run = .ok (some b) := by
  rw [OptionT.run_bind]
  show (x.run >>= _) = _ ↔ _
  rw [GoM.bind_ok_iff]
  constructor
  · rintro ⟨oa, h1, h2⟩
    cases oa with
    | none => simp [pure, Except.pure] at h2
    | some a => exact ⟨a, h1, h2⟩
  · rintro ⟨a, h1, h2⟩
    exact ⟨some a, h1, h2⟩

theorem GoE.isOk_bind {α β} {x : GoE α} {f : α → GoE β} (hx : GoE.IsOk x)
    (hf : ∀ a, x.run = .ok (some a) → GoE.IsOk (f a)) : GoE.IsOk (x >>= f) := by
  unfold GoE.IsOk
  rw [OptionT.run_bind]
  obtain ⟨oa, h⟩ := hx
  show GoM.IsOk (x.run >>= _)
  rw [h]
  cases oa with
  | none => exact ⟨none, rfl⟩
  | some a => exact hf a h

theorem GoE.isOk_failure {α} : GoE.IsOk (failure : GoE α) := ⟨none, rfl⟩
theorem GoE.isOk_pure {α} (a : α) : GoE.IsOk (pure a : GoE α) := ⟨some a, rfl⟩

theorem GoE.run_liftM {α} (x : GoM α) : (liftM x : GoE α).run = x >>= fun a => pure (some a) := by
  rfl

theorem GoE.run_liftM_ok_some_iff {α} (x : GoM α) (a : α) :
    (liftM x : GoE α).run = .ok (some a) ↔ x = .ok a := by
  rw [GoE.run_liftM]
  cases x <;> simp [bind, Except.bind, pure, Except.pure]

theorem GoE.isOk_liftM {α} {x : GoM α} (h : GoM.IsOk x) : GoE.IsOk (liftM x : GoE α) := by
  obtain ⟨a, rfl⟩ := h
  exact ⟨some a, rfl⟩

theorem GoE.run_failure {α} : (failure : GoE α).run = .ok none := rfl
theorem GoE.run_pure {α} (a : α) : (pure a : GoE α).run = .ok (some a) := rfl

/-! ## 2. `ProofD.challengeContribution` as a relation -/

theorem GoE.failure_ne {α} (a : α) : (failure : GoE α).run ≠ .ok (some a) := by
  rw [GoE.run_failure]; simp

/-- the non-revocation step of `challengeContribution` as a relation -/
def ProofD.NonrevStep (o : SigOracle) (kid : String) (pk : PublicKey) (p : ProofD) (i : Int) (c : Int)
    (l1 : List Int) (p1 : ProofD) : Prop :=
  (p.nonrev = none ∧ l1 = [] ∧ p1 = p) ∨
  (∃ nr resp nr', p.nonrev = some nr ∧ 0 ≤ i ∧ p.aResponses.get i = some resp ∧
     nr.setExpected o kid pk c resp = some nr' ∧ nr'.challengeContributions pk = .ok l1 ∧
     p1 = { p with nonrev := some nr' })

theorem ProofD.challengeContribution_ok_some {o : SigOracle} {kid : String} {pk : PublicKey} {p : ProofD}
    {i : Int} {contrib : List Int} {p' : ProofD}
    (h : (p.challengeContribution o kid pk i).run = .ok (some (contrib, p'))) :
    p.wellFormed pk = true ∧ ∃ z a c, p.reconstructZ pk = .ok (some z) ∧ p.a = some a ∧ p.c = some c ∧
      ∃ l1 p1, ProofD.NonrevStep o kid pk p i c l1 p1 ∧
        ∃ rc rps, (p1.rangeContributions pk c).run = .ok (some (rc, rps)) ∧
          contrib = [a, z] ++ l1 ++ rc ∧ p' = { p1 with rangeProofs := rps } := by
  unfold ProofD.challengeContribution at h
  simp only [] at h
  by_cases hw : p.wellFormed pk = true
  · refine ⟨hw, ?_⟩
    simp only [hw, Bool.not_true, Bool.false_eq_true, if_false] at h
    rw [GoE.run_bind_ok_some_iff] at h
    obtain ⟨z, hz, h⟩ := h
    rw [GoE.run_bind_ok_some_iff] at h
    obtain ⟨a, ha, h⟩ := h
    rw [GoE.run_bind_ok_some_iff] at h
    obtain ⟨c, hc, h⟩ := h
    rw [GoE.run_liftM_ok_some_iff, deref_ok_iff] at ha hc
    refine ⟨z, a, c, hz, ha, hc, ?_⟩
    cases hnr : p.nonrev with
    | none =>
      rw [hnr] at h
      simp only [] at h
      rw [GoE.run_bind_ok_some_iff] at h
      obtain ⟨⟨rc, rps⟩, hr, h⟩ := h
      simp only [GoE.run_pure, Except.ok.injEq, Option.some.injEq, Prod.mk.injEq] at h
      refine ⟨[], p, Or.inl ⟨hnr, rfl, rfl⟩, rc, rps, hr, ?_, ?_⟩
      · simp [← h.1]
      · rw [← h.2, hnr]
    | some nr =>
      rw [hnr] at h
      simp only [] at h
      rw [GoE.run_bind_ok_some_iff] at h
      obtain ⟨resp, hresp, h⟩ := h
      have hresp' : 0 ≤ i ∧ p.aResponses.get i = some resp := by
        by_cases hi : i < 0
        · simp only [hi, if_true] at hresp; exact absurd hresp (GoE.failure_ne _)
        · simp only [hi, if_false] at hresp
          cases hg : p.aResponses.get i with
          | none => rw [hg] at hresp; exact absurd hresp (GoE.failure_ne _)
          | some r =>
            rw [hg] at hresp
            simp only [GoE.run_pure, Except.ok.injEq, Option.some.injEq] at hresp
            exact ⟨by omega, by rw [hresp]⟩
      cases hse : nr.setExpected o kid pk c resp with
      | none =>
        rw [hse] at h
        simp only [] at h
        rw [GoE.run_bind_ok_some_iff] at h
        obtain ⟨_, hf, _⟩ := h
        exact absurd hf (GoE.failure_ne _)
      | some nr' =>
        rw [hse] at h
        simp only [] at h
        rw [GoE.run_bind_ok_some_iff] at h
        obtain ⟨l1, hl1, h⟩ := h
        rw [GoE.run_liftM_ok_some_iff] at hl1
        rw [GoE.run_bind_ok_some_iff] at h
        obtain ⟨⟨rc, rps⟩, hr, h⟩ := h
        simp only [GoE.run_pure, Except.ok.injEq, Option.some.injEq, Prod.mk.injEq] at h
        refine ⟨l1, { p with nonrev := some nr' },
          Or.inr ⟨nr, resp, nr', hnr, hresp'.1, hresp'.2, hse, hl1, rfl⟩, rc, rps, hr, ?_, ?_⟩
        · simp [← h.1]
        · rw [← h.2]
  · simp only [hw, Bool.not_false, if_true] at h
    rw [GoE.run_bind_ok_some_iff] at h
    obtain ⟨_, hf, _⟩ := h
    exact absurd hf (GoE.failure_ne _)


/-! ## 3. response sizes -/

theorem foldlM_and_deref_ok {g : Int → Bool} (l : IntMap) (b b' : Bool)
    (h : l.foldlM (fun ok kv => do
              let r ← deref "AResponse" kv.2
              pure (ok && g r)) b = (.ok b' : GoM Bool)) :
    (∀ kv ∈ l, ∃ r, kv.2 = some r) ∧ (b' = true → b = true ∧ ∀ kv ∈ l, ∃ r, kv.2 = some r ∧ g r = true) := by
  induction l generalizing b with
  | nil =>
    simp only [List.foldlM_nil, GoM.pure_eq_ok, Except.ok.injEq] at h
    subst h; simp
  | cons kv rest ih =>
    rw [List.foldlM_cons, GoM.bind_ok_iff] at h
    obtain ⟨b1, h1, h2⟩ := h
    rw [GoM.bind_ok_iff] at h1
    obtain ⟨r, hr, h1⟩ := h1
    rw [deref_ok_iff] at hr
    simp only [GoM.pure_eq_ok, Except.ok.injEq] at h1
    obtain ⟨ih1, ih2⟩ := ih b1 h2
    refine ⟨?_, ?_⟩
    · intro kv' hkv'
      rcases List.mem_cons.mp hkv' with rfl | hm
      · exact ⟨r, hr⟩
      · exact ih1 kv' hm
    · intro hb'
      obtain ⟨hb1, hall⟩ := ih2 hb'
      rw [← h1, Bool.and_eq_true] at hb1
      refine ⟨hb1.1, ?_⟩
      intro kv' hkv'
      rcases List.mem_cons.mp hkv' with rfl | hm
      · exact ⟨r, hr, hb1.2⟩
      · exact hall kv' hm

theorem foldlM_and_deref_isOk {g : Int → Bool} (l : IntMap) (b : Bool)
    (h : ∀ kv ∈ l, kv.2.isSome) :
    GoM.IsOk (l.foldlM (fun ok kv => do
              let r ← deref "AResponse" kv.2
              pure (ok && g r)) b : GoM Bool) := by
  induction l generalizing b with
  | nil => exact ⟨b, rfl⟩
  | cons kv rest ih =>
    rw [List.foldlM_cons]
    apply GoM.isOk_bind
    · apply GoM.isOk_bind (deref_isOk _ (h kv (List.mem_cons_self ..)))
      intro a _; exact GoM.isOk_pure _
    · intro b1 _
      exact ih b1 (fun kv' hkv' => h kv' (List.mem_cons_of_mem _ hkv'))

theorem ProofD.correctResponseSizes_isOk (pk : PublicKey) (p : ProofD)
    (h1 : ∀ kv ∈ p.aResponses, kv.2.isSome) (h2 : p.eResponse.isSome) :
    GoM.IsOk (p.correctResponseSizes pk) := by
  unfold ProofD.correctResponseSizes
  simp only []
  apply GoM.isOk_bind (foldlM_and_deref_isOk _ _ h1)
  intro okA _
  split
  · exact GoM.isOk_pure _
  · apply GoM.isOk_bind (deref_isOk _ h2)
    intro e _; exact GoM.isOk_pure _

theorem ProofD.correctResponseSizes_ok_true {pk : PublicKey} {p : ProofD}
    (h : p.correctResponseSizes pk = .ok true) :
    (∀ kv ∈ p.aResponses, ∃ r, kv.2 = some r ∧ 0 ≤ r ∧ r ≤ 2 ^ (pk.params.LmCommit + 1) - 1) ∧
    ∃ e, p.eResponse = some e ∧ 0 ≤ e ∧ e ≤ 2 ^ (pk.params.LeCommit + 1) - 1 := by
  unfold ProofD.correctResponseSizes at h
  simp only [] at h
  rw [GoM.bind_ok_iff] at h
  obtain ⟨okA, hA, h⟩ := h
  cases okA with
  | false => simp [GoM.pure_eq_ok] at h
  | true =>
    simp only [Bool.not_true, Bool.false_eq_true, if_false] at h
    rw [GoM.bind_ok_iff] at h
    obtain ⟨e, he, h⟩ := h
    rw [deref_ok_iff] at he
    simp only [GoM.pure_eq_ok, Except.ok.injEq, Bool.and_eq_true, decide_eq_true_eq] at h
    refine ⟨?_, e, he, h.1, h.2⟩
    obtain ⟨_, hall⟩ := (foldlM_and_deref_ok _ _ _ hA).2 rfl
    intro kv hkv
    obtain ⟨r, hr, hg⟩ := hall kv hkv
    simp only [Bool.not_eq_true', Bool.or_eq_false_iff, decide_eq_false_iff_not] at hg
    exact ⟨r, hr, by omega, by omega⟩



/-! ## 4. `verifyWithChallenge` -/

theorem NonRevProof.structureOk_iff (p : NonRevProof) : p.structureOk = true ↔
    ((p.response "alpha").isSome ∧ (p.response "beta").isSome ∧ (p.response "delta").isSome ∧
      (p.response "epsilon").isSome ∧ (p.response "zeta").isSome) ∧
    p.cr.isSome ∧ p.cu.isSome ∧ p.nu.isSome ∧ p.challenge.isSome := by
  simp [NonRevProof.structureOk, Gen.revSecretNames, and_assoc]

theorem NonRevProof.verifyWithChallenge_true {o : SigOracle} {kid : String} {pk : PublicKey}
    {p : NonRevProof} {c' : Int} (h : (p.verifyWithChallenge o kid pk c').1 = true) :
    p.structureOk = true := by
  unfold NonRevProof.verifyWithChallenge at h
  split at h
  · simp at h
  · split at h
    · simp at h
    · simp_all

theorem ProofD.verifyWithChallenge_ok_true {o : SigOracle} {kid : String} {pk : PublicKey} {p : ProofD}
    {i c' : Int} {acc : Option Accumulator}
    (h : p.verifyWithChallenge o kid pk i c' = .ok (true, acc)) :
    p.wellFormed pk = true ∧ p.correctResponseSizes pk = .ok true ∧ p.c = some c' ∧
    (p.nonrev = none ∨ ∃ nr resp, p.nonrev = some nr ∧ 0 ≤ i ∧ p.aResponses.get i = some resp ∧
       (nr.verifyWithChallenge o kid pk c').1 = true ∧ nr.response "alpha" = some resp) := by
  unfold ProofD.verifyWithChallenge at h
  simp only [] at h
  by_cases hw : p.wellFormed pk = true
  · simp only [hw, Bool.not_true, Bool.false_eq_true, if_false] at h
    rw [GoM.bind_ok_iff] at h
    obtain ⟨⟨nrev, acc'⟩, hn, h⟩ := h
    cases nrev with
    | false => simp [GoM.pure_eq_ok] at h
    | true =>
      simp only [Bool.not_true, Bool.false_eq_true, if_false] at h
      rw [GoM.bind_ok_iff] at h
      obtain ⟨sz, hsz, h⟩ := h
      cases sz with
      | false => simp [GoM.pure_eq_ok] at h
      | true =>
        simp only [Bool.not_true, Bool.false_eq_true, if_false] at h
        rw [GoM.bind_ok_iff] at h
        obtain ⟨c, hc, h⟩ := h
        rw [deref_ok_iff] at hc
        simp only [GoM.pure_eq_ok, Except.ok.injEq, Prod.mk.injEq, decide_eq_true_eq] at h
        refine ⟨hw, hsz, by rw [hc, h.1], ?_⟩
        cases hnr : p.nonrev with
        | none => exact Or.inl rfl
        | some nr =>
          right
          rw [hnr] at hn
          simp only [] at hn
          by_cases hi : i < 0
          · simp [hi, GoM.pure_eq_ok] at hn
          · simp only [hi, if_false] at hn
            cases hg : p.aResponses.get i with
            | none => rw [hg] at hn; simp [GoM.pure_eq_ok] at hn
            | some resp =>
              rw [hg] at hn
              simp only [] at hn
              cases hv : (nr.verifyWithChallenge o kid pk c').1 with
              | false => rw [hv] at hn; simp [GoM.pure_eq_ok] at hn
              | true =>
                rw [hv] at hn
                simp only [Bool.not_true, Bool.false_eq_true, if_false] at hn
                rw [GoM.bind_ok_iff] at hn
                obtain ⟨alpha, ha, hn⟩ := hn
                rw [deref_ok_iff] at ha
                simp only [GoM.pure_eq_ok, Except.ok.injEq, Prod.mk.injEq, decide_eq_true_eq] at hn
                exact ⟨nr, resp, rfl, by omega, rfl, hv, by rw [ha, hn.1]⟩
  · simp [hw, GoM.pure_eq_ok] at h

theorem ProofD.wellFormed_iff (pk : PublicKey) (p : ProofD) : p.wellFormed pk = true ↔
    (p.c.isSome ∧ p.a.isSome ∧ p.eResponse.isSome ∧ p.vResponse.isSome) ∧
    (p.aResponses.get 0).isSome ∧
    (∀ kv ∈ p.aResponses, kv.2.isSome ∧ 0 ≤ kv.1 ∧ kv.1 < pk.r.length) ∧
    (∀ kv ∈ p.aDisclosed, kv.2.isSome ∧ 0 ≤ kv.1 ∧ kv.1 < pk.r.length ∧ p.aResponses.has kv.1 = false) ∧
    (∀ kv ∈ p.rangeProofs.getD [], p.aResponses.has kv.1 = true ∧ ∀ rp ∈ kv.2, rp.isSome) ∧
    (∀ kv ∈ p.aDisclosed, ∀ a, kv.2 = some a → ¬ (a < 0 ∧ bitLen a > pk.params.Lm)) := by
  simp [ProofD.wellFormed, and_assoc]
  intro _ _ _ _ _ _
  constructor
  · rintro ⟨hD, hR⟩
    refine ⟨fun a b hab => ?_, hR, fun a b hab x hx hneg => ?_⟩
    · obtain ⟨h1, h2, h3, _, h5⟩ := hD a b hab
      exact ⟨h1, h2, h3, h5⟩
    · have h4 := (hD a b hab).2.2.2.1
      subst hx
      simpa [hneg] using h4
  · rintro ⟨hD, hR, hN⟩
    refine ⟨fun a b hab => ?_, hR⟩
    obtain ⟨h1, h2, h3, h5⟩ := hD a b hab
    refine ⟨h1, h2, h3, ?_, h5⟩
    cases b with
    | none => rfl
    | some x =>
      by_cases hx : x < 0
      · simpa [hx] using hN a _ hab x rfl hx
      · simp [hx]

theorem ProofD.verifyWithChallenge_isOk (o : SigOracle) (kid : String) (pk : PublicKey) (p : ProofD)
    (i c' : Int) : GoM.IsOk (p.verifyWithChallenge o kid pk i c') := by
  unfold ProofD.verifyWithChallenge
  simp only []
  by_cases hw : p.wellFormed pk = true
  · simp only [hw, Bool.not_true, Bool.false_eq_true, if_false]
    have hw' := (ProofD.wellFormed_iff pk p).mp hw
    apply GoM.isOk_bind
    · split
      · exact GoM.isOk_pure _
      · split
        · exact GoM.isOk_pure _
        · split
          · exact GoM.isOk_pure _
          · next nr _ _ _ hv =>
            have hs := NonRevProof.verifyWithChallenge_true (by simpa using hv)
            rw [NonRevProof.structureOk_iff] at hs
            apply GoM.isOk_bind (deref_isOk _ hs.1.1)
            intro _ _; exact GoM.isOk_pure _
    · intro x _
      split
      · exact GoM.isOk_pure _
      · apply GoM.isOk_bind (ProofD.correctResponseSizes_isOk pk p (fun kv hkv => (hw'.2.2.1 kv hkv).1) hw'.1.2.2.1)
        intro sz _
        split
        · exact GoM.isOk_pure _
        · apply GoM.isOk_bind (deref_isOk _ hw'.1.1)
          intro _ _; exact GoM.isOk_pure _
  · simp only [hw, Bool.not_false, if_true]
    exact GoM.isOk_pure _


/-! ## 5. acceptance of `verifyWith` -/

theorem ProofD.verifyWith_ok_true {o : SigOracle} {kid : String} {pk : PublicKey} {p : ProofD} {ctx nonce : Int}
    {issig : Bool} {i1 i2 : Int}
    (h : p.verifyWith o kid pk ctx nonce issig i1 i2 = .ok true) :
    ∃ contrib p', (p.challengeContribution o kid pk i1).run = .ok (some (contrib, p')) ∧
      ∃ acc, p'.verifyWithChallenge o kid pk i2 (createChallenge ctx nonce contrib issig) = .ok (true, acc) := by
  unfold ProofD.verifyWith at h
  rw [GoM.bind_ok_iff] at h
  obtain ⟨r, hc, h⟩ := h
  cases r with
  | none => simp [GoM.pure_eq_ok] at h
  | some cp =>
    obtain ⟨contrib, p'⟩ := cp
    refine ⟨contrib, p', hc, ?_⟩
    simp only [] at h
    rw [GoM.bind_ok_iff] at h
    obtain ⟨⟨b, acc⟩, hv, h⟩ := h
    simp only [GoM.pure_eq_ok, Except.ok.injEq] at h
    subst h
    exact ⟨acc, hv⟩

/-- `challengeContribution` only rewrites `nonrev` and `rangeProofs`. -/
theorem ProofD.challengeContribution_fields {o : SigOracle} {kid : String} {pk : PublicKey} {p : ProofD}
    {i : Int} {contrib : List Int} {p' : ProofD}
    (h : (p.challengeContribution o kid pk i).run = .ok (some (contrib, p'))) :
    p'.c = p.c ∧ p'.a = p.a ∧ p'.eResponse = p.eResponse ∧ p'.vResponse = p.vResponse ∧
      p'.aResponses = p.aResponses ∧ p'.aDisclosed = p.aDisclosed := by
  obtain ⟨_, z, a, c, _, _, _, l1, p1, hs, rc, rps, _, _, rfl⟩ := ProofD.challengeContribution_ok_some h
  rcases hs with ⟨_, _, rfl⟩ | ⟨nr, resp, nr', _, _, _, _, _, rfl⟩ <;> simp

theorem ProofD.accept_facts {o : SigOracle} {kid : String} {pk : PublicKey} {p : ProofD} {ctx nonce : Int}
    {issig : Bool} {i1 i2 : Int}
    (h : p.verifyWith o kid pk ctx nonce issig i1 i2 = .ok true) :
    p.wellFormed pk = true ∧
    ((∀ kv ∈ p.aResponses, ∃ r, kv.2 = some r ∧ 0 ≤ r ∧ r ≤ 2 ^ (pk.params.LmCommit + 1) - 1) ∧
      ∃ e, p.eResponse = some e ∧ 0 ≤ e ∧ e ≤ 2 ^ (pk.params.LeCommit + 1) - 1) ∧
    ∃ contrib p', (p.challengeContribution o kid pk i1).run = .ok (some (contrib, p')) ∧
      p.c = some ((createChallenge ctx nonce contrib issig : Nat) : Int) := by
  obtain ⟨contrib, p', hc, acc, hv⟩ := ProofD.verifyWith_ok_true h
  obtain ⟨hw, -⟩ := ProofD.challengeContribution_ok_some hc
  obtain ⟨hC, _, hE, _, hA, _⟩ := ProofD.challengeContribution_fields hc
  obtain ⟨_, hsz, hcc, _⟩ := ProofD.verifyWithChallenge_ok_true hv
  have := ProofD.correctResponseSizes_ok_true hsz
  rw [hA, hE] at this
  exact ⟨hw, this, contrib, p', hc, by rw [← hC, hcc]⟩


/-! ## 6. ProofU -/

theorem ProofU.wellFormed_iff (pk : PublicKey) (p : ProofU) : p.wellFormed pk = true ↔
    pk.r ≠ [] ∧ p.u.isSome ∧ p.c.isSome ∧ p.vPrimeResponse.isSome ∧ p.sResponse.isSome ∧
    (∀ kv ∈ p.mUserResponses, kv.2.isSome ∧ 1 ≤ kv.1 ∧ kv.1 < pk.r.length) := by
  simp [ProofU.wellFormed, and_assoc]

theorem ProofU.reconstructUcommit_go_isOk (pk : PublicKey) (l : IntMap) (acc : Int)
    (h : ∀ kv ∈ l, kv.2.isSome ∧ 1 ≤ kv.1 ∧ kv.1 < pk.r.length) :
    GoM.IsOk (ProofU.reconstructUcommit.go pk l acc) := by
  induction l generalizing acc with
  | nil => exact ⟨_, rfl⟩
  | cons kv rest ih =>
    obtain ⟨i, r⟩ := kv
    unfold ProofU.reconstructUcommit.go
    have hkv := h (i, r) (List.mem_cons_self ..)
    apply GoM.isOk_bind (idx_isOk _ _ _ (by have := hkv.2.1; simp at this; omega) hkv.2.2)
    intro b _
    apply GoM.isOk_bind (deref_isOk _ hkv.1)
    intro r' _
    split
    · exact ih _ (fun kv' hkv' => h kv' (List.mem_cons_of_mem _ hkv'))
    · exact GoM.isOk_pure _

theorem ProofU.reconstructUcommit_isOk (pk : PublicKey) (p : ProofU) (hw : p.wellFormed pk = true) :
    GoM.IsOk (p.reconstructUcommit pk) := by
  rw [ProofU.wellFormed_iff] at hw
  obtain ⟨hr, hu, hc, hv, hs, hm⟩ := hw
  unfold ProofU.reconstructUcommit
  apply GoM.isOk_bind (deref_isOk _ hu); intro u _
  apply GoM.isOk_bind (deref_isOk _ hc); intro c _
  apply GoM.isOk_bind (deref_isOk _ hv); intro vp _
  apply GoM.isOk_bind (deref_isOk _ hs); intro sr _
  apply GoM.isOk_bind (idx_isOk _ _ _ (le_refl _) (by
    have : 0 < pk.r.length := List.length_pos_iff.mpr hr
    omega)); intro r0 _
  split
  · exact ProofU.reconstructUcommit_go_isOk pk _ _ hm
  · exact GoM.isOk_pure _

theorem ProofU.verifyWithChallenge_isOk (pk : PublicKey) (p : ProofU) (c' : Int) :
    GoM.IsOk (p.verifyWithChallenge pk c') := by
  unfold ProofU.verifyWithChallenge
  by_cases hw : p.wellFormed pk = true
  · simp only [hw, Bool.not_true, Bool.false_eq_true, if_false]
    rw [ProofU.wellFormed_iff] at hw
    obtain ⟨hr, hu, hc, hv, hs, hm⟩ := hw
    apply GoM.isOk_bind
    · unfold ProofU.correctResponseSizes
      apply GoM.isOk_bind (deref_isOk _ hv); intro _ _; exact GoM.isOk_pure _
    · intro _ _
      apply GoM.isOk_bind (deref_isOk _ hc); intro _ _; exact GoM.isOk_pure _
  · simp only [hw, Bool.not_false, if_true]; exact GoM.isOk_pure _

theorem ProofU.challengeContribution_isOk (pk : PublicKey) (p : ProofU) :
    GoM.IsOk (p.challengeContribution pk) := by
  unfold ProofU.challengeContribution
  by_cases hw : p.wellFormed pk = true
  · simp only [hw, Bool.not_true, Bool.false_eq_true, if_false]
    apply GoM.isOk_bind (ProofU.reconstructUcommit_isOk pk p hw)
    intro r _
    split
    · exact GoM.isOk_pure _
    · rw [ProofU.wellFormed_iff] at hw
      apply GoM.isOk_bind (deref_isOk _ hw.2.1); intro _ _; exact GoM.isOk_pure _
  · simp only [hw, Bool.not_false, if_true]; exact GoM.isOk_pure _

theorem ProofU.verify_isOk (pk : PublicKey) (p : ProofU) (ctx nonce : Int) :
    GoM.IsOk (p.verify pk ctx nonce) := by
  unfold ProofU.verify
  apply GoM.isOk_bind (ProofU.challengeContribution_isOk pk p)
  intro r _
  split
  · exact GoM.isOk_pure _
  · exact ProofU.verifyWithChallenge_isOk pk p _


/-! ## 7. `ProofD.reconstructZ` -/

theorem goExp_isSome_of_nonneg (x y m : Int) (hy : 0 ≤ y) : (goExp x y m).isSome := by
  unfold goExp
  simp only []
  split
  · split <;> rfl
  · rw [if_neg (by omega)]; rfl

theorem goExp_isSome_of_coprime (x y m : Int) (h : Int.gcd x m = 1) : (goExp x y m).isSome := by
  by_cases hy : 0 ≤ y
  · exact goExp_isSome_of_nonneg x y m hy
  · unfold goExp
    simp only []
    split
    · split <;> rfl
    · next hm =>
      rw [if_pos (by omega)]
      have hm' : m ≠ 0 := by intro h0; apply hm; simp [h0]
      cases hinv : goModInverse x m with
      | none => exact absurd h ((goModInverse_none_iff x m hm').mp hinv)
      | some inv => rfl

theorem attrExp_nonneg (lm : Nat) (a : Int) (h : 0 ≤ a) : 0 ≤ attrExp lm a := by
  unfold attrExp
  split
  · exact Int.natCast_nonneg _
  · exact h

/-- every exponentiation `R_i ^ attr` of `reconstructZ` has a result (no nil from `Exp`). -/
def ProofD.ExpSafe (pk : PublicKey) (p : ProofD) : Prop :=
  ∀ kv ∈ p.aDisclosed, ∀ a b, kv.2 = some a → pk.r[kv.1.toNat]? = some b →
    (goExp b (attrExp pk.params.Lm a) pk.n).isSome

theorem ProofD.expSafe_of_coprime (pk : PublicKey) (p : ProofD)
    (h : ∀ b ∈ pk.r, Int.gcd b pk.n = 1) : p.ExpSafe pk := by
  intro kv _ a b _ hb
  exact goExp_isSome_of_coprime _ _ _ (h b (List.mem_of_getElem? hb))

theorem ProofD.expSafe_of_nonneg (pk : PublicKey) (p : ProofD)
    (h : ∀ kv ∈ p.aDisclosed, ∀ a, kv.2 = some a → 0 ≤ a) : p.ExpSafe pk := by
  intro kv hkv a b ha _
  exact goExp_isSome_of_nonneg _ _ _ (attrExp_nonneg _ _ (h kv hkv a ha))

theorem ProofD.reconstructZ_go_isOk (pk : PublicKey) (l : IntMap) (acc : Int)
    (h : ∀ kv ∈ l, kv.2.isSome ∧ 0 ≤ kv.1 ∧ kv.1 < pk.r.length) :
    GoM.IsOk (ProofD.reconstructZ.go pk l acc) := by
  induction l generalizing acc with
  | nil => exact ⟨_, rfl⟩
  | cons kv rest ih =>
    obtain ⟨i, r⟩ := kv
    unfold ProofD.reconstructZ.go
    have hkv := h (i, r) (List.mem_cons_self ..)
    apply GoM.isOk_bind (idx_isOk _ _ _ hkv.2.1 hkv.2.2)
    intro b _
    apply GoM.isOk_bind (deref_isOk _ hkv.1)
    intro r' _
    split
    · exact ih _ (fun kv' hkv' => h kv' (List.mem_cons_of_mem _ hkv'))
    · exact GoM.isOk_pure _

theorem ProofD.reconstructZ_fold_isOk (pk : PublicKey) (l : IntMap) (num0 : Int)
    (h : ∀ kv ∈ l, kv.2.isSome ∧ 0 ≤ kv.1 ∧ kv.1 < pk.r.length)
    (hs : ∀ kv ∈ l, ∀ a b, kv.2 = some a → pk.r[kv.1.toNat]? = some b →
      (goExp b (attrExp pk.params.Lm a) pk.n).isSome) :
    GoM.IsOk (l.foldlM (fun (num : Int) kv => do
      let attr ← deref "ADisclosed" kv.2
      let b ← idx "R[i]" pk.r kv.1
      let t ← deref "Exp" (goExp b (attrExp pk.params.Lm attr) pk.n)
      pure (num * t)) num0 : GoM Int) := by
  induction l generalizing num0 with
  | nil => exact ⟨_, rfl⟩
  | cons kv rest ih =>
    rw [List.foldlM_cons]
    have hkv := h kv (List.mem_cons_self ..)
    apply GoM.isOk_bind
    · apply GoM.isOk_bind (deref_isOk _ hkv.1); intro attr hattr
      apply GoM.isOk_bind (idx_isOk _ _ _ hkv.2.1 hkv.2.2); intro b hb
      rw [deref_ok_iff] at hattr
      rw [idx_ok_iff] at hb
      apply GoM.isOk_bind (deref_isOk _ (hs kv (List.mem_cons_self ..) attr b hattr hb.2))
      intro _ _; exact GoM.isOk_pure _
    · intro n1 _
      exact ih n1 (fun kv' hkv' => h kv' (List.mem_cons_of_mem _ hkv'))
        (fun kv' hkv' => hs kv' (List.mem_cons_of_mem _ hkv'))

theorem ProofD.reconstructZ_isOk (pk : PublicKey) (p : ProofD) (hw : p.wellFormed pk = true)
    (hs : p.ExpSafe pk) : GoM.IsOk (p.reconstructZ pk) := by
  rw [ProofD.wellFormed_iff] at hw
  obtain ⟨⟨hc, ha, he, hv⟩, _, hA, hD, _⟩ := hw
  unfold ProofD.reconstructZ
  apply GoM.isOk_bind (deref_isOk _ ha); intro a _
  apply GoM.isOk_bind (deref_isOk _ hc); intro c _
  apply GoM.isOk_bind (deref_isOk _ he); intro er _
  apply GoM.isOk_bind (deref_isOk _ hv); intro vr _
  apply GoM.isOk_bind (deref_isOk _ (goExp_isSome_of_nonneg _ _ _ (by positivity))); intro num0 _
  apply GoM.isOk_bind (ProofD.reconstructZ_fold_isOk pk _ _
    (fun kv hkv => ⟨(hD kv hkv).1, (hD kv hkv).2.1, (hD kv hkv).2.2.1⟩) hs)
  intro num _
  split
  · exact GoM.isOk_pure _
  · simp only []
    split
    · apply GoM.isOk_bind (ProofD.reconstructZ_go_isOk pk _ _ hA)
      intro r _
      split <;> exact GoM.isOk_pure _
    · exact GoM.isOk_pure _


/-! ## 8. a panic of `reconstructZ`: negative disclosed attribute on a non-invertible base -/

def cexPk : PublicKey :=
  { n := 15, z := 4, s := 4, g := none, h := none, r := [4, 3], counter := 0,
    params := SysParams.ofBase toyBase, hasEcdsa := false, issuer := "" }
def cexD : ProofD :=
  { c := some 1, a := some 2, eResponse := some 1, vResponse := some 1,
    aResponses := [(0, some 1)], aDisclosed := [(1, some (-1))], nonrev := none, rangeProofs := none }

theorem cexD_wellFormed : cexD.wellFormed cexPk = true := by
  simp [ProofD.wellFormed, cexD, cexPk, IntMap.get, IntMap.has, List.lookup]
  decide

theorem cexPk_wellFormed : cexPk.WellFormed := by
  refine ⟨by decide, by decide, by decide, ?_⟩
  intro b hb
  simp [cexPk] at hb
  rcases hb with rfl | rfl <;> decide

theorem cex_goExp : goExp 3 (-1) 15 = none := by
  have : goModInverse 3 15 = none := (goModInverse_none_iff 3 15 (by decide)).mpr (by decide)
  simp [goExp, this]

theorem cex_attrExp : attrExp 256 (-1) = -1 := by
  have : Nat.log2 1 = 0 := by decide
  simp [attrExp, bitLen, this]

theorem cexD_reconstructZ_panics : cexD.reconstructZ cexPk = .error (.nilDeref "Exp") := by
  obtain ⟨v, hv⟩ := Option.isSome_iff_exists.mp
    (goExp_isSome_of_nonneg 2 (2 ^ (cexPk.params.Le - 1)) 15 (by positivity))
  have hlm : cexPk.params.Lm = 256 := rfl
  unfold ProofD.reconstructZ
  simp only [cexD, deref_some, GoM.ok_bind]
  show (deref "Exp" (goExp 2 (2 ^ (cexPk.params.Le - 1)) 15) >>= _) = _
  rw [hv, deref_some, GoM.ok_bind]
  simp only [List.foldlM_cons, deref_some, GoM.ok_bind, hlm, cex_attrExp]
  have hidx : idx "R[i]" cexPk.r 1 = .ok 3 := by rw [idx_ok_iff]; exact ⟨by decide, rfl⟩
  rw [hidx, GoM.ok_bind]
  show (deref "Exp" (goExp 3 (-1) 15) >>= _ >>= _ >>= _) = _
  rw [cex_goExp]
  rfl

theorem cexD_verify_panics (o : SigOracle) (kid : String) (ctx nonce : Int) (issig : Bool) (i1 i2 : Int) :
    cexD.verifyWith o kid cexPk ctx nonce issig i1 i2 = .error (.nilDeref "Exp") := by
  unfold ProofD.verifyWith ProofD.challengeContribution
  simp only [cexD_wellFormed, Bool.not_true, Bool.false_eq_true, if_false, OptionT.run_bind]
  simp only [GoE.ofGoMOption, OptionT.run_mk, cexD_reconstructZ_panics]
  rfl


/-! ## 9. representation-proof commitments and the non-revocation part -/

theorem List.mapM_isOk {α β} (f : α → GoM β) (l : List α) (h : ∀ a ∈ l, GoM.IsOk (f a)) :
    GoM.IsOk (l.mapM f) := by
  induction l with
  | nil => exact ⟨[], by simp [GoM.pure_eq_ok]⟩
  | cons a rest ih =>
    rw [List.mapM_cons]
    apply GoM.isOk_bind (h a (List.mem_cons_self ..)); intro b _
    apply GoM.isOk_bind (ih (fun a' ha' => h a' (List.mem_cons_of_mem _ ha'))); intro bs _
    exact GoM.isOk_pure _

theorem QrStructure.commitmentFromProof_go_isOk (n : Int) (bases results : String → Option Int)
    (rs : List RhsContribution) (c0 c1 : Int) (h : ∀ r ∈ rs, (results r.secret).isSome) :
    GoM.IsOk (QrStructure.commitmentFromProof.go n bases results rs c0 c1) := by
  induction rs generalizing c0 c1 with
  | nil => exact ⟨_, rfl⟩
  | cons r rest ih =>
    unfold QrStructure.commitmentFromProof.go
    apply GoM.isOk_bind (deref_isOk _ (h r (List.mem_cons_self ..))); intro res _
    exact ih _ _ (fun r' hr' => h r' (List.mem_cons_of_mem _ hr'))

theorem QrStructure.commitmentFromProof_isOk (s : QrStructure) (n c : Int)
    (bases results : String → Option Int) (h : ∀ r ∈ s.rhs, (results r.secret).isSome) :
    GoM.IsOk (s.commitmentFromProof n c bases results) := by
  unfold QrStructure.commitmentFromProof
  exact QrStructure.commitmentFromProof_go_isOk n bases results _ _ _ h

theorem revStructures_secrets (s : QrStructure) (hs : s ∈ revStructures) (r : RhsContribution)
    (hr : r ∈ s.rhs) : r.secret ∈ Gen.revSecretNames := by
  simp only [revStructures, Gen.revProofStructure, qrOfGen, List.map_cons, List.map_nil,
    List.mem_cons, List.not_mem_nil, or_false] at hs
  rcases hs with rfl | rfl | rfl <;>
    · simp only [List.mem_cons, List.not_mem_nil, or_false] at hr
      rcases hr with rfl | rfl | rfl <;> simp [Gen.revSecretNames]

theorem NonRevProof.challengeContributions_isOk (pk : PublicKey) (p : NonRevProof)
    (h : p.structureOk = true) : GoM.IsOk (p.challengeContributions pk) := by
  have h' := h
  rw [NonRevProof.structureOk_iff] at h'
  obtain ⟨_, hcr, hcu, hnu, hch⟩ := h'
  unfold NonRevProof.challengeContributions
  apply GoM.isOk_bind (deref_isOk _ hcr); intro cr _
  apply GoM.isOk_bind (deref_isOk _ hcu); intro cu _
  apply GoM.isOk_bind (deref_isOk _ hnu); intro nu _
  apply GoM.isOk_bind (deref_isOk _ hch); intro c _
  apply GoM.isOk_bind
  · apply List.mapM_isOk
    intro s hs
    apply QrStructure.commitmentFromProof_isOk
    intro r hr
    have hm := revStructures_secrets s hs r hr
    simp only [NonRevProof.structureOk, Bool.and_eq_true, List.all_eq_true] at h
    exact h.1.1.1.1 _ hm
  · intro _ _; exact GoM.isOk_pure _

theorem NonRevProof.setExpected_ok {o : SigOracle} {kid : String} {pk : PublicKey}
    {p p' : NonRevProof} {c r : Int} (h : p.setExpected o kid pk c r = some p') :
    p'.structureOk = true ∧ p'.basesAreUnits pk = true ∧ p'.cr = p.cr ∧ p'.cu = p.cu := by
  unfold NonRevProof.setExpected at h
  simp only [Option.bind_eq_bind, Option.pure_def] at h
  split at h
  · simp at h
  · simp only [Option.bind_eq_some_iff] at h
    obtain ⟨sacc, _, h⟩ := h
    split at h
    · simp at h
    · simp only [Option.bind_eq_some_iff] at h
      obtain ⟨acc, _, nu, _, h⟩ := h
      split at h
      · simp at h
      · next hs =>
        simp only [Option.some.injEq] at h
        subst h
        simp only [Bool.or_eq_true, Bool.not_eq_true', not_or, Bool.not_eq_false] at hs
        exact ⟨hs.1, hs.2, rfl, rfl⟩

theorem NonRevProof.setExpected_structureOk {o : SigOracle} {kid : String} {pk : PublicKey}
    {p p' : NonRevProof} {c r : Int} (h : p.setExpected o kid pk c r = some p') :
    p'.structureOk = true := (NonRevProof.setExpected_ok h).1

theorem unitModN_iff (c n : Int) : unitModN c n = true ↔ 0 < c ∧ Int.gcd c n = 1 := by
  simp [unitModN]

theorem unitMod_iff (c n : Int) : unitMod c n = true ↔ 0 < c ∧ c < n ∧ Int.gcd c n = 1 := by
  simp [unitMod, and_assoc]

theorem NonRevProof.basesAreUnits_units {pk : PublicKey} {p : NonRevProof}
    (h : p.basesAreUnits pk = true) :
    ∃ cr cu, p.cr = some cr ∧ p.cu = some cu ∧
      (0 < cr ∧ Int.gcd cr pk.n = 1) ∧ (0 < cu ∧ Int.gcd cu pk.n = 1) := by
  unfold NonRevProof.basesAreUnits at h
  rw [Bool.and_eq_true] at h
  obtain ⟨h, _⟩ := h
  split at h
  · next cr cu hcr hcu =>
    rw [Bool.and_eq_true, unitModN_iff, unitModN_iff] at h
    exact ⟨cr, cu, hcr, hcu, h.1, h.2⟩
  · simp at h

/-! ## 10. names of range-proof secrets -/

theorem toString_nat_eq_repr (i : Nat) : toString i = Nat.repr i := rfl

theorem parseIdx_self (c : Char) (i : Nat) : parseIdx c (String.singleton c ++ toString i) = some i := by
  unfold parseIdx
  simp only [String.toList_append, String.toList_singleton, List.singleton_append, if_true,
    String.ofList_toList, toString_nat_eq_repr]
  exact Nat.toNat?_repr i

theorem parseIdx_other (c c' : Char) (h : c' ≠ c) (s : String) :
    parseIdx c (String.singleton c' ++ s) = none := by
  unfold parseIdx
  simp [String.toList_append, h]

theorem name_ne_of_head (c c' : Char) (h : c ≠ c') (s t : String) :
    String.singleton c ++ s ≠ String.singleton c' ++ t := by
  intro he
  have := congrArg String.toList he
  simp [String.toList_append] at this
  exact h this.1

theorem v_name_eq_v5 (i : Nat) : "v" ++ toString i = "v5" ↔ i = 5 := by
  constructor
  · intro h
    have h5 : "v5" = "v" ++ Nat.repr 5 := by decide
    rw [h5, toString_nat_eq_repr, String.append_right_inj] at h
    exact Nat.repr_inj.mp h
  · rintro rfl; decide

theorem rangeResults_m (p : RangeProof) : rangeResults p "m" = p.mResponse := by
  simp [rangeResults]
theorem rangeResults_v5 (p : RangeProof) : rangeResults p "v5" = p.v5 := by
  simp [rangeResults]
theorem rangeResults_d (p : RangeProof) (i : Nat) :
    rangeResults p ("d" ++ toString i) = (p.ds[i]?).join := by
  have h1 : "d" ++ toString i ≠ "m" := name_ne_of_head 'd' 'm' (by decide) _ ""
  have h2 : "d" ++ toString i ≠ "v5" := name_ne_of_head 'd' 'v' (by decide) _ "5"
  have h3 : parseIdx 'v' ("d" ++ toString i) = none := parseIdx_other 'v' 'd' (by decide) _
  have h4 : parseIdx 'd' ("d" ++ toString i) = some i := parseIdx_self 'd' i
  simp only [rangeResults, h1, h2, h3, h4, if_false]
theorem rangeResults_v (p : RangeProof) (i : Nat) (hi : i ≠ 5) :
    rangeResults p ("v" ++ toString i) = (p.vs[i]?).join := by
  have h1 : "v" ++ toString i ≠ "m" := name_ne_of_head 'v' 'm' (by decide) _ ""
  have h2 : "v" ++ toString i ≠ "v5" := fun h => hi ((v_name_eq_v5 i).mp h)
  have h4 : parseIdx 'v' ("v" ++ toString i) = some i := parseIdx_self 'v' i
  simp only [rangeResults, h1, h2, h4, if_false]


/-! ## 11. range-proof structures -/

/-- the secrets named by a range-proof structure with `n` split commitments. -/
def RangeStructure.SecretsOk (s : RangeStructure) (n : Nat) : Prop :=
  n ≤ 4 ∧ s.cRep.length = n ∧
  (∀ r ∈ s.mCorrect.rhs, r.secret = "v5" ∨ r.secret = "m" ∨ ∃ i, i < n ∧ r.secret = "d" ++ toString i) ∧
  (∀ q ∈ s.cRep, ∀ r ∈ q.rhs, ∃ i, i < n ∧ (r.secret = "d" ++ toString i ∨ r.secret = "v" ++ toString i))

theorem rangeNewWithParams_secretsOk {index sign : Int} {a : Nat} {k : Int} {n ld : Nat}
    {s : RangeStructure} (h : rangeNewWithParams index sign a k n ld = some s) :
    s.SecretsOk n := by
  unfold rangeNewWithParams at h
  split at h
  · simp at h
  · next hn =>
    split at h
    · simp at h
    · split at h
      · simp at h
      · simp only [Option.some.injEq] at h
        subst h
        refine ⟨by omega, by simp, ?_, ?_⟩
        · intro r hr
          simp only [List.cons_append, List.nil_append, List.mem_cons, List.mem_map, List.mem_range] at hr
          rcases hr with rfl | rfl | ⟨i, hi, rfl⟩
          · exact Or.inl rfl
          · exact Or.inr (Or.inl rfl)
          · exact Or.inr (Or.inr ⟨i, hi, rfl⟩)
        · intro q hq r hr
          simp only [List.mem_map, List.mem_range] at hq
          obtain ⟨i, hi, rfl⟩ := hq
          simp only [List.mem_cons, List.not_mem_nil, or_false] at hr
          rcases hr with rfl | rfl
          · exact ⟨i, hi, Or.inl rfl⟩
          · exact ⟨i, hi, Or.inr rfl⟩

theorem RangeProof.extractStructure_secretsOk {rp : RangeProof} {index : Int} {pk : PublicKey}
    {s : RangeStructure} (h : rp.extractStructure index pk = some s) : ∃ n, s.SecretsOk n := by
  unfold RangeProof.extractStructure at h
  simp only [Option.bind_eq_bind, Option.bind_eq_some_iff] at h
  obtain ⟨k, _, h⟩ := h
  split at h
  · simp at h
  · exact ⟨_, rangeNewWithParams_secretsOk h⟩

/-- everything `verifyProofStructure` establishes about presence, signs and units. -/
theorem RangeStructure.verifyProofStructure_facts {s : RangeStructure} {pk : PublicKey} {p : RangeProof}
    (h : s.verifyProofStructure pk p = true) :
    (p.cs.length = s.cRep.length ∧ p.ds.length = s.cRep.length ∧ p.vs.length = s.cRep.length) ∧
    (∃ v5 m, p.v5 = some v5 ∧ 0 ≤ v5 ∧ p.mResponse = some m ∧ 0 ≤ m) ∧
    ∀ i, i < s.cRep.length → ∃ c d v, p.cs[i]? = some (some c) ∧ p.ds[i]? = some (some d) ∧
      p.vs[i]? = some (some v) ∧ 0 ≤ d ∧ 0 ≤ v ∧ (0 < c ∧ c < pk.n ∧ Int.gcd c pk.n = 1) := by
  unfold RangeStructure.verifyProofStructure at h
  simp only [] at h
  split at h
  · simp at h
  · next hlen =>
    simp only [ne_eq, Bool.or_eq_true, decide_eq_true_eq, not_or, not_not] at hlen
    split at h
    · next v5 m hv5 hm =>
      split at h
      · simp at h
      · next hneg =>
        simp only [Bool.or_eq_true, decide_eq_true_eq, not_or, not_lt] at hneg
        split at h
        · simp at h
        · rw [List.all_eq_true] at h
          refine ⟨⟨hlen.1.1.symm, hlen.1.2.symm, hlen.2.symm⟩, ⟨v5, m, hv5, hneg.1, hm, hneg.2⟩, ?_⟩
          intro i hi
          have := h i (List.mem_range.mpr hi)
          split at this
          · next c d v hc hd hv =>
            simp only [Bool.and_eq_true, Bool.not_eq_true', Bool.or_eq_false_iff,
              decide_eq_false_iff_not, not_lt] at this
            exact ⟨c, d, v, hc, hd, hv, this.1.1.1, this.1.1.2, (unitMod_iff c pk.n).mp this.1.2⟩
          · simp at this
    · simp at h

theorem RangeStructure.verifyProofStructure_true {s : RangeStructure} {pk : PublicKey} {p : RangeProof}
    (h : s.verifyProofStructure pk p = true) :
    p.v5.isSome ∧ p.mResponse.isSome ∧
      ∀ i, i < s.cRep.length → (p.ds[i]?).join.isSome ∧ (p.vs[i]?).join.isSome := by
  obtain ⟨_, ⟨v5, m, hv5, _, hm, _⟩, hall⟩ := RangeStructure.verifyProofStructure_facts h
  refine ⟨by simp [hv5], by simp [hm], ?_⟩
  intro i hi
  obtain ⟨c, d, v, _, hd, hv, _⟩ := hall i hi
  simp [hd, hv]

theorem RangeStructure.commitmentsFromProof_isOk {s : RangeStructure} {n : Nat} (hs : s.SecretsOk n)
    {pk : PublicKey} {p : RangeProof} (hv : s.verifyProofStructure pk p = true) (c : Int) :
    GoM.IsOk (s.commitmentsFromProof pk p c) := by
  obtain ⟨hn, hlen, hm, hc⟩ := hs
  obtain ⟨hv5, hmr, hdv⟩ := RangeStructure.verifyProofStructure_true hv
  rw [hlen] at hdv
  unfold RangeStructure.commitmentsFromProof
  apply GoM.isOk_bind
  · apply QrStructure.commitmentFromProof_isOk
    intro r hr
    rcases hm r hr with h | h | ⟨i, hi, h⟩
    · rw [h, rangeResults_v5]; exact hv5
    · rw [h, rangeResults_m]; exact hmr
    · rw [h, rangeResults_d]; exact (hdv i hi).1
  · intro m _
    apply GoM.isOk_bind
    · apply List.mapM_isOk
      intro q hq
      apply QrStructure.commitmentFromProof_isOk
      intro r hr
      obtain ⟨i, hi, h | h⟩ := hc q hq r hr
      · rw [h, rangeResults_d]; exact (hdv i hi).1
      · rw [h, rangeResults_v _ _ (by omega)]; exact (hdv i hi).2
    · intro _ _
      apply GoM.isOk_bind
      · apply List.mapM_isOk
        intro x hx
        obtain ⟨i, hi, hxi⟩ := List.getElem_of_mem hx
        obtain ⟨hl, _, hall⟩ := RangeStructure.verifyProofStructure_facts hv
        obtain ⟨cv, _, _, hcv, _⟩ := hall i (by omega)
        rw [List.getElem?_eq_getElem hi, hxi] at hcv
        cases Option.some.inj hcv
        exact ⟨cv, rfl⟩
      · intro _ _; exact GoM.isOk_pure _


/-! ## 12. list traversals in `GoE` -/

instance : LawfulMonad GoE := inferInstanceAs (LawfulMonad (OptionT (Except GoPanic)))

theorem GoE.mapM_isOk {α β} (f : α → GoE β) (l : List α) (h : ∀ a ∈ l, GoE.IsOk (f a)) :
    GoE.IsOk (l.mapM f) := by
  induction l with
  | nil => rw [List.mapM_nil]; exact GoE.isOk_pure _
  | cons a rest ih =>
    rw [List.mapM_cons]
    apply GoE.isOk_bind (h a (List.mem_cons_self ..)); intro b _
    apply GoE.isOk_bind (ih (fun a' ha' => h a' (List.mem_cons_of_mem _ ha'))); intro bs _
    exact GoE.isOk_pure _

theorem GoE.mapM_ok_some {α β} (f : α → GoE β) (l : List α) (bs : List β)
    (h : (l.mapM f).run = .ok (some bs)) :
    List.Forall₂ (fun a b => (f a).run = .ok (some b)) l bs := by
  induction l generalizing bs with
  | nil =>
    rw [List.mapM_nil, GoE.run_pure] at h
    simp only [Except.ok.injEq, Option.some.injEq] at h
    subst h; exact List.Forall₂.nil
  | cons a rest ih =>
    rw [List.mapM_cons, GoE.run_bind_ok_some_iff] at h
    obtain ⟨b, hb, h⟩ := h
    rw [GoE.run_bind_ok_some_iff] at h
    obtain ⟨bs', hbs', h⟩ := h
    rw [GoE.run_pure] at h
    simp only [Except.ok.injEq, Option.some.injEq] at h
    subst h
    exact List.Forall₂.cons hb (ih bs' hbs')

theorem GoE.forIn_isOk {α σ} (l : List α) (init : σ) (f : α → σ → GoE (ForInStep σ))
    (h : ∀ a ∈ l, ∀ s, GoE.IsOk (f a s)) : GoE.IsOk (forIn l init f) := by
  induction l generalizing init with
  | nil => rw [List.forIn_nil]; exact GoE.isOk_pure _
  | cons a rest ih =>
    rw [List.forIn_cons]
    apply GoE.isOk_bind (h a (List.mem_cons_self ..) init)
    intro st _
    cases st with
    | done s => exact GoE.isOk_pure _
    | yield s => exact ih s (fun a' ha' => h a' (List.mem_cons_of_mem _ ha'))

/-- a successful loop whose body never breaks ran its body successfully on every element. -/
theorem GoE.forIn_ok_some {α σ} (l : List α) (init : σ) (f : α → σ → GoE (ForInStep σ)) (r : σ)
    (hy : ∀ a s t, (f a s).run = .ok (some t) → ∃ s', t = .yield s')
    (h : (forIn l init f).run = .ok (some r)) :
    ∀ a ∈ l, ∃ s s', (f a s).run = .ok (some (.yield s')) := by
  induction l generalizing init with
  | nil => intro a ha; simp at ha
  | cons a rest ih =>
    rw [List.forIn_cons, GoE.run_bind_ok_some_iff] at h
    obtain ⟨st, hst, h⟩ := h
    obtain ⟨s', rfl⟩ := hy a init st hst
    intro a' ha'
    rcases List.mem_cons.mp ha' with rfl | hm
    · exact ⟨init, s', hst⟩
    · exact ih s' h a' hm


/-! ## 13. `rangeContributions` -/

theorem lookup_mem {α β} [BEq α] [LawfulBEq α] {k : α} {v : β} {l : List (α × β)}
    (h : l.lookup k = some v) : (k, v) ∈ l := by
  induction l with
  | nil => simp at h
  | cons kv rest ih =>
    obtain ⟨k', v'⟩ := kv
    rw [List.lookup_cons] at h
    by_cases hk : k == k'
    · simp only [hk] at h
      have := eq_of_beq hk
      simp only [Option.some.injEq] at h
      subst this h
      exact List.mem_cons_self ..
    · simp only [hk] at h
      exact List.mem_cons_of_mem _ (ih h)

theorem IntMap.get_isSome {m : IntMap} {k : Int} (hk : m.has k = true)
    (hall : ∀ kv ∈ m, kv.2.isSome) : (m.get k).isSome := by
  unfold IntMap.has at hk
  unfold IntMap.get
  cases h : m.lookup k with
  | none => simp [h] at hk
  | some v => exact hall (k, v) (lookup_mem h)

/-- the per-proof step of `reconstructRangeProofStructures`. -/
def extractStep (pk : PublicKey) (index : Int) (rp : Option RangeProof) : GoE RangeStructure := do
  let rp ← (liftM (deref "range proof" rp) : GoE _)
  match rp.extractStructure index pk with
  | some s => pure s
  | none => failure

theorem extractStep_ok_some {pk : PublicKey} {index : Int} {rp : Option RangeProof} {s : RangeStructure}
    (h : (extractStep pk index rp).run = .ok (some s)) :
    ∃ rp', rp = some rp' ∧ rp'.extractStructure index pk = some s := by
  unfold extractStep at h
  rw [GoE.run_bind_ok_some_iff] at h
  obtain ⟨rp', hrp, h⟩ := h
  rw [GoE.run_liftM_ok_some_iff, deref_ok_iff] at hrp
  refine ⟨rp', hrp, ?_⟩
  split at h
  · next s' hs' =>
    rw [GoE.run_pure] at h
    simp only [Except.ok.injEq, Option.some.injEq] at h
    rw [hs', h]
  · exact absurd h (GoE.failure_ne _)

theorem extractStep_isOk (pk : PublicKey) (index : Int) {rp : Option RangeProof} (h : rp.isSome) :
    GoE.IsOk (extractStep pk index rp) := by
  unfold extractStep
  apply GoE.isOk_bind (GoE.isOk_liftM (deref_isOk _ h)); intro rp' _
  split
  · exact GoE.isOk_pure _
  · exact GoE.isOk_failure

/-- `reconstructRangeProofStructures`. -/
def extractAll (pk : PublicKey) (rps : List (Int × List (Option RangeProof))) :
    GoE (List (Int × List RangeStructure)) :=
  rps.mapM (fun kv => do
    let ss ← kv.2.mapM (extractStep pk kv.1)
    pure (kv.1, ss))

theorem extractAll_isOk (pk : PublicKey) (rps : List (Int × List (Option RangeProof)))
    (h : ∀ kv ∈ rps, ∀ rp ∈ kv.2, rp.isSome) : GoE.IsOk (extractAll pk rps) := by
  unfold extractAll
  apply GoE.mapM_isOk
  intro kv hkv
  apply GoE.isOk_bind
  · apply GoE.mapM_isOk
    intro rp hrp
    exact extractStep_isOk pk kv.1 (h kv hkv rp hrp)
  · intro _ _; exact GoE.isOk_pure _

/-- what a successful structure extraction returns: key-for-key, proof-for-proof. -/
theorem extractAll_ok_some {pk : PublicKey} {rps : List (Int × List (Option RangeProof))}
    {structs : List (Int × List RangeStructure)}
    (h : (extractAll pk rps).run = .ok (some structs)) :
    List.Forall₂ (fun kv st => st.1 = kv.1 ∧
      List.Forall₂ (fun rp s => ∃ rp', rp = some rp' ∧ rp'.extractStructure kv.1 pk = some s) kv.2 st.2)
      rps structs := by
  unfold extractAll at h
  have := GoE.mapM_ok_some _ _ _ h
  refine List.Forall₂.imp ?_ this
  intro kv st hst
  rw [GoE.run_bind_ok_some_iff] at hst
  obtain ⟨ss, hss, hst⟩ := hst
  rw [GoE.run_pure] at hst
  simp only [Except.ok.injEq, Option.some.injEq] at hst
  subst hst
  refine ⟨rfl, ?_⟩
  refine List.Forall₂.imp ?_ (GoE.mapM_ok_some _ _ _ hss)
  intro rp s hs
  exact extractStep_ok_some hs

theorem forall₂_lookup {α β γ} [BEq α] [LawfulBEq α] {R : α × β → α × γ → Prop}
    {l1 : List (α × β)} {l2 : List (α × γ)}
    (h : List.Forall₂ (fun a b => b.1 = a.1 ∧ R a b) l1 l2) (k : α) :
    (l1.lookup k = none ∧ l2.lookup k = none) ∨
    ∃ v1 v2, l1.lookup k = some v1 ∧ l2.lookup k = some v2 ∧ R (k, v1) (k, v2) := by
  induction h with
  | nil => left; simp
  | @cons a b l1 l2 hab _ ih =>
    obtain ⟨k1, v1⟩ := a
    obtain ⟨k2, v2⟩ := b
    obtain ⟨hk, hR⟩ := hab
    simp only at hk
    subst hk
    rw [List.lookup_cons, List.lookup_cons]
    by_cases hkk : k == k2
    · simp only [hkk]
      have := eq_of_beq hkk
      subst this
      exact Or.inr ⟨v1, v2, rfl, rfl, hR⟩
    · simp only [hkk]
      exact ih


abbrev RPMap := List (Int × List (Option RangeProof))

/-- body of the inner loop of `rangeContributions` (one range proof of one attribute). -/
def rangeInner (pk : PublicKey) (c mresp : Int) (x : RangeStructure × Option RangeProof)
    (st : List Int × List (Option RangeProof)) : GoE (ForInStep (List Int × List (Option RangeProof))) := do
  let rp ← (liftM (deref "range proof" x.2) : GoE _)
  let rp := { rp with mResponse := some mresp }
  if !x.1.verifyProofStructure pk rp then failure
  let cs ← (liftM (x.1.commitmentsFromProof pk rp c) : GoE _)
  pure (.yield (st.1 ++ cs, st.2 ++ [some rp]))

/-- body of the outer loop of `rangeContributions` (one attribute index). -/
def rangeOuter (pk : PublicKey) (p : ProofD) (c : Int) (structs : List (Int × List RangeStructure))
    (rps : RPMap) (index : Int) (st : List Int × RPMap) : GoE (ForInStep (List Int × RPMap)) :=
  match structs.lookup index, rps.lookup index with
  | some ss, some proofs => do
    let mresp ← (liftM (deref "AResponses[index]" (p.aResponses.get index)) : GoE _)
    let st1 ← forIn (ss.zip proofs) (st.1, []) (rangeInner pk c mresp)
    pure (.yield (st1.1, st.2.map (fun kv => if kv.1 = index then (kv.1, st1.2) else kv)))
  | _, _ => pure (.yield (st.1, st.2))

def ProofD.maxAttribute (p : ProofD) : Int := p.aResponses.foldl (fun m kv => if kv.1 > m then kv.1 else m) 0

def ProofD.rangeIndices (p : ProofD) : List Int :=
  (List.range (p.maxAttribute.toNat + 1)).map (fun (i : Nat) => (i : Int))

theorem ProofD.rangeContributions_eq (pk : PublicKey) (p : ProofD) (c : Int) :
    p.rangeContributions pk c =
      (match p.rangeProofs with
      | none => pure ([], none)
      | some rps => do
        let structs ← extractAll pk rps
        let st ← forIn p.rangeIndices ([], rps) (rangeOuter pk p c structs rps)
        pure (st.1, some st.2)) := by
  unfold ProofD.rangeContributions
  cases p.rangeProofs with
  | none => rfl
  | some rps => rfl


theorem rangeInner_isOk (pk : PublicKey) (c mresp : Int) (x : RangeStructure × Option RangeProof)
    (st : List Int × List (Option RangeProof)) (hx : x.2.isSome) {n : Nat} (hs : x.1.SecretsOk n) :
    GoE.IsOk (rangeInner pk c mresp x st) := by
  unfold rangeInner
  apply GoE.isOk_bind (GoE.isOk_liftM (deref_isOk _ hx)); intro rp _
  simp only []
  split
  · exact GoE.isOk_bind GoE.isOk_failure (fun a ha => absurd ha (GoE.failure_ne a))
  · next hv =>
    apply GoE.isOk_bind (GoE.isOk_liftM (RangeStructure.commitmentsFromProof_isOk hs (by simpa using hv) c))
    intro _ _
    exact GoE.isOk_pure _

theorem forall₂_mem_right {α β} {R : α → β → Prop} {l1 : List α} {l2 : List β}
    (h : List.Forall₂ R l1 l2) {b : β} (hb : b ∈ l2) : ∃ a, a ∈ l1 ∧ R a b := by
  induction h with
  | nil => simp at hb
  | @cons a b' l1 l2 hab _ ih =>
    rcases List.mem_cons.mp hb with rfl | hm
    · exact ⟨a, List.mem_cons_self .., hab⟩
    · obtain ⟨a', ha', hR⟩ := ih hm
      exact ⟨a', List.mem_cons_of_mem _ ha', hR⟩

theorem rangeOuter_isOk (pk : PublicKey) (p : ProofD) (c : Int)
    (structs : List (Int × List RangeStructure)) (rps : RPMap) (index : Int) (st : List Int × RPMap)
    (hstructs : (extractAll pk rps).run = .ok (some structs))
    (hR : ∀ kv ∈ rps, p.aResponses.has kv.1 = true ∧ ∀ rp ∈ kv.2, rp.isSome)
    (hA : ∀ kv ∈ p.aResponses, kv.2.isSome) :
    GoE.IsOk (rangeOuter pk p c structs rps index st) := by
  unfold rangeOuter
  split
  · next ss proofs hss hproofs =>
    have hmem := lookup_mem hproofs
    obtain ⟨hhas, hsome⟩ := hR _ hmem
    apply GoE.isOk_bind (GoE.isOk_liftM (deref_isOk _ (IntMap.get_isSome hhas hA))); intro mresp _
    apply GoE.isOk_bind
    · apply GoE.forIn_isOk
      intro x hx st'
      have hx2 : x.2 ∈ proofs := (List.of_mem_zip hx).2
      have hx1 : x.1 ∈ ss := (List.of_mem_zip hx).1
      -- the structure comes from `extractStructure`
      obtain ⟨kv, hkv, hk, hf⟩ := forall₂_mem_right (extractAll_ok_some hstructs) (lookup_mem hss)
      obtain ⟨rp, _, rp', _, hex⟩ := forall₂_mem_right hf hx1
      obtain ⟨n, hn⟩ := RangeProof.extractStructure_secretsOk hex
      exact rangeInner_isOk pk c mresp x st' (hsome _ hx2) hn
    · intro _ _; exact GoE.isOk_pure _
  · exact GoE.isOk_pure _

theorem ProofD.rangeContributions_isOk (pk : PublicKey) (p : ProofD) (c : Int)
    (hR : ∀ kv ∈ p.rangeProofs.getD [], p.aResponses.has kv.1 = true ∧ ∀ rp ∈ kv.2, rp.isSome)
    (hA : ∀ kv ∈ p.aResponses, kv.2.isSome) :
    GoE.IsOk (p.rangeContributions pk c) := by
  rw [ProofD.rangeContributions_eq]
  cases hrp : p.rangeProofs with
  | none => exact GoE.isOk_pure _
  | some rps =>
    rw [hrp] at hR
    simp only [Option.getD_some] at hR
    apply GoE.isOk_bind (extractAll_isOk pk rps (fun kv hkv => (hR kv hkv).2)); intro structs hstructs
    apply GoE.isOk_bind
    · apply GoE.forIn_isOk
      intro index _ st
      exact rangeOuter_isOk pk p c structs rps index st hstructs hR hA
    · intro _ _; exact GoE.isOk_pure _


/-! ## 14. totality of `ProofD.challengeContribution` / `verifyWith` -/

theorem GoE.isOk_ofGoMOption {α} {x : GoM (Option α)} (h : GoM.IsOk x) : GoE.IsOk (GoE.ofGoMOption x) := h

theorem GoE.isOk_failure_bind {α β} (f : α → GoE β) : GoE.IsOk ((failure : GoE α) >>= f) :=
  GoE.isOk_bind GoE.isOk_failure (fun a ha => absurd ha (GoE.failure_ne a))

theorem ProofD.challengeContribution_isOk (o : SigOracle) (kid : String) (pk : PublicKey) (p : ProofD)
    (i : Int) (hs : p.wellFormed pk = true → p.ExpSafe pk) :
    GoE.IsOk (p.challengeContribution o kid pk i) := by
  unfold ProofD.challengeContribution
  simp only []
  by_cases hw : p.wellFormed pk = true
  · simp only [hw, Bool.not_true, Bool.false_eq_true, if_false]
    have hw' := (ProofD.wellFormed_iff pk p).mp hw
    obtain ⟨⟨hc, ha, he, hv⟩, _, hA, hD, hR, _⟩ := hw'
    have hA' : ∀ kv ∈ p.aResponses, kv.2.isSome := fun kv hkv => (hA kv hkv).1
    apply GoE.isOk_bind (GoE.isOk_ofGoMOption (ProofD.reconstructZ_isOk pk p hw (hs hw))); intro z _
    apply GoE.isOk_bind (GoE.isOk_liftM (deref_isOk _ ha)); intro a _
    apply GoE.isOk_bind (GoE.isOk_liftM (deref_isOk _ hc)); intro c _
    split
    · apply GoE.isOk_bind (ProofD.rangeContributions_isOk pk p c hR hA')
      intro _ _; exact GoE.isOk_pure _
    · next nr hnr =>
      apply GoE.isOk_bind
      · split
        · exact GoE.isOk_failure
        · exact GoE.isOk_pure _
      · intro resp _
        split
        · exact GoE.isOk_failure_bind _
        · next nr' hse =>
          apply GoE.isOk_bind (GoE.isOk_liftM
            (NonRevProof.challengeContributions_isOk pk nr' (NonRevProof.setExpected_structureOk hse)))
          intro contrib _
          apply GoE.isOk_bind (ProofD.rangeContributions_isOk pk _ c hR hA')
          intro _ _; exact GoE.isOk_pure _
  · simp only [hw, Bool.not_false, if_true]
    exact GoE.isOk_failure_bind _

theorem ProofD.verifyWith_isOk (o : SigOracle) (kid : String) (pk : PublicKey) (p : ProofD)
    (ctx nonce : Int) (issig : Bool) (i1 i2 : Int) (hs : p.wellFormed pk = true → p.ExpSafe pk) :
    GoM.IsOk (p.verifyWith o kid pk ctx nonce issig i1 i2) := by
  unfold ProofD.verifyWith
  apply GoM.isOk_bind (ProofD.challengeContribution_isOk o kid pk p i1 hs)
  intro r _
  split
  · exact GoM.isOk_pure _
  · apply GoM.isOk_bind (ProofD.verifyWithChallenge_isOk ..)
    intro _ _; exact GoM.isOk_pure _


/-! ## 15. ProofList -/

theorem GoM.forIn_isOk_inv {α σ} (l : List α) (init : σ) (f : α → σ → GoM (ForInStep σ))
    (Inv : σ → Prop) (hinit : Inv init)
    (h : ∀ a ∈ l, ∀ s, Inv s → GoM.IsOk (f a s) ∧ ∀ s', f a s = .ok (.yield s') → Inv s') :
    GoM.IsOk (forIn l init f) := by
  induction l generalizing init with
  | nil => rw [List.forIn_nil]; exact GoM.isOk_pure _
  | cons a rest ih =>
    rw [List.forIn_cons]
    obtain ⟨hok, hinv⟩ := h a (List.mem_cons_self ..) init hinit
    apply GoM.isOk_bind hok
    intro st hst
    cases st with
    | done s => exact GoM.isOk_pure _
    | yield s => exact ih s (hinv s hst) (fun a' ha' => h a' (List.mem_cons_of_mem _ ha'))

theorem ProofU.verifyWithChallenge_ok_true {pk : PublicKey} {p : ProofU} {c' : Int}
    (h : p.verifyWithChallenge pk c' = .ok true) : p.wellFormed pk = true := by
  unfold ProofU.verifyWithChallenge at h
  by_cases hw : p.wellFormed pk = true
  · exact hw
  · simp [hw, GoM.pure_eq_ok] at h

theorem Proof.secretKeyResponse_isSome_d {pk : PublicKey} {p : ProofD} (h : p.wellFormed pk = true) :
    (Proof.d p).secretKeyResponse.isSome := ((ProofD.wellFormed_iff pk p).mp h).2.1

theorem Proof.secretKeyResponse_isSome_u {pk : PublicKey} {p : ProofU} (h : p.wellFormed pk = true) :
    (Proof.u p).secretKeyResponse.isSome := ((ProofU.wellFormed_iff pk p).mp h).2.2.2.2.1

theorem proofListVerifyWith_isOk (o : SigOracle) (keys : List (String × PublicKey)) (pl : List Proof)
    (ctx nonce : Int) (issig : Bool) (kss : List String) (choices : List (Int × Int))
    (hs : ∀ x ∈ pl.zip keys, ∀ p, x.1 = .d p → p.wellFormed x.2.2 = true → p.ExpSafe x.2.2) :
    GoM.IsOk (proofListVerifyWith o keys pl ctx nonce issig kss choices) := by
  unfold proofListVerifyWith
  simp only []
  split
  · exact GoM.isOk_pure _
  · apply GoM.isOk_bind
    · apply GoM.forIn_isOk_inv _ _ _ (fun _ => True) trivial
      intro x hx s _
      refine ⟨?_, fun _ _ => trivial⟩
      have hx1 : x.1 ∈ pl.zip keys := (List.of_mem_zip hx).1
      split
      · next p hp =>
        apply GoM.isOk_bind (ProofD.challengeContribution_isOk o _ _ p _ (hs x.1 hx1 p hp))
        intro r _
        split <;> exact GoM.isOk_pure _
      · next p hp =>
        apply GoM.isOk_bind (ProofU.challengeContribution_isOk _ p)
        intro r _
        split <;> exact GoM.isOk_pure _
    · intro st _
      split
      · exact GoM.isOk_pure _
      · apply GoM.isOk_bind
        · apply GoM.forIn_isOk_inv _ _ _ (fun s => ∀ kv ∈ s.2.1, kv.2.isSome = true) (by simp)
          intro x hx s hinv
          -- the verdict of this proof and, when accepted, presence of its secret-key response
          have hver : ∀ ok, (match x.1.1 with
                | Proof.d p => do
                  let __x ← ProofD.verifyWithChallenge o x.1.2.1 x.1.2.2 p x.2.2
                    ↑(createChallenge ctx nonce st.2.1 issig)
                  pure __x.1
                | Proof.u p => ProofU.verifyWithChallenge x.1.2.2 p ↑(createChallenge ctx nonce st.2.1 issig)
                  : GoM Bool) = .ok ok → ok = true → x.1.1.secretKeyResponse.isSome = true := by
            intro ok hok hoktrue
            subst hoktrue
            split at hok
            · next p hp =>
              rw [GoM.bind_ok_iff] at hok
              obtain ⟨⟨b, acc⟩, hv, hb⟩ := hok
              simp only [GoM.pure_eq_ok, Except.ok.injEq] at hb
              subst hb
              rw [hp]
              exact Proof.secretKeyResponse_isSome_d (ProofD.verifyWithChallenge_ok_true hv).1
            · next p hp =>
              rw [hp]
              exact Proof.secretKeyResponse_isSome_u (ProofU.verifyWithChallenge_ok_true hok)
          have hverOk : GoM.IsOk (match x.1.1 with
                | Proof.d p => do
                  let __x ← ProofD.verifyWithChallenge o x.1.2.1 x.1.2.2 p x.2.2
                    ↑(createChallenge ctx nonce st.2.1 issig)
                  pure __x.1
                | Proof.u p => ProofU.verifyWithChallenge x.1.2.2 p ↑(createChallenge ctx nonce st.2.1 issig)
                  : GoM Bool) := by
            split
            · apply GoM.isOk_bind (ProofD.verifyWithChallenge_isOk ..)
              intro _ _; exact GoM.isOk_pure _
            · exact ProofU.verifyWithChallenge_isOk ..
          constructor
          · apply GoM.isOk_bind hverOk
            intro ok hok
            cases ok with
            | false => exact GoM.isOk_pure _
            | true =>
              simp only [Bool.not_true, Bool.false_eq_true, if_false]
              split
              · exact GoM.isOk_pure _
              · next resp hresp =>
                apply GoM.isOk_bind (deref_isOk _ (hinv _ (lookup_mem hresp))); intro r _
                apply GoM.isOk_bind (deref_isOk _ (hver true hok rfl)); intro mine _
                split <;> exact GoM.isOk_pure _
          · intro s' hs'
            rw [GoM.bind_ok_iff] at hs'
            obtain ⟨ok, hok, hs'⟩ := hs'
            cases ok with
            | false => simp [GoM.pure_eq_ok] at hs'
            | true =>
              simp only [Bool.not_true, Bool.false_eq_true, if_false] at hs'
              split at hs'
              · simp only [GoM.pure_eq_ok, Except.ok.injEq, ForInStep.yield.injEq] at hs'
                subst hs'
                intro kv hkv
                rcases List.mem_cons.mp hkv with rfl | hm
                · exact hver true hok rfl
                · exact hinv kv hm
              · rw [GoM.bind_ok_iff] at hs'
                obtain ⟨r, _, hs'⟩ := hs'
                rw [GoM.bind_ok_iff] at hs'
                obtain ⟨mine, _, hs'⟩ := hs'
                split at hs'
                · simp [GoM.pure_eq_ok] at hs'
                · simp only [GoM.pure_eq_ok, Except.ok.injEq, ForInStep.yield.injEq] at hs'
                  subst hs'
                  exact hinv
        · intro st2 _
          split <;> exact GoM.isOk_pure _


/-- modelling caveat: `choices` is zipped with the proofs, so a `choices` list shorter than the
    proof list silently drops the remaining proofs; with no choices at all every list that passes
    the length guard is "accepted". Acceptance theorems must assume `choices.length = pl.length`. -/
theorem proofListVerifyWith_nil_choices (o : SigOracle) (keys : List (String × PublicKey)) (pl : List Proof)
    (ctx nonce : Int) (issig : Bool) (kss : List String)
    (h1 : pl ≠ []) (h2 : pl.length = keys.length) (h3 : kss = [] ∨ pl.length = kss.length) :
    proofListVerifyWith o keys pl ctx nonce issig kss [] = .ok true := by
  unfold proofListVerifyWith
  rw [if_neg]
  · simp only [List.zip_nil_right, List.forIn_nil]
    rfl
  · rcases h3 with rfl | h3
    · simp [h1, h2]
    · simp [h1, ← h2, h3]


/-! ## 16. every range proof of an accepted disclosure proof is structure-checked -/

theorem rangeInner_ok_some {pk : PublicKey} {c mresp : Int} {x : RangeStructure × Option RangeProof}
    {st : List Int × List (Option RangeProof)} {t : ForInStep (List Int × List (Option RangeProof))}
    (h : (rangeInner pk c mresp x st).run = .ok (some t)) :
    (∃ s', t = .yield s') ∧ ∃ rp, x.2 = some rp ∧
      x.1.verifyProofStructure pk { rp with mResponse := some mresp } = true := by
  unfold rangeInner at h
  rw [GoE.run_bind_ok_some_iff] at h
  obtain ⟨rp, hrp, h⟩ := h
  rw [GoE.run_liftM_ok_some_iff, deref_ok_iff] at hrp
  simp only [] at h
  split at h
  · rw [GoE.run_bind_ok_some_iff] at h
    obtain ⟨_, hf, _⟩ := h
    exact absurd hf (GoE.failure_ne _)
  · next hv =>
    rw [GoE.run_bind_ok_some_iff] at h
    obtain ⟨cs, _, h⟩ := h
    rw [GoE.run_pure] at h
    simp only [Except.ok.injEq, Option.some.injEq] at h
    exact ⟨⟨_, h.symm⟩, rp, hrp, by simpa using hv⟩

theorem rangeOuter_ok_some {pk : PublicKey} {p : ProofD} {c : Int}
    {structs : List (Int × List RangeStructure)} {rps : RPMap} {index : Int} {st : List Int × RPMap}
    {t : ForInStep (List Int × RPMap)}
    (h : (rangeOuter pk p c structs rps index st).run = .ok (some t)) :
    (∃ s', t = .yield s') ∧ ∀ ss proofs, structs.lookup index = some ss → rps.lookup index = some proofs →
      ∃ mresp, p.aResponses.get index = some mresp ∧
        ∀ x ∈ ss.zip proofs, ∃ rp, x.2 = some rp ∧
          x.1.verifyProofStructure pk { rp with mResponse := some mresp } = true := by
  unfold rangeOuter at h
  split at h
  · next ss proofs hss hproofs =>
    rw [GoE.run_bind_ok_some_iff] at h
    obtain ⟨mresp, hm, h⟩ := h
    rw [GoE.run_liftM_ok_some_iff, deref_ok_iff] at hm
    rw [GoE.run_bind_ok_some_iff] at h
    obtain ⟨st1, hst1, h⟩ := h
    rw [GoE.run_pure] at h
    simp only [Except.ok.injEq, Option.some.injEq] at h
    refine ⟨⟨_, h.symm⟩, ?_⟩
    intro ss' proofs' hss' hproofs'
    rw [hss] at hss'; rw [hproofs] at hproofs'
    simp only [Option.some.injEq] at hss' hproofs'
    subst hss' hproofs'
    refine ⟨mresp, hm, ?_⟩
    intro x hx
    obtain ⟨s, s', hs⟩ := GoE.forIn_ok_some _ _ _ _
      (fun a s t ht => (rangeInner_ok_some ht).1) hst1 x hx
    exact (rangeInner_ok_some hs).2
  · next hno =>
    rw [GoE.run_pure] at h
    simp only [Except.ok.injEq, Option.some.injEq] at h
    refine ⟨⟨_, h.symm⟩, ?_⟩
    intro ss proofs hss hproofs
    exact absurd hproofs (hno ss proofs hss)

theorem forall₂_mem_zip {α β} {R : α → β → Prop} {l1 : List α} {l2 : List β}
    (h : List.Forall₂ R l1 l2) {a : α} (ha : a ∈ l1) : ∃ b, (b, a) ∈ l2.zip l1 ∧ R a b := by
  induction h with
  | nil => simp at ha
  | @cons a' b' l1 l2 hab _ ih =>
    rcases List.mem_cons.mp ha with rfl | hm
    · exact ⟨b', by simp, hab⟩
    · obtain ⟨b, hb, hR⟩ := ih hm
      exact ⟨b, by simp [hb], hR⟩

theorem foldl_max_ge (l : IntMap) (init : Int) :
    init ≤ l.foldl (fun m kv => if kv.1 > m then kv.1 else m) init ∧
    ∀ kv ∈ l, kv.1 ≤ l.foldl (fun m kv => if kv.1 > m then kv.1 else m) init := by
  induction l generalizing init with
  | nil => simp
  | cons kv rest ih =>
    rw [List.foldl_cons]
    obtain ⟨h1, h2⟩ := ih (if kv.1 > init then kv.1 else init)
    by_cases hgt : kv.1 > init
    · simp only [hgt, if_true] at h1 h2 ⊢
      refine ⟨by omega, ?_⟩
      intro kv' hkv'
      rcases List.mem_cons.mp hkv' with rfl | hm
      · exact h1
      · exact h2 kv' hm
    · simp only [hgt, if_false] at h1 h2 ⊢
      refine ⟨h1, ?_⟩
      intro kv' hkv'
      rcases List.mem_cons.mp hkv' with rfl | hm
      · omega
      · exact h2 kv' hm

theorem ProofD.mem_rangeIndices (p : ProofD) {index : Int} (h0 : 0 ≤ index) (hk : p.aResponses.has index = true) :
    index ∈ p.rangeIndices := by
  unfold IntMap.has at hk
  cases hl : p.aResponses.lookup index with
  | none => simp [hl] at hk
  | some v =>
    have hle := (foldl_max_ge p.aResponses 0).2 _ (lookup_mem hl)
    unfold ProofD.rangeIndices ProofD.maxAttribute
    rw [List.mem_map]
    refine ⟨index.toNat, List.mem_range.mpr ?_, by omega⟩
    simp only at hle
    omega


/-- a successful `rangeContributions` structure-checked every proof stored under a key that
    `lookup` finds, against the structure extracted from that same proof. -/
theorem ProofD.rangeContributions_checked {pk : PublicKey} {p : ProofD} {c : Int}
    {rc : List Int} {rps' : Option RPMap} {rps : RPMap}
    (h : (p.rangeContributions pk c).run = .ok (some (rc, rps')))
    (hrps : p.rangeProofs = some rps)
    {index : Int} {proofs : List (Option RangeProof)} (hl : rps.lookup index = some proofs)
    (h0 : 0 ≤ index) (hk : p.aResponses.has index = true)
    {rp : RangeProof} (hrp : some rp ∈ proofs) :
    ∃ s mresp, rp.extractStructure index pk = some s ∧ p.aResponses.get index = some mresp ∧
      s.verifyProofStructure pk { rp with mResponse := some mresp } = true := by
  rw [ProofD.rangeContributions_eq, hrps] at h
  simp only [] at h
  rw [GoE.run_bind_ok_some_iff] at h
  obtain ⟨structs, hstructs, h⟩ := h
  rw [GoE.run_bind_ok_some_iff] at h
  obtain ⟨st, hst, _⟩ := h
  obtain ⟨s0, s1, hbody⟩ := GoE.forIn_ok_some _ _ _ _
    (fun a s t ht => (rangeOuter_ok_some ht).1) hst index (p.mem_rangeIndices h0 hk)
  have hF := extractAll_ok_some hstructs
  rcases forall₂_lookup hF index with ⟨hn, _⟩ | ⟨proofs', ss, hl', hss, hR⟩
  · rw [hl] at hn; simp at hn
  · rw [hl] at hl'
    simp only [Option.some.injEq] at hl'
    subst hl'
    obtain ⟨mresp, hm, hall⟩ := (rangeOuter_ok_some hbody).2 ss proofs hss hl
    obtain ⟨s, hzip, rp', hrp', hex⟩ := forall₂_mem_zip hR hrp
    simp only [Option.some.injEq] at hrp'
    subst hrp'
    obtain ⟨rp'', hrp'', hv⟩ := hall _ hzip
    simp only [Option.some.injEq] at hrp''
    subst hrp''
    exact ⟨s, mresp, hex, hm, hv⟩

theorem lookup_of_mem_nodup {α β} [BEq α] [LawfulBEq α] {l : List (α × β)} (hnd : (l.map (·.1)).Nodup)
    {k : α} {v : β} (h : (k, v) ∈ l) : l.lookup k = some v := by
  induction l with
  | nil => simp at h
  | cons kv rest ih =>
    obtain ⟨k', v'⟩ := kv
    rw [List.map_cons, List.nodup_cons] at hnd
    rw [List.lookup_cons]
    rcases List.mem_cons.mp h with heq | hm
    · simp only [Prod.mk.injEq] at heq
      obtain ⟨rfl, rfl⟩ := heq
      simp
    · have hne : ¬ (k == k') = true := by
        intro hk
        have := eq_of_beq hk
        subst this
        exact hnd.1 (List.mem_map.mpr ⟨(k, v), hm, rfl⟩)
      simp only [hne]
      exact ih hnd.2 hm

theorem ProofD.accept_rangeproofs_lookup {o : SigOracle} {kid : String} {pk : PublicKey} {p : ProofD}
    {ctx nonce : Int} {issig : Bool} {i1 i2 : Int} {rps : RPMap}
    (h : p.verifyWith o kid pk ctx nonce issig i1 i2 = .ok true) (hrps : p.rangeProofs = some rps)
    {index : Int} {proofs : List (Option RangeProof)} (hl : rps.lookup index = some proofs)
    {rp : RangeProof} (hrp : some rp ∈ proofs) :
    p.aResponses.has index = true ∧ ∃ s, rp.extractStructure index pk = some s ∧
      s.verifyProofStructure pk { rp with mResponse := p.aResponses.get index } = true := by
  obtain ⟨contrib, p', hc, _⟩ := ProofD.verifyWith_ok_true h
  obtain ⟨hw, z, a, c, _, _, _, l1, p1, hstep, rc, rps', hrc, _, _⟩ := ProofD.challengeContribution_ok_some hc
  have hw' := (ProofD.wellFormed_iff pk p).mp hw
  obtain ⟨_, _, hA, _, hR, _⟩ := hw'
  rw [hrps] at hR
  simp only [Option.getD_some] at hR
  have hhas := (hR _ (lookup_mem hl)).1
  have h0 : 0 ≤ index := by
    unfold IntMap.has at hhas
    cases hl' : p.aResponses.lookup index with
    | none => simp [hl'] at hhas
    | some v => exact (hA _ (lookup_mem hl')).2.1
  have hp1 : p1.rangeProofs = p.rangeProofs ∧ p1.aResponses = p.aResponses := by
    rcases hstep with ⟨_, _, rfl⟩ | ⟨nr, resp, nr', _, _, _, _, _, rfl⟩ <;> exact ⟨rfl, rfl⟩
  obtain ⟨s, mresp, hex, hm, hv⟩ := ProofD.rangeContributions_checked hrc (hp1.1.trans hrps) hl h0
    (by rw [hp1.2]; exact hhas) hrp
  rw [hp1.2] at hm
  exact ⟨hhas, s, hex, by rw [hm]; exact hv⟩


/-! ## 17. a list containing a malformed proof is never accepted -/

def Proof.wellFormed (pk : PublicKey) : Proof → Bool
  | .d p => p.wellFormed pk
  | .u p => p.wellFormed pk

theorem GoM.forIn_ok_yield {α σ} (l : List α) (init : σ) (f : α → σ → GoM (ForInStep σ)) (r : σ)
    (Q : σ → Prop) (hQ : ¬ Q r) (hdone : ∀ a s s', f a s = .ok (.done s') → Q s')
    (h : forIn l init f = .ok r) : ∀ a ∈ l, ∃ s s', f a s = .ok (.yield s') := by
  induction l generalizing init with
  | nil => intro a ha; simp at ha
  | cons a rest ih =>
    rw [List.forIn_cons, GoM.bind_ok_iff] at h
    obtain ⟨st, hst, h⟩ := h
    cases st with
    | done s' =>
      simp only [GoM.pure_eq_ok, Except.ok.injEq] at h
      subst h
      exact absurd (hdone a init _ hst) hQ
    | yield s' =>
      intro a' ha'
      rcases List.mem_cons.mp ha' with rfl | hm
      · exact ⟨init, s', hst⟩
      · exact ih s' h a' hm

theorem ProofU.challengeContribution_ok_some {pk : PublicKey} {p : ProofU} {c : List Int}
    (h : p.challengeContribution pk = .ok (some c)) : p.wellFormed pk = true := by
  unfold ProofU.challengeContribution at h
  by_cases hw : p.wellFormed pk = true
  · exact hw
  · simp [hw, GoM.pure_eq_ok] at h

theorem proofListVerifyWith_malformed (o : SigOracle) (keys : List (String × PublicKey)) (pl : List Proof)
    (ctx nonce : Int) (issig : Bool) (kss : List String) (choices : List (Int × Int))
    {proof : Proof} {kp : String × PublicKey} {ch : Int × Int}
    (hmem : ((proof, kp), ch) ∈ (pl.zip keys).zip choices) (hmal : proof.wellFormed kp.2 = false) :
    proofListVerifyWith o keys pl ctx nonce issig kss choices ≠ .ok true := by
  intro h
  unfold proofListVerifyWith at h
  simp only [] at h
  split at h
  · simp [GoM.pure_eq_ok] at h
  · rw [GoM.bind_ok_iff] at h
    obtain ⟨st, hst, h⟩ := h
    have hQ : ¬ (st.1 = some false) := by
      intro hst1
      rw [hst1] at h
      simp [GoM.pure_eq_ok] at h
    obtain ⟨s, s', hbody⟩ := GoM.forIn_ok_yield _ _ _ _ (fun s => s.1 = some false) hQ (by
      intro a s s' hs'
      split at hs'
      · rw [GoM.bind_ok_iff] at hs'
        obtain ⟨r, _, hs'⟩ := hs'
        split at hs'
        · simp only [GoM.pure_eq_ok, Except.ok.injEq, ForInStep.done.injEq] at hs'
          rw [← hs']
        · simp [GoM.pure_eq_ok] at hs'
      · rw [GoM.bind_ok_iff] at hs'
        obtain ⟨r, _, hs'⟩ := hs'
        split at hs'
        · simp only [GoM.pure_eq_ok, Except.ok.injEq, ForInStep.done.injEq] at hs'
          rw [← hs']
        · simp [GoM.pure_eq_ok] at hs') hst _ hmem
    simp only [] at hbody
    cases proof with
    | d p =>
      simp only [] at hbody
      rw [GoM.bind_ok_iff] at hbody
      obtain ⟨r, hr, hbody⟩ := hbody
      cases r with
      | none => simp [GoM.pure_eq_ok] at hbody
      | some cp =>
        have := (ProofD.challengeContribution_ok_some hr).1
        simp [Proof.wellFormed, this] at hmal
    | u p =>
      simp only [] at hbody
      rw [GoM.bind_ok_iff] at hbody
      obtain ⟨r, hr, hbody⟩ := hbody
      cases r with
      | none => simp [GoM.pure_eq_ok] at hbody
      | some c =>
        have := ProofU.challengeContribution_ok_some hr
        simp [Proof.wellFormed, this] at hmal

theorem mem_zip_zip_of_index {α β γ} (l1 : List α) (l2 : List β) (l3 : List γ) (j : Nat)
    (h1 : j < l1.length) (h2 : j < l2.length) (h3 : j < l3.length) :
    ((l1[j], l2[j]), l3[j]) ∈ (l1.zip l2).zip l3 := by
  have hlen : j < ((l1.zip l2).zip l3).length := by simp; omega
  have := List.getElem_mem hlen
  simpa [List.getElem_zip] using this


/-! ## 18. units and non-negative responses of accepted sub-proofs -/

theorem RangeStructure.verifyProofStructure_units {s : RangeStructure} {pk : PublicKey} {p : RangeProof}
    (h : s.verifyProofStructure pk p = true) :
    (∀ c ∈ p.cs, ∃ x, c = some x ∧ 0 < x ∧ x < pk.n ∧ Int.gcd x pk.n = 1) ∧
    (∀ d ∈ p.ds, ∃ x, d = some x ∧ 0 ≤ x) ∧ (∀ v ∈ p.vs, ∃ x, v = some x ∧ 0 ≤ x) ∧
    (∃ x, p.v5 = some x ∧ 0 ≤ x) ∧ (∃ x, p.mResponse = some x ∧ 0 ≤ x) := by
  obtain ⟨⟨hlc, hld, hlv⟩, ⟨v5, m, hv5, hv50, hm, hm0⟩, hall⟩ :=
    RangeStructure.verifyProofStructure_facts h
  refine ⟨?_, ?_, ?_, ⟨v5, hv5, hv50⟩, ⟨m, hm, hm0⟩⟩
  · intro c hc
    obtain ⟨i, hi, hget⟩ := List.mem_iff_getElem.mp hc
    obtain ⟨c', d, v, hc', _, _, _, _, hu⟩ := hall i (by omega)
    rw [List.getElem?_eq_getElem hi, hget] at hc'
    exact ⟨c', Option.some.inj hc', hu⟩
  · intro d hd
    obtain ⟨i, hi, hget⟩ := List.mem_iff_getElem.mp hd
    obtain ⟨c', d', v, _, hd', _, hd0, _, _⟩ := hall i (by omega)
    rw [List.getElem?_eq_getElem hi, hget] at hd'
    exact ⟨d', Option.some.inj hd', hd0⟩
  · intro v hv
    obtain ⟨i, hi, hget⟩ := List.mem_iff_getElem.mp hv
    obtain ⟨c', d', v', _, _, hv', _, hv0, _⟩ := hall i (by omega)
    rw [List.getElem?_eq_getElem hi, hget] at hv'
    exact ⟨v', Option.some.inj hv', hv0⟩

/-- the non-revocation part of an accepted proof: `C_r`, `C_u` are positive and coprime to `n`
    (not necessarily reduced: the model's `unitModN` has no upper bound). -/
theorem ProofD.accept_nonrev_units {o : SigOracle} {kid : String} {pk : PublicKey} {p : ProofD}
    {ctx nonce : Int} {issig : Bool} {i1 i2 : Int} {nr : NonRevProof}
    (h : p.verifyWith o kid pk ctx nonce issig i1 i2 = .ok true) (hnr : p.nonrev = some nr) :
    ∃ cr cu, nr.cr = some cr ∧ nr.cu = some cu ∧
      (0 < cr ∧ Int.gcd cr pk.n = 1) ∧ (0 < cu ∧ Int.gcd cu pk.n = 1) := by
  obtain ⟨contrib, p', hc, _⟩ := ProofD.verifyWith_ok_true h
  obtain ⟨_, z, a, c, _, _, _, l1, p1, hstep, _⟩ := ProofD.challengeContribution_ok_some hc
  rcases hstep with ⟨hnone, _, _⟩ | ⟨nr0, resp, nr', hnr0, _, _, hse, _, _⟩
  · rw [hnr] at hnone; simp at hnone
  · rw [hnr] at hnr0
    simp only [Option.some.injEq] at hnr0
    subst hnr0
    obtain ⟨_, hu, hcr, hcu⟩ := NonRevProof.setExpected_ok hse
    obtain ⟨cr, cu, h1, h2, h3, h4⟩ := NonRevProof.basesAreUnits_units hu
    exact ⟨cr, cu, by rw [← hcr, h1], by rw [← hcu, h2], h3, h4⟩

end Gabi
