/-
  GabiProofs.ProofCodecClosure — the converse of GabiProofs.ProofCodec: everything the decoder
  (`GabiModel.Decode`) produces meets the hypotheses (`WireOk`, `MapsSorted`, no omitted-field
  content) under which the decoder inverts the canonical encoder, so that the round trip can be
  iterated.
-/
import GabiModel.Decode
import GabiProofs.OmittedFields
import GabiProofs.ProofCodec
import GabiProofs.ProofPerm
import Std.Data.TreeMap.Raw.Lemmas
import Std.Data.TreeMap.Raw.WF
import Mathlib.Tactic.Common
import Mathlib.Logic.Function.Iterate

namespace Gabi
open Lean Gabi.Wire

/-! ## 1. well-formed message trees -/

/-- every object node of the tree is a well-formed tree map (true of every parsed tree and of
    every tree built with `Json.mkObj`). -/
inductive AllWF : Json → Prop
  | null : AllWF .null
  | bool (b : Bool) : AllWF (.bool b)
  | num (n : JsonNumber) : AllWF (.num n)
  | str (s : String) : AllWF (.str s)
  | arr (a : Array Json) : (∀ x ∈ a.toList, AllWF x) → AllWF (.arr a)
  | obj (t : Std.TreeMap.Raw String Json compare) : t.WF → (∀ kv ∈ t.toList, AllWF kv.2) → AllWF (.obj t)

theorem AllWF.obj_wf {t : Std.TreeMap.Raw String Json compare} (h : AllWF (.obj t)) : t.WF := by
  cases h with
  | obj _ hw _ => exact hw

theorem AllWF.obj_mem {t : Std.TreeMap.Raw String Json compare} (h : AllWF (.obj t)) :
    ∀ kv ∈ t.toList, AllWF kv.2 := by
  cases h with
  | obj _ _ hm => exact hm

theorem AllWF.arr_mem {a : Array Json} (h : AllWF (.arr a)) : ∀ x ∈ a.toList, AllWF x := by
  cases h with
  | arr _ hm => exact hm

theorem getObjVal_obj_ok {t : Std.TreeMap.Raw String Json compare} (ht : t.WF) {k : String} {v : Json}
    (h : (Json.obj t).getObjVal? k = .ok v) : (k, v) ∈ t.toList := by
  unfold Json.getObjVal? at h
  simp only [] at h
  cases hg : t.get? k with
  | none => rw [hg] at h; simp [throw, throwThe, MonadExceptOf.throw] at h
  | some w =>
    rw [hg] at h
    have : w = v := by simpa [pure, Except.pure] using h
    subst this
    rw [Std.TreeMap.Raw.mem_toList_iff_getElem?_eq_some ht, ← Std.TreeMap.Raw.get?_eq_getElem?]
    exact hg

/-- a member of a well-formed tree is well-formed (an absent member reads as `null`). -/
theorem AllWF.optField {j : Json} (h : AllWF j) (k : String) : AllWF (Decode.optField j k) := by
  unfold Decode.optField
  cases hg : j.getObjVal? k with
  | error _ => exact AllWF.null
  | ok v =>
    simp only []
    cases j with
    | obj t => exact h.obj_mem _ (getObjVal_obj_ok h.obj_wf hg)
    | _ => simp [Json.getObjVal?, throw, throwThe, MonadExceptOf.throw] at hg

theorem objEntries_obj (t : Std.TreeMap.Raw String Json compare) :
    Decode.objEntries (.obj t) = .ok t.toList := by
  unfold Decode.objEntries
  simp only []
  have : (fun x : String × Json => match x with | (k, v) => (k, v)) = id := by
    funext ⟨_, _⟩; rfl
  rw [this, List.map_id]
  rfl

/-! ## 2. monadic inversion -/

theorem D.pure_ok_iff {α} {a b : α} : (pure a : Decode.D α) = .ok b ↔ a = b := by
  simp [pure, Except.pure]

theorem D.ok_inj {α} {a b : α} (h : (Except.ok a : Decode.D α) = .ok b) : a = b := by
  simpa using h

theorem mapM_ok_forall₂ {α β} (f : α → Decode.D β) (l : List α) (r : List β) (h : l.mapM f = .ok r) :
    List.Forall₂ (fun a b => f a = .ok b) l r := by
  induction l generalizing r with
  | nil =>
    have h' : (Except.ok [] : Decode.D (List β)) = .ok r := h
    rw [← D.ok_inj h']
    exact List.Forall₂.nil
  | cons a l ih =>
    rw [List.mapM_cons, D.bind_ok_iff] at h
    obtain ⟨c, hc, h⟩ := h
    rw [D.bind_ok_iff] at h
    obtain ⟨r', hr', h⟩ := h
    have h' : (Except.ok (c :: r') : Decode.D (List β)) = .ok r := h
    rw [← D.ok_inj h']
    exact List.Forall₂.cons hc (ih r' hr')

theorem forall₂_mem_right' {α β} {R : α → β → Prop} {l : List α} {r : List β} (h : List.Forall₂ R l r)
    {b : β} (hb : b ∈ r) : ∃ a ∈ l, R a b := by
  induction h with
  | nil => cases hb
  | @cons a b' l r hab _ ih =>
    rcases List.mem_cons.mp hb with rfl | hb
    · exact ⟨a, List.mem_cons_self .., hab⟩
    · obtain ⟨a', ha', hr⟩ := ih hb
      exact ⟨a', List.mem_cons_of_mem _ ha', hr⟩

/-! ## 3. leaves and scalars -/

theorem big_ok_bigOk {j : Json} {direct : Bool} {x : Option Int} (h : Decode.big j direct = .ok x) :
    BigOk direct x := by
  intro z hz
  subst hz
  unfold Decode.big at h
  split at h
  · cases D.ok_inj h
  · split at h
    · next hc =>
      have := D.ok_inj h
      simp only [Option.some.injEq] at this
      right; omega
    · cases h
  · split at h
    · next z' _ =>
      split at h
      · cases h
      · next hc =>
        have := D.ok_inj h
        simp only [Option.some.injEq] at this
        subst this
        by_cases hd : direct = true
        · exact Or.inl hd
        · right
          simp only [Bool.not_eq_true] at hd
          simp only [hd, Bool.not_false, and_true, not_lt] at hc
          exact hc
    · split at h
      · have := D.ok_inj h
        simp only [Option.some.injEq] at this
        right; omega
      · cases h

theorem uint_ok_lt {j : Json} {n : Nat} (h : Decode.uint j = .ok n) : n < 2 ^ 64 := by
  unfold Decode.uint at h
  split at h
  · rw [← D.ok_inj h]; decide
  · split at h
    · next hc =>
      rw [← D.ok_inj h]
      have h1 := hc.2.1
      have h2 := hc.2.2
      omega
    · cases h
  · cases h

theorem int_ok_int64 {j : Json} {z : Int} (h : Decode.int j = .ok z) : Int64 z := by
  unfold Decode.int at h
  split at h
  · rw [← D.ok_inj h]; constructor <;> decide
  · split at h
    · next hc =>
      rw [← D.ok_inj h]
      exact ⟨hc.2.1, hc.2.2⟩
    · cases h
  · cases h

theorem bigList_ok_bigOk {j : Json} {direct : Bool} {l : List (Option Int)}
    (h : Decode.bigList j direct = .ok l) : ∀ x ∈ l, BigOk direct x := by
  unfold Decode.bigList at h
  split at h
  · rw [← D.ok_inj h]; intro x hx; cases hx
  · intro x hx
    obtain ⟨e, _, he⟩ := forall₂_mem_right' (mapM_ok_forall₂ _ _ _ h) hx
    exact big_ok_bigOk he
  · cases h

theorem parseIntKey_ok {k : String} {z : Int} (h : Decode.parseIntKey k = .ok z) :
    k.toInt? = some z ∧ Int64 z := by
  unfold Decode.parseIntKey at h
  split at h
  · next z' hz' =>
    split at h
    · next hc =>
      rw [← D.ok_inj h]
      exact ⟨hz', hc.1, hc.2⟩
    · cases h
  · cases h

/-! ## 4. `dedupKeys` -/

theorem dedupKeys_foldl_nodup {α} (l acc : List (Int × α)) (h : (acc.map (·.1)).Nodup) :
    ((l.foldl (fun acc kv => acc.filter (·.1 ≠ kv.1) ++ [kv]) acc).map (·.1)).Nodup := by
  induction l generalizing acc with
  | nil => exact h
  | cons kv l ih =>
    rw [List.foldl_cons]
    apply ih
    rw [List.map_append, List.nodup_append]
    refine ⟨(List.filter_sublist.map _).nodup h, by simp, ?_⟩
    intro a ha b hb
    simp only [List.map_cons, List.map_nil, List.mem_singleton] at hb
    subst hb
    obtain ⟨x, hx, rfl⟩ := List.mem_map.mp ha
    have := (List.mem_filter.mp hx).2
    simpa using this

theorem dedupKeys_nodup {α} (l : List (Int × α)) : ((Decode.dedupKeys l).map (·.1)).Nodup :=
  dedupKeys_foldl_nodup l [] List.nodup_nil

theorem dedupKeys_foldl_mem {α} (l acc : List (Int × α)) :
    ∀ x ∈ l.foldl (fun acc kv => acc.filter (·.1 ≠ kv.1) ++ [kv]) acc, x ∈ acc ∨ x ∈ l := by
  induction l generalizing acc with
  | nil => intro x hx; exact Or.inl hx
  | cons kv l ih =>
    intro x hx
    rw [List.foldl_cons] at hx
    rcases ih _ x hx with h | h
    · rw [List.mem_append] at h
      rcases h with h | h
      · exact Or.inl (List.mem_filter.mp h).1
      · rw [List.mem_singleton] at h
        subst h
        exact Or.inr (List.mem_cons_self ..)
    · exact Or.inr (List.mem_cons_of_mem _ h)

theorem dedupKeys_subset {α} (l : List (Int × α)) : ∀ x ∈ Decode.dedupKeys l, x ∈ l := by
  intro x hx
  rcases dedupKeys_foldl_mem l [] x hx with h | h
  · cases h
  · exact h

/-! ## 5. integer-keyed maps -/

/-- one member of an object read as an entry of a `map[int]*big.Int`. -/
def IntEntry (direct : Bool) (e : String × Json) (r : Int × Option Int) : Prop :=
  Decode.parseIntKey e.1 = .ok r.1 ∧ Decode.big e.2 direct = .ok r.2

theorem intMap_ok_inv {j : Json} {direct : Bool} {m : IntMap} (h : Decode.intMap j direct = .ok m) :
    (j = .null ∧ m = []) ∨
    ∃ t l, j = .obj t ∧ List.Forall₂ (IntEntry direct) t.toList l ∧ m = Decode.dedupKeys l := by
  unfold Decode.intMap at h
  split at h
  · exact Or.inl ⟨rfl, (D.ok_inj h).symm⟩
  · next t =>
    right
    simp only [] at h
    split at h
    · rw [D.bind_ok_iff] at h
      obtain ⟨_, hthrow, _⟩ := h
      cases hthrow
    rw [objEntries_obj, D.bind_ok_iff] at h
    obtain ⟨es, hes, h⟩ := h
    cases D.ok_inj hes
    rw [D.bind_ok_iff] at h
    obtain ⟨l, hl, h⟩ := h
    refine ⟨t, l, rfl, ?_, (D.ok_inj h).symm⟩
    refine List.Forall₂.imp ?_ (mapM_ok_forall₂ _ _ _ hl)
    rintro ⟨k, v⟩ ⟨z, x⟩ hkv
    simp only [] at hkv
    rw [D.bind_ok_iff] at hkv
    obtain ⟨z', hz', hkv⟩ := hkv
    rw [D.bind_ok_iff] at hkv
    obtain ⟨x', hx', hkv⟩ := hkv
    have := D.ok_inj hkv
    simp only [Prod.mk.injEq] at this
    obtain ⟨rfl, rfl⟩ := this
    exact ⟨hz', hx'⟩
  · cases h

theorem intMap_ok_intMapOk {j : Json} {direct : Bool} {m : IntMap} (h : Decode.intMap j direct = .ok m) :
    IntMapOk direct m := by
  rcases intMap_ok_inv h with ⟨_, rfl⟩ | ⟨t, l, _, hl, rfl⟩
  · exact ⟨List.nodup_nil, by simp, by simp⟩
  · refine ⟨dedupKeys_nodup l, ?_, ?_⟩
    · intro kv hkv
      obtain ⟨e, _, he⟩ := forall₂_mem_right' hl (dedupKeys_subset l kv hkv)
      exact (parseIntKey_ok he.1).2
    · intro kv hkv
      obtain ⟨e, _, he⟩ := forall₂_mem_right' hl (dedupKeys_subset l kv hkv)
      exact big_ok_bigOk he.2

/-- every member name that reads as an integer is the canonical decimal text of that integer
    (no "+5", "007", "-0", "1_0"); vacuous for trees that are not objects. -/
def CanonKeys (j : Json) : Prop :=
  ∀ t, j = .obj t → ∀ kv ∈ t.toList, ∀ z : Int, kv.1.toInt? = some z → kv.1 = toString z

theorem forall₂_pairwise {α β} {R : α → β → Prop} {P : α → α → Prop} {Q : β → β → Prop}
    {l : List α} {r : List β} (h : List.Forall₂ R l r) (hp : l.Pairwise P)
    (himp : ∀ a ∈ l, ∀ b ∈ l, ∀ a' b', R a a' → R b b' → P a b → Q a' b') : r.Pairwise Q := by
  induction h with
  | nil => exact List.Pairwise.nil
  | @cons a a' l r haa' hlr ih =>
    rw [List.pairwise_cons] at hp ⊢
    constructor
    · intro b' hb'
      obtain ⟨b, hb, hbb'⟩ := forall₂_mem_right' hlr hb'
      exact himp a (List.mem_cons_self ..) b (List.mem_cons_of_mem _ hb) a' b' haa' hbb' (hp.1 b hb)
    · exact ih hp.2 (fun a ha b hb => himp a (List.mem_cons_of_mem _ ha) b (List.mem_cons_of_mem _ hb))

theorem keyedSorted_nodup {β} {m : List (Int × β)} (h : KeyedSorted toString m) : (m.map (·.1)).Nodup := by
  rw [List.Nodup, List.pairwise_map]
  refine List.Pairwise.imp ?_ h.distinct
  intro a b hab heq
  exact hab (by rw [heq])

/-- entries read from a well-formed object whose integer keys are canonically spelled come out
    in the order of their key texts (so nothing is dropped by `dedupKeys` either). -/
theorem keyed_entries_sorted {β γ} {R : String × β → Int × γ → Prop}
    {t : Std.TreeMap.Raw String β compare} (ht : t.WF) {l : List (Int × γ)}
    (hR : ∀ e r, R e r → Decode.parseIntKey e.1 = .ok r.1)
    (hc : ∀ kv ∈ t.toList, ∀ z : Int, kv.1.toInt? = some z → kv.1 = toString z)
    (hl : List.Forall₂ R t.toList l) : KeyedSorted toString l := by
  refine forall₂_pairwise hl (Std.TreeMap.Raw.ordered_keys_toList ht) ?_
  intro a ha b hb a' b' haa' hbb' hab
  rw [← hc a ha a'.1 (parseIntKey_ok (hR a a' haa')).1, ← hc b hb b'.1 (parseIntKey_ok (hR b b' hbb')).1]
  exact hab

theorem intMap_ok_sorted {j : Json} (hwf : AllWF j) (hc : CanonKeys j) {direct : Bool} {m : IntMap}
    (h : Decode.intMap j direct = .ok m) : KeyedSorted toString m := by
  rcases intMap_ok_inv h with ⟨_, rfl⟩ | ⟨t, l, rfl, hl, rfl⟩
  · exact List.Pairwise.nil
  · have hs : KeyedSorted toString l := keyed_entries_sorted hwf.obj_wf (fun _ _ h => h.1) (hc t rfl) hl
    rw [dedupKeys_of_nodup l (keyedSorted_nodup hs)]
    exact hs

/-! ## 6. string-keyed maps -/

theorem strMap_ok_inv {j : Json} {direct : Bool} {m : List (String × Option Int)}
    (h : Decode.strMap j direct = .ok m) :
    (j = .null ∧ m = []) ∨
    ∃ t, j = .obj t ∧
      List.Forall₂ (fun (e : String × Json) (r : String × Option Int) =>
        r.1 = e.1 ∧ Decode.big e.2 direct = .ok r.2) t.toList m := by
  unfold Decode.strMap at h
  split at h
  · exact Or.inl ⟨rfl, (D.ok_inj h).symm⟩
  · next t =>
    right
    simp only [] at h
    split at h
    · rw [D.bind_ok_iff] at h
      obtain ⟨_, hthrow, _⟩ := h
      cases hthrow
    rw [objEntries_obj, D.bind_ok_iff] at h
    obtain ⟨es, hes, h⟩ := h
    cases D.ok_inj hes
    refine ⟨t, rfl, ?_⟩
    refine List.Forall₂.imp ?_ (mapM_ok_forall₂ _ _ _ h)
    rintro ⟨k, v⟩ ⟨z, x⟩ hkv
    simp only [] at hkv
    rw [D.bind_ok_iff] at hkv
    obtain ⟨x', hx', hkv⟩ := hkv
    have := D.ok_inj hkv
    simp only [Prod.mk.injEq] at this
    obtain ⟨rfl, rfl⟩ := this
    exact ⟨rfl, hx'⟩
  · cases h

theorem forall₂_map_fst_eq {β γ} {R : String × β → String × γ → Prop} {l : List (String × β)}
    {r : List (String × γ)} (h : List.Forall₂ R l r) (hR : ∀ e x, R e x → x.1 = e.1) :
    r.map (·.1) = l.map (·.1) := by
  induction h with
  | nil => rfl
  | cons hab _ ih => simp only [List.map_cons, ih, hR _ _ hab]

/-- a decoded `map[string]*big.Int` lists its entries in key order, values are what the wire
    carries. -/
theorem strMap_ok_sorted {j : Json} (hwf : AllWF j) {direct : Bool} {m : List (String × Option Int)}
    (h : Decode.strMap j direct = .ok m) :
    KeyedSorted id m ∧ (∀ kv ∈ m, BigOk direct kv.2) ∧
      (∀ t, j = .obj t → m.map (·.1) = t.toList.map (·.1)) := by
  rcases strMap_ok_inv h with ⟨rfl, rfl⟩ | ⟨t, rfl, hl⟩
  · exact ⟨List.Pairwise.nil, by simp, by intro t ht; cases ht⟩
  · refine ⟨?_, ?_, ?_⟩
    · refine forall₂_pairwise hl (Std.TreeMap.Raw.ordered_keys_toList hwf.obj_wf) ?_
      intro a _ b _ a' b' haa' hbb' hab
      show compare a'.1 b'.1 = .lt
      rw [haa'.1, hbb'.1]
      exact hab
    · intro kv hkv
      obtain ⟨e, _, he⟩ := forall₂_mem_right' hl hkv
      exact big_ok_bigOk he.2
    · intro t' ht'
      cases ht'
      exact forall₂_map_fst_eq hl (fun _ _ h => h.1)

/-! ## 7. structures -/

theorem structObj_ok_inv {j : Json} {so : Option Json} (h : Decode.structObj j = .ok so) :
    (j = .null ∧ so = none) ∨ so = some j := by
  unfold Decode.structObj at h
  split at h
  · exact Or.inl ⟨rfl, (D.ok_inj h).symm⟩
  · split at h
    · cases h
    · exact Or.inr (D.ok_inj h).symm
  · cases h

theorem sacc_ok_lt {j : Json} {x : Option SignedAccumulator} (h : Decode.sacc j = .ok x) :
    ∀ s, x = some s → s.pkCounter < 2 ^ 64 := by
  unfold Decode.sacc at h
  rw [D.bind_ok_iff] at h
  obtain ⟨so, hso, h⟩ := h
  rcases structObj_ok_inv hso with ⟨_, rfl⟩ | rfl
  · intro s hs
    rw [← D.ok_inj h] at hs
    cases hs
  · simp only [] at h
    rw [D.bind_ok_iff] at h
    obtain ⟨d, _, h⟩ := h
    rw [D.bind_ok_iff] at h
    obtain ⟨u, hu, h⟩ := h
    intro s hs
    rw [← D.ok_inj h] at hs
    cases hs
    exact uint_ok_lt hu

/-- what the decoder guarantees about a non-revocation proof read from `j`. -/
structure NonrevDecoded (direct : Bool) (j : Json) (nr : NonRevProof) : Prop where
  cr : BigOk direct nr.cr
  cu : BigOk direct nr.cu
  nu : nr.nu = none
  challenge : nr.challenge = none
  responses : Decode.strMap (Decode.optField j "responses") direct = .ok nr.responses
  sacc : ∀ s, nr.sacc = some s → s.pkCounter < 2 ^ 64

theorem nonrev_ok_inv {j : Json} {direct : Bool} {x : Option NonRevProof}
    (h : Decode.nonrev j direct = .ok x) : ∀ nr, x = some nr → NonrevDecoded direct j nr := by
  unfold Decode.nonrev at h
  rw [D.bind_ok_iff] at h
  obtain ⟨so, hso, h⟩ := h
  rcases structObj_ok_inv hso with ⟨_, rfl⟩ | rfl
  · intro s hs
    rw [← D.ok_inj h] at hs
    cases hs
  · simp only [] at h
    rw [D.bind_ok_iff] at h
    obtain ⟨cr, hcr, h⟩ := h
    rw [D.bind_ok_iff] at h
    obtain ⟨cu, hcu, h⟩ := h
    rw [D.bind_ok_iff] at h
    obtain ⟨rs, hrs, h⟩ := h
    rw [D.bind_ok_iff] at h
    obtain ⟨sa, hsa, h⟩ := h
    intro s hs
    rw [← D.ok_inj h] at hs
    cases hs
    exact ⟨big_ok_bigOk hcr, big_ok_bigOk hcu, rfl, rfl, hrs, sacc_ok_lt hsa⟩

theorem rangeProof_ok_inv {j : Json} {direct : Bool} {x : Option RangeProof}
    (h : Decode.rangeProof j direct = .ok x) : ∀ rp, x = some rp → rp.WireOk direct ∧ rp.mResponse = none := by
  unfold Decode.rangeProof at h
  rw [D.bind_ok_iff] at h
  obtain ⟨so, hso, h⟩ := h
  rcases structObj_ok_inv hso with ⟨_, rfl⟩ | rfl
  · intro s hs
    rw [← D.ok_inj h] at hs
    cases hs
  · simp only [] at h
    rw [D.bind_ok_iff] at h
    obtain ⟨cs, hcs, h⟩ := h
    rw [D.bind_ok_iff] at h
    obtain ⟨ds, hds, h⟩ := h
    rw [D.bind_ok_iff] at h
    obtain ⟨vs, hvs, h⟩ := h
    rw [D.bind_ok_iff] at h
    obtain ⟨v5, hv5, h⟩ := h
    rw [D.bind_ok_iff] at h
    obtain ⟨ld, hld, h⟩ := h
    rw [D.bind_ok_iff] at h
    obtain ⟨sg, hsg, h⟩ := h
    rw [D.bind_ok_iff] at h
    obtain ⟨a, ha, h⟩ := h
    rw [D.bind_ok_iff] at h
    obtain ⟨k, hk, h⟩ := h
    intro s hs
    rw [← D.ok_inj h] at hs
    cases hs
    exact ⟨⟨bigList_ok_bigOk hcs, bigList_ok_bigOk hds, bigList_ok_bigOk hvs, big_ok_bigOk hv5,
      big_ok_bigOk hk, uint_ok_lt hld, uint_ok_lt ha, int_ok_int64 hsg⟩, rfl⟩

/-- one member of the `rangeproofs` object read as a map entry. -/
def RPEntry (direct : Bool) (e : String × Json) (r : Int × List (Option RangeProof)) : Prop :=
  Decode.parseIntKey e.1 = .ok r.1 ∧
    ((e.2 = .null ∧ r.2 = []) ∨ ∃ a, e.2 = .arr a ∧ a.toList.mapM (Decode.rangeProof · direct) = .ok r.2)

theorem rangeProofs_ok_inv {j : Json} {direct : Bool} {x : Option RPMap}
    (h : Decode.rangeProofs j direct = .ok x) :
    (j = .null ∧ x = none) ∨
    ∃ t l, j = .obj t ∧ List.Forall₂ (RPEntry direct) t.toList l ∧ x = some (Decode.dedupKeys l) := by
  unfold Decode.rangeProofs at h
  split at h
  · exact Or.inl ⟨rfl, (D.ok_inj h).symm⟩
  · next t =>
    right
    simp only [] at h
    split at h
    · rw [D.bind_ok_iff] at h
      obtain ⟨_, hthrow, _⟩ := h
      cases hthrow
    rw [objEntries_obj, D.bind_ok_iff] at h
    obtain ⟨es, hes, h⟩ := h
    cases D.ok_inj hes
    rw [D.bind_ok_iff] at h
    obtain ⟨l, hl, h⟩ := h
    refine ⟨t, l, rfl, ?_, (D.ok_inj h).symm⟩
    refine List.Forall₂.imp ?_ (mapM_ok_forall₂ _ _ _ hl)
    rintro ⟨k, v⟩ ⟨z, ps⟩ hkv
    simp only [] at hkv
    rw [D.bind_ok_iff] at hkv
    obtain ⟨z', hz', hkv⟩ := hkv
    rw [D.bind_ok_iff] at hkv
    obtain ⟨ps', hps', hkv⟩ := hkv
    have := D.ok_inj hkv
    simp only [Prod.mk.injEq] at this
    obtain ⟨rfl, rfl⟩ := this
    refine ⟨hz', ?_⟩
    split at hps'
    · exact Or.inl ⟨rfl, (D.ok_inj hps').symm⟩
    · next a => exact Or.inr ⟨a, rfl, hps'⟩
    · cases hps'
  · cases h

theorem rpEntry_vals {direct : Bool} {e : String × Json} {r : Int × List (Option RangeProof)}
    (h : RPEntry direct e r) : ∀ rp ∈ r.2, ∀ x, rp = some x → x.WireOk direct ∧ x.mResponse = none := by
  rcases h.2 with ⟨_, hr⟩ | ⟨a, _, hm⟩
  · rw [hr]; intro rp hrp; cases hrp
  · intro rp hrp
    obtain ⟨je, _, hje⟩ := forall₂_mem_right' (mapM_ok_forall₂ _ _ _ hm) hrp
    exact rangeProof_ok_inv hje

theorem rangeProofs_ok_rpMapOk {j : Json} {direct : Bool} {x : Option RPMap}
    (h : Decode.rangeProofs j direct = .ok x) :
    ∀ m, x = some m → RPMapOk direct m ∧ ∀ kv ∈ m, ∀ rp ∈ kv.2, ∀ r, rp = some r → r.mResponse = none := by
  intro m hm
  rcases rangeProofs_ok_inv h with ⟨_, rfl⟩ | ⟨t, l, _, hl, rfl⟩
  · cases hm
  · cases hm
    refine ⟨⟨dedupKeys_nodup l, ?_, ?_⟩, ?_⟩
    · intro kv hkv
      obtain ⟨e, _, he⟩ := forall₂_mem_right' hl (dedupKeys_subset l kv hkv)
      exact (parseIntKey_ok he.1).2
    · intro kv hkv rp hrp r hr
      obtain ⟨e, _, he⟩ := forall₂_mem_right' hl (dedupKeys_subset l kv hkv)
      exact (rpEntry_vals he rp hrp r hr).1
    · intro kv hkv rp hrp r hr
      obtain ⟨e, _, he⟩ := forall₂_mem_right' hl (dedupKeys_subset l kv hkv)
      exact (rpEntry_vals he rp hrp r hr).2

theorem rangeProofs_ok_sorted {j : Json} (hwf : AllWF j) (hc : CanonKeys j) {direct : Bool}
    {x : Option RPMap} (h : Decode.rangeProofs j direct = .ok x) :
    ∀ m, x = some m → KeyedSorted toString m := by
  intro m hm
  rcases rangeProofs_ok_inv h with ⟨_, rfl⟩ | ⟨t, l, rfl, hl, rfl⟩
  · cases hm
  · cases hm
    have hs : KeyedSorted toString l := keyed_entries_sorted hwf.obj_wf (fun _ _ h => h.1) (hc t rfl) hl
    rw [dedupKeys_of_nodup l (keyedSorted_nodup hs)]
    exact hs

/-! ## 8. proofs -/

/-- the members of a decoded disclosure proof are the decodings of the members of the tree. -/
structure ProofDDecoded (direct : Bool) (j : Json) (p : ProofD) : Prop where
  c : Decode.big (Decode.optField j "c") direct = .ok p.c
  a : Decode.big (Decode.optField j "A") direct = .ok p.a
  eResponse : Decode.big (Decode.optField j "e_response") direct = .ok p.eResponse
  vResponse : Decode.big (Decode.optField j "v_response") direct = .ok p.vResponse
  aResponses : Decode.intMap (Decode.optField j "a_responses") direct = .ok p.aResponses
  aDisclosed : Decode.intMap (Decode.optField j "a_disclosed") direct = .ok p.aDisclosed
  nonrev : Decode.nonrev (Decode.optField j "nonrev_proof") direct = .ok p.nonrev
  rangeProofs : Decode.rangeProofs (Decode.optField j "rangeproofs") direct = .ok p.rangeProofs

theorem proofD_ok_inv {j : Json} {direct : Bool} {p : ProofD} (h : Decode.proofD j direct = .ok p) :
    ProofDDecoded direct j p := by
  unfold Decode.proofD at h
  rw [D.bind_ok_iff] at h
  obtain ⟨so, hso, h⟩ := h
  rcases structObj_ok_inv hso with ⟨rfl, rfl⟩ | rfl
  · rw [← D.ok_inj h]
    exact ⟨rfl, rfl, rfl, rfl, rfl, rfl, rfl, rfl⟩
  · simp only [] at h
    rw [D.bind_ok_iff] at h
    obtain ⟨c, hc, h⟩ := h
    rw [D.bind_ok_iff] at h
    obtain ⟨a, ha, h⟩ := h
    rw [D.bind_ok_iff] at h
    obtain ⟨e, he, h⟩ := h
    rw [D.bind_ok_iff] at h
    obtain ⟨v, hv, h⟩ := h
    rw [D.bind_ok_iff] at h
    obtain ⟨ar, har, h⟩ := h
    rw [D.bind_ok_iff] at h
    obtain ⟨ad, had, h⟩ := h
    rw [D.bind_ok_iff] at h
    obtain ⟨nr, hnr, h⟩ := h
    rw [D.bind_ok_iff] at h
    obtain ⟨rps, hrps, h⟩ := h
    rw [← D.ok_inj h]
    exact ⟨hc, ha, he, hv, har, had, hnr, hrps⟩

structure ProofUDecoded (direct : Bool) (j : Json) (p : ProofU) : Prop where
  u : Decode.big (Decode.optField j "U") direct = .ok p.u
  c : Decode.big (Decode.optField j "c") direct = .ok p.c
  vPrimeResponse : Decode.big (Decode.optField j "v_prime_response") direct = .ok p.vPrimeResponse
  sResponse : Decode.big (Decode.optField j "s_response") direct = .ok p.sResponse
  mUserResponses : Decode.intMap (Decode.optField j "m_user_responses") direct = .ok p.mUserResponses

theorem proofU_ok_inv {j : Json} {direct : Bool} {p : ProofU} (h : Decode.proofU j direct = .ok p) :
    ProofUDecoded direct j p := by
  unfold Decode.proofU at h
  rw [D.bind_ok_iff] at h
  obtain ⟨so, hso, h⟩ := h
  rcases structObj_ok_inv hso with ⟨rfl, rfl⟩ | rfl
  · rw [← D.ok_inj h]
    exact ⟨rfl, rfl, rfl, rfl, rfl⟩
  · simp only [] at h
    rw [D.bind_ok_iff] at h
    obtain ⟨u, hu, h⟩ := h
    rw [D.bind_ok_iff] at h
    obtain ⟨c, hc, h⟩ := h
    rw [D.bind_ok_iff] at h
    obtain ⟨vp, hvp, h⟩ := h
    rw [D.bind_ok_iff] at h
    obtain ⟨sr, hsr, h⟩ := h
    rw [D.bind_ok_iff] at h
    obtain ⟨m, hm, h⟩ := h
    rw [← D.ok_inj h]
    exact ⟨hu, hc, hvp, hsr, hm⟩

/-! ## 9. a decoded disclosure proof is one the wire can carry -/

theorem keyedSorted_id_nodup {β} {m : List (String × β)} (h : KeyedSorted id m) : (m.map (·.1)).Nodup := by
  rw [List.Nodup, List.pairwise_map]
  exact h.distinct

theorem nodup_filter_fst {κ β} {m : List (κ × β)} (p : κ × β → Bool) (h : (m.map (·.1)).Nodup) :
    ((m.filter p).map (·.1)).Nodup := (List.filter_sublist.map _).nodup h

theorem nonrevDecoded_wireOk {direct : Bool} {j : Json} (hwf : AllWF j) {nr : NonRevProof}
    (h : NonrevDecoded direct j nr) : nr.WireOk direct := by
  obtain ⟨hs, hv, _⟩ := strMap_ok_sorted (hwf.optField "responses") h.responses
  refine ⟨h.cr, h.cu, ⟨nodup_filter_fst _ (keyedSorted_id_nodup hs), ?_⟩, h.sacc⟩
  intro kv hkv
  exact hv kv (List.mem_filter.mp hkv).1

/-- GOAL 1, second conjunct: whatever the decoder accepts from a well-formed tree is a proof the
    wire can carry — integers non-negative unless `direct`, map keys distinct and within 64 bits
    (`dedupKeys`, `parseIntKey`), counters within 64 bits. -/
theorem decoded_wireOk {j : Json} (hwf : AllWF j) {direct : Bool} {p : ProofD}
    (h : Decode.proofD j direct = .ok p) : p.WireOk direct := by
  have hd := proofD_ok_inv h
  refine ⟨big_ok_bigOk hd.c, big_ok_bigOk hd.a, big_ok_bigOk hd.eResponse, big_ok_bigOk hd.vResponse,
    intMap_ok_intMapOk hd.aResponses, intMap_ok_intMapOk hd.aDisclosed, ?_, ?_⟩
  · intro nr hnr
    exact nonrevDecoded_wireOk (hwf.optField "nonrev_proof") (nonrev_ok_inv hd.nonrev nr hnr)
  · intro m hm
    exact (rangeProofs_ok_rpMapOk hd.rangeProofs m hm).1

/-- the `responses` object of the non-revocation proof (if any) has no member "alpha" — the
    response the prover does not send and `SetExpected` fills in. -/
def NoAlpha (j : Json) : Prop :=
  ∀ t, Decode.optField (Decode.optField j "nonrev_proof") "responses" = .obj t → t.contains "alpha" = false

/-- the tree spells every integer map key canonically and carries no "alpha" response: true of
    everything the canonical encoder (and gabi's own marshaler on the prover side) writes. -/
structure CanonTree (j : Json) : Prop where
  aResponses : CanonKeys (Decode.optField j "a_responses")
  aDisclosed : CanonKeys (Decode.optField j "a_disclosed")
  rangeProofs : CanonKeys (Decode.optField j "rangeproofs")
  noAlpha : NoAlpha j

/-- GOAL 1, first conjunct. The response map of the non-revocation proof is always listed in key
    order; the integer-keyed maps are when their keys are canonically spelled. -/
theorem decoded_mapsSorted {j : Json} (hwf : AllWF j) (hca : CanonKeys (Decode.optField j "a_responses"))
    (hcd : CanonKeys (Decode.optField j "a_disclosed")) (hcr : CanonKeys (Decode.optField j "rangeproofs"))
    {direct : Bool} {p : ProofD} (h : Decode.proofD j direct = .ok p) : p.MapsSorted := by
  have hd := proofD_ok_inv h
  refine ⟨intMap_ok_sorted (hwf.optField _) hca hd.aResponses,
    intMap_ok_sorted (hwf.optField _) hcd hd.aDisclosed, ?_, rangeProofs_ok_sorted (hwf.optField _) hcr hd.rangeProofs⟩
  intro nr hnr
  have hn := nonrev_ok_inv hd.nonrev nr hnr
  exact List.Pairwise.filter _ (strMap_ok_sorted ((hwf.optField "nonrev_proof").optField "responses") hn.responses).1

theorem stripRPMap_of_none {m : RPMap} (h : ∀ kv ∈ m, ∀ rp ∈ kv.2, ∀ r, rp = some r → r.mResponse = none) :
    stripRPMap m = m := by
  unfold stripRPMap
  conv => rhs; rw [← List.map_id m]
  apply List.map_congr_left
  intro kv hkv
  show (kv.1, kv.2.map (Option.map RangeProof.strip)) = kv
  have : kv.2.map (Option.map RangeProof.strip) = kv.2 := by
    conv => rhs; rw [← List.map_id kv.2]
    apply List.map_congr_left
    intro rp hrp
    cases rp with
    | none => rfl
    | some r =>
      have := h kv hkv _ hrp r rfl
      show some r.strip = some r
      unfold RangeProof.strip
      rw [← this]
  rw [this]

/-- the omitted fields of a decoded proof are empty: `nu`, `challenge`, every `mResponse`. -/
theorem decoded_omitted_empty {j : Json} {direct : Bool} {p : ProofD} (h : Decode.proofD j direct = .ok p) :
    (∀ nr, p.nonrev = some nr → nr.nu = none ∧ nr.challenge = none) ∧ p.stripRange = p := by
  have hd := proofD_ok_inv h
  constructor
  · intro nr hnr
    have hn := nonrev_ok_inv hd.nonrev nr hnr
    exact ⟨hn.nu, hn.challenge⟩
  · have hrp := rangeProofs_ok_rpMapOk hd.rangeProofs
    obtain ⟨c, a, e, v, ar, ad, nr, rps⟩ := p
    cases rps with
    | none => rfl
    | some m =>
      simp only [ProofD.stripRange, Option.map_some]
      rw [stripRPMap_of_none (hrp m rfl).2]

theorem NonRevProof.strip_eq_self {nr : NonRevProof} (h1 : nr.nu = none) (h2 : nr.challenge = none)
    (h3 : ∀ kv ∈ nr.responses, kv.1 ≠ "alpha") : nr.strip = nr := by
  have : nr.responses.filter (·.1 ≠ "alpha") = nr.responses := by
    rw [List.filter_eq_self]
    intro kv hkv
    simpa using h3 kv hkv
  obtain ⟨cr, cu, nu, ch, rs, sa⟩ := nr
  simp only [] at h1 h2 this
  subst h1 h2
  simp only [NonRevProof.strip, this]

/-- GOAL 1, third conjunct: a decoded proof has no omitted-field content, provided the tree did
    not smuggle in an "alpha" response. -/
theorem decoded_strip {j : Json} (hwf : AllWF j) (hna : NoAlpha j) {direct : Bool} {p : ProofD}
    (h : Decode.proofD j direct = .ok p) : p.strip = p := by
  have hd := proofD_ok_inv h
  obtain ⟨hnu, hsr⟩ := decoded_omitted_empty h
  rw [ProofD.strip_eq]
  have : p.stripNonrev = p := by
    have hnri := nonrev_ok_inv hd.nonrev
    obtain ⟨c, a, e, v, ar, ad, onr, rps⟩ := p
    cases onr with
    | none => rfl
    | some nr =>
      simp only [ProofD.stripNonrev, Option.map_some]
      have hn := hnri nr rfl
      have hwf' := (hwf.optField "nonrev_proof").optField "responses"
      have hkeys := (strMap_ok_sorted hwf' hn.responses).2.2
      rw [NonRevProof.strip_eq_self (hnu nr rfl).1 (hnu nr rfl).2]
      intro kv hkv heq
      rcases strMap_ok_inv hn.responses with ⟨_, hr⟩ | ⟨t, ht, _⟩
      · rw [hr] at hkv; cases hkv
      · have hmem : kv.1 ∈ t.toList.map (·.1) := by
          rw [← hkeys t ht]; exact List.mem_map_of_mem hkv
        rw [ht] at hwf'
        rw [show (fun x : String × Json => x.1) = Prod.fst from rfl, Std.TreeMap.Raw.map_fst_toList_eq_keys,
          Std.TreeMap.Raw.mem_keys hwf'.obj_wf, Std.TreeMap.Raw.mem_iff_contains, heq, hna t ht] at hmem
        cases hmem
  rw [this, hsr]

/-- GOAL 1: everything the decoder returns for a well-formed, canonically spelled tree meets the
    hypotheses of `decode_encode_sorted`. -/
theorem decoded_meets_hypotheses {j : Json} (hwf : AllWF j) (hc : CanonTree j) {direct : Bool} {p : ProofD}
    (h : Decode.proofD j direct = .ok p) : p.MapsSorted ∧ p.WireOk direct ∧ p.strip = p :=
  ⟨decoded_mapsSorted hwf hc.aResponses hc.aDisclosed hc.rangeProofs h, decoded_wireOk hwf h,
    decoded_strip hwf hc.noAlpha h⟩

/-! ## 10. the re-read proof is a fixed point -/

theorem IntMapOk.perm {direct : Bool} {m m' : IntMap} (h : IntMapOk direct m) (hp : m'.Perm m) :
    IntMapOk direct m' :=
  ⟨perm_map_fst_nodup hp h.nodup, fun kv hkv => h.keys kv (hp.subset hkv), fun kv hkv => h.vals kv (hp.subset hkv)⟩

theorem IntMapOk.sortByKey {direct : Bool} {m : IntMap} (h : IntMapOk direct m) :
    IntMapOk direct (sortByKey toString m) := h.perm (sortByKey_perm (keyedDistinct_toString h.nodup))

theorem NonRevProof.reread_responses_filter {direct : Bool} {nr : NonRevProof} (h : nr.WireOk direct) :
    nr.reread.responses.filter (·.1 ≠ "alpha") = nr.reread.responses := by
  rw [List.filter_eq_self]
  intro kv hkv
  have hp := sortByKey_perm (keyedDistinct_id h.responses.nodup)
  have : kv ∈ nr.responses.filter (·.1 ≠ "alpha") := hp.subset hkv
  exact (List.mem_filter.mp this).2

theorem NonRevProof.reread_wireOk {direct : Bool} {nr : NonRevProof} (h : nr.WireOk direct) :
    nr.reread.WireOk direct := by
  have hp := sortByKey_perm (keyedDistinct_id h.responses.nodup)
  refine ⟨h.cr, h.cu, ?_, h.sacc⟩
  rw [NonRevProof.reread_responses_filter h]
  exact ⟨perm_map_fst_nodup hp h.responses.nodup, fun kv hkv => h.responses.vals kv (hp.subset hkv)⟩

theorem NonRevProof.reread_strip {direct : Bool} {nr : NonRevProof} (h : nr.WireOk direct) :
    nr.reread.strip = nr.reread := by
  apply NonRevProof.strip_eq_self rfl rfl
  intro kv hkv
  rw [← NonRevProof.reread_responses_filter h] at hkv
  simpa using (List.mem_filter.mp hkv).2

theorem RangeProof.strip_wireOk {direct : Bool} {rp : RangeProof} (h : rp.WireOk direct) :
    rp.strip.WireOk direct := ⟨h.cs, h.ds, h.vs, h.v5, h.k, h.ld, h.a, h.sign⟩

theorem stripRPMap_keys (m : RPMap) : (stripRPMap m).map (·.1) = m.map (·.1) := by
  unfold stripRPMap
  rw [List.map_map]
  rfl

theorem rereadRPMap_ok {direct : Bool} {m : RPMap} (h : RPMapOk direct m) : RPMapOk direct (rereadRPMap m) := by
  have hp := sortByKey_perm (keyedDistinct_toString h.nodup)
  unfold rereadRPMap
  refine ⟨?_, ?_, ?_⟩
  · rw [stripRPMap_keys]; exact perm_map_fst_nodup hp h.nodup
  · intro kv hkv
    obtain ⟨x, hx, rfl⟩ := List.mem_map.mp hkv
    exact h.keys x (hp.subset hx)
  · intro kv hkv rp hrp r hr
    obtain ⟨x, hx, rfl⟩ := List.mem_map.mp hkv
    obtain ⟨y, hy, rfl⟩ := List.mem_map.mp hrp
    cases y with
    | none => cases hr
    | some r' =>
      cases hr
      exact RangeProof.strip_wireOk (h.vals x (hp.subset hx) _ hy r' rfl)

theorem rereadRPMap_sorted {direct : Bool} {m : RPMap} (h : RPMapOk direct m) :
    KeyedSorted toString (rereadRPMap m) := by
  unfold rereadRPMap stripRPMap KeyedSorted
  rw [List.pairwise_map]
  exact sortByKey_sorted toString (keyedDistinct_toString h.nodup)

theorem rereadRPMap_strip (m : RPMap) : stripRPMap (rereadRPMap m) = rereadRPMap m := stripRPMap_idem _

/-- re-reading turns a proof the wire can carry into one that meets all three hypotheses. -/
theorem ProofD.reread_meets_hypotheses {direct : Bool} {p : ProofD} (h : p.WireOk direct) :
    p.reread.MapsSorted ∧ p.reread.WireOk direct ∧ p.reread.strip = p.reread := by
  refine ⟨⟨sortByKey_sorted toString (keyedDistinct_toString h.aResponses.nodup),
      sortByKey_sorted toString (keyedDistinct_toString h.aDisclosed.nodup), ?_, ?_⟩,
    ⟨h.c, h.a, h.eResponse, h.vResponse, h.aResponses.sortByKey, h.aDisclosed.sortByKey, ?_, ?_⟩, ?_⟩
  · intro nr' hnr'
    cases hnr : p.nonrev with
    | none => simp [ProofD.reread, hnr] at hnr'
    | some nr =>
      have : nr' = nr.reread := by simpa [ProofD.reread, hnr] using hnr'.symm
      subst this
      rw [NonRevProof.reread_responses_filter (h.nonrev nr hnr)]
      exact sortByKey_sorted id (keyedDistinct_id (h.nonrev nr hnr).responses.nodup)
  · intro m' hm'
    cases hm : p.rangeProofs with
    | none => simp [ProofD.reread, hm] at hm'
    | some m =>
      have : m' = rereadRPMap m := by simpa [ProofD.reread, hm] using hm'.symm
      subst this
      exact rereadRPMap_sorted (h.rangeProofs m hm)
  · intro nr' hnr'
    cases hnr : p.nonrev with
    | none => simp [ProofD.reread, hnr] at hnr'
    | some nr =>
      have : nr' = nr.reread := by simpa [ProofD.reread, hnr] using hnr'.symm
      subst this
      exact NonRevProof.reread_wireOk (h.nonrev nr hnr)
  · intro m' hm'
    cases hm : p.rangeProofs with
    | none => simp [ProofD.reread, hm] at hm'
    | some m =>
      have : m' = rereadRPMap m := by simpa [ProofD.reread, hm] using hm'.symm
      subst this
      exact rereadRPMap_ok (h.rangeProofs m hm)
  · unfold ProofD.strip
    have h1 : p.reread.nonrev.map NonRevProof.strip = p.reread.nonrev := by
      cases hnr : p.nonrev with
      | none => simp [ProofD.reread, hnr]
      | some nr => simp [ProofD.reread, hnr, NonRevProof.reread_strip (h.nonrev nr hnr)]
    have h2 : p.reread.rangeProofs.map stripRPMap = p.reread.rangeProofs := by
      cases hm : p.rangeProofs with
      | none => simp [ProofD.reread, hm]
      | some m => simp [ProofD.reread, hm, rereadRPMap_strip]
    rw [h1, h2]

/-- … hence it decodes to itself: the round trip is stationary from the first re-read on. -/
theorem ProofD.reread_fixed {direct : Bool} {p : ProofD} (h : p.WireOk direct) :
    Decode.proofD p.reread.toTree direct = .ok p.reread := by
  obtain ⟨hs, hw, hst⟩ := ProofD.reread_meets_hypotheses h
  rw [decode_encode_proofD direct _ hw, ProofD.reread_eq_strip _ hs, hst]

/-! ## 11. issuance commitment proofs -/

theorem decoded_wireOk_proofU {j : Json} {direct : Bool} {p : ProofU}
    (h : Decode.proofU j direct = .ok p) : p.WireOk direct := by
  have hd := proofU_ok_inv h
  exact ⟨big_ok_bigOk hd.u, big_ok_bigOk hd.c, big_ok_bigOk hd.vPrimeResponse, big_ok_bigOk hd.sResponse,
    intMap_ok_intMapOk hd.mUserResponses⟩

theorem decoded_sorted_proofU {j : Json} (hwf : AllWF j) (hc : CanonKeys (Decode.optField j "m_user_responses"))
    {direct : Bool} {p : ProofU} (h : Decode.proofU j direct = .ok p) :
    KeyedSorted toString p.mUserResponses :=
  intMap_ok_sorted (hwf.optField _) hc (proofU_ok_inv h).mUserResponses

theorem ProofU.reread_wireOk {direct : Bool} {p : ProofU} (h : p.WireOk direct) : p.reread.WireOk direct :=
  ⟨h.u, h.c, h.vPrimeResponse, h.sResponse, h.mUserResponses.sortByKey⟩

theorem ProofU.reread_sorted {direct : Bool} {p : ProofU} (h : p.WireOk direct) :
    KeyedSorted toString p.reread.mUserResponses :=
  sortByKey_sorted toString (keyedDistinct_toString h.mUserResponses.nodup)

theorem ProofU.reread_fixed {direct : Bool} {p : ProofU} (h : p.WireOk direct) :
    Decode.proofU p.reread.toTree direct = .ok p.reread := by
  rw [decode_encode_proofU direct _ (ProofU.reread_wireOk h), ProofU.reread_eq_self _ (ProofU.reread_sorted h)]

/-! ## 12. proof lists -/

/-- how `ProofList.UnmarshalJSON` reads one element. -/
def ListElem (direct : Bool) (e : Json) (pr : Proof) : Prop :=
  (∃ d, Decode.proofD e direct = .ok d ∧ d.a.isSome = true ∧ pr = .d d) ∨
  (∃ u, Decode.proofU e direct = .ok u ∧ u.u.isSome = true ∧ pr = .u u)

theorem proofList_ok_inv {j : Json} {direct : Bool} {pl : List Proof}
    (h : Decode.proofList j direct = .ok pl) :
    (j = .null ∧ pl = []) ∨ ∃ a, j = .arr a ∧ List.Forall₂ (ListElem direct) a.toList pl := by
  unfold Decode.proofList at h
  split at h
  · exact Or.inl ⟨rfl, (D.ok_inj h).symm⟩
  · next a =>
    right
    refine ⟨a, rfl, ?_⟩
    refine List.Forall₂.imp ?_ (mapM_ok_forall₂ _ _ _ h)
    intro e pr he
    rw [D.bind_ok_iff] at he
    obtain ⟨d, hd, he⟩ := he
    split at he
    · next ha => exact Or.inl ⟨d, hd, ha, (D.ok_inj he).symm⟩
    · rw [D.bind_ok_iff] at he
      obtain ⟨u, hu, he⟩ := he
      split at he
      · next hu' => exact Or.inr ⟨u, hu, hu', (D.ok_inj he).symm⟩
      · cases he
  · cases h

/-- every element of the array is canonically spelled, whichever kind of proof it is read as. -/
def CanonListTree (j : Json) : Prop :=
  ∀ a, j = .arr a → ∀ e ∈ a.toList, CanonTree e ∧ CanonKeys (Decode.optField e "m_user_responses")

theorem decoded_list_wireOk {j : Json} (hwf : AllWF j) {direct : Bool} {pl : List Proof}
    (h : Decode.proofList j direct = .ok pl) : ∀ pr ∈ pl, pr.WireOk direct := by
  intro pr hpr
  rcases proofList_ok_inv h with ⟨_, rfl⟩ | ⟨a, rfl, hl⟩
  · cases hpr
  · obtain ⟨e, he, hr⟩ := forall₂_mem_right' hl hpr
    rcases hr with ⟨d, hd, ha, rfl⟩ | ⟨u, hu, hu', rfl⟩
    · exact ⟨decoded_wireOk (hwf.arr_mem e he) hd, ha⟩
    · exact ⟨decoded_wireOk_proofU hu, hu'⟩

theorem decoded_list_sorted {j : Json} (hwf : AllWF j) (hc : CanonListTree j) {direct : Bool} {pl : List Proof}
    (h : Decode.proofList j direct = .ok pl) : ∀ pr ∈ pl, pr.MapsSorted ∧ pr.strip = pr := by
  intro pr hpr
  rcases proofList_ok_inv h with ⟨_, rfl⟩ | ⟨a, rfl, hl⟩
  · cases hpr
  · obtain ⟨e, he, hr⟩ := forall₂_mem_right' hl hpr
    have hce := hc a rfl e he
    have hwe := hwf.arr_mem e he
    rcases hr with ⟨d, hd, ha, rfl⟩ | ⟨u, hu, hu', rfl⟩
    · exact ⟨decoded_mapsSorted hwe hce.1.aResponses hce.1.aDisclosed hce.1.rangeProofs hd,
        congrArg Proof.d (decoded_strip hwe hce.1.noAlpha hd)⟩
    · exact ⟨decoded_sorted_proofU hwe hce.2 hu, rfl⟩

theorem Proof.reread_meets_hypotheses {direct : Bool} {pr : Proof} (h : pr.WireOk direct) :
    pr.reread.MapsSorted ∧ pr.reread.WireOk direct ∧ pr.reread.strip = pr.reread := by
  cases pr with
  | d p =>
    obtain ⟨hs, hw, hst⟩ := ProofD.reread_meets_hypotheses h.1
    exact ⟨hs, ⟨hw, h.2⟩, congrArg Proof.d hst⟩
  | u p => exact ⟨ProofU.reread_sorted h.1, ⟨ProofU.reread_wireOk h.1, h.2⟩, rfl⟩

theorem proofList_reread_fixed {direct : Bool} {pl : List Proof} (h : ∀ pr ∈ pl, pr.WireOk direct) :
    Decode.proofList (proofListToTree (pl.map Proof.reread)) direct = .ok (pl.map Proof.reread) := by
  rw [decode_encode_proofList direct _ (by
    intro pr hpr
    obtain ⟨x, hx, rfl⟩ := List.mem_map.mp hpr
    exact (Proof.reread_meets_hypotheses (h x hx)).2.1)]
  congr 1
  rw [List.map_map]
  apply List.map_congr_left
  intro pr hpr
  obtain ⟨hs, _, hst⟩ := Proof.reread_meets_hypotheses (h pr hpr)
  show pr.reread.reread = pr.reread
  rw [Proof.reread_eq_strip _ hs, hst]

/-! ## 13. canonical trees are well-formed and canonically spelled -/

theorem allWF_mkObj {l : List (String × Json)} (hd : KeysDistinct l) (h : ∀ kv ∈ l, AllWF kv.2) :
    AllWF (Json.mkObj l) := by
  show AllWF (.obj (Std.TreeMap.Raw.ofList l compare))
  refine AllWF.obj _ Std.TreeMap.Raw.WF.ofList ?_
  intro kv hkv
  exact h kv ((mem_sortedEntries hd kv).mp hkv)

theorem allWF_big (x : Option Int) : AllWF (Enc.big x) := by
  cases x with
  | none => exact AllWF.null
  | some z =>
    refine allWF_mkObj (keysDistinct_singleton _) ?_
    intro kv hkv
    rw [List.mem_singleton.mp hkv]
    exact AllWF.str _

theorem allWF_bytes (x : Option (List UInt8)) : AllWF (Enc.bytes x) := by
  cases x with
  | none => exact AllWF.null
  | some z =>
    refine allWF_mkObj (keysDistinct_singleton _) ?_
    intro kv hkv
    rw [List.mem_singleton.mp hkv]
    exact AllWF.str _

theorem allWF_bigList (l : List (Option Int)) : AllWF (Enc.bigList l) := by
  refine AllWF.arr _ ?_
  intro x hx
  simp only [List.mem_map] at hx
  obtain ⟨y, _, rfl⟩ := hx
  exact allWF_big y

theorem allWF_intMap {m : IntMap} (h : (m.map (·.1)).Nodup) : AllWF (Enc.intMap m) := by
  refine allWF_mkObj ((keyedDistinct_toString h).map _) ?_
  intro kv hkv
  obtain ⟨x, _, rfl⟩ := List.mem_map.mp hkv
  exact allWF_big _

theorem allWF_strMap {m : List (String × Option Int)} (h : (m.map (·.1)).Nodup) : AllWF (Enc.strMap m) := by
  refine allWF_mkObj ((keyedDistinct_id h).map (fun kv => Enc.big kv.2)) ?_
  intro kv hkv
  obtain ⟨x, _, rfl⟩ := List.mem_map.mp hkv
  exact allWF_big _

theorem allWF_sacc (x : Option SignedAccumulator) : AllWF (Enc.sacc x) := by
  cases x with
  | none => exact AllWF.null
  | some s =>
    refine allWF_mkObj (by simp [KeysDistinct]) ?_
    intro kv hkv
    simp only [List.mem_cons, List.not_mem_nil, or_false] at hkv
    rcases hkv with rfl | rfl
    · exact allWF_bytes _
    · exact AllWF.num _

theorem allWF_nonrev {direct : Bool} (x : Option NonRevProof) (h : ∀ nr, x = some nr → nr.WireOk direct) :
    AllWF (Enc.nonrev x) := by
  cases x with
  | none => exact AllWF.null
  | some nr =>
    refine allWF_mkObj (by simp [KeysDistinct]) ?_
    intro kv hkv
    simp only [List.mem_cons, List.not_mem_nil, or_false] at hkv
    rcases hkv with rfl | rfl | rfl | rfl
    · exact allWF_big _
    · exact allWF_big _
    · exact allWF_strMap (h nr rfl).responses.nodup
    · exact allWF_sacc _

theorem allWF_rangeProof (x : Option RangeProof) : AllWF (Enc.rangeProof x) := by
  cases x with
  | none => exact AllWF.null
  | some rp =>
    refine allWF_mkObj (by simp [KeysDistinct]) ?_
    intro kv hkv
    simp only [List.mem_cons, List.not_mem_nil, or_false] at hkv
    rcases hkv with rfl | rfl | rfl | rfl | rfl | rfl | rfl | rfl
    · exact allWF_bigList _
    · exact allWF_bigList _
    · exact allWF_bigList _
    · exact allWF_big _
    · exact AllWF.num _
    · exact AllWF.num _
    · exact AllWF.num _
    · exact allWF_big _

theorem allWF_rangeProofs (x : Option RPMap) (h : ∀ m, x = some m → (m.map (·.1)).Nodup) :
    AllWF (Enc.rangeProofs x) := by
  cases x with
  | none => exact AllWF.null
  | some m =>
    refine allWF_mkObj ((keyedDistinct_toString (h m rfl)).map _) ?_
    intro kv hkv
    obtain ⟨x, _, rfl⟩ := List.mem_map.mp hkv
    refine AllWF.arr _ ?_
    intro y hy
    simp only [List.mem_map] at hy
    obtain ⟨rp, _, rfl⟩ := hy
    exact allWF_rangeProof rp

/-- the canonical tree of a proof the wire can carry is well-formed … -/
theorem ProofD.toTree_allWF {direct : Bool} {p : ProofD} (h : p.WireOk direct) : AllWF p.toTree := by
  refine allWF_mkObj (by simp [KeysDistinct]) ?_
  intro kv hkv
  simp only [List.mem_cons, List.not_mem_nil, or_false] at hkv
  rcases hkv with rfl | rfl | rfl | rfl | rfl | rfl | rfl | rfl
  · exact allWF_big _
  · exact allWF_big _
  · exact allWF_big _
  · exact allWF_big _
  · exact allWF_intMap h.aResponses.nodup
  · exact allWF_intMap h.aDisclosed.nodup
  · exact allWF_nonrev _ h.nonrev
  · exact allWF_rangeProofs _ (fun m hm => (h.rangeProofs m hm).nodup)

theorem canonKeys_mkObj_intKeys {β} {m : List (Int × β)} (h : (m.map (·.1)).Nodup) (f : Int × β → Json) :
    CanonKeys (Json.mkObj (m.map fun kv => (toString kv.1, f kv))) := by
  intro t ht kv hkv z hz
  have ht' : t = Std.TreeMap.Raw.ofList (m.map fun kv => (toString kv.1, f kv)) compare := by
    have : Json.obj (Std.TreeMap.Raw.ofList (m.map fun kv => (toString kv.1, f kv)) compare) = Json.obj t := ht
    exact (Json.obj.inj this).symm
  subst ht'
  have := (mem_sortedEntries ((keyedDistinct_toString h).map f) kv).mp hkv
  obtain ⟨x, _, rfl⟩ := List.mem_map.mp this
  simp only [] at hz ⊢
  rw [toString_int_toInt?] at hz
  rw [Option.some.inj hz]

theorem canonKeys_null : CanonKeys .null := by
  intro t ht; cases ht

theorem canonKeys_intMap {m : IntMap} (h : (m.map (·.1)).Nodup) : CanonKeys (Enc.intMap m) :=
  canonKeys_mkObj_intKeys h _

theorem canonKeys_rangeProofs (x : Option RPMap) (h : ∀ m, x = some m → (m.map (·.1)).Nodup) :
    CanonKeys (Enc.rangeProofs x) := by
  cases x with
  | none => exact canonKeys_null
  | some m => exact canonKeys_mkObj_intKeys (h m rfl) _

theorem noAlpha_strMap_filter (rs : List (String × Option Int)) (t : Std.TreeMap.Raw String Json compare)
    (ht : Enc.strMap (rs.filter (·.1 ≠ "alpha")) = .obj t) : t.contains "alpha" = false := by
  have ht' : t = Std.TreeMap.Raw.ofList ((rs.filter (·.1 ≠ "alpha")).map fun kv => (kv.1, Enc.big kv.2)) compare :=
    (Json.obj.inj ht).symm
  subst ht'
  rw [Std.TreeMap.Raw.contains_ofList, List.map_map]
  rw [Bool.eq_false_iff]
  intro hc
  rw [List.contains_iff_mem] at hc
  obtain ⟨x, hx, hxa⟩ := List.mem_map.mp hc
  have := (List.mem_filter.mp hx).2
  simp only [Function.comp] at hxa
  simp [hxa] at this

/-- … and canonically spelled, so that everything above applies to it. -/
theorem ProofD.toTree_canon {direct : Bool} {p : ProofD} (h : p.WireOk direct) : CanonTree p.toTree := by
  have hd : KeysDistinct [("c", Enc.big p.c), ("A", Enc.big p.a), ("e_response", Enc.big p.eResponse),
    ("v_response", Enc.big p.vResponse), ("a_responses", Enc.intMap p.aResponses),
    ("a_disclosed", Enc.intMap p.aDisclosed), ("nonrev_proof", Enc.nonrev p.nonrev),
    ("rangeproofs", Enc.rangeProofs p.rangeProofs)] := by simp [KeysDistinct]
  refine ⟨?_, ?_, ?_, ?_⟩
  · unfold ProofD.toTree
    rw [optField_mkObj_mem hd (v := Enc.intMap p.aResponses) (by simp)]
    exact canonKeys_intMap h.aResponses.nodup
  · unfold ProofD.toTree
    rw [optField_mkObj_mem hd (v := Enc.intMap p.aDisclosed) (by simp)]
    exact canonKeys_intMap h.aDisclosed.nodup
  · unfold ProofD.toTree
    rw [optField_mkObj_mem hd (v := Enc.rangeProofs p.rangeProofs) (by simp)]
    exact canonKeys_rangeProofs _ (fun m hm => (h.rangeProofs m hm).nodup)
  · unfold NoAlpha ProofD.toTree
    rw [optField_mkObj_mem hd (v := Enc.nonrev p.nonrev) (by simp)]
    intro t ht
    cases hnr : p.nonrev with
    | none => rw [hnr] at ht; cases ht
    | some nr =>
      rw [hnr] at ht
      have hd' : KeysDistinct [("C_r", Enc.big nr.cr), ("C_u", Enc.big nr.cu),
        ("responses", Enc.strMap (nr.responses.filter (·.1 ≠ "alpha"))), ("sacc", Enc.sacc nr.sacc)] := by
        simp [KeysDistinct]
      unfold Enc.nonrev at ht
      simp only [] at ht
      rw [optField_mkObj_mem hd' (v := Enc.strMap (nr.responses.filter (·.1 ≠ "alpha"))) (by simp)] at ht
      exact noAlpha_strMap_filter _ t ht

/-! ## 14. iterating the round trip -/

/-- one trip over the wire: encode canonically, decode (an earlier failure stays a failure). -/
def rewire (direct : Bool) (r : Decode.D ProofD) : Decode.D ProofD :=
  r >>= fun p => Decode.proofD p.toTree direct

theorem rewire_ok (direct : Bool) (p : ProofD) : rewire direct (.ok p) = Decode.proofD p.toTree direct := rfl

theorem rewire_iterate_of_fixed {direct : Bool} {p : ProofD} (h : Decode.proofD p.toTree direct = .ok p)
    (n : Nat) : (rewire direct)^[n] (.ok p) = .ok p :=
  Function.iterate_fixed (by rw [rewire_ok, h]) n

/-- in general the sequence is stationary from the first re-read on. -/
theorem rewire_iterate_succ {direct : Bool} {p : ProofD} (h : p.WireOk direct) (n : Nat) :
    (rewire direct)^[n + 1] (.ok p) = .ok p.reread := by
  rw [Function.iterate_succ, Function.comp, rewire_ok, decode_encode_proofD direct p h]
  exact rewire_iterate_of_fixed (ProofD.reread_fixed h) n

def rewireList (direct : Bool) (r : Decode.D (List Proof)) : Decode.D (List Proof) :=
  r >>= fun pl => Decode.proofList (proofListToTree pl) direct

theorem rewireList_iterate_of_fixed {direct : Bool} {pl : List Proof}
    (h : Decode.proofList (proofListToTree pl) direct = .ok pl) (n : Nat) :
    (rewireList direct)^[n] (.ok pl) = .ok pl :=
  Function.iterate_fixed (by show Decode.proofList (proofListToTree pl) direct = .ok pl; exact h) n

theorem rewireList_iterate_succ {direct : Bool} {pl : List Proof} (h : ∀ pr ∈ pl, pr.WireOk direct) (n : Nat) :
    (rewireList direct)^[n + 1] (.ok pl) = .ok (pl.map Proof.reread) := by
  rw [Function.iterate_succ, Function.comp]
  show (rewireList direct)^[n] (Decode.proofList (proofListToTree pl) direct) = _
  rw [decode_encode_proofList direct pl h]
  exact rewireList_iterate_of_fixed (proofList_reread_fixed h) n

/-! ## 15. re-reading only permutes: the verdict without `MapsSorted` -/

theorem ProofD.strip_keysNodup {direct : Bool} {p : ProofD} (h : p.WireOk direct) : p.strip.KeysNodup := by
  refine ⟨h.aResponses.nodup, ?_, ?_⟩
  · intro nr' hnr'
    cases hnr : p.nonrev with
    | none => simp [ProofD.strip, hnr] at hnr'
    | some nr =>
      have : nr' = nr.strip := by simpa [ProofD.strip, hnr] using hnr'.symm
      subst this
      show ((List.filter _ (nr.responses.filter (·.1 ≠ "alpha"))).map (·.1)).Nodup
      rw [List.filter_filter]
      simp only [Bool.and_self]
      exact (h.nonrev nr hnr).responses.nodup
  · intro m' hm'
    cases hm : p.rangeProofs with
    | none => simp [ProofD.strip, hm] at hm'
    | some m =>
      have : m' = stripRPMap m := by simpa [ProofD.strip, hm] using hm'.symm
      subst this
      rw [stripRPMap_keys]
      exact (h.rangeProofs m hm).nodup

/-- the re-read proof is the stripped proof with every map permuted (into key-text order). -/
theorem ProofD.strip_permEq_reread {direct : Bool} {p : ProofD} (h : p.WireOk direct) :
    p.strip.PermEq p.reread := by
  refine ⟨rfl, rfl, rfl, rfl, (sortByKey_perm (keyedDistinct_toString h.aResponses.nodup)).symm,
    (sortByKey_perm (keyedDistinct_toString h.aDisclosed.nodup)).symm, ?_, ?_⟩
  · cases hnr : p.nonrev with
    | none => simp [ProofD.strip, ProofD.reread, hnr, OptRel]
    | some nr =>
      simp only [ProofD.strip, ProofD.reread, hnr, Option.map_some, OptRel]
      exact ⟨rfl, rfl, rfl, rfl, (sortByKey_perm (keyedDistinct_id (h.nonrev nr hnr).responses.nodup)).symm, rfl⟩
  · cases hm : p.rangeProofs with
    | none => simp [ProofD.strip, ProofD.reread, hm, OptRel]
    | some m =>
      simp only [ProofD.strip, ProofD.reread, hm, Option.map_some, OptRel]
      unfold rereadRPMap stripRPMap
      exact ((sortByKey_perm (keyedDistinct_toString (h.rangeProofs m hm).nodup)).map _).symm

/-- a re-read proof verifies as the original did — without assuming that the maps of the original
    were listed in key order (the order of the Go map iteration is irrelevant). -/
theorem ProofD.reread_verifyWith {direct : Bool} {p : ProofD} (h : p.WireOk direct) (o : SigOracle)
    (kid : String) (pk : PublicKey) (ctx nonce : Int) (issig : Bool) (i1 i2 : Int) :
    p.reread.verifyWith o kid pk ctx nonce issig i1 i2 = p.verifyWith o kid pk ctx nonce issig i1 i2 := by
  rw [← ProofD.verifyWith_perm o kid pk (ProofD.strip_permEq_reread h) (ProofD.strip_keysNodup h),
    ProofD.omitted_fields_restored]

theorem ProofD.reread_revChoices {direct : Bool} {p : ProofD} (h : p.WireOk direct) :
    p.reread.revChoices.Perm p.revChoices := by
  rw [← ProofD.revChoices_strip p]
  exact (ProofD.revChoices_perm (ProofD.strip_permEq_reread h)).symm

theorem Proof.strip_permRel_reread {direct : Bool} {pr : Proof} (h : pr.WireOk direct) :
    ProofPermRel0 pr.strip pr.reread := by
  cases pr with
  | d p => exact ⟨ProofD.strip_permEq_reread h.1, ProofD.strip_keysNodup h.1⟩
  | u p =>
    exact ⟨rfl, rfl, rfl, rfl, (sortByKey_perm (keyedDistinct_toString h.1.mUserResponses.nodup)).symm⟩

theorem forall₂_map_map_of_mem {α β γ} {R : β → γ → Prop} (f : α → β) (g : α → γ) (l : List α)
    (h : ∀ a ∈ l, R (f a) (g a)) : List.Forall₂ R (l.map f) (l.map g) := by
  induction l with
  | nil => exact List.Forall₂.nil
  | cons a l ih =>
    exact List.Forall₂.cons (h a (List.mem_cons_self ..)) (ih (fun b hb => h b (List.mem_cons_of_mem _ hb)))

/-- the same for a whole proof list. -/
theorem proofList_reread_verify {direct : Bool} {pl : List Proof} (h : ∀ pr ∈ pl, pr.WireOk direct)
    (o : SigOracle) (keys : List (String × PublicKey)) (ctx nonce : Int) (issig : Bool)
    (kss : List String) (choices : List (Int × Int)) :
    proofListVerifyWith o keys (pl.map Proof.reread) ctx nonce issig kss choices =
      proofListVerifyWith o keys pl ctx nonce issig kss choices := by
  rw [← proofListVerifyWith_perm o keys (forall₂_map_map_of_mem Proof.strip Proof.reread pl
    (fun pr hpr => Proof.strip_permRel_reread (h pr hpr))), proofList_verify_strip]

/-! ## 16. counterexamples: what the decoder accepts beyond the canonical spelling -/

/-- a tree with an "alpha" response (which gabi's prover never sends). -/
def cexAlphaTree : Json :=
  Json.mkObj [("nonrev_proof", Json.mkObj [("responses", Enc.strMap [("alpha", some 1)])])]

def cexAlphaProof : ProofD :=
  { c := none, a := none, eResponse := none, vResponse := none, aResponses := [], aDisclosed := [],
    nonrev := some { cr := none, cu := none, responses := [("alpha", some 1)], sacc := none },
    rangeProofs := none }

theorem cexAlphaTree_allWF : AllWF cexAlphaTree := by
  refine allWF_mkObj (keysDistinct_singleton _) ?_
  intro kv hkv
  rw [List.mem_singleton.mp hkv]
  refine allWF_mkObj (keysDistinct_singleton _) ?_
  intro kv hkv
  rw [List.mem_singleton.mp hkv]
  exact allWF_strMap (by decide)

theorem cexAlphaTree_decodes (direct : Bool) : Decode.proofD cexAlphaTree direct = .ok cexAlphaProof := by
  have hd : KeysDistinct [("nonrev_proof", Json.mkObj [("responses", Enc.strMap [("alpha", some 1)])])] :=
    keysDistinct_singleton _
  have hn : NotLeaf [("nonrev_proof", Json.mkObj [("responses", Enc.strMap [("alpha", some 1)])])] := by
    simp [NotLeaf]
  have hd' : KeysDistinct [("responses", Enc.strMap [("alpha", some 1)])] := keysDistinct_singleton _
  have hn' : NotLeaf [("responses", Enc.strMap [("alpha", some 1)])] := by simp [NotLeaf]
  unfold cexAlphaTree cexAlphaProof
  apply proofD_of_fields direct _ (structObj_mkObj hd hn)
  · rw [optField_mkObj_not_mem (by simp)]; rfl
  · rw [optField_mkObj_not_mem (by simp)]; rfl
  · rw [optField_mkObj_not_mem (by simp)]; rfl
  · rw [optField_mkObj_not_mem (by simp)]; rfl
  · rw [optField_mkObj_not_mem (by simp)]; rfl
  · rw [optField_mkObj_not_mem (by simp)]; rfl
  · rw [optField_mkObj_mem hd (v := Json.mkObj [("responses", Enc.strMap [("alpha", some 1)])]) (by simp)]
    apply nonrev_of_fields direct _ (structObj_mkObj hd' hn')
    · rw [optField_mkObj_not_mem (by simp)]; rfl
    · rw [optField_mkObj_not_mem (by simp)]; rfl
    · rw [optField_mkObj_mem hd' (v := Enc.strMap [("alpha", some 1)]) (by simp),
        decode_strMap direct _ ⟨by decide, by
          intro kv hkv
          rw [List.mem_singleton.mp hkv]
          exact bigOk_some _ _ (by decide)⟩,
        sortByKey_of_sorted (List.pairwise_singleton _ _)]
    · rw [optField_mkObj_not_mem (by simp)]; rfl
  · rw [optField_mkObj_not_mem (by simp)]; rfl

theorem cexAlphaProof_strip : cexAlphaProof.strip ≠ cexAlphaProof := by decide

theorem toNat?_007 : "007".toNat? = some 7 := by
  rw [String.toNat?_eq_some_ofDigitChars (String.isNat_of_isDigit (by decide) (by decide))]
  rfl

/-- a tree whose `a_responses` object spells the key 7 as "007": in key-text order "007" comes
    before "1", as integers (and as canonical texts "7", "1") the order is the other way round. -/
def cexKeyTree : Json :=
  Json.mkObj [("a_responses", Json.mkObj [("007", Enc.big (some 1)), ("1", Enc.big (some 2))])]

def cexKeyProof : ProofD :=
  { c := none, a := none, eResponse := none, vResponse := none,
    aResponses := [(7, some 1), (1, some 2)], aDisclosed := [], nonrev := none, rangeProofs := none }

theorem cexKey_distinct : KeysDistinct [("007", Enc.big (some 1)), ("1", Enc.big (some 2))] := by
  simp [KeysDistinct]

theorem cexKeyTree_allWF : AllWF cexKeyTree := by
  refine allWF_mkObj (keysDistinct_singleton _) ?_
  intro kv hkv
  rw [List.mem_singleton.mp hkv]
  refine allWF_mkObj cexKey_distinct ?_
  intro kv hkv
  simp only [List.mem_cons, List.not_mem_nil, or_false] at hkv
  rcases hkv with rfl | rfl
  · exact allWF_big (some 1)
  · exact allWF_big (some 2)

theorem cexKeyTree_decodes (direct : Bool) : Decode.proofD cexKeyTree direct = .ok cexKeyProof := by
  have hd : KeysDistinct [("a_responses", Json.mkObj [("007", Enc.big (some 1)), ("1", Enc.big (some 2))])] :=
    keysDistinct_singleton _
  have hn : NotLeaf [("a_responses", Json.mkObj [("007", Enc.big (some 1)), ("1", Enc.big (some 2))])] := by
    simp [NotLeaf]
  have hn' : NotLeaf [("007", Enc.big (some 1)), ("1", Enc.big (some 2))] := by simp [NotLeaf]
  have hsorted : KeysSorted [("007", Enc.big (some 1)), ("1", Enc.big (some 2))] := by
    unfold KeysSorted; simp; decide
  have hkey1 : Decode.parseIntKey "007" = .ok 7 := by
    unfold Decode.parseIntKey
    rw [String.toInt?_eq_some_of_toNat?_eq_some toNat?_007]
    rfl
  have hkey2 : Decode.parseIntKey "1" = .ok 1 := parseIntKey_toString 1 (by constructor <;> decide)
  unfold cexKeyTree cexKeyProof
  apply proofD_of_fields direct _ (structObj_mkObj hd hn)
  · rw [optField_mkObj_not_mem (by simp)]; rfl
  · rw [optField_mkObj_not_mem (by simp)]; rfl
  · rw [optField_mkObj_not_mem (by simp)]; rfl
  · rw [optField_mkObj_not_mem (by simp)]; rfl
  · rw [optField_mkObj_mem hd (v := Json.mkObj [("007", Enc.big (some 1)), ("1", Enc.big (some 2))]) (by simp),
      show Json.mkObj [("007", Enc.big (some 1)), ("1", Enc.big (some 2))] = Json.obj _ from rfl,
      intMap_obj direct _ (leafI_mkObj_none cexKey_distinct hn') (leafB_mkObj_none cexKey_distinct hn') _
        (objEntries_mkObj _), sortedEntries_of_sorted hsorted]
    simp only [List.mapM_cons, List.mapM_nil, hkey1, hkey2,
      decode_big direct (some 1) (bigOk_some _ _ (by decide)),
      decode_big direct (some 2) (bigOk_some _ _ (by decide)), bind, Except.bind, pure, Except.pure]
    rw [dedupKeys_of_nodup _ (by decide)]
  · rw [optField_mkObj_not_mem (by simp)]; rfl
  · rw [optField_mkObj_not_mem (by simp)]; rfl
  · rw [optField_mkObj_not_mem (by simp)]; rfl

theorem cexKeyProof_not_sorted : ¬ cexKeyProof.MapsSorted := by
  intro h
  have := h.aResponses
  unfold KeyedSorted cexKeyProof at this
  simp only [List.pairwise_cons, List.mem_singleton, forall_eq] at this
  exact absurd this.1 (by decide)

/-- `reconstructZ` alone is order dependent on proofs that are not well-formed: which panic is
    hit first depends on the order of `ADisclosed`. -/
def cexOrderD1 : ProofD :=
  { c := some 1, a := some 2, eResponse := some 1, vResponse := some 1,
    aResponses := [(0, some 1)], aDisclosed := [(0, none), (5, some 1)], nonrev := none, rangeProofs := none }

def cexOrderD2 : ProofD := { cexOrderD1 with aDisclosed := [(5, some 1), (0, none)] }

theorem cexOrder_permEq : cexOrderD1.PermEq cexOrderD2 :=
  ⟨rfl, rfl, rfl, rfl, List.Perm.refl _, List.Perm.swap _ _ _, trivial, trivial⟩

theorem cexOrder_reconstructZ :
    cexOrderD1.reconstructZ cexPk = .error (.nilDeref "ADisclosed") ∧
    cexOrderD2.reconstructZ cexPk = .error (.indexOutOfRange "R[i]") := by
  obtain ⟨v, hv⟩ := Option.isSome_iff_exists.mp
    (goExp_isSome_of_nonneg 2 (2 ^ (cexPk.params.Le - 1)) 15 (by positivity))
  constructor
  · unfold ProofD.reconstructZ
    simp only [cexOrderD1, deref_some, GoM.ok_bind]
    show (deref "Exp" (goExp 2 (2 ^ (cexPk.params.Le - 1)) 15) >>= _) = _
    rw [hv, deref_some, GoM.ok_bind]
    rfl
  · unfold ProofD.reconstructZ
    simp only [cexOrderD2, cexOrderD1, deref_some, GoM.ok_bind]
    show (deref "Exp" (goExp 2 (2 ^ (cexPk.params.Le - 1)) 15) >>= _) = _
    rw [hv, deref_some, GoM.ok_bind]
    rfl

end Gabi
