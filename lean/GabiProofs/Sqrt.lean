/-
  GabiProofs.Sqrt — correctness of `Gabi.primeSqrt` (Tonelli–Shanks) and `Gabi.modSqrt`.
-/
import GabiModel.MathUtil
import GabiProofs.NumLemmas
import Mathlib.NumberTheory.LegendreSymbol.Basic
import Mathlib.FieldTheory.Finite.Basic
import Mathlib.Data.ZMod.Basic
import Mathlib.RingTheory.Coprime.Lemmas
import Mathlib.Tactic.Ring
import Mathlib.Tactic.LinearCombination

namespace Gabi

/-! ## casts into `ZMod p` -/

section Casts
variable {p : Nat}

theorem cast_powMod (b e : Nat) : ((powMod b e p : Nat) : ZMod p) = (b : ZMod p) ^ e := by
  rw [powMod_eq, ZMod.natCast_mod, Nat.cast_pow]

theorem powMod_lt (b e : Nat) (hp : 0 < p) : powMod b e p < p := by
  rw [powMod_eq]; exact Nat.mod_lt _ hp

theorem natCast_inj_of_lt {a b : Nat} (ha : a < p) (hb : b < p) :
    (a : ZMod p) = (b : ZMod p) ↔ a = b := by
  rw [ZMod.natCast_eq_natCast_iff', Nat.mod_eq_of_lt ha, Nat.mod_eq_of_lt hb]

theorem sq_mod_eq_iff {a r : Nat} (ha : a < p) :
    r * r % p = a ↔ (r : ZMod p) * r = a := by
  rw [← Nat.cast_mul, ZMod.natCast_eq_natCast_iff', Nat.mod_eq_of_lt ha]

end Casts

/-! ## stripTwos -/

theorem stripTwos_even (n : Nat) (h : n ≠ 0) (he : n % 2 = 0) :
    stripTwos n = ((stripTwos (n / 2)).1, (stripTwos (n / 2)).2 + 1) := by
  rw [stripTwos]
  simp [h, he]

theorem stripTwos_odd (n : Nat) (ho : n % 2 = 1) : stripTwos n = (n, 0) := by
  rw [stripTwos]
  have h : n ≠ 0 := by omega
  have he : ¬ n % 2 = 0 := by omega
  simp [h, he]

theorem stripTwos_spec_sq (n : Nat) (h : n ≠ 0) :
    n = (stripTwos n).1 * 2 ^ (stripTwos n).2 ∧ (stripTwos n).1 % 2 = 1 := by
  induction n using Nat.strongRecOn with
  | _ n ih =>
    by_cases he : n % 2 = 0
    · have := ih (n / 2) (by omega) (by omega)
      rw [stripTwos_even n h he]
      refine ⟨?_, this.2⟩
      simp only
      rw [pow_succ, ← mul_assoc, ← this.1]
      omega
    · rw [stripTwos_odd n (by omega)]
      simp
      omega

/-! ## the Tonelli–Shanks loop: soundness -/

section Loop
variable {p : Nat}

/-- Soundness of the loop only needs the invariant `R² = a·t`. -/
theorem tonelliLoop_sound (a : ZMod p) :
    ∀ (fuel M c t R r : Nat), R < p → (R : ZMod p) ^ 2 = a * t →
      tonelliLoop fuel p M c t R = some r → (r : ZMod p) ^ 2 = a ∧ r < p := by
  intro fuel
  induction fuel with
  | zero => intro M c t R r _ _ h; simp [tonelliLoop] at h
  | succ f ih =>
    intro M c t R r hR hinv h
    rw [tonelliLoop] at h
    split_ifs at h with ht
    · have : R = r := Option.some.inj h
      subst this
      subst ht
      exact ⟨by simpa using hinv, hR⟩
    · cases ho : orderExp (M + 1) t p 0 with
      | none => rw [ho] at h; simp at h
      | some i =>
        rw [ho] at h
        simp only at h
        split_ifs at h with hM
        have hp : 0 < p := by omega
        refine ih _ _ _ _ r (Nat.mod_lt _ hp) ?_ h
        rw [ZMod.natCast_mod, ZMod.natCast_mod, Nat.cast_mul, Nat.cast_mul, ZMod.natCast_mod,
          Nat.cast_mul]
        linear_combination ((powMod c (2 ^ (M - i - 1)) p : Nat) : ZMod p) ^ 2 * hinv

end Loop

/-! ## `primeSqrt`: soundness of a returned root -/

theorem primeSqrt_root_sq {a p r : Nat} (hp : p.Prime) (h2 : p ≠ 2) (ha : a < p)
    (h : primeSqrt a p = .root r) : r * r % p = a ∧ r < p := by
  have := Fact.mk hp
  have hodd : p % 2 = 1 := hp.eq_two_or_odd.resolve_left h2
  unfold primeSqrt at h
  split_ifs at h with h0 hE h3
  · -- a = 0
    have : 0 = r := SqrtResult.root.inj h
    subst this; subst h0
    exact ⟨by simp, hp.pos⟩
  · -- p ≡ 3 (mod 4)
    have hE' : powMod a (p / 2) p = 1 := not_not.mp hE
    have hEz : (a : ZMod p) ^ (p / 2) = 1 := by
      rw [← cast_powMod, hE']; simp
    have : powMod a (p / 4 + 1) p = r := SqrtResult.root.inj h
    subst this
    refine ⟨?_, powMod_lt _ _ hp.pos⟩
    rw [sq_mod_eq_iff ha, cast_powMod, ← pow_add]
    have : p / 4 + 1 + (p / 4 + 1) = p / 2 + 1 := by omega
    rw [this, pow_succ, hEz, one_mul]
  · -- Tonelli–Shanks
    cases hz : findNonResidue p 2 p with
    | none => rw [hz] at h; simp at h
    | some z =>
      rw [hz] at h
      rcases hs : stripTwos (p - 1) with ⟨Q, M⟩
      rw [hs] at h
      simp only at h
      cases hl : tonelliLoop (M + 1) p M (powMod z Q p) (powMod a Q p) (powMod a (Q / 2 + 1) p) with
      | none => rw [hl] at h; simp at h
      | some r' =>
        rw [hl] at h
        have : r' = r := SqrtResult.root.inj h
        subst this
        have hspec := stripTwos_spec_sq (p - 1) (by have := hp.two_le; omega)
        rw [hs] at hspec
        have hQ : Q % 2 = 1 := hspec.2
        have := tonelliLoop_sound (a : ZMod p) _ _ _ _ _ _ (powMod_lt _ _ hp.pos) ?_ hl
        · refine ⟨?_, this.2⟩
          rw [sq_mod_eq_iff ha, ← pow_two]
          exact this.1
        · rw [cast_powMod, cast_powMod, ← pow_mul, ← pow_succ']
          congr 1
          omega

/-! ## `primeSqrt`: a reported absence is correct -/

theorem primeSqrt_noRoot {a p : Nat} (hp : p.Prime) (h2 : p ≠ 2) (ha : a < p)
    (h : primeSqrt a p = .noRoot) : ¬ ∃ r : Nat, r * r % p = a := by
  have := Fact.mk hp
  have hodd : p % 2 = 1 := hp.eq_two_or_odd.resolve_left h2
  rintro ⟨r, hr⟩
  unfold primeSqrt at h
  split_ifs at h with h0 hE h3
  · -- the interesting case: a ≠ 0 and a^(p/2) ≠ 1
    apply hE
    rw [sq_mod_eq_iff ha] at hr
    have hr0 : (r : ZMod p) ≠ 0 := by
      intro hr0
      rw [hr0, mul_zero] at hr
      have : (a : ZMod p) = ((0 : Nat) : ZMod p) := by simpa using hr.symm
      rw [natCast_inj_of_lt ha hp.pos] at this
      exact h0 this
    have h1 : ((powMod a (p / 2) p : Nat) : ZMod p) = ((1 : Nat) : ZMod p) := by
      rw [cast_powMod, ← hr, ← pow_two, ← pow_mul, Nat.cast_one]
      have : 2 * (p / 2) = p - 1 := by omega
      rw [this]
      exact ZMod.pow_card_sub_one_eq_one hr0
    exact (natCast_inj_of_lt (powMod_lt _ _ hp.pos) hp.one_lt).mp h1
  · -- match cannot return noRoot
    cases hz : findNonResidue p 2 p with
    | none => rw [hz] at h; simp at h
    | some z =>
      rw [hz] at h
      rcases hs : stripTwos (p - 1) with ⟨Q, M⟩
      rw [hs] at h
      simp only at h
      cases hl : tonelliLoop (M + 1) p M (powMod z Q p) (powMod a Q p) (powMod a (Q / 2 + 1) p) with
      | none => rw [hl] at h; simp at h
      | some r' => rw [hl] at h; simp at h

/-! ## `orderExp`, `findNonResidue`: specifications -/

section Order
variable {p : Nat}

theorem orderExp_spec (hp1 : 1 < p) :
    ∀ (fuel tp i k : Nat), tp < p → (tp : ZMod p) ^ (2 ^ k) = 1 → k < fuel →
      ∃ j, orderExp fuel tp p i = some (i + j) ∧ j ≤ k ∧ (tp : ZMod p) ^ (2 ^ j) = 1 ∧
        (j = 0 ∨ (tp : ZMod p) ^ (2 ^ (j - 1)) ≠ 1) := by
  intro fuel
  induction fuel with
  | zero => intro tp i k _ _ hk; omega
  | succ f ih =>
    intro tp i k htp hk hkf
    rw [orderExp]
    by_cases h1 : tp = 1
    · subst h1
      exact ⟨0, by simp, by omega, by simp, Or.inl rfl⟩
    · rw [if_neg h1]
      have hne : (tp : ZMod p) ≠ 1 := by
        intro hc
        have : (tp : ZMod p) = ((1 : Nat) : ZMod p) := by simpa using hc
        exact h1 ((natCast_inj_of_lt htp hp1).mp this)
      have hk0 : k ≠ 0 := by
        rintro rfl
        simp at hk
        exact hne hk
      obtain ⟨k', rfl⟩ : ∃ k', k = k' + 1 := ⟨k - 1, by omega⟩
      have hcast : ((tp * tp % p : Nat) : ZMod p) = (tp : ZMod p) ^ 2 := by
        rw [ZMod.natCast_mod, Nat.cast_mul, pow_two]
      have hk' : ((tp * tp % p : Nat) : ZMod p) ^ (2 ^ k') = 1 := by
        rw [hcast, ← pow_mul, ← pow_succ']
        exact hk
      obtain ⟨j, hj1, hj2, hj3, hj4⟩ :=
        ih (tp * tp % p) (i + 1) k' (Nat.mod_lt _ (by omega)) hk' (by omega)
      refine ⟨j + 1, ?_, by omega, ?_, Or.inr ?_⟩
      · rw [hj1]; congr 1; omega
      · rw [hcast, ← pow_mul, ← pow_succ'] at hj3
        exact hj3
      · rcases j with _ | j'
        · simpa using hne
        · have hj4' : ((tp * tp % p : Nat) : ZMod p) ^ (2 ^ j') ≠ 1 := by
            rcases hj4 with h | h
            · omega
            · simpa using h
          rw [hcast, ← pow_mul, ← pow_succ'] at hj4'
          simpa using hj4'

theorem findNonResidue_some :
    ∀ (fuel z z' : Nat), findNonResidue fuel z p = some z' →
      legendreSymbol (z' : Int) (p : Int) = -1 := by
  intro fuel
  induction fuel with
  | zero => intro z z' h; simp [findNonResidue] at h
  | succ f ih =>
    intro z z' h
    rw [findNonResidue] at h
    split_ifs at h with hl
    · have : z = z' := Option.some.inj h
      subst this; exact hl
    · exact ih _ _ h

theorem findNonResidue_exists :
    ∀ (fuel z n : Nat), z ≤ n → n < z + fuel → legendreSymbol (n : Int) (p : Int) = -1 →
      ∃ z', findNonResidue fuel z p = some z' := by
  intro fuel
  induction fuel with
  | zero => intro z n h1 h2; omega
  | succ f ih =>
    intro z n h1 h2 hn
    rw [findNonResidue]
    by_cases hl : legendreSymbol (z : Int) (p : Int) = -1
    · exact ⟨z, by rw [if_pos hl]⟩
    · rw [if_neg hl]
      have hzn : z ≠ n := by
        rintro rfl; exact hl hn
      exact ih (z + 1) n (by omega) (by omega) hn

end Order

/-! ## the Tonelli–Shanks loop: termination within fuel -/

section LoopTerm
variable {p : Nat}

theorem tonelliLoop_terminates [Fact p.Prime] :
    ∀ (fuel M c t R : Nat), M < fuel → 1 ≤ M → t < p →
      (c : ZMod p) ^ (2 ^ (M - 1)) = -1 → (t : ZMod p) ^ (2 ^ (M - 1)) = 1 →
      ∃ r, tonelliLoop fuel p M c t R = some r := by
  have hp1 : 1 < p := (Fact.out : p.Prime).one_lt
  intro fuel
  induction fuel with
  | zero => intro M c t R h; omega
  | succ f ih =>
    intro M c t R hMf hM ht hc htM
    rw [tonelliLoop]
    by_cases h1 : t = 1
    · exact ⟨R, by rw [if_pos h1]⟩
    · rw [if_neg h1]
      have hne : (t : ZMod p) ≠ 1 := by
        intro hc
        have : (t : ZMod p) = ((1 : Nat) : ZMod p) := by simpa using hc
        exact h1 ((natCast_inj_of_lt ht hp1).mp this)
      obtain ⟨j, hj1, hj2, hj3, hj4⟩ := orderExp_spec hp1 (M + 1) t 0 (M - 1) ht htM (by omega)
      rw [hj1]
      simp only [Nat.zero_add]
      have hj0 : j ≠ 0 := by
        rintro rfl
        simp at hj3
        exact hne hj3
      have hj4' : (t : ZMod p) ^ (2 ^ (j - 1)) ≠ 1 := hj4.resolve_left hj0
      rw [if_neg (by omega)]
      obtain ⟨e, rfl⟩ : ∃ e, j = e + 1 := ⟨j - 1, by omega⟩
      obtain ⟨d, rfl⟩ : ∃ d, M = e + 1 + 1 + d := ⟨M - (e + 1 + 1), by omega⟩
      have hexp1 : e + 1 + 1 + d - (e + 1) - 1 = d := by omega
      have hexp2 : e + 1 + 1 + d - 1 = e + 1 + d := by omega
      rw [hexp1]
      rw [hexp2] at hc
      simp only [Nat.add_sub_cancel] at hj4' ⊢
      -- t^(2^e) = -1
      have htm1 : (t : ZMod p) ^ (2 ^ e) = -1 := by
        have hsq : (t : ZMod p) ^ (2 ^ e) * (t : ZMod p) ^ (2 ^ e) = 1 := by
          rw [← pow_add, ← two_mul, ← pow_succ']; exact hj3
        rcases mul_self_eq_one_iff.mp hsq with h | h
        · exact absurd h hj4'
        · exact h
      have hb : ((powMod c (2 ^ d) p * powMod c (2 ^ d) p % p : Nat) : ZMod p) ^ (2 ^ e) = -1 := by
        rw [ZMod.natCast_mod, Nat.cast_mul, cast_powMod, ← pow_add, ← pow_mul, ← hc]
        congr 1
        rw [pow_add, pow_add]; ring
      apply ih
      · omega
      · omega
      · exact Nat.mod_lt _ (by omega)
      · simp only [Nat.add_sub_cancel]; exact hb
      · simp only [Nat.add_sub_cancel]
        rw [ZMod.natCast_mod, Nat.cast_mul, mul_pow, hb, htm1]; ring

end LoopTerm

/-! ## `primeSqrt` never reports `.diverges` on its domain -/

/-- An odd prime has a quadratic non-residue `n` with `2 ≤ n < p`. -/
theorem exists_nonresidue {p : Nat} [Fact p.Prime] (h2 : p ≠ 2) :
    ∃ n : Nat, 2 ≤ n ∧ n < p ∧ legendreSym p (n : Int) = -1 := by
  have hp : p.Prime := Fact.out
  obtain ⟨x, hx⟩ := FiniteField.exists_nonsquare (F := ZMod p) (by rwa [ZMod.ringChar_zmod_n])
  refine ⟨x.val, ?_, ZMod.val_lt x, ?_⟩
  · by_contra hlt
    have hcases : x.val = 0 ∨ x.val = 1 := by omega
    apply hx
    rcases hcases with h | h
    · rw [(ZMod.val_eq_zero x).mp h]; exact ⟨0, by simp⟩
    · have : x = 1 := by
        have := ZMod.natCast_zmod_val x
        rw [h] at this
        simpa using this.symm
      rw [this]; exact ⟨1, by simp⟩
  · rw [legendreSym.eq_neg_one_iff]
    simpa using hx

set_option linter.unusedVariables false in
/-- (`ha` is not needed.) -/
theorem primeSqrt_ne_diverges {a p : Nat} [Fact p.Prime] (h2 : p ≠ 2) (ha : a < p)
    (hleg : ∀ a : Int, legendreSymbol a (p : Int) = legendreSym p a) :
    primeSqrt a p ≠ .diverges := by
  have hp : p.Prime := Fact.out
  have hodd : p % 2 = 1 := hp.eq_two_or_odd.resolve_left h2
  intro h
  unfold primeSqrt at h
  split_ifs at h with h0 hE h3
  have hE' : powMod a (p / 2) p = 1 := not_not.mp hE
  have hEz : (a : ZMod p) ^ (p / 2) = 1 := by
    rw [← cast_powMod, hE']; simp
  obtain ⟨n, hn2, hnp, hn⟩ := exists_nonresidue (p := p) h2
  obtain ⟨z, hz⟩ := findNonResidue_exists (p := p) p 2 n hn2 (by omega) (by rw [hleg]; exact hn)
  have hzl := findNonResidue_some _ _ _ hz
  rw [hleg] at hzl
  have hzz : (z : ZMod p) ^ (p / 2) = -1 := by
    have := legendreSym.eq_pow p (z : Int)
    rw [hzl] at this
    simpa using this.symm
  rw [hz] at h
  rcases hs : stripTwos (p - 1) with ⟨Q, M⟩
  rw [hs] at h
  simp only at h
  have hspec := stripTwos_spec_sq (p - 1) (by have := hp.two_le; omega)
  rw [hs] at hspec
  obtain ⟨hQM, hQ⟩ := hspec
  simp only at hQM hQ
  have hM : 1 ≤ M := by
    rcases M with _ | M
    · simp at hQM; omega
    · omega
  obtain ⟨m, rfl⟩ : ∃ m, M = m + 1 := ⟨M - 1, by omega⟩
  have hhalf : p / 2 = Q * 2 ^ m := by
    rw [pow_succ, ← mul_assoc] at hQM
    omega
  obtain ⟨r, hr⟩ := tonelliLoop_terminates (p := p) (m + 1 + 1) (m + 1) (powMod z Q p) (powMod a Q p)
    (powMod a (Q / 2 + 1) p) (by omega) (by omega) (powMod_lt _ _ hp.pos)
    (by rw [cast_powMod, ← pow_mul, Nat.add_sub_cancel, ← hhalf]; exact hzz)
    (by rw [cast_powMod, ← pow_mul, Nat.add_sub_cancel, ← hhalf]; exact hEz)
  rw [hr] at h
  simp at h

/-! ## existence is reported correctly -/

theorem primeSqrt_noRoot_iff {a p : Nat} (hp : p.Prime) (h2 : p ≠ 2) (ha : a < p) :
    primeSqrt a p = .noRoot ↔ ¬ ∃ r : Nat, r * r % p = a := by
  have := Fact.mk hp
  refine ⟨primeSqrt_noRoot hp h2 ha, fun hno => ?_⟩
  have h0 : a ≠ 0 := by
    rintro rfl
    exact hno ⟨0, by simp⟩
  have haz : (a : ZMod p) ≠ 0 := by
    intro hc
    have : (a : ZMod p) = ((0 : Nat) : ZMod p) := by simpa using hc
    exact h0 ((natCast_inj_of_lt ha hp.pos).mp this)
  have hE : powMod a (p / 2) p ≠ 1 := by
    intro hE
    have hEz : (a : ZMod p) ^ (p / 2) = 1 := by
      rw [← cast_powMod, hE]; simp
    obtain ⟨y, hy⟩ := (ZMod.euler_criterion p haz).mpr hEz
    apply hno
    refine ⟨y.val, ?_⟩
    rw [sq_mod_eq_iff ha, ZMod.natCast_zmod_val, hy]
  unfold primeSqrt
  rw [if_neg h0, if_neg h2, if_pos hE]

/-- the three-way classification: on the domain the result is a genuine root or a
    correct report of absence. -/
theorem primeSqrt_spec {a p : Nat} [Fact p.Prime] (h2 : p ≠ 2) (ha : a < p)
    (hleg : ∀ a : Int, legendreSymbol a (p : Int) = legendreSym p a) :
    (∃ r, primeSqrt a p = .root r ∧ r * r % p = a ∧ r < p) ∨
    (primeSqrt a p = .noRoot ∧ ¬ ∃ r : Nat, r * r % p = a) := by
  have hp : p.Prime := Fact.out
  cases h : primeSqrt a p with
  | root r => exact Or.inl ⟨r, rfl, primeSqrt_root_sq hp h2 ha h⟩
  | noRoot => exact Or.inr ⟨rfl, primeSqrt_noRoot hp h2 ha h⟩
  | diverges => exact absurd h (primeSqrt_ne_diverges h2 ha hleg)

/-! ## CRT -/

theorem crt_def (a pa b pb : Int) : crt a pa b pb =
    if (xgcd pa.toNat pb.toNat).1 ≠ 1 then none else
    some ((a * (xgcd pa.toNat pb.toNat).2.2 * pb + b * (xgcd pa.toNat pb.toNat).2.1 * pa)
      % (pa * pb)) := by
  rfl

theorem crt_spec {a pa b pb x : Int} (hpa : 0 < pa) (hpb : 0 < pb)
    (h : crt a pa b pb = some x) :
    x % pa = a % pa ∧ x % pb = b % pb ∧ 0 ≤ x ∧ x < pa * pb ∧ IsCoprime pa pb := by
  rw [crt_def] at h
  split_ifs at h with hg
  have hg1 : (xgcd pa.toNat pb.toNat).1 = 1 := not_not.mp hg
  have hx := Option.some.inj h
  have hb := xgcd_bezout pa.toNat pb.toNat
  rw [hg1, Int.toNat_of_nonneg hpa.le, Int.toNat_of_nonneg hpb.le] at hb
  set s2 := (xgcd pa.toNat pb.toNat).2.1
  set s1 := (xgcd pa.toNat pb.toNat).2.2
  have hpos : 0 < pa * pb := Int.mul_pos hpa hpb
  subst hx
  refine ⟨?_, ?_, Int.emod_nonneg _ hpos.ne', Int.emod_lt_of_pos _ hpos, ?_⟩
  · rw [Int.emod_emod_of_dvd _ (Dvd.intro _ rfl), Int.emod_eq_emod_iff_emod_sub_eq_zero]
    apply Int.emod_eq_zero_of_dvd
    refine ⟨b * s2 - a * s2, ?_⟩
    push_cast at hb
    linear_combination a * hb
  · rw [Int.emod_emod_of_dvd _ (Dvd.intro_left _ rfl), Int.emod_eq_emod_iff_emod_sub_eq_zero]
    apply Int.emod_eq_zero_of_dvd
    refine ⟨a * s1 - b * s1, ?_⟩
    push_cast at hb
    linear_combination b * hb
  · refine ⟨s2, s1, ?_⟩
    push_cast at hb
    linear_combination hb

/-! ## `modSqrt` -/

/-- admissible factors: `4` or an odd prime. -/
def GoodFac (f : Int) : Prop :=
  f = 4 ∨ ∃ p : Nat, p.Prime ∧ p ≠ 2 ∧ f = (p : Int)

/-- the per-factor root computed inside `modSqrtAux`. -/
def modSqrtLoc (a fac : Int) : SqrtResult :=
  if fac = 4 then
    if (a % 4).toNat / 2 % 2 ≠ 0 then .noRoot
    else if (a % 4).toNat % 2 = 0 then .root 2 else .root 1
  else primeSqrt (a % fac).toNat fac.toNat

theorem modSqrtAux_cons (a fac : Int) (rest : List Int) (first : Bool) (res n : Int) :
    modSqrtAux a (fac :: rest) first res n =
      match modSqrtLoc a fac with
      | .root r =>
        if first then modSqrtAux a rest false r (n * fac)
        else match crt res n r fac with
          | none => .diverges
          | some x => modSqrtAux a rest false x (n * fac)
      | other => other := by
  rfl

theorem natCast_prime_ne_four {p : Nat} (hp : p.Prime) : ¬ ((p : Int) = 4) := by
  intro h4
  have : p = 4 := by exact_mod_cast h4
  subst this
  exact absurd hp (by decide)

theorem modSqrtLoc_prime (a : Int) {p : Nat} (hp : p.Prime) :
    modSqrtLoc a (p : Int) = primeSqrt (a % (p : Int)).toNat p := by
  unfold modSqrtLoc
  rw [if_neg (natCast_prime_ne_four hp), Int.toNat_natCast]

theorem emod_toNat_lt (a : Int) {p : Nat} (hp : 0 < p) : (a % (p : Int)).toNat < p := by
  have hpos : (0 : Int) < p := by exact_mod_cast hp
  have := Int.emod_lt_of_pos a hpos
  have := Int.emod_nonneg a hpos.ne'
  omega

theorem modSqrtLoc_sound {a f : Int} {r : Nat} (hf : GoodFac f)
    (h : modSqrtLoc a f = .root r) : 0 < f ∧ f ∣ (r : Int) * r - a := by
  rcases hf with rfl | ⟨p, hp, hp2, rfl⟩
  · refine ⟨by norm_num, ?_⟩
    unfold modSqrtLoc at h
    rw [if_pos rfl] at h
    split_ifs at h with h1 h2
    · have : 2 = r := SqrtResult.root.inj h
      subst this
      apply Int.dvd_of_emod_eq_zero
      omega
    · have : 1 = r := SqrtResult.root.inj h
      subst this
      apply Int.dvd_of_emod_eq_zero
      omega
  · have hpos : (0 : Int) < p := by exact_mod_cast hp.pos
    refine ⟨hpos, ?_⟩
    rw [modSqrtLoc_prime a hp] at h
    have h0 : 0 ≤ a % (p : Int) := Int.emod_nonneg _ hpos.ne'
    have hr := (primeSqrt_root_sq hp hp2 (emod_toNat_lt a hp.pos) h).1
    have hr' : (((r * r % p : Nat)) : Int) = a % (p : Int) := by
      rw [hr, Int.toNat_of_nonneg h0]
    push_cast at hr'
    apply Int.dvd_of_emod_eq_zero
    rw [← Int.emod_eq_emod_iff_emod_sub_eq_zero]
    rw [← Int.emod_emod_of_dvd a (dvd_refl (p : Int)), ← hr', Int.emod_emod_of_dvd _ (dvd_refl _)]

theorem modSqrtAux_sound (a : Int) :
    ∀ (facs : List Int) (first : Bool) (res n : Int) (r : Nat),
      (∀ f ∈ facs, GoodFac f) → 0 < n → 0 ≤ res → n ∣ res * res - a →
      (first = true → n = 1) →
      modSqrtAux a facs first res n = .root r → n * facs.prod ∣ (r : Int) * r - a := by
  intro facs
  induction facs with
  | nil =>
    intro first res n r _ _ hres hdiv _ h
    simp only [modSqrtAux] at h
    have : res.toNat = r := SqrtResult.root.inj h
    subst this
    rw [Int.toNat_of_nonneg hres]
    simpa using hdiv
  | cons fac rest ih =>
    intro first res n r hgood hn hres hdiv hfirst h
    rw [modSqrtAux_cons] at h
    have hgf : GoodFac fac := hgood fac (by simp)
    have hgrest : ∀ f ∈ rest, GoodFac f := fun f hf => hgood f (by simp [hf])
    cases hloc : modSqrtLoc a fac with
    | noRoot => rw [hloc] at h; simp at h
    | diverges => rw [hloc] at h; simp at h
    | root r1 =>
      rw [hloc] at h
      simp only at h
      obtain ⟨hfpos, hfdvd⟩ := modSqrtLoc_sound hgf hloc
      rw [List.prod_cons, ← mul_assoc]
      cases first with
      | true =>
        simp only [if_true] at h
        have hn1 : n = 1 := hfirst rfl
        subst hn1
        refine ih false r1 (1 * fac) r hgrest (by simpa using hfpos) (by omega)
          (by simpa using hfdvd) (by simp) h
      | false =>
        simp only [Bool.false_eq_true, if_false] at h
        cases hc : crt res n r1 fac with
        | none => rw [hc] at h; simp at h
        | some x =>
          rw [hc] at h
          simp only at h
          obtain ⟨hx1, hx2, hx0, _, hcop⟩ := crt_spec hn hfpos hc
          refine ih false x (n * fac) r hgrest (Int.mul_pos hn hfpos) hx0 ?_ (by simp) h
          have hd1 : n ∣ x - res := Int.dvd_of_emod_eq_zero
            ((Int.emod_eq_emod_iff_emod_sub_eq_zero).mp hx1)
          have hd2 : fac ∣ x - r1 := Int.dvd_of_emod_eq_zero
            ((Int.emod_eq_emod_iff_emod_sub_eq_zero).mp hx2)
          apply hcop.mul_dvd
          · have : x * x - a = (x - res) * (x + res) + (res * res - a) := by ring
            rw [this]
            exact dvd_add (Dvd.dvd.mul_right hd1 _) hdiv
          · have : x * x - a = (x - r1) * (x + r1) + ((r1 : Int) * r1 - a) := by ring
            rw [this]
            exact dvd_add (Dvd.dvd.mul_right hd2 _) hfdvd

/-- General soundness of `modSqrt`: for a factor list consisting of odd primes and possibly `4`,
    a returned root squares to `a` modulo the product.  Pairwise coprimality is
    not needed as a hypothesis: `crt` reports `.diverges` otherwise. -/
theorem modSqrt_root_sq_general {a : Int} {facs : List Int} {r : Nat}
    (hgood : ∀ f ∈ facs, GoodFac f) (h : modSqrt a facs = .root r) :
    ((r : Int) * r - a) % facs.prod = 0 := by
  apply Int.emod_eq_zero_of_dvd
  have := modSqrtAux_sound a facs true 0 1 r hgood (by norm_num) (le_refl _) (one_dvd _)
    (fun _ => rfl) h
  simpa using this

theorem goodFac_pair {p q : Nat} (hp : p.Prime) (hq : q.Prime) (hp2 : p ≠ 2) (hq2 : q ≠ 2) :
    ∀ f ∈ [(p : Int), (q : Int)], GoodFac f := by
  intro f hf
  simp only [List.mem_cons, List.not_mem_nil, or_false] at hf
  rcases hf with rfl | rfl
  · exact Or.inr ⟨p, hp, hp2, rfl⟩
  · exact Or.inr ⟨q, hq, hq2, rfl⟩

theorem goodFac_four_pair {p q : Nat} (hp : p.Prime) (hq : q.Prime) (hp2 : p ≠ 2) (hq2 : q ≠ 2) :
    ∀ f ∈ [4, (p : Int), (q : Int)], GoodFac f := by
  intro f hf
  rw [List.mem_cons] at hf
  rcases hf with rfl | hf
  · exact Or.inl rfl
  · exact goodFac_pair hp hq hp2 hq2 f hf

set_option linter.unusedVariables false in
/-- (`hpq` is not needed for soundness.) -/
theorem modSqrt_root_sq {a : Int} {p q r : Nat} (hp : p.Prime) (hq : q.Prime)
    (hp2 : p ≠ 2) (hq2 : q ≠ 2) (hpq : p ≠ q)
    (h : modSqrt a [(p : Int), (q : Int)] = .root r) :
    ((r : Int) * r - a) % ((p : Int) * q) = 0 := by
  have := modSqrt_root_sq_general (goodFac_pair hp hq hp2 hq2) h
  simpa using this

set_option linter.unusedVariables false in
/-- the variant with the factor `4` first (all integers `a`). -/
theorem modSqrt_root_sq_four {a : Int} {p q r : Nat} (hp : p.Prime) (hq : q.Prime)
    (hp2 : p ≠ 2) (hq2 : q ≠ 2) (hpq : p ≠ q)
    (h : modSqrt a [4, (p : Int), (q : Int)] = .root r) :
    ((r : Int) * r - a) % (4 * (p : Int) * q) = 0 := by
  have := modSqrt_root_sq_general (goodFac_four_pair hp hq hp2 hq2) h
  simpa [mul_assoc] using this

/-! ### `modSqrt`: a reported absence is correct -/

theorem modSqrtLoc_noRoot {a f : Int} (hf : GoodFac f) (h : modSqrtLoc a f = .noRoot) :
    ¬ ∃ r : Int, f ∣ r * r - a := by
  rintro ⟨r, hr⟩
  rcases hf with rfl | ⟨p, hp, hp2, rfl⟩
  · unfold modSqrtLoc at h
    rw [if_pos rfl] at h
    split_ifs at h with h1
    have hra : r * r % 4 = a % 4 :=
      (Int.emod_eq_emod_iff_emod_sub_eq_zero).mpr (Int.emod_eq_zero_of_dvd hr)
    rw [Int.mul_emod] at hra
    have h4 : r % 4 = 0 ∨ r % 4 = 1 ∨ r % 4 = 2 ∨ r % 4 = 3 := by omega
    rcases h4 with h4 | h4 | h4 | h4 <;> rw [h4] at hra <;> norm_num at hra <;> omega
  · have hpos : (0 : Int) < p := by exact_mod_cast hp.pos
    rw [modSqrtLoc_prime a hp] at h
    apply primeSqrt_noRoot hp hp2 (emod_toNat_lt a hp.pos) h
    refine ⟨(r % (p : Int)).toNat, ?_⟩
    have h0 : 0 ≤ a % (p : Int) := Int.emod_nonneg _ hpos.ne'
    have hr0 : 0 ≤ r % (p : Int) := Int.emod_nonneg _ hpos.ne'
    have hra : r * r % (p : Int) = a % (p : Int) :=
      (Int.emod_eq_emod_iff_emod_sub_eq_zero).mpr (Int.emod_eq_zero_of_dvd hr)
    have : (((r % (p : Int)).toNat * (r % (p : Int)).toNat % p : Nat) : Int)
        = (((a % (p : Int)).toNat : Nat) : Int) := by
      push_cast
      rw [Int.toNat_of_nonneg h0, Int.toNat_of_nonneg hr0, ← Int.mul_emod, hra]
    exact_mod_cast this

theorem modSqrtAux_noRoot (a : Int) :
    ∀ (facs : List Int) (first : Bool) (res n : Int),
      (∀ f ∈ facs, GoodFac f) → modSqrtAux a facs first res n = .noRoot →
      ∃ f ∈ facs, ¬ ∃ r : Int, f ∣ r * r - a := by
  intro facs
  induction facs with
  | nil => intro first res n _ h; simp [modSqrtAux] at h
  | cons fac rest ih =>
    intro first res n hgood h
    rw [modSqrtAux_cons] at h
    have hgf : GoodFac fac := hgood fac (by simp)
    have hgrest : ∀ f ∈ rest, GoodFac f := fun f hf => hgood f (by simp [hf])
    cases hloc : modSqrtLoc a fac with
    | noRoot => exact ⟨fac, by simp, modSqrtLoc_noRoot hgf hloc⟩
    | diverges => rw [hloc] at h; simp at h
    | root r1 =>
      rw [hloc] at h
      simp only at h
      have key : ∀ res' n', modSqrtAux a rest false res' n' = .noRoot →
          ∃ f ∈ fac :: rest, ¬ ∃ r : Int, f ∣ r * r - a := by
        intro res' n' h'
        obtain ⟨f, hf, hno⟩ := ih false res' n' hgrest h'
        exact ⟨f, by simp [hf], hno⟩
      cases first with
      | true =>
        simp only [if_true] at h
        exact key _ _ h
      | false =>
        simp only [Bool.false_eq_true, if_false] at h
        cases hc : crt res n r1 fac with
        | none => rw [hc] at h; simp at h
        | some x =>
          rw [hc] at h
          exact key _ _ h

/-- General: if `modSqrt` reports `.noRoot` for a list of odd primes (and possibly `4`), then `a`
    has no square root modulo the product (indeed none modulo one of the factors). -/
theorem modSqrt_noRoot_general {a : Int} {facs : List Int}
    (hgood : ∀ f ∈ facs, GoodFac f) (h : modSqrt a facs = .noRoot) :
    ¬ ∃ r : Int, (r * r - a) % facs.prod = 0 := by
  rintro ⟨r, hr⟩
  obtain ⟨f, hf, hno⟩ := modSqrtAux_noRoot a facs true 0 1 hgood h
  exact hno ⟨r, dvd_trans (List.dvd_prod hf) (Int.dvd_of_emod_eq_zero hr)⟩

theorem modSqrt_noRoot {a : Int} {p q : Nat} (hp : p.Prime) (hq : q.Prime)
    (hp2 : p ≠ 2) (hq2 : q ≠ 2) (h : modSqrt a [(p : Int), (q : Int)] = .noRoot) :
    ¬ ∃ r : Int, (r * r - a) % ((p : Int) * q) = 0 := by
  have := modSqrt_noRoot_general (goodFac_pair hp hq hp2 hq2) h
  simpa using this

theorem modSqrt_noRoot_four {a : Int} {p q : Nat} (hp : p.Prime) (hq : q.Prime)
    (hp2 : p ≠ 2) (hq2 : q ≠ 2) (h : modSqrt a [4, (p : Int), (q : Int)] = .noRoot) :
    ¬ ∃ r : Int, (r * r - a) % (4 * (p : Int) * q) = 0 := by
  have := modSqrt_noRoot_general (goodFac_four_pair hp hq hp2 hq2) h
  simpa [mul_assoc] using this

/-! ### `modSqrt` never reports `.diverges` on pairwise coprime admissible factors -/

/-- `4`, or an odd prime for which the executable Legendre symbol is the mathematical one. -/
def NiceFac (f : Int) : Prop :=
  f = 4 ∨ ∃ (p : Nat) (_ : Fact p.Prime), p ≠ 2 ∧ f = (p : Int) ∧
    ∀ a : Int, legendreSymbol a (p : Int) = legendreSym p a

theorem NiceFac.pos {f : Int} (h : NiceFac f) : 0 < f := by
  rcases h with rfl | ⟨p, hp, _, rfl, _⟩
  · norm_num
  · exact_mod_cast hp.out.pos

theorem modSqrtLoc_ne_diverges {a f : Int} (hf : NiceFac f) : modSqrtLoc a f ≠ .diverges := by
  rcases hf with rfl | ⟨p, hp, hp2, rfl, hleg⟩
  · unfold modSqrtLoc
    rw [if_pos rfl]
    split_ifs <;> simp
  · rw [modSqrtLoc_prime a hp.out]
    exact primeSqrt_ne_diverges hp2 (emod_toNat_lt a hp.out.pos) hleg

theorem crt_ne_none {a pa b pb : Int} (hpa : 0 < pa) (hpb : 0 < pb) (h : IsCoprime pa pb) :
    crt a pa b pb ≠ none := by
  obtain ⟨m, rfl⟩ := Int.eq_ofNat_of_zero_le hpa.le
  obtain ⟨k, rfl⟩ := Int.eq_ofNat_of_zero_le hpb.le
  rw [crt_def, Int.toNat_natCast, Int.toNat_natCast, xgcd_gcd]
  have : Nat.gcd m k = 1 := Nat.isCoprime_iff_coprime.mp h
  rw [if_neg (by simp [this])]
  simp

theorem modSqrtAux_ne_diverges (a : Int) :
    ∀ (facs : List Int) (first : Bool) (res n : Int),
      (∀ f ∈ facs, NiceFac f) → 0 < n → (∀ f ∈ facs, IsCoprime n f) →
      facs.Pairwise IsCoprime → modSqrtAux a facs first res n ≠ .diverges := by
  intro facs
  induction facs with
  | nil => intro first res n _ _ _ _ h; simp [modSqrtAux] at h
  | cons fac rest ih =>
    intro first res n hnice hn hcop hpw h
    rw [modSqrtAux_cons] at h
    have hnf : NiceFac fac := hnice fac (by simp)
    have hnrest : ∀ f ∈ rest, NiceFac f := fun f hf => hnice f (by simp [hf])
    rw [List.pairwise_cons] at hpw
    have hcop' : ∀ f ∈ rest, IsCoprime (n * fac) f := fun f hf =>
      IsCoprime.mul_left (hcop f (by simp [hf])) (hpw.1 f hf)
    have hrec : ∀ res', modSqrtAux a rest false res' (n * fac) ≠ .diverges := fun res' =>
      ih false res' (n * fac) hnrest (Int.mul_pos hn hnf.pos) hcop' hpw.2
    cases hloc : modSqrtLoc a fac with
    | noRoot => rw [hloc] at h; simp at h
    | diverges => exact modSqrtLoc_ne_diverges hnf hloc
    | root r1 =>
      rw [hloc] at h
      simp only at h
      cases first with
      | true =>
        simp only [if_true] at h
        exact hrec _ h
      | false =>
        simp only [Bool.false_eq_true, if_false] at h
        cases hc : crt res n r1 fac with
        | none => exact crt_ne_none hn hnf.pos (hcop fac (by simp)) hc
        | some x =>
          rw [hc] at h
          exact hrec _ h

theorem modSqrt_ne_diverges_general {a : Int} {facs : List Int}
    (hnice : ∀ f ∈ facs, NiceFac f) (hpw : facs.Pairwise IsCoprime) :
    modSqrt a facs ≠ .diverges :=
  modSqrtAux_ne_diverges a facs true 0 1 hnice (by norm_num) (fun _ _ => isCoprime_one_left) hpw

theorem isCoprime_primes {p q : Nat} (hp : p.Prime) (hq : q.Prime) (hpq : p ≠ q) :
    IsCoprime (p : Int) (q : Int) :=
  Nat.isCoprime_iff_coprime.mpr ((Nat.coprime_primes hp hq).mpr hpq)

theorem isCoprime_four_prime {p : Nat} (hp : p.Prime) (hp2 : p ≠ 2) :
    IsCoprime (4 : Int) (p : Int) := by
  have h2 : IsCoprime ((2 : Nat) : Int) (p : Int) :=
    isCoprime_primes Nat.prime_two hp (Ne.symm hp2)
  have : (4 : Int) = ((2 : Nat) : Int) * ((2 : Nat) : Int) := by norm_num
  rw [this]
  exact IsCoprime.mul_left h2 h2

theorem modSqrt_ne_diverges {a : Int} {p q : Nat} [hp : Fact p.Prime] [hq : Fact q.Prime]
    (hp2 : p ≠ 2) (hq2 : q ≠ 2) (hpq : p ≠ q)
    (hlegp : ∀ a : Int, legendreSymbol a (p : Int) = legendreSym p a)
    (hlegq : ∀ a : Int, legendreSymbol a (q : Int) = legendreSym q a) :
    modSqrt a [(p : Int), (q : Int)] ≠ .diverges := by
  apply modSqrt_ne_diverges_general
  · intro f hf
    simp only [List.mem_cons, List.not_mem_nil, or_false] at hf
    rcases hf with rfl | rfl
    · exact Or.inr ⟨p, hp, hp2, rfl, hlegp⟩
    · exact Or.inr ⟨q, hq, hq2, rfl, hlegq⟩
  · simp [isCoprime_primes hp.out hq.out hpq]

theorem modSqrt_ne_diverges_four {a : Int} {p q : Nat} [hp : Fact p.Prime] [hq : Fact q.Prime]
    (hp2 : p ≠ 2) (hq2 : q ≠ 2) (hpq : p ≠ q)
    (hlegp : ∀ a : Int, legendreSymbol a (p : Int) = legendreSym p a)
    (hlegq : ∀ a : Int, legendreSymbol a (q : Int) = legendreSym q a) :
    modSqrt a [4, (p : Int), (q : Int)] ≠ .diverges := by
  apply modSqrt_ne_diverges_general
  · intro f hf
    simp only [List.mem_cons, List.not_mem_nil, or_false] at hf
    rcases hf with rfl | rfl | rfl
    · exact Or.inl rfl
    · exact Or.inr ⟨p, hp, hp2, rfl, hlegp⟩
    · exact Or.inr ⟨q, hq, hq2, rfl, hlegq⟩
  · simp [isCoprime_primes hp.out hq.out hpq, isCoprime_four_prime hp.out hp2,
      isCoprime_four_prime hq.out hq2]

/-- existence modulo `p*q` is reported correctly. -/
theorem modSqrt_noRoot_iff {a : Int} {p q : Nat} [hp : Fact p.Prime] [hq : Fact q.Prime]
    (hp2 : p ≠ 2) (hq2 : q ≠ 2) (hpq : p ≠ q)
    (hlegp : ∀ a : Int, legendreSymbol a (p : Int) = legendreSym p a)
    (hlegq : ∀ a : Int, legendreSymbol a (q : Int) = legendreSym q a) :
    modSqrt a [(p : Int), (q : Int)] = .noRoot ↔
      ¬ ∃ r : Int, (r * r - a) % ((p : Int) * q) = 0 := by
  refine ⟨modSqrt_noRoot hp.out hq.out hp2 hq2, fun hno => ?_⟩
  cases h : modSqrt a [(p : Int), (q : Int)] with
  | noRoot => rfl
  | diverges => exact absurd h (modSqrt_ne_diverges hp2 hq2 hpq hlegp hlegq)
  | root r => exact absurd ⟨(r : Int), modSqrt_root_sq hp.out hq.out hp2 hq2 hpq h⟩ hno

/-! Regression checks for negative `a` with the factor 4 (two's-complement bits, as Go's
    `big.Int.Bit`): `-1 ≡ 3 (mod 4)` has no root, `-3 ≡ 1 (mod 4)` has one. -/
#eval modSqrt (-1) [4, 5, 13]                         -- noRoot
#eval modSqrt (-3) [4, 7, 13]                         -- root r with r² ≡ -3 (mod 364)
#eval match modSqrt (-3) [4, 7, 13] with
  | .root r => ((r : Int) * r - (-3)) % (4 * 7 * 13)  -- 0
  | _ => -1

end Gabi

#print axioms Gabi.primeSqrt_root_sq
#print axioms Gabi.primeSqrt_noRoot
#print axioms Gabi.primeSqrt_ne_diverges
#print axioms Gabi.primeSqrt_noRoot_iff
#print axioms Gabi.primeSqrt_spec
#print axioms Gabi.crt_spec
#print axioms Gabi.modSqrt_root_sq_general
#print axioms Gabi.modSqrt_root_sq
#print axioms Gabi.modSqrt_root_sq_four
#print axioms Gabi.modSqrt_noRoot_general
#print axioms Gabi.modSqrt_noRoot
#print axioms Gabi.modSqrt_noRoot_four
#print axioms Gabi.modSqrt_ne_diverges_general
#print axioms Gabi.modSqrt_ne_diverges
#print axioms Gabi.modSqrt_ne_diverges_four
#print axioms Gabi.modSqrt_noRoot_iff
