/-
  GabiProofs.ProofCodec — a canonical encoder of disclosure proofs into the message trees that
  `GabiModel.Decode` reads, and the proof that the decoder inverts it.
-/
import GabiModel.Decode
import GabiProofs.OmittedFields
import Std.Data.String.ToInt
import Std.Data.TreeMap.Raw.Lemmas
import Std.Data.TreeMap.Raw.WF
import Mathlib.Tactic.Common

namespace Gabi
open Lean Gabi.Wire

/-! ## 1. hexadecimal leaves -/

theorem hexDigit_digitChar : ∀ d, d < 16 → hexDigit? (Nat.digitChar d) = some d := by decide
theorem digitChar_ne_minus : ∀ d, d < 16 → Nat.digitChar d ≠ '-' := by decide

def hexStep (acc : Option Nat) (c : Char) : Option Nat :=
  match acc, hexDigit? c with
  | some a, some d => some (a * 16 + d)
  | _, _ => none

theorem foldl_hexStep_toDigits (n : Nat) : (Nat.toDigits 16 n).foldl hexStep (some 0) = some n := by
  induction n using Nat.strongRecOn with
  | _ n ih =>
    rw [Nat.toDigits_eq_if (by decide)]
    split
    · next h => simp [hexStep, hexDigit_digitChar n h]
    · next h =>
      rw [List.foldl_append, ih (n / 16) (by omega)]
      simp only [List.foldl_cons, List.foldl_nil, hexStep, hexDigit_digitChar (n % 16) (Nat.mod_lt _ (by decide))]
      congr 1; omega

theorem toDigits_ne_minus (n : Nat) : ∀ c ∈ Nat.toDigits 16 n, c ≠ '-' := by
  induction n using Nat.strongRecOn with
  | _ n ih =>
    rw [Nat.toDigits_eq_if (by decide)]
    split
    · next h => intro c hc; simp at hc; subst hc; exact digitChar_ne_minus n h
    · next h =>
      intro c hc
      rw [List.mem_append] at hc
      rcases hc with hc | hc
      · exact ih (n / 16) (by omega) c hc
      · simp at hc; subst hc; exact digitChar_ne_minus _ (Nat.mod_lt _ (by decide))

theorem hexOfNat_eq (n : Nat) : hexOfNat n = String.ofList (Nat.toDigits 16 n) := by
  unfold hexOfNat
  split
  · next h => subst h; rfl
  · rfl

theorem parseHexNat_ofList (l : List Char) (h : l ≠ []) :
    parseHexNat? (String.ofList l) = l.foldl hexStep (some 0) := by
  unfold parseHexNat?
  rw [if_neg (by simpa using h), String.foldl_eq_foldl_toList]
  simp only [String.toList_ofList]
  rfl

theorem parseHexNat_hexOfNat (n : Nat) : parseHexNat? (hexOfNat n) = some n := by
  rw [hexOfNat_eq, parseHexNat_ofList _ Nat.toDigits_ne_nil, foldl_hexStep_toDigits]

/-- the hexadecimal text of an integer (sign included) parses back to it. -/
theorem parseHexInt_hexOfInt (z : Int) : parseHexInt? (hexOfInt z) = some z := by
  unfold parseHexInt? hexOfInt
  split
  · next h =>
    rw [if_pos (by simp)]
    have : (("-" ++ hexOfNat z.natAbs).drop 1).toString = hexOfNat z.natAbs := by
      apply String.toList_injective
      simp [String.toList_copy_drop]
    rw [this, parseHexNat_hexOfNat]
    show some (-(z.natAbs : Int)) = some z
    congr 1; omega
  · next h =>
    have hs : (hexOfNat z.toNat).startsWith "-" = false := by
      rw [String.startsWith_string_eq_false_iff, hexOfNat_eq]
      simp only [String.toList_ofList]
      intro hp
      have : '-' ∈ Nat.toDigits 16 z.toNat := by
        obtain ⟨t, ht⟩ := hp
        rw [← ht]; simp
      exact toDigits_ne_minus _ _ this rfl
    rw [if_neg (by simp [hs]), parseHexNat_hexOfNat]
    show some ((z.toNat : Nat) : Int) = some z
    congr 1; omega

theorem parseHexBytes_go_flatMap (bs : List UInt8) :
    parseHexBytes?.go (bs.flatMap (fun b => [Nat.digitChar (b.toNat / 16), Nat.digitChar (b.toNat % 16)])) =
      some bs := by
  induction bs with
  | nil => rfl
  | cons b bs ih =>
    rw [List.flatMap_cons]
    show parseHexBytes?.go (_ :: _ :: _) = _
    unfold parseHexBytes?.go
    have hb := b.toNat_lt
    rw [hexDigit_digitChar _ (by omega), hexDigit_digitChar _ (Nat.mod_lt _ (by decide)),
      show ∀ l : List Char, ([] : List Char).append l = l from fun _ => rfl, ih]
    simp only [bind, Option.bind, pure]
    congr 2
    have : b.toNat / 16 * 16 + b.toNat % 16 = b.toNat := by omega
    rw [this]
    exact UInt8.ofNat_toNat

/-- the hexadecimal text of a byte string parses back to it. -/
theorem parseHexBytes_hexOfBytes (bs : List UInt8) : parseHexBytes? (hexOfBytes bs) = some bs := by
  unfold parseHexBytes? hexOfBytes
  simp only [String.toList_ofList]
  exact parseHexBytes_go_flatMap bs

/-! ## 2. JSON objects built from association lists -/

/-- no two entries share a key. -/
def KeysDistinct {β} (l : List (String × β)) : Prop := l.Pairwise (fun a b => a.1 ≠ b.1)

/-- entries in the order a `Json.obj` (a tree map ordered by `compare` on strings) yields them. -/
def KeysSorted {β} (l : List (String × β)) : Prop := l.Pairwise (fun a b => compare a.1 b.1 = .lt)

theorem KeysSorted.distinct {β} {l : List (String × β)} (h : KeysSorted l) : KeysDistinct l := by
  refine List.Pairwise.imp ?_ h
  intro a b hab heq
  rw [heq] at hab
  simp at hab

theorem KeysDistinct.cmp {β} {l : List (String × β)} (h : KeysDistinct l) :
    l.Pairwise (fun a b => ¬ compare a.1 b.1 = .eq) := by
  refine List.Pairwise.imp ?_ h
  intro a b hab heq
  exact hab (Std.LawfulEqCmp.compare_eq_iff_eq.mp heq)

/-- the entries of the object built from `l`, in the order the object yields them. -/
def sortedEntries {β} (l : List (String × β)) : List (String × β) :=
  (Std.TreeMap.Raw.ofList l compare).toList

theorem ofList_get?_of_mem {β} {l : List (String × β)} (hd : KeysDistinct l) {k : String} {v : β}
    (hm : (k, v) ∈ l) : (Std.TreeMap.Raw.ofList l compare).get? k = some v := by
  rw [Std.TreeMap.Raw.get?_eq_getElem?]
  exact Std.TreeMap.Raw.getElem?_ofList_of_mem (Std.LawfulEqCmp.compare_eq_iff_eq.mpr rfl) hd.cmp hm

theorem ofList_get?_of_not_mem {β} {l : List (String × β)} {k : String}
    (hm : k ∉ l.map Prod.fst) : (Std.TreeMap.Raw.ofList l compare).get? k = none := by
  rw [Std.TreeMap.Raw.get?_eq_getElem?]
  apply Std.TreeMap.Raw.getElem?_ofList_of_contains_eq_false
  simpa using hm

theorem ofList_get?_eq_some_iff {β} {l : List (String × β)} (hd : KeysDistinct l) {k : String} {v : β} :
    (Std.TreeMap.Raw.ofList l compare).get? k = some v ↔ (k, v) ∈ l := by
  constructor
  · intro h
    by_cases hk : k ∈ l.map Prod.fst
    · obtain ⟨⟨k', v'⟩, hm, rfl⟩ := List.mem_map.mp hk
      rw [ofList_get?_of_mem hd hm] at h
      simp only [Option.some.injEq] at h
      subst h
      exact hm
    · rw [ofList_get?_of_not_mem hk] at h
      exact absurd h (by simp)
  · exact ofList_get?_of_mem hd

theorem KeysDistinct.nodup {β} {l : List (String × β)} (h : KeysDistinct l) : l.Nodup := by
  refine List.Pairwise.imp ?_ h
  intro a b hab heq
  exact hab (by rw [heq])

theorem sortedEntries_sorted {β} (l : List (String × β)) : KeysSorted (sortedEntries l) :=
  Std.TreeMap.Raw.ordered_keys_toList Std.TreeMap.Raw.WF.ofList

theorem mem_sortedEntries {β} {l : List (String × β)} (hd : KeysDistinct l) (kv : String × β) :
    kv ∈ sortedEntries l ↔ kv ∈ l := by
  obtain ⟨k, v⟩ := kv
  unfold sortedEntries
  rw [Std.TreeMap.Raw.mem_toList_iff_getElem?_eq_some Std.TreeMap.Raw.WF.ofList,
    ← Std.TreeMap.Raw.get?_eq_getElem?, ofList_get?_eq_some_iff hd]

theorem sortedEntries_perm {β} {l : List (String × β)} (hd : KeysDistinct l) : (sortedEntries l).Perm l :=
  (List.perm_ext_iff_of_nodup (sortedEntries_sorted l).distinct.nodup hd.nodup).mpr (mem_sortedEntries hd)

theorem KeysSorted.eq_of_perm {β} {l l' : List (String × β)} (h : KeysSorted l) (h' : KeysSorted l')
    (hp : l.Perm l') : l = l' := by
  unfold KeysSorted at h h'
  refine List.Perm.eq_of_pairwise (le := fun a b => compare a.1 b.1 = .lt) ?_ h h' hp
  intro a b _ _ hab hba
  rw [Std.OrientedCmp.gt_of_lt hab] at hba
  exact absurd hba (by simp)

theorem sortedEntries_of_sorted {β} {l : List (String × β)} (h : KeysSorted l) : sortedEntries l = l :=
  (sortedEntries_sorted l).eq_of_perm h (sortedEntries_perm h.distinct)

/-- association lists with arbitrary keys, ordered by the text of the key. -/
def sortByKey {κ β} (key : κ → String) (m : List (κ × β)) : List (κ × β) :=
  (sortedEntries (m.map fun kv => (key kv.1, kv))).map (·.2)

def KeyedDistinct {κ β} (key : κ → String) (m : List (κ × β)) : Prop :=
  m.Pairwise (fun a b => key a.1 ≠ key b.1)

def KeyedSorted {κ β} (key : κ → String) (m : List (κ × β)) : Prop :=
  m.Pairwise (fun a b => compare (key a.1) (key b.1) = .lt)

theorem KeyedSorted.distinct {κ β} {key : κ → String} {m : List (κ × β)} (h : KeyedSorted key m) :
    KeyedDistinct key m := by
  refine List.Pairwise.imp ?_ h
  intro a b hab heq
  rw [heq] at hab
  simp at hab

theorem KeyedDistinct.map {κ β γ} {key : κ → String} {m : List (κ × β)} (h : KeyedDistinct key m)
    (f : κ × β → γ) : KeysDistinct (m.map fun kv => (key kv.1, f kv)) :=
  List.pairwise_map.mpr h

theorem map_snd_keyed {κ β} (key : κ → String) (m : List (κ × β)) :
    (m.map fun kv => (key kv.1, kv)).map (·.2) = m := by
  induction m with
  | nil => rfl
  | cons a m ih => simp only [List.map_cons, ih]

theorem sortByKey_perm {κ β} {key : κ → String} {m : List (κ × β)} (h : KeyedDistinct key m) :
    (sortByKey key m).Perm m := by
  unfold sortByKey
  have hd : KeysDistinct (m.map fun kv => (key kv.1, kv)) := h.map (fun kv => kv)
  have := (sortedEntries_perm hd).map (·.2)
  rwa [map_snd_keyed] at this

theorem sortByKey_of_sorted {κ β} {key : κ → String} {m : List (κ × β)} (h : KeyedSorted key m) :
    sortByKey key m = m := by
  unfold sortByKey
  have hs : KeysSorted (m.map fun kv => (key kv.1, kv)) := by
    unfold KeysSorted; rw [List.pairwise_map]; exact h
  rw [sortedEntries_of_sorted hs, map_snd_keyed]

theorem sortByKey_sorted {κ β} (key : κ → String) {m : List (κ × β)} (h : KeyedDistinct key m) :
    KeyedSorted key (sortByKey key m) := by
  unfold sortByKey KeyedSorted
  rw [List.pairwise_map]
  refine List.Pairwise.imp_of_mem ?_ (sortedEntries_sorted _)
  intro a b ha hb hab
  have hd : KeysDistinct (m.map fun kv => (key kv.1, kv)) := h.map (fun kv => kv)
  rw [mem_sortedEntries hd] at ha hb
  obtain ⟨x, _, rfl⟩ := List.mem_map.mp ha
  obtain ⟨y, _, rfl⟩ := List.mem_map.mp hb
  exact hab

/-- the object built from the images of `m` lists them in key order. -/
theorem sortedEntries_map {κ β γ} {key : κ → String} {m : List (κ × β)} (h : KeyedDistinct key m)
    (f : κ × β → γ) :
    sortedEntries (m.map fun kv => (key kv.1, f kv)) = (sortByKey key m).map fun kv => (key kv.1, f kv) := by
  apply (sortedEntries_sorted _).eq_of_perm
  · exact List.pairwise_map.mpr (sortByKey_sorted key h)
  · exact (sortedEntries_perm (h.map f)).trans ((sortByKey_perm h).map _).symm

/-! ## 3. reading objects -/

theorem getObjVal_mkObj_mem {l : List (String × Json)} (hd : KeysDistinct l) {k : String} {v : Json}
    (hm : (k, v) ∈ l) : (Json.mkObj l).getObjVal? k = .ok v := by
  unfold Json.mkObj Json.getObjVal?
  simp only []
  rw [ofList_get?_of_mem hd hm]
  rfl

theorem optField_mkObj_mem {l : List (String × Json)} (hd : KeysDistinct l) {k : String} {v : Json}
    (hm : (k, v) ∈ l) : Decode.optField (Json.mkObj l) k = v := by
  unfold Decode.optField
  rw [getObjVal_mkObj_mem hd hm]

/-- a `"$i"`/`"$b"` member that is not a string does not make the object a leaf. -/
def NotLeaf (l : List (String × Json)) : Prop :=
  ∀ kv ∈ l, (kv.1 = "$i" ∨ kv.1 = "$b") → ∀ s, kv.2 ≠ .str s

theorem getObjVal_mkObj_not_str {l : List (String × Json)} (hd : KeysDistinct l) (k : String)
    (hn : ∀ kv ∈ l, kv.1 = k → ∀ s, kv.2 ≠ .str s) (s : String) :
    (Json.mkObj l).getObjVal? k ≠ .ok (.str s) := by
  unfold Json.mkObj Json.getObjVal?
  simp only []
  cases h : (Std.TreeMap.Raw.ofList l compare).get? k with
  | none => simp [throw, throwThe, MonadExceptOf.throw]
  | some v =>
    rw [ofList_get?_eq_some_iff hd] at h
    intro heq
    have : v = .str s := by
      simpa [pure, Except.pure] using heq
    exact hn _ h rfl s this

theorem leafI_mkObj_none {l : List (String × Json)} (hd : KeysDistinct l) (hn : NotLeaf l) :
    Decode.leafI? (Json.mkObj l) = none := by
  have h := getObjVal_mkObj_not_str hd "$i" (fun kv hkv hk => hn kv hkv (Or.inl hk))
  unfold Decode.leafI?
  unfold Json.mkObj at h ⊢
  simp only []

theorem leafB_mkObj_none {l : List (String × Json)} (hd : KeysDistinct l) (hn : NotLeaf l) :
    Decode.leafB? (Json.mkObj l) = none := by
  have h := getObjVal_mkObj_not_str hd "$b" (fun kv hkv hk => hn kv hkv (Or.inr hk))
  unfold Decode.leafB?
  unfold Json.mkObj at h ⊢
  simp only []

theorem structObj_mkObj {l : List (String × Json)} (hd : KeysDistinct l) (hn : NotLeaf l) :
    Decode.structObj (Json.mkObj l) = .ok (some (Json.mkObj l)) := by
  have h1 := leafI_mkObj_none hd hn
  have h2 := leafB_mkObj_none hd hn
  unfold Decode.structObj
  unfold Json.mkObj at h1 h2 ⊢
  simp only [h1, h2]
  rfl

theorem objEntries_mkObj (l : List (String × Json)) :
    Decode.objEntries (Json.mkObj l) = .ok (sortedEntries l) := by
  unfold Decode.objEntries Json.mkObj sortedEntries
  simp only []
  have : (fun x : String × Json => match x with | (k, v) => (k, v)) = id := by
    funext ⟨_, _⟩; rfl
  rw [this, List.map_id]
  rfl

theorem mapM_map_ok {α β γ} (g : α → β) (f : β → Decode.D γ) (h : α → γ) (l : List α)
    (hl : ∀ a ∈ l, f (g a) = .ok (h a)) : (l.map g).mapM f = .ok (l.map h) := by
  induction l with
  | nil => rfl
  | cons a l ih =>
    rw [List.map_cons, List.mapM_cons, hl a (List.mem_cons_self ..),
      ih (fun b hb => hl b (List.mem_cons_of_mem _ hb))]
    rfl

theorem dedupKeys_foldl {α} (l acc : List (Int × α)) (h : ((acc ++ l).map (·.1)).Nodup) :
    l.foldl (fun acc kv => acc.filter (·.1 ≠ kv.1) ++ [kv]) acc = acc ++ l := by
  induction l generalizing acc with
  | nil => simp
  | cons kv l ih =>
    rw [List.foldl_cons]
    have hf : acc.filter (·.1 ≠ kv.1) = acc := by
      rw [List.filter_eq_self]
      intro a ha
      simp only [ne_eq, decide_not, Bool.not_eq_eq_eq_not, Bool.not_true, decide_eq_false_iff_not]
      intro heq
      rw [List.map_append, List.map_cons, List.nodup_append] at h
      exact h.2.2 a.1 (List.mem_map_of_mem ha) kv.1 (List.mem_cons_self ..) heq
    rw [hf, ih (acc ++ [kv]) (by simpa using h)]
    simp

theorem dedupKeys_of_nodup {α} (l : List (Int × α)) (h : (l.map (·.1)).Nodup) : Decode.dedupKeys l = l := by
  unfold Decode.dedupKeys
  rw [dedupKeys_foldl l [] (by simpa using h)]
  rfl

/-! ## 4. the canonical encoder -/

namespace Enc

def leafI (z : Int) : Json := Json.mkObj [("$i", .str (hexOfInt z))]
def leafB (bs : List UInt8) : Json := Json.mkObj [("$b", .str (hexOfBytes bs))]

/-- `*big.Int`: `null` or `{"$i": hex}`. -/
def big : Option Int → Json
  | none => .null
  | some z => leafI z

/-- `[]byte`: `null` or `{"$b": hex}`. -/
def bytes : Option (List UInt8) → Json
  | none => .null
  | some bs => leafB bs

def bigList (l : List (Option Int)) : Json := .arr (l.map big).toArray
def nat (n : Nat) : Json := .num (JsonNumber.fromNat n)
def int (z : Int) : Json := .num (JsonNumber.fromInt z)

/-- `map[int]*big.Int`: an object keyed by the decimal text of the key. -/
def intMap (m : IntMap) : Json := Json.mkObj (m.map fun kv => (toString kv.1, big kv.2))

/-- `map[string]*big.Int`. -/
def strMap (m : List (String × Option Int)) : Json := Json.mkObj (m.map fun kv => (kv.1, big kv.2))

def sacc : Option SignedAccumulator → Json
  | none => .null
  | some s => Json.mkObj [("data", bytes s.data), ("pk", nat s.pkCounter)]

/-- `nu`, `challenge` and the response "alpha" are not written. -/
def nonrev : Option NonRevProof → Json
  | none => .null
  | some nr => Json.mkObj [("C_r", big nr.cr), ("C_u", big nr.cu),
      ("responses", strMap (nr.responses.filter (·.1 ≠ "alpha"))), ("sacc", sacc nr.sacc)]

/-- `mResponse` is not written. -/
def rangeProof : Option RangeProof → Json
  | none => .null
  | some rp => Json.mkObj [("Cs", bigList rp.cs), ("ds", bigList rp.ds), ("vs", bigList rp.vs),
      ("v5", big rp.v5), ("l_d", nat rp.ld), ("sign", int rp.sign), ("a", nat rp.a), ("k", big rp.k)]

def rangeProofs : Option RPMap → Json
  | none => .null
  | some m => Json.mkObj (m.map fun kv => (toString kv.1, .arr (kv.2.map rangeProof).toArray))

end Enc

/-- the canonical message tree of a disclosure proof. -/
def ProofD.toTree (p : ProofD) : Json :=
  Json.mkObj [("c", Enc.big p.c), ("A", Enc.big p.a), ("e_response", Enc.big p.eResponse),
    ("v_response", Enc.big p.vResponse), ("a_responses", Enc.intMap p.aResponses),
    ("a_disclosed", Enc.intMap p.aDisclosed), ("nonrev_proof", Enc.nonrev p.nonrev),
    ("rangeproofs", Enc.rangeProofs p.rangeProofs)]

/-- the canonical message tree of an issuance commitment proof. -/
def ProofU.toTree (p : ProofU) : Json :=
  Json.mkObj [("U", Enc.big p.u), ("c", Enc.big p.c), ("v_prime_response", Enc.big p.vPrimeResponse),
    ("s_response", Enc.big p.sResponse), ("m_user_responses", Enc.intMap p.mUserResponses)]

/-! ## 5. what the wire can carry -/

/-- a big integer position: negative numbers only pass where the decoder is called directly. -/
def BigOk (direct : Bool) (x : Option Int) : Prop := ∀ z, x = some z → direct = true ∨ 0 ≤ z

theorem bigOk_some (d : Bool) (z : Int) (h : 0 ≤ z) : BigOk d (some z) := by
  intro z' hz; cases hz; exact Or.inr h

theorem bigOk_none (d : Bool) : BigOk d none := by
  intro z' hz; cases hz

def Int64 (k : Int) : Prop := -(2 ^ 63) ≤ k ∧ k < 2 ^ 63

structure IntMapOk (direct : Bool) (m : IntMap) : Prop where
  nodup : (m.map (·.1)).Nodup
  keys : ∀ kv ∈ m, Int64 kv.1
  vals : ∀ kv ∈ m, BigOk direct kv.2

/-! ## 6. leaves and scalars -/

theorem keysDistinct_singleton {β} (a : String × β) : KeysDistinct [a] := List.pairwise_singleton _ _

theorem leafI_leafI (z : Int) : Decode.leafI? (Enc.leafI z) = some z := by
  unfold Enc.leafI
  have h := getObjVal_mkObj_mem (keysDistinct_singleton ("$i", Json.str (hexOfInt z))) (List.mem_singleton.mpr rfl)
  unfold Decode.leafI?
  unfold Json.mkObj at h ⊢
  simp only [h, parseHexInt_hexOfInt]

theorem leafB_leafB (bs : List UInt8) : Decode.leafB? (Enc.leafB bs) = some bs := by
  unfold Enc.leafB
  have h := getObjVal_mkObj_mem (keysDistinct_singleton ("$b", Json.str (hexOfBytes bs))) (List.mem_singleton.mpr rfl)
  unfold Decode.leafB?
  unfold Json.mkObj at h ⊢
  simp only [h, parseHexBytes_hexOfBytes]

theorem decode_big (direct : Bool) (x : Option Int) (h : BigOk direct x) :
    Decode.big (Enc.big x) direct = .ok x := by
  cases x with
  | none => rfl
  | some z =>
    have hl := leafI_leafI z
    unfold Enc.big Decode.big
    unfold Enc.leafI Json.mkObj at hl ⊢
    simp only [hl]
    rw [if_neg]
    · rfl
    · rcases h z rfl with h | h
      · simp [h]
      · intro ⟨h1, _⟩; omega

theorem decode_bytes (x : Option (List UInt8)) : Decode.bytes (Enc.bytes x) = .ok x := by
  cases x with
  | none => rfl
  | some bs =>
    have hl := leafB_leafB bs
    unfold Enc.bytes Decode.bytes
    unfold Enc.leafB Json.mkObj at hl ⊢
    simp only [hl]
    rfl

theorem decode_uint (n : Nat) (h : n < 2 ^ 64) : Decode.uint (Enc.nat n) = .ok n := by
  unfold Decode.uint Enc.nat JsonNumber.fromNat
  simp only []
  rw [if_pos ⟨trivial, by omega, by exact_mod_cast h⟩]
  rfl

theorem decode_int (z : Int) (h : Int64 z) : Decode.int (Enc.int z) = .ok z := by
  unfold Decode.int Enc.int JsonNumber.fromInt
  simp only []
  rw [if_pos ⟨trivial, h.1, h.2⟩]
  rfl

theorem decode_bigList (direct : Bool) (l : List (Option Int)) (h : ∀ x ∈ l, BigOk direct x) :
    Decode.bigList (Enc.bigList l) direct = .ok l := by
  unfold Decode.bigList Enc.bigList
  simp only []
  have := mapM_map_ok Enc.big (Decode.big · direct) id l (fun x hx => decode_big direct x (h x hx))
  rwa [List.map_id] at this

/-! ## 7. maps -/

theorem toString_int_toInt? (k : Int) : (toString k).toInt? = some k := Int.toInt?_repr k

theorem dollar_not_mem_toString (k : Int) : '$' ∉ (toString k).toList := by
  show '$' ∉ (Int.repr k).toList
  rw [Int.repr_eq_if]
  split
  · rw [Nat.toList_repr]
    intro h
    have := Nat.isDigit_of_mem_toDigits (by decide) (by decide) h
    revert this; decide
  · rw [String.toList_append, Nat.toList_repr]
    intro h
    rw [List.mem_append] at h
    rcases h with h | h
    · revert h; simp
    · have := Nat.isDigit_of_mem_toDigits (by decide) (by decide) h
      revert this; decide

theorem toString_int_ne_leaf (k : Int) : toString k ≠ "$i" ∧ toString k ≠ "$b" := by
  have h := dollar_not_mem_toString k
  constructor <;> intro heq <;> rw [heq] at h <;> revert h <;> decide

theorem toString_int_injective {a b : Int} (h : toString a = toString b) : a = b :=
  Int.repr_injective h

theorem parseIntKey_toString (k : Int) (h : Int64 k) : Decode.parseIntKey (toString k) = .ok k := by
  unfold Decode.parseIntKey
  rw [toString_int_toInt?]
  simp only []
  rw [if_pos ⟨h.1, h.2⟩]
  rfl

theorem keyedDistinct_toString {β} {m : List (Int × β)} (h : (m.map (·.1)).Nodup) :
    KeyedDistinct toString m := by
  unfold KeyedDistinct
  rw [List.Nodup, List.pairwise_map] at h
  exact List.Pairwise.imp (fun hab heq => hab (toString_int_injective heq)) h

theorem notLeaf_intKeys {β} (m : List (Int × β)) (enc : Int × β → Json) :
    NotLeaf (m.map fun kv => (toString kv.1, enc kv)) := by
  intro kv hkv hk
  obtain ⟨x, _, rfl⟩ := List.mem_map.mp hkv
  rcases hk with hk | hk
  · exact absurd hk (toString_int_ne_leaf x.1).1
  · exact absurd hk (toString_int_ne_leaf x.1).2

theorem big_ne_str (x : Option Int) (s : String) : Enc.big x ≠ .str s := by
  cases x <;> simp [Enc.big, Enc.leafI, Json.mkObj]

theorem intMap_obj (direct : Bool) (t : Std.TreeMap.Raw String Json compare)
    (h1 : Decode.leafI? (.obj t) = none) (h2 : Decode.leafB? (.obj t) = none)
    (entries : List (String × Json)) (he : Decode.objEntries (.obj t) = .ok entries) :
    Decode.intMap (.obj t) direct =
      (do let l ← entries.mapM fun (k, v) => do pure (← Decode.parseIntKey k, ← Decode.big v direct)
          pure (Decode.dedupKeys l)) := by
  unfold Decode.intMap
  simp only [h1, h2, he]
  rfl

theorem strMap_obj (direct : Bool) (t : Std.TreeMap.Raw String Json compare)
    (h1 : Decode.leafI? (.obj t) = none) (h2 : Decode.leafB? (.obj t) = none)
    (entries : List (String × Json)) (he : Decode.objEntries (.obj t) = .ok entries) :
    Decode.strMap (.obj t) direct =
      (entries.mapM fun (k, v) => do pure (k, ← Decode.big v direct)) := by
  unfold Decode.strMap
  simp only [h1, h2, he]
  rfl

theorem perm_map_fst_nodup {κ β} {l l' : List (κ × β)} (hp : l.Perm l') (h : (l'.map (·.1)).Nodup) :
    (l.map (·.1)).Nodup := (hp.map _).nodup_iff.mpr h

theorem decode_intMap (direct : Bool) (m : IntMap) (h : IntMapOk direct m) :
    Decode.intMap (Enc.intMap m) direct = .ok (sortByKey toString m) := by
  have hk := keyedDistinct_toString h.nodup
  have hd : KeysDistinct (m.map fun kv => (toString kv.1, Enc.big kv.2)) := hk.map _
  have hn := notLeaf_intKeys m (fun kv => Enc.big kv.2)
  have hperm := sortByKey_perm hk
  unfold Enc.intMap
  rw [show Json.mkObj _ = Json.obj _ from rfl,
    intMap_obj direct _ (leafI_mkObj_none hd hn) (leafB_mkObj_none hd hn) _ (objEntries_mkObj _),
    sortedEntries_map hk (fun kv => Enc.big kv.2),
    mapM_map_ok _ _ id]
  · rw [List.map_id]
    show Except.ok (Decode.dedupKeys _) = _
    rw [dedupKeys_of_nodup _ (perm_map_fst_nodup hperm h.nodup)]
  · intro kv hkv
    have hm : kv ∈ m := hperm.subset hkv
    simp only [parseIntKey_toString kv.1 (h.keys kv hm), decode_big direct kv.2 (h.vals kv hm)]
    rfl

structure StrMapOk (direct : Bool) (m : List (String × Option Int)) : Prop where
  nodup : (m.map (·.1)).Nodup
  vals : ∀ kv ∈ m, BigOk direct kv.2

theorem keyedDistinct_id {β} {m : List (String × β)} (h : (m.map (·.1)).Nodup) :
    KeyedDistinct id m := by
  unfold KeyedDistinct
  rw [List.Nodup, List.pairwise_map] at h
  exact h

theorem decode_strMap (direct : Bool) (m : List (String × Option Int)) (h : StrMapOk direct m) :
    Decode.strMap (Enc.strMap m) direct = .ok (sortByKey id m) := by
  have hk := keyedDistinct_id h.nodup
  have hd : KeysDistinct (m.map fun kv => (id kv.1, Enc.big kv.2)) := hk.map _
  have hn : NotLeaf (m.map fun kv => (id kv.1, Enc.big kv.2)) := by
    intro kv hkv _ s
    obtain ⟨x, _, rfl⟩ := List.mem_map.mp hkv
    exact big_ne_str _ s
  have hperm := sortByKey_perm hk
  unfold Enc.strMap
  rw [show Json.mkObj (m.map fun kv => (kv.1, Enc.big kv.2)) =
      Json.obj (Std.TreeMap.Raw.ofList (m.map fun kv => (id kv.1, Enc.big kv.2)) compare) from rfl,
    strMap_obj direct _ (leafI_mkObj_none hd hn) (leafB_mkObj_none hd hn) _ (objEntries_mkObj _),
    sortedEntries_map hk (fun kv => Enc.big kv.2),
    mapM_map_ok _ _ id]
  · rw [List.map_id]
  · intro kv hkv
    have hm : kv ∈ m := hperm.subset hkv
    simp only [decode_big direct kv.2 (h.vals kv hm)]
    rfl

/-! ## 8. structures -/

theorem sacc_of_fields (o : Json) (hs : Decode.structObj o = .ok (some o)) (data : Option (List UInt8)) (pk : Nat)
    (h1 : Decode.bytes (Decode.optField o "data") = .ok data)
    (h2 : Decode.uint (Decode.optField o "pk") = .ok pk) :
    Decode.sacc o = .ok (some { data := data, pkCounter := pk }) := by
  unfold Decode.sacc
  rw [hs]
  simp only [bind, Except.bind, h1, h2]
  rfl

theorem decode_sacc (x : Option SignedAccumulator) (h : ∀ s, x = some s → s.pkCounter < 2 ^ 64) :
    Decode.sacc (Enc.sacc x) = .ok x := by
  cases x with
  | none => rfl
  | some s =>
    have hd : KeysDistinct [("data", Enc.bytes s.data), ("pk", Enc.nat s.pkCounter)] := by simp [KeysDistinct]
    have hn : NotLeaf [("data", Enc.bytes s.data), ("pk", Enc.nat s.pkCounter)] := by simp [NotLeaf]
    unfold Enc.sacc
    simp only []
    apply sacc_of_fields _ (structObj_mkObj hd hn)
    · rw [optField_mkObj_mem hd (v := Enc.bytes s.data) (by simp), decode_bytes]
    · rw [optField_mkObj_mem hd (v := Enc.nat s.pkCounter) (by simp), decode_uint _ (h s rfl)]

structure NonRevProof.WireOk (direct : Bool) (nr : NonRevProof) : Prop where
  cr : BigOk direct nr.cr
  cu : BigOk direct nr.cu
  responses : StrMapOk direct (nr.responses.filter (·.1 ≠ "alpha"))
  sacc : ∀ s, nr.sacc = some s → s.pkCounter < 2 ^ 64

/-- what the decoder returns for an encoded non-revocation proof: the omitted fields are gone,
    the responses come in key order. -/
def NonRevProof.reread (nr : NonRevProof) : NonRevProof :=
  { nr.strip with responses := sortByKey id nr.strip.responses }

theorem nonrev_of_fields (direct : Bool) (o : Json) (hs : Decode.structObj o = .ok (some o))
    (cr cu : Option Int) (rs : List (String × Option Int)) (sa : Option SignedAccumulator)
    (h1 : Decode.big (Decode.optField o "C_r") direct = .ok cr)
    (h2 : Decode.big (Decode.optField o "C_u") direct = .ok cu)
    (h3 : Decode.strMap (Decode.optField o "responses") direct = .ok rs)
    (h4 : Decode.sacc (Decode.optField o "sacc") = .ok sa) :
    Decode.nonrev o direct = .ok (some { cr := cr, cu := cu, responses := rs, sacc := sa }) := by
  unfold Decode.nonrev
  rw [hs]
  simp only [bind, Except.bind, h1, h2, h3, h4]
  rfl

theorem decode_nonrev (direct : Bool) (x : Option NonRevProof) (h : ∀ nr, x = some nr → nr.WireOk direct) :
    Decode.nonrev (Enc.nonrev x) direct = .ok (x.map NonRevProof.reread) := by
  cases x with
  | none => rfl
  | some nr =>
    have hw := h nr rfl
    have hd : KeysDistinct [("C_r", Enc.big nr.cr), ("C_u", Enc.big nr.cu),
      ("responses", Enc.strMap (nr.responses.filter (·.1 ≠ "alpha"))), ("sacc", Enc.sacc nr.sacc)] := by
      simp [KeysDistinct]
    have hn : NotLeaf [("C_r", Enc.big nr.cr), ("C_u", Enc.big nr.cu),
      ("responses", Enc.strMap (nr.responses.filter (·.1 ≠ "alpha"))), ("sacc", Enc.sacc nr.sacc)] := by
      simp [NotLeaf]
    unfold Enc.nonrev
    simp only []
    apply nonrev_of_fields direct _ (structObj_mkObj hd hn)
    · rw [optField_mkObj_mem hd (v := Enc.big nr.cr) (by simp), decode_big _ _ hw.cr]
      rfl
    · rw [optField_mkObj_mem hd (v := Enc.big nr.cu) (by simp), decode_big _ _ hw.cu]
      rfl
    · rw [optField_mkObj_mem hd (v := Enc.strMap (nr.responses.filter (·.1 ≠ "alpha"))) (by simp),
        decode_strMap _ _ hw.responses]
      rfl
    · rw [optField_mkObj_mem hd (v := Enc.sacc nr.sacc) (by simp), decode_sacc _ hw.sacc]
      rfl

structure RangeProof.WireOk (direct : Bool) (rp : RangeProof) : Prop where
  cs : ∀ x ∈ rp.cs, BigOk direct x
  ds : ∀ x ∈ rp.ds, BigOk direct x
  vs : ∀ x ∈ rp.vs, BigOk direct x
  v5 : BigOk direct rp.v5
  k : BigOk direct rp.k
  ld : rp.ld < 2 ^ 64
  a : rp.a < 2 ^ 64
  sign : Int64 rp.sign

theorem rangeProof_of_fields (direct : Bool) (o : Json) (hs : Decode.structObj o = .ok (some o))
    (cs ds vs : List (Option Int)) (v5 k : Option Int) (ld a : Nat) (sign : Int)
    (h1 : Decode.bigList (Decode.optField o "Cs") direct = .ok cs)
    (h2 : Decode.bigList (Decode.optField o "ds") direct = .ok ds)
    (h3 : Decode.bigList (Decode.optField o "vs") direct = .ok vs)
    (h4 : Decode.big (Decode.optField o "v5") direct = .ok v5)
    (h5 : Decode.uint (Decode.optField o "l_d") = .ok ld)
    (h6 : Decode.int (Decode.optField o "sign") = .ok sign)
    (h7 : Decode.uint (Decode.optField o "a") = .ok a)
    (h8 : Decode.big (Decode.optField o "k") direct = .ok k) :
    Decode.rangeProof o direct =
      .ok (some { cs := cs, ds := ds, vs := vs, v5 := v5, ld := ld, sign := sign, a := a, k := k }) := by
  unfold Decode.rangeProof
  rw [hs]
  simp only [bind, Except.bind, h1, h2, h3, h4, h5, h6, h7, h8]
  rfl

theorem decode_rangeProof (direct : Bool) (x : Option RangeProof) (h : ∀ rp, x = some rp → rp.WireOk direct) :
    Decode.rangeProof (Enc.rangeProof x) direct = .ok (x.map RangeProof.strip) := by
  cases x with
  | none => rfl
  | some rp =>
    have hw := h rp rfl
    have hd : KeysDistinct [("Cs", Enc.bigList rp.cs), ("ds", Enc.bigList rp.ds), ("vs", Enc.bigList rp.vs),
      ("v5", Enc.big rp.v5), ("l_d", Enc.nat rp.ld), ("sign", Enc.int rp.sign), ("a", Enc.nat rp.a),
      ("k", Enc.big rp.k)] := by simp [KeysDistinct]
    have hn : NotLeaf [("Cs", Enc.bigList rp.cs), ("ds", Enc.bigList rp.ds), ("vs", Enc.bigList rp.vs),
      ("v5", Enc.big rp.v5), ("l_d", Enc.nat rp.ld), ("sign", Enc.int rp.sign), ("a", Enc.nat rp.a),
      ("k", Enc.big rp.k)] := by simp [NotLeaf]
    unfold Enc.rangeProof
    simp only []
    apply rangeProof_of_fields direct _ (structObj_mkObj hd hn)
    · rw [optField_mkObj_mem hd (v := Enc.bigList rp.cs) (by simp), decode_bigList _ _ hw.cs]
    · rw [optField_mkObj_mem hd (v := Enc.bigList rp.ds) (by simp), decode_bigList _ _ hw.ds]
    · rw [optField_mkObj_mem hd (v := Enc.bigList rp.vs) (by simp), decode_bigList _ _ hw.vs]
    · rw [optField_mkObj_mem hd (v := Enc.big rp.v5) (by simp), decode_big _ _ hw.v5]
    · rw [optField_mkObj_mem hd (v := Enc.nat rp.ld) (by simp), decode_uint _ hw.ld]
    · rw [optField_mkObj_mem hd (v := Enc.int rp.sign) (by simp), decode_int _ hw.sign]
    · rw [optField_mkObj_mem hd (v := Enc.nat rp.a) (by simp), decode_uint _ hw.a]
    · rw [optField_mkObj_mem hd (v := Enc.big rp.k) (by simp), decode_big _ _ hw.k]

structure RPMapOk (direct : Bool) (m : RPMap) : Prop where
  nodup : (m.map (·.1)).Nodup
  keys : ∀ kv ∈ m, Int64 kv.1
  vals : ∀ kv ∈ m, ∀ rp ∈ kv.2, ∀ r, rp = some r → r.WireOk direct

theorem rangeProofs_obj (direct : Bool) (t : Std.TreeMap.Raw String Json compare)
    (h1 : Decode.leafI? (.obj t) = none) (h2 : Decode.leafB? (.obj t) = none)
    (entries : List (String × Json)) (he : Decode.objEntries (.obj t) = .ok entries) :
    Decode.rangeProofs (.obj t) direct =
      (do let l ← entries.mapM fun (k, v) => do
            let key ← Decode.parseIntKey k
            let ps ← (match v with
              | .null => pure []
              | .arr a => a.toList.mapM (Decode.rangeProof · direct)
              | _ => throw () : Decode.D (List (Option RangeProof)))
            pure (key, ps)
          pure (some (Decode.dedupKeys l))) := by
  unfold Decode.rangeProofs
  simp only [h1, h2, he]
  rfl

/-- what the decoder returns for an encoded range-proof map. -/
def rereadRPMap (m : RPMap) : RPMap := stripRPMap (sortByKey toString m)

theorem decode_rangeProofs (direct : Bool) (x : Option RPMap) (h : ∀ m, x = some m → RPMapOk direct m) :
    Decode.rangeProofs (Enc.rangeProofs x) direct = .ok (x.map rereadRPMap) := by
  cases x with
  | none => rfl
  | some m =>
    have hw := h m rfl
    have hk := keyedDistinct_toString hw.nodup
    have hd : KeysDistinct (m.map fun kv => (toString kv.1, Json.arr (kv.2.map Enc.rangeProof).toArray)) :=
      hk.map _
    have hn := notLeaf_intKeys m (fun kv => Json.arr (kv.2.map Enc.rangeProof).toArray)
    have hperm := sortByKey_perm hk
    unfold Enc.rangeProofs
    simp only []
    rw [show Json.mkObj _ = Json.obj _ from rfl,
      rangeProofs_obj direct _ (leafI_mkObj_none hd hn) (leafB_mkObj_none hd hn) _ (objEntries_mkObj _),
      sortedEntries_map hk (fun kv => Json.arr (kv.2.map Enc.rangeProof).toArray),
      mapM_map_ok _ _ (fun kv => (kv.1, kv.2.map (Option.map RangeProof.strip)))]
    · show Except.ok (some (Decode.dedupKeys _)) = _
      rw [dedupKeys_of_nodup]
      · rfl
      · rw [List.map_map]
        exact perm_map_fst_nodup hperm hw.nodup
    · intro kv hkv
      have hm : kv ∈ m := hperm.subset hkv
      simp only [parseIntKey_toString kv.1 (hw.keys kv hm)]
      have := mapM_map_ok Enc.rangeProof (Decode.rangeProof · direct) (Option.map RangeProof.strip) kv.2
        (fun rp hrp => decode_rangeProof direct rp (fun r hr => hw.vals kv hm rp hrp r hr))
      simp only [this]
      rfl

/-! ## 9. proofs -/

/-- what the wire can carry of a disclosure proof (`direct`: decoder called directly, negative
    numbers pass): non-negative integers, distinct 64-bit map keys, 64-bit counters. The omitted
    fields are unconstrained. -/
structure ProofD.WireOk (direct : Bool) (p : ProofD) : Prop where
  c : BigOk direct p.c
  a : BigOk direct p.a
  eResponse : BigOk direct p.eResponse
  vResponse : BigOk direct p.vResponse
  aResponses : IntMapOk direct p.aResponses
  aDisclosed : IntMapOk direct p.aDisclosed
  nonrev : ∀ nr, p.nonrev = some nr → nr.WireOk direct
  rangeProofs : ∀ m, p.rangeProofs = some m → RPMapOk direct m

/-- what the decoder returns for an encoded disclosure proof: the omitted fields are gone, maps
    come in the order of their key texts. -/
def ProofD.reread (p : ProofD) : ProofD :=
  { p with aResponses := sortByKey toString p.aResponses, aDisclosed := sortByKey toString p.aDisclosed,
           nonrev := p.nonrev.map NonRevProof.reread, rangeProofs := p.rangeProofs.map rereadRPMap }

theorem proofD_of_fields (direct : Bool) (o : Json) (hs : Decode.structObj o = .ok (some o))
    (c a e v : Option Int) (ar ad : IntMap) (nr : Option NonRevProof) (rps : Option RPMap)
    (h1 : Decode.big (Decode.optField o "c") direct = .ok c)
    (h2 : Decode.big (Decode.optField o "A") direct = .ok a)
    (h3 : Decode.big (Decode.optField o "e_response") direct = .ok e)
    (h4 : Decode.big (Decode.optField o "v_response") direct = .ok v)
    (h5 : Decode.intMap (Decode.optField o "a_responses") direct = .ok ar)
    (h6 : Decode.intMap (Decode.optField o "a_disclosed") direct = .ok ad)
    (h7 : Decode.nonrev (Decode.optField o "nonrev_proof") direct = .ok nr)
    (h8 : Decode.rangeProofs (Decode.optField o "rangeproofs") direct = .ok rps) :
    Decode.proofD o direct =
      .ok { c := c, a := a, eResponse := e, vResponse := v, aResponses := ar, aDisclosed := ad,
            nonrev := nr, rangeProofs := rps } := by
  unfold Decode.proofD
  rw [hs]
  simp only [bind, Except.bind, h1, h2, h3, h4, h5, h6, h7, h8]
  rfl

/-- the decoder inverts the canonical encoder. -/
theorem decode_encode_proofD (direct : Bool) (p : ProofD) (hw : p.WireOk direct) :
    Decode.proofD p.toTree direct = .ok p.reread := by
  have hd : KeysDistinct [("c", Enc.big p.c), ("A", Enc.big p.a), ("e_response", Enc.big p.eResponse),
    ("v_response", Enc.big p.vResponse), ("a_responses", Enc.intMap p.aResponses),
    ("a_disclosed", Enc.intMap p.aDisclosed), ("nonrev_proof", Enc.nonrev p.nonrev),
    ("rangeproofs", Enc.rangeProofs p.rangeProofs)] := by simp [KeysDistinct]
  have hn : NotLeaf [("c", Enc.big p.c), ("A", Enc.big p.a), ("e_response", Enc.big p.eResponse),
    ("v_response", Enc.big p.vResponse), ("a_responses", Enc.intMap p.aResponses),
    ("a_disclosed", Enc.intMap p.aDisclosed), ("nonrev_proof", Enc.nonrev p.nonrev),
    ("rangeproofs", Enc.rangeProofs p.rangeProofs)] := by simp [NotLeaf]
  unfold ProofD.toTree ProofD.reread
  apply proofD_of_fields direct _ (structObj_mkObj hd hn)
  · rw [optField_mkObj_mem hd (v := Enc.big p.c) (by simp), decode_big _ _ hw.c]
  · rw [optField_mkObj_mem hd (v := Enc.big p.a) (by simp), decode_big _ _ hw.a]
  · rw [optField_mkObj_mem hd (v := Enc.big p.eResponse) (by simp), decode_big _ _ hw.eResponse]
  · rw [optField_mkObj_mem hd (v := Enc.big p.vResponse) (by simp), decode_big _ _ hw.vResponse]
  · rw [optField_mkObj_mem hd (v := Enc.intMap p.aResponses) (by simp), decode_intMap _ _ hw.aResponses]
  · rw [optField_mkObj_mem hd (v := Enc.intMap p.aDisclosed) (by simp), decode_intMap _ _ hw.aDisclosed]
  · rw [optField_mkObj_mem hd (v := Enc.nonrev p.nonrev) (by simp), decode_nonrev _ _ hw.nonrev]
  · rw [optField_mkObj_mem hd (v := Enc.rangeProofs p.rangeProofs) (by simp),
      decode_rangeProofs _ _ hw.rangeProofs]

structure ProofU.WireOk (direct : Bool) (p : ProofU) : Prop where
  u : BigOk direct p.u
  c : BigOk direct p.c
  vPrimeResponse : BigOk direct p.vPrimeResponse
  sResponse : BigOk direct p.sResponse
  mUserResponses : IntMapOk direct p.mUserResponses

def ProofU.reread (p : ProofU) : ProofU :=
  { p with mUserResponses := sortByKey toString p.mUserResponses }

theorem proofU_of_fields (direct : Bool) (o : Json) (hs : Decode.structObj o = .ok (some o))
    (u c vp sr : Option Int) (m : IntMap)
    (h1 : Decode.big (Decode.optField o "U") direct = .ok u)
    (h2 : Decode.big (Decode.optField o "c") direct = .ok c)
    (h3 : Decode.big (Decode.optField o "v_prime_response") direct = .ok vp)
    (h4 : Decode.big (Decode.optField o "s_response") direct = .ok sr)
    (h5 : Decode.intMap (Decode.optField o "m_user_responses") direct = .ok m) :
    Decode.proofU o direct =
      .ok { u := u, c := c, vPrimeResponse := vp, sResponse := sr, mUserResponses := m } := by
  unfold Decode.proofU
  rw [hs]
  simp only [bind, Except.bind, h1, h2, h3, h4, h5]
  rfl

theorem decode_encode_proofU (direct : Bool) (p : ProofU) (hw : p.WireOk direct) :
    Decode.proofU p.toTree direct = .ok p.reread := by
  have hd : KeysDistinct [("U", Enc.big p.u), ("c", Enc.big p.c),
    ("v_prime_response", Enc.big p.vPrimeResponse), ("s_response", Enc.big p.sResponse),
    ("m_user_responses", Enc.intMap p.mUserResponses)] := by simp [KeysDistinct]
  have hn : NotLeaf [("U", Enc.big p.u), ("c", Enc.big p.c),
    ("v_prime_response", Enc.big p.vPrimeResponse), ("s_response", Enc.big p.sResponse),
    ("m_user_responses", Enc.intMap p.mUserResponses)] := by simp [NotLeaf]
  unfold ProofU.toTree ProofU.reread
  apply proofU_of_fields direct _ (structObj_mkObj hd hn)
  · rw [optField_mkObj_mem hd (v := Enc.big p.u) (by simp), decode_big _ _ hw.u]
  · rw [optField_mkObj_mem hd (v := Enc.big p.c) (by simp), decode_big _ _ hw.c]
  · rw [optField_mkObj_mem hd (v := Enc.big p.vPrimeResponse) (by simp), decode_big _ _ hw.vPrimeResponse]
  · rw [optField_mkObj_mem hd (v := Enc.big p.sResponse) (by simp), decode_big _ _ hw.sResponse]
  · rw [optField_mkObj_mem hd (v := Enc.intMap p.mUserResponses) (by simp),
      decode_intMap _ _ hw.mUserResponses]

/-! ## 10. `reread` versus `strip` -/

/-- the maps of a proof are listed in the order a JSON object yields them. -/
structure ProofD.MapsSorted (p : ProofD) : Prop where
  aResponses : KeyedSorted toString p.aResponses
  aDisclosed : KeyedSorted toString p.aDisclosed
  nonrev : ∀ nr, p.nonrev = some nr → KeyedSorted id (nr.responses.filter (·.1 ≠ "alpha"))
  rangeProofs : ∀ m, p.rangeProofs = some m → KeyedSorted toString m

theorem ProofD.reread_eq_strip (p : ProofD) (h : p.MapsSorted) : p.reread = p.strip := by
  unfold ProofD.reread ProofD.strip
  rw [sortByKey_of_sorted h.aResponses, sortByKey_of_sorted h.aDisclosed]
  congr 1
  · cases hnr : p.nonrev with
    | none => rfl
    | some nr =>
      simp only [Option.map_some, NonRevProof.reread]
      have := h.nonrev nr hnr
      rw [sortByKey_of_sorted (by exact this)]
  · cases hm : p.rangeProofs with
    | none => rfl
    | some m =>
      simp only [Option.map_some, rereadRPMap]
      rw [sortByKey_of_sorted (h.rangeProofs m hm)]

theorem ProofU.reread_eq_self (p : ProofU) (h : KeyedSorted toString p.mUserResponses) : p.reread = p := by
  unfold ProofU.reread
  rw [sortByKey_of_sorted h]

/-- in general the re-read proof is the stripped proof with every map permuted. -/
theorem ProofD.reread_perm (direct : Bool) (p : ProofD) (hw : p.WireOk direct) :
    p.reread.c = p.c ∧ p.reread.a = p.a ∧ p.reread.eResponse = p.eResponse ∧
    p.reread.vResponse = p.vResponse ∧
    p.reread.aResponses.Perm p.aResponses ∧ p.reread.aDisclosed.Perm p.aDisclosed ∧
    (∀ nr, p.nonrev = some nr → ∃ nr', p.reread.nonrev = some nr' ∧ nr'.cr = nr.cr ∧ nr'.cu = nr.cu ∧
      nr'.nu = none ∧ nr'.challenge = none ∧ nr'.sacc = nr.sacc ∧
      nr'.responses.Perm nr.strip.responses) ∧
    (p.nonrev = none → p.reread.nonrev = none) ∧
    (∀ m, p.rangeProofs = some m → ∃ m', p.reread.rangeProofs = some m' ∧ m'.Perm (stripRPMap m)) ∧
    (p.rangeProofs = none → p.reread.rangeProofs = none) := by
  refine ⟨rfl, rfl, rfl, rfl, sortByKey_perm (keyedDistinct_toString hw.aResponses.nodup),
    sortByKey_perm (keyedDistinct_toString hw.aDisclosed.nodup), ?_, ?_, ?_, ?_⟩
  · intro nr hnr
    refine ⟨nr.reread, by simp [ProofD.reread, hnr], rfl, rfl, rfl, rfl, rfl, ?_⟩
    exact sortByKey_perm (keyedDistinct_id (hw.nonrev nr hnr).responses.nodup)
  · intro hnr; simp [ProofD.reread, hnr]
  · intro m hm
    refine ⟨rereadRPMap m, by simp [ProofD.reread, hm], ?_⟩
    unfold rereadRPMap stripRPMap
    exact (sortByKey_perm (keyedDistinct_toString (hw.rangeProofs m hm).nodup)).map _
  · intro hm; simp [ProofD.reread, hm]

/-! ## 11. proof lists -/

theorem optField_mkObj_not_mem {l : List (String × Json)} {k : String} (hm : k ∉ l.map Prod.fst) :
    Decode.optField (Json.mkObj l) k = .null := by
  unfold Decode.optField Json.mkObj Json.getObjVal?
  simp only []
  rw [ofList_get?_of_not_mem hm]
  rfl

def Proof.toTree : Proof → Json
  | .d p => p.toTree
  | .u p => p.toTree

def Proof.reread : Proof → Proof
  | .d p => .d p.reread
  | .u p => .u p.reread

/-- a member of a proof list the wire can carry; `ProofList.UnmarshalJSON` tells the two kinds
    apart by the presence of `A` resp. `U`. -/
def Proof.WireOk (direct : Bool) : Proof → Prop
  | .d p => p.WireOk direct ∧ p.a.isSome
  | .u p => p.WireOk direct ∧ p.u.isSome

def Proof.MapsSorted : Proof → Prop
  | .d p => p.MapsSorted
  | .u p => KeyedSorted toString p.mUserResponses

/-- an issuance commitment proof read as a disclosure proof has no `A`. -/
theorem proofD_of_proofU_tree (direct : Bool) (p : ProofU) (hw : p.WireOk direct) :
    ∃ d, Decode.proofD p.toTree direct = .ok d ∧ d.a = none := by
  have hd : KeysDistinct [("U", Enc.big p.u), ("c", Enc.big p.c),
    ("v_prime_response", Enc.big p.vPrimeResponse), ("s_response", Enc.big p.sResponse),
    ("m_user_responses", Enc.intMap p.mUserResponses)] := by simp [KeysDistinct]
  have hn : NotLeaf [("U", Enc.big p.u), ("c", Enc.big p.c),
    ("v_prime_response", Enc.big p.vPrimeResponse), ("s_response", Enc.big p.sResponse),
    ("m_user_responses", Enc.intMap p.mUserResponses)] := by simp [NotLeaf]
  refine ⟨{ c := p.c, a := none, eResponse := none, vResponse := none, aResponses := [], aDisclosed := [],
            nonrev := none, rangeProofs := none }, ?_, rfl⟩
  · unfold ProofU.toTree
    apply proofD_of_fields direct _ (structObj_mkObj hd hn) p.c none none none [] [] none none
    · rw [optField_mkObj_mem hd (v := Enc.big p.c) (by simp), decode_big _ _ hw.c]
    · rw [optField_mkObj_not_mem (by simp)]; rfl
    · rw [optField_mkObj_not_mem (by simp)]; rfl
    · rw [optField_mkObj_not_mem (by simp)]; rfl
    · rw [optField_mkObj_not_mem (by simp)]; rfl
    · rw [optField_mkObj_not_mem (by simp)]; rfl
    · rw [optField_mkObj_not_mem (by simp)]; rfl
    · rw [optField_mkObj_not_mem (by simp)]; rfl

theorem decode_proofList_elem (direct : Bool) (pr : Proof) (hw : pr.WireOk direct) :
    (do
      let d ← Decode.proofD pr.toTree direct
      if d.a.isSome then pure (.d d) else
      let u ← Decode.proofU pr.toTree direct
      if u.u.isSome then pure (.u u) else throw () : Decode.D Proof) = .ok pr.reread := by
  cases pr with
  | d p =>
    obtain ⟨hw, ha⟩ := hw
    simp only [Proof.toTree, decode_encode_proofD direct p hw, bind, Except.bind]
    have : p.reread.a.isSome = true := ha
    rw [if_pos this]
    rfl
  | u p =>
    obtain ⟨hw, hu⟩ := hw
    obtain ⟨d, hd, hda⟩ := proofD_of_proofU_tree direct p hw
    simp only [Proof.toTree, hd, bind, Except.bind, hda, decode_encode_proofU direct p hw]
    have : p.reread.u.isSome = true := hu
    simp only [Option.isSome_none, Bool.false_eq_true, if_false, this, if_true]
    rfl

/-- the canonical tree of a proof list. -/
def proofListToTree (pl : List Proof) : Json := .arr (pl.map Proof.toTree).toArray

theorem decode_encode_proofList (direct : Bool) (pl : List Proof) (hw : ∀ pr ∈ pl, pr.WireOk direct) :
    Decode.proofList (proofListToTree pl) direct = .ok (pl.map Proof.reread) := by
  unfold Decode.proofList proofListToTree
  simp only []
  exact mapM_map_ok Proof.toTree _ Proof.reread pl (fun pr hpr => decode_proofList_elem direct pr (hw pr hpr))

theorem Proof.reread_eq_strip (pr : Proof) (h : pr.MapsSorted) : pr.reread = pr.strip := by
  cases pr with
  | d p => exact congrArg Proof.d (ProofD.reread_eq_strip p h)
  | u p => exact congrArg Proof.u (ProofU.reread_eq_self p h)

/-! ## 12. decoded response maps have distinct names -/

theorem D.bind_ok_iff {α β} {x : Decode.D α} {f : α → Decode.D β} {b : β} :
    (x >>= f) = .ok b ↔ ∃ a, x = .ok a ∧ f a = .ok b := by
  cases x <;> simp [bind, Except.bind]

theorem mapM_keys' {β γ} (g : String × β → Decode.D (String × γ))
    (hg : ∀ kv c, g kv = .ok c → c.1 = kv.1) (l : List (String × β)) (r : List (String × γ))
    (h : l.mapM g = .ok r) : r.map (·.1) = l.map (·.1) := by
  induction l generalizing r with
  | nil =>
    have h' : (Except.ok [] : Decode.D (List (String × γ))) = .ok r := h
    simp only [Except.ok.injEq] at h'
    subst h'; rfl
  | cons a l ih =>
    rw [List.mapM_cons, D.bind_ok_iff] at h
    obtain ⟨c, hc, h⟩ := h
    rw [D.bind_ok_iff] at h
    obtain ⟨r', hr', h⟩ := h
    have h' : (Except.ok (c :: r') : Decode.D (List (String × γ))) = .ok r := h
    simp only [Except.ok.injEq] at h'
    subst h'
    simp only [List.map_cons, ih r' hr', hg a c hc]

theorem mapM_keys {β γ} (f : String → β → Decode.D γ) (l : List (String × β)) (r : List (String × γ))
    (h : (l.mapM fun (kv : String × β) => do pure (kv.1, ← f kv.1 kv.2)) = .ok r) :
    r.map (·.1) = l.map (·.1) := by
  refine mapM_keys' _ ?_ l r h
  intro kv c hc
  rw [D.bind_ok_iff] at hc
  obtain ⟨v, _, hc⟩ := hc
  have h' : (Except.ok (kv.1, v) : Decode.D (String × γ)) = .ok c := hc
  simp only [Except.ok.injEq] at h'
  rw [← h']

/-- the response map of a decoded non-revocation proof has no duplicate names, provided the
    object is a well-formed tree map (as every parsed or `mkObj`-built object is). -/
theorem decoded_responses_nodup (direct : Bool) (t : Std.TreeMap.Raw String Json compare) (ht : t.WF)
    (l : List (String × Option Int)) (h : Decode.strMap (.obj t) direct = .ok l) :
    (l.map (·.1)).Nodup := by
  unfold Decode.strMap at h
  simp only [] at h
  split at h
  · rw [D.bind_ok_iff] at h
    obtain ⟨_, hthrow, _⟩ := h
    cases hthrow
  · have he : Decode.objEntries (.obj t) = .ok t.toList := by
      unfold Decode.objEntries
      simp only []
      have : (fun x : String × Json => match x with | (k, v) => (k, v)) = id := by
        funext ⟨_, _⟩; rfl
      rw [this, List.map_id]
      rfl
    rw [he] at h
    have hk := mapM_keys (fun _ v => Decode.big v direct) t.toList l h
    rw [hk]
    have hd := Std.TreeMap.Raw.distinct_keys_toList ht
    rw [List.Nodup, List.pairwise_map]
    refine List.Pairwise.imp ?_ hd
    intro a b hab heq
    exact hab (Std.LawfulEqCmp.compare_eq_iff_eq.mpr heq)

end Gabi
