/-
  GabiProofs.ConcSkeletons — the discipline side conditions of `forkJoin_race_free` for the
  skeletons of GabiModel.Conc.HB, and the concrete racy executions of the unrepaired / mutant
  skeletons.
-/
import GabiProofs.ConcHB
namespace Gabi.Conc.HB

/-! ### side conditions -/

theorem tokfree_singleton_wr : ∀ a ∈ [Act.wr 0], a.isTok = false := by simp [Act.isTok]
theorem tokfree_singleton_rd : ∀ a ∈ [Act.rd 0], a.isTok = false := by simp [Act.isTok]

theorem cacheFieldFixedBody_tokfree (v : Nat) : ∀ a ∈ cacheFieldFixedBody v, a.isTok = false := by
  unfold cacheFieldFixedBody
  split <;> simp [Act.isTok]

/-- every access of the repaired code to the field is inside the critical section. -/
theorem cacheFieldFixedBody_prot (v p : Nat) (a b : Act)
    (h : (cacheFieldFixedBody v)[p]? = some a) (hc : conflict a b = true) :
    Prot (cacheFieldFixedBody v) 0 p := by
  unfold cacheFieldFixedBody at h ⊢
  split at h
  all_goals
    rcases p with _ | _ | _ | _ | _ | p <;> simp at h <;> subst h <;> simp [conflict] at hc
  -- remaining goals: the positions holding rd 0 / wr 0
  all_goals
    refine ⟨0, by omega, by simp, ?_⟩
    intro b' hb' hu
    rcases b' with _ | _ | _ | _ | _ | b' <;> simp at hu
    all_goals omega


theorem mem_of_getElem?' {l : List Act} {p : Nat} {a : Act} (h : l[p]? = some a) : a ∈ l :=
  List.mem_of_getElem? h

/-- the actions of a generator user: atomic adds on the counter and reads of the cipher. -/
theorem cprngBody_mem (k : Nat) : ∀ a ∈ cprngBody k, a = Act.rmw 0 ∨ a = Act.rd 1 := by
  intro a ha
  unfold cprngBody at ha
  rw [List.mem_flatten] at ha
  obtain ⟨l, hl, hal⟩ := ha
  rw [List.mem_replicate] at hl
  rw [hl.2] at hal
  simpa using hal

theorem cprngBody_tokfree (k : Nat) : ∀ a ∈ cprngBody k, a.isTok = false := by
  intro a ha
  rcases cprngBody_mem k a ha with h | h <;> simp [h, Act.isTok]

theorem cprngBody_no_conflict (k k' : Nat) (a b : Act) (ha : a ∈ cprngBody k) (hb : b ∈ cprngBody k') :
    conflict a b = false := by
  rcases cprngBody_mem k a ha with h | h <;> rcases cprngBody_mem k' b hb with h' | h' <;>
    simp [h, h', conflict]

/-- the actions of an exp-proof worker: atomic adds on todoOffset, reads of the todo slice,
    writes of the slots of its own closures. -/
theorem expWorkerBody_mem (ks : List Nat) :
    ∀ a ∈ expWorkerBody ks, a = Act.rmw 0 ∨ a = Act.rd 1 ∨ ∃ k ∈ ks, a = Act.wr (2 + k) := by
  intro a ha
  unfold expWorkerBody at ha
  rw [List.mem_append] at ha
  rcases ha with ha | ha
  · rw [List.mem_flatten] at ha
    obtain ⟨l, hl, hal⟩ := ha
    rw [List.mem_map] at hl
    obtain ⟨k, hk, rfl⟩ := hl
    simp at hal
    rcases hal with h | h | h
    · exact Or.inl h
    · exact Or.inr (Or.inl h)
    · exact Or.inr (Or.inr ⟨k, hk, h⟩)
  · simp at ha; exact Or.inl ha

theorem expWorkerBody_tokfree (ks : List Nat) : ∀ a ∈ expWorkerBody ks, a.isTok = false := by
  intro a ha
  rcases expWorkerBody_mem ks a ha with h | h | ⟨k, _, h⟩ <;> simp [h, Act.isTok]

theorem expMainPre_tokfree (nTodo : Nat) : ∀ a ∈ expMainPre nTodo, a.isTok = false := by
  intro a ha
  unfold expMainPre at ha
  simp only [List.mem_append, List.mem_cons, List.mem_map, List.mem_range, List.not_mem_nil, or_false] at ha
  rcases ha with (h | h) | ⟨k, _, h⟩
  · simp [h, Act.isTok]
  · simp [h, Act.isTok]
  · simp [← h, Act.isTok]

theorem expMainPost_tokfree (nTodo : Nat) : ∀ a ∈ expMainPost nTodo, a.isTok = false := by
  intro a ha
  unfold expMainPost at ha
  simp at ha
  obtain ⟨k, _, h⟩ := ha
  simp [← h, Act.isTok]

/-- workers owning disjoint closure sets have no conflicting accesses at all. -/
theorem expWorkerBody_no_conflict (ks ks' : List Nat) (hd : ∀ k ∈ ks, k ∉ ks') (a b : Act)
    (ha : a ∈ expWorkerBody ks) (hb : b ∈ expWorkerBody ks') : conflict a b = false := by
  rcases expWorkerBody_mem ks a ha with h | h | ⟨k, hk, h⟩ <;>
    rcases expWorkerBody_mem ks' b hb with h' | h' | ⟨k', hk', h'⟩ <;>
    simp [h, h', conflict]
  all_goals first
    | omega
    | (intro hkk; subst hkk; exact hd _ hk hk')

/-! ### hand-over of a builder through the channel -/

theorem builderHandoff_access {t p : Nat} {a : Act} (h : (builderHandoff t)[p]? = some a) (ht : a.isTok = false) :
    (t = 1 ∧ p = 1 ∧ a = Act.wr 0) ∨ (t = 2 ∧ p = 2 ∧ a = Act.wr 0) ∨ (t = 2 ∧ p = 3 ∧ a = Act.rd 0) := by
  unfold builderHandoff at h
  rcases t with _ | _ | _ | t
  · rcases p with _ | _ | p <;> simp at h <;> subst h <;> simp [Act.isTok] at ht
  · rcases p with _ | _ | _ | p <;> simp at h <;> subst h <;> simp [Act.isTok] at ht ⊢
  · rcases p with _ | _ | _ | _ | p <;> simp at h <;> subst h <;> simp [Act.isTok] at ht ⊢
  · simp at h

theorem builderHandoff_rel {t p : Nat} (h : (builderHandoff t)[p]? = some (Act.rel 1000)) : t = 1 ∧ p = 2 := by
  unfold builderHandoff at h
  rcases t with _ | _ | _ | t
  · rcases p with _ | _ | p <;> simp [spawnTok] at h
  · rcases p with _ | _ | _ | p <;> simp at h ⊢
  · rcases p with _ | _ | _ | _ | p <;> simp at h
  · simp at h

/-- the preparer's writes to the builder happen before everything the receiver does with it. -/
theorem builderHandoff_race_free (e : Exec) (hc : Conforms builderHandoff e) (hw : WF e) : RaceFree e := by
  intro i j x y hij hx hy hcf
  obtain ⟨hxt, hyt⟩ := conflict_not_tok hcf
  have hxa := builderHandoff_access (hc.act i x hx) hxt
  have hya := builderHandoff_access (hc.act j y hy) hyt
  by_cases hsame : x.tid = y.tid
  · exact Relation.TransGen.single (edge_po hij hx hy hsame)
  have hacq : (builderHandoff 2)[1]? = some (Act.acq 1000) := by simp [builderHandoff]
  rcases hxa with ⟨hx1, hx2, _⟩ | ⟨hx1, hx2, _⟩ | ⟨hx1, hx2, _⟩ <;>
  rcases hya with ⟨hy1, hy2, _⟩ | ⟨hy1, hy2, _⟩ | ⟨hy1, hy2, _⟩
  all_goals first
    | exact absurd (hx1.trans hy1.symm) hsame
    | exact (token_order hc hw hx hy (o := 1000) (a := 2) (b := 1)
        (fun t' p' h => by rw [hx1]; exact builderHandoff_rel h) (by omega) (by rw [hy1]; exact hacq) (by omega)).2
    | (exfalso
       have := (token_order hc hw hy hx (o := 1000) (a := 2) (b := 1)
        (fun t' p' h => by rw [hy1]; exact builderHandoff_rel h) (by omega) (by rw [hx1]; exact hacq) (by omega)).1
       omega)

/-! ### racy executions of the unrepaired / mutant skeletons -/

/-- main creates the object and starts two users; user 1 checks and writes, user 2 reads. -/
def racyExec : Exec :=
  [⟨0, 0, .wr 0⟩, ⟨0, 1, .rel (spawnTok 1)⟩, ⟨0, 2, .rel (spawnTok 2)⟩,
   ⟨1, 0, .acq (spawnTok 1)⟩, ⟨1, 1, .rd 0⟩, ⟨1, 2, .wr 0⟩,
   ⟨2, 0, .acq (spawnTok 2)⟩, ⟨2, 1, .rd 0⟩]

theorem racyExec_wf : WF racyExec := wf_of_wfB (by decide)

/-- the write at position 5 and the read at position 7 are not ordered. -/
theorem racyExec_not_raceFree : ¬ RaceFree racyExec := by
  intro h
  have hb := h 5 7 ⟨1, 2, .wr 0⟩ ⟨2, 1, .rd 0⟩ (by omega) (by rfl) (by rfl) (by rfl)
  obtain ⟨k, hk, a, b, ha, hkb, hab⟩ := exists_edge_of_hb hb
  have ha' : a = ⟨1, 2, .wr 0⟩ := by simpa [racyExec] using ha.symm
  subst ha'
  have hk' : k = 6 ∨ k = 7 := by
    have : k < racyExec.length := by
      by_contra hge
      have : racyExec[k]? = none := by simp; omega
      rw [this] at hkb; simp at hkb
    simp [racyExec] at this; omega
  rcases hk' with rfl | rfl <;> simp [racyExec] at hkb <;> subst hkb <;> simp [edgeB, syncs] at hab

/-- both users write first (gabi#63: `witn.randomizer = randomizer` on the shared witness). -/
def racyExecWW : Exec :=
  [⟨0, 0, .wr 0⟩, ⟨0, 1, .rel (spawnTok 1)⟩, ⟨0, 2, .rel (spawnTok 2)⟩,
   ⟨1, 0, .acq (spawnTok 1)⟩, ⟨1, 1, .wr 0⟩,
   ⟨2, 0, .acq (spawnTok 2)⟩, ⟨2, 1, .wr 0⟩]

theorem racyExecWW_wf : WF racyExecWW := wf_of_wfB (by decide)

theorem racyExecWW_not_raceFree : ¬ RaceFree racyExecWW := by
  intro h
  have hb := h 4 6 ⟨1, 1, .wr 0⟩ ⟨2, 1, .wr 0⟩ (by omega) (by rfl) (by rfl) (by rfl)
  obtain ⟨k, hk, a, b, ha, hkb, hab⟩ := exists_edge_of_hb hb
  have ha' : a = ⟨1, 1, .wr 0⟩ := by simpa [racyExecWW] using ha.symm
  subst ha'
  have hk' : k = 5 ∨ k = 6 := by
    have : k < racyExecWW.length := by
      by_contra hge
      have : racyExecWW[k]? = none := by simp; omega
      rw [this] at hkb; simp at hkb
    simp [racyExecWW] at this; omega
  rcases hk' with rfl | rfl <;> simp [racyExecWW] at hkb <;> subst hkb <;> simp [edgeB, syncs] at hab

/-- mutant generator: plain `counter += n` by two users. -/
def racyExecCprng : Exec :=
  [⟨0, 0, .wr 0⟩, ⟨0, 1, .wr 1⟩, ⟨0, 2, .rel (spawnTok 1)⟩, ⟨0, 3, .rel (spawnTok 2)⟩,
   ⟨1, 0, .acq (spawnTok 1)⟩, ⟨1, 1, .rd 0⟩, ⟨1, 2, .wr 0⟩,
   ⟨2, 0, .acq (spawnTok 2)⟩, ⟨2, 1, .rd 0⟩]

theorem racyExecCprng_wf : WF racyExecCprng := wf_of_wfB (by decide)

theorem racyExecCprng_not_raceFree : ¬ RaceFree racyExecCprng := by
  intro h
  have hb := h 6 8 ⟨1, 2, .wr 0⟩ ⟨2, 1, .rd 0⟩ (by omega) (by rfl) (by rfl) (by rfl)
  obtain ⟨k, hk, a, b, ha, hkb, hab⟩ := exists_edge_of_hb hb
  have ha' : a = ⟨1, 2, .wr 0⟩ := by simpa [racyExecCprng] using ha.symm
  subst ha'
  have hk' : k = 7 ∨ k = 8 := by
    have : k < racyExecCprng.length := by
      by_contra hge
      have : racyExecCprng[k]? = none := by simp; omega
      rw [this] at hkb; simp at hkb
    simp [racyExecCprng] at this; omega
  rcases hk' with rfl | rfl <;> simp [racyExecCprng] at hkb <;> subst hkb <;> simp [edgeB, syncs] at hab

end Gabi.Conc.HB
