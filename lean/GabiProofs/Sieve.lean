/-
  GabiProofs.Sieve — `RandomPrimeInRange` (internal/common/randomprime.go): the candidate
  construction stays inside the requested interval, and the small-prime sieve only discards
  composites.
-/
import GabiModel.MathUtil
import GabiModel.Generated
import GabiProofs.DerLemmas
import GabiProofs.MathUtilLemmas
import Mathlib.Tactic.Ring
import Mathlib.Tactic.Linarith
import Mathlib.Tactic.NormNum
import Mathlib.Tactic.NormNum.Prime
import Mathlib.Data.Nat.Prime.Basic
import Mathlib.Algebra.BigOperators.Group.List.Lemmas

namespace Gabi.Sieve
open Gabi

/-! ## 1. The table -/

theorem smallPrimes_prime : ∀ q ∈ Gen.smallPrimes, q.Prime := by
  intro q hq
  simp only [Gen.smallPrimes, List.mem_cons, List.not_mem_nil, or_false] at hq
  rcases hq with h | h | h | h | h | h | h | h | h | h | h | h | h | h | h <;> subst h <;> norm_num

theorem smallPrimes_le : ∀ q ∈ Gen.smallPrimes, 3 ≤ q ∧ q ≤ 53 := by
  intro q hq
  simp only [Gen.smallPrimes, List.mem_cons, List.not_mem_nil, or_false] at hq
  omega

/-- `SmallPrimesProduct` is the product of the table (randomprime.go:24-30). -/
theorem smallPrimes_prod : Gen.smallPrimes.prod = Gen.smallPrimesProduct := by decide

theorem smallPrimes_dvd_product : ∀ q ∈ Gen.smallPrimes, q ∣ Gen.smallPrimesProduct := by
  intro q hq
  rw [← smallPrimes_prod]
  exact List.dvd_prod hq

/-- reducing modulo the product does not change divisibility by a table prime. -/
theorem mod_product_mod {q : Nat} (hq : q ∈ Gen.smallPrimes) (p : Nat) :
    p % Gen.smallPrimesProduct % q = p % q :=
  Nat.mod_mod_of_dvd p (smallPrimes_dvd_product q hq)

/-! ## 2. The sieve -/

/-- unfolding of the candidate filter: a candidate is rejected iff some table prime `q` divides it,
    except that for `start ≤ 6` the residue `q` itself is let through. -/
theorem candidate_rejected_iff (start p : Nat) :
    randomPrimeCandidateOk Gen.smallPrimes Gen.smallPrimesProduct start p = false ↔
      ∃ q ∈ Gen.smallPrimes, q ∣ p ∧ (6 < start ∨ p % Gen.smallPrimesProduct ≠ q) := by
  unfold randomPrimeCandidateOk
  simp only [Bool.not_eq_false', List.any_eq_true, Bool.and_eq_true, Bool.or_eq_true,
    decide_eq_true_eq, ne_eq, gt_iff_lt]
  constructor
  · rintro ⟨q, hq, h1, h2⟩
    refine ⟨q, hq, ?_, h2⟩
    rw [mod_product_mod hq] at h1
    exact Nat.dvd_of_mod_eq_zero h1
  · rintro ⟨q, hq, h1, h2⟩
    refine ⟨q, hq, ?_, h2⟩
    rw [mod_product_mod hq]
    exact Nat.mod_eq_zero_of_dvd h1

/-- a rejected candidate has a proper table-prime divisor, or is a table prime in disguise of a
    large `start` (impossible for real candidates, see `rejected_not_prime`). -/
theorem rejected_prime_is_small {start p : Nat}
    (h : randomPrimeCandidateOk Gen.smallPrimes Gen.smallPrimesProduct start p = false)
    (hp : p.Prime) : p ∈ Gen.smallPrimes ∧ p ≤ 53 := by
  obtain ⟨q, hq, hdvd, -⟩ := (candidate_rejected_iff start p).mp h
  have hq1 : q ≠ 1 := by have := (smallPrimes_le q hq).1; omega
  have : q = p := ((Nat.dvd_prime hp).mp hdvd).resolve_left hq1
  subst this
  exact ⟨hq, (smallPrimes_le _ hq).2⟩

/-- the sieve never discards a prime candidate: every candidate is `≥ 2^start`. -/
theorem rejected_not_prime {start p : Nat} (hge : 2 ^ start ≤ p)
    (h : randomPrimeCandidateOk Gen.smallPrimes Gen.smallPrimesProduct start p = false) :
    ¬ p.Prime := by
  intro hp
  obtain ⟨q, hq, hdvd, hcase⟩ := (candidate_rejected_iff start p).mp h
  have hq1 : q ≠ 1 := by have := (smallPrimes_le q hq).1; omega
  have hqp : q = p := ((Nat.dvd_prime hp).mp hdvd).resolve_left hq1
  subst hqp
  have hle := (smallPrimes_le _ hq).2
  rcases hcase with h6 | hne
  · have : 2 ^ 7 ≤ 2 ^ start := Nat.pow_le_pow_right (by norm_num) h6
    omega
  · apply hne
    apply Nat.mod_eq_of_lt
    unfold Gen.smallPrimesProduct
    omega

/-- conversely an accepted candidate has no table-prime divisor, except possibly itself-like residues
    when `start ≤ 6`. -/
theorem accepted_iff (start p : Nat) :
    randomPrimeCandidateOk Gen.smallPrimes Gen.smallPrimesProduct start p = true ↔
      ∀ q ∈ Gen.smallPrimes, q ∣ p → start ≤ 6 ∧ p % Gen.smallPrimesProduct = q := by
  rw [← Bool.not_eq_false, candidate_rejected_iff]
  constructor
  · intro h q hq hd
    by_contra hcon
    exact h ⟨q, hq, hd, by omega⟩
  · rintro h ⟨q, hq, hd, hc⟩
    have := h q hq hd
    omega

/-! ## 3. The candidate construction (randomprime.go:41-72) -/

/-- `b := length % 8; if b == 0 { b = 8 }` -/
def maskBits (length : Nat) : Nat := if length % 8 = 0 then 8 else length % 8

/-- `bytes[0] &= uint8(int(1<<b) - 1)` -/
def maskFirst (b : Nat) : List UInt8 → List UInt8
  | [] => []
  | x :: xs => (x &&& (2 ^ b - 1).toUInt8) :: xs

/-- `bytes[len(bytes)-1] |= 1` -/
def setLastOdd : List UInt8 → List UInt8
  | [] => []
  | [x] => [x ||| 1]
  | x :: y :: xs => x :: setLastOdd (y :: xs)

/-- the candidate built from `(length+7)/8` random bytes: `p = 2^start + SetBytes(bytes)`. -/
def candidate (start length : Nat) (bytes : List UInt8) : Nat :=
  2 ^ start + ofBytesBE (setLastOdd (maskFirst (maskBits length) bytes))

theorem setLastOdd_length : ∀ l : List UInt8, (setLastOdd l).length = l.length
  | [] => rfl
  | [_] => rfl
  | _ :: y :: xs => by
    simp only [setLastOdd, List.length_cons]
    have := setLastOdd_length (y :: xs)
    simp only [List.length_cons] at this
    omega

theorem ofBytesBE_setLastOdd_odd : ∀ l : List UInt8, l ≠ [] → ofBytesBE (setLastOdd l) % 2 = 1
  | [], h => absurd rfl h
  | [x], _ => by
    simp only [setLastOdd, ofBytesBE_cons, ofBytesBE_nil, List.length_nil, Nat.pow_zero,
      Nat.mul_one, Nat.add_zero, UInt8.toNat_or]
    rw [Nat.or_mod_two_eq_one]
    right; rfl
  | x :: y :: xs, _ => by
    have ih := ofBytesBE_setLastOdd_odd (y :: xs) (by simp)
    simp only [setLastOdd, ofBytesBE_cons] at ih ⊢
    rw [setLastOdd_length, List.length_cons, Nat.pow_succ]
    have : x.toNat * (256 ^ xs.length * 256) = 2 * (x.toNat * 256 ^ xs.length * 128) := by ring
    omega

theorem mask_toNat {b : Nat} (hb : b ≤ 8) : ((2 ^ b - 1).toUInt8).toNat = 2 ^ b - 1 := by
  rw [toUInt8_toNat]
  apply Nat.mod_eq_of_lt
  have : 2 ^ b ≤ 2 ^ 8 := Nat.pow_le_pow_right (by norm_num) hb
  have : 0 < 2 ^ b := Nat.pos_of_ne_zero (by positivity)
  omega

theorem offset_lt {b : Nat} (hb1 : 1 ≤ b) (hb8 : b ≤ 8) (x : UInt8) (xs : List UInt8) :
    ofBytesBE (setLastOdd (maskFirst b (x :: xs))) < 2 ^ b * 256 ^ xs.length := by
  have hmask : (x &&& (2 ^ b - 1).toUInt8).toNat < 2 ^ b := by
    rw [UInt8.toNat_and, mask_toNat hb8, Nat.and_two_pow_sub_one_eq_mod]
    exact Nat.mod_lt _ (Nat.pos_of_ne_zero (by positivity))
  cases xs with
  | nil =>
    simp only [maskFirst, setLastOdd, ofBytesBE_cons, ofBytesBE_nil, List.length_nil, Nat.pow_zero,
      Nat.mul_one, Nat.add_zero, UInt8.toNat_or]
    apply Nat.or_lt_two_pow hmask
    have : 2 ^ 1 ≤ 2 ^ b := Nat.pow_le_pow_right (by norm_num) hb1
    have h1 : (1 : UInt8).toNat = 1 := rfl
    omega
  | cons y ys =>
    simp only [maskFirst, setLastOdd, ofBytesBE_cons]
    rw [setLastOdd_length]
    have hrest := ofBytesBE_lt (setLastOdd (y :: ys))
    rw [setLastOdd_length] at hrest
    have : ((x &&& (2 ^ b - 1).toUInt8).toNat + 1) * 256 ^ (y :: ys).length
        ≤ 2 ^ b * 256 ^ (y :: ys).length := Nat.mul_le_mul_right _ hmask
    nlinarith

/-- every candidate lies in `(2^start, 2^start + 2^length)` and is odd. -/
theorem candidate_range {start length : Nat} {bytes : List UInt8} (hl : 1 ≤ length)
    (hlen : bytes.length = (length + 7) / 8) :
    2 ^ start < candidate start length bytes ∧
      candidate start length bytes < 2 ^ start + 2 ^ length ∧
      (1 ≤ start → candidate start length bytes % 2 = 1) := by
  unfold candidate
  cases bytes with
  | nil => simp only [List.length_nil] at hlen; omega
  | cons x xs =>
    have hb1 : 1 ≤ maskBits length := by unfold maskBits; split <;> omega
    have hb8 : maskBits length ≤ 8 := by unfold maskBits; split <;> omega
    have hlt := offset_lt hb1 hb8 x xs
    have hodd : ofBytesBE (setLastOdd (maskFirst (maskBits length) (x :: xs))) % 2 = 1 :=
      ofBytesBE_setLastOdd_odd _ (by simp [maskFirst])
    have hpow : 2 ^ maskBits length * 256 ^ xs.length = 2 ^ length := by
      have h256 : (256 : Nat) = 2 ^ 8 := by norm_num
      rw [h256, ← Nat.pow_mul, ← Nat.pow_add]
      congr 1
      simp only [List.length_cons] at hlen
      unfold maskBits
      split <;> omega
    rw [hpow] at hlt
    refine ⟨by omega, by omega, ?_⟩
    intro hs
    have : 2 ^ start % 2 = 0 := by
      obtain ⟨k, rfl⟩ : ∃ k, start = k + 1 := ⟨start - 1, by omega⟩
      rw [Nat.pow_succ]; omega
    omega

end Gabi.Sieve

#print axioms Gabi.Sieve.rejected_not_prime
#print axioms Gabi.Sieve.rejected_prime_is_small
#print axioms Gabi.Sieve.accepted_iff
#print axioms Gabi.Sieve.candidate_range
