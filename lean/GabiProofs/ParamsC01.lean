/-
  GabiProofs.ParamsC01 — parameter arithmetic used by property C01 (soundness of the
  disclosure proof): the response / attribute ranges are so far below the group order that
  knowing the order does not let a holder move a response or a disclosed value to another
  representative of its class. Re-exported by the C01 property file.
-/
import GabiProofs.Params

namespace Gabi

/-! ### the group order of a key with `Ln/2`-bit safe primes -/

/-- `p = 2p'+1`, `q = 2q'+1` with `p, q ≥ 2^(Ln/2-1)` (i.e. of `Ln/2` bits) have
    `p'·q' ≥ 2^(Ln-4)`. -/
theorem order_lower_bound {P : SysParams} (hP : ParamsSound P) {p q p' q' : Int}
    (hp : p = 2 * p' + 1) (hq : q = 2 * q' + 1)
    (hpb : 2 ^ (P.Ln / 2 - 1) ≤ p) (hqb : 2 ^ (P.Ln / 2 - 1) ≤ q) :
    2 ^ (P.Ln - 4) ≤ p' * q' :=
  safe_prime_order_ge hP.Ln_even hP.Ln_ge hp hq hpb hqb

/-- the same with `p' = (p-1)/2` for odd `p`, `q` (primes of that size are odd). -/
theorem order_lower_bound_div {P : SysParams} (hP : ParamsSound P) {p q : Int}
    (hpo : p % 2 = 1) (hqo : q % 2 = 1)
    (hpb : 2 ^ (P.Ln / 2 - 1) ≤ p) (hqb : 2 ^ (P.Ln / 2 - 1) ≤ q) :
    2 ^ (P.Ln - 4) ≤ ((p - 1) / 2) * ((q - 1) / 2) :=
  order_lower_bound hP (p' := (p - 1) / 2) (q' := (q - 1) / 2) (by omega) (by omega) hpb hqb

/-- oddness is needed: for even `p = q = 2^(k-1)` the bound fails (here `Ln = 8`, `k = 4`). -/
example : ¬ ((2 : Int) ^ (8 - 4) ≤ (((2 : Int) ^ (8 / 2 - 1) - 1) / 2) * (((2 : Int) ^ (8 / 2 - 1) - 1) / 2)) := by
  decide

/-- for a private key of the model: `order = p'·q' ≥ 2^(Ln-4)`. -/
theorem privateKey_order_ge {P : SysParams} (hP : ParamsSound P) {sk : PrivateKey}
    (hp : sk.p = 2 * sk.pPrime + 1) (hq : sk.q = 2 * sk.qPrime + 1)
    (hpb : 2 ^ (P.Ln / 2 - 1) ≤ sk.p) (hqb : 2 ^ (P.Ln / 2 - 1) ≤ sk.q) :
    2 ^ (P.Ln - 4) ≤ sk.order :=
  order_lower_bound hP hp hq hpb hqb

/-- non-vacuity: the 8-bit "parameter set" shape `p = 23 = 2·11+1`, `q = 11 = 2·5+1`, and a
    default set satisfies `ParamsSound`. -/
example : (2 : Int) ^ (8 - 4) ≤ 11 * 5 := by decide
example : ∃ P, ParamsSound P := by
  obtain ⟨P, hP⟩ := default_sets_exist.1
  exact ⟨P, default_params_sound (isDefaultParams_of_lookup hP)⟩

/-! ### responses: at most one representative of a class modulo the order is in range -/

/-- attribute responses: if `s` passes the range check `[0, 2^(LmCommit+1))` then no other
    representative `s + k·ord` (`k ≠ 0`) of its class modulo the group order does. -/
theorem order_shift_excluded {P : SysParams} (hP : ParamsSound P) {ord s k : Int}
    (hord : 2 ^ (P.Ln - 4) ≤ ord) (hs0 : 0 ≤ s) (hs : s < 2 ^ (P.LmCommit + 1)) (hk : k ≠ 0) :
    ¬ (0 ≤ s + k * ord ∧ s + k * ord < 2 ^ (P.LmCommit + 1)) :=
  shift_out_of_range (le_trans (two_pow_lt_two_pow_int hP.mResp_lt).le hord) hs0 hs hk

/-- the same for the `e`-response range `[0, 2^(LeCommit+1))`. -/
theorem order_shift_excluded_e {P : SysParams} (hP : ParamsSound P) {ord s k : Int}
    (hord : 2 ^ (P.Ln - 4) ≤ ord) (hs0 : 0 ≤ s) (hs : s < 2 ^ (P.LeCommit + 1)) (hk : k ≠ 0) :
    ¬ (0 ≤ s + k * ord ∧ s + k * ord < 2 ^ (P.LeCommit + 1)) :=
  shift_out_of_range (le_trans (two_pow_lt_two_pow_int hP.eResp_lt).le hord) hs0 hs hk

/-- consequence: two in-range responses that are congruent modulo the order are equal. -/
theorem response_class_unique {P : SysParams} (hP : ParamsSound P) {ord s s' : Int}
    (hord : 2 ^ (P.Ln - 4) ≤ ord)
    (hs0 : 0 ≤ s) (hs : s < 2 ^ (P.LmCommit + 1)) (hs0' : 0 ≤ s') (hs' : s' < 2 ^ (P.LmCommit + 1))
    (hc : s % ord = s' % ord) : s = s' := by
  have hB : (2 : Int) ^ (P.LmCommit + 1) ≤ ord :=
    le_trans (two_pow_lt_two_pow_int hP.mResp_lt).le hord
  exact eq_of_emod_eq_of_lt hs0 hs0' (by omega) (by omega) hc

theorem response_class_unique_e {P : SysParams} (hP : ParamsSound P) {ord s s' : Int}
    (hord : 2 ^ (P.Ln - 4) ≤ ord)
    (hs0 : 0 ≤ s) (hs : s < 2 ^ (P.LeCommit + 1)) (hs0' : 0 ≤ s') (hs' : s' < 2 ^ (P.LeCommit + 1))
    (hc : s % ord = s' % ord) : s = s' := by
  have hB : (2 : Int) ^ (P.LeCommit + 1) ≤ ord :=
    le_trans (two_pow_lt_two_pow_int hP.eResp_lt).le hord
  exact eq_of_emod_eq_of_lt hs0 hs0' (by omega) (by omega) hc

/-- **fails for the toy set** (`Ln = 256`, `LmCommit = 592`): with `ord = 2^252`, the responses
    `s = 0` and `s + 1·ord` are both inside `[0, 2^593)`. -/
theorem order_shift_toy_fails :
    ∃ ord s k : Int, 2 ^ (toyParams.Ln - 4) ≤ ord ∧ 0 ≤ s ∧ s < 2 ^ (toyParams.LmCommit + 1) ∧ k ≠ 0 ∧
      0 ≤ s + k * ord ∧ s + k * ord < 2 ^ (toyParams.LmCommit + 1) := by
  refine ⟨2 ^ 252, 0, 1, ?_⟩
  have h1 : toyParams.Ln = 256 := by decide
  have h2 : toyParams.LmCommit = 592 := by decide
  rw [h1, h2]
  refine ⟨by norm_num, le_refl _, by positivity, one_ne_zero, by positivity, ?_⟩
  rw [zero_add, one_mul]; exact two_pow_lt_two_pow_int (by norm_num)

/-- … and also for the toy `e`-response range (`LeCommit = 456`). -/
theorem order_shift_toy_fails_e :
    ∃ ord s k : Int, 2 ^ (toyParams.Ln - 4) ≤ ord ∧ 0 ≤ s ∧ s < 2 ^ (toyParams.LeCommit + 1) ∧ k ≠ 0 ∧
      0 ≤ s + k * ord ∧ s + k * ord < 2 ^ (toyParams.LeCommit + 1) := by
  refine ⟨2 ^ 252, 0, 1, ?_⟩
  have h1 : toyParams.Ln = 256 := by decide
  have h2 : toyParams.LeCommit = 456 := by decide
  rw [h1, h2]
  refine ⟨by norm_num, le_refl _, by positivity, one_ne_zero, by positivity, ?_⟩
  rw [zero_add, one_mul]; exact two_pow_lt_two_pow_int (by norm_num)

/-! ### disclosed values -/

theorem bitLen_le_of_lt_two_pow {a : Int} {k : Nat} (h0 : 0 ≤ a) (h : a < 2 ^ k) : bitLen a ≤ k := by
  rw [bitLen_eq_natBitLen, natBitLen_le_iff]
  have : ((a.natAbs : Nat) : Int) < ((2 ^ k : Nat) : Int) := by
    rw [Int.natAbs_of_nonneg h0]; push_cast; exact h
  exact_mod_cast this

/-- A disclosed value `a` of at most `Lm` bits (used un-hashed as exponent): every *other*
    integer `a'` (of either sign) in the same class modulo the group order has more than `Lm` bits. -/
theorem disclosed_shift_excluded {P : SysParams} (hP : ParamsSound P) {ord a a' : Int}
    (hord : 2 ^ (P.Ln - 4) ≤ ord) (ha0 : 0 ≤ a) (ha : bitLen a ≤ P.Lm)
    (hc : a % ord = a' % ord) (hne : a ≠ a') : bitLen a' > P.Lm := by
  by_contra hcon
  have hcon' : bitLen a' ≤ P.Lm := by omega
  have h1 : a < 2 ^ P.Lm := lt_two_pow_of_bitLen_le ha0 ha
  -- |a'| < 2^Lm
  have h2 : |a'| < 2 ^ P.Lm := by
    have hb : bitLen |a'| ≤ P.Lm := by
      rw [bitLen_eq_natBitLen] at hcon' ⊢
      rwa [Int.natAbs_abs]
    exact lt_two_pow_of_bitLen_le (abs_nonneg _) hb
  have h3 : (2 : Int) ^ (P.Lm + 1) ≤ 2 ^ (P.Ln - 4) := two_pow_le_two_pow_int (by have := hP.Lm_lt; omega)
  have h4 : (2 : Int) ^ (P.Lm + 1) = 2 ^ P.Lm + 2 ^ P.Lm := by ring
  have hdvd : ord ∣ a - a' := Int.dvd_of_emod_eq_zero (Int.emod_eq_emod_iff_emod_sub_eq_zero.mp hc)
  obtain ⟨t, ht⟩ := hdvd
  have habs := abs_lt.mp h2
  have hord0 : 0 ≤ ord := le_trans (by positivity) hord
  rcases lt_trichotomy t 0 with ht0 | ht0 | ht0
  · have : ord * t ≤ ord * (-1) := mul_le_mul_of_nonneg_left (by omega) hord0
    omega
  · subst ht0; apply hne; omega
  · have : ord * 1 ≤ ord * t := mul_le_mul_of_nonneg_left (by omega) hord0
    omega

/-- hence the verifier does not use `a'` itself but the SHA-256 of its bytes as exponent, while
    `a` is used as it is: shifting a disclosed value by a multiple of the order changes the
    exponent to an (unrelated) 256-bit hash value. -/
theorem disclosed_shift_hashed {P : SysParams} (hP : ParamsSound P) {ord a a' : Int}
    (hord : 2 ^ (P.Ln - 4) ≤ ord) (ha0 : 0 ≤ a) (ha : bitLen a ≤ P.Lm)
    (hc : a % ord = a' % ord) (hne : a ≠ a') :
    attrExp P.Lm a = a ∧ attrExp P.Lm a' = (intHashSha256 (intBytes a') : Int) ∧
      attrExp P.Lm a' < 2 ^ 256 := by
  have h := disclosed_shift_excluded hP hord ha0 ha hc hne
  have h1 : attrExp P.Lm a = a := by unfold attrExp; rw [if_neg (by omega)]
  have h2 : attrExp P.Lm a' = (intHashSha256 (intBytes a') : Int) := by unfold attrExp; rw [if_pos h]
  refine ⟨h1, h2, ?_⟩
  rw [h2]; exact_mod_cast intHashSha256_lt _

/-- **fails for the toy set** (`Lm = 256 = Ln`): `a = 0` and `a' = 2^252 = a + ord` are both
    at most `Lm` bits long. -/
theorem disclosed_shift_toy_fails :
    ∃ ord a a' : Int, 2 ^ (toyParams.Ln - 4) ≤ ord ∧ 0 ≤ a ∧ bitLen a ≤ toyParams.Lm ∧
      a % ord = a' % ord ∧ a ≠ a' ∧ ¬ (bitLen a' > toyParams.Lm) := by
  refine ⟨2 ^ 252, 0, 2 ^ 252, ?_⟩
  have h1 : toyParams.Ln = 256 := by decide
  have h2 : toyParams.Lm = 256 := by decide
  rw [h1, h2]
  refine ⟨by norm_num, le_refl _, ?_, by norm_num, by norm_num, ?_⟩
  · exact bitLen_le_of_lt_two_pow (le_refl _) (by norm_num)
  · have := bitLen_le_of_lt_two_pow (a := 2 ^ 252) (k := 256) (by norm_num) (by norm_num)
    omega

/-- non-vacuity of `disclosed_shift_excluded` on the 1024-bit set: `a = 5`, `a' = 5 + 2^1020`. -/
example : ∃ P ord a a', ParamsSound P ∧ (2 : Int) ^ (P.Ln - 4) ≤ ord ∧ 0 ≤ a ∧ bitLen a ≤ P.Lm ∧
    a % ord = a' % ord ∧ a ≠ a' := by
  obtain ⟨P, hP⟩ := default_sets_exist.1
  have hs := default_params_sound (isDefaultParams_of_lookup hP)
  refine ⟨P, 2 ^ (P.Ln - 4), 5, 5 + 2 ^ (P.Ln - 4), hs, le_refl _, by norm_num, ?_, ?_, ?_⟩
  · refine bitLen_le_of_lt_two_pow (by norm_num) ?_
    calc (5 : Int) < 2 ^ 256 := by norm_num
      _ ≤ 2 ^ P.Lm := two_pow_le_two_pow_int hs.Lm_ge
  · simp
  · have : (0 : Int) < 2 ^ (P.Ln - 4) := by positivity
    omega

end Gabi

#print axioms Gabi.order_lower_bound
#print axioms Gabi.order_lower_bound_div
#print axioms Gabi.privateKey_order_ge
#print axioms Gabi.order_shift_excluded
#print axioms Gabi.order_shift_excluded_e
#print axioms Gabi.response_class_unique
#print axioms Gabi.response_class_unique_e
#print axioms Gabi.order_shift_toy_fails
#print axioms Gabi.order_shift_toy_fails_e
#print axioms Gabi.disclosed_shift_excluded
#print axioms Gabi.disclosed_shift_hashed
#print axioms Gabi.disclosed_shift_toy_fails
