/-
  GabiModel.Der — DER encoding of the SEQUENCE that gabi hashes (X.690 §8.1.3, §8.2, §8.3, §8.9).
  Written from the standard, independent of encoding/asn1.
-/
import GabiModel.Num
namespace Gabi.Der
open Gabi

/-- fixed-width big-endian bytes: `k` bytes of `n mod 256^k`. -/
def toBytesFixed : (k : Nat) → (n : Nat) → List UInt8
  | 0, _ => []
  | k + 1, n => (n / 256 ^ k % 256).toUInt8 :: toBytesFixed k n

/-- number of content octets of a DER INTEGER. -/
def intContentLen (z : Int) : Nat :=
  natBitLen (if z ≥ 0 then z.toNat else (-z - 1).toNat) / 8 + 1

/-- two's-complement minimal big-endian content octets (X.690 §8.3). -/
def intContent (z : Int) : List UInt8 :=
  let k := intContentLen z
  toBytesFixed k (z % (256 ^ k : Int)).toNat

/-- minimal big-endian bytes of a positive length (long form payload). -/
def lenBytes (n : Nat) : List UInt8 := toBytesFixed ((natBitLen n + 7) / 8) n

/-- definite-length octets (§8.1.3): short form below 128, else long form. -/
def derLen (n : Nat) : List UInt8 :=
  if n < 128 then [n.toUInt8] else
    let bs := lenBytes n
    (0x80 + bs.length).toUInt8 :: bs

def derInt (z : Int) : List UInt8 := let c := intContent z; 0x02 :: (derLen c.length ++ c)
def derBool (b : Bool) : List UInt8 := [0x01, 0x01, if b then 0xff else 0x00]
def derSeq (items : List (List UInt8)) : List UInt8 :=
  let body := items.flatten
  0x30 :: (derLen body.length ++ body)

end Gabi.Der
