/-
  GabiModel.CL — Camenisch–Lysyanskaya signatures (clsignature.go, mathutil.go:RepresentToBases).
-/
import GabiModel.Keys
import GabiModel.HashTool
import GabiModel.GoM
namespace Gabi

structure CLSignature where
  a : Int
  e : Int
  v : Int
  keyshareP : Option Int := none
deriving Repr, DecidableEq

/-- `common.RepresentToBases(bases, exps, modulus, maxMessageLength)`:
    `∏ bases_i ^ exp(exps_i) mod n`, exponents longer than `lm` bits hashed. Indexing `bases[i]`
    panics when there are more exponents than bases. -/
def representToBases (bases : List Int) (exps : List Int) (n : Int) (lm : Nat) : GoM Int :=
  let rec go (i : Nat) (es : List Int) (r : Int) : GoM Int :=
    match es with
    | [] => pure r
    | e :: es => do
      let b ← idx "bases[i]" bases i
      match goExp b (attrExp lm e) n with
      | some t => go (i + 1) es (r * t % n)
      | none => throw (.nilDeref "Exp returned nil")
  go 0 exps 1

/-- the guard of `RepresentToPublicKey` (clsignature.go): a negative exponent whose magnitude is
    longer than `lm` bits (`exp.Sign() < 0 && exp.BitLen() > int(pk.Params.Lm)`). The hash of an
    oversized exponent is over its magnitude only, so `-x` would stand for `x`. -/
def negOversized (lm : Nat) (m : Int) : Bool :=
  decide (m < 0) && decide (bitLen m > lm)

/-- `RepresentToPublicKey(pk, exps)`: `none` is the error return ("negative exponent exceeds the
    message length"). All exponents are looked at before any base is indexed, so the error wins
    over the index panic of `RepresentToBases`. -/
def representToPublicKey (pk : PublicKey) (exps : List Int) : GoM (Option Int) :=
  if exps.any (negOversized pk.params.Lm) then pure none
  else do
    let r ← representToBases pk.r exps pk.n pk.params.Lm
    pure (some r)

/-- the interval `[2^(le-1), 2^(le-1) + 2^(le'-1)]` for the signature exponent. -/
def eInInterval (p : SysParams) (e : Int) : Bool :=
  let start : Int := 2 ^ (p.Le - 1)
  let stop : Int := start + 2 ^ (p.LePrime - 1)
  decide (start ≤ e) && decide (e ≤ stop)

/-- `CLSignature.Verify(pk, ms)`. `isPrime` is the primality oracle (`ProbablyPrime(80)`). -/
def clVerifyWith (isPrime : Nat → Bool) (pk : PublicKey) (sig : CLSignature) (ms : List Int) : GoM Bool := do
  if !eInInterval pk.params sig.e then return false
  if !isPrime sig.e.toNat then return false
  let ae ← deref "Exp" (goExp sig.a sig.e pk.n)
  match ← representToPublicKey pk ms with
  | none => return false
  | some r =>
    let r := match sig.keyshareP with
      | some p => r * p
      | none => r
    match modPow pk.s sig.v pk.n with
    | none => return false
    | some sv =>
      let q := ae * r * sv % pk.n
      return decide (pk.z = q)

def clVerify (pk : PublicKey) (sig : CLSignature) (ms : List Int) : GoM Bool :=
  clVerifyWith probablyPrime pk sig ms

/-- `CLSignature.Randomize` with explicit randomness `r`. -/
def clRandomize (pk : PublicKey) (sig : CLSignature) (r : Int) : CLSignature :=
  let sr := (goExp pk.s r pk.n).getD 0
  { a := sig.a * sr % pk.n, e := sig.e, v := sig.v - sig.e * r, keyshareP := sig.keyshareP }

/-- the issuer's signing equation with explicit randomness: given `v`, prime `e` and
    `d = e⁻¹ mod ord`, `A = (Z / (S^v · R · U))^d`. `none` = an inverse does not exist, or `RepresentToPublicKey`
    returned its error (nothing is signed). -/
def clSignWith (pk : PublicKey) (order : Int) (u : Int) (ms : List Int) (v e : Int) : Option CLSignature := do
  let r ← (representToPublicKey pk ms).toOption.join
  let sv ← goExp pk.s v pk.n
  let numerator := sv * r * u % pk.n
  let inv ← commonModInverse numerator pk.n
  let q := pk.z * inv % pk.n
  let d ← commonModInverse e order
  let a ← goExp q d pk.n
  pure { a := a, e := e, v := v }

end Gabi
