/-
  GabiModel.Decode — decoding of message trees the way encoding/json + gabi's custom
  unmarshalers decode the corresponding gabi JSON (builder.go:31-58, big/int.go:56-77).
  `throw ()` = the Go decoder returns an error. Leaves: {"$i": hex} big integer, {"$b": hex} bytes.
-/
import Lean.Data.Json
import GabiModel.Wire
import GabiModel.Proofs
namespace Gabi.Decode
open Lean Gabi Gabi.Wire

abbrev D := Except Unit

def leafI? (j : Json) : Option Int :=
  match j with
  | .obj _ => match j.getObjVal? "$i" with
    | .ok (.str s) => parseHexInt? s
    | _ => none
  | _ => none

def leafB? (j : Json) : Option (List UInt8) :=
  match j with
  | .obj _ => match j.getObjVal? "$b" with
    | .ok (.str s) => parseHexBytes? s
    | _ => none
  | _ => none

/-- a `*big.Int` position. Base64 strings decode through `SetBytes` (never negative); unquoted
    numbers must be non-negative integers. -/
def big (j : Json) (direct : Bool := false) : D (Option Int) :=
  match j with
  | .null => pure none
  | .num n => if n.exponent = 0 ∧ n.mantissa ≥ 0 then pure (some n.mantissa) else throw ()
  | _ => match leafI? j with
    | some z => if z < 0 ∧ !direct then throw () else pure (some z)
    | none => match leafB? j with
      | some bs => pure (some (ofBytesBE bs : Int))
      | none => throw ()

def optField (j : Json) (k : String) : Json :=
  match j.getObjVal? k with
  | .ok v => v
  | .error _ => .null

def isObj : Json → Bool
  | .obj _ => true
  | _ => false

/-- a `uint` position (64 bit). -/
def uint (j : Json) : D Nat :=
  match j with
  | .null => pure 0
  | .num n => if n.exponent = 0 ∧ n.mantissa ≥ 0 ∧ n.mantissa < 2 ^ 64 then pure n.mantissa.toNat else throw ()
  | _ => throw ()

/-- an `int` position (64 bit). -/
def int (j : Json) : D Int :=
  match j with
  | .null => pure 0
  | .num n => if n.exponent = 0 ∧ n.mantissa ≥ -(2 ^ 63) ∧ n.mantissa < 2 ^ 63 then pure n.mantissa else throw ()
  | _ => throw ()

/-- `[]byte` position. -/
def bytes (j : Json) : D (Option (List UInt8)) :=
  match j with
  | .null => pure none
  | _ => match leafB? j with
    | some bs => pure (some bs)
    | none => match leafI? j with
      | some z => if z < 0 then throw () else pure (some (natBytesBE z.toNat))
      | none => throw ()

/-- `[]*big.Int`. -/
def bigList (j : Json) (direct : Bool := false) : D (List (Option Int)) :=
  match j with
  | .null => pure []
  | .arr a => a.toList.mapM (big · direct)
  | _ => throw ()

def parseIntKey (s : String) : D Int :=
  match s.toInt? with
  | some z => if z ≥ -(2 ^ 63) ∧ z < 2 ^ 63 then pure z else throw ()
  | none => throw ()

def objEntries (j : Json) : D (List (String × Json)) :=
  match j with
  | .obj kvs => pure (kvs.toList.map fun ⟨k, v⟩ => (k, v))
  | _ => throw ()

/-- keep one entry per key (a Go map holds one value per key). Different spellings of one integer
    ("0", "00", "-0") overwrite each other in document order in Go; document order is not
    available here, so the entry that is last in key order is kept — the generators never emit
    two spellings of one key. -/
def dedupKeys {α} (l : List (Int × α)) : List (Int × α) :=
  l.foldl (fun acc kv => acc.filter (·.1 ≠ kv.1) ++ [kv]) []

/-- `map[int]*big.Int`. -/
def intMap (j : Json) (direct : Bool := false) : D IntMap :=
  match j with
  | .null => pure []
  | .obj _ => do
    if (leafI? j).isSome || (leafB? j).isSome then throw ()
    let l ← (← objEntries j).mapM fun (k, v) => do pure (← parseIntKey k, ← big v direct)
    pure (dedupKeys l)
  | _ => throw ()

/-- `map[string]*big.Int`. -/
def strMap (j : Json) (direct : Bool := false) : D (List (String × Option Int)) :=
  match j with
  | .null => pure []
  | .obj _ => do
    if (leafI? j).isSome || (leafB? j).isSome then throw ()
    (← objEntries j).mapM fun (k, v) => do pure (k, ← big v direct)
  | _ => throw ()

def structObj (j : Json) : D (Option Json) :=
  match j with
  | .null => pure none
  | .obj _ => if (leafI? j).isSome || (leafB? j).isSome then throw () else pure (some j)
  | _ => throw ()

def sacc (j : Json) : D (Option SignedAccumulator) := do
  match ← structObj j with
  | none => pure none
  | some o => pure (some { data := ← bytes (optField o "data"), pkCounter := ← uint (optField o "pk") })

def nonrev (j : Json) (direct : Bool := false) : D (Option NonRevProof) := do
  match ← structObj j with
  | none => pure none
  | some o =>
    pure (some { cr := ← big (optField o "C_r") direct, cu := ← big (optField o "C_u") direct,
                 responses := ← strMap (optField o "responses") direct, sacc := ← sacc (optField o "sacc") })

def rangeProof (j : Json) (direct : Bool := false) : D (Option RangeProof) := do
  match ← structObj j with
  | none => pure none
  | some o =>
    pure (some { cs := ← bigList (optField o "Cs") direct, ds := ← bigList (optField o "ds") direct,
                 vs := ← bigList (optField o "vs") direct, v5 := ← big (optField o "v5") direct,
                 ld := ← uint (optField o "l_d"), sign := ← int (optField o "sign"),
                 a := ← uint (optField o "a"), k := ← big (optField o "k") direct })

def rangeProofs (j : Json) (direct : Bool := false) : D (Option (List (Int × List (Option RangeProof)))) :=
  match j with
  | .null => pure none
  | .obj _ => do
    if (leafI? j).isSome || (leafB? j).isSome then throw ()
    let l ← (← objEntries j).mapM fun (k, v) => do
      let key ← parseIntKey k
      let ps ← (match v with
        | .null => pure []
        | .arr a => a.toList.mapM (rangeProof · direct)
        | _ => throw () : D (List (Option RangeProof)))
      pure (key, ps)
    pure (some (dedupKeys l))
  | _ => throw ()

def proofD (j : Json) (direct : Bool := false) : D ProofD := do
  match ← structObj j with
  | none => pure { c := none, a := none, eResponse := none, vResponse := none, aResponses := [],
                   aDisclosed := [], nonrev := none, rangeProofs := none }
  | some o =>
    pure { c := ← big (optField o "c") direct, a := ← big (optField o "A") direct,
           eResponse := ← big (optField o "e_response") direct, vResponse := ← big (optField o "v_response") direct,
           aResponses := ← intMap (optField o "a_responses") direct, aDisclosed := ← intMap (optField o "a_disclosed") direct,
           nonrev := ← nonrev (optField o "nonrev_proof") direct, rangeProofs := ← rangeProofs (optField o "rangeproofs") direct }

def proofU (j : Json) (direct : Bool := false) : D ProofU := do
  match ← structObj j with
  | none => pure { u := none, c := none, vPrimeResponse := none, sResponse := none, mUserResponses := [] }
  | some o =>
    pure { u := ← big (optField o "U") direct, c := ← big (optField o "c") direct,
           vPrimeResponse := ← big (optField o "v_prime_response") direct, sResponse := ← big (optField o "s_response") direct,
           mUserResponses := ← intMap (optField o "m_user_responses") direct }

/-- `ProofList.UnmarshalJSON`: each element is tried as ProofD (kept if `A` present), then as
    ProofU (kept if `U` present), else an error. -/
def proofList (j : Json) (direct : Bool := false) : D (List Proof) :=
  match j with
  | .null => pure []
  | .arr a => a.toList.mapM fun e => do
      let d ← proofD e direct
      if d.a.isSome then pure (.d d) else
      let u ← proofU e direct
      if u.u.isSome then pure (.u u) else throw ()
  | _ => throw ()

/-- one entry of the op's `sigviews` table: (key id, data, outcome). -/
def parseView (v : Json) : Option (String × List UInt8 × Option Accumulator) :=
  match getStr v "key", getStr v "data", getBool v "sigok" with
  | .ok k, .ok d, .ok okk =>
    match parseHexBytes? d with
    | none => none
    | some bs =>
      if !okk then some (k, bs, none) else
      match field v "acc" with
      | .ok a =>
        match getOptInt a "nu", getNat a "index", getInt a "time", getBytes a "eventhash" with
        | .ok nu, .ok idx, .ok t, .ok eh =>
          some (k, bs, some { nu := nu, index := idx, time := t, eventHash := eh })
        | _, _, _, _ => some (k, bs, none)
      | .error _ => some (k, bs, none)
  | _, _, _ => none

/-- the signature oracle from the op's `sigviews` table (unknown blobs do not verify). -/
def sigOracle (views : List Json) : SigOracle :=
  let table := views.filterMap parseView
  fun keyId data =>
    match table.find? (fun e => e.1 == keyId && e.2.1 == data) with
    | some e => e.2.2
    | none => none

end Gabi.Decode
