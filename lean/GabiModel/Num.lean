/-
  GabiModel.Num — integer helpers that mirror Go's math/big as used by gabi.
  Core-only, executable, total.  `Option` = Go's nil result.
-/
namespace Gabi

/-- square-and-multiply, `b^e mod n` on naturals (n = 0 ⇒ Lean's `% 0`, never used). -/
def powMod (b e n : Nat) : Nat :=
  if _h : e = 0 then 1 % n else
    let half := powMod (b * b % n) (e / 2) n
    if e % 2 = 1 then b % n * half % n else half
termination_by e
decreasing_by omega

/-- extended Euclid on naturals: returns `(g, x, y)` with `a*x + b*y = g` (x,y : Int). -/
def xgcdAux (r0 : Nat) (s0 t0 : Int) (r1 : Nat) (s1 t1 : Int) : Nat × Int × Int :=
  if _h : r1 = 0 then (r0, s0, t0)
  else
    let q := r0 / r1
    xgcdAux r1 s1 t1 (r0 % r1) (s0 - q * s1) (t0 - q * t1)
termination_by r1
decreasing_by exact Nat.mod_lt _ (Nat.pos_of_ne_zero _h)

def xgcd (a b : Nat) : Nat × Int × Int := xgcdAux a 1 0 b 0 1

/-- `big.Int.ModInverse(g, n)`: nil when not coprime; n<0 uses |n|; result in [0,|n|). -/
def goModInverse (g n : Int) : Option Int :=
  let m := n.natAbs
  if m = 0 then none else
  let g' := (g % (m : Int)).toNat
  let (d, x, _) := xgcd g' m
  if d ≠ 1 then none else some (x % (m : Int))

/-- `common.ModInverse(a, n)` (mathutil.go): `(inverse, ok)`; model returns the canonical
    inverse in `[1,n)` (for `n = 1` Go returns `1`). -/
def commonModInverse (a n : Int) : Option Int :=
  let m := n.natAbs
  if m = 0 then none else
  let a' := (a % (m : Int)).toNat
  let (d, x, _) := xgcd a' m
  if d ≠ 1 then none else
    let r := x % (m : Int)
    some (if r < 1 then r + m else r)

/-- `big.Int.Exp(x, y, m)` for `m ≠ 0` (all gabi call sites pass a modulus).
    Negative `y` uses the modular inverse, `none` = Go's nil. Result in `[0,|m|)`. -/
def goExp (x y m : Int) : Option Int :=
  let mm := m.natAbs
  if mm = 0 then
    -- Go: z = x**y, 1 when y ≤ 0
    if y ≤ 0 then some 1 else some (x ^ y.toNat)
  else if y < 0 then
    match goModInverse x m with
    | none => none
    | some inv => some (powMod inv.toNat (-y).toNat mm)
  else
    some (powMod (x % (mm : Int)).toNat y.toNat mm)

/-- `common.ModPow(x,y,m)` — same as goExp (explicit inverse for negative exponents). -/
def modPow (x y m : Int) : Option Int := goExp x y m

/-- bit length of |x| (`big.Int.BitLen`). -/
def bitLen (x : Int) : Nat :=
  let n := x.natAbs
  if n = 0 then 0 else n.log2 + 1

def natBitLen (n : Nat) : Nat := if n = 0 then 0 else n.log2 + 1

/-- big-endian bytes of a natural, no leading zeros (`big.Int.Bytes` of |x|). -/
def natBytesBEAux (fuel : Nat) (n : Nat) (acc : List UInt8) : List UInt8 :=
  match fuel with
  | 0 => acc
  | fuel + 1 => if n = 0 then acc else natBytesBEAux fuel (n / 256) ((n % 256).toUInt8 :: acc)

def natBytesBE (n : Nat) : List UInt8 := natBytesBEAux (natBitLen n / 8 + 1) n []

def intBytes (x : Int) : List UInt8 := natBytesBE x.natAbs

/-- `SetBytes`: big-endian unsigned. -/
def ofBytesBE (bs : List UInt8) : Nat := bs.foldl (fun a b => a * 256 + b.toNat) 0

/-- `big.Int.Int64()` : low 64 bits of |x| reinterpreted, negated if x<0 (wraps). -/
def goInt64 (x : Int) : Int :=
  let low : Nat := x.natAbs % 2^64
  let v : Int := Int.ofNat low
  let r := if x < 0 then -v else v
  -- wrap into int64 range
  let w := r % (2^64 : Int)
  if w ≥ 2^63 then w - 2^64 else w

/-- wrap an integer into the int64 range (two's complement). -/
def wrap64 (x : Int) : Int :=
  let w := x % (2^64 : Int)
  if w ≥ 2^63 then w - 2^64 else w

def isInt64 (x : Int) : Bool := decide (-(2^63 : Int) ≤ x) && decide (x < 2^63)

/-- integer square root (floor), Newton iteration with fuel. -/
def natSqrt (n : Nat) : Nat :=
  if n < 2 then n else
  let rec go (fuel : Nat) (x : Nat) : Nat :=
    match fuel with
    | 0 => x
    | fuel + 1 =>
      let y := (x + n / x) / 2
      if y ≥ x then x else go fuel y
  go (natBitLen n + 2) (2 ^ ((natBitLen n + 1) / 2))

/-- deterministic Miller–Rabin with the first 12 prime bases (exact below 3.3·10^24) plus
    a few more; used as the executable stand-in for `ProbablyPrime` (oracle, see trusted base). -/
def millerRabinWitness (n d s a : Nat) : Bool :=
  -- true = `a` proves n composite
  let x := powMod a d n
  if x = 1 || x = n - 1 then false else
  let rec loop (k : Nat) (x : Nat) : Bool :=
    match k with
    | 0 => true
    | k + 1 =>
      let x' := x * x % n
      if x' = n - 1 then false else loop k x'
  loop (s - 1) x

def decompose (fuel d s : Nat) : Nat × Nat :=
  match fuel with
  | 0 => (d, s)
  | fuel + 1 => if d % 2 = 0 && d ≠ 0 then decompose fuel (d / 2) (s + 1) else (d, s)

def probablyPrime (n : Nat) : Bool :=
  if n < 2 then false else
  let small := [2,3,5,7,11,13,17,19,23,29,31,37,41,43,47,53,59,61,67,71]
  if small.contains n then true else
  if small.any (fun p => n % p = 0) then false else
  let (d, s) := decompose (natBitLen n + 1) (n - 1) 0
  !(small.any (fun a => millerRabinWitness n d s a))

end Gabi
