/-
  GabiModel.JsonFold — how encoding/json assigns object keys to struct fields.

  `Decode` looks struct fields up by their exact JSON name. Go's decoder is more liberal: for
  every key of the document, in document order, it takes the field with exactly that name or,
  failing that, the field whose name equals the key up to (ASCII) letter case; a later key
  assigned to the same field overwrites an earlier one. The driver applies this renaming to a
  proof document before handing it to `Decode` (documents written by the harness list their keys
  in sorted order, which is the order of `Json.obj`). Map-typed positions (attribute indices,
  response names) are matched exactly by Go as well and are left alone.

  Executable glue of the driver (validated by the correspondence run, no theorem is about it).
-/
import Lean.Data.Json
namespace Gabi.JsonFold
open Lean

inductive Schema where
  | leaf
  | struct (fields : List (String × Schema))
  | mapOf (s : Schema)
  | listOf (s : Schema)

def lower (s : String) : String := s.map Char.toLower

def target (names : List String) (k : String) : String :=
  if names.contains k then k else (names.find? fun n => lower n == lower k).getD k

partial def apply (s : Schema) (j : Json) : Json :=
  match s, j with
  | .struct fields, .obj t =>
    -- the harness' own leaf encodings are not structs
    if t.contains "$i" || t.contains "$b" then j else
    let names := fields.map (·.1)
    let step (acc : List (String × Json)) (kv : String × Json) : List (String × Json) :=
      let tk := target names kv.1
      let v := match fields.lookup tk with
        | some sub => apply sub kv.2
        | none => kv.2
      (acc.filter (·.1 ≠ tk)) ++ [(tk, v)]
    Json.mkObj (t.toList.foldl step [])
  | .mapOf sub, .obj t => Json.mkObj (t.toList.map fun kv => (kv.1, apply sub kv.2))
  | .listOf sub, .arr a => .arr (a.map (apply sub))
  | _, _ => j

def saccS : Schema := .struct [("data", .leaf), ("pk", .leaf)]
def nonrevS : Schema := .struct [("C_r", .leaf), ("C_u", .leaf), ("responses", .leaf), ("sacc", saccS)]
def rangeProofS : Schema := .struct [("Cs", .leaf), ("ds", .leaf), ("vs", .leaf), ("v5", .leaf), ("l_d", .leaf),
  ("sign", .leaf), ("a", .leaf), ("k", .leaf)]
def proofDFields : List (String × Schema) := [("c", .leaf), ("A", .leaf), ("e_response", .leaf), ("v_response", .leaf),
  ("a_responses", .leaf), ("a_disclosed", .leaf), ("nonrev_proof", nonrevS), ("rangeproofs", .mapOf (.listOf rangeProofS))]
def proofUFields : List (String × Schema) := [("U", .leaf), ("c", .leaf), ("v_prime_response", .leaf), ("s_response", .leaf),
  ("m_user_responses", .leaf)]
def proofDS : Schema := .struct proofDFields
def proofUS : Schema := .struct proofUFields
/-- an element of a proof list is tried as a ProofD and then as a ProofU; no field name of one
    equals a field name of the other up to case except the shared `c`. -/
def proofListS : Schema := .listOf (.struct (proofDFields ++ proofUFields.filter (·.1 ≠ "c")))

end Gabi.JsonFold
