/-
  GabiModel.Serial — serialisation codecs of gabi (C18).

  * base64 (RFC 4648 §4, standard alphabet, padding) written from the RFC, with the decoder
    behaviour of Go's `base64.StdEncoding` (non-strict trailing bits, `\r`/`\n` ignored);
  * decimal text <-> integers as `math/big.Int.String` / `SetString(s, 10)` and
    `strconv.ParseUint/ParseInt` use it;
  * `big.Int` MarshalText / UnmarshalJSON / MarshalXML / UnmarshalXML / Marshal-UnmarshalBinary
    (big/int.go:21-77, 102-103) and the CBOR byte-string framing used for them;
  * issuer key documents as abstract element lists and `New{Public,Private}KeyFrom{XML,Bytes,File}`
    (gabikeys/keys.go:90-145, 269-318, gabikeys/marshaling.go:36-96), mirroring the code
    *with the C18 repairs applied* (mandatory elements, negative bases, key length from file);
  * `FilePerm`: `PrivateKey.WriteToFile` (gabikeys/keys.go:172-197) over abstract file states.

  Text is a list of character codes (`List Nat`); bytes are `List UInt8`.
  Core-only, executable, total.
-/
import GabiModel.Num
import GabiModel.MathUtil
namespace Gabi.Serial
open Gabi

abbrev Text := List Nat

def codes (s : String) : Text := s.toList.map Char.toNat
def ofCodes (t : Text) : String := String.ofList (t.map Char.ofNat)

/-! ## base64 (RFC 4648 §4) -/

/-- the standard alphabet: value -> character code. -/
def b64Enc (n : Nat) : Nat :=
  if n < 26 then 65 + n            -- 'A'..'Z'
  else if n < 52 then 97 + (n - 26) -- 'a'..'z'
  else if n < 62 then 48 + (n - 52) -- '0'..'9'
  else if n = 62 then 43            -- '+'
  else 47                           -- '/'

/-- character code -> value. -/
def b64Dec? (c : Nat) : Option Nat :=
  if 65 ≤ c ∧ c ≤ 90 then some (c - 65)
  else if 97 ≤ c ∧ c ≤ 122 then some (c - 97 + 26)
  else if 48 ≤ c ∧ c ≤ 57 then some (c - 48 + 52)
  else if c = 43 then some 62
  else if c = 47 then some 63
  else none

/-- '=' -/
def pad : Nat := 61

/-- 3 octets -> 4 characters; a final group of 1 or 2 octets is padded with '='. -/
def b64Encode : List UInt8 → Text
  | [] => []
  | [a] => [b64Enc (a.toNat / 4), b64Enc (a.toNat % 4 * 16), pad, pad]
  | [a, b] => [b64Enc (a.toNat / 4), b64Enc (a.toNat % 4 * 16 + b.toNat / 16),
               b64Enc (b.toNat % 16 * 4), pad]
  | a :: b :: c :: rest =>
    b64Enc (a.toNat / 4) :: b64Enc (a.toNat % 4 * 16 + b.toNat / 16) ::
    b64Enc (b.toNat % 16 * 4 + c.toNat / 64) :: b64Enc (c.toNat % 64) :: b64Encode rest

/-- groups of four characters; only the last group may carry padding (`xx==` or `xxx=`).
    Unused trailing bits are not checked (Go's StdEncoding is not strict). -/
def b64DecodeGroups : Text → Option (List UInt8)
  | [] => some []
  | a :: b :: c :: d :: rest =>
    if rest.isEmpty ∧ d = pad then
      if c = pad then
        match b64Dec? a, b64Dec? b with
        | some x, some y => some [(x * 4 + y / 16).toUInt8]
        | _, _ => none
      else
        match b64Dec? a, b64Dec? b, b64Dec? c with
        | some x, some y, some z => some [(x * 4 + y / 16).toUInt8, (y % 16 * 16 + z / 4).toUInt8]
        | _, _, _ => none
    else
      match b64Dec? a, b64Dec? b, b64Dec? c, b64Dec? d, b64DecodeGroups rest with
      | some x, some y, some z, some w, some r =>
        some ((x * 4 + y / 16).toUInt8 :: (y % 16 * 16 + z / 4).toUInt8 :: (z % 4 * 64 + w).toUInt8 :: r)
      | _, _, _, _, _ => none
  | _ => none

def notNewline (c : Nat) : Bool := c != 10 && c != 13

/-- `base64.StdEncoding.Decode`: CR and LF are skipped wherever they occur. -/
def b64Decode (t : Text) : Option (List UInt8) := b64DecodeGroups (t.filter notNewline)

/-! ## decimal text -/

def isDigit (c : Nat) : Bool := decide (48 ≤ c) && decide (c ≤ 57)

/-- `Int.String()` of a natural number. -/
def natToDec (n : Nat) : Text :=
  if n < 10 then [48 + n] else natToDec (n / 10) ++ [48 + n % 10]
decreasing_by omega

def decStep (acc : Option Nat) (c : Nat) : Option Nat :=
  match acc with
  | some a => if isDigit c then some (a * 10 + (c - 48)) else none
  | none => none

/-- one or more decimal digits, nothing else. -/
def decToNat? (t : Text) : Option Nat :=
  if t.isEmpty then none else t.foldl decStep (some 0)

/-- `big.Int.String()`. -/
def intToDec (z : Int) : Text :=
  if z < 0 then 45 :: natToDec z.natAbs else natToDec z.toNat

/-- `big.Int.SetString(s, 10)`: optional sign, then digits (no underscores in base 10). -/
def parseDecInt? (t : Text) : Option Int :=
  match t with
  | [] => none
  | c :: r =>
    if c = 45 then (match decToNat? r with | some n => some (-(Int.ofNat n)) | none => none)
    else if c = 43 then (match decToNat? r with | some n => some (Int.ofNat n) | none => none)
    else (match decToNat? (c :: r) with | some n => some (Int.ofNat n) | none => none)

/-- `strconv.ParseUint(s, 10, bits)`: digits only. -/
def parseUint? (bits : Nat) (t : Text) : Option Nat :=
  match decToNat? t with
  | some n => if n < 2 ^ bits then some n else none
  | none => none

/-- `strconv.ParseInt(s, 10, bits)`. -/
def parseInt? (bits : Nat) (t : Text) : Option Int :=
  match parseDecInt? t with
  | some z => if -(2 : Int) ^ (bits - 1) ≤ z ∧ z < (2 : Int) ^ (bits - 1) then some z else none
  | none => none

/-- `strings.TrimSpace` on ASCII input. -/
def isSpace (c : Nat) : Bool := c == 32 || (decide (9 ≤ c) && decide (c ≤ 13))
def trimWith (p : Nat → Bool) (t : Text) : Text := ((t.dropWhile p).reverse.dropWhile p).reverse
def trimSpace (t : Text) : Text := trimWith isSpace t

/-- encoding/xml `copyValue` for unsigned fields: empty text is 0, otherwise ParseUint of the
    trimmed text. -/
def xmlUint (bits : Nat) (t : Text) : Option Nat :=
  if t.isEmpty then some 0 else parseUint? bits (trimSpace t)

def xmlInt (bits : Nat) (t : Text) : Option Int :=
  if t.isEmpty then some 0 else parseInt? bits (trimSpace t)

/-! ## big.Int codecs (big/int.go) -/

inductive CodecErr where
  | negative      -- "Marshaling negative integers is not supported" / "Unexpected negative integer"
  | syntax        -- not base64 / not a base 10 integer / not a JSON integer
deriving Repr, DecidableEq

/-- `MarshalText`: base64 of the big-endian magnitude; negative values are refused. -/
def marshalText (z : Int) : Except CodecErr Text :=
  if z < 0 then .error .negative else .ok (b64Encode (natBytesBE z.toNat))

/-- `json.Marshal(*big.Int)` = the quoted MarshalText. -/
def marshalJSON (z : Int) : Except CodecErr Text :=
  match marshalText z with
  | .ok t => .ok (34 :: t ++ [34])
  | .error e => .error e

def isJsonWs (c : Nat) : Bool := c == 32 || c == 9 || c == 10 || c == 13

/-- JSON integer without sign: `0` or a non-zero digit followed by digits. -/
def jsonIntBody (t : Text) : Bool :=
  match t with
  | [] => false
  | c :: r => if c = 48 then r.isEmpty else decide (49 ≤ c) && decide (c ≤ 57) && r.all isDigit

/-- the unquoted branch of `UnmarshalJSON`: `json.Unmarshal` into a math/big.Int, then the
    sign check. `null` leaves the receiver (`prev`) unchanged. Fractions and exponents are valid
    JSON but rejected by math/big. -/
def unmarshalJSONUnquoted (prev : Int) (b : Text) : Except CodecErr Int :=
  let t := trimWith isJsonWs b
  if t = [110, 117, 108, 108] then (if prev < 0 then .error .negative else .ok prev) else
  let neg := t.head? = some 45
  let body := if neg then t.tail else t
  if jsonIntBody body then
    match decToNat? body with
    | some n => if neg ∧ n ≠ 0 then .error .negative else .ok (Int.ofNat n)
    | none => .error .syntax
  else .error .syntax

/-- `UnmarshalJSON`: quoted input is base64 of big-endian bytes (first and last byte are
    dropped without looking at the last), anything else goes to the unquoted branch. -/
def unmarshalJSON (prev : Int) (b : Text) : Except CodecErr Int :=
  match b with
  | 34 :: r =>
    match b64Decode r.dropLast with
    | some bs => .ok (Int.ofNat (ofBytesBE bs))
    | none => .error .syntax
  | _ => unmarshalJSONUnquoted prev b

/-- what encoding/json does before handing a value to `UnmarshalJSON`: surrounding white space
    is removed and string literals must be well formed. The model is deliberately conservative:
    any string containing a control character, a backslash or an inner quote is refused (either
    the JSON scanner or the base64 decoder refuses it). -/
def jsonUnmarshalInt (prev : Int) (b : Text) : Except CodecErr Int :=
  let t := trimWith isJsonWs b
  match t with
  | 34 :: r =>
    let body := r.dropLast
    if r.getLast? ≠ some 34 then .error .syntax
    else if body.any (fun c => c < 32 || c == 92 || c == 34) then .error .syntax
    else unmarshalJSON prev t
  | _ => unmarshalJSON prev t

/-- `MarshalXML`: the element text is `i.String()` (negative values are written as they are). -/
def marshalXML (z : Int) : Text := intToDec z

/-- `UnmarshalXML`: base 10 integer, negative values refused. -/
def unmarshalXML (t : Text) : Except CodecErr Int :=
  match parseDecInt? t with
  | some z => if z < 0 then .error .negative else .ok z
  | none => .error .syntax

/-- `MarshalBinary` = `Bytes()` (magnitude), `UnmarshalBinary` = `SetBytes`. -/
def marshalBinary (z : Int) : List UInt8 := natBytesBE z.natAbs
def unmarshalBinary (bs : List UInt8) : Int := Int.ofNat (ofBytesBE bs)

/-- big-endian bytes of `n` on exactly `k` octets. -/
def fixedBE (k n : Nat) : List UInt8 :=
  (List.range k).map (fun i => (n / 256 ^ (k - 1 - i) % 256).toUInt8)

/-- CBOR (RFC 8949 §3.1) head for major type 2 (byte string) with the shortest length form. -/
def cborBytesHead (len : Nat) : List UInt8 :=
  if len < 24 then [(0x40 + len).toUInt8]
  else if len < 256 then 0x58 :: fixedBE 1 len
  else if len < 65536 then 0x59 :: fixedBE 2 len
  else if len < 2 ^ 32 then 0x5a :: fixedBE 4 len
  else 0x5b :: fixedBE 8 len

/-- `cbor.Marshal(*big.Int)`: a byte string holding `MarshalBinary`. -/
def cborOfInt (z : Int) : List UInt8 := let b := marshalBinary z; cborBytesHead b.length ++ b

/-- decoder for a single definite-length byte string item. -/
def cborBytesDecode? (bs : List UInt8) : Option (List UInt8) :=
  match bs with
  | [] => none
  | h :: r =>
    let hn := h.toNat
    if 0x40 ≤ hn ∧ hn < 0x58 then (if r.length = hn - 0x40 then some r else none)
    else
      let k := if hn = 0x58 then 1 else if hn = 0x59 then 2 else if hn = 0x5a then 4 else if hn = 0x5b then 8 else 0
      if k = 0 then none else
      let len := ofBytesBE (r.take k)
      if (r.take k).length = k ∧ (r.drop k).length = len then some (r.drop k) else none

/-! ## key documents -/

/-- one child of the key element. Elements named n, Z, S, G, H, p, q, pPrime, qPrime and the
    base list live inside `<Elements>`; everything else directly below the root. -/
inductive Item where
  | elem (name : String) (text : Text)
  /-- `<Bases num="…">` with its children (name, inner text) in document order. -/
  | bases (num : Option Text) (entries : List (String × Text))
  /-- `<Features><Epoch length="…"/></Features>` (`none`: no Epoch length attribute). -/
  | features (epochLen : Option Text)
deriving Repr, DecidableEq

structure KeyDoc where
  ns : String
  root : String
  items : List Item
deriving Repr, DecidableEq

def idemixNs : String := "http://www.zurich.ibm.com/security/idemix"

inductive ParseErr where
  | root                       -- wrong root element / name space
  | badNumber (name : String)  -- not a base 10 integer, negative, or out of range
  | basesCount                 -- num attribute ≠ number of base elements
  | missing (name : String)    -- mandatory element absent
  | keyLength                  -- no system parameters for this modulus length
  | revocationKey              -- ECDSA key does not parse
  | inconsistent (name : String) -- p ≠ 2p'+1
  | notSafePrime (name : String)
deriving Repr, DecidableEq

/-- the serialised content of `gabikeys.PublicKey` (Params/ECDSA are derived, Issuer is not
    part of the document). -/
structure PubKeyData where
  counter : Nat
  expiry : Int
  n : Int
  z : Int
  s : Int
  g : Option Int
  h : Option Int
  r : List Int
  epoch : Int
  ecdsa : Text
deriving Repr, DecidableEq

/-- decoder state = the Go struct being filled (nil pointers = `none`). -/
structure PubAcc where
  counter : Nat := 0
  expiry : Int := 0
  n : Option Int := none
  z : Option Int := none
  s : Option Int := none
  g : Option Int := none
  h : Option Int := none
  r : List Int := []
  epoch : Int := 0
  ecdsa : Text := []
deriving Repr, DecidableEq

/-- `big.Int.UnmarshalXML` as an element decoder. -/
def bigElem (name : String) (t : Text) : Except ParseErr Int :=
  match unmarshalXML t with
  | .ok z => .ok z
  | .error _ => .error (.badNumber name)

/-- `Bases.UnmarshalXML` (repaired: negative entries are refused like everywhere else).
    Element names of the entries are not looked at (`xml:",any"`). -/
def parseBaseEntries : List (String × Text) → Except ParseErr (List Int)
  | [] => .ok []
  | (_, t) :: rest =>
    match bigElem "Bases" t with
    | .error e => .error e
    | .ok z =>
      match parseBaseEntries rest with
      | .error e => .error e
      | .ok zs => .ok (z :: zs)

def attrInt (name : String) (a : Option Text) : Except ParseErr Int :=
  match a with
  | none => .ok 0
  | some t =>
    match xmlInt 64 t with
    | some z => .ok z
    | none => .error (.badNumber name)

def parseBases (num : Option Text) (entries : List (String × Text)) : Except ParseErr (List Int) :=
  match attrInt "Bases" num with
  | .error e => .error e
  | .ok k =>
    if k ≠ (entries.length : Int) then .error .basesCount else parseBaseEntries entries

def setCounter (name : String) (t : Text) : Except ParseErr Nat :=
  match xmlUint 64 t with
  | some v => .ok v
  | none => .error (.badNumber name)

def setExpiry (name : String) (t : Text) : Except ParseErr Int :=
  match xmlInt 64 t with
  | some v => .ok v
  | none => .error (.badNumber name)

/-- one decoding step of `xml.Unmarshal` into a `PublicKey`; later occurrences overwrite
    earlier ones, unknown elements are skipped, any failing element fails the document. -/
def pubStep (acc : PubAcc) (it : Item) : Except ParseErr PubAcc :=
  match it with
  | .elem name t =>
    if name = "Counter" then (setCounter name t).map (fun v => { acc with counter := v })
    else if name = "ExpiryDate" then (setExpiry name t).map (fun v => { acc with expiry := v })
    else if name = "n" then (bigElem name t).map (fun v => { acc with n := some v })
    else if name = "Z" then (bigElem name t).map (fun v => { acc with z := some v })
    else if name = "S" then (bigElem name t).map (fun v => { acc with s := some v })
    else if name = "G" then (bigElem name t).map (fun v => { acc with g := some v })
    else if name = "H" then (bigElem name t).map (fun v => { acc with h := some v })
    else if name = "ECDSA" then .ok { acc with ecdsa := t }
    else .ok acc
  | .bases num entries => (parseBases num entries).map (fun v => { acc with r := v })
  | .features l => (attrInt "Features" l).map (fun v => { acc with epoch := v })

def foldItems {α : Type} (step : α → Item → Except ParseErr α) : α → List Item → Except ParseErr α
  | acc, [] => .ok acc
  | acc, it :: rest =>
    match step acc it with
    | .error e => .error e
    | .ok acc' => foldItems step acc' rest

/-- environment of the parser: which modulus lengths have system parameters, and the (external)
    ECDSA key decoder as an oracle on the element text. -/
structure Env where
  supported : Nat → Bool
  ecdsaOk : Text → Bool

/-- `NewPublicKeyFromBytes` / `NewPublicKeyFromXML` / `NewPublicKeyFromFile` (repaired code). -/
def parsePub (env : Env) (doc : KeyDoc) : Except ParseErr PubKeyData :=
  if doc.ns ≠ idemixNs ∨ doc.root ≠ "IssuerPublicKey" then .error .root else
  match foldItems pubStep {} doc.items with
  | .error e => .error e
  | .ok acc =>
    match acc.n, acc.z, acc.s with
    | none, _, _ => .error (.missing "n")
    | some _, none, _ => .error (.missing "Z")
    | some _, some _, none => .error (.missing "S")
    | some n, some z, some s =>
      if ¬ env.supported (bitLen n) then .error .keyLength
      else if acc.g.isSome ∧ acc.h.isSome ∧ acc.ecdsa ≠ [] ∧ ¬ env.ecdsaOk acc.ecdsa then .error .revocationKey
      else .ok { counter := acc.counter, expiry := acc.expiry, n := n, z := z, s := s, g := acc.g,
                 h := acc.h, r := acc.r, epoch := acc.epoch, ecdsa := acc.ecdsa }

def optElem (name : String) : Option Int → List Item
  | none => []
  | some v => [.elem name (marshalXML v)]

def baseEntries : Nat → List Int → List (String × Text)
  | _, [] => []
  | i, b :: rest => ("Base_" ++ toString i, marshalXML b) :: baseEntries (i + 1) rest

/-- `PublicKey.WriteTo` (xml.MarshalIndent of the struct): nil pointers and the empty ECDSA
    string are left out. -/
def printPub (k : PubKeyData) : KeyDoc :=
  { ns := idemixNs, root := "IssuerPublicKey",
    items := [.elem "Counter" (natToDec k.counter), .elem "ExpiryDate" (intToDec k.expiry),
              .elem "n" (marshalXML k.n), .elem "Z" (marshalXML k.z), .elem "S" (marshalXML k.s)]
             ++ optElem "G" k.g ++ optElem "H" k.h
             ++ [.bases (some (natToDec k.r.length)) (baseEntries 0 k.r), .features (some (intToDec k.epoch))]
             ++ (if k.ecdsa = [] then [] else [.elem "ECDSA" k.ecdsa]) }

/-- serialised content of `gabikeys.PrivateKey` plus the derived `N` and `Order`. -/
structure PrivKeyData where
  counter : Nat
  expiry : Int
  p : Int
  q : Int
  pPrime : Int
  qPrime : Int
  ecdsa : Text
deriving Repr, DecidableEq

def PrivKeyData.n (k : PrivKeyData) : Int := k.p * k.q
def PrivKeyData.order (k : PrivKeyData) : Int := k.pPrime * k.qPrime

structure PrivAcc where
  counter : Nat := 0
  expiry : Int := 0
  p : Option Int := none
  q : Option Int := none
  pPrime : Option Int := none
  qPrime : Option Int := none
  ecdsa : Text := []
deriving Repr, DecidableEq

def privStep (acc : PrivAcc) (it : Item) : Except ParseErr PrivAcc :=
  match it with
  | .elem name t =>
    if name = "Counter" then (setCounter name t).map (fun v => { acc with counter := v })
    else if name = "ExpiryDate" then (setExpiry name t).map (fun v => { acc with expiry := v })
    else if name = "p" then (bigElem name t).map (fun v => { acc with p := some v })
    else if name = "q" then (bigElem name t).map (fun v => { acc with q := some v })
    else if name = "pPrime" then (bigElem name t).map (fun v => { acc with pPrime := some v })
    else if name = "qPrime" then (bigElem name t).map (fun v => { acc with qPrime := some v })
    else if name = "ECDSA" then .ok { acc with ecdsa := t }
    else .ok acc
  | .bases _ _ => .ok acc
  | .features _ => .ok acc

/-- `ProbablySafePrime(x, 40)` (oracle: deterministic Miller–Rabin of GabiModel.Num). -/
def safePrime (x : Int) : Bool := decide (0 ≤ x) && safePrimeOk x.toNat

/-- `PrivateKey.Validate`: `(p-1)>>1 = p'`, same for q, both safe primes. -/
def validatePriv (k : PrivKeyData) : Except ParseErr Unit :=
  if (k.p - 1) / 2 ≠ k.pPrime then .error (.inconsistent "p")
  else if (k.q - 1) / 2 ≠ k.qPrime then .error (.inconsistent "q")
  else if ¬ safePrime k.p then .error (.notSafePrime "p")
  else if ¬ safePrime k.q then .error (.notSafePrime "q")
  else .ok ()

/-- `NewPrivateKeyFromXML(xml, demo)` (repaired code). -/
def parsePriv (env : Env) (demo : Bool) (doc : KeyDoc) : Except ParseErr PrivKeyData :=
  if doc.ns ≠ idemixNs ∨ doc.root ≠ "IssuerPrivateKey" then .error .root else
  match foldItems privStep {} doc.items with
  | .error e => .error e
  | .ok acc =>
    match acc.p, acc.q, acc.pPrime, acc.qPrime with
    | none, _, _, _ => .error (.missing "p")
    | some _, none, _, _ => .error (.missing "q")
    | some _, some _, none, _ => .error (.missing "pPrime")
    | some _, some _, some _, none => .error (.missing "qPrime")
    | some p, some q, some pp, some qp =>
      let k : PrivKeyData := { counter := acc.counter, expiry := acc.expiry, p := p, q := q,
                               pPrime := pp, qPrime := qp, ecdsa := acc.ecdsa }
      match (if demo then .ok () else validatePriv k) with
      | .error e => .error e
      | .ok () =>
        if acc.ecdsa ≠ [] ∧ ¬ env.ecdsaOk acc.ecdsa then .error .revocationKey else .ok k

def printPriv (k : PrivKeyData) : KeyDoc :=
  { ns := idemixNs, root := "IssuerPrivateKey",
    items := [.elem "Counter" (natToDec k.counter), .elem "ExpiryDate" (intToDec k.expiry),
              .elem "p" (marshalXML k.p), .elem "q" (marshalXML k.q),
              .elem "pPrime" (marshalXML k.pPrime), .elem "qPrime" (marshalXML k.qPrime)]
             ++ (if k.ecdsa = [] then [] else [.elem "ECDSA" k.ecdsa]) }

/-! ## FilePerm: PrivateKey.WriteToFile -/

namespace FilePerm

/-- what is at the path before the call. Modes are the 9 permission bits (plus whatever). -/
inductive Prior where
  | absent
  | file (mode : Nat)
  | dir
  | linkAbsent            -- dangling symbolic link
  | linkFile (mode : Nat) -- symbolic link to a regular file
  | linkDir
deriving Repr, DecidableEq

/-- process attributes that matter: the umask and whether permission checks are bypassed. -/
structure Proc where
  umask : Nat
  root : Bool

inductive Outcome where
  | ok (mode : Nat)   -- success; mode of the file the path resolves to afterwards
  | err               -- the call returned an error before writing anything
deriving Repr, DecidableEq

/-- POSIX: a file created by `open(O_CREAT, m)` gets `m & ~umask`. -/
def created (p : Proc) (m : Nat) : Nat := m &&& (0o777 ^^^ (p.umask &&& 0o777))

/-- POSIX: opening an existing file for writing needs the owner write bit (the process owns
    the file in this model) unless permission checks are bypassed. -/
def mayWrite (p : Proc) (mode : Nat) : Bool := p.root || (mode &&& 0o200 != 0)

/-- `WriteToFile(filename, forceOverwrite)`:
    * no overwrite: `open(O_RDWR|O_CREAT|O_EXCL, 0600)` — fails on anything that exists,
      symbolic links included (O_EXCL does not follow them);
    * overwrite: `open(O_WRONLY|O_CREAT|O_TRUNC, 0600)` follows links, creates with
      `0600 & ~umask` or truncates keeping the old mode, then `fchmod(fd, 0600)` sets the mode
      to exactly 0600. -/
def writeToFile (p : Proc) (force : Bool) (prior : Prior) : Outcome :=
  if force then
    match prior with
    | .absent | .linkAbsent => let _m := created p 0o600; .ok 0o600
    | .file m | .linkFile m => if mayWrite p m then .ok 0o600 else .err
    | .dir | .linkDir => .err
  else
    match prior with
    | .absent => .ok (created p 0o600)
    | _ => .err

/-- the code before the regression fix for issue #7 (`os.Create`, no fchmod) — kept to show the
    theorem is not vacuous: it leaves an existing 0644 file at 0644. -/
def writeToFileOsCreate (p : Proc) (force : Bool) (prior : Prior) : Outcome :=
  if force then
    match prior with
    | .absent | .linkAbsent => .ok (created p 0o666)
    | .file m | .linkFile m => if mayWrite p m then .ok m else .err
    | .dir | .linkDir => .err
  else
    match prior with
    | .absent => .ok (created p 0o600)
    | _ => .err

end FilePerm

/-! ## compressed event lists (revocation/api.go:386-459) -/

namespace Events

/-- `revocation.Event` with the hash value type left abstract. -/
structure Event (H : Type) where
  index : Nat
  e : Int
  parent : H
deriving Repr, DecidableEq

/-- `compressedEventList`: first index, first parent hash, all `E`. -/
structure Compressed (H : Type) where
  index : Nat
  parent : H
  es : List Int
deriving Repr, DecidableEq

/-- `EventList.compress` for a non-empty list (the empty list is the zero value). -/
def compress {H : Type} (dflt : H) (evs : List (Event H)) : Compressed H :=
  match evs with
  | [] => { index := 0, parent := dflt, es := [] }
  | ev :: _ => { index := ev.index, parent := ev.parent, es := evs.map (·.e) }

/-- `EventList.uncompress`: indices count up from the first, each parent hash is the hash of
    the event before. -/
def rebuild {H : Type} (hash : Event H → H) : Nat → H → List Int → List (Event H)
  | _, _, [] => []
  | i, ph, e :: rest =>
    let ev : Event H := { index := i, e := e, parent := ph }
    ev :: rebuild hash (i + 1) (hash ev) rest

def uncompress {H : Type} (hash : Event H → H) (c : Compressed H) : List (Event H) :=
  rebuild hash c.index c.parent c.es

/-- the chain condition `EventList.Verify` checks between neighbours. -/
def Chained {H : Type} (hash : Event H → H) : List (Event H) → Prop
  | [] => True
  | [_] => True
  | a :: b :: rest => b.index = a.index + 1 ∧ b.parent = hash a ∧ Chained hash (b :: rest)

end Events

end Gabi.Serial
