/-
  GabiModel.Revocation — RSA-B accumulator, events, updates and witnesses
  (revocation/api.go, revocation/proof.go:276-342, 504-515).
  Signatures are abstract: a `SAcc` is an accumulator together with the key counter it claims
  and whether its (external) ECDSA signature verifies.
-/
import GabiModel.Proofs
namespace Gabi.Rev
open Gabi

/-! ### hashes (multihash framing of SHA-256) -/

abbrev Hash := List UInt8

/-- unsigned varint (LEB128), minimal encoding required, at most 9 bytes (go-varint). -/
def uvarint (bs : List UInt8) : Option (Nat × List UInt8) :=
  let rec go (fuel : Nat) (bs : List UInt8) (shift : Nat) (acc : Nat) (n : Nat) : Option (Nat × List UInt8) :=
    match fuel, bs with
    | 0, _ => none
    | _, [] => none
    | fuel + 1, b :: rest =>
      if b.toNat < 128 then
        -- last byte; minimal encoding: a trailing zero byte is not allowed (except for the value 0)
        if b.toNat = 0 ∧ n > 0 then none else some (acc + b.toNat * 2 ^ shift, rest)
      else go fuel rest (shift + 7) (acc + (b.toNat - 128) * 2 ^ shift) (n + 1)
  go 9 bs 0 0 0

def sha2_256Code : Nat := 0x12

/-- `multihash.Decode` + `Hash.Algorithm`: the code must be SHA2-256 and the advertised digest
    length must equal the number of remaining bytes. Returns the digest. -/
def hashDecode (h : Hash) : Option (List UInt8) :=
  if h.length < 2 then none else
  match uvarint h with
  | none => none
  | some (code, rest) =>
    match uvarint rest with
    | none => none
    | some (len, digest) =>
      if len > 2 ^ 31 - 1 then none
      else if digest.length ≠ len then none
      else if code ≠ sha2_256Code then none
      else some digest

/-- `Hash.Algorithm` succeeds. -/
def hashAlgOk (h : Hash) : Bool := (hashDecode h).isSome

def be64 (n : Nat) : List UInt8 := Der.toBytesFixed 8 n

structure Event where
  index : Nat
  e : Int
  parentHash : Hash
deriving Repr, DecidableEq

/-- `Event.hashBytes`: index (8 bytes big-endian) ‖ parent hash ‖ bytes of E. -/
def Event.hashBytes (ev : Event) : List UInt8 :=
  be64 ev.index ++ ev.parentHash ++ intBytes ev.e

/-- `Event.hash`: SHA2-256 multihash of the hash bytes. -/
def Event.hash (ev : Event) : Hash :=
  0x12 :: 0x20 :: Sha256.hash ev.hashBytes

/-- `Hash.Equal` (after the repair: whole-hash equality). -/
def hashEqual (a b : Hash) : Bool := a == b

/-- `Event.hashEquals(h)`: `h` must name a supported algorithm and equal our hash. -/
def Event.hashEquals (ev : Event) (h : Hash) : Bool :=
  hashAlgOk h && hashEqual ev.hash h

/-- `EventList.Verify(acc)` on a fresh (unverified) list: tail hash, parent hashes, indices. -/
def eventsVerify (events : List Event) (accEventHash : Hash) : Bool :=
  match events.getLast? with
  | none => true
  | some last =>
    if !last.hashEquals accEventHash then false else
    let start := (events.head?.map (·.index)).getD 0
    let rec go (i : Nat) (prev : Option Event) (l : List Event) : Bool :=
      match l with
      | [] => true
      | ev :: rest =>
        let okParent := match prev with
          | none => hashAlgOk ev.parentHash
          | some p => p.hashEquals ev.parentHash
        okParent && decide (i + start = ev.index) && go (i + 1) (some ev) rest
    go 0 none events

/-! ### accumulators, updates, witnesses -/

/-- an accumulator with its signature status (`SignedAccumulator` seen abstractly). -/
structure SAcc where
  nu : Int
  index : Nat
  time : Int
  eventHash : Hash
  pkCounter : Nat
  sigOk : Bool
deriving Repr, DecidableEq

/-- `SignedAccumulator.UnmarshalVerify(pk)`. -/
def SAcc.unmarshalVerify (pk : PublicKey) (s : SAcc) : Option SAcc :=
  if pk.counter ≠ s.pkCounter then none else if !s.sigOk then none else some s

structure Update where
  sacc : SAcc
  events : List Event
  /-- cached product and the start index it was computed for -/
  product : Option (Int × Nat) := none
deriving Repr, DecidableEq

/-- `Update.Verify(pk)`. -/
def Update.verify (pk : PublicKey) (u : Update) : Option SAcc :=
  match u.sacc.unmarshalVerify pk with
  | none => none
  | some acc => if eventsVerify u.events acc.eventHash then some acc else none

/-- `Update.Product(from)`: product of the event values from index `from` on; cached per start
    index. Returns the product and the update with its cache. `none` = slice bounds panic. -/
def Update.productFrom (u : Update) (frm : Nat) : Option (Int × Update) :=
  match u.product with
  | some (p, f) => if f = frm ∨ u.events.isEmpty then some (p, u) else
      match u.events.head? with
      | none => some (1, u)
      | some h =>
        if frm < h.index ∨ frm - h.index > u.events.length then none else
        let p := ((u.events.drop (frm - h.index)).map (·.e)).foldl (· * ·) 1
        some (p, { u with product := some (p, frm) })
  | none =>
    match u.events.head? with
    | none => some (1, { u with product := some (1, frm) })
    | some h =>
      if frm < h.index ∨ frm - h.index > u.events.length then none else
      let p := ((u.events.drop (frm - h.index)).map (·.e)).foldl (· * ·) 1
      some (p, { u with product := some (p, frm) })

structure Witness where
  u : Int
  e : Int
  sacc : SAcc
deriving Repr, DecidableEq

/-- `verify(u, e, acc, pk)`: `u^e = ν (mod n)`. -/
def witnessValid (pk : PublicKey) (w : Witness) : Bool :=
  goExp w.u w.e pk.n == some w.sacc.nu

/-- `Witness.Verify(pk)`. -/
def Witness.verify (pk : PublicKey) (w : Witness) : Bool :=
  (w.sacc.unmarshalVerify pk).isSome && witnessValid pk w

inductive UpdateResult where
  | ok
  | revoked
  | err
  | panic
deriving Repr, DecidableEq

/-- `Witness.Update(pk, update)`: returns the result, the witness afterwards and the update
    object afterwards (its product cache may have been filled). -/
def Witness.update (pk : PublicKey) (w : Witness) (upd : Update) : UpdateResult × Witness × Update :=
  match upd.verify pk with
  | none => (.err, w, upd)
  | some newAcc =>
    let ourAcc := w.sacc
    if newAcc.index = ourAcc.index then
      if newAcc.time ≤ ourAcc.time then (.ok, w, upd)
      else (.ok, { w with sacc := upd.sacc }, upd)
    else if upd.events.isEmpty then (.ok, w, upd)
    else
      let startIndex := (upd.events.head?.map (·.index)).getD 0
      let endIndex := newAcc.index
      if endIndex ≤ ourAcc.index then (.ok, w, upd)
      else if startIndex > ourAcc.index + 1 then (.err, w, upd)
      else
        match upd.productFrom (ourAcc.index + 1) with
        | none => (.panic, w, upd)
        | some (prod, upd') =>
          -- GCD(&a, &b, w.E, product): a*E + b*product = gcd (both arguments positive)
          let (g, a, b) := xgcd w.e.toNat prod.toNat
          if g ≠ 1 then (.revoked, w, upd')
          else
            match goExp w.u b pk.n, goExp newAcc.nu a pk.n with
            | some ub, some na =>
              let newU := ub * na % pk.n
              if goExp newU w.e pk.n == some newAcc.nu then
                (.ok, { w with u := newU, sacc := upd.sacc }, upd')
              else (.err, w, upd')
            | _, _ => (.panic, w, upd')

/-- `Accumulator.Remove(sk, e, parent)`: new accumulator value and event (time supplied). -/
def accRemove (n order : Int) (nu : Int) (index : Nat) (e : Int) (parent : Event) : Option (Int × Event) := do
  let eInv ← commonModInverse e order
  let nu' ← goExp nu eInv n
  pure (nu', { index := index + 1, e := e, parentHash := parent.hash })

/-- `newWitness(sk, acc, e)`. -/
def newWitnessU (n order : Int) (nu : Int) (e : Int) : Option Int := do
  let eInv ← commonModInverse e order
  goExp nu eInv n

/-- `Update.Prepend(eventlist)` (after the repair); `acc` must have been verified before. Returns
    `none` on error (update unchanged). The product cache is not modelled here. -/
def Update.prepend (u : Update) (evs : List Event) : Option Update :=
  match evs.getLast?, u.events.head? with
  | none, _ => some u
  | some _, none => none
  | some last, some ourFirst =>
    let ours := ourFirst.index
    -- `last < ours-1` in uint64 arithmetic (for ours = 0 the subtraction wraps around)
    let oursMinus1 := (ours + 2 ^ 64 - 1) % 2 ^ 64
    if last.index < oursMinus1 then none else
    let mn := (1 + last.index + 2 ^ 64 - ours) % 2 ^ 64
    if mn > u.events.length then none else
    let merged := evs ++ u.events.drop mn
    if eventsVerify merged u.sacc.eventHash then some { u with events := merged, product := none } else none

end Gabi.Rev
