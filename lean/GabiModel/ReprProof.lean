/-
  GabiModel.ReprProof — zkproof.QrRepresentationProofStructure (representationproof.go:101-132)
  with name-based base / result lookups, shared by the non-revocation proof and the range proofs.
-/
import GabiModel.Num
import GabiModel.GoM
namespace Gabi

structure LhsContribution where
  base : String
  power : Int
deriving Repr, DecidableEq

structure RhsContribution where
  base : String
  secret : String
  power : Int
deriving Repr, DecidableEq

structure QrStructure where
  lhs : List LhsContribution
  rhs : List RhsContribution
deriving Repr, DecidableEq

/-- `ret.Exp(base, exp, n)` into an existing variable: Go leaves `ret` unchanged when the base
    is unknown (lookup returns false) or when a negative exponent meets a non-invertible base. -/
def expInto (prev : Int) (base : Option Int) (exp n : Int) : Int :=
  match base with
  | none => prev
  | some b => (goExp b exp n).getD prev

/-- `QrRepresentationProofStructure.CommitmentsFromProof`: the reconstructed commitment
    `(∏ lhs)^(-c) · ∏ base^(power·response)`. `results name = none` is a nil response: the
    multiplication `exp.Mul(power, nil)` panics. -/
def QrStructure.commitmentFromProof (s : QrStructure) (n : Int) (challenge : Int)
    (bases : String → Option Int) (results : String → Option Int) : GoM Int := do
  -- lhs product; `tmp` persists across iterations
  let (lhs, _) := s.lhs.foldl (fun (acc : Int × Int) l =>
      let tmp := expInto acc.2 (bases l.base) l.power n
      (acc.1 * tmp % n, tmp)) ((1 : Int), (0 : Int))
  -- lhs.ModInverse(&lhs, n): unchanged when not invertible
  let lhs := (goModInverse lhs n).getD lhs
  let c0 := (goExp lhs challenge n).getD 0
  let rec go (rs : List RhsContribution) (commitment contribution : Int) : GoM Int :=
    match rs with
    | [] => pure commitment
    | r :: rs => do
      let res ← deref ("ProofResult " ++ r.secret) (results r.secret)
      let contribution := expInto contribution (bases r.base) (r.power * res) n
      go rs (commitment * contribution % n) contribution
  go s.rhs c0 0

/-- `QrRepresentationProofStructure.CommitmentsFromSecrets` with explicit randomisers. -/
def QrStructure.commitmentFromSecrets (s : QrStructure) (n : Int)
    (bases : String → Option Int) (randomizers : String → Option Int) : GoM Int := do
  let rec go (rs : List RhsContribution) (commitment contribution : Int) : GoM Int :=
    match rs with
    | [] => pure commitment
    | r :: rs => do
      let rnd ← deref ("Randomizer " ++ r.secret) (randomizers r.secret)
      let contribution := expInto contribution (bases r.base) (r.power * rnd) n
      go rs (commitment * contribution % n) contribution
  go s.rhs 1 0

end Gabi
