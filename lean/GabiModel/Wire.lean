/-
  GabiModel.Wire — decoding helpers for the line protocol (one JSON object per line).
  Big integers travel as hex strings with optional leading '-'; `null` = Go nil.
-/
import Lean.Data.Json
import GabiModel.Num
namespace Gabi.Wire
open Lean

def hexDigit? (c : Char) : Option Nat :=
  if '0' ≤ c ∧ c ≤ '9' then some (c.toNat - '0'.toNat)
  else if 'a' ≤ c ∧ c ≤ 'f' then some (c.toNat - 'a'.toNat + 10)
  else if 'A' ≤ c ∧ c ≤ 'F' then some (c.toNat - 'A'.toNat + 10)
  else none

def parseHexNat? (s : String) : Option Nat :=
  if s.isEmpty then none else
  s.foldl (fun acc c => match acc, hexDigit? c with
    | some a, some d => some (a * 16 + d)
    | _, _ => none) (some 0)

def parseHexInt? (s : String) : Option Int :=
  if s.startsWith "-" then (parseHexNat? (s.drop 1).toString).map (fun n => -(n : Int))
  else (parseHexNat? s).map (fun n => (n : Int))

def hexOfNat (n : Nat) : String :=
  if n = 0 then "0" else String.ofList (Nat.toDigits 16 n)

def hexOfInt (z : Int) : String :=
  if z < 0 then "-" ++ hexOfNat z.natAbs else hexOfNat z.toNat

def parseHexBytes? (s : String) : Option (List UInt8) :=
  let cs := s.toList
  let rec go : List Char → Option (List UInt8)
    | [] => some []
    | a :: b :: rest => do
      let x ← hexDigit? a
      let y ← hexDigit? b
      let r ← go rest
      pure ((x * 16 + y).toUInt8 :: r)
    | _ => none
  go cs

def hexOfBytes (bs : List UInt8) : String :=
  String.ofList (bs.flatMap (fun b => [Nat.digitChar (b.toNat / 16), Nat.digitChar (b.toNat % 16)]))

abbrev R := Except String

def field (j : Json) (k : String) : R Json :=
  match j.getObjVal? k with
  | .ok v => pure v
  | .error _ => throw s!"missing field {k}"

def fieldOpt (j : Json) (k : String) : Option Json :=
  match j.getObjVal? k with
  | .ok .null => none
  | .ok v => some v
  | .error _ => none

def asInt (j : Json) : R Int :=
  match j with
  | .str s => match parseHexInt? s with
    | some z => pure z
    | none => throw s!"bad int {s}"
  | .num n => if n.exponent = 0 then pure n.mantissa else throw "bad num"
  | _ => throw "int expected"

def asOptInt (j : Json) : R (Option Int) :=
  match j with
  | .null => pure none
  | _ => do let z ← asInt j; pure (some z)

def asNat (j : Json) : R Nat := do
  let z ← asInt j
  if z < 0 then throw "nat expected" else pure z.toNat

def asBool (j : Json) : R Bool :=
  match j with
  | .bool b => pure b
  | _ => throw "bool expected"

def asStr (j : Json) : R String :=
  match j with
  | .str s => pure s
  | _ => throw "string expected"

def asArr (j : Json) : R (List Json) :=
  match j with
  | .arr a => pure a.toList
  | _ => throw "array expected"

def asBytes (j : Json) : R (List UInt8) := do
  let s ← asStr j
  match parseHexBytes? s with
  | some b => pure b
  | none => throw "bad bytes"

def getInt (j : Json) (k : String) : R Int := do asInt (← field j k)
def getNat (j : Json) (k : String) : R Nat := do asNat (← field j k)
def getBool (j : Json) (k : String) : R Bool := do asBool (← field j k)
def getStr (j : Json) (k : String) : R String := do asStr (← field j k)
def getBytes (j : Json) (k : String) : R (List UInt8) := do asBytes (← field j k)
def getInts (j : Json) (k : String) : R (List Int) := do (← asArr (← field j k)).mapM asInt
def getOptInts (j : Json) (k : String) : R (List (Option Int)) := do (← asArr (← field j k)).mapM asOptInt
def getOptInt (j : Json) (k : String) : R (Option Int) :=
  match fieldOpt j k with
  | none => pure none
  | some v => do let z ← asInt v; pure (some z)

/-- a map with integer keys, sent as array of `[key, value]` pairs (order = harness order). -/
def asIntMap (j : Json) : R (List (Int × Option Int)) := do
  (← asArr j).mapM fun p => do
    match ← asArr p with
    | [k, v] => pure (← asInt k, ← asOptInt v)
    | _ => throw "pair expected"

def showOptInt : Option Int → String
  | none => "nil"
  | some z => hexOfInt z

end Gabi.Wire
