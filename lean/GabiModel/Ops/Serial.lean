/-
  GabiModel.Ops.Serial — ops of C18 (serialisation round trips, key documents, file modes).
-/
import GabiModel.Ops.Base
import GabiModel.Serial
namespace Gabi.Ops.Serial
open Lean Gabi Gabi.Wire Gabi.Ops Gabi.Serial

def sameWord (a b : Int) : String := if a = b then "same" else "diff"

def optText (j : Json) (k : String) : R (Option Text) :=
  match fieldOpt j k with
  | none => pure none
  | some v => do let s ← asStr v; pure (some (codes s))

def parseItem (j : Json) : R Item := do
  let k ← getStr j "k"
  if k = "elem" then
    pure (.elem (← getStr j "name") (codes (← getStr j "text")))
  else if k = "bases" then do
    let num ← optText j "num"
    let es ← match fieldOpt j "entries" with
      | none => pure []
      | some v => do (← asArr v).mapM fun p => do
          match ← asArr p with
          | [a, b] => pure (← asStr a, codes (← asStr b))
          | _ => throw "entry expected"
    pure (.bases num es)
  else if k = "features" then
    pure (.features (← optText j "len"))
  else throw s!"bad item kind {k}"

def parseDoc (j : Json) : R KeyDoc := do
  let items ← (← asArr (← field j "items")).mapM parseItem
  pure { ns := ← getStr j "ns", root := ← getStr j "root", items := items }

def supportedBits (bits : Nat) : Bool := (defaultSysParams bits).isSome || bits == 256

def envOf (j : Json) : R Env := do
  let oks ← match fieldOpt j "ecdsaOk" with
    | none => pure []
    | some v => do (← asArr v).mapM fun s => do pure (codes (← asStr s))
  pure { supported := supportedBits, ecdsaOk := fun t => oks.contains t }

def showInts (xs : List Int) : String := "[" ++ ",".intercalate (xs.map hexOfInt) ++ "]"

def lnOf (n : Int) : String :=
  let b := bitLen n
  match defaultSysParams b with
  | some p => toString p.Ln
  | none => if b = 256 then "256" else "nil"

def showPub (k : PubKeyData) : String :=
  let rev := k.g.isSome && k.h.isSome && !k.ecdsa.isEmpty
  s!"c={k.counter} e={k.expiry} n={hexOfInt k.n} Z={hexOfInt k.z} S={hexOfInt k.s} G={showOptInt k.g} H={showOptInt k.h} R={showInts k.r} epoch={k.epoch} ecdsa={ofCodes k.ecdsa} ln={lnOf k.n} rev={rev}"

def showPriv (k : PrivKeyData) : String :=
  let rev := !k.ecdsa.isEmpty
  s!"c={k.counter} e={k.expiry} p={hexOfInt k.p} q={hexOfInt k.q} pp={hexOfInt k.pPrime} qp={hexOfInt k.qPrime} n={hexOfInt k.n} order={hexOfInt k.order} ecdsa={ofCodes k.ecdsa} rev={rev}"

def canonDoc (d : KeyDoc) : String :=
  let part : Item → String
    | .elem name t => "elem:" ++ name ++ "=" ++ ofCodes t
    | .bases num es =>
      let n := match num with | none => "nil" | some t => ofCodes t
      "bases:" ++ n ++ "(" ++ ",".intercalate (es.map fun (a, b) => a ++ "=" ++ ofCodes b) ++ ")"
    | .features l => "features:" ++ (match l with | none => "nil" | some t => ofCodes t)
  "root=" ++ d.root ++ " ns=" ++ d.ns ++ " items=[" ++ ";".intercalate (d.items.map part) ++ "]"

def octal4 (n : Nat) : String :=
  let ds := Nat.toDigits 8 n
  String.ofList (List.replicate (4 - ds.length) '0' ++ ds)

def parseOctal? (s : String) : Option Nat :=
  if s.isEmpty then none else
  s.foldl (fun acc c => match acc with
    | some a => if '0' ≤ c ∧ c ≤ '7' then some (a * 8 + (c.toNat - '0'.toNat)) else none
    | none => none) (some 0)

def parsePrior (s : String) : R FilePerm.Prior :=
  match s.splitOn ":" with
  | ["absent"] => pure .absent
  | ["dir"] => pure .dir
  | ["link-absent"] => pure .linkAbsent
  | ["link-dir"] => pure .linkDir
  | ["file", m] => match parseOctal? m with | some v => pure (.file v) | none => throw "bad mode"
  | ["link-file", m] => match parseOctal? m with | some v => pure (.linkFile v) | none => throw "bad mode"
  | _ => throw s!"bad prior {s}"

def handle : Handler := fun st op j =>
  match op with
  | "int-text" => some do
    let x ← getInt j "x"
    pure (st, match marshalText x with | .ok t => "ok " ++ ofCodes t | .error _ => "err")
  | "int-json" => some do
    let mode ← getStr j "mode"
    if mode = "rt" then
      let x ← getInt j "x"
      match marshalJSON x with
      | .error _ => pure (st, "err")
      | .ok t =>
        match jsonUnmarshalInt 0 t with
        | .error _ => pure (st, "err")
        | .ok y => pure (st, s!"{sameWord x y} {ofCodes t} {hexOfInt y}")
    else
      let input := codes (← getStr j "input")
      let via ← getStr j "via"
      let r := if via = "direct" then unmarshalJSON 0 input else jsonUnmarshalInt 0 input
      pure (st, match r with | .ok y => "ok " ++ hexOfInt y | .error _ => "err")
  | "int-xml" => some do
    let mode ← getStr j "mode"
    if mode = "rt" then
      let x ← getInt j "x"
      let t := marshalXML x
      match unmarshalXML t with
      | .error _ => pure (st, "err")
      | .ok y => pure (st, s!"{sameWord x y} {ofCodes t} {hexOfInt y}")
    else
      let input := codes (← getStr j "input")
      pure (st, match unmarshalXML input with | .ok y => "ok " ++ hexOfInt y | .error _ => "err")
  | "int-bin" => some do
    let mode ← getStr j "mode"
    if mode = "rt" then
      let x ← getInt j "x"
      let b := marshalBinary x
      let y := unmarshalBinary b
      let cb := cborOfInt x
      match cborBytesDecode? cb with
      | none => pure (st, "err")
      | some b' =>
        let z := unmarshalBinary b'
        let w := if x = y ∧ x = z then "same" else "diff"
        pure (st, s!"{w} {hexOfBytes b} {hexOfBytes cb} {hexOfInt y} {hexOfInt z}")
    else
      let b ← getBytes j "bytes"
      pure (st, "ok " ++ hexOfInt (unmarshalBinary b))
  | "key-parse" => some do
    let doc ← parseDoc (← field j "doc")
    let env ← envOf j
    let kind ← getStr j "kind"
    if kind = "pub" then
      pure (st, match parsePub env doc with | .ok k => "ok " ++ showPub k | .error _ => "err")
    else
      let demo ← getBool j "demo"
      pure (st, match parsePriv env demo doc with | .ok k => "ok " ++ showPriv k | .error _ => "err")
  | "key-roundtrip" => some do
    let env ← envOf j
    let kind ← getStr j "kind"
    let counter ← getNat j "counter"
    let expiry ← getInt j "expiry"
    let ecdsa := codes (← getStr j "ecdsa")
    if kind = "pub" then
      let k : PubKeyData := {
        counter := counter, expiry := expiry, n := ← getInt j "n", z := ← getInt j "Z", s := ← getInt j "S",
        g := ← getOptInt j "G", h := ← getOptInt j "H", r := ← getInts j "R", epoch := ← getInt j "epoch",
        ecdsa := ecdsa }
      let doc := printPub k
      let w := match parsePub env doc with
        | .ok k' => if k' = k then "same" else "diff:model"
        | .error _ => "err"
      pure (st, if w = "err" then "err" else w ++ " " ++ canonDoc doc)
    else
      let demo := match fieldOpt j "demo" with | some (.bool b) => b | _ => false
      let k : PrivKeyData := {
        counter := counter, expiry := expiry, p := ← getInt j "p", q := ← getInt j "q",
        pPrime := ← getInt j "pPrime", qPrime := ← getInt j "qPrime", ecdsa := ecdsa }
      let doc := printPriv k
      let w := match parsePriv env demo doc with
        | .ok k' => if k' = k then "same" else "diff:model"
        | .error _ => "err"
      pure (st, if w = "err" then "err" else w ++ " " ++ canonDoc doc)
  | "filemode" => some do
    let prior ← parsePrior (← getStr j "prior")
    let umask ← getNat j "umask"
    let force ← getBool j "force"
    let root ← getBool j "root"
    let p : FilePerm.Proc := { umask := umask, root := root }
    match FilePerm.writeToFile p force prior with
    | .err => pure (st, "err")
    | .ok m =>
      let word := if m &&& 0o077 = 0 then "private" else "exposed"
      let content := if root || (m &&& 0o400 != 0) then "ok" else "unreadable"
      pure (st, s!"{word} {octal4 m} content={content}")
  | "msg-roundtrip" => some do
    -- the codec model for whole messages is the identity on meaning: the verdict after a
    -- round trip is the verdict before it (theorems: field codecs, compressed event lists)
    let orig ← getStr j "orig"
    pure (st, if orig = "accept" then "accept same" else orig ++ " -")
  | _ => none

end Gabi.Ops.Serial
