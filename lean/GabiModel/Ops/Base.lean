/-
  GabiModel.Ops.Base — state and handler type of the line-protocol dispatcher.
-/
import Lean.Data.Json
import GabiModel.Wire
import GabiModel.Keys
namespace Gabi.Ops
open Lean Gabi Gabi.Wire

/-- state carried between lines: declared keys (decl-key / decl-sk). -/
structure State where
  keys : List (String × PublicKey) := []
  sks : List (String × PrivateKey) := []

def State.init : State := {}

def State.key (st : State) (id : String) : R PublicKey :=
  match st.keys.lookup id with
  | some k => pure k
  | none => throw s!"undeclared key {id}"

def State.sk (st : State) (id : String) : R PrivateKey :=
  match st.sks.lookup id with
  | some k => pure k
  | none => throw s!"undeclared private key {id}"

/-- a handler returns `none` when the op name is not its own. -/
abbrev Handler := State → String → Json → Option (R (State × String))

end Gabi.Ops
