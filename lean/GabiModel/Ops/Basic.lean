/-
  GabiModel.Ops.Basic — ops of C15 (hash tool) and C19 (number theory helpers).
-/
import GabiModel.Ops.Base
import GabiModel.HashTool
import GabiModel.MathUtil
import GabiModel.Generated
namespace Gabi.Ops.Basic
open Lean Gabi Gabi.Wire Gabi.Ops

def handle (st : State) (op : String) (j : Json) : Option (R (State × String)) :=
  match op with
  | "hashcommit" => some do
    let vals ← getInts j "vals"
    let issig ← getBool j "issig"
    pure (st, hexOfNat (hashCommit vals issig))
  | "der" => some do
    let vals ← getInts j "vals"
    let issig ← getBool j "issig"
    pure (st, hexOfBytes (hashCommitInput vals issig))
  | "sha256" => some do
    let b ← getBytes j "data"
    pure (st, hexOfBytes (Sha256.hash b))
  | "inthash" => some do
    let b ← getBytes j "data"
    pure (st, hexOfNat (intHashSha256 b))
  | "inthash-concurrent" => some do
    let inputs ← (← asArr (← field j "inputs")).mapM fun x => do
      match parseHexBytes? (← asStr x) with
      | some b => pure b
      | none => throw "bad input"
    pure (st, "ok " ++ ",".intercalate (inputs.map fun b => hexOfNat (intHashSha256 b)))
  | "hashnumber" => some do
    let a ← getOptInt j "a"
    let b ← getOptInt j "b"
    let idx ← getInt j "index"
    let bl ← getNat j "bitlen"
    pure (st, hexOfNat (getHashNumber a b idx bl))
  | "challenge" => some do
    let ctx ← getInt j "context"
    let nonce ← getInt j "nonce"
    let cs ← getInts j "contribs"
    let issig ← getBool j "issig"
    pure (st, hexOfNat (createChallenge ctx nonce cs issig))
  | "modinv" => some do
    let a ← getInt j "a"; let n ← getInt j "n"
    pure (st, match commonModInverse a n with | some r => "ok " ++ hexOfInt r | none => "none")
  | "bigmodinv" => some do
    let a ← getInt j "a"; let n ← getInt j "n"
    pure (st, match goModInverse a n with | some r => "ok " ++ hexOfInt r | none => "none")
  | "modpow" => some do
    let x ← getInt j "x"; let y ← getInt j "y"; let m ← getInt j "m"
    pure (st, match modPow x y m with | some r => "ok " ++ hexOfInt r | none => "err")
  | "legendre" => some do
    let a ← getInt j "a"; let p ← getInt j "p"
    pure (st, toString (legendreSymbol a p))
  | "crt" => some do
    let a ← getInt j "a"; let pa ← getInt j "pa"; let b ← getInt j "b"; let pb ← getInt j "pb"
    pure (st, match crt a pa b pb with | some r => "ok " ++ hexOfInt r | none => "panic")
  | "primesqrt" => some do
    let a ← getNat j "a"; let p ← getNat j "p"
    pure (st, match primeSqrt a p with
      | .root r => "ok " ++ hexOfNat r ++ (if r * r % p = a % p then " sq" else " notsq")
      | .noRoot => "none" | .diverges => "diverges")
  | "modsqrt" => some do
    let a ← getInt j "a"; let fs ← getInts j "factors"
    let n := fs.foldl (· * ·) 1
    pure (st, match modSqrt a fs with
      | .root r => (if ((r : Int) * r - a) % n = 0 then "root " else "wrong-root ") ++ hexOfNat r
      | .noRoot => "none" | .diverges => "diverges")
  | "sum4" => some do
    let n ← getNat j "n"
    let ia ← getNat j "innerArg"
    let ir ← getInts j "innerRes"
    match ir with
    | [x, y, z, w] =>
      let special : Nat → Quad := fun k => if k = ia then (x, y, z, w) else (-1, -1, -1, -1)
      let (a, b, c, d) := sumFourSquaresWith special n
      let okArg : Bool := decide (sumFourSquaresInnerArg n = ia)
      let okSum : Bool := decide (a * a + b * b + c * c + d * d = (n : Int)) && decide (a ≥ 0) && decide (b ≥ 0) && decide (c ≥ 0) && decide (d ≥ 0)
      pure (st, s!"{hexOfInt a} {hexOfInt b} {hexOfInt c} {hexOfInt d} arg={okArg} sum={okSum}")
    | _ => throw "innerRes"
  | "fastmod" => some do
    let p ← getNat j "p"; let x ← getInt j "x"
    let m := FastMod.set p
    pure (st, hexOfInt (m.mod x))
  | "randprime-member" => some do
    let start ← getNat j "start"; let len ← getNat j "length"; let p ← getNat j "p"
    pure (st, toString (randomPrimeInRangeOk start len p && randomPrimeCandidateOk Gen.smallPrimes Gen.smallPrimesProduct start p))
  | "safeprime" => some do
    let x ← getNat j "x"
    pure (st, toString (safePrimeOk x))
  | "groupexp" => some do
    let base ← getNat j "base"; let e ← getInt j "exp"; let order ← getInt j "order"; let p ← getNat j "p"
    pure (st, match groupFoldExp e order with | some e' => "ok " ++ hexOfNat (powMod base e'.toNat p) | none => "panic")
  | _ => none


end Gabi.Ops.Basic
