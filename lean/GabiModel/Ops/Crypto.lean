/-
  GabiModel.Ops.Crypto — ops on CL signatures and proofs (C01–C06, C08, C14).
-/
import GabiModel.Ops.Base
import GabiModel.CL
import GabiModel.Proofs
import GabiModel.Decode
import GabiModel.JsonFold
import GabiModel.Prover
import GabiModel.Keyshare
import GabiModel.Reuse
namespace Gabi.Ops.Crypto
open Lean Gabi Gabi.Wire Gabi.Ops

def showGoMBool : GoM Bool → String
  | .ok true => "accept"
  | .ok false => "reject"
  | .error _ => "panic"

def parseSig (j : Json) : R CLSignature := do
  pure { a := ← getInt j "A", e := ← getInt j "e", v := ← getInt j "v", keyshareP := ← getOptInt j "KeyshareP" }

/-- set of verdicts over all choices of Go's map iteration order, printed sorted and joined by `|`. -/
def showVerdicts (vs : List String) : String :=
  let ds := vs.eraseDups
  let sorted := ds.toArray.qsort (· < ·) |>.toList
  "|".intercalate sorted

def views (j : Json) : List Json :=
  match j.getObjVal? "sigviews" with
  | .ok (.arr a) => a.toList
  | _ => []

/-- what C04 demands of an honest disclosure proof, evaluated on the decoded proof: exact key
    sets, true disclosed values, implied randomisers in `[0, 2^LmCommit)`, no hidden value among
    the numbers of the proof, timestamp contribution = disclosed values and zeros. -/
def memberCheck (pk : PublicKey) (p : ProofD) (attrs : List Int) (disclosed : List Int) (ts : List Int) : String :=
  let lm := pk.params.Lm
  let c := p.c.getD 0
  let idxs := (List.range attrs.length).map (fun (i : Nat) => (i : Int))
  let shapeBad := idxs.any fun i =>
    if disclosed.contains i then !(p.aDisclosed.has i) || p.aResponses.has i
    else p.aDisclosed.has i || !(p.aResponses.has i)
  let nd := disclosed.eraseDups.length
  if shapeBad || p.aDisclosed.length ≠ nd || p.aResponses.length ≠ attrs.length - nd then "shape" else
  let valueBad := idxs.any fun i => disclosed.contains i && p.aDisclosed.get i ≠ attrs[i.toNat]?
  if valueBad then "value" else
  let randBad := idxs.any fun i =>
    !disclosed.contains i &&
      (match p.aResponses.get i, attrs[i.toNat]? with
       | some s, some m =>
         let rnd := s - c * attrExp lm m
         decide (rnd < 0) || decide (bitLen rnd > pk.params.LmCommit)
       | _, _ => true)
  if randBad then "randomizer" else
  let nums : List Int := [p.c, p.a, p.eResponse, p.vResponse].filterMap id ++
    p.aResponses.filterMap (·.2) ++ p.aDisclosed.filterMap (·.2) ++
    (match p.nonrev with
     | some nr => [nr.cr, nr.cu].filterMap id ++ nr.responses.filterMap (·.2)
     | none => [])
  let leak := idxs.any fun i =>
    !disclosed.contains i &&
      (match attrs[i.toNat]? with
       | some a => bitLen a > 40 &&
           !(idxs.any fun k => disclosed.contains k && attrs[k.toNat]? = some a) &&
           (nums.contains a || nums.contains (attrExp lm a))
       | none => false)
  if leak then "leak" else
  let tsBad := ts.length ≠ attrs.length || idxs.any fun i =>
    ts[i.toNat]? ≠ (if disclosed.contains i then attrs[i.toNat]? else some 0)
  if tsBad then "timestamp" else ""

def showMap (m : IntMap) : String :=
  let sorted := m.toArray.qsort (fun a b => a.1 < b.1) |>.toList
  ",".intercalate (sorted.map fun kv => s!"{kv.1}:{showOptInt kv.2}")

/-- canonical rendering of a ProofD (without optional parts). -/
def canonD (p : ProofD) : String :=
  s!"c={showOptInt p.c} A={showOptInt p.a} e={showOptInt p.eResponse} v={showOptInt p.vResponse} ar=[{showMap p.aResponses}] ad=[{showMap p.aDisclosed}]"

def handle : Handler := fun st op j =>
  match op with
  | "verifylist" => some do
    let keyIds ← (← asArr (← field j "keys")).mapM asStr
    let keys ← keyIds.mapM fun id => do pure (id, ← st.key id)
    let ctx ← getInt j "context"
    let nonce ← getInt j "nonce"
    let issig ← getBool j "issig"
    let kss ← (match fieldOpt j "kss" with
      | none => pure []
      | some v => do (← asArr v).mapM asStr : R (List String))
    -- "direct": the proofs are in-memory objects (no wire format, negative integers possible)
    let direct := (getBool j "direct").toOption.getD false
    let tree ← field j "proofs"
    match Decode.proofList (if direct then tree else JsonFold.apply JsonFold.proofListS tree) direct with
    | .error _ => pure (st, "decode-error")
    | .ok pl =>
      let o := Decode.sigOracle (views j)
      let combos := choiceCombos (pl.map Proof.revChoices)
      let vs := combos.map fun ch => showGoMBool (proofListVerifyWith o keys pl ctx nonce issig kss ch)
      pure (st, showVerdicts vs)
  | "verifyD" => some do
    let kid ← getStr j "key"
    let pk ← st.key kid
    let ctx ← getInt j "context"
    let nonce ← getInt j "nonce"
    let issig ← getBool j "issig"
    let direct := (getBool j "direct").toOption.getD false
    let tree ← field j "proof"
    match Decode.proofD (if direct then tree else JsonFold.apply JsonFold.proofDS tree) direct with
    | .error _ => pure (st, "decode-error")
    | .ok p =>
      let o := Decode.sigOracle (views j)
      let cs := p.revChoices
      let vs := cs.flatMap fun a => cs.map fun b => showGoMBool (p.verifyWith o kid pk ctx nonce issig a b)
      pure (st, showVerdicts vs)
  | "memberD" => some do
    let kid ← getStr j "key"
    let pk ← st.key kid
    let ctx ← getInt j "context"
    let nonce ← getInt j "nonce"
    let issig ← getBool j "issig"
    let attrs ← getInts j "attrs"
    let disclosed ← getInts j "disclosed"
    let ts ← getInts j "ts"
    match Decode.proofD (JsonFold.apply JsonFold.proofDS (← field j "proof")) with
    | .error _ => pure (st, "decode-error")
    | .ok p =>
      let o := Decode.sigOracle (views j)
      let cs := p.revChoices
      let vs := cs.flatMap fun a => cs.map fun b => showGoMBool (p.verifyWith o kid pk ctx nonce issig a b)
      let v := showVerdicts vs
      if v ≠ "accept" then pure (st, v) else
      match memberCheck pk p attrs disclosed ts with
      | "" => pure (st, "accept")
      | why => pure (st, "accept-but-" ++ why)
  | "randstat" => some do
    let mb ← getNat j "maxbits"
    let lc ← getNat j "lmcommit"
    pure (st, if mb + 16 ≥ lc then "ok" else "short-randomizers")
  | "traceD" => some do
    let kid ← getStr j "key"
    let pk ← st.key kid
    let ctx ← getInt j "context"
    let nonce ← getInt j "nonce"
    let issig ← getBool j "issig"
    match Decode.proofD (JsonFold.apply JsonFold.proofDS (← field j "proof")) with
    | .error _ => pure (st, "decode-error")
    | .ok p =>
      let o := Decode.sigOracle (views j)
      let cs := p.revChoices
      let wf := p.wellFormed pk
      let i1 := cs.headD (-1)
      let sacc := p.nonrev.bind (·.sacc)
      let uv := sacc.map (fun s => (s.unmarshalVerify o kid pk).isSome)
      let se := p.nonrev.map (fun nr => (nr.setExpected o kid pk (p.c.getD 0) ((p.aResponses.get i1).getD 0)).isSome)
      let cc := match (p.challengeContribution o kid pk i1).run with
        | .ok (some (l, _)) => "contrib " ++ " ".intercalate (l.map hexOfInt)
        | .ok none => "contrib-error"
        | .error _ => "contrib-panic"
      let c' := match (p.challengeContribution o kid pk i1).run with
        | .ok (some (l, _)) => hexOfNat (createChallenge ctx nonce l issig)
        | _ => "?"
      pure (st, s!"wf={wf} cands={cs} views={(views j).length} unmarshalVerify={uv} setExpected={se} {cc} c'={c'} c={showOptInt p.c}")
  | "replayD" => some do
    -- the model prover, fed with the randomness the real prover drew, must produce the same proof
    let pk ← st.key (← getStr j "key")
    let sig ← parseSig (← field j "sig")
    let attrs ← getInts j "attrs"
    let disclosed ← getInts j "disclosed"
    let rj ← field j "rnd"
    let attr ← (← asArr (← field rj "attr")).mapM fun p => do
      match ← asArr p with
      | [k, v] => pure (← asInt k, ← asInt v)
      | _ => throw "pair"
    let rnd : DisclosureRandomness := { r := ← getInt rj "r", eCommit := ← getInt rj "eCommit", vCommit := ← getInt rj "vCommit", attr := attr }
    match createDisclosureProof pk sig attrs disclosed rnd (← getInt j "context") (← getInt j "nonce") (← getBool j "issig") with
    | .error _ => pure (st, "panic")
    | .ok p => pure (st, canonD p)
  | "rp-proves" => some do
    let n ← getNat j "ncs"
    let sgn ← getInt j "sign"
    let av ← getNat j "a"
    let kv ← getOptInt j "k"
    let rp : RangeProof := { cs := List.replicate n (some 1), ds := [], vs := [], v5 := none, ld := 0, sign := sgn, a := av, k := kv }
    pure (st, toString (rp.provesStatement (← getInt j "qsign") (← getNat j "qfactor") (← getInt j "qbound")))
  | "rp-proven" => some do
    let n ← getNat j "ncs"
    let sgn ← getInt j "sign"
    let av ← getNat j "a"
    let kv ← getOptInt j "k"
    let rp : RangeProof := { cs := List.replicate n (some 1), ds := [], vs := [], v5 := none, ld := 0, sign := sgn, a := av, k := kv }
    -- "extractkey": only descriptors ExtractStructure lets through belong to verified proofs
    let passes ← match (getStr j "extractkey").toOption with
      | some kid => do
        let pk ← st.key kid
        pure (rp.extractStructure 1 pk).isSome
      | none => pure true
    if !passes then return (st, "turned-away")
    -- what is reported must follow from the established fact sign*(A*m - K) >= 0 on the box
    let holds (sg : Int) (f : Int) (b : Int) (m : Int) : Bool :=
      if sg == 1 then decide (f * m - b ≥ 0) else decide (f * m - b ≤ 0)
    pure (st, match rp.provenStatement with
      | some (sg, f, b) =>
        let sound := if sgn == 1 || sgn == -1 then
            (List.range 97).all fun m => !(holds sgn (av : Int) (kv.getD 0) (m : Int)) || holds sg (f : Int) b (m : Int)
          else true
        s!"{if sound then "sound" else "unsound"} {sg} {f} {hexOfInt b}"
      | none => "panic")
  | "rp-complete" => some do
    -- can the honest prover build the proof?  (CommitmentsFromSecrets preconditions)
    let sign ← getInt j "sign"
    let factor ← getNat j "factor"
    let bound ← getInt j "bound"
    let m ← getInt j "m"
    let table ← getNat j "table"   -- 0 = four squares, else number of table entries (limit+1)
    pure (st, if rangeProvable sign factor bound m table then "ok accept proves" else "err")
  | "verifyDnr" => some do
    -- verdict plus the accumulator index/time a verifier reads from the accepted proof
    let kid ← getStr j "key"
    let pk ← st.key kid
    let ctx ← getInt j "context"
    let nonce ← getInt j "nonce"
    let issig ← getBool j "issig"
    match Decode.proofD (JsonFold.apply JsonFold.proofDS (← field j "proof")) with
    | .error _ => pure (st, "decode-error")
    | .ok p =>
      let o := Decode.sigOracle (views j)
      let cs := p.revChoices
      let run := fun (a b : Int) => (do
        match ← (p.challengeContribution o kid pk a).run with
        | none => pure "reject"
        | some (contrib, p') =>
          let (ok, acc) ← p'.verifyWithChallenge o kid pk b (createChallenge ctx nonce contrib issig)
          pure (if ok then (match acc with
            | some ac => s!"accept:{ac.index}:{ac.time}"
            | none => "accept:none") else "reject") : GoM String)
      let vs := cs.flatMap fun a => cs.map fun b => match run a b with | .ok s => s | .error _ => "panic"
      pure (st, showVerdicts vs)
  | "construct" => some do
    let kid ← getStr j "key"
    let pk ← st.key kid
    let bj ← field j "builder"
    let mUser ← (← asArr (← field bj "mUser")).mapM fun p => do
      match ← asArr p with
      | [k, v] => pure (← asInt k, ← asInt v)
      | _ => throw "pair"
    let secret ← getInt bj "secret"
    let vPrime ← getInt bj "vPrime"
    let ksP ← getOptInt bj "keyshareP"
    let u ← (match userCommitment pk secret vPrime mUser ksP with
      | .ok u => pure u
      | .error _ => throw "userCommitment" : R Int)
    let bctx ← getInt bj "context"
    let bn2 ← getInt bj "nonce2"
    let b : CredBuilder := {
      secret := secret, vPrime := vPrime, vPrimeCommit := 0, mUser := mUser, mUserCommit := [],
      u := u, keyshareP := ksP, context := bctx, nonce2 := bn2 }
    let m ← field j "msg"
    -- the message tree is decoded like encoding/json does
    let dec : Decode.D (Option ProofS × Option CLSignature × List (Int × Option Int) × Option MsgWitness) := do
      let ps ← (do match ← Decode.structObj (Decode.optField m "proof") with
        | none => pure none
        | some o =>
          match ← Decode.big (Decode.optField o "c"), ← Decode.big (Decode.optField o "e_response") with
          | some c, some e => pure (some ({ c := c, eResponse := e } : ProofS))
          | _, _ => pure none : Decode.D (Option ProofS))
      let sg ← (do match ← Decode.structObj (Decode.optField m "signature") with
        | none => pure none
        | some o =>
          match ← Decode.big (Decode.optField o "A"), ← Decode.big (Decode.optField o "e"), ← Decode.big (Decode.optField o "v") with
          | some a, some e, some v => pure (some ({ a := a, e := e, v := v, keyshareP := ← Decode.big (Decode.optField o "KeyshareP") } : CLSignature))
          | _, _, _ => pure none : Decode.D (Option CLSignature))
      let mi ← Decode.intMap (Decode.optField m "m_issuer")
      let w ← (do match ← Decode.structObj (Decode.optField m "nonrev") with
        | none => pure none
        | some o =>
          let sa ← Decode.sacc (Decode.optField o "sacc")
          let orc := Decode.sigOracle (views j)
          let nu := sa.bind fun s => (s.unmarshalVerify orc kid pk).bind (·.nu)
          pure (some ({ u := ← Decode.big (Decode.optField o "u"), e := ← Decode.big (Decode.optField o "e"), nu := nu, hasSacc := sa.isSome } : MsgWitness))
        : Decode.D (Option MsgWitness))
      pure (ps, sg, mi, w)
    match dec with
    | .error _ => pure (st, "decode-error")
    | .ok (ps, sg, mi, w) =>
      let attrs ← getOptInts j "attributes"
      match b.construct pk ps sg mi attrs w with
      | .error _ => pure (st, "panic")
      | .ok (.rejected _) => pure (st, "rejected")
      | .ok (.credential sig vals) =>
        pure (st, "ok:" ++ ",".intercalate (vals.map hexOfInt) ++ s!" v={hexOfInt sig.v}")
  | "ks-response" => some do
    let keyIds ← (← asArr (← field j "keys")).mapM asStr
    let keys ← keyIds.mapM fun id => do pure (id, ← st.key id)
    let inputs ← (← asArr (← field j "inputs")).mapM fun i => do
      let kid := match fieldOpt i "key" with
        | some (.str s) => some s
        | _ => none
      pure ({ keyId := kid, value := ← getInt i "val", commitment := ← getInt i "comm", others := ← getInts i "others" } : KsInput)
    let r := keyshareResponse keys (← getInt j "secret") (← getInt j "randomizer") (← getBool j "hashmatch")
      (← getOptInt j "context") (← getInt j "nonce") (← getInt j "resp") (← getBool j "issig") inputs
    pure (st, match r with
      | some (c, s) => s!"ok:{hexOfNat c} s={hexOfInt s}"
      | none => "err")
  | "reuse-check" => some do
    let vals ← (← asArr (← field j "values")).mapM fun v => do
      pure ({ session := ← getNat v "session", proof := ← getNat v "proof", c := ← getInt v "c",
              slot := ← getStr v "slot", s := ← getInt v "s", m := ← getInt v "m" } : TranscriptValue)
    let els ← (← asArr (← field j "elements")).mapM fun e => do
      pure (← getNat e "proof", ← getStr e "name", ← getInt e "x")
    let n := reuseCount vals els
    pure (st, if n = 0 then s!"fresh values={vals.length} elements={els.length}" else s!"reused {n}")
  | "verifyU" => some do
    let pk ← st.key (← getStr j "key")
    let ctx ← getInt j "context"
    let nonce ← getInt j "nonce"
    let direct := (getBool j "direct").toOption.getD false
    let tree ← field j "proof"
    match Decode.proofU (if direct then tree else JsonFold.apply JsonFold.proofUS tree) direct with
    | .error _ => pure (st, "decode-error")
    | .ok p => pure (st, showGoMBool (p.verify pk ctx nonce))
  | "cl-verify" => some do
    let pk ← st.key (← getStr j "key")
    let sig ← parseSig (← field j "sig")
    let ms ← getInts j "msgs"
    pure (st, showGoMBool (clVerify pk sig ms))
  | _ => none

end Gabi.Ops.Crypto
