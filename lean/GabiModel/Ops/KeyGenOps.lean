/-
  GabiModel.Ops.KeyGenOps — ops of C16 (issuer key generation).
-/
import GabiModel.Ops.Base
import GabiModel.Ops.KeysOps
import GabiModel.KeyGen
import GabiModel.SafePrimeWorkers
namespace Gabi.Ops.KeyGenOps
open Lean Gabi Gabi.Wire Gabi.Ops Gabi.KeyGen

def getNats (j : Json) (k : String) : R (List Nat) := do (← asArr (← field j k)).mapM asNat

def parseBase (j : Json) : R Gen.BaseParams := do
  pure { LePrime := ← getNat j "LePrime", Lh := ← getNat j "Lh", Lm := ← getNat j "Lm",
         Ln := ← getNat j "Ln", Lstatzk := ← getNat j "Lstatzk" }

def parseKeyPair (j : Json) : R KeyPairData := do
  let pj ← field j "params"
  pure {
    ln := ← getNat j "ln", nattr := ← getNat j "nattr",
    base := ← parseBase pj, params := ← KeysOps.parseParams pj,
    p := ← getNat j "p", q := ← getNat j "q", pPrime := ← getNat j "pPrime", qPrime := ← getNat j "qPrime",
    skN := ← getNat j "skN", order := ← getNat j "order",
    n := ← getNat j "n", s := ← getNat j "S", z := ← getNat j "Z", g := ← getNat j "G", h := ← getNat j "H",
    r := ← getNats j "R",
    ecD := ← getNat j "ecD", ecX := ← getNat j "ecX", ecY := ← getNat j "ecY",
    leaked := ← getNat j "leaked" }

def handle : Handler := fun st op j =>
  match op with
  | "preparebytes" => some do
    let bs ← getBytes j "bytes"
    let b ← getNat j "b"
    pure (st, "ok " ++ hexOfBytes (prepareBytes bs b))
  | "findmatch" => some do
    let ps ← getNats j "primes"
    let ln ← getNat j "ln"
    let p ← getNat j "p"
    pure (st, match findMatch ps ln p with | some q => "ok " ++ hexOfNat q | none => "none")
  | "canprove" => some do
    let pP ← getNat j "pPrime"; let qP ← getNat j "qPrime"
    pure (st, toString (canProve pP qP))
  | "qr-member" => some do
    let p ← getNat j "p"; let q ← getNat j "q"; let x ← getNat j "x"
    pure (st, toString (isQR p q x))
  | "keypair" => some do
    let d ← parseKeyPair j
    let fs := failures d
    pure (st, if fs.isEmpty then "true" else "false " ++ ",".intercalate fs)
  | "keygen-workers" => some do
    -- the schedule is chosen by the Go runtime: the repaired protocol leaves no worker in any
    -- schedule (GabiProps.C16.no_worker_left), the old one may or may not
    pure (st, if Conc.SafePrimeWorkers.current == .selectSend then "clean" else "clean|leak")
  | "safeprime-stop" => some do
    let n ← getNat j "workers"
    let recvs ← getNat j "recvs"
    let mode ← getStr j "mode"
    pure (st, match Conc.SafePrimeWorkers.leftAfter Conc.SafePrimeWorkers.current n recvs (mode == "fill") with
      | some 0 => "clean"
      | some _ => "leak"
      | none => "stuck")
  | _ => none

end Gabi.Ops.KeyGenOps
