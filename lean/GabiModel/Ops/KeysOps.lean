/-
  GabiModel.Ops.KeysOps — decl-key / decl-sk.
-/
import GabiModel.Ops.Base
namespace Gabi.Ops.KeysOps
open Lean Gabi Gabi.Wire Gabi.Ops

def parseParams (j : Json) : R SysParams := do
  let n := fun k => getNat j k
  pure { LePrime := ← n "LePrime", Lh := ← n "Lh", Lm := ← n "Lm", Ln := ← n "Ln", Lstatzk := ← n "Lstatzk",
         Le := ← n "Le", LeCommit := ← n "LeCommit", LmCommit := ← n "LmCommit", LRA := ← n "LRA",
         LsCommit := ← n "LsCommit", Lv := ← n "Lv", LvCommit := ← n "LvCommit", LvPrime := ← n "LvPrime",
         LvPrimeCommit := ← n "LvPrimeCommit" }

def handle : Handler := fun st op j =>
  match op with
  | "decl-key" => some do
    let id ← getStr j "id"
    let declared ← parseParams (← field j "params")
    let nbits ← getNat j "nbits"
    -- the model derives the parameters itself from the regenerated tables; the declared ones
    -- (what the Go side uses) must coincide, otherwise the line is answered with a mismatch
    -- "custom": a parameter set that is in no table: derived here from the declared base lengths
    -- with the regenerated `MakeDerivedParameters`
    let custom := (getBool j "custom").toOption.getD false
    let mine := if custom then
        some (SysParams.ofBase { LePrime := declared.LePrime, Lh := declared.Lh, Lm := declared.Lm,
                                 Ln := declared.Ln, Lstatzk := declared.Lstatzk })
      else match defaultSysParams nbits with
      | some p => some p
      | none => if nbits = 256 then some (SysParams.ofBase toyBase) else none
    let pk : PublicKey := {
      n := ← getInt j "n", z := ← getInt j "Z", s := ← getInt j "S",
      g := ← getOptInt j "G", h := ← getOptInt j "H", r := ← getInts j "R",
      counter := ← getNat j "counter", params := declared,
      hasEcdsa := (← getStr j "ecdsa") ≠ "", issuer := ← getStr j "issuer" }
    if mine ≠ some declared then
      pure (st, "params-mismatch")
    else
      pure ({ st with keys := (id, pk) :: st.keys.filter (·.1 ≠ id) }, "ok")
  | "decl-sk" => some do
    let id ← getStr j "id"
    let sk : PrivateKey := {
      p := ← getInt j "p", q := ← getInt j "q", pPrime := ← getInt j "pPrime", qPrime := ← getInt j "qPrime",
      counter := ← getNat j "counter" }
    pure ({ st with sks := (id, sk) :: st.sks.filter (·.1 ≠ id) }, "ok")
  | _ => none

end Gabi.Ops.KeysOps
