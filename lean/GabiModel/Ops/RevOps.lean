/-
  GabiModel.Ops.RevOps — revocation ops (C09, C10): acc-history scripts, update-verify,
  hash-equal, event-hash.
-/
import GabiModel.Ops.Base
import GabiModel.Revocation
namespace Gabi.Ops.RevOps
open Lean Gabi Gabi.Wire Gabi.Ops Gabi.Rev

/-- issuer + client state of an `acc-history` script. -/
structure Hist where
  nu : Int
  index : Nat
  time : Int
  events : List Event            -- all events so far (index 0 first)
  accs : List SAcc               -- signed accumulator after event i (position i)
  witnesses : List (String × Witness) := []
  updates : List (String × Update) := []

def showRes : UpdateResult → String
  | .ok => "ok" | .revoked => "revoked" | .err => "err" | .panic => "panic"

def parseEvent (j : Json) : R Event := do
  pure { index := ← getNat j "i", e := ← getInt j "e", parentHash := ← getBytes j "parent" }

def parseSAcc (j : Json) : R SAcc := do
  pure { nu := ← getInt j "nu", index := ← getNat j "index", time := ← getInt j "time",
         eventHash := ← getBytes j "eventhash", pkCounter := ← getNat j "pk", sigOk := ← getBool j "sigok" }

def runHistory (pk : PublicKey) (sk : PrivateKey) (nu0 : Int) (time0 : Int) (steps : List Json) : R String := do
  let initial : Event := { index := 0, e := 1, parentHash := 0x12 :: 0x20 :: List.replicate 32 0 }
  let mk (nu : Int) (index : Nat) (time : Int) (ev : Event) : SAcc :=
    { nu := nu, index := index, time := time, eventHash := ev.hash, pkCounter := pk.counter, sigOk := true }
  let mut h : Hist := { nu := nu0, index := 0, time := time0, events := [initial], accs := [mk nu0 0 time0 initial] }
  let mut out : List String := []
  let mut us : List String := []
  for st in steps do
    let t ← getStr st "t"
    match t with
    | "revoke" =>
      let e ← getInt st "e"
      let time ← getInt st "time"
      match h.events.getLast? with
      | none => throw "no events"
      | some parent =>
        match accRemove pk.n sk.order h.nu h.index e parent with
        | none => out := out ++ ["revoke-err"]
        | some (nu', ev) =>
          h := { h with nu := nu', index := h.index + 1, time := time, events := h.events ++ [ev],
                        accs := h.accs ++ [mk nu' (h.index + 1) time ev] }
          out := out ++ ["revoked-ok"]
    | "witness" =>
      let wid ← getStr st "w"
      let e ← getInt st "e"
      match newWitnessU pk.n sk.order h.nu e, h.accs.getLast? with
      | some u, some sacc =>
        h := { h with witnesses := (wid, { u := u, e := e, sacc := sacc }) :: h.witnesses.filter (·.1 ≠ wid) }
        out := out ++ ["witness-ok"]
      | _, _ => out := out ++ ["witness-err"]
    | "mkupdate" =>
      let uid ← getStr st "u"
      let frm ← getNat st "from"
      let to ← getNat st "to"
      let badnu := (getBool st "badnu").toOption.getD false
      match h.accs[to]? with
      | none => throw "bad to"
      | some sacc0 =>
        -- "badnu": an issuer-signed accumulator whose value does not match its events
        let sacc1 := if badnu then { sacc0 with nu := sacc0.nu * 4 % pk.n } else sacc0
        -- "othercounter": the genuine signed bytes announced for another key generation
        let sacc := if (getBool st "othercounter").toOption.getD false
          then { sacc1 with pkCounter := sacc1.pkCounter + 1 } else sacc1
        let evs0 := (h.events.drop frm).take (to + 1 - frm)
        -- "badevents": a genuine signed accumulator with one event value altered
        let badevents := (getBool st "badevents").toOption.getD false
        let badk := (getNat st "badk").toOption.getD 0
        let evs := if badevents ∧ evs0.length > 0 then
            evs0.mapIdx fun i e => if i = badk % evs0.length then
              { e with parentHash := e.parentHash ++ ((getBytes st "badparentappend").toOption.getD []),
                       e := match (getInt st "bade").toOption with
                              | some v => v      -- a value of the attacker's choosing
                              | none => e.e + 2 } else e
          else evs0
        h := { h with updates := (uid, { sacc := sacc, events := evs }) :: h.updates.filter (·.1 ≠ uid) }
        out := out ++ ["update-ok"]
    | "redecode" =>
      -- the next message read into the existing update object (values: the object is replaced)
      let uid ← getStr st "u"
      let frm ← getNat st "from"
      let to ← getNat st "to"
      match h.accs[to]? with
      | none => throw "bad to"
      | some sacc =>
        let evs := (h.events.drop frm).take (to + 1 - frm)
        h := { h with updates := (uid, { sacc := sacc, events := evs }) :: h.updates.filter (·.1 ≠ uid) }
        out := out ++ ["redecode-ok"]
    | "apply" =>
      let wid ← getStr st "w"
      let uid ← getStr st "u"
      match h.witnesses.lookup wid, h.updates.lookup uid with
      | some w, some u =>
        let (res, w', u') := w.update pk u
        h := { h with witnesses := (wid, w') :: h.witnesses.filter (·.1 ≠ wid),
                      updates := (uid, u') :: h.updates.filter (·.1 ≠ uid) }
        out := out ++ [s!"{showRes res}:{w'.sacc.index}:{witnessValid pk w'}"]
        us := us ++ [hexOfInt w'.u]
      | _, _ => throw "unknown witness/update"
    | "prepend" =>
      let uid ← getStr st "u"
      let lo ← getNat st "from"
      let hi ← getNat st "to"
      match h.updates.lookup uid with
      | none => throw "unknown update"
      | some u =>
        let evs0 := (h.events.drop lo).take (hi + 1 - lo)
        -- "tamper": one value of the chunk altered (the hashes no longer link)
        let evs := match (getNat st "tamper").toOption with
          | some k => if evs0.length > 0 then
              evs0.mapIdx fun i e => if i = k % evs0.length then { e with e := e.e + 2 } else e
            else evs0
          | none => evs0
        match u.prepend evs with
        | some u' =>
          h := { h with updates := (uid, u') :: h.updates.filter (·.1 ≠ uid) }
          out := out ++ [s!"prepend-ok:{(u'.events.head?.map (·.index)).getD 0}"]
        | none => out := out ++ ["prepend-err"]
    | "corruptw" =>
      let wid ← getStr st "w"
      match h.witnesses.lookup wid with
      | some w =>
        h := { h with witnesses := (wid, { w with u := (w.u + 1) % pk.n }) :: h.witnesses.filter (·.1 ≠ wid) }
        out := out ++ ["corrupt-ok"]
      | none => throw "unknown witness"
    | "clonew" =>
      let src ← getStr st "from"
      let dst ← getStr st "to"
      match h.witnesses.lookup src with
      | some w => h := { h with witnesses := (dst, w) :: h.witnesses.filter (·.1 ≠ dst) }; out := out ++ ["clone-ok"]
      | none => throw "unknown witness"
    | "verifyw" =>
      let wid ← getStr st "w"
      match h.witnesses.lookup wid with
      | some w => out := out ++ [s!"{w.verify pk}:{w.sacc.index}"]
      | none => throw "unknown witness"
    | _ => throw s!"unknown step {t}"
  pure (";".intercalate out ++ " " ++ ",".intercalate us)

def handle : Handler := fun st op j =>
  match op with
  | "acc-history" => some do
    let kid ← getStr j "key"
    let pk ← st.key kid
    let sk ← st.sk kid
    let steps ← asArr (← field j "steps")
    let r ← runHistory pk sk (← getInt j "nu0") (← getInt j "time0") steps
    pure (st, r)
  | "hash-equal" => some do
    pure (st, toString (hashEqual (← getBytes j "a") (← getBytes j "b")))
  | "event-hash" => some do
    let ev ← parseEvent j
    pure (st, hexOfBytes ev.hash)
  | "hash-alg" => some do
    pure (st, toString (hashAlgOk (← getBytes j "h")))
  | "update-verify" => some do
    -- events + abstract view of the signed accumulator (computed independently by the harness)
    let pk ← st.key (← getStr j "key")
    -- `view` = the events as they are after the transport named in the op (indices and parent
    -- hashes recomputed for the compressed JSON/CBOR forms); `events` = before transport
    let evs ← (← asArr (← field j (if (fieldOpt j "view").isSome then "view" else "events"))).mapM parseEvent
    match fieldOpt j "sacc" with
    | none => pure (st, "reject")
    | some sj =>
      let sacc ← parseSAcc sj
      let u : Update := { sacc := sacc, events := evs }
      pure (st, match u.verify pk with | some acc => s!"accept {acc.index}" | none => "reject")
  | "update-prepend" => some do
    let evs ← (← asArr (← field j "events")).mapM parseEvent
    let pre ← (← asArr (← field j "prepend")).mapM parseEvent
    let sacc ← parseSAcc (← field j "sacc")
    let u : Update := { sacc := sacc, events := evs }
    pure (st, match u.prepend pre with
      | some u' => "ok " ++ ",".intercalate (u'.events.map (fun e => toString e.index))
      | none => "err " ++ ",".intercalate (u.events.map (fun e => toString e.index)))
  | _ => none

end Gabi.Ops.RevOps
