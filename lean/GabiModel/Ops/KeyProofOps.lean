/-
  GabiModel.Ops.KeyProofOps — ops of property C17.
  Component ops run the component models of GabiModel.KeyProof.  Whole-proof ops (`kp-verify`,
  `kp-alter`, `kp-build-verify`) are answered with the specification verdict: the composed proof
  tree is not modelled, for those ops the check is the by-construction label on the Go side.
-/
import GabiModel.Ops.Base
import GabiModel.KeyProof
namespace Gabi.Ops.KeyProofOps
open Lean Gabi Gabi.Wire Gabi.Ops Gabi.KeyProof

def optInts (j : Json) (k : String) : R (Option (List (Option Int))) :=
  match fieldOpt j k with
  | none => pure none
  | some v => do
    let l ← (← asArr v).mapM asOptInt
    pure (some l)

def showInts (l : List Int) : String := " ".intercalate (l.map hexOfInt)

def buildRes (r : Option (List Int)) : String :=
  match r with
  | some l => "ok " ++ showInts l
  | none => "panic"

def asppOf (j : Json) : R AsppProof := do
  pure { nonce := ← getOptInt j "nonce", commitments := ← optInts j "commitments", responses := ← optInts j "responses" }

def namedInts (j : Json) (k : String) : R (List (String × Int)) := do
  (← asArr (← field j k)).mapM fun p => do
    match ← asArr p with
    | [a, b] => pure (← asStr a, ← asInt b)
    | _ => throw "pair expected"

def reprOf (j : Json) : R ReprStructure := do
  let lhs ← (← asArr (← field j "lhs")).mapM fun p => do
    match ← asArr p with
    | [a, b] => pure (LhsContribution.mk (← asStr a) (← asInt b))
    | _ => throw "lhs"
  let rhs ← (← asArr (← field j "rhs")).mapM fun p => do
    match ← asArr p with
    | [a, b, c] => pure (RhsContribution.mk (← asStr a) (← asStr b) (← asInt c))
    | _ => throw "rhs"
  pure { lhs := lhs, rhs := rhs }

def extraBases (g : Group) (l : List (String × Int)) : BaseLookup Nat := fun name =>
  match l.lookup name with
  | some v => some ⟨(v % g.p).toNat, false⟩
  | none => none

def rangeResults (v : Option Json) : R RangeResults :=
  match v with
  | none => pure none
  | some a => do
    let l ← (← asArr a).mapM fun p => do
      match ← asArr p with
      | [k, xs] => pure (← asStr k, ← (← asArr xs).mapM asOptInt)
      | _ => throw "results"
    pure (some l)

def pedOf (j : Json) : R (PedersenProof × Bool) := do
  let c ← getOptInt j "commit"; let s ← getOptInt j "s"; let h ← getOptInt j "h"
  pure ({ commit := c.getD 0, sresult := s.getD 0, hresult := h.getD 0 }, c.isSome && s.isSome && h.isSome)

def verdictOfHash (l : Option (List Int)) (challenge : Int) : String :=
  match l with
  | none => "panic"
  | some xs => if (hashCommit xs false : Int) = challenge then "accept" else "reject"

def segNames : List String :=
  ["pprime", "qprime", "p", "q", "groupPrime", "n", "pPprimeRel", "qQprimeRel", "pQNRel", "pprimeIsPrime",
   "qprimeIsPrime", "qspp", "basesValid"]

def handle : Handler := fun st op j =>
  match op with
  | "decl-keyproof" => some (pure (st, "ok"))
  | "kp-verify" => some do pure (st, ← getStr j "spec")
  | "kp-alter" => some do pure (st, ← getStr j "spec")
  | "kp-build-verify" => some do
    let pp ← getInt j "pprime"; let qp ← getInt j "qprime"
    pure (st, if canProve pp qp then "accept" else "cannot-prove")
  | "kp-challenge" => some do
    let seg := fun k => getInts j ("seg_" ++ k)
    let one := fun k => do
      match ← seg k with
      | [x] => pure x
      | _ => throw s!"segment {k} is not a single value"
    let parts : ChallengeParts := {
      pprime := ← seg "pprime", qprime := ← seg "qprime", p := ← seg "p", q := ← seg "q",
      groupPrime := ← one "groupPrime", n := ← one "n",
      pPprimeRel := ← seg "pPprimeRel", qQprimeRel := ← seg "qQprimeRel", pQNRel := ← seg "pQNRel",
      pprimeIsPrime := ← seg "pprimeIsPrime", qprimeIsPrime := ← seg "qprimeIsPrime",
      qspp := ← seg "qspp", basesValid := ← seg "basesValid" }
    let challenge ← getInt j "challenge"
    let nbits ← getNat j "nbits"; let nbases ← getNat j "nbases"
    let okHash : Bool := decide ((hashCommit parts.input false : Int) = challenge)
    let okLens : Bool := decide (parts.lengths = expectedLengths nbits nbases)
    pure (st, s!"{okHash && okLens} " ++ ",".intercalate (parts.lengths.map toString))
  | "sf-build" => some do
    pure (st, buildRes (squareFreeBuild (← getInt j "n") (← getInt j "phi") (← getInt j "challenge") (← getInt j "index")))
  | "sf-verify" => some do
    pure (st, (squareFreeVerify (← getInt j "n") (← getInt j "challenge") (← getInt j "index") (← optInts j "responses")).toString)
  | "ppp-build" => some do
    pure (st, buildRes (primePowerProductBuild (← getInt j "p") (← getInt j "q") (← getInt j "challenge") (← getInt j "index")))
  | "ppp-verify" => some do
    pure (st, (primePowerProductVerify (← getInt j "n") (← getInt j "challenge") (← getInt j "index") (← optInts j "responses")).toString)
  | "dpp-build" => some do
    pure (st, buildRes (disjointPrimeProductBuild (← getInt j "p") (← getInt j "q") (← getInt j "challenge") (← getInt j "index")))
  | "dpp-verify" => some do
    pure (st, (disjointPrimeProductVerify (← getInt j "n") (← getInt j "challenge") (← getInt j "index") (← optInts j "responses")).toString)
  | "aspp-build" => some do
    pure (st, buildRes (almostSafePrimeProductBuild (← getInt j "pprime") (← getInt j "qprime") (← getInt j "challenge")
      (← getInt j "index") (← getInts j "logs")))
  | "aspp-verify" => some do
    pure (st, (almostSafePrimeProductVerify (← getInt j "n") (← getInt j "challenge") (← getInt j "index") (← asppOf j)).toString)
  | "qspp-verify" => some do
    let pr : QsppProof := { sf := ← optInts j "sf", ppp := ← optInts j "ppp", dpp := ← optInts j "dpp", aspp := ← asppOf j }
    pure (st, (quasiSafePrimeProductVerify (← getInt j "n") (← getInt j "challenge") pr).toString)
  | "repr-secrets" => some do
    match buildGroup (← getInt j "gp") with
    | none => pure (st, "nogroup")
    | some g =>
      let bases := mergeBases g.bases (extraBases g (← namedInts j "bases"))
      let rands := listValues (← namedInts j "randomizers")
      pure (st, match commitFromSecrets g.ops g.order bases rands (← reprOf j) with
        | some c => "ok " ++ hexOfNat c | none => "panic")
  | "repr-proof" => some do
    match buildGroup (← getInt j "gp") with
    | none => pure (st, "nogroup")
    | some g =>
      let bases := mergeBases g.bases (extraBases g (← namedInts j "bases"))
      let res := listValues (← namedInts j "results")
      pure (st, match commitFromProof g.ops g.order bases (← getInt j "challenge") res (← reprOf j) with
        | some c => "ok " ++ hexOfNat c | none => "panic")
  | "repr-complete" => some do
    match buildGroup (← getInt j "gp") with
    | none => pure (st, "nogroup")
    | some g =>
      let bases := mergeBases g.bases (extraBases g (← namedInts j "bases"))
      let secrets ← namedInts j "secrets"
      let rands ← namedInts j "randomizers"
      let c ← getInt j "challenge"
      let s ← reprOf j
      let results := secrets.map fun (name, sv) => (name, (((rands.lookup name).getD 0) - sv * c) % (g.order : Int))
      let sides := reprSides g.ops g.order bases (listValues secrets) s
      let c1 := commitFromSecrets g.ops g.order bases (listValues rands) s
      let c2 := commitFromProof g.ops g.order bases c (listValues results) s
      pure (st, match sides, c1, c2 with
        | some (l, r), some a, some b => s!"{decide (l = r)} {decide (a = b)}"
        | _, _, _ => "panic")
  | "range-verify" => some do
    match buildGroup (← getInt j "gp") with
    | none => pure (st, "nogroup")
    | some g =>
      let s := pedersenRange "x" (← getNat j "l1") (← getNat j "l2")
      let res ← rangeResults (fieldOpt j "results")
      let commit ← getInt j "commit"
      let challenge ← getInt j "challenge"
      if !rangeVerifyStructure s res then pure (st, "reject structure") else
      let bases := mergeBases (singleBase "x" (commit % g.p).toNat) g.bases
      let l := rangeCommitments g.ops g.order bases s challenge (unwrapResults (res.getD []))
      pure (st, verdictOfHash (l.map fun xs => commit :: xs.map Int.ofNat) challenge)
  | "expstep-verify" => some do
    match buildGroup (← getInt j "gp") with
    | none => pure (st, "nogroup")
    | some g =>
      let bitlen ← getNat j "bitlen"
      let commits ← getInts j "commits"
      let challenge ← getInt j "challenge"
      let (mul, okMul) ← pedOf (← field j "b_mul")
      let (modMult, okMod) ← pedOf (← field j "b_modmult")
      let aBit ← getOptInt j "a_bit"; let aEq ← getOptInt j "a_eq"
      let bBit ← getOptInt j "b_bit"; let bHider ← getOptInt j "b_hider"
      let pr : StepProof := {
        achallenge := ← getOptInt j "achallenge", bchallenge := ← getOptInt j "bchallenge",
        a := { bit := aBit.getD 0, equalityHider := aEq.getD 0 },
        b := { mul := mul, bit := bBit.getD 0,
               mult := { modMult := modMult, hider := bHider.getD 0, range := ← rangeResults (fieldOpt j "b_range") } },
        leavesPresent := okMul && okMod && aBit.isSome && aEq.isSome && bBit.isSome && bHider.isSome }
      if !stepVerifyStructure "bit" "pre" "post" "mul" "mod" bitlen challenge pr then pure (st, "reject structure") else
      let names := ["bit", "pre", "post", "mul", "mod"]
      let bases : BaseLookup Nat := fun name =>
        match g.bases name with
        | some b => some b
        | none => match (names.zip commits).lookup name with
          | some c => some ⟨(c % g.p).toNat, false⟩
          | none => none
      let l := stepCommitments g "bit" "pre" "post" "mul" "mod" bitlen bases ((names.zip commits).lookup "mul") pr
      pure (st, verdictOfHash (l.map fun xs => commits ++ xs) challenge)
  | _ => none

end Gabi.Ops.KeyProofOps
