/-
  GabiModel.Ops.Conc — model side of the C20 (and C07 cache) ops:
    race-run      happens-before verdict of the skeletons behind the scenario (sampled schedules
                  of small instances are generated, checked to be executions of the skeleton, and
                  searched for unordered conflicting accesses);
    cprng-reads   the observed trace is replayed through Conc.Cprng;
    cache-script  the controlled schedule is run through Conc.NonrevCache, the invariants are
                  evaluated after every turn.
-/
import GabiModel.Ops.Base
import GabiModel.Conc
namespace Gabi.Ops.Conc
open Lean Gabi Gabi.Wire Gabi.Ops Gabi.Conc

/-- deterministic schedule stream from the op's seed. -/
def lcg (x : Nat) : Nat := (x * 6364136223846793005 + 1442695040888963407) % 2 ^ 64

def mkSched (seed nThreads len : Nat) : List Nat :=
  let rec go (x : Nat) : Nat → List Nat → List Nat
    | 0, acc => acc
    | k + 1, acc => let x' := lcg x; go x' k ((x' / 2 ^ 33) % nThreads :: acc)
  go seed len []

structure Instance where
  name : String
  prog : HB.Prog
  nThreads : Nat

/-- skeleton instances exercised by a scenario with `n` goroutines (bounded to 3 children). -/
def instances (scenario : String) (n : Nat) : List Instance :=
  let k := if n < 3 then n else 3
  let cacheI (nm : String) (v : Nat → Nat) : Instance := ⟨nm, HB.cacheFieldFixed v k, k + 1⟩
  let rnd : Instance := ⟨"Witness.randomizer", HB.randomizerNow k, k + 1⟩
  let sacc : Instance := ⟨"SignedAccumulator.Accumulator", HB.saccInitialised k, k + 1⟩
  let cprng : Instance := ⟨"CPRNG.counter", HB.cprngNow (fun t => 1 + t % 2) k, k + 1⟩
  let handoff : Instance := ⟨"builder", HB.builderHandoff, 3⟩
  let exp : Instance := ⟨"exp.list", HB.expSlots 4 (fun t => if t = 1 then [0, 3] else if t = 2 then [1] else if t = 3 then [2] else []) k, k + 1⟩
  match scenario with
  | "prep-first" => [cacheI "nonrevCache" (fun _ => 2), cacheI "nonrevCache" (fun t => 1 + t % 2), handoff, cprng]
  | "prep-first-prove" => [cacheI "nonrevCache" (fun t => if t % 2 = 1 then 2 else 0), handoff, rnd, sacc, cprng]
  | "prep-repeat-prove" => [cacheI "nonrevCache" (fun t => t % 2), handoff, rnd, sacc, cprng]
  | "prep-refresh-prove" => [cacheI "nonrevCache" (fun t => t % 2), handoff, rnd, sacc, cprng]
  | "consume-burst" => [cacheI "nonrevCache" (fun _ => 0), handoff, cprng]
  | "prove-shared" => [cacheI "nonrevCache" (fun _ => 0), rnd, sacc, cprng]
  | "prove-range" => [cprng]   -- provers sharing a credential read-only; the square splitter keeps no shared state
  | "verify-shared" => [sacc, rnd, cprng]
  | "cprng" => [cprng]
  | "keygen" => [cprng]
  | "keyproof" => [exp, cprng]
  | "keyproof-full" => [exp, cprng]
  | _ => []

def checkInstance (inst : Instance) (seed : Nat) : Option String :=
  let total := (List.range inst.nThreads).foldl (fun acc t => acc + (inst.prog t).length) 0
  let rec go : Nat → Nat → Option String
    | 0, _ => none
    | r + 1, x =>
      let sched := mkSched x inst.nThreads (2 * total)
      let e := HB.runSched inst.prog inst.nThreads sched
      if e.length ≠ total then some s!"model-error {inst.name} incomplete"
      else if !(HB.conformsB inst.prog e && HB.wfB e) then some s!"model-error {inst.name} ill-formed"
      else match HB.findRace e with
        | some (i, j) =>
          let sh := fun (k : Nat) => match e[k]? with
            | some ev => s!"{HB.showAct ev.act}@t{ev.tid}" | none => "?"
          some s!"race model:{inst.name}[{sh i}~{sh j}]"
        | none => go r (lcg x)
  go 6 (seed + 1)

def parseKind (s : String) : R NonrevCache.Kind :=
  match s with
  | "prepare" => pure .prepare
  | "consume" => pure .consume
  | _ => throw s!"bad kind {s}"

def handle : Handler := fun st op j =>
  match op with
  | "race-run" => some do
    let scenario ← getStr j "scenario"
    let n ← getNat j "goroutines"
    let seed ← getNat j "seed"
    let insts := instances scenario n
    if insts.isEmpty then throw s!"unknown scenario {scenario}"
    let res := insts.foldl (fun (acc : Option String) inst => match acc with
      | some r => some r
      | none => checkInstance inst seed) none
    pure (st, res.getD "ok")
  | "cprng-reads" => some do
    let obs ← field j "observed"
    let final ← getNat obs "final"
    let reads ← asArr (← field obs "reads")
    let os ← reads.mapM fun r => do
      let len ← getNat r "len"
      let blocks ← (← asArr (← field r "blocks")).mapM asNat
      pure ({ len := len, blocks := blocks } : Cprng.Obs)
    match Cprng.replay 0 os final with
    | .ok c => pure (st, s!"ok final={c}")
    | .error e => pure (st, s!"not-a-trace {e}")
  | "cache-script" => some do
    let ths ← (← asArr (← field j "threads")).mapM fun t => do
      let ks ← (← asArr t).mapM (fun k => do parseKind (← asStr k))
      pure ({ script := ks, cur := none } : NonrevCache.Thread)
    let sched ← (← asArr (← field j "schedule")).mapM asNat
    let rec go (s : NonrevCache.St) (ths : List NonrevCache.Thread) (acc : List String) (ok : Bool) :
        List Nat → List String × Bool
      | [] => (acc.reverse, ok)
      | t :: rest =>
        let (s', ths', ev) := NonrevCache.turn s ths t
        go s' ths' (ev :: acc) (ok && NonrevCache.invOk s') rest
    let (evs, ok) := go {} ths [] true sched
    if ok then pure (st, " ".intercalate ("ok" :: evs))
    else pure (st, " ".intercalate ("inv-violated" :: evs))
  | _ => none

end Gabi.Ops.Conc
