/-
  GabiModel.Ops.KeyProofTreeOps — structure ops of property C17: the model's description of the
  wiring of the composed key-correctness proof (GabiModel.KeyProofTree), printed in the format of
  the hook keyproof/verif_export_c17b.go.  The ops are `ref` ops: the model is the reference for
  the statement the proof tree is meant to prove; a difference is a failing input.
  Also: `group-exp` (the Exp helpers of the base lookups as pure functions: a model function
  cannot change its arguments, the first word is always `unchanged`) and
  `kp-verify-reused-structure` (answered with the specification: verification is a function of
  structure and proof, a structure is not changed by being used).
-/
import GabiModel.Ops.Base
import GabiModel.KeyProofTree
namespace Gabi.Ops.KeyProofTreeOps
open Lean Gabi Gabi.Wire Gabi.Ops Gabi.KeyProof

def counts (nc nrp : Nat) : String := s!" nc={nc} nrp={nrp}"

def natList (l : List Nat) : String := ",".intercalate (l.map toString)

/-- the outcome of `lookup.Exp(ret, name, exp, mod)`: `none` = the name is not bound,
    `some none` = the Go code panics (scalar out of bounds), `some (some v)` = the value. -/
abbrev ExpOutcome := Option (Option Int)

/-- `zkproof.Group.Exp`. -/
def groupExp (g : Group) (name : String) (e : Int) : ExpOutcome :=
  if name = "g" ∨ name = "h" then
    some (baseExp g.ops g.order g.bases name e |>.map Int.ofNat)
  else none

/-- `pedersenCommit.Exp` (prover's side): `g^(secret·exp mod order) · h^(hider·exp mod order)`. -/
def pedCommitExp (g : Group) (cname : String) (secret hider : Int) (name : String) (e : Int) : ExpOutcome :=
  if name ≠ cname then none else
  match groupExp g "g" ((secret * e) % g.order), groupExp g "h" ((hider * e) % g.order) with
  | some (some a), some (some b) => some (some (a * b % g.p))
  | _, _ => some none

/-- `PedersenProof.Exp` (verifier's side): `Commit^exp mod P` by `big.Int.Exp`. -/
def pedProofExp (g : Group) (cname : String) (commit : Int) (name : String) (e : Int) : ExpOutcome :=
  if name ≠ cname then none else some (some ((goExp commit e g.p).getD 0))

def firstFound (a b : ExpOutcome) : ExpOutcome := match a with
  | some r => some r
  | none => b

def showOutcome : ExpOutcome → String
  | none => "unchanged nobase"
  | some none => "unchanged panic"
  | some (some v) => "unchanged ok " ++ hexOfInt v

def handle : Handler := fun st op j =>
  match op with
  | "kp-verify-reused-structure" => some do pure (st, ← getStr j "spec")
  | "group-exp" => some do
    match buildGroup (← getInt j "gp") with
    | none => pure (st, "unchanged nogroup")
    | some g =>
      let via ← getStr j "via"; let name ← getStr j "name"; let cname ← getStr j "cname"
      let secret ← getInt j "secret"; let hider ← getInt j "hider"; let e ← getInt j "exp"
      let commit : Int := (powMod g.g (secret % g.order).toNat g.p * powMod g.h (hider % g.order).toNat g.p) % g.p
      let r ← match via with
        | "group" => pure (groupExp g name e)
        | "pedcommit" => pure (pedCommitExp g cname secret hider name e)
        | "pedproof" => pure (pedProofExp g cname commit name e)
        | "merge-commit" => pure (firstFound (pedCommitExp g cname secret hider name e) (groupExp g name e))
        | "merge-proof" => pure (firstFound (pedProofExp g cname commit name e) (groupExp g name e))
        | _ => throw s!"unknown lookup {via}"
      pure (st, showOutcome r)
  | "kp-structure" => some do
    let n ← getInt j "n"
    let bases ← getInts j "bases"
    let s := validKeyStructure n bases
    let top := dumpDigest (dValidKeyTop "" s)
    let pp := dumpDigest (dPrime "" s.pprimeIsPrime)
    let qp := dumpDigest (dPrime "" s.qprimeIsPrime)
    let bv := dumpDigest (dIsSquare "" s.basesValid)
    pure (st, s!"ok top=[{top}] pprimeIsPrime=[{pp}] qprimeIsPrime=[{qp}] basesValid=[{bv}] " ++
      s!"nrp={s.numRangeProofs} sub-nrp={natList [s.pprimeIsPrime.numRangeProofs, s.qprimeIsPrime.numRangeProofs, s.basesValid.numRangeProofs]} " ++
      s!"seg={natList s.segmentLengths}")
  | "kp-structure-full" => some do
    let s := validKeyStructure (← getInt j "n") (← getInts j "bases")
    pure (st, "ok " ++ dumpDigest s.dump)
  | "kp-substructure" => some do
    let kind ← getStr j "kind"
    match kind with
    | "prime" =>
      let s := primeStructure (← getStr j "name") (← getNat j "bitlen")
      pure (st, s!"ok all=[{dumpDigest (dPrime "" s)}] aExp=[{dumpDigest (dExp "" s.aExp)}] anegExp=[{dumpDigest (dExp "" s.anegExp)}]" ++
        counts s.numCommitments s.numRangeProofs)
    | "exp" =>
      let s := expStructure (← getStr j "base") (← getStr j "exponent") (← getStr j "mod") (← getStr j "result") (← getNat j "bitlen")
      pure (st, "ok " ++ dumpDigest (dExp "" s) ++ counts s.numCommitments s.numRangeProofs)
    | "issquare" =>
      let s := isSquareStructure (← getInt j "n") (← getInts j "squares")
      pure (st, "ok " ++ dumpDigest (dIsSquare "" s) ++ counts s.numCommitments s.numRangeProofs)
    | "step" =>
      let s := stepStructure (← getStr j "bitname") (← getStr j "prename") (← getStr j "postname") (← getStr j "mulname")
        (← getStr j "modname") (← getNat j "bitlen")
      pure (st, "ok " ++ dumpDigest (dStep "" s) ++ counts s.numCommitments s.numRangeProofs)
    | "mul" =>
      let s := mulStructure (← getStr j "m1") (← getStr j "m2") (← getStr j "mod") (← getStr j "result") (← getNat j "l")
      pure (st, "ok " ++ dumpDigest (dMul "" s) ++ counts s.numCommitments s.numRangeProofs)
    | "add" =>
      let s := addStructure (← getStr j "a1") (← getStr j "a2") (← getStr j "mod") (← getStr j "result") (← getNat j "l")
      pure (st, "ok " ++ dumpDigest (dAdd "" s) ++ counts s.numCommitments 1)
    | "ped" =>
      let s := pedStructure (← getStr j "name")
      pure (st, "ok " ++ dumpDigest (dPed "" s) ++ counts s.numCommitments 0)
    | "range" =>
      let s := pedRangeStructure (← getStr j "name") (← getNat j "l1") (← getNat j "l2")
      pure (st, "ok " ++ dumpDigest (dRange "" s) ++ counts s.numCommitments 1)
    | _ => throw s!"unknown structure kind {kind}"
  | _ => none

end Gabi.Ops.KeyProofTreeOps
