import GabiModel.Conc.Cprng
import GabiModel.Conc.NonrevCache
import GabiModel.Conc.ExpWorkers
import GabiModel.Conc.HB
