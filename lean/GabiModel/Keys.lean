/-
  GabiModel.Keys — issuer keys and system parameters (gabikeys/keys.go, sysparams.go).
-/
import GabiModel.Num
import GabiModel.Generated
namespace Gabi

/-- `gabikeys.SystemParameters` (base + derived). -/
structure SysParams where
  LePrime : Nat
  Lh : Nat
  Lm : Nat
  Ln : Nat
  Lstatzk : Nat
  Le : Nat
  LeCommit : Nat
  LmCommit : Nat
  LRA : Nat
  LsCommit : Nat
  Lv : Nat
  LvCommit : Nat
  LvPrime : Nat
  LvPrimeCommit : Nat
deriving Repr, DecidableEq

/-- parameters as the regenerated source tables define them. -/
def SysParams.ofBase (b : Gen.BaseParams) : SysParams :=
  let d := Gen.makeDerivedParameters b
  { LePrime := b.LePrime, Lh := b.Lh, Lm := b.Lm, Ln := b.Ln, Lstatzk := b.Lstatzk,
    Le := d.Le, LeCommit := d.LeCommit, LmCommit := d.LmCommit, LRA := d.LRA, LsCommit := d.LsCommit,
    Lv := d.Lv, LvCommit := d.LvCommit, LvPrime := d.LvPrime, LvPrimeCommit := d.LvPrimeCommit }

/-- `DefaultSystemParameters[bits]`. -/
def defaultSysParams (bits : Nat) : Option SysParams :=
  (Gen.defaultBaseParameters.lookup bits).map SysParams.ofBase

/-- toy parameters of the test-suite (Ln = 256). -/
def toyBase : Gen.BaseParams := { LePrime := 120, Lh := 256, Lm := 256, Ln := 256, Lstatzk := 80 }

/-- `gabikeys.PublicKey` (the fields verification uses). `g`,`h` are nil for keys without
    revocation support; `ecdsa` is the (opaque) revocation key identity. -/
structure PublicKey where
  n : Int
  z : Int
  s : Int
  g : Option Int
  h : Option Int
  r : List Int
  counter : Nat
  params : SysParams
  hasEcdsa : Bool
  issuer : String
deriving Repr

/-- `gabikeys.PrivateKey`. -/
structure PrivateKey where
  p : Int
  q : Int
  pPrime : Int
  qPrime : Int
  counter : Nat
deriving Repr

def PrivateKey.order (sk : PrivateKey) : Int := sk.pPrime * sk.qPrime
def PrivateKey.n (sk : PrivateKey) : Int := sk.p * sk.q

/-- `PublicKey.RevocationSupported`. -/
def PublicKey.revocationSupported (pk : PublicKey) : Bool := pk.g.isSome && pk.h.isSome && pk.hasEcdsa

/-- decidable well-formedness used as hypothesis of the protocol theorems. -/
def PublicKey.WellFormed (pk : PublicKey) : Prop :=
  1 < pk.n ∧ (0 < pk.z ∧ pk.z < pk.n) ∧ (0 < pk.s ∧ pk.s < pk.n) ∧ ∀ b ∈ pk.r, 0 < b ∧ b < pk.n

end Gabi
