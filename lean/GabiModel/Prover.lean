/-
  GabiModel.Prover — the proving side with explicit randomness: disclosure proof builder
  (credential.go:85-97, 282-392), issuance (builder.go, issuer.go), keyshare (keyshare.go).
  Every random draw of the Go code is an explicit argument.
-/
import GabiModel.Proofs
namespace Gabi

/-- `getUndisclosedAttributes(disclosed, numAttributes)`: complement, ascending. A disclosed
    index outside `[0,n)` makes the Go code panic (index out of range on `check[v]`). -/
def getUndisclosedAttributes (disclosed : List Int) (n : Nat) : GoM (List Int) := do
  for v in disclosed do
    if v < 0 ∨ v ≥ (n : Int) then throw (GoPanic.indexOutOfRange "check[v]")
  pure ((List.range n).filterMap fun (i : Nat) => if disclosed.contains (Int.ofNat i) then none else some (Int.ofNat i))

/-- randomness of one disclosure proof: signature randomiser `r` (LRA bits), `eCommit`, `vCommit`,
    one randomiser per hidden attribute (index 0: the shared secret-key randomiser). -/
structure DisclosureRandomness where
  r : Int
  eCommit : Int
  vCommit : Int
  attr : List (Int × Int)
deriving Repr

def DisclosureRandomness.attrRand (d : DisclosureRandomness) (i : Int) : Int := (d.attr.lookup i).getD 0

/-- documented ranges of the draws (credential.go:139-158, clsignature.go:121-123). -/
def DisclosureRandomness.InRange (p : SysParams) (d : DisclosureRandomness) : Prop :=
  0 ≤ d.r ∧ d.r < 2 ^ p.LRA ∧ 0 ≤ d.eCommit ∧ d.eCommit < 2 ^ p.LeCommit ∧
  0 ≤ d.vCommit ∧ d.vCommit < 2 ^ p.LvCommit ∧ ∀ kv ∈ d.attr, 0 ≤ kv.2 ∧ kv.2 < 2 ^ p.LmCommit

/-- `DisclosureProofBuilder.Commit` (no keyshare, non-revocation or range parts): `[A', Z~]`. -/
def disclosureCommit (pk : PublicKey) (sigR : CLSignature) (rnd : DisclosureRandomness)
    (undisclosed : List Int) (pCommit : Option Int := none) : GoM (List Int) := do
  let ae ← deref "ModPow" (modPow sigR.a rnd.eCommit pk.n)
  let sv ← deref "ModPow" (modPow pk.s rnd.vCommit pk.n)
  let z0 := (pCommit.getD 1) * ae * sv % pk.n
  let z ← undisclosed.foldlM (fun (z : Int) v => do
      let b ← idx "R[v]" pk.r v
      let t ← deref "ModPow" (modPow b (rnd.attrRand v) pk.n)
      pure (z * t % pk.n)) z0
  pure [sigR.a, z]

/-- `DisclosureProofBuilder.CreateProof(challenge)` (without non-revocation / range parts). -/
def disclosureCreateProof (pk : PublicKey) (attrs : List Int) (disclosed undisclosed : List Int)
    (sigR : CLSignature) (rnd : DisclosureRandomness) (c : Int) : GoM ProofD := do
  let ePrime := sigR.e - 2 ^ (pk.params.Le - 1)
  let aResponses ← undisclosed.mapM fun v => do
    let m ← idx "attributes[v]" attrs v
    pure (v, some (rnd.attrRand v + c * attrExp pk.params.Lm m))
  let aDisclosed ← disclosed.mapM fun v => do
    let m ← idx "attributes[v]" attrs v
    pure (v, some m)
  pure { c := some c, a := some sigR.a, eResponse := some (rnd.eCommit + c * ePrime),
         vResponse := some (rnd.vCommit + c * sigR.v), aResponses := aResponses, aDisclosed := aDisclosed,
         nonrev := none, rangeProofs := none }

/-- `Credential.CreateDisclosureProof(disclosed, nil, false, context, nonce)` with explicit
    randomness (single builder; the secret-key randomiser is `rnd.attr[0]`). -/
def createDisclosureProof (pk : PublicKey) (sig : CLSignature) (attrs : List Int) (disclosed : List Int)
    (rnd : DisclosureRandomness) (context nonce : Int) (issig : Bool) : GoM ProofD := do
  let sigR := clRandomize pk sig rnd.r
  let undisclosed ← getUndisclosedAttributes disclosed attrs.length
  let commit ← disclosureCommit pk sigR rnd undisclosed
  let c := createChallenge context nonce commit issig
  disclosureCreateProof pk attrs disclosed undisclosed sigR rnd c

/-- `TimestampRequestContributions`: `A'` and the disclosed values with zeros elsewhere. -/
def timestampContributions (attrs : List Int) (disclosed : List Int) : List Int :=
  (List.range attrs.length).map fun (i : Nat) => if disclosed.contains (Int.ofNat i) then attrs.getD i 0 else 0

/-! ### range proofs: when can the honest prover commit (rangeproof/proof.go:194-211, 283-312) -/

/-- `SquaresTable.Ld()` for a table with `len` entries. -/
def tableLd (len : Nat) : Nat :=
  let rec go (fuel l ld : Nat) : Nat :=
    match fuel with
    | 0 => ld
    | fuel + 1 => if l > 0 then go fuel (l / 4) (ld + 1) else ld
  go (len + 1) len 0 + 1

/-- `NewProofStructure` + `CommitmentsFromSecrets` succeed for attribute value `m`:
    the (rescaled) difference is non-negative, the splitter accepts it and the squares fit in
    `l_d` bits. `table = 0`: four squares (every non-negative difference below `2^(2·128)` splits);
    otherwise the three-square table with `table` entries (factor must be 1). -/
def rangeProvable (sign : Int) (factor : Nat) (bound m : Int) (table : Nat) : Bool :=
  if sign ≠ 1 ∧ sign ≠ -1 then false else
  if table = 0 then
    if factor > 2 ^ 63 - 1 then false else
    let d := sign * ((factor : Int) * m - bound)
    decide (0 ≤ d) && decide (d < 2 ^ 256)
  else
    if factor ≠ 1 then false else
    let d := sign * (4 * m - (4 * bound - 2))
    decide (0 ≤ d) && decide (d < (table : Int)) && decide (d % 4 = 2)

/-! ### issuance -/

/-- `userCommitment(pk, secret, vPrime, msg)` times the keyshare contribution. -/
def userCommitment (pk : PublicKey) (secret vPrime : Int) (mUser : List (Int × Int)) (keyshareP : Option Int) : GoM Int := do
  let r0 ← idx "R[0]" pk.r 0
  let sv ← deref "Exp" (goExp pk.s vPrime pk.n)
  let r0s ← deref "Exp" (goExp r0 secret pk.n)
  let u ← mUser.foldlM (fun (u : Int) kv => do
      let b ← idx "R[i]" pk.r kv.1
      let t ← deref "Exp" (goExp b kv.2 pk.n)
      pure (u * t)) (sv * r0s)
  let u := u % pk.n
  pure (match keyshareP with | some p => u * p % pk.n | none => u)

/-- randomness and state of a `CredentialBuilder`. -/
structure CredBuilder where
  secret : Int
  vPrime : Int
  vPrimeCommit : Int
  mUser : List (Int × Int)
  mUserCommit : List (Int × Int)
  u : Int
  keyshareP : Option Int
  context : Int
  nonce2 : Int
deriving Repr

/-- `CredentialBuilder.Commit`: `[U, U~]`. -/
def CredBuilder.commit (pk : PublicKey) (b : CredBuilder) (skRandomizer : Int) (pCommit : Option Int := none) : GoM (List Int) := do
  let r0 ← idx "R[0]" pk.r 0
  let sv ← deref "Exp" (goExp pk.s b.vPrimeCommit pk.n)
  let r0s ← deref "Exp" (goExp r0 skRandomizer pk.n)
  let uc0 := (pCommit.getD 1) * sv * r0s % pk.n
  let uc ← b.mUser.foldlM (fun (uc : Int) kv => do
      let base ← idx "R[i]" pk.r kv.1
      let t ← deref "Exp" (goExp base ((b.mUserCommit.lookup kv.1).getD 0) pk.n)
      pure (uc * t % pk.n)) uc0
  pure [b.u, uc]

/-- `CredentialBuilder.CreateProof(challenge)`. -/
def CredBuilder.createProof (b : CredBuilder) (skRandomizer c : Int) : ProofU :=
  { u := some b.u, c := some c, vPrimeResponse := some (b.vPrimeCommit + c * b.vPrime),
    sResponse := some (skRandomizer + c * b.secret),
    mUserResponses := b.mUser.map fun kv => (kv.1, some ((b.mUserCommit.lookup kv.1).getD 0 + c * kv.2)) }

/-- `Issuer.proveSignature` with explicit `eCommit`. -/
def proveSignature (pk : PublicKey) (order : Int) (sig : CLSignature) (context nonce2 eCommit : Int) : Option ProofS := do
  let q ← goExp sig.a sig.e pk.n
  let d ← goModInverse sig.e order
  let aCommit ← goExp q eCommit pk.n
  let c := hashCommit [context, q, sig.a, nonce2, aCommit] false
  pure { c := c, eResponse := (eCommit - c * d) % order }

/-- result of `ConstructCredential`. -/
inductive ConstructResult where
  | credential (sig : CLSignature) (attrs : List Int)
  | rejected (why : String)
deriving Repr

/-- the non-revocation witness of an `IssueSignatureMessage`: `(u, e, signed accumulator)`;
    `witnessOk` is the outcome of `Witness.Verify(pk)` (signature oracle + `u^e = ν`). -/
structure MsgWitness where
  u : Option Int
  e : Option Int
  /-- result of `SignedAccumulator.UnmarshalVerify`: the accumulator value ν if the signature verifies -/
  nu : Option Int
  hasSacc : Bool
deriving Repr

/-- `Witness.Verify(pk)` (after the repair: incomplete witnesses are an error). -/
def MsgWitness.verify (pk : PublicKey) (w : MsgWitness) : Bool :=
  match w.u, w.e, w.hasSacc, w.nu with
  | some u, some e, true, some nu => goExp u e pk.n == some nu
  | _, _, _, _ => false

/-- `CredentialBuilder.ConstructCredential(msg, attributes)`: `attributes` has `none` at
    random-blind positions. -/
def CredBuilder.construct (pk : PublicKey) (b : CredBuilder) (proofS : Option ProofS) (sig : Option CLSignature)
    (mIssuer : List (Int × Option Int)) (attributes : List (Option Int))
    (witness : Option MsgWitness := none) : GoM ConstructResult := do
  let some ps := proofS | return .rejected "incomplete"
  let some sg := sig | return .rejected "incomplete"
  if !(← ps.verify pk sg b.context b.nonce2) then return .rejected "proofS"
  let signature : CLSignature := { a := sg.a, e := sg.e, v := sg.v + b.vPrime, keyshareP := b.keyshareP }
  let mut ms : List (Option Int) := some b.secret :: attributes
  for (i, miUser) in b.mUser do
    if i ≥ ms.length then return .rejected "too few attributes"
    if (ms[i.toNat]?).join.isSome then return .rejected "blind attribute not nil"
    match (mIssuer.lookup i).join with
    | none => return .rejected "issuer share missing"
    | some mi => ms := ms.set i.toNat (some (mi + miUser))
  match witness with
  | some w => if !w.verify pk then return .rejected "witness"
  | none => pure ()
  let vals ← ms.mapM (deref "attribute")
  if !(← clVerify pk signature vals) then return .rejected "signature"
  -- `NonrevIndex`: the witness value must be one of the attributes
  match witness with
  | some w => if !(vals.contains (w.e.getD 0)) then return .rejected "revocation attribute"
  | none => pure ()
  return .credential signature vals

end Gabi
