/-
  GabiModel.Generated — REGENERATED on every check from /repo by /verif/go/extract.
  Do not edit. Constants and tables as the Go source states them now.
-/
namespace Gabi.Gen

structure BaseParams where
  LePrime : Nat
  Lh : Nat
  Lm : Nat
  Ln : Nat
  Lstatzk : Nat
deriving Repr, DecidableEq

structure DerivedParams where
  Le : Nat
  LeCommit : Nat
  LmCommit : Nat
  LRA : Nat
  LsCommit : Nat
  Lv : Nat
  LvCommit : Nat
  LvPrime : Nat
  LvPrimeCommit : Nat
deriving Repr, DecidableEq

/-- `defaultBaseParameters` (gabikeys/sysparams.go). -/
def defaultBaseParameters : List (Nat × BaseParams) := [
  (1024, { LePrime := 120, Lh := 256, Lm := 256, Ln := 1024, Lstatzk := 80 }),
  (2048, { LePrime := 120, Lh := 256, Lm := 256, Ln := 2048, Lstatzk := 128 }),
  (4096, { LePrime := 120, Lh := 256, Lm := 512, Ln := 4096, Lstatzk := 128 })
]

/-- `MakeDerivedParameters`, translated statement by statement. -/
def makeDerivedParameters (b : BaseParams) : DerivedParams :=
  let Lv : Nat := ((((b.Ln + (2 * b.Lstatzk)) + b.Lh) + b.Lm) + 4)
  { Le := (((b.Lstatzk + b.Lh) + b.Lm) + 5),
    LeCommit := ((b.LePrime + b.Lstatzk) + b.Lh),
    LmCommit := ((b.Lm + b.Lstatzk) + b.Lh),
    LRA := (b.Ln + b.Lstatzk),
    LsCommit := (((b.Lm + b.Lstatzk) + b.Lh) + 1),
    Lv := Lv,
    LvCommit := ((Lv + b.Lstatzk) + b.Lh),
    LvPrime := (b.Ln + b.Lstatzk),
    LvPrimeCommit := ((b.Ln + (2 * b.Lstatzk)) + b.Lh) }

def revAttributeSize : Nat := 195
def revChallengeLength : Nat := 256
def revZkStat : Nat := 128

/-- revocation `proofstructure`: per relation (name, lhs [(base, power)], rhs [(base, secret, power)]). -/
def revProofStructure : List (String × List (String × Int) × List (String × String × Int)) := [
  ("cr", [("cr", 1)], [("G", "epsilon", 1), ("H", "zeta", 1)]),
  ("nu", [("nu", 1)], [("cu", "alpha", 1), ("H", "beta", -1)]),
  ("one", [("one", 1)], [("cr", "alpha", 1), ("G", "beta", -1), ("H", "delta", -1)])
]

def revSecretNames : List String := ["alpha", "beta", "delta", "epsilon", "zeta"]

def smallPrimes : List Nat := [3, 5, 7, 11, 13, 17, 19, 23, 29, 31, 37, 41, 43, 47, 53]
def smallPrimesProduct : Nat := 16294579238595022365

def fourSquaresLd : Nat := 128

def kp_almostSafePrimeProductNonceSize : Nat := 256
def kp_almostSafePrimeProductIters : Nat := 250
def kp_disjointPrimeProductIters : Nat := 8
def kp_primePowerProductIters : Nat := 80
def kp_squareFreeIters : Nat := 8
def kp_minimumFactor : Nat := 1024
def kp_rangeProofIters : Nat := 80
def kp_rangeProofEpsilon : Nat := 256

end Gabi.Gen
