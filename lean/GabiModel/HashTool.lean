/-
  GabiModel.HashTool — internal/common/hashtool.go and proofs.go:createChallenge.
-/
import GabiModel.Num
import GabiModel.Sha256
import GabiModel.Der
namespace Gabi
open Gabi.Der

/-- the DER items of `HashCommit`'s input: optional marker, count, values. -/
def hashCommitItems (vals : List Int) (issig : Bool) : List (List UInt8) :=
  (if issig then [derBool true] else []) ++ [derInt vals.length] ++ vals.map derInt

def hashCommitInput (vals : List Int) (issig : Bool) : List UInt8 :=
  derSeq (hashCommitItems vals issig)

/-- `common.HashCommit`. -/
def hashCommit (vals : List Int) (issig : Bool) : Nat :=
  ofBytesBE (Sha256.hash (hashCommitInput vals issig))

/-- `common.IntHashSha256`. -/
def intHashSha256 (bs : List UInt8) : Nat := ofBytesBE (Sha256.hash bs)

/-- `common.GetHashNumber(a, b, index, bitlen)`; `a`,`b` may be nil. -/
def getHashNumber (a b : Option Int) (index : Int) (bitlen : Nat) : Nat :=
  let pre : List Int := a.toList ++ b.toList ++ [index]
  let limbs := (bitlen + 255) / 256
  (List.range limbs).foldl
    (fun (res : Nat) (j : Nat) => res + hashCommit (pre ++ [Int.ofNat j]) false * 2 ^ (256 * j)) 0

/-- `createChallenge(context, nonce, contributions, issig)`. -/
def createChallenge (context nonce : Int) (contribs : List Int) (issig : Bool) : Nat :=
  hashCommit (context :: contribs ++ [nonce]) issig

/-- the exponent actually used for an attribute (`RepresentToBases`, `reconstructZ`, `CreateProof`):
    values longer than `lm` bits are replaced by the SHA-256 of their bytes. -/
def attrExp (lm : Nat) (a : Int) : Int :=
  if bitLen a > lm then (intHashSha256 (intBytes a) : Int) else a

end Gabi
