/-
  GabiModel.SafePrimeWorkers — labelled transition system of safeprime.GenerateConcurrent
  (safeprime/safeprime.go:19-62) together with its consumer gabikeys.generateSafePrimePair
  (gabikeys/keys.go:398-434).

  Processes
    * `n` identical workers (`count = GOMAXPROCS`), each looping
          gen:      x, err := Generate(bitsize, stopped)        -- always returns (found a prime,
                                                                   or saw `stopped` and returns nil)
          check:    select { case <-stopped: return; default: … }
          sending:  old code   `ints <- x`                       -- blocks while the buffer is full
                    repaired   `select { case <-stopped: return; case ints <- x: }`
    * the stopper goroutine: `select { case <-stop: close(stopped) … }`
    * the consumer: receives from `ints` until it has a matching pair, then `close(stop)` and
      never receives again.
  Channel `ints` is buffered with capacity `n`.  The workers are symmetric, so the state counts how
  many workers are at each program point (counter abstraction, exact for identical processes).
  The error path (`errs`) needs a failing `crypto/rand` and is not modelled.
-/
namespace Gabi.Conc.SafePrimeWorkers

/-- which send statement the worker uses. -/
inductive Proto where
  | blockingSend   -- `default: ints <- x` (code before the repair)
  | selectSend     -- `select { case <-stopped: return; case ints <- x: }`
deriving DecidableEq, Repr

/-- consumer program points. -/
inductive Cons where
  | recv       -- in the receive loop
  | closing    -- has its pair, about to `close(stop)`
  | finished   -- closed `stop`, returned
deriving DecidableEq, Repr

structure St where
  gen : Nat        -- workers inside Generate
  check : Nat      -- workers at the `select { case <-stopped … default }`
  sending : Nat    -- workers at the send statement
  done : Nat       -- workers that returned
  buf : Nat        -- elements in `ints`
  cap : Nat        -- capacity of `ints`
  stop : Bool      -- `stop` closed by the consumer
  stopped : Bool   -- `stopped` closed by the stopper goroutine
  cons : Cons
deriving DecidableEq, Repr

def init (n : Nat) : St :=
  { gen := n, check := 0, sending := 0, done := 0, buf := 0, cap := n, stop := false, stopped := false,
    cons := .recv }

inductive Act where
  | genDone              -- Generate returns in some worker
  | checkSend            -- select: `stopped` not closed, take the default branch
  | checkQuit            -- select: `stopped` closed, return
  | send                 -- the send on `ints` succeeds (buffer not full)
  | quit                 -- repaired send statement: `stopped` closed, return
  | recv (last : Bool)   -- consumer receives; `last` = it now has a matching pair
  | close                -- consumer: close(stop)
  | stopper              -- stopper goroutine: close(stopped)
deriving DecidableEq, Repr

def allActs : List Act :=
  [.genDone, .checkSend, .checkQuit, .send, .quit, .recv false, .recv true, .close, .stopper]

/-- the transition function; `none` = the action is not enabled in this state. -/
def step (pr : Proto) (s : St) : Act → Option St
  | .genDone => if 0 < s.gen then some { s with gen := s.gen - 1, check := s.check + 1 } else none
  | .checkSend =>
    if 0 < s.check ∧ s.stopped = false then some { s with check := s.check - 1, sending := s.sending + 1 }
    else none
  | .checkQuit =>
    if 0 < s.check ∧ s.stopped = true then some { s with check := s.check - 1, done := s.done + 1 }
    else none
  | .send =>
    if 0 < s.sending ∧ s.buf < s.cap then
      some { s with sending := s.sending - 1, gen := s.gen + 1, buf := s.buf + 1 }
    else none
  | .quit =>
    if pr = .selectSend ∧ 0 < s.sending ∧ s.stopped = true then
      some { s with sending := s.sending - 1, done := s.done + 1 }
    else none
  | .recv last =>
    if s.cons = .recv ∧ 0 < s.buf then
      some { s with buf := s.buf - 1, cons := if last then .closing else .recv }
    else none
  | .close => if s.cons = .closing then some { s with stop := true, cons := .finished } else none
  | .stopper => if s.stop = true ∧ s.stopped = false then some { s with stopped := true } else none

/-- no action is enabled. -/
def terminal (pr : Proto) (s : St) : Bool := allActs.all (fun a => (step pr s a).isNone)

/-- run a list of actions; `none` when one of them is not enabled. -/
def runActs (pr : Proto) : St → List Act → Option St
  | s, [] => some s
  | s, a :: as => match step pr s a with
    | some s' => runActs pr s' as
    | none => none

/-- bound on the number of steps still possible once the consumer has finished. -/
def measure (s : St) : Nat :=
  3 * (s.cap - s.buf) + 3 * s.gen + 2 * s.check + s.sending + (if s.stopped then 0 else 1)

/-- the protocol of the current source tree (after the repair of the send statement). -/
def current : Proto := .selectSend

/-! ### deterministic schedules used by the correspondence op `safeprime-stop` -/

/-- take the first enabled action among `acts` repeatedly until none of them is enabled. -/
def saturate (pr : Proto) (acts : List Act) : Nat → St → St
  | 0, s => s
  | fuel + 1, s =>
    match acts.findSome? (fun a => step pr s a) with
    | some s' => saturate pr acts fuel s'
    | none => s

def workerActs : List Act := [.send, .checkSend, .checkQuit, .quit, .genDone]

/-- consumer receives `k` values (the last one completes its pair); before each receive the
    workers run until they are all blocked or the buffer is full. Returns `none` if the consumer
    could not receive (cannot happen for `n ≥ 1`). -/
def consume (pr : Proto) (fuel : Nat) (fill : Bool) : Nat → St → Option St
  | 0, s => some s
  | k + 1, s =>
    -- at least one value must be in the buffer
    let s1 := if fill then saturate pr workerActs fuel s
              else saturate pr [.send, .checkSend, .genDone] 3 s
    match step pr s1 (.recv (k == 0)) with
    | some s2 => consume pr fuel fill k s2
    | none => none

/-- schedule classes:
    * `fill`      – after its last receive the consumer is descheduled until the buffer is full and
                    every worker waits at its send statement; then `close(stop)`;
    * `immediate` – the consumer closes `stop` right after its last receive;
    in both cases everything then runs until no action is enabled. Result: workers not returned. -/
def leftAfter (pr : Proto) (n recvs : Nat) (fill : Bool) : Option Nat :=
  let fuel := 8 * (n + 1) * (recvs + 2)
  match consume pr fuel fill recvs (init n) with
  | none => none
  | some s =>
    let s := if fill then saturate pr workerActs fuel s else s
    match step pr s .close with
    | none => none
    | some s =>
      let s := saturate pr (.stopper :: workerActs) (fuel + measure s + 1) s
      if terminal pr s then some (n - s.done) else none

end Gabi.Conc.SafePrimeWorkers
