/-
  GabiModel.Proofs — ProofU, ProofS, ProofD, ProofList verification (proofs.go, prooflist.go),
  the non-revocation proof verifier (revocation/proof.go:204-236, 437-457) and the range-proof
  verifier (rangeproof/proof.go). Verification paths are in `GoM`.

  Maps `map[int]*big.Int` are association lists without duplicate keys; a nil value is `none`.
-/
import GabiModel.Keys
import GabiModel.HashTool
import GabiModel.GoM
import GabiModel.CL
import GabiModel.ReprProof
namespace Gabi

abbrev IntMap := List (Int × Option Int)

def IntMap.get (m : IntMap) (k : Int) : Option Int :=
  match m.lookup k with
  | some v => v
  | none => none

def IntMap.has (m : IntMap) (k : Int) : Bool := (m.lookup k).isSome

/-! ### signed accumulators (ECDSA + CBOR are external: `SigView` is their assumed outcome) -/

structure Accumulator where
  nu : Option Int
  index : Nat
  time : Int
  eventHash : List UInt8
deriving Repr, DecidableEq

structure SignedAccumulator where
  data : Option (List UInt8)
  pkCounter : Nat
deriving Repr, DecidableEq

/-- outcome of `signed.UnmarshalVerify(pk.ECDSA, data, &acc)` for a given byte string and key:
    `none` = error (bad signature / undecodable). Parameter of the model. -/
abbrev SigOracle := (keyId : String) → (data : List UInt8) → Option Accumulator

/-- `SignedAccumulator.UnmarshalVerify(pk)` on a freshly decoded object. -/
def SignedAccumulator.unmarshalVerify (o : SigOracle) (keyId : String) (pk : PublicKey)
    (s : SignedAccumulator) : Option Accumulator :=
  if pk.counter ≠ s.pkCounter then none
  else o keyId (s.data.getD [])

/-! ### non-revocation proof -/

structure NonRevProof where
  cr : Option Int
  cu : Option Int
  nu : Option Int := none            -- json:"-", set by SetExpected
  challenge : Option Int := none     -- json:"-", set by SetExpected
  responses : List (String × Option Int)
  sacc : Option SignedAccumulator
deriving Repr, DecidableEq

def NonRevProof.response (p : NonRevProof) (name : String) : Option Int :=
  match p.responses.lookup name with
  | some v => v
  | none => none

def qrOfGen (e : String × List (String × Int) × List (String × String × Int)) : QrStructure :=
  { lhs := e.2.1.map (fun l => ⟨l.1, l.2⟩), rhs := e.2.2.map (fun r => ⟨r.1, r.2.1, r.2.2⟩) }

/-- the three relations of the non-revocation proof, from the regenerated source table. -/
def revStructures : List QrStructure := Gen.revProofStructure.map qrOfGen

/-- `Parameters.bTwoZk = 2^AttributeSize · 2^(ChallengeLength+ZkStat) · 2`. -/
def revBTwoZk : Int := 2 ^ Gen.revAttributeSize * (2 ^ (Gen.revChallengeLength + Gen.revZkStat) * 2)

/-- `0 < c` and `gcd(c, n) = 1` (no upper bound: a refreshed prepared commitment may carry an
    unreduced `C_u`). -/
def unitModN (c n : Int) : Bool := decide (0 < c) && decide (Int.gcd c n = 1)

/-- `proofStructure.verifyProofStructure`. -/
def NonRevProof.structureOk (p : NonRevProof) : Bool :=
  Gen.revSecretNames.all (fun n => (p.response n).isSome) &&
    p.cr.isSome && p.cu.isSome && p.nu.isSome && p.challenge.isSome

/-- `Proof.basesAreUnits(pk)`: the prover-chosen bases `C_r`, `C_u` are units modulo `n` and no
    response is negative. -/
def NonRevProof.basesAreUnits (pk : PublicKey) (p : NonRevProof) : Bool :=
  (match p.cr, p.cu with
   | some cr, some cu => unitModN cr pk.n && unitModN cu pk.n
   | _, _ => false) &&
  p.responses.all (fun kv => match kv.2 with | some r => decide (0 ≤ r) | none => false)

/-- `Proof.SetExpected(pk, challenge, response)` (error = `none`). -/
def NonRevProof.setExpected (o : SigOracle) (keyId : String) (pk : PublicKey) (p : NonRevProof)
    (challenge response : Int) : Option NonRevProof := do
  if p.cr.isNone || p.cu.isNone then none
  let sacc ← p.sacc
  if pk.g.isNone || pk.h.isNone || !pk.hasEcdsa then none
  let acc ← sacc.unmarshalVerify o keyId pk
  let nu ← acc.nu
  let p' := { p with nu := some nu, challenge := some challenge,
                     responses := ("alpha", some response) :: p.responses.filter (·.1 ≠ "alpha") }
  if !p'.structureOk || !p'.basesAreUnits pk then none
  pure p'

/-- base lookup of `BaseMerge(pk, proofCommit{cr,cu,nu})`. -/
def revBases (pk : PublicKey) (p : NonRevProof) (name : String) : Option Int :=
  match name with
  | "Z" => some pk.z
  | "S" => some pk.s
  | "G" => pk.g
  | "H" => pk.h
  | "cu" => p.cu
  | "cr" => p.cr
  | "nu" => p.nu
  | "one" => some 1
  | _ => none

/-- `Proof.ChallengeContributions(pk)`: `[Cr, Cu, Nu]` and the three reconstructed commitments. -/
def NonRevProof.challengeContributions (pk : PublicKey) (p : NonRevProof) : GoM (List Int) := do
  let cr ← deref "Cr" p.cr
  let cu ← deref "Cu" p.cu
  let nu ← deref "Nu" p.nu
  let c ← deref "Challenge" p.challenge
  let cs ← revStructures.mapM (fun s => s.commitmentFromProof pk.n c (revBases pk p) p.response)
  pure ([cr, cu, nu] ++ cs)

/-- `Proof.VerifyWithChallenge(pk, reconstructedChallenge)`; also returns the accumulator the
    verifier reads from an accepted proof. -/
def NonRevProof.verifyWithChallenge (o : SigOracle) (keyId : String) (pk : PublicKey) (p : NonRevProof)
    (c' : Int) : Bool × Option Accumulator :=
  match p.sacc with
  | none => (false, none)
  | some sacc =>
    if !p.structureOk || !p.basesAreUnits pk then (false, none) else
    if (p.response "alpha").getD 0 > revBTwoZk then (false, none) else
    match sacc.unmarshalVerify o keyId pk with
    | none => (false, none)
    | some acc =>
      match acc.nu, p.nu, p.challenge with
      | some anu, some pnu, some ch =>
        if pnu ≠ anu then (false, none) else (decide (ch = c'), some acc)
      | _, _, _ => (false, none)

/-! ### range proofs (rangeproof/proof.go) -/

structure RangeProof where
  cs : List (Option Int)
  ds : List (Option Int)
  vs : List (Option Int)
  v5 : Option Int
  mResponse : Option Int := none   -- json:"-", set by ProofD.ChallengeContribution
  ld : Nat
  sign : Int
  a : Nat
  k : Option Int
deriving Repr, DecidableEq

structure RangeStructure where
  cRep : List QrStructure
  mCorrect : QrStructure
  index : Int
  sign : Int
  a : Nat
  k : Int
  ld : Nat
deriving Repr, DecidableEq

/-- `newWithParams(index, sign, a, k, _, nSplit, ld)`; `none` = error. The exponent of the
    attribute base is the `int64` value `-int64(a)*int64(sign)`; factors above `MaxInt64` are
    refused. -/
def rangeNewWithParams (index : Int) (sign : Int) (a : Nat) (k : Int) (nSplit : Nat) (ld : Nat) :
    Option RangeStructure :=
  if nSplit > 4 then none
  else if sign ≠ 1 ∧ sign ≠ -1 then none
  else if a > 2 ^ 63 - 1 then none
  else
    let rname := "R" ++ toString index
    let exp := if sign = 1 then -k else k
    let power := wrap64 (-(wrap64 (a : Int)) * wrap64 sign)
    let cs := List.range nSplit
    some {
      mCorrect := {
        lhs := [⟨rname, exp⟩],
        rhs := [⟨"S", "v5", -1⟩, ⟨rname, "m", power⟩] ++
                 cs.map (fun i => ⟨"C" ++ toString i, "d" ++ toString i, 1⟩) },
      cRep := cs.map (fun i =>
        { lhs := [⟨"C" ++ toString i, 1⟩],
          rhs := [⟨rname, "d" ++ toString i, 1⟩, ⟨"S", "v" ++ toString i, 1⟩] }),
      index := index, sign := sign, a := a, k := k, ld := ld }

/-- `Proof.ExtractStructure(index, pk)`. -/
def RangeProof.extractStructure (p : RangeProof) (index : Int) (pk : PublicKey) : Option RangeStructure := do
  let k ← p.k
  if p.ld > pk.params.Lm || p.cs.length < 3 || p.cs.length > 4 ||
      bitLen k > pk.params.Lm + 64 || (p.cs.length = 3 && p.a ≠ 4) then none
  rangeNewWithParams index p.sign p.a k p.cs.length p.ld

/-- `0 < c < n` and `gcd(c, n) = 1`. -/
def unitMod (c n : Int) : Bool := decide (0 < c) && decide (c < n) && decide (Int.gcd c n = 1)

/-- `ProofStructure.VerifyProofStructure(pk, p)`. -/
def RangeStructure.verifyProofStructure (s : RangeStructure) (pk : PublicKey) (p : RangeProof) : Bool :=
  let pr := pk.params
  if s.cRep.length ≠ p.cs.length || s.cRep.length ≠ p.ds.length || s.cRep.length ≠ p.vs.length then false else
  match p.v5, p.mResponse with
  | some v5, some m =>
    if decide (v5 < 0) || decide (m < 0) then false else
    if bitLen v5 > pr.Lm + s.ld + 2 + pr.Lh + pr.Lstatzk + 1 || bitLen m > pr.Lm + pr.Lh + pr.Lstatzk + 1 then false
    else
      (List.range s.cRep.length).all fun i =>
        match p.cs[i]?, p.ds[i]?, p.vs[i]? with
        | some (some c), some (some d), some (some v) =>
          !(decide (d < 0) || decide (v < 0)) &&
          -- the prover-chosen bases must be units modulo n
          unitMod c pk.n &&
          !(bitLen c > bitLen pk.n || bitLen d > s.ld + pr.Lh + pr.Lstatzk + 1 ||
            bitLen v > pr.Lm + pr.Lh + pr.Lstatzk + 1)
        | _, _, _ => false
  | _, _ => false

def parseIdx (pfx : Char) (name : String) : Option Nat :=
  match name.toList with
  | c :: rest => if c = pfx then (String.ofList rest).toNat? else none
  | [] => none

/-- `PublicKey.Base(name)`. -/
def PublicKey.base (pk : PublicKey) (name : String) : Option Int :=
  match name with
  | "Z" => some pk.z
  | "S" => some pk.s
  | "G" => pk.g
  | "H" => pk.h
  | _ => match parseIdx 'R' name with
    | some i => pk.r[i]?
    | none => none

def rangeBases (pk : PublicKey) (p : RangeProof) (name : String) : Option Int :=
  match pk.base name with
  | some b => some b
  | none => match parseIdx 'C' name with
    | some i => (p.cs[i]?).join
    | none => none

def rangeResults (p : RangeProof) (name : String) : Option Int :=
  if name = "m" then p.mResponse
  else if name = "v5" then p.v5
  else match parseIdx 'v' name with
    | some i => (p.vs[i]?).join
    | none => match parseIdx 'd' name with
      | some i => (p.ds[i]?).join
      | none => none

/-- `ProofStructure.CommitmentsFromProof(pk, p, challenge)`. The list starts with the statement
    (`ProofStructure.statement(p.Cs)`: the commitments `C_i`, then `k`, `a`, `sign`, `l_d` of the
    structure), followed by the commitment of `mCorrect` and one per `cRep[i]`. Go appends the
    pointers `p.Cs` as they are; a nil `C_i` (refused by `verifyProofStructure` before this is
    called) would be dereferenced only when the list is hashed, hence after the reconstruction:
    the model dereferences them last. -/
def RangeStructure.commitmentsFromProof (s : RangeStructure) (pk : PublicKey) (p : RangeProof)
    (challenge : Int) : GoM (List Int) := do
  let m ← s.mCorrect.commitmentFromProof pk.n challenge (rangeBases pk p) (rangeResults p)
  let cs ← s.cRep.mapM (fun c => c.commitmentFromProof pk.n challenge (rangeBases pk p) (rangeResults p))
  let stmt ← p.cs.mapM (deref "Cs[i]")
  pure (stmt ++ [s.k, (s.a : Int), s.sign, (s.ld : Int)] ++ m :: cs)

/-- `Proof.ProvesStatement(sign, factor, bound)` (factor is a Go `uint`: 64 bits). -/
def RangeProof.provesStatement (p : RangeProof) (sign : Int) (factor : Nat) (bound : Int) : Bool :=
  if sign ≠ 1 ∧ sign ≠ -1 then false else
  match p.k with
  | none => false
  | some k =>
    if p.cs.length = 3 then
      if factor > (2 ^ 64 - 1) / 4 then false else
      let factor := factor * 4
      let bound := bound * 4 - 2
      p.sign = sign && p.a = factor && (k = bound || (if sign = 1 then k > bound else k < bound))
    else
      p.sign = sign && p.a = factor && (k = bound || (if sign = 1 then k > bound else k < bound))

/-- `Proof.ProvenStatement()`: (is-≥, factor, bound). -/
def RangeProof.provenStatement (p : RangeProof) : Option (Int × Nat × Int) :=
  p.k.map fun k =>
    let (factor, bound) := if p.cs.length = 3 then (p.a / 4, (k + 2) / 4) else (p.a, k)
    (p.sign, factor, bound)

/-! ### ProofU -/

structure ProofU where
  u : Option Int
  c : Option Int
  vPrimeResponse : Option Int
  sResponse : Option Int
  mUserResponses : IntMap
deriving Repr, DecidableEq

def ProofU.wellFormed (pk : PublicKey) (p : ProofU) : Bool :=
  !pk.r.isEmpty && p.u.isSome && p.c.isSome && p.vPrimeResponse.isSome && p.sResponse.isSome &&
    p.mUserResponses.all (fun kv => kv.2.isSome && decide (1 ≤ kv.1) && decide (kv.1 < pk.r.length))

/-- `ProofU.reconstructUcommit` (`none` = error return). -/
def ProofU.reconstructUcommit (pk : PublicKey) (p : ProofU) : GoM (Option Int) := do
  let u ← deref "U" p.u
  let c ← deref "C" p.c
  let vp ← deref "VPrimeResponse" p.vPrimeResponse
  let sr ← deref "SResponse" p.sResponse
  let r0 ← idx "R[0]" pk.r 0
  match modPow u (-c) pk.n, modPow pk.s vp pk.n, modPow r0 sr pk.n with
  | some uc, some sv, some r0s =>
    let start := uc * sv * r0s % pk.n
    let rec go (l : IntMap) (acc : Int) : GoM (Option Int) :=
      match l with
      | [] => pure (some acc)
      | (i, r) :: rest => do
        let b ← idx "R[i]" pk.r i
        let r ← deref "MUserResponse" r
        match modPow b r pk.n with
        | some t => go rest (acc * t % pk.n)
        | none => pure none
    go p.mUserResponses start
  | _, _, _ => pure none

def ProofU.challengeContribution (pk : PublicKey) (p : ProofU) : GoM (Option (List Int)) := do
  if !p.wellFormed pk then return none
  match ← p.reconstructUcommit pk with
  | none => return none
  | some uc => return some [(← deref "U" p.u), uc]

def ProofU.correctResponseSizes (pk : PublicKey) (p : ProofU) : GoM Bool := do
  let vp ← deref "VPrimeResponse" p.vPrimeResponse
  return decide (0 ≤ vp) && decide (vp ≤ 2 ^ (pk.params.LvPrimeCommit + 1) - 1)

def ProofU.verifyWithChallenge (pk : PublicKey) (p : ProofU) (c' : Int) : GoM Bool := do
  if !p.wellFormed pk then return false
  let sz ← p.correctResponseSizes pk
  let c ← deref "C" p.c
  return sz && decide (c = c')

def ProofU.verify (pk : PublicKey) (p : ProofU) (context nonce : Int) : GoM Bool := do
  match ← p.challengeContribution pk with
  | none => return false
  | some contrib => p.verifyWithChallenge pk (createChallenge context nonce contrib false)

/-! ### ProofS -/

structure ProofS where
  c : Int
  eResponse : Int
deriving Repr, DecidableEq

/-- `ProofS.Verify(pk, signature, context, nonce)`. -/
def ProofS.verify (pk : PublicKey) (p : ProofS) (sig : CLSignature) (context nonce : Int) : GoM Bool := do
  let exponent := p.c + p.eResponse * sig.e
  let aCommit ← deref "Exp" (goExp sig.a exponent pk.n)
  let q ← deref "Exp" (goExp sig.a sig.e pk.n)
  let c' := hashCommit [context, q, sig.a, nonce, aCommit] false
  return decide (p.c = c')

/-! ### ProofD -/

structure ProofD where
  c : Option Int
  a : Option Int
  eResponse : Option Int
  vResponse : Option Int
  aResponses : IntMap
  aDisclosed : IntMap
  nonrev : Option NonRevProof
  /-- `none` = nil map (absent / null); an index maps to its list of proofs (nil entries possible) -/
  rangeProofs : Option (List (Int × List (Option RangeProof)))
deriving Repr, DecidableEq

/-- `ProofD.wellFormed`: mandatory fields present, every index refers to an existing base, no
    disclosed value is negative and longer than `Lm` bits (the hash that replaces an oversized
    value is over its magnitude only), no index is both disclosed and hidden, the secret key is
    hidden, range proofs sit on hidden attributes and are non-nil. -/
def ProofD.wellFormed (pk : PublicKey) (p : ProofD) : Bool :=
  p.c.isSome && p.a.isSome && p.eResponse.isSome && p.vResponse.isSome &&
  (p.aResponses.get 0).isSome &&
  p.aResponses.all (fun kv => kv.2.isSome && decide (0 ≤ kv.1) && decide (kv.1 < pk.r.length)) &&
  p.aDisclosed.all (fun kv => kv.2.isSome && decide (0 ≤ kv.1) && decide (kv.1 < pk.r.length) &&
    kv.2.all (fun a => !(decide (a < 0) && decide (bitLen a > pk.params.Lm))) &&
    !p.aResponses.has kv.1) &&
  (p.rangeProofs.getD []).all (fun kv => p.aResponses.has kv.1 && kv.2.all (·.isSome))

/-- `ProofD.correctResponseSizes`. -/
def ProofD.correctResponseSizes (pk : PublicKey) (p : ProofD) : GoM Bool := do
  let maxA : Int := 2 ^ (pk.params.LmCommit + 1) - 1
  let okA ← p.aResponses.foldlM (fun ok kv => do
      let r ← deref "AResponse" kv.2
      pure (ok && !(decide (r < 0) || decide (r > maxA)))) true
  if !okA then return false
  let e ← deref "EResponse" p.eResponse
  let maxE : Int := 2 ^ (pk.params.LeCommit + 1) - 1
  return decide (0 ≤ e) && decide (e ≤ maxE)

/-- `ProofD.reconstructZ` (`none` = error return). -/
def ProofD.reconstructZ (pk : PublicKey) (p : ProofD) : GoM (Option Int) := do
  let a ← deref "A" p.a
  let c ← deref "C" p.c
  let er ← deref "EResponse" p.eResponse
  let vr ← deref "VResponse" p.vResponse
  let num0 ← deref "Exp" (goExp a (2 ^ (pk.params.Le - 1)) pk.n)
  let numerator ← p.aDisclosed.foldlM (fun (num : Int) kv => do
      let attr ← deref "ADisclosed" kv.2
      let b ← idx "R[i]" pk.r kv.1
      let t ← deref "Exp" (goExp b (attrExp pk.params.Lm attr) pk.n)
      pure (num * t)) num0
  match goModInverse numerator pk.n with
  | none => return none
  | some inv =>
    let known := pk.z * inv
    match modPow known (-c) pk.n, modPow a er pk.n, modPow pk.s vr pk.n with
    | some knownC, some ae, some sv =>
      let rec go (l : IntMap) (rs : Int) : GoM (Option Int) :=
        match l with
        | [] => pure (some rs)
        | (i, r) :: rest => do
          let b ← idx "R[i]" pk.r i
          let r ← deref "AResponse" r
          match modPow b r pk.n with
          | some t => go rest (rs * t)
          | none => pure none
      match ← go p.aResponses 1 with
      | none => return none
      | some rs => return some (knownC * ae * rs * sv % pk.n)
    | _, _, _ => return none

/-- candidates of `revocationAttrIndex`: hidden responses below `2^(AttributeSize+ChallengeLength+ZkStat+1)`,
    the secret key (index 0) excepted; Go returns the first one in (random) map order, −1 if none. -/
def ProofD.revocationCandidates (p : ProofD) : List Int :=
  let max : Int := 2 ^ (Gen.revAttributeSize + Gen.revChallengeLength + Gen.revZkStat + 1)
  p.aResponses.filterMap (fun kv => match kv.2 with
    | some r => if kv.1 ≠ 0 ∧ r < max then some kv.1 else none
    | none => none)

/-- error-returning computations on the verification path: `failure` = Go `error` return,
    `throw` (from `GoM`) = panic. -/
abbrev GoE := OptionT GoM

def GoE.ofGoMOption {α} (x : GoM (Option α)) : GoE α := OptionT.mk x

/-- the range-proof part of `ChallengeContribution`: structures are extracted for every index,
    then for `index = 0 .. max hidden index` every proof gets `MResponse := AResponses[index]`,
    is structure-checked and contributes its reconstructed commitments. Returns the extra
    contributions and the range proofs with `MResponse` set. -/
def ProofD.rangeContributions (pk : PublicKey) (p : ProofD) (c : Int) :
    GoE (List Int × Option (List (Int × List (Option RangeProof)))) := do
  match p.rangeProofs with
  | none => pure ([], none)
  | some rps =>
    -- reconstructRangeProofStructures
    let structs ← rps.mapM (fun (kv : Int × List (Option RangeProof)) => do
      let ss ← kv.2.mapM (fun (rp : Option RangeProof) => do
        let rp ← (deref "range proof" rp : GoM _)
        match rp.extractStructure kv.1 pk with
        | some s => pure s
        | none => failure)
      pure (kv.1, ss))
    let maxAttribute : Int := p.aResponses.foldl (fun m kv => if kv.1 > m then kv.1 else m) 0
    let indices := (List.range (maxAttribute.toNat + 1)).map (fun (i : Nat) => (i : Int))
    let mut contribs : List Int := []
    let mut out : List (Int × List (Option RangeProof)) := rps
    for index in indices do
      match structs.lookup index, rps.lookup index with
      | some ss, some proofs =>
        let mresp ← (deref "AResponses[index]" (p.aResponses.get index) : GoM _)
        let mut newProofs : List (Option RangeProof) := []
        for (s, rp) in ss.zip proofs do
          let rp ← (deref "range proof" rp : GoM _)
          let rp := { rp with mResponse := some mresp }
          if !s.verifyProofStructure pk rp then failure
          let cs ← (s.commitmentsFromProof pk rp c : GoM _)
          contribs := contribs ++ cs
          newProofs := newProofs ++ [some rp]
        out := out.map (fun kv => if kv.1 = index then (kv.1, newProofs) else kv)
      | _, _ => pure ()
    pure (contribs, some out)

/-- `ProofD.ChallengeContribution(pk)` for a given choice `revIdx` of `revocationAttrIndex`
    (−1 when there is no candidate). Returns the contributions and the proof with the values
    `SetExpected` / `MResponse :=` wrote into it; `failure` = error return. -/
def ProofD.challengeContribution (o : SigOracle) (keyId : String) (pk : PublicKey) (p : ProofD)
    (revIdx : Int) : GoE (List Int × ProofD) := do
  if !p.wellFormed pk then failure
  let z ← GoE.ofGoMOption (p.reconstructZ pk)
  let a ← (deref "A" p.a : GoM _)
  let c ← (deref "C" p.c : GoM _)
  let mut l := [a, z]
  let mut p := p
  match p.nonrev with
  | none => pure ()
  | some nr =>
    let resp ← (match (if revIdx < 0 then none else p.aResponses.get revIdx) with
      | none => failure
      | some r => pure r : GoE Int)
    match nr.setExpected o keyId pk c resp with
    | none => failure
    | some nr' =>
      let contrib ← (nr'.challengeContributions pk : GoM _)
      l := l ++ contrib
      p := { p with nonrev := some nr' }
  let (rc, rps) ← p.rangeContributions pk c
  pure (l ++ rc, { p with rangeProofs := rps })

/-- `ProofD.VerifyWithChallenge(pk, c')` for a given choice `revIdx`; second component: the
    accumulator a verifier reads from the accepted proof. -/
def ProofD.verifyWithChallenge (o : SigOracle) (keyId : String) (pk : PublicKey) (p : ProofD)
    (revIdx : Int) (c' : Int) : GoM (Bool × Option Accumulator) := do
  if !p.wellFormed pk then return (false, none)
  let (notrevoked, acc) ← (match p.nonrev with
    | none => pure (true, none)
    | some nr =>
      match (if revIdx < 0 then none else p.aResponses.get revIdx) with
      | none => pure (false, none)
      | some resp =>
        let (ok, acc) := nr.verifyWithChallenge o keyId pk c'
        if !ok then pure (false, none) else do
          let alpha ← deref "alpha" (nr.response "alpha")
          pure (decide (alpha = resp), acc) : GoM (Bool × Option Accumulator))
  if !notrevoked then return (false, none)
  if !(← p.correctResponseSizes pk) then return (false, none)
  let c ← deref "C" p.c
  return (decide (c = c'), acc)

/-- the choices `revocationAttrIndex` can make (Go map iteration order). -/
def ProofD.revChoices (p : ProofD) : List Int :=
  match p.nonrev with
  | none => [-1]
  | some _ => match p.revocationCandidates with
    | [] => [-1]
    | cs => cs

/-- `ProofD.Verify(pk, context, nonce, issig)` for given choices of the two
    `revocationAttrIndex` calls. -/
def ProofD.verifyWith (o : SigOracle) (keyId : String) (pk : PublicKey) (p : ProofD)
    (context nonce : Int) (issig : Bool) (i1 i2 : Int) : GoM Bool := do
  match ← (p.challengeContribution o keyId pk i1).run with
  | none => return false
  | some (contrib, p') =>
    let (ok, _) ← p'.verifyWithChallenge o keyId pk i2 (createChallenge context nonce contrib issig)
    return ok

/-! ### ProofList -/

inductive Proof where
  | d (p : ProofD)
  | u (p : ProofU)
deriving Repr, DecidableEq

def Proof.secretKeyResponse : Proof → Option Int
  | .d p => p.aResponses.get 0
  | .u p => p.sResponse

def Proof.revChoices : Proof → List Int
  | .d p => p.revChoices
  | .u _ => [-1]

/-- `ProofList.Verify(publicKeys, context, nonce, issig, keyshareServers)`; `choices` gives,
    per proof, the two picks of `revocationAttrIndex`. -/
def proofListVerifyWith (o : SigOracle) (keys : List (String × PublicKey)) (pl : List Proof)
    (context nonce : Int) (issig : Bool) (kss : List String) (choices : List (Int × Int)) : GoM Bool := do
  if pl.isEmpty || pl.length ≠ keys.length || (kss.length > 0 && pl.length ≠ kss.length) then return false
  -- challengeContributions
  let mut contributions : List Int := []
  let mut updated : List Proof := []
  for ((proof, (kid, pk)), ch) in (pl.zip keys).zip choices do
    match proof with
    | .d p =>
      match ← (p.challengeContribution o kid pk ch.1).run with
      | none => return false
      | some (c, p') => contributions := contributions ++ c; updated := updated ++ [.d p']
    | .u p =>
      match ← p.challengeContribution pk with
      | none => return false
      | some c => contributions := contributions ++ c; updated := updated ++ [.u p]
  let expected := createChallenge context nonce contributions issig
  let mut seen : List (String × Option Int) := []
  let mut i := 0
  for ((proof, (kid, pk)), ch) in (updated.zip keys).zip choices do
    let ok ← (match proof with
      | .d p => do let (ok, _) ← p.verifyWithChallenge o kid pk ch.2 expected; pure ok
      | .u p => p.verifyWithChallenge pk expected : GoM Bool)
    if !ok then return false
    let label := if kss.length > 0 then kss[i]?.getD "" else ""
    match seen.lookup label with
    | none => seen := (label, proof.secretKeyResponse) :: seen
    | some resp =>
      let r ← deref "secretkey response" resp
      let mine ← deref "secretkey response" proof.secretKeyResponse
      if r ≠ mine then return false
    i := i + 1
  return true

/-- all combinations of picks. -/
def choiceCombos : List (List Int) → List (List (Int × Int))
  | [] => [[]]
  | cs :: rest =>
    let tails := choiceCombos rest
    (cs.flatMap fun a => cs.map fun b => (a, b)).flatMap fun ab => tails.map fun t => ab :: t

end Gabi
