/-
  GabiModel.KeyProofTree — the STRUCTURE (wiring) of the composed key-correctness proof of package
  keyproof: the values built by NewValidKeyProofStructure (validkeyproof.go) and by the
  constructors it calls, newPrimeProofStructure (primeproof.go), newExpProofStructure (exp.go),
  newExpStepStructure / newExpStepAStructure / newExpStepBStructure (expstep*.go),
  newMultiplicationProofStructure, newAdditionProofStructure, newPedersenStructure,
  newPedersenRangeProofStructure (pedersen.go, rangeproof.go), newIsSquareProofStructure
  (issquareproof.go).  Core-only, executable, total.

  Every constructor below mirrors the Go constructor of the same name field by field: the names
  (strings.Join(..., "_")), the bit lengths, the range limits, and every
  zkproof.RepresentationProofStructure (Lhs base/power, Rhs base/secret/power) in construction
  order.  `dump*` prints the canonical text that the hook keyproof/verif_export_c17b.go prints from
  the real values; the op `kp-structure` compares the two (GabiModel/Ops/KeyProofTreeOps.lean).

  What is a *structure* here: prover (BuildProof) and verifier (VerifyProof) share one structure
  value; it fixes WHICH named commitments, secrets and bases every sub-proof talks about, hence
  which statement is proven.  A slip in it (e.g. the primality proof of q' wired to "pprime")
  leaves every honest proof verifying and every altered proof rejected; only a description of
  the wiring shows it.

  Not modelled here: the traversal of the tree by commitmentsFromSecrets / commitmentsFromProof /
  buildProof of exp.go, primeproof.go, issquareproof.go (label-checked by the whole-proof ops), and
  the representation `agenproof` / range `agenrange` that primeproof.go builds on the fly from the
  hash of the `prea` commitment (it is not part of the stored structure; see `agenRepr` for its
  shape, which is used by the semantic reading only).

  uint arithmetic: `bitlen-1` in newExpProofStructure wraps for bitlen = 0 (the Go loop then runs
  2^64-1 times); the model uses truncated subtraction.  NewValidKeyProofStructure passes
  (N.BitLen()+1)/2 ≥ 1 for N ≠ 0.
-/
import GabiModel.KeyProof
import GabiModel.Sha256
import GabiModel.Wire
namespace Gabi.KeyProof
open Gabi Gabi.Wire

/-- `strings.Join(parts, "_")`. -/
def joinU : List String → String
  | [] => ""
  | [a] => a
  | a :: b :: rest => a ++ "_" ++ joinU (b :: rest)

/-- `fmt.Sprintf("%v", i)` for an unsigned integer. -/
def fmtV (i : Nat) : String := toString i

/-! ### The structure types (one per Go struct) -/

/-- `pedersenStructure`. -/
structure PedStructure where
  name : String
  repr : ReprStructure

/-- `multiplicationProofStructure`. -/
structure MulStructure where
  m1 : String
  m2 : String
  md : String
  result : String
  myname : String
  modMultPedersen : PedStructure
  modMultRange : RangeStructure
  multRepr : ReprStructure

/-- `additionProofStructure`. -/
structure AddStructure where
  a1 : String
  a2 : String
  md : String
  result : String
  myname : String
  addRepr : ReprStructure
  addRange : RangeStructure

/-- `expStepAStructure`. -/
structure StepAStructure where
  bitname : String
  prename : String
  postname : String
  myname : String
  bitRep : ReprStructure
  equalityRep : ReprStructure

/-- `expStepBStructure`. -/
structure StepBStructure where
  bitname : String
  mulname : String
  myname : String
  bitRep : ReprStructure
  mul : PedStructure
  prePostMul : MulStructure

/-- `expStepStructure`. -/
structure StepStructure where
  bitname : String
  stepa : StepAStructure
  stepb : StepBStructure

/-- `expProofStructure`. -/
structure ExpStructure where
  base : String
  exponent : String
  md : String
  result : String
  myname : String
  bitlen : Nat
  expBits : List PedStructure
  expBitEq : ReprStructure
  basePows : List PedStructure
  basePowRange : List RangeStructure
  basePowRels : List MulStructure
  start : PedStructure
  startRep : ReprStructure
  interRess : List PedStructure
  interResRange : List RangeStructure
  interSteps : List StepStructure

/-- `primeProofStructure`. -/
structure PrimeStructure where
  primeName : String
  myname : String
  bitlen : Nat
  halfP : PedStructure
  halfPRep : ReprStructure
  prea : PedStructure
  preaRange : RangeStructure
  a : PedStructure
  aRange : RangeStructure
  aneg : PedStructure
  anegRange : RangeStructure
  aRes : PedStructure
  anegRes : PedStructure
  aPlus1ResRep : ReprStructure
  aMin1ResRep : ReprStructure
  anegResRep : ReprStructure
  aExp : ExpStructure
  anegExp : ExpStructure

/-- `isSquareProofStructure`. -/
structure IsSquareStructure where
  n : Int
  nPedersen : PedStructure
  squares : List Int
  squaresPedersen : List PedStructure
  nRep : ReprStructure
  squaresRep : List ReprStructure
  rootsRep : List PedStructure
  rootsRange : List RangeStructure
  rootsValid : List MulStructure

/-- `ValidKeyProofStructure`. -/
structure ValidKeyStructure where
  n : Int
  p : PedStructure
  q : PedStructure
  pprime : PedStructure
  qprime : PedStructure
  pPprimeRel : ReprStructure
  qQprimeRel : ReprStructure
  pQNRel : ReprStructure
  pprimeIsPrime : PrimeStructure
  qprimeIsPrime : PrimeStructure
  basesValid : IsSquareStructure

/-! ### The constructors (one per Go constructor) -/

/-- `newPedersenStructure(name)` (pedersen.go). -/
def pedStructure (name : String) : PedStructure :=
  { name := name,
    repr := { lhs := [⟨name, 1⟩], rhs := [⟨"g", name, 1⟩, ⟨"h", joinU [name, "hider"], 1⟩] } }

/-- `newPedersenRangeProofStructure(name, l1, l2)` (pedersen.go). -/
def pedRangeStructure (name : String) (l1 l2 : Nat) : RangeStructure :=
  { repr := { lhs := [⟨name, 1⟩], rhs := [⟨"g", name, 1⟩, ⟨"h", joinU [name, "hider"], 1⟩] },
    rangeSecret := name, l1 := l1, l2 := l2 }

/-- `newMultiplicationProofStructure(m1, m2, mod, result, l)` (multiplicationproof.go). -/
def mulStructure (m1 m2 md result : String) (l : Nat) : MulStructure :=
  let my := joinU [m1, m2, md, result, "mul"]
  { m1 := m1, m2 := m2, md := md, result := result, myname := my,
    multRepr := { lhs := [⟨result, 1⟩],
                  rhs := [⟨m2, m1, 1⟩, ⟨md, joinU [my, "mod"], -1⟩, ⟨"h", joinU [my, "hider"], 1⟩] },
    modMultPedersen := pedStructure (joinU [my, "mod"]),
    modMultRange := pedRangeStructure (joinU [my, "mod"]) 0 l }

/-- `newAdditionProofStructure(a1, a2, mod, result, l)` (additionproof.go; not used by the
    key-correctness proof, modelled for the sub-structure op only). -/
def addStructure (a1 a2 md result : String) (l : Nat) : AddStructure :=
  let my := joinU [a1, a2, md, result, "add"]
  let rep : ReprStructure :=
    { lhs := [⟨result, 1⟩, ⟨a1, -1⟩, ⟨a2, -1⟩],
      rhs := [⟨md, joinU [my, "mod"], 1⟩, ⟨"h", joinU [my, "hider"], 1⟩] }
  { a1 := a1, a2 := a2, md := md, result := result, myname := my, addRepr := rep,
    addRange := { repr := rep, rangeSecret := joinU [my, "mod"], l1 := 0, l2 := l } }

/-- `newExpStepAStructure(bitname, prename, postname)` (expstepa.go). -/
def stepAStructure (bitname prename postname : String) : StepAStructure :=
  let my := joinU [bitname, prename, postname, "expa"]
  { bitname := bitname, prename := prename, postname := postname, myname := my,
    bitRep := { lhs := [⟨bitname, 1⟩], rhs := [⟨"h", joinU [bitname, "hider"], 1⟩] },
    equalityRep := { lhs := [⟨prename, 1⟩, ⟨postname, -1⟩], rhs := [⟨"h", joinU [my, "eqhider"], 1⟩] } }

/-- `newExpStepBStructure(bitname, prename, postname, mulname, modname, bitlen)` (expstepb.go). -/
def stepBStructure (bitname prename postname mulname modname : String) (bitlen : Nat) : StepBStructure :=
  { bitname := bitname, mulname := mulname,
    myname := joinU [bitname, prename, postname, "expb"],
    mul := pedStructure mulname,
    prePostMul := mulStructure mulname prename modname postname bitlen,
    bitRep := { lhs := [⟨bitname, 1⟩, ⟨"g", -1⟩], rhs := [⟨"h", joinU [bitname, "hider"], 1⟩] } }

/-- `newExpStepStructure(bitname, prename, postname, mulname, modname, bitlen)` (expstep.go). -/
def stepStructure (bitname prename postname mulname modname : String) (bitlen : Nat) : StepStructure :=
  { bitname := bitname,
    stepa := stepAStructure bitname prename postname,
    stepb := stepBStructure bitname prename postname mulname modname bitlen }

/-- the names newExpProofStructure gives to its inner commitments. -/
def expName (base exponent md result : String) : String := joinU [base, exponent, md, result, "exp"]
def expBitName (my : String) (i : Nat) : String := joinU [my, "bit", fmtV i]
def expBaseName (my : String) (i : Nat) : String := joinU [my, "base", fmtV i]
def expInterName (my : String) (i : Nat) : String := joinU [my, "inter", fmtV i]
def expStartName (my : String) : String := joinU [my, "start"]

/-- the `i`-th base-power relation of newExpProofStructure:
    `base_0 = start·base mod m`, `base_i = base_{i-1}² mod m`. -/
def expBasePowRel (my base md : String) (bitlen i : Nat) : MulStructure :=
  if i = 0 then mulStructure (expStartName my) base md (expBaseName my i) bitlen
  else mulStructure (expBaseName my (i - 1)) (expBaseName my (i - 1)) md (expBaseName my i) bitlen

/-- the `i`-th step of newExpProofStructure (first: from `start`; last: into `result`). -/
def expInterStep (my md result : String) (bitlen i : Nat) : StepStructure :=
  if i = 0 then
    stepStructure (expBitName my i) (expStartName my) (expInterName my i) (expBaseName my i) md bitlen
  else if i = bitlen - 1 then
    stepStructure (expBitName my i) (expInterName my (i - 1)) result (expBaseName my i) md bitlen
  else
    stepStructure (expBitName my i) (expInterName my (i - 1)) (expInterName my i) (expBaseName my i) md bitlen

/-- `newExpProofStructure(base, exponent, mod, result, bitlen)` (exp.go). -/
def expStructure (base exponent md result : String) (bitlen : Nat) : ExpStructure :=
  let my := expName base exponent md result
  let idx := List.range bitlen
  let idx1 := List.range (bitlen - 1)
  { base := base, exponent := exponent, md := md, result := result, myname := my, bitlen := bitlen,
    expBits := idx.map fun i => pedStructure (expBitName my i),
    expBitEq :=
      { lhs := ⟨exponent, -1⟩ :: idx.map fun i => ⟨expBitName my i, (2 : Int) ^ i⟩,
        rhs := [⟨"h", joinU [my, "biteqhider"], 1⟩] },
    basePows := idx.map fun i => pedStructure (expBaseName my i),
    basePowRange := idx.map fun i => pedRangeStructure (expBaseName my i) 0 bitlen,
    basePowRels := idx.map fun i => expBasePowRel my base md bitlen i,
    start := pedStructure (expStartName my),
    startRep := { lhs := [⟨expStartName my, 1⟩, ⟨"g", -1⟩],
                  rhs := [⟨"h", joinU [my, "start", "hider"], 1⟩] },
    interRess := idx1.map fun i => pedStructure (expInterName my i),
    interResRange := idx1.map fun i => pedRangeStructure (expInterName my i) 0 bitlen,
    interSteps := idx.map fun i => expInterStep my md result bitlen i }

/-- `newPrimeProofStructure(name, bitlen)` (primeproof.go). -/
def primeStructure (name : String) (bitlen : Nat) : PrimeStructure :=
  let my := joinU [name, "primeproof"]
  { primeName := name, myname := my, bitlen := bitlen,
    halfP := pedStructure (joinU [my, "halfp"]),
    halfPRep := { lhs := [⟨name, 1⟩, ⟨joinU [my, "halfp"], -2⟩, ⟨"g", -1⟩],
                  rhs := [⟨"h", joinU [name, "hider"], 1⟩, ⟨"h", joinU [my, "halfp", "hider"], -2⟩] },
    prea := pedStructure (joinU [my, "prea"]),
    preaRange := pedRangeStructure (joinU [my, "prea"]) 0 bitlen,
    a := pedStructure (joinU [my, "a"]),
    aRange := pedRangeStructure (joinU [my, "a"]) 0 bitlen,
    aneg := pedStructure (joinU [my, "aneg"]),
    anegRange := pedRangeStructure (joinU [my, "aneg"]) 0 bitlen,
    aRes := pedStructure (joinU [my, "ares"]),
    anegRes := pedStructure (joinU [my, "anegres"]),
    aPlus1ResRep := { lhs := [⟨joinU [my, "ares"], 1⟩, ⟨"g", -1⟩],
                      rhs := [⟨"h", joinU [my, "aresplus1hider"], 1⟩] },
    aMin1ResRep := { lhs := [⟨joinU [my, "ares"], 1⟩, ⟨"g", 1⟩],
                     rhs := [⟨"h", joinU [my, "aresmin1hider"], 1⟩] },
    anegResRep := { lhs := [⟨joinU [my, "anegres"], 1⟩, ⟨"g", 1⟩],
                    rhs := [⟨"h", joinU [my, "anegres", "hider"], 1⟩] },
    aExp := expStructure (joinU [my, "a"]) (joinU [my, "halfp"]) name (joinU [my, "ares"]) bitlen,
    anegExp := expStructure (joinU [my, "aneg"]) (joinU [my, "halfp"]) name (joinU [my, "anegres"]) bitlen }

/-- the representation `agenproof` that primeproof.go builds on the fly (it is NOT stored in the
    structure and not covered by `kp-structure`): `prea · g^aAdd · a⁻¹ = name^preamod · h^preahider`,
    i.e. `a = prea + aAdd − preamod·name`, with `aAdd` the hash of the `prea` commitment. -/
def agenRepr (name : String) (aAdd : Int) : ReprStructure :=
  let my := joinU [name, "primeproof"]
  { lhs := [⟨joinU [my, "prea"], 1⟩, ⟨"g", aAdd⟩, ⟨joinU [my, "a"], -1⟩],
    rhs := [⟨name, joinU [my, "preamod"], 1⟩, ⟨"h", joinU [my, "preahider"], 1⟩] }

def sqName (i : Nat) : String := joinU ["s", fmtV i]
def rootName (i : Nat) : String := joinU ["r", fmtV i]

/-- `newIsSquareProofStructure(N, Squares)` (issquareproof.go). -/
def isSquareStructure (n : Int) (squares : List Int) : IsSquareStructure :=
  let idx := List.range squares.length
  let nb := bitLen n
  { n := n, nPedersen := pedStructure "N", squares := squares,
    squaresPedersen := idx.map fun i => pedStructure (sqName i),
    nRep := { lhs := [⟨"N", -1⟩, ⟨"g", n⟩], rhs := [⟨"h", "N_hider", -1⟩] },
    squaresRep := squares.zipIdx.map fun (v, i) =>
      { lhs := [⟨sqName i, -1⟩, ⟨"g", v⟩], rhs := [⟨"h", joinU ["s", fmtV i, "hider"], -1⟩] },
    rootsRep := idx.map fun i => pedStructure (rootName i),
    rootsRange := idx.map fun i => pedRangeStructure (rootName i) 0 nb,
    rootsValid := idx.map fun i => mulStructure (rootName i) (rootName i) "N" (sqName i) nb }

/-- the bit length of the two prime proofs: `uint((N.BitLen()+1)/2)`. -/
def primeBitlen (n : Int) : Nat := (bitLen n + 1) / 2

/-- `NewValidKeyProofStructure(N, Bases)` (validkeyproof.go). -/
def validKeyStructure (n : Int) (bases : List Int) : ValidKeyStructure :=
  { n := n,
    p := pedStructure "p", q := pedStructure "q",
    pprime := pedStructure "pprime", qprime := pedStructure "qprime",
    pPprimeRel := { lhs := [⟨"p", 1⟩, ⟨"pprime", -2⟩, ⟨"g", -1⟩],
                    rhs := [⟨"h", "p_hider", 1⟩, ⟨"h", "pprime_hider", -2⟩] },
    qQprimeRel := { lhs := [⟨"q", 1⟩, ⟨"qprime", -2⟩, ⟨"g", -1⟩],
                    rhs := [⟨"h", "q_hider", 1⟩, ⟨"h", "qprime_hider", -2⟩] },
    pQNRel := { lhs := [⟨"g", n⟩], rhs := [⟨"p", "q", 1⟩, ⟨"h", "pqnrel", -1⟩] },
    pprimeIsPrime := primeStructure "pprime" (primeBitlen n),
    qprimeIsPrime := primeStructure "qprime" (primeBitlen n),
    basesValid := isSquareStructure n bases }

/-! ### numCommitments / numRangeProofs of the structures (the Go methods of the same names) -/

def ReprStructure.numCommitments (_ : ReprStructure) : Nat := 1
def PedStructure.numCommitments (s : PedStructure) : Nat := s.repr.numCommitments + 1
def RangeStructure.numCommitments (_ : RangeStructure) : Nat := Gen.kp_rangeProofIters
def MulStructure.numCommitments (s : MulStructure) : Nat :=
  s.multRepr.numCommitments + s.modMultPedersen.numCommitments + s.modMultRange.numCommitments
def MulStructure.numRangeProofs (_ : MulStructure) : Nat := 1
def AddStructure.numCommitments (s : AddStructure) : Nat := s.addRepr.numCommitments + s.addRange.numCommitments
def StepAStructure.numCommitments (s : StepAStructure) : Nat := s.bitRep.numCommitments + s.equalityRep.numCommitments
def StepBStructure.numCommitments (s : StepBStructure) : Nat :=
  s.bitRep.numCommitments + s.mul.numCommitments + s.prePostMul.numCommitments
def StepStructure.numCommitments (s : StepStructure) : Nat := s.stepa.numCommitments + s.stepb.numCommitments
def StepStructure.numRangeProofs (s : StepStructure) : Nat := 0 + s.stepb.prePostMul.numRangeProofs

def sumBy {α : Type} (f : α → Nat) (l : List α) : Nat := (l.map f).sum

def ExpStructure.numCommitments (s : ExpStructure) : Nat :=
  sumBy PedStructure.numCommitments s.expBits + s.expBitEq.numCommitments +
  sumBy PedStructure.numCommitments s.basePows + sumBy RangeStructure.numCommitments s.basePowRange +
  sumBy MulStructure.numCommitments s.basePowRels + s.start.numCommitments + s.startRep.numCommitments +
  sumBy PedStructure.numCommitments s.interRess + sumBy RangeStructure.numCommitments s.interResRange +
  sumBy StepStructure.numCommitments s.interSteps

def ExpStructure.numRangeProofs (s : ExpStructure) : Nat :=
  s.basePowRange.length + sumBy MulStructure.numRangeProofs s.basePowRels + s.interResRange.length +
  sumBy StepStructure.numRangeProofs s.interSteps

def PrimeStructure.numCommitments (s : PrimeStructure) : Nat :=
  s.halfP.numCommitments + s.halfPRep.numCommitments + s.prea.numCommitments + s.preaRange.numCommitments +
  s.a.numCommitments + s.aRange.numCommitments + s.aneg.numCommitments + s.anegRange.numCommitments +
  1 + Gen.kp_rangeProofIters + s.aRes.numCommitments + s.anegRes.numCommitments +
  s.anegResRep.numCommitments + s.aPlus1ResRep.numCommitments + s.aMin1ResRep.numCommitments +
  s.aExp.numCommitments + s.anegExp.numCommitments

def PrimeStructure.numRangeProofs (s : PrimeStructure) : Nat :=
  4 + s.aExp.numRangeProofs + s.anegExp.numRangeProofs

def IsSquareStructure.numCommitments (s : IsSquareStructure) : Nat :=
  1 + s.squares.length + s.nPedersen.numCommitments + sumBy PedStructure.numCommitments s.squaresPedersen +
  sumBy PedStructure.numCommitments s.rootsRep + s.nRep.numCommitments +
  sumBy ReprStructure.numCommitments s.squaresRep + sumBy RangeStructure.numCommitments s.rootsRange +
  sumBy MulStructure.numCommitments s.rootsValid

def IsSquareStructure.numRangeProofs (s : IsSquareStructure) : Nat :=
  sumBy MulStructure.numRangeProofs s.rootsValid + s.rootsRange.length

/-- `ValidKeyProofStructure.numRangeProofs`. -/
def ValidKeyStructure.numRangeProofs (s : ValidKeyStructure) : Nat :=
  s.pprimeIsPrime.numRangeProofs + s.qprimeIsPrime.numRangeProofs + s.basesValid.numRangeProofs

/-- the lengths of the parts of the Fiat–Shamir input, from the structure alone
    (hook `VerifSegmentLengths`). -/
def ValidKeyStructure.segmentLengths (s : ValidKeyStructure) : List Nat :=
  [s.pprime.numCommitments, s.qprime.numCommitments, s.p.numCommitments, s.q.numCommitments, 1, 1,
   s.pPprimeRel.numCommitments, s.qQprimeRel.numCommitments, s.pQNRel.numCommitments,
   s.pprimeIsPrime.numCommitments, s.qprimeIsPrime.numCommitments, Gen.kp_almostSafePrimeProductIters,
   s.basesValid.numCommitments]

/-! ### The canonical text (format: see keyproof/verif_export_c17b.go)

  All printers append to an accumulator, so that the text of a 2048-bit structure (tens of
  megabytes) is built in place. -/

def dRep (acc : String) (r : ReprStructure) : String :=
  let acc := acc ++ "(rep (lhs"
  let acc := r.lhs.foldl (fun a l => a ++ " (" ++ l.base ++ " " ++ hexOfInt l.power ++ ")") acc
  let acc := acc ++ ") (rhs"
  let acc := r.rhs.foldl (fun a x => a ++ " (" ++ x.base ++ " " ++ x.secret ++ " " ++ hexOfInt x.power ++ ")") acc
  acc ++ "))"

def dPed (acc : String) (p : PedStructure) : String :=
  dRep (acc ++ "(ped " ++ p.name ++ " ") p.repr ++ ")"

def dRange (acc : String) (r : RangeStructure) : String :=
  dRep (acc ++ "(range " ++ r.rangeSecret ++ " " ++ toString r.l1 ++ " " ++ toString r.l2 ++ " ") r.repr ++ ")"

def dMul (acc : String) (m : MulStructure) : String :=
  let acc := acc ++ "(mul " ++ m.m1 ++ " " ++ m.m2 ++ " " ++ m.md ++ " " ++ m.result ++ " " ++ m.myname ++ " "
  let acc := dPed acc m.modMultPedersen ++ " "
  let acc := dRange acc m.modMultRange ++ " "
  dRep acc m.multRepr ++ ")"

def dAdd (acc : String) (m : AddStructure) : String :=
  let acc := acc ++ "(add " ++ m.a1 ++ " " ++ m.a2 ++ " " ++ m.md ++ " " ++ m.result ++ " " ++ m.myname ++ " "
  let acc := dRep acc m.addRepr ++ " "
  dRange acc m.addRange ++ ")"

def dStepA (acc : String) (s : StepAStructure) : String :=
  let acc := acc ++ "(expa " ++ s.bitname ++ " " ++ s.prename ++ " " ++ s.postname ++ " " ++ s.myname ++ " "
  let acc := dRep acc s.bitRep ++ " "
  dRep acc s.equalityRep ++ ")"

def dStepB (acc : String) (s : StepBStructure) : String :=
  let acc := acc ++ "(expb " ++ s.bitname ++ " " ++ s.mulname ++ " " ++ s.myname ++ " "
  let acc := dRep acc s.bitRep ++ " "
  let acc := dPed acc s.mul ++ " "
  dMul acc s.prePostMul ++ ")"

def dStep (acc : String) (s : StepStructure) : String :=
  let acc := acc ++ "(step " ++ s.bitname ++ " "
  let acc := dStepA acc s.stepa ++ " "
  dStepB acc s.stepb ++ ")"

/-- `(tag X X ...)`. -/
def dList {α : Type} (d : String → α → String) (tag : String) (acc : String) (l : List α) : String :=
  l.foldl (fun a x => d (a ++ " ") x) (acc ++ "(" ++ tag) ++ ")"

def dExp (acc : String) (e : ExpStructure) : String :=
  let acc := acc ++ "(exp " ++ e.base ++ " " ++ e.exponent ++ " " ++ e.md ++ " " ++ e.result ++ " " ++ e.myname ++ " " ++
    toString e.bitlen ++ " "
  let acc := dList dPed "bits" acc e.expBits ++ " "
  let acc := dRep acc e.expBitEq ++ " "
  let acc := dList dPed "basepows" acc e.basePows ++ " "
  let acc := dList dRange "basepowrange" acc e.basePowRange ++ " "
  let acc := dList dMul "basepowrels" acc e.basePowRels ++ " "
  let acc := dPed acc e.start ++ " "
  let acc := dRep acc e.startRep ++ " "
  let acc := dList dPed "interress" acc e.interRess ++ " "
  let acc := dList dRange "interresrange" acc e.interResRange ++ " "
  dList dStep "steps" acc e.interSteps ++ ")"

def dPrime (acc : String) (p : PrimeStructure) : String :=
  let acc := acc ++ "(prime " ++ p.primeName ++ " " ++ p.myname ++ " " ++ toString p.bitlen ++ " "
  let acc := dPed acc p.halfP ++ " "
  let acc := dRep acc p.halfPRep ++ " "
  let acc := dPed acc p.prea ++ " "
  let acc := dRange acc p.preaRange ++ " "
  let acc := dPed acc p.a ++ " "
  let acc := dRange acc p.aRange ++ " "
  let acc := dPed acc p.aneg ++ " "
  let acc := dRange acc p.anegRange ++ " "
  let acc := dPed acc p.aRes ++ " "
  let acc := dPed acc p.anegRes ++ " "
  let acc := dRep acc p.aPlus1ResRep ++ " "
  let acc := dRep acc p.aMin1ResRep ++ " "
  let acc := dRep acc p.anegResRep ++ " "
  let acc := dExp acc p.aExp ++ " "
  dExp acc p.anegExp ++ ")"

def dIsSquare (acc : String) (s : IsSquareStructure) : String :=
  let acc := acc ++ "(issquare " ++ hexOfInt s.n ++ " "
  let acc := dPed acc s.nPedersen ++ " "
  let acc := dList (fun a (x : Int) => a ++ hexOfInt x) "squares" acc s.squares ++ " "
  let acc := dList dPed "squaresped" acc s.squaresPedersen ++ " "
  let acc := dRep acc s.nRep ++ " "
  let acc := dList dRep "squaresrep" acc s.squaresRep ++ " "
  let acc := dList dPed "rootsrep" acc s.rootsRep ++ " "
  let acc := dList dRange "rootsrange" acc s.rootsRange ++ " "
  dList dMul "rootsvalid" acc s.rootsValid ++ ")"

/-- part "top": the fields of the root that are not composed sub-trees. -/
def dValidKeyTop (acc : String) (s : ValidKeyStructure) : String :=
  let acc := acc ++ "(validkey " ++ hexOfInt s.n ++ " "
  let acc := dPed acc s.p ++ " "
  let acc := dPed acc s.q ++ " "
  let acc := dPed acc s.pprime ++ " "
  let acc := dPed acc s.qprime ++ " "
  let acc := dRep acc s.pPprimeRel ++ " "
  let acc := dRep acc s.qQprimeRel ++ " "
  dRep acc s.pQNRel

def dValidKey (acc : String) (s : ValidKeyStructure) : String :=
  let acc := dValidKeyTop acc s ++ " "
  let acc := dPrime acc s.pprimeIsPrime ++ " "
  let acc := dPrime acc s.qprimeIsPrime ++ " "
  dIsSquare acc s.basesValid ++ ")"

/-- the canonical text of `NewValidKeyProofStructure(N, Bases)`. -/
def ValidKeyStructure.dump (s : ValidKeyStructure) : String := dValidKey "" s

/-- what the structure ops print for a text: the text itself when short, else SHA-256, length and
    the first 64 characters (the kind and the names at the root, for the reader of a report). -/
def dumpDigest (s : String) : String :=
  let b := s.toUTF8
  if b.size ≤ 400 then s
  else "sha256:" ++ hexOfBytes (Sha256.sha256 b).toList ++ " len:" ++ toString b.size ++
    " head:" ++ String.ofList ((List.range 64).map fun i => Char.ofNat (b.get! i).toNat)

end Gabi.KeyProof
