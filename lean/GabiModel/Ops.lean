/-
  GabiModel.Ops — dispatch of line-protocol operations to model functions.
-/
import Lean.Data.Json
import GabiModel.Wire
import GabiModel.HashTool
namespace Gabi.Ops
open Lean Gabi Gabi.Wire

structure State where
  dummy : Unit := ()

def State.init : State := {}

def run (st : State) (op : String) (j : Json) : R (State × String) := do
  match op with
  | "hashcommit" =>
    let vals ← getInts j "vals"
    let issig ← getBool j "issig"
    pure (st, hexOfNat (hashCommit vals issig))
  | "der" =>
    let vals ← getInts j "vals"
    let issig ← getBool j "issig"
    pure (st, hexOfBytes (hashCommitInput vals issig))
  | "sha256" =>
    let b ← getBytes j "data"
    pure (st, hexOfBytes (Sha256.hash b))
  | "inthash" =>
    let b ← getBytes j "data"
    pure (st, hexOfNat (intHashSha256 b))
  | "hashnumber" =>
    let a ← getOptInt j "a"
    let b ← getOptInt j "b"
    let idx ← getInt j "index"
    let bl ← getNat j "bitlen"
    pure (st, hexOfNat (getHashNumber a b idx bl))
  | "challenge" =>
    let ctx ← getInt j "context"
    let nonce ← getInt j "nonce"
    let cs ← getInts j "contribs"
    let issig ← getBool j "issig"
    pure (st, hexOfNat (createChallenge ctx nonce cs issig))
  | _ => throw s!"unknown op {op}"

def step (st : State) (j : Json) : State × String :=
  match getStr j "op" with
  | .error e => (st, s!"bad-op {e}")
  | .ok op =>
    match run st op j with
    | .ok (st', s) => (st', s)
    | .error e => (st, s!"bad-op {e}")

end Gabi.Ops
