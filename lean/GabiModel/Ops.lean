/-
  GabiModel.Ops — registry of line-protocol handlers. Each area has its own module
  GabiModel/Ops/<Area>.lean exporting `handle : Handler`; add it to `handlers` below.
-/
import GabiModel.Ops.Base
import GabiModel.Ops.Basic
import GabiModel.Ops.KeysOps
import GabiModel.Ops.Crypto
import GabiModel.Ops.RevOps
import GabiModel.Ops.Serial
import GabiModel.Ops.KeyGenOps
import GabiModel.Ops.KeyProofOps
import GabiModel.Ops.KeyProofTreeOps
import GabiModel.Ops.Conc
namespace Gabi.Ops
open Lean Gabi Gabi.Wire

def handlers : List Handler := [
  Basic.handle,
  KeysOps.handle,
  Crypto.handle,
  RevOps.handle,
  Serial.handle,
  KeyGenOps.handle,
  KeyProofOps.handle,
  KeyProofTreeOps.handle,
  Conc.handle
]

def run (st : State) (op : String) (j : Json) : R (State × String) :=
  let rec go : List Handler → R (State × String)
    | [] => throw s!"unknown op {op}"
    | h :: hs => match h st op j with
      | some r => r
      | none => go hs
  go handlers

def step (st : State) (j : Json) : State × String :=
  match getStr j "op" with
  | .error e => (st, s!"bad-op {e}")
  | .ok op =>
    match run st op j with
    | .ok (st', s) => (st', s)
    | .error e => (st, s!"bad-op {e}")

end Gabi.Ops
