/-
  GabiModel.Conc.Cprng — the process-wide fast random generator (internal/common/fastrandom.go,
  CPRNG.Read) as a labelled transition system whose only shared step is the atomic add.

      nBlocks := uint64(((len(buf) - 1) / 16) + 1)
      iv := atomic.AddUint64(&c.counter, nBlocks) - nBlocks
      for { put(iv); iv++; encrypt … }          -- blocks iv, iv+1, …, local to the caller

  * `run`    : the coarse model – reads listed in the order of their atomic adds.
  * `St/step`: the fine model – any interleaving of {atomic add, encrypt one block} steps of any
               number of callers; the log records which caller encrypted which counter block.
  Core only (linked into the model driver).
-/
namespace Gabi.Conc.Cprng

/-- uint64 modulus. -/
def W : Nat := 2 ^ 64

/-- `uint64(((len(buf) - 1) / 16) + 1)` (only evaluated for `len > 0`). -/
def nBlocks (len : Nat) : Nat := (len - 1) / 16 + 1

/-- `atomic.AddUint64(&counter, n) - n` in uint64 arithmetic: new counter value and returned iv. -/
def atomicAdd (counter n : Nat) : Nat × Nat :=
  let c' := (counter + n) % W
  (c', (c' + W - n % W) % W)

/-- the encrypt loop of one `Read`: the counter blocks it encrypts with the number of bytes taken
    from each (`iv++` is uint64). -/
def loop (iv len : Nat) : List (Nat × Nat) :=
  if len ≥ 16 then (iv, 16) :: loop ((iv + 1) % W) (len - 16)
  else if len = 0 then [] else [(iv, len)]
termination_by len
decreasing_by omega

/-- one `Read(buf)` against counter `c`: new counter and the `(block, bytes)` list it uses. -/
def read (c len : Nat) : Nat × List (Nat × Nat) :=
  if len = 0 then (c, []) else
    let (c', iv) := atomicAdd c (nBlocks len)
    (c', loop iv len)

/-- coarse model: the reads in the order in which their atomic adds execute.
    Result: per read `(iv, nBlocks)` and the final counter. -/
def run (c : Nat) : List Nat → List (Nat × Nat) × Nat
  | [] => ([], c)
  | len :: rest =>
    if len = 0 then
      let (l, cf) := run c rest
      ((c, 0) :: l, cf)
    else
      let (c', iv) := atomicAdd c (nBlocks len)
      let (l, cf) := run c' rest
      ((iv, nBlocks len) :: l, cf)

/-! ### fine-grained transition system -/

/-- control state of one `Read` call. -/
inductive Call where
  | idle (len : Nat)               -- not yet at the atomic add
  | running (iv : Nat) (len : Nat) -- after the add: next counter block, bytes still to fill
  | done
deriving Repr, DecidableEq

structure St where
  counter : Nat
  calls : List Call
  /-- `(caller, counter block)` for every block encryption performed so far (latest first). -/
  log : List (Nat × Nat)
deriving Repr

def init (c0 : Nat) (lens : List Nat) : St :=
  { counter := c0, calls := lens.map Call.idle, log := [] }

/-- caller `i` performs its next step (a finished or unknown caller stutters). -/
def step (s : St) (i : Nat) : St :=
  match s.calls[i]? with
  | some (.idle len) =>
    if len = 0 then { s with calls := s.calls.set i .done } else
      let (c', iv) := atomicAdd s.counter (nBlocks len)
      { s with counter := c', calls := s.calls.set i (.running iv len) }
  | some (.running iv len) =>
    if len ≥ 16 then
      { s with calls := s.calls.set i (if len - 16 = 0 then .done else .running ((iv + 1) % W) (len - 16)),
               log := (i, iv) :: s.log }
    else if len = 0 then { s with calls := s.calls.set i .done }
    else { s with calls := s.calls.set i .done, log := (i, iv) :: s.log }
  | _ => s

/-- run a schedule (any list of caller indices). -/
def exec (s : St) (sched : List Nat) : St := sched.foldl step s

/-! ### trace replay used by the correspondence driver -/

/-- An observed read: requested length and the counter blocks the real code encrypted for it
    (in order). -/
structure Obs where
  len : Nat
  blocks : List Nat
deriving Repr

def insertBy (x : Obs) : List Obs → List Obs
  | [] => [x]
  | y :: ys => if x.blocks.headD 0 ≤ y.blocks.headD 0 then x :: y :: ys else y :: insertBy x ys

def sortObs (l : List Obs) : List Obs := l.foldr insertBy []

/-- Is the observation a trace of the model started at counter `c0`? The atomic adds are
    ordered by the iv they returned (the add order is not observable otherwise); every read must
    then get exactly the blocks the model's `read` hands out, and the final counters must agree.
    Returns the final counter or the reason for rejection. -/
def replay (c0 : Nat) (obs : List Obs) (final : Nat) : Except String Nat :=
  let sorted := sortObs (obs.filter (fun o => o.len ≠ 0))
  let rec go (c : Nat) : List Obs → Except String Nat
    | [] => pure c
    | o :: rest =>
      let (c', used) := read c o.len
      if used.map (·.1) = o.blocks then go c' rest
      else throw s!"read of {o.len} bytes used blocks {o.blocks}, model hands out {used.map (·.1)}"
  match go c0 sorted with
  | .error e => .error e
  | .ok c =>
    if (obs.filter (fun o => o.len = 0)).any (fun o => !o.blocks.isEmpty) then .error "empty read used a block"
    else if c = final then .ok c else .error s!"final counter {final}, model {c}"

end Gabi.Conc.Cprng
