/-
  GabiModel.Conc.HB — a minimal happens-before calculus over synchronisation skeletons.

  A skeleton is a set of straight-line thread programs whose actions are the shared-memory
  accesses of the anchored functions between their synchronisation operations:
      rd l / wr l        plain read / write of location l
      rmw l              atomic read-modify-write of l (sync/atomic)
      lock m / unlock m  sync.Mutex
      rel o / acq o      one-shot tokens: `go f()` = rel (spawn t) … first action of t = acq (spawn t);
                         wg.Done() of t = rel (done t) … wg.Wait() = acq (done t) for every t waited for;
                         channel send of message k = rel (msg k) … its receive = acq (msg k)
  An execution is a list of events (thread, pc, action) in the order they took effect.
  Happens-before = transitive closure of program order and of
      unlock m → later lock m,   rmw l → later rmw l,   rel o → later acq o.
  Two accesses conflict if they touch the same location, at least one writes and not both are atomic.

  This file: the data, the executable checkers used by the model driver (`findRace`, `conformsB`,
  `wfB`, the scheduler `runS`/`runSched`) and the skeletons of the shareable objects. The Prop-level
  definitions used by the theorems are at the end (they unfold to the same Boolean tests).
  Core only.
-/
namespace Gabi.Conc.HB

inductive Act where
  | rd (l : Nat) | wr (l : Nat) | rmw (l : Nat)
  | lock (m : Nat) | unlock (m : Nat)
  | rel (o : Nat) | acq (o : Nat)
deriving Repr, DecidableEq, Inhabited

structure Event where
  tid : Nat
  pc : Nat
  act : Act
deriving Repr, DecidableEq, Inhabited

abbrev Exec := List Event

/-- thread id ↦ its straight-line program (threads without program: `[]`). -/
abbrev Prog := Nat → List Act

/-- conflicting accesses. -/
def conflict : Act → Act → Bool
  | .rd l, .wr l' => l == l'
  | .wr l, .rd l' => l == l'
  | .wr l, .wr l' => l == l'
  | .rmw l, .rd l' => l == l'
  | .rmw l, .wr l' => l == l'
  | .rd l, .rmw l' => l == l'
  | .wr l, .rmw l' => l == l'
  | _, _ => false

/-- synchronises-with (first action earlier in the execution than the second). -/
def syncs : Act → Act → Bool
  | .unlock m, .lock m' => m == m'
  | .rmw l, .rmw l' => l == l'
  | .rel o, .acq o' => o == o'
  | _, _ => false

/-- direct happens-before edge between an earlier and a later event. -/
def edgeB (a b : Event) : Bool := a.tid == b.tid || syncs a.act b.act

/-! ### Prop-level definitions (used by GabiProps.C20) -/

def Edge (e : Exec) (i j : Nat) : Prop :=
  i < j ∧ ∃ a b, e[i]? = some a ∧ e[j]? = some b ∧ edgeB a b = true

/-- happens-before on positions of an execution. -/
def HB (e : Exec) : Nat → Nat → Prop := Relation.TransGen (Edge e)

/-- every pair of conflicting accesses is ordered by happens-before. -/
def RaceFree (e : Exec) : Prop :=
  ∀ (i j : Nat) (a b : Event), i < j → e[i]? = some a → e[j]? = some b → conflict a.act b.act = true → HB e i j

/-- `e` is (a prefix of) an interleaving of the thread programs. -/
structure Conforms (prog : Prog) (e : Exec) : Prop where
  act : ∀ (i : Nat) (ev : Event), e[i]? = some ev → (prog ev.tid)[ev.pc]? = some ev.act
  prefixClosed : ∀ (j : Nat) (ev : Event), e[j]? = some ev → ∀ p, p < ev.pc →
    ∃ (i : Nat) (ev' : Event), i < j ∧ e[i]? = some ev' ∧ ev'.tid = ev.tid ∧ ev'.pc = p
  mono : ∀ (i j : Nat) (a b : Event), i < j → e[i]? = some a → e[j]? = some b → a.tid = b.tid → a.pc < b.pc

/-- the synchronisation objects behaved: a token is acquired only after it was released
    (goroutine start after `go`, `Wait` return after `Done`, receive after send); a mutex is
    locked again only after the previous holder unlocked it. -/
structure WF (e : Exec) : Prop where
  token : ∀ (j : Nat) (ev : Event) (o : Nat), e[j]? = some ev → ev.act = Act.acq o →
    ∃ (i : Nat) (ev' : Event), i < j ∧ e[i]? = some ev' ∧ ev'.act = Act.rel o
  mutex : ∀ (i j : Nat) (a b : Event) (m : Nat), i < j → e[i]? = some a → e[j]? = some b →
    a.act = Act.lock m → b.act = Act.lock m →
    ∃ (u : Nat) (c : Event), i < u ∧ u < j ∧ e[u]? = some c ∧ c.tid = a.tid ∧ c.act = Act.unlock m

/-! ### fork–join skeletons -/

def spawnTok (t : Nat) : Nat := 2 * t
def doneTok (t : Nat) : Nat := 2 * t + 1

def Act.isTok : Act → Bool
  | .rel _ => true | .acq _ => true | _ => false

/-- main thread 0 runs `pre`, starts children 1..n, waits for all of them, runs `post`;
    child t runs `body t`. -/
def forkJoin (pre post : List Act) (body : Nat → List Act) (n : Nat) : Prog := fun t =>
  if t = 0 then
    pre ++ (List.range n).map (fun i => Act.rel (spawnTok (i + 1)))
        ++ (List.range n).map (fun i => Act.acq (doneTok (i + 1))) ++ post
  else if t ≤ n then Act.acq (spawnTok t) :: (body t ++ [Act.rel (doneTok t)])
  else []

/-- position p of a body is inside a critical section of mutex m. -/
def Prot (body : List Act) (m p : Nat) : Prop :=
  ∃ a, a < p ∧ body[a]? = some (.lock m) ∧ ∀ b, a < b → body[b]? = some (.unlock m) → p < b

/-! ### the skeletons of the shareable objects

  Location 0 is always the object in question. `v t` selects the branch child t takes. -/

/-- `Credential.nonrevCache` field, code as found (credential.go:199-236):
    v = 0 nonrevConsumeBuilder (reads the field in the select);
    v = 1 NonrevPrepareCache seeing a non-nil field (nil check, recv select, send select);
    v ≥ 2 NonrevPrepareCache seeing nil (nil check, write, recv select, send select). -/
def cacheFieldOldBody (v : Nat) : List Act :=
  match v with
  | 0 => [.rd 0]
  | 1 => [.rd 0, .rd 0, .rd 0]
  | _ => [.rd 0, .wr 0, .rd 0, .rd 0]

/-- the same field after the repair: every access goes through `nonrevCacheChan`, which holds
    `nonrevCacheLock` (mutex 0) while it reads (nil check, return) and possibly creates the
    channel; v = 0 consumer / v = 1 preparer seeing non-nil / v ≥ 2 preparer creating it. -/
def cacheFieldFixedBody (v : Nat) : List Act :=
  match v with
  | 0 => [.lock 0, .rd 0, .rd 0, .unlock 0]
  | 1 => [.lock 0, .rd 0, .rd 0, .unlock 0]
  | _ => [.lock 0, .rd 0, .wr 0, .rd 0, .unlock 0]

/-- main creates the credential (field = nil), starts n users, afterwards looks at the field. -/
def cacheFieldOld (v : Nat → Nat) (n : Nat) : Prog :=
  forkJoin [.wr 0] [.rd 0] (fun t => cacheFieldOldBody (v t)) n
def cacheFieldFixed (v : Nat → Nat) (n : Nat) : Prog :=
  forkJoin [.wr 0] [.rd 0] (fun t => cacheFieldFixedBody (v t)) n

/-- `SignedAccumulator.Accumulator` in UnmarshalVerify (revocation/api.go:218-231):
    v = 0 fast path (non-nil: check, return); v ≥ 1 slow path (check, write, read). -/
def saccBody (v : Nat) : List Act :=
  match v with
  | 0 => [.rd 0, .rd 0]
  | _ => [.rd 0, .wr 0, .rd 0]

/-- the accumulator was set before the object became shared (Accumulator.Sign, or one
    UnmarshalVerify by the owner): every user takes the fast path. -/
def saccInitialised (n : Nat) : Prog := forkJoin [.wr 0] [.rd 0] (fun _ => saccBody 0) n
/-- a freshly decoded SignedAccumulator shared before its first verification. -/
def saccFresh (v : Nat → Nat) (n : Nat) : Prog := forkJoin [.wr 0] [.rd 0] (fun t => saccBody (v t)) n

/-- `Witness.randomizer` in revocation.NewProofCommit (proof.go:176-200): the shared witness is
    only copied (`local := *witn` reads the field); the per-proof value goes to the copy. -/
def randomizerNow (n : Nat) : Prog := forkJoin [.wr 0] [.rd 0] (fun _ => [.rd 0]) n
/-- gabi#63, before the shallow copy: `witn.randomizer = randomizer` on the shared witness. -/
def randomizerOld (n : Nat) : Prog := forkJoin [.wr 0] [.rd 0] (fun _ => [.wr 0, .rd 0]) n

/-- `CPRNG` (fastrandom.go): location 0 = counter (NewCPRNG writes it, Read only uses
    atomic.AddUint64), location 1 = the AES block (written once, then read). Child t performs
    `k t` reads. -/
def cprngBody (k : Nat) : List Act := (List.replicate k [Act.rmw 0, Act.rd 1]).flatten
def cprngNow (k : Nat → Nat) (n : Nat) : Prog := forkJoin [.wr 0, .wr 1] [.rmw 0] (fun t => cprngBody (k t)) n
/-- mutant: `c.counter += nBlocks` instead of the atomic add. -/
def cprngPlainBody (k : Nat) : List Act := (List.replicate k [Act.rd 0, Act.wr 0, Act.rd 1]).flatten
def cprngPlain (k : Nat → Nat) (n : Nat) : Prog := forkJoin [.wr 0, .wr 1] [.rd 0] (fun t => cprngPlainBody (k t)) n

/-- exp-proof worker pool (keyproof/exp.go:364-381, 680-697): location 0 = todoOffset (atomic),
    location 1 = the todo slice / list header (set up by main, read by workers), location 2+k =
    the list slots of closure k (disjoint ranges, see ExpWorkers.slots_disjoint).
    `own t` = the closures worker t ends up running (any assignment in which no closure is
    given to two workers). -/
def expWorkerBody (ks : List Nat) : List Act :=
  (ks.map (fun k => [Act.rmw 0, Act.rd 1, Act.wr (2 + k)])).flatten ++ [Act.rmw 0]
def expMainPre (nTodo : Nat) : List Act := [.wr 0, .wr 1] ++ (List.range nTodo).map (fun k => Act.wr (2 + k))
def expMainPost (nTodo : Nat) : List Act := (List.range nTodo).map (fun k => Act.rd (2 + k))
def expSlots (nTodo : Nat) (own : Nat → List Nat) (n : Nat) : Prog :=
  forkJoin (expMainPre nTodo) (expMainPost nTodo) (fun t => expWorkerBody (own t)) n

/-- hand-over of a prepared builder through the cache channel: the preparer writes the builder's
    fields (location 0 = the builder object) and sends it (message 0 = rel 1000); whoever
    receives it (acq 1000) updates and reads it. Not fork-join: two plain threads. -/
def builderHandoff : Prog := fun t =>
  match t with
  | 0 => [.rel (spawnTok 1), .rel (spawnTok 2)]
  | 1 => [.acq (spawnTok 1), .wr 0, .rel 1000]
  | 2 => [.acq (spawnTok 2), .acq 1000, .wr 0, .rd 0]
  | _ => []

/-! ### executable side: scheduler and race search (model driver) -/

/-- scheduler state: program counters, held mutexes with their holders, released tokens, the
    execution so far (in order). -/
structure SSt where
  pcs : List Nat
  held : List (Nat × Nat)
  released : List Nat
  trace : Exec

def SSt.pcOf (st : SSt) (t : Nat) : Nat := st.pcs.getD t 0

/-- a mutex is locked only when free and unlocked only by its holder; a token is acquired only
    after it was released (goroutine start, Wait, receive). -/
def senabled (st : SSt) (t : Nat) : Act → Bool
  | .lock m => !(st.held.any (fun h => h.1 == m))
  | .unlock m => st.held.contains (m, t)
  | .acq o => st.released.contains o
  | _ => true

/-- thread t performs its next action if it has one and it is enabled (otherwise nothing happens). -/
def sstep (prog : Prog) (st : SSt) (t : Nat) : SSt :=
  if t < st.pcs.length then
    match (prog t)[st.pcOf t]? with
    | none => st
    | some a =>
      if senabled st t a then
        { pcs := st.pcs.set t (st.pcOf t + 1),
          held := (match a with
            | .lock m => (m, t) :: st.held
            | .unlock m => st.held.erase (m, t)
            | _ => st.held),
          released := (match a with | .rel o => o :: st.released | _ => st.released),
          trace := st.trace ++ [⟨t, st.pcOf t, a⟩] }
      else st
  else st

def sinit (n : Nat) : SSt := { pcs := List.replicate n 0, held := [], released := [], trace := [] }

/-- the labelled transition system of a skeleton: run any schedule (list of thread ids) over
    threads 0..n-1. Every execution it produces satisfies `Conforms` and `WF`
    (GabiProofs.ConcSched.runS_inv). -/
def runS (prog : Prog) (n : Nat) (sched : List Nat) : SSt := sched.foldl (sstep prog) (sinit n)

/-- run a schedule, then let every thread run to completion round-robin so that the execution
    is maximal (used by the model driver). -/
def runSched (prog : Prog) (nThreads : Nat) (sched : List Nat) : Exec :=
  let total := (List.range nThreads).foldl (fun acc t => acc + (prog t).length) 0
  let rr := (List.range (total + 1)).flatMap (fun _ => List.range nThreads)
  (runS prog nThreads (sched ++ rr)).trace

/-- positions that happen before each position, as bit masks. -/
def hbMasks (e : Exec) : Array Nat := Id.run do
  let ev := e.toArray
  let mut masks : Array Nat := Array.mkEmpty ev.size
  for j in [0:ev.size] do
    let mut m := 0
    for i in [0:j] do
      if edgeB ev[i]! ev[j]! then
        m := m ||| masks[i]! ||| (1 <<< i)
    masks := masks.push m
  return masks

/-- first pair of conflicting accesses not ordered by happens-before. -/
def findRace (e : Exec) : Option (Nat × Nat) := Id.run do
  let ev := e.toArray
  let masks := hbMasks e
  for j in [0:ev.size] do
    for i in [0:j] do
      if conflict ev[i]!.act ev[j]!.act && !(masks[j]!.testBit i) then
        return some (i, j)
  return none

/-- executable form of `Conforms` (sound: GabiProofs.ConcHB.conforms_of_conformsB). -/
def conformsB (prog : Prog) (e : Exec) : Bool :=
  (List.range e.length).all fun j =>
    match e[j]? with
    | none => true
    | some x =>
      ((prog x.tid)[x.pc]? == some x.act) &&
      (List.range x.pc).all (fun p => (List.range j).any (fun i =>
        match e[i]? with | some z => z.tid == x.tid && z.pc == p | none => false)) &&
      (List.range j).all (fun i =>
        match e[i]? with | some z => z.tid != x.tid || decide (z.pc < x.pc) | none => true)

/-- executable form of `WF` (sound: GabiProofs.ConcHB.wf_of_wfB). -/
def wfB (e : Exec) : Bool :=
  (List.range e.length).all fun j =>
    match e[j]? with
    | none => true
    | some x =>
      match x.act with
      | .acq o => (List.range j).any (fun i => match e[i]? with | some z => z.act == .rel o | none => false)
      | .lock m => (List.range j).all (fun i =>
          match e[i]? with
          | some z => z.act != .lock m ||
              (List.range j).any (fun u => decide (i < u) &&
                (match e[u]? with | some c => c.tid == z.tid && c.act == .unlock m | none => false))
          | none => true)
      | _ => true

def showAct : Act → String
  | .rd l => s!"rd{l}" | .wr l => s!"wr{l}" | .rmw l => s!"rmw{l}"
  | .lock m => s!"lock{m}" | .unlock m => s!"unlock{m}" | .rel o => s!"rel{o}" | .acq o => s!"acq{o}"

end Gabi.Conc.HB
