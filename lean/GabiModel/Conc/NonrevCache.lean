/-
  GabiModel.Conc.NonrevCache — the non-revocation proof-builder cache of a credential
  (credential.go: nonrevConsumeBuilder, NonrevPrepareCache) as a labelled transition system.

  The cache is a 1-buffered channel; both functions use only NON-BLOCKING receive / send, which
  are the atomic steps here. Any number of Prepare and Consume operations may run concurrently;
  a schedule is an arbitrary list of labels (start a new operation / advance operation i / let
  operation i fail at its fallible local step).

      Prepare:  ch := cacheChan(create)          -- lazily creates the channel (under the lock)
                select { b = <-ch | default }     -- recv
                b.UpdateCommit(w) | b = build()   -- local; build draws a FRESH builder
                select { ch <- b | default }      -- send, or discard if occupied
      Consume:  ch := cacheChan(no create)        -- may still be nil: receive never ready
                select { b = <-ch | default }
                b.UpdateCommit(w) | b = build()
                return b                          -- consumed by the proof

  Builders are identified by the value of a supply counter at creation (their randomizer is
  drawn at creation), so "the same builder id in two proofs" = randomness reuse.
  Core only (linked into the model driver).
-/
namespace Gabi.Conc.NonrevCache

inductive Kind where
  | prepare | consume
deriving Repr, DecidableEq

/-- program counter of one operation. -/
inductive Pc where
  | start                    -- before reading the channel field
  | recv (haveChan : Bool)   -- about to do the non-blocking receive (on a nil channel if `false`)
  | gotCached (b : Nat)      -- received builder b; next: UpdateCommit
  | building                 -- channel empty; next: build a fresh builder
  | holding (b : Nat)        -- Prepare only: next: non-blocking send
  | finished (res : Option Nat) -- Consume: `some b` = builder b went into a proof
deriving Repr, DecidableEq

structure Op where
  kind : Kind
  pc : Pc
deriving Repr, DecidableEq

/-- capacity of `make(chan *NonRevocationProofBuilder, 1)`. -/
def cap : Nat := 1

structure St where
  chanCreated : Bool := false   -- ic.nonrevCache != nil
  chan : List Nat := []         -- channel buffer (FIFO)
  supply : Nat := 0             -- next fresh builder id
  ops : List Op := []
  discarded : List Nat := []
deriving Repr

inductive Label where
  | spawn (k : Kind)   -- a goroutine calls NonrevPrepareCache / nonrevConsumeBuilder
  | adv (i : Nat)      -- operation i performs its next atomic step
  | fail (i : Nat)     -- UpdateCommit of operation i returns an error (builder is dropped)
deriving Repr, DecidableEq

def setPc (s : St) (i : Nat) (k : Kind) (pc : Pc) : St :=
  { s with ops := s.ops.set i { kind := k, pc := pc } }

def adv (s : St) (i : Nat) : St :=
  match s.ops[i]? with
  | none => s
  | some op =>
    match op.pc with
    | .start =>
      match op.kind with
      | .prepare => setPc { s with chanCreated := true } i op.kind (.recv true)
      | .consume => setPc s i op.kind (.recv s.chanCreated)
    | .recv have_ =>
      match have_, s.chan with
      | true, b :: rest => setPc { s with chan := rest } i op.kind (.gotCached b)
      | _, _ => setPc s i op.kind .building
    | .gotCached b =>
      match op.kind with
      | .prepare => setPc s i op.kind (.holding b)
      | .consume => setPc s i op.kind (.finished (some b))
    | .building =>
      let b := s.supply
      match op.kind with
      | .prepare => setPc { s with supply := b + 1 } i op.kind (.holding b)
      | .consume => setPc { s with supply := b + 1 } i op.kind (.finished (some b))
    | .holding b =>
      if s.chan.length < cap then setPc { s with chan := s.chan ++ [b] } i op.kind (.finished none)
      else setPc { s with discarded := b :: s.discarded } i op.kind (.finished none)
    | .finished _ => s

def step (s : St) : Label → St
  | .spawn k => { s with ops := s.ops ++ [{ kind := k, pc := .start }] }
  | .adv i => adv s i
  | .fail i =>
    match s.ops[i]? with
    | some { kind := k, pc := .gotCached b } =>
      setPc { s with discarded := b :: s.discarded } i k (.finished none)
    | _ => s

def exec (s : St) (ls : List Label) : St := ls.foldl step s

/-- how many times builder `b` is held by an operation in this control state. -/
def Pc.holds (b : Nat) : Pc → Nat
  | .gotCached b' => if b' = b then 1 else 0
  | .holding b' => if b' = b then 1 else 0
  | .finished (some b') => if b' = b then 1 else 0
  | _ => 0

/-- number of places in which builder `b` currently is: channel, operations (running owner or
    consuming proof), discarded. -/
def places (s : St) (b : Nat) : Nat :=
  s.chan.count b + (s.ops.map (fun o => o.pc.holds b)).sum + s.discarded.count b

/-- operation i is a finished Consume that used builder b in its proof. -/
def consumedBy (s : St) (i b : Nat) : Prop :=
  s.ops[i]? = some { kind := .consume, pc := .finished (some b) }

/-! ### controlled schedules (correspondence with the real code)

  The harness runs each goroutine until its next observable point: the log hook right after the
  receive (`Logger.Trace` in NonrevPrepareCache, `Logger.Tracef` at the start of
  revocation.NewProofCommit for a building Consume) or the end of the operation. A *turn* of a
  thread is therefore: advance its current operation until it is `building`, or a Prepare that
  `gotCached`, or finished. -/

structure Thread where
  script : List Kind      -- operations still to start
  cur : Option Nat        -- index in `ops` of the running operation
deriving Repr

def pausePoint (op : Op) : Bool :=
  match op.kind, op.pc with
  | _, .building => true
  | .prepare, .gotCached _ => true
  | _, .finished _ => true
  | _, _ => false

/-- advance operation i until the next pause point (at least one step, at most `fuel`). -/
def advToPause (s : St) (i : Nat) : Nat → St
  | 0 => s
  | fuel + 1 =>
    let s' := adv s i
    match s'.ops[i]? with
    | some op => if pausePoint op then s' else advToPause s' i fuel
    | none => s'

def showChan (s : St) : String :=
  match s.chan with
  | [] => "-"
  | l => ",".intercalate (l.map toString)

/-- one turn of thread `t`; returns the event text the harness prints for the same turn. -/
def turn (s : St) (ths : List Thread) (t : Nat) : St × List Thread × String :=
  match ths[t]? with
  | none => (s, ths, s!"t{t}:none")
  | some th =>
    let (s1, th1, fresh) : St × Thread × Bool :=
      match th.cur with
      | some _ => (s, th, false)
      | none =>
        match th.script with
        | [] => (s, th, false)
        | k :: rest => (step s (.spawn k), { script := rest, cur := some s.ops.length }, true)
    match th1.cur with
    | none => (s, ths, s!"t{t}:idle")
    | some i =>
      let _ := fresh
      let s2 := advToPause s1 i 8
      match s2.ops[i]? with
      | none => (s2, ths, "?")
      | some op =>
        let kn := match op.kind with | .prepare => "prep" | .consume => "cons"
        let ev := match op.pc with
          | .building => "empty"
          | .gotCached b => s!"cached={b}"
          | .finished (some b) => s!"done={b}"
          | .finished none => "done"
          | _ => "?"
        let th2 : Thread := match op.pc with
          | .finished _ => { th1 with cur := none }
          | _ => th1
        (s2, ths.set t th2, s!"t{t}:{kn}:{ev}/c{showChan s2}")

/-- run a controlled schedule; the result lists the events of all turns. -/
def runTurns (s : St) (ths : List Thread) : List Nat → List String → St × List String
  | [], acc => (s, acc.reverse)
  | t :: rest, acc =>
    let (s', ths', ev) := turn s ths t
    runTurns s' ths' rest (ev :: acc)

/-- executable form of the invariants, evaluated on every state a replay passes through. -/
def invOk (s : St) : Bool :=
  s.chan.length ≤ cap &&
  (List.range (s.supply + 2)).all (fun b => places s b = (if b < s.supply then 1 else 0))

end Gabi.Conc.NonrevCache
