/-
  GabiModel.Conc.ExpWorkers — the worker pool of the exponentiation proof
  (keyproof/exp.go commitmentsFromSecrets :217-381, commitmentsFromProof :572-697).

      for each sub-structure k:  curOff := len(list); list = append(list, make(n_k)...)
                                 todo = append(todo, func(list){ … list[curOff+j] = v_j, j < n_k })
      workers (runtime.NumCPU()):  for { offset := atomic.AddUint32(todoOffset, 1)
                                         if offset > len(todo) { break }; todo[offset-1](list) }
      wg.Wait()

  * `offsets`/`slotRange`: which list slots closure k writes.
  * `St/step`: any interleaving of the workers' {atomic add, run closure} steps; the log records
    which worker ran which closure.
  Core only.
-/
namespace Gabi.Conc.ExpWorkers

/-- start offsets of the closures: `base` = len(list) before the first append, `sizes` = the
    n_k in order of registration. -/
def offsets (base : Nat) : List Nat → List Nat
  | [] => []
  | n :: rest => base :: offsets (base + n) rest

/-- slots written by closure k: `[start, start + size)`. -/
def slotRange (base : Nat) (sizes : List Nat) (k : Nat) : Nat × Nat :=
  ((offsets base sizes).getD k 0, sizes.getD k 0)

/-- uint32 modulus of `todoOffset`. -/
def W32 : Nat := 2 ^ 32

inductive Worker where
  | idle              -- about to execute atomic.AddUint32
  | working (k : Nat) -- running todo[k]
  | exited
deriving Repr, DecidableEq

structure St where
  counter : Nat
  nTodo : Nat
  workers : List Worker
  log : List (Nat × Nat)   -- (worker, closure index) for every closure run so far
deriving Repr

def init (nTodo nWorkers : Nat) : St :=
  { counter := 0, nTodo := nTodo, workers := List.replicate nWorkers .idle, log := [] }

def step (s : St) (w : Nat) : St :=
  match s.workers[w]? with
  | some .idle =>
    let c := (s.counter + 1) % W32
    if c > s.nTodo then { s with counter := c, workers := s.workers.set w .exited }
    else { s with counter := c, workers := s.workers.set w (.working (c - 1)) }
  | some (.working k) => { s with workers := s.workers.set w .idle, log := (w, k) :: s.log }
  | _ => s

def exec (s : St) (sched : List Nat) : St := sched.foldl step s

end Gabi.Conc.ExpWorkers
