/-
  GabiModel.Reuse — the two-transcript extractor and the pairwise freshness check of property C07.
  A *transcript value* is a response `s = r + c·m` of one proof for one secret `m`.
-/
import GabiModel.Num
namespace Gabi

/-- the two-transcript extractor: from `(c₁,s₁)`, `(c₂,s₂)` for the same secret and the same
    randomiser it returns the secret `(s₁-s₂)/(c₁-c₂)`; `none` when the division is not exact. -/
def extract (c1 s1 c2 s2 : Int) : Option Int :=
  if c1 = c2 then none
  else if (s1 - s2) % (c1 - c2) = 0 then some ((s1 - s2) / (c1 - c2)) else none

/-- one response of one proof: which proof list it belongs to (`session`), the proof's challenge,
    a name for the secret (`slot`), the response and the true secret (known to the checker). -/
structure TranscriptValue where
  session : Nat
  proof : Nat
  c : Int
  slot : String
  s : Int
  m : Int
deriving Repr

/-- the randomiser implied by a response. -/
def TranscriptValue.randomizer (t : TranscriptValue) : Int := t.s - t.c * t.m

/-- does the extractor recover the secret from this pair? -/
def extractorSucceeds (a b : TranscriptValue) : Bool :=
  extract a.c a.s b.c b.s == some a.m && a.m == b.m

/-- a pair of values from different proofs violates freshness when their implied randomisers
    coincide; the secret-key randomiser is deliberately shared *within* one session. -/
def reusedPair (a b : TranscriptValue) : Bool :=
  a.proof ≠ b.proof && !(a.session = b.session && a.slot = "secretkey" && b.slot = "secretkey") &&
    (a.randomizer == b.randomizer || extractorSucceeds a b)

def allPairs {α} : List α → List (α × α)
  | [] => []
  | x :: xs => xs.map (fun y => (x, y)) ++ allPairs xs

/-- number of violating pairs among the responses, plus repeated group elements (randomised
    signature elements `A'`, non-revocation commitments `C_r`, `C_u`) across proofs. -/
def reuseCount (vals : List TranscriptValue) (elements : List (Nat × String × Int)) : Nat :=
  ((allPairs vals).filter fun p => reusedPair p.1 p.2).length +
  ((allPairs elements).filter fun p => p.1.1 ≠ p.2.1 && p.1.2.2 == p.2.2.2).length

end Gabi
