/-
  GabiModel.MathUtil — internal/common/mathutil.go, fastmod.go, randomprime.go, zkproof/group.go
  (number-theoretic helpers of property C19). Executable, total; `Option` = reported failure.
-/
import GabiModel.Num
namespace Gabi

/-! ### LegendreSymbol (mathutil.go:96-133) -/

/-- strip factors of two: returns the odd part and the number of halvings (n ≠ 0). -/
def stripTwos (n : Nat) : Nat × Nat :=
  if h : n = 0 then (0, 0) else
  if n % 2 = 0 then
    let (o, t) := stripTwos (n / 2)
    (o, t + 1)
  else (n, 0)
termination_by n
decreasing_by omega

theorem stripTwos_fst_le (n : Nat) : (stripTwos n).1 ≤ n := by
  induction n using Nat.strongRecOn with
  | _ n ih =>
    unfold stripTwos
    split
    · simp
    · split
      · have := ih (n / 2) (by omega)
        simp only []
        omega
      · simp

theorem stripTwos_fst_pos (n : Nat) (h : n ≠ 0) : 0 < (stripTwos n).1 := by
  induction n using Nat.strongRecOn with
  | _ n ih =>
    unfold stripTwos
    split
    · contradiction
    · split
      · have := ih (n / 2) (by omega) (by omega)
        simpa using this
      · simp; omega

/-- the main loop of `LegendreSymbol` on naturals: state `(n, m, j)`. -/
def legendreLoop (n m : Nat) (j : Int) : Int :=
  if h : n = 0 then (if m = 1 then j else 0) else
    let st := stripTwos n
    let n' := st.1
    let t := st.2
    let j1 := if t % 2 = 1 ∧ (m % 8 = 3 ∨ m % 8 = 5) then -j else j
    let j2 := if m % 4 = 3 ∧ n' % 4 = 3 then -j1 else j1
    legendreLoop (m % n') n' j2
termination_by n
decreasing_by
  have h1 := stripTwos_fst_le n
  have h2 := stripTwos_fst_pos n h
  have := Nat.mod_lt m h2
  omega

/-- `common.LegendreSymbol(a, p)` for `p > 0` (for `p ≤ 0` Go divides by zero or loops). -/
def legendreSymbol (a p : Int) : Int :=
  legendreLoop (a % p).toNat p.toNat 1

/-! ### Crt (mathutil.go:136-151) -/

/-- `common.Crt(a, pa, b, pb)`; `none` = the Go code panics ("Incorrect input to CRT"). -/
def crt (a pa b pb : Int) : Option Int :=
  let (g, s2, s1) := xgcd pa.toNat pb.toNat
  if g ≠ 1 then none else
  some ((a * s1 * pb + b * s2 * pa) % (pa * pb))

/-! ### PrimeSqrt (mathutil.go:298-353) -/

/-- first `z ≥ start` with Legendre symbol −1 (bounded search). -/
def findNonResidue (fuel : Nat) (z : Nat) (p : Nat) : Option Nat :=
  match fuel with
  | 0 => none
  | fuel + 1 => if legendreSymbol z p = -1 then some z else findNonResidue fuel (z + 1) p

/-- least `i` with `t^(2^i) = 1 (mod p)` (bounded). -/
def orderExp (fuel : Nat) (tp : Nat) (p : Nat) (i : Nat) : Option Nat :=
  match fuel with
  | 0 => none
  | fuel + 1 => if tp = 1 then some i else orderExp fuel (tp * tp % p) p (i + 1)

def tonelliLoop (fuel : Nat) (p : Nat) (M c t R : Nat) : Option Nat :=
  match fuel with
  | 0 => none
  | fuel + 1 =>
    if t = 1 then some R else
    match orderExp (M + 1) t p 0 with
    | none => none
    | some i =>
      if M < i + 1 then none else
      let b := powMod c (2 ^ (M - i - 1)) p
      let c' := b * b % p
      tonelliLoop fuel p i c' (t * c' % p) (R * b % p)

/-- outcome of `PrimeSqrt`: `diverges` marks inputs outside the domain (not an odd prime)
    on which the Go loops need not terminate. -/
inductive SqrtResult where
  | root (r : Nat)
  | noRoot
  | diverges
deriving Repr, DecidableEq

/-- `common.PrimeSqrt(a, pa)` for `0 ≤ a`, `pa` an odd prime. -/
def primeSqrt (a pa : Nat) : SqrtResult :=
  if a = 0 then .root 0 else
  if pa = 2 then .root (a % 2) else
  if powMod a (pa / 2) pa ≠ 1 then .noRoot else
  if pa % 4 = 3 then .root (powMod a (pa / 4 + 1) pa) else
  match findNonResidue pa 2 pa with
  | none => .diverges
  | some z =>
    let (Q, M) := stripTwos (pa - 1)
    let c := powMod z Q pa
    let t := powMod a Q pa
    let R := powMod a (Q / 2 + 1) pa
    match tonelliLoop (M + 1) pa M c t R with
    | none => .diverges
    | some r => .root r

/-! ### ModSqrt (mathutil.go:357-389) -/

def modSqrtAux (a : Int) : List Int → (first : Bool) → (res n : Int) → SqrtResult
  | [], _, res, _ => .root res.toNat
  | fac :: rest, first, res, n =>
    let loc : SqrtResult :=
      if fac = 4 then
        -- a.Bit(1), a.Bit(0): two's complement bits, i.e. the bits of `a mod 4` (Euclidean)
        let low := (a % 4).toNat
        if low / 2 % 2 ≠ 0 then .noRoot
        else if low % 2 = 0 then .root 2 else .root 1
      else primeSqrt (a % fac).toNat fac.toNat
    match loc with
    | .root r =>
      if first then modSqrtAux a rest false r (n * fac)
      else match crt res n r fac with
        | none => .diverges  -- Go panics: factors not coprime
        | some x => modSqrtAux a rest false x (n * fac)
    | other => other

/-- `common.ModSqrt(a, factors)`. -/
def modSqrt (a : Int) (factors : List Int) : SqrtResult := modSqrtAux a factors true 0 1

/-! ### SumFourSquares wrapper (mathutil.go:155-217); the randomised inner routine is a parameter -/

abbrev Quad := Int × Int × Int × Int

/-- number of right shifts performed by the `n ≡ 0 (mod 4)` branch, and the shifted value. -/
def shiftToTwoMod4 (fuel : Nat) (temp : Nat) (d : Nat) : Nat × Nat :=
  match fuel with
  | 0 => (temp, d)
  | fuel + 1 => if temp % 4 = 2 then (temp, d) else shiftToTwoMod4 fuel (temp / 2) (d + 1)

/-- `SumFourSquares(n)` given the result `special` of `sumFourSquaresSpecial` on the argument the
    wrapper derives. Mirrors the three residue cases. -/
def sumFourSquaresWith (special : Nat → Quad) (n : Nat) : Quad :=
  if n = 0 then (0, 0, 0, 0) else
  if n % 4 = 2 then special n
  else if n % 4 = 0 then
    let (temp, d) := shiftToTwoMod4 (natBitLen n + 1) (n / 2) 1
    let (temp, d) := if d % 2 = 1 then (temp / 2, d + 1) else (temp, d)
    -- recursive call: temp is now odd or ≡ 2 (mod 4); the Go code recurses into SumFourSquares
    let (x, y, z, w) :=
      if temp = 0 then ((0, 0, 0, 0) : Quad)
      else if temp % 4 = 2 then special temp
      else
        -- odd case below, inlined (the recursion depth is at most 1 more)
        let (x, y, z, w) := special (2 * temp)
        let (y, z, w) := if x % 2 ≠ y % 2 then (if x % 2 = z % 2 then (z, y, w) else (w, z, y)) else (y, z, w)
        let (x, y) := if x < y then (y, x) else (x, y)
        let (z, w) := if z < w then (w, z) else (z, w)
        ((x + y) / 2, (x - y) / 2, (z + w) / 2, (z - w) / 2)
    (x * 2 ^ (d / 2), y * 2 ^ (d / 2), z * 2 ^ (d / 2), w * 2 ^ (d / 2))
  else
    let (x, y, z, w) := special (2 * n)
    let (y, z, w) := if x % 2 ≠ y % 2 then (if x % 2 = z % 2 then (z, y, w) else (w, z, y)) else (y, z, w)
    let (x, y) := if x < y then (y, x) else (x, y)
    let (z, w) := if z < w then (w, z) else (z, w)
    ((x + y) / 2, (x - y) / 2, (z + w) / 2, (z - w) / 2)

/-- the argument on which the wrapper calls the inner routine (0 = not called). -/
def sumFourSquaresInnerArg (n : Nat) : Nat :=
  if n = 0 then 0 else
  if n % 4 = 2 then n
  else if n % 4 = 0 then
    let (temp, d) := shiftToTwoMod4 (natBitLen n + 1) (n / 2) 1
    let temp := if d % 2 = 1 then temp / 2 else temp
    if temp = 0 then 0 else if temp % 4 = 2 then temp else 2 * temp
  else 2 * n

/-! ### FastMod (fastmod.go) -/

structure FastMod where
  enabled : Bool
  p : Nat
  c : Nat
  b : Nat
deriving Repr

def FastMod.set (p : Nat) : FastMod :=
  let b := natBitLen p
  let c := 2 ^ b - p
  { enabled := natBitLen c < 60, p := p, c := c, b := b }

def fastModLoop (fuel : Nat) (b c : Nat) (cur : Nat) : Nat :=
  match fuel with
  | 0 => cur
  | fuel + 1 =>
    let carry := cur / 2 ^ b
    if carry = 0 then cur else fastModLoop fuel b c (cur % 2 ^ b + carry * c)

/-- `FastMod.Mod(ret, x)`. -/
def FastMod.mod (m : FastMod) (x : Int) : Int :=
  if !m.enabled then x % (m.p : Int)
  else if x < 0 then x % (m.p : Int)
  else if x < m.p then x
  else
    let xn := x.toNat
    if xn / 2 ^ m.b = 0 then (xn - m.p : Nat)
    else
      let r := fastModLoop (natBitLen xn + 1) m.b m.c xn
      if r ≥ m.p then (r - m.p : Nat) else r

/-! ### RandomPrimeInRange (randomprime.go): the set of possible outputs -/

/-- candidate filter of `RandomPrimeInRange(start, length)` applied to offset bytes. -/
def randomPrimeCandidateOk (smallPrimes : List Nat) (product : Nat) (start : Nat) (p : Nat) : Bool :=
  let md := p % product
  !(smallPrimes.any (fun q => md % q = 0 && (start > 6 || md ≠ q)))

/-- membership predicate for outputs of `RandomPrimeInRange(rand, start, length)`. -/
def randomPrimeInRangeOk (start length p : Nat) : Bool :=
  decide (2 ^ start < p) && decide (p < 2 ^ start + 2 ^ length) && decide (p % 2 = 1) && probablyPrime p

/-! ### zkproof.Group.Exp exponent folding (group.go:50-70) -/

/-- `Group.Exp` folds a negative exponent by the group order; `none` = the Go code panics
    ("scalar out of bounds"). -/
def groupFoldExp (exp order : Int) : Option Int :=
  let e := if exp < 0 then exp + order else exp
  if e ≥ order then none else some e

def safePrimeOk (x : Nat) : Bool := decide (x > 2) && probablyPrime x && probablyPrime (x / 2)

end Gabi
