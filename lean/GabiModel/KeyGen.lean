/-
  GabiModel.KeyGen — issuer key generation (property C16):
    safeprime/safeprime.go   prepareBytes, the candidate test of Generate
    gabikeys/keys.go         findMatch, generateSafePrimePair (receive loop), GenerateKeyPair,
                             GenerateRevocationKeypair
    keyproof/validkeyproof.go:96-113   CanProve
  and the decidable predicate `failures` (= `KeyPairWellFormed` when empty) that the correspondence
  run evaluates on every generated key pair.  Core-only, executable, total.
-/
import GabiModel.Num
import GabiModel.MathUtil
import GabiModel.Keys
namespace Gabi.KeyGen
open Gabi

/-! ### safeprime.prepareBytes (safeprime.go:158-177) -/

/-- `bytes[len-1] |= 1`. -/
def orLast : List UInt8 → List UInt8
  | [] => []
  | [z] => [z ||| 1]
  | x :: y :: rest => x :: orLast (y :: rest)

/-- first byte for `b ≥ 2`: `bytes[0] &= uint8(int(1<<b) - 1); bytes[0] |= 3 << (b - 2)`. -/
def headFix (x : UInt8) (b : Nat) : UInt8 :=
  (x &&& ((2 ^ b - 1) % 256).toUInt8) ||| ((3 <<< (b - 2)) % 256).toUInt8

/-- first byte for `b = 1` (`b < 2`): mask, then `|= 1`. -/
def headFix1 (x : UInt8) (b : Nat) : UInt8 :=
  (x &&& ((2 ^ b - 1) % 256).toUInt8) ||| 1

/-- `prepareBytes(bytes, b)`; the Go code indexes `bytes[0]`, i.e. panics on an empty slice
    (never called that way: `Generate` allocates `(bitsize+7)/8 ≥ 1` bytes) – modelled as `[]`. -/
def prepareBytes (bytes : List UInt8) (b : Nat) : List UInt8 :=
  match bytes with
  | [] => []
  | x :: rest =>
    orLast (
      if b ≥ 2 then headFix x b :: rest
      else match rest with
        | [] => [headFix1 x b]
        | y :: r => headFix1 x b :: (y ||| 0x80) :: r)

/-- the `b` that `Generate(bitsize)` passes: number of bits of `q` in the top byte, where
    `q` has `bitsize - 1` bits. -/
def topBits (qbits : Nat) : Nat := if qbits % 8 = 0 then 8 else qbits % 8

/-- candidate test of `Generate` after the small-prime sieve: `2^(2q) mod (2q+1) = 1` and `q`
    prime (`isPrime` stands for `ProbablyPrime(40)`). -/
def candidateOk (isPrime : Nat → Bool) (q : Nat) : Bool :=
  powMod 2 (2 * q) (2 * q + 1) == 1 && isPrime q

/-! ### gabikeys.findMatch and the receive loop of generateSafePrimePair (keys.go:385-434) -/

/-- `findMatch(safeprimes, param, p, …)`: first stored `q` with `bitlen(p*q) = Ln` and
    `p mod 8 ≠ q mod 8`; `none` = Go's nil. -/
def findMatch (safeprimes : List Nat) (ln : Nat) (p : Nat) : Option Nat :=
  safeprimes.find? (fun q => natBitLen (p * q) == ln && p % 8 != q % 8)

/-- one iteration of the `case p = <-ints` branch: either the new list of stored candidates
    or the pair `(p, q)` that is returned. -/
def pairStep (ln : Nat) (stored : List Nat) (p : Nat) : List Nat ⊕ (Nat × Nat) :=
  if (p / 2) % 8 = 1 then .inl stored else
  match findMatch stored ln p with
  | some q => .inr (p, q)
  | none => .inl (stored ++ [p])

/-- the receive loop over the sequence of safe primes delivered by the workers. -/
def pairLoop (ln : Nat) : List Nat → List Nat → Option (Nat × Nat)
  | _, [] => none
  | stored, p :: rest =>
    match pairStep ln stored p with
    | .inr r => some r
    | .inl st => pairLoop ln st rest

/-- the conditions the loop enforces on a returned pair. -/
def pairFilter (ln p q : Nat) : Bool :=
  (p / 2) % 8 != 1 && (q / 2) % 8 != 1 && p % 8 != q % 8 && natBitLen (p * q) == ln

/-! ### keyproof.CanProve (validkeyproof.go:96-113) -/

/-- the six residue conditions. -/
def canProveResidues (pP qP : Nat) : Bool :=
  let P := 2 * pP + 1
  let Q := 2 * qP + 1
  P % 8 != 1 && Q % 8 != 1 && pP % 8 != 1 && qP % 8 != 1 && P % 8 != Q % 8 && pP % 8 != qP % 8

/-- `CanProve(Pprime, Qprime)` for non-negative arguments. -/
def canProve (pP qP : Nat) : Bool :=
  safePrimeOk (2 * pP + 1) && safePrimeOk (2 * qP + 1) && canProveResidues pP qP

/-! ### GenerateKeyPair after the primes are chosen (keys.go:437-526), random draws as inputs -/

/-- loop condition for `S`: a draw below `2^Ln` is kept when `s ≤ n` and both Legendre symbols are 1. -/
def sAccepted (ln p q s : Nat) : Bool :=
  decide (s < 2 ^ ln) && !decide (s > p * q) &&
    legendreSymbol s p == 1 && legendreSymbol s q == 1

/-- loop condition for the exponents of `Z` and `R_i`: a draw below `2^(Ln/2)` with `2 < x < n`. -/
def xAccepted (ln n x : Nat) : Bool := decide (x < 2 ^ (ln / 2)) && decide (2 < x) && decide (x < n)

/-- `common.RandomQR(n)` on the draw `r`: kept when coprime to `n`, result `r² mod n`. -/
def randomQR (n r : Nat) : Option Nat := if Nat.gcd r n = 1 then some (r * r % n) else none

/-- the public bases computed from accepted draws. -/
structure Bases where
  s : Nat
  z : Nat
  r : List Nat
deriving Repr, DecidableEq

def deriveBases (n s xZ : Nat) (xR : List Nat) : Bases :=
  { s := s, z := powMod s xZ n, r := xR.map (fun x => powMod s x n) }

/-! ### NIST P-256 (the revocation key pair is an ECDSA key on this curve) -/

namespace P256
def p : Nat := 0xffffffff00000001000000000000000000000000ffffffffffffffffffffffff
def b : Nat := 0x5ac635d8aa3a93e7b3ebbd55769886bc651d06b0cc53b0f63bce3c3e27d2604b
def gx : Nat := 0x6b17d1f2e12c4247f8bce6e563a440f277037d812deb33a0f4a13945d898c296
def gy : Nat := 0x4fe342e2fe1a7f9b8ee7eb4a7c0f9e162bce33576b315ececbb6406837bf51f5
def order : Nat := 0xffffffff00000000ffffffffffffffffbce6faada7179e84f3b9cac2fc632551

def inv (a : Nat) : Nat :=
  match goModInverse (a : Int) (p : Int) with
  | some i => i.toNat
  | none => 0

def onCurve (x y : Nat) : Bool :=
  decide (x < p) && decide (y < p) && (y * y % p == (x * x % p * x + (p - 3) * x + b) % p)

/-- Jacobian coordinates `(X, Y, Z)` for the affine point `(X/Z², Y/Z³)`; `Z = 0` = infinity. -/
structure J where
  x : Int
  y : Int
  z : Int

def J.inf : J := ⟨1, 1, 0⟩

/-- doubling (`a = -3`). -/
def double (P : J) : J :=
  let pp : Int := p
  if P.z = 0 ∨ P.y = 0 then J.inf else
  let y2 := P.y * P.y % pp
  let s := 4 * P.x * y2 % pp
  let z2 := P.z * P.z % pp
  let m := (3 * P.x * P.x - 3 * z2 * z2) % pp
  let x' := (m * m - 2 * s) % pp
  ⟨x', (m * (s - x') - 8 * y2 * y2) % pp, 2 * P.y * P.z % pp⟩

/-- addition of the affine point `(ax, ay)`. -/
def addAffine (P : J) (ax ay : Int) : J :=
  let pp : Int := p
  if P.z = 0 then ⟨ax, ay, 1⟩ else
  let z2 := P.z * P.z % pp
  let u2 := ax * z2 % pp
  let s2 := ay * z2 % pp * P.z % pp
  let h := (u2 - P.x) % pp
  let r := (s2 - P.y) % pp
  if h = 0 then (if r = 0 then double P else J.inf) else
  let h2 := h * h % pp
  let h3 := h2 * h % pp
  let u1h2 := P.x * h2 % pp
  let x3 := (r * r - h3 - 2 * u1h2) % pp
  ⟨x3, (r * (u1h2 - x3) - P.y * h3) % pp, h * P.z % pp⟩

/-- `k·(ax, ay)`, double-and-add from the most significant bit; `none` = infinity. -/
def mul (k : Nat) (ax ay : Nat) : Option (Nat × Nat) :=
  let acc := (List.range (natBitLen k)).reverse.foldl
    (fun (acc : J) i => let d := double acc; if k.testBit i then addAffine d ax ay else d) J.inf
  if acc.z = 0 then none else
  let zi := inv acc.z.toNat
  let zi2 := zi * zi % p
  some (acc.x.toNat * zi2 % p, acc.y.toNat * (zi2 * zi % p) % p)

/-- the public point belongs to the private scalar. -/
def keyMatches (d x y : Nat) : Bool :=
  decide (0 < d) && decide (d < order) && onCurve x y && (mul d gx gy == some (x, y))
end P256

/-! ### the predicate on a generated key pair -/

/-- everything `GenerateKeyPair` returned, plus what the harness observed around the call. -/
structure KeyPairData where
  ln : Nat
  nattr : Nat
  base : Gen.BaseParams
  params : SysParams
  p : Nat
  q : Nat
  pPrime : Nat
  qPrime : Nat
  skN : Nat
  order : Nat
  n : Nat
  s : Nat
  z : Nat
  g : Nat
  h : Nat
  r : List Nat
  ecD : Nat
  ecX : Nat
  ecY : Nat
  leaked : Nat
deriving Repr

/-- a base is a quadratic residue modulo `n = p·q` (and a unit): in range, Legendre symbol 1
    modulo both primes. -/
def isQR (p q x : Nat) : Bool :=
  decide (0 < x) && decide (x < p * q) && legendreSymbol x p == 1 && legendreSymbol x q == 1

/-- order of a quadratic residue `s` in the cyclic group `QR_n` of order `p'·q'`
    (`p'`, `q'` distinct primes): one of `1, p', q', p'·q'`. -/
def qrOrder (n pP qP s : Nat) : Nat :=
  if s % n = 1 % n then 1
  else if powMod s pP n = 1 then pP
  else if powMod s qP n = 1 then qP
  else pP * qP

/-- `x ∈ ⟨s⟩` inside `QR_n`: in a cyclic group the subgroup of order `d` is `{y | y^d = 1}`. -/
def inSubgroup (p q pP qP s x : Nat) : Bool :=
  isQR p q x && powMod x (qrOrder (p * q) pP qP s) (p * q) == 1 % (p * q)

/-- the conditions with their names, in a fixed order. -/
def checks (d : KeyPairData) : List (Bool × String) := [
  (d.p != d.q, "distinct"),
  (safePrimeOk d.p, "p-safeprime"),
  (safePrimeOk d.q, "q-safeprime"),
  (d.pPrime == (d.p - 1) / 2 && d.qPrime == (d.q - 1) / 2, "primes-halves"),
  (natBitLen d.p == d.ln / 2 && natBitLen d.q == d.ln / 2, "prime-length"),
  (d.n == d.p * d.q && d.skN == d.n, "modulus"),
  (natBitLen d.n == d.ln, "modulus-length"),
  (d.order == d.pPrime * d.qPrime, "order"),
  (d.p % 8 != d.q % 8, "p-q-mod8"),
  (d.pPrime % 8 != 1 && d.qPrime % 8 != 1, "pprime-mod8"),
  (canProve d.pPrime d.qPrime, "canprove"),
  (isQR d.p d.q d.s, "S-qr"),
  (isQR d.p d.q d.z, "Z-qr"),
  (d.r.all (isQR d.p d.q), "R-qr"),
  (isQR d.p d.q d.g, "G-qr"),
  (isQR d.p d.q d.h, "H-qr"),
  (inSubgroup d.p d.q d.pPrime d.qPrime d.s d.z, "Z-subgroup"),
  (d.r.all (inSubgroup d.p d.q d.pPrime d.qPrime d.s), "R-subgroup"),
  (d.r.length == d.nattr, "R-count"),
  (d.base.Ln == d.ln && d.params == SysParams.ofBase d.base, "params"),
  (P256.keyMatches d.ecD d.ecX d.ecY, "revocation-key"),
  (d.leaked == 0, "workers-left")]

/-- names of the violated conditions (empty = well-formed). -/
def failures (d : KeyPairData) : List String := ((checks d).filter (fun c => !c.1)).map (·.2)

/-- `KeyPairWellFormed`. -/
def wellFormed (d : KeyPairData) : Bool := (failures d).isEmpty

end Gabi.KeyGen
