/-
  GabiModel.Keyshare — the keyshare server's second move (keyshare.go:152-200) and the
  randomiser length rule (keyshare.go:215-251).
  The CBOR encoding + SHA-256 of the challenge input (`h_W`) is external: whether the recomputed
  hash equals the committed one is the parameter `hashMatches`.
-/
import GabiModel.Proofs
namespace Gabi

structure KsInput where
  keyId : Option String
  value : Int
  commitment : Int
  others : List Int
deriving Repr, DecidableEq

/-- `KeyshareResponse(secret, randomizer, commRequest, responseRequest, keys)`:
    `none` = error (no response released); `some (c, totalResponse)`. -/
def keyshareResponse (keys : List (String × PublicKey)) (secret randomizer : Int) (hashMatches : Bool)
    (context : Option Int) (nonce userResponse : Int) (issig : Bool) (inputs : List KsInput) :
    Option (Nat × Int) := do
  -- sanity: every non-nil key id must be known
  if inputs.any (fun i => match i.keyId with
      | some id => (keys.lookup id).isNone
      | none => false) then none
  let ctx := context.getD 1
  let contribs ← inputs.mapM fun i =>
    match i.keyId with
    | none => some (i.value :: i.commitment :: i.others)
    | some id => do
      let pk ← keys.lookup id
      let r0 ← pk.r[0]?
      let w ← goExp r0 randomizer pk.n
      some (i.value :: (i.commitment * w % pk.n) :: i.others)
  if !hashMatches then none
  let c := createChallenge ctx nonce contribs.flatten issig
  pure (c, randomizer + c * secret + userResponse)

/-- `NewKeyshareCommitments`: randomiser length by key sizes; `none` = error (secret too big for
    1024-bit keys). `lm1024`/`lmCommit1024`/`lmCommit2048` are the regenerated parameters. -/
def keyshareRandomizerLength (keyBits : List Nat) (secretBits : Nat) (lm1024 lmCommit1024 lmCommit2048 : Nat) : Option Nat :=
  if keyBits.contains 1024 then
    if secretBits > lm1024 - 1 then none else some lmCommit1024
  else some lmCommit2048

end Gabi
