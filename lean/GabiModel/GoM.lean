/-
  GabiModel.GoM — the monad of the verification paths: Go panics (nil dereference, index out of
  range, write to nil map) are modelled explicitly; property C08 is the theorem that the
  verification entry points never return `.error`.
-/
namespace Gabi

inductive GoPanic where
  | nilDeref (what : String)
  | indexOutOfRange (what : String)
  | nilMapWrite (what : String)
  | other (what : String)
deriving Repr, DecidableEq

abbrev GoM := Except GoPanic

/-- dereference a nil-able pointer. -/
def deref {α} (what : String) : Option α → GoM α
  | some a => pure a
  | none => throw (.nilDeref what)

/-- slice indexing `l[i]` with Go's bounds check (`i : Int` because map keys are signed). -/
def idx {α} (what : String) (l : List α) (i : Int) : GoM α :=
  if i < 0 then throw (.indexOutOfRange what) else
  match l[i.toNat]? with
  | some a => pure a
  | none => throw (.indexOutOfRange what)

end Gabi
