/-
  GabiModel.KeyProof — package keyproof (proof of correct generation of an issuer key) and
  zkproof/representationproof.go, zkproof/group.go.  Core-only, executable, total.

  Modelled here (property C17):
  * the four Gennaro–Micciancio–Rabin component proofs (squarefree.go, primepowerproduct.go,
    disjointprimeproduct.go, almostsafeprimeproduct.go): verifiers, structure checks and the
    deterministic provers, and their composition quasisafeprimeproduct.go;
  * the representation proof interpreter (RepresentationProofStructure) generically over a
    group given by its operations (instantiated with integers modulo the group prime for
    execution and with an abstract commutative group for the theorems);
  * Pedersen commitments, the range proof (rangeproof.go), the multiplication proof, the two
    branches of an exponentiation step and their OR-composition (expstep*.go);
  * the composition of the single Fiat–Shamir input of ValidKeyProofStructure.VerifyProof and
    the lengths of its parts.
  NOT modelled: exp.go, primeproof.go, issquareproof.go and the top of validkeyproof.go as
  executable verifiers (the composed proof tree).  `Verdict.panic` = the Go code panics.
-/
import GabiModel.Num
import GabiModel.HashTool
import GabiModel.MathUtil
import GabiModel.Generated
namespace Gabi.KeyProof
open Gabi

inductive Verdict where
  | accept
  | reject
  | panic
deriving DecidableEq, Repr

def Verdict.toString : Verdict → String
  | .accept => "accept" | .reject => "reject" | .panic => "panic"

/-- run the rounds in order, stop at the first one that does not accept (Go: early `return false`,
    or a panic propagating). -/
def firstFailure : List Nat → (Nat → Verdict) → Verdict
  | [], _ => .accept
  | i :: is, f => match f i with
    | .accept => firstFailure is f
    | v => v

/-- all entries present (`none` = some round panicked). -/
def collect {α : Type} : List (Option α) → Option (List α)
  | [] => some []
  | none :: _ => none
  | some x :: rest => match collect rest with
    | some xs => some (x :: xs)
    | none => none

/-- `(List.range k).map f` with all results present. -/
def rounds {α : Type} (k : Nat) (f : Nat → Option α) : Option (List α) :=
  collect ((List.range k).map f)

/-- sequential `&&` of verdicts (short-circuit). -/
def Verdict.andThen (a : Verdict) (b : Unit → Verdict) : Verdict :=
  match a with
  | .accept => b ()
  | v => v

def ofBool (b : Bool) : Verdict := if b then .accept else .reject

/-! ### Gennaro component proofs -/

/-- `curc := GetHashNumber(challenge, index, i, N.BitLen()); curc.Mod(curc, N)`  (N ≠ 0). -/
def roundChallenge (challenge index : Int) (i : Nat) (n : Int) : Int :=
  (getHashNumber (some challenge) (some index) (Int.ofNat i) (bitLen n) : Int) % n

/-- `*VerifyStructure` of the three response-list proofs: list present, right length, no nil. -/
def responsesStructure (iters : Nat) (rs : Option (List (Option Int))) : Bool :=
  match rs with
  | none => false
  | some l => l.length == iters && l.all Option.isSome

def unwrap (l : List (Option Int)) : List Int := l.filterMap id

/-- `squareFreeVerifyProof(N, challenge, index, proof)`: every response is an N-th root of the
    round challenge. -/
def squareFreeVerifyProof (n challenge index : Int) (rs : List Int) : Verdict :=
  if n = 0 then .panic else
  if rs.length ≠ Gen.kp_squareFreeIters then .reject else
  firstFailure (List.range Gen.kp_squareFreeIters) fun i =>
    match rs[i]? with
    | none => .panic
    | some r =>
      match goExp r n n with
      | none => .panic   -- Exp returned nil (negative modulus/exponent without inverse); Cmp on nil
      | some v => ofBool (v = roundChallenge challenge index i n)

def squareFreeVerify (n challenge index : Int) (rs : Option (List (Option Int))) : Verdict :=
  if !responsesStructure Gen.kp_squareFreeIters rs then .reject
  else squareFreeVerifyProof n challenge index (unwrap (rs.getD []))

/-- `squareFreeBuildProof(N, phiN, challenge, index)`; `none` = panic. -/
def squareFreeBuild (n phi challenge index : Int) : Option (List Int) :=
  if n = 0 then none else
  match goModInverse n phi with
  | none => none
  | some m =>
    rounds Gen.kp_squareFreeIters fun i =>
      let c := roundChallenge challenge index i n
      if Nat.gcd c.natAbs n.natAbs ≠ 1 then none else goExp c m n

/-- one round of `primePowerProductVerifyProof`. -/
def pppRoundOk (n c r : Int) : Bool :=
  match goExp r 2 n with
  | none => false
  | some result =>
    result = c || result = (-c) % n || result = (2 * c) % n || result = (-(2 * c)) % n

/-- `primePowerProductVerifyProof`: each response squares to one of ±c, ±2c. -/
def primePowerProductVerifyProof (n challenge index : Int) (rs : List Int) : Verdict :=
  if n = 0 then .panic else
  firstFailure (List.range Gen.kp_primePowerProductIters) fun i =>
    match rs[i]? with
    | none => .panic
    | some r => ofBool (pppRoundOk n (roundChallenge challenge index i n) r)

def primePowerProductVerify (n challenge index : Int) (rs : Option (List (Option Int))) : Verdict :=
  if !responsesStructure Gen.kp_primePowerProductIters rs then .reject
  else primePowerProductVerifyProof n challenge index (unwrap (rs.getD []))

def sqrtRoot? : SqrtResult → Option Int
  | .root r => some (Int.ofNat r)
  | _ => none

/-- the response of one round of `primePowerProductBuildProof`, given a square-root routine
    (`common.ModSqrt(·, [P, Q])` in the code). -/
def pppResponse (sqrt : Int → Option Int) (n c : Int) : Option Int :=
  let c2 := (-c) % n
  match sqrt c with
  | some r => some r
  | none => match sqrt c2 with
    | some r => some r
    | none => match sqrt ((2 * c) % n) with
      | some r => some r
      | none => sqrt ((2 * c2) % n)

/-- `primePowerProductBuildProof(P, Q, challenge, index)`; `none` = panic. -/
def primePowerProductBuild (p q challenge index : Int) : Option (List Int) :=
  let n := p * q
  if n = 0 then none else
  rounds Gen.kp_primePowerProductIters fun i =>
    let c := roundChallenge challenge index i n
    if Nat.gcd c.natAbs n.natAbs ≠ 1 then none
    else pppResponse (fun a => sqrtRoot? (modSqrt a [p, q])) n c

/-- the odd part of `N - 1` (`for oddN.Bit(0) == 0 { oddN.Rsh(oddN, 1) }`), N ≥ 2. -/
def oddPartPred (n : Int) : Int := Int.ofNat (stripTwos (n - 1).toNat).1

/-- `disjointPrimeProductVerifyProof`: N is not prime and every response is an odd(N-1)-th root
    of the round challenge.  (The loops run `squareFreeIters` times, as in the code.) -/
def disjointPrimeProductVerifyProof (n challenge index : Int) (rs : List Int) : Verdict :=
  if n > 0 ∧ probablyPrime n.toNat then .reject else
  if n ≤ 1 then .panic else   -- n = 1: the Go loop does not terminate; n ≤ 0: outside the domain
  let oddN := oddPartPred n
  firstFailure (List.range Gen.kp_squareFreeIters) fun i =>
    match rs[i]? with
    | none => .panic
    | some r =>
      match goExp r oddN n with
      | none => .panic
      | some v => ofBool (v = roundChallenge challenge index i n)

def disjointPrimeProductVerify (n challenge index : Int) (rs : Option (List (Option Int))) : Verdict :=
  if !responsesStructure Gen.kp_disjointPrimeProductIters rs then .reject
  else disjointPrimeProductVerifyProof n challenge index (unwrap (rs.getD []))

/-- `disjointPrimeProductBuildProof(P, Q, challenge, index)`; `none` = panic. -/
def disjointPrimeProductBuild (p q challenge index : Int) : Option (List Int) :=
  let n := p * q
  if n ≤ 1 then none else
  let phi := (p - 1) * (q - 1)
  match goModInverse (oddPartPred n) phi with
  | none => none
  | some inv =>
    rounds Gen.kp_squareFreeIters fun i =>
      let c := roundChallenge challenge index i n
      if Nat.gcd c.natAbs n.natAbs ≠ 1 then none else goExp c inv n

/-- `AlmostSafePrimeProductProof`. -/
structure AsppProof where
  nonce : Option Int
  commitments : Option (List (Option Int))
  responses : Option (List (Option Int))

def asppStructure (pr : AsppProof) : Bool :=
  pr.nonce.isSome &&
  responsesStructure Gen.kp_almostSafePrimeProductIters pr.commitments &&
  responsesStructure Gen.kp_almostSafePrimeProductIters pr.responses

/-- base of round `i`: `GetHashNumber(nonce, nil, i, N.BitLen()) mod N`. -/
def asppBase (nonce : Int) (i : Nat) (n : Int) : Int :=
  (getHashNumber (some nonce) none (Int.ofNat i) (bitLen n) : Int) % n

/-- exponent challenge of round `i`: `GetHashNumber(challenge, index, i, 2*N.BitLen())`. -/
def asppX (challenge index : Int) (i : Nat) (n : Int) : Int :=
  (getHashNumber (some challenge) (some index) (Int.ofNat i) (2 * bitLen n) : Int)

/-- `z.Exp(z, y, N)` used as a statement: when no result exists (negative exponent, base not
    invertible) Go leaves `z` unchanged. -/
def expInPlace (z y n : Int) : Int := (goExp z y n).getD z

/-- one round of `almostSafePrimeProductVerifyProof`. -/
def asppRound (n gamma base x com r : Int) : Verdict :=
  match goExp base x n, goExp base gamma n with
  | some bx, some t0 =>
    let y := (com * bx) % n
    match goExp y gamma n with
    | none => .panic
    | some yg =>
      let t1 := expInPlace (expInPlace t0 r n) r n
      match goModInverse t1 n, goExp t1 2 n with
      | some t2, some t3 =>
        match goModInverse t3 n with
        | some t4 => ofBool (t1 = yg || t2 = yg || t3 = yg || t4 = yg)
        | none => .panic
      | _, _ => .panic   -- nil.Cmp
  | _, _ => .panic

/-- `almostSafePrimeProductVerifyProof(N, challenge, index, proof)`. -/
def almostSafePrimeProductVerifyProof (n challenge index nonce : Int) (coms rs : List Int) : Verdict :=
  if n = 0 then .panic else
  if n % 3 ≠ 1 then .reject else
  let gamma : Int := 2 ^ bitLen n
  firstFailure (List.range Gen.kp_almostSafePrimeProductIters) fun i =>
    match coms[i]?, rs[i]? with
    | some com, some r => asppRound n gamma (asppBase nonce i n) (asppX challenge index i n) com r
    | _, _ => .panic

def almostSafePrimeProductVerify (n challenge index : Int) (pr : AsppProof) : Verdict :=
  if !asppStructure pr then .reject
  else almostSafePrimeProductVerifyProof n challenge index (pr.nonce.getD 0)
    (unwrap (pr.commitments.getD [])) (unwrap (pr.responses.getD []))

/-- the response of one round of `almostSafePrimeProductBuildProof` given a square-root routine
    modulo `p'·q'`; `none` = panic. -/
def asppResponse (sqrt : Int → Option Int) (phi odd log x : Int) : Option Int :=
  let lg := (log + x) % phi
  let x1 := lg % odd
  let x2 := odd - x1
  match goModInverse 2 odd with
  | none => none
  | some inv2 =>
    let x3 := (inv2 * x1) % odd
    let x4 := odd - x3
    match sqrt x1 with
    | some r => some r
    | none => match sqrt x2 with
      | some r => some r
      | none => match sqrt x3 with
        | some r => some r
        | none => sqrt x4

/-- `almostSafePrimeProductBuildProof` on a given commitment stage (nonce, logs). -/
def almostSafePrimeProductBuild (pp qp challenge index : Int) (logs : List Int) : Option (List Int) :=
  let n := (2 * pp + 1) * (2 * qp + 1)
  let phi := 4 * (pp * qp)
  let odd := pp * qp
  rounds Gen.kp_almostSafePrimeProductIters fun i =>
    match logs[i]? with
    | none => none
    | some lg => asppResponse (fun a => sqrtRoot? (modSqrt a [pp, qp])) phi odd lg (asppX challenge index i n)

/-- `QuasiSafePrimeProductProof`. -/
structure QsppProof where
  sf : Option (List (Option Int))
  ppp : Option (List (Option Int))
  dpp : Option (List (Option Int))
  aspp : AsppProof

def qsppStructure (pr : QsppProof) : Bool :=
  responsesStructure Gen.kp_squareFreeIters pr.sf &&
  responsesStructure Gen.kp_primePowerProductIters pr.ppp &&
  responsesStructure Gen.kp_disjointPrimeProductIters pr.dpp &&
  asppStructure pr.aspp

/-- the minimum-factor rule: `gcd(N, i) = 1` for `2 ≤ i < minimumFactor`. -/
def noSmallFactor (n : Int) : Bool :=
  (List.range Gen.kp_minimumFactor).all fun i => i < 2 || Nat.gcd n.natAbs i == 1

/-- `quasiSafePrimeProductVerifyProof(N, challenge, proof)`: N = 5 mod 8, no factor below 1024, the
    four component proofs with indices 0..3. -/
def quasiSafePrimeProductVerifyProof (n challenge : Int) (pr : QsppProof) : Verdict :=
  if n % 8 ≠ 5 then .reject else
  if !noSmallFactor n then .reject else
  (squareFreeVerifyProof n challenge 0 (unwrap (pr.sf.getD []))).andThen fun _ =>
  (primePowerProductVerifyProof n challenge 1 (unwrap (pr.ppp.getD []))).andThen fun _ =>
  (disjointPrimeProductVerifyProof n challenge 2 (unwrap (pr.dpp.getD []))).andThen fun _ =>
  almostSafePrimeProductVerifyProof n challenge 3 (pr.aspp.nonce.getD 0)
    (unwrap (pr.aspp.commitments.getD [])) (unwrap (pr.aspp.responses.getD []))

def quasiSafePrimeProductVerify (n challenge : Int) (pr : QsppProof) : Verdict :=
  if !qsppStructure pr then .reject else quasiSafePrimeProductVerifyProof n challenge pr

/-- `keyproof.CanProve(Pprime, Qprime)` (primality through the executable oracle). -/
def canProve (pp qp : Int) : Bool :=
  let p := 2 * pp + 1
  let q := 2 * qp + 1
  decide (0 < pp) && decide (0 < qp) && safePrimeOk p.toNat && safePrimeOk q.toNat &&
  decide (p % 8 ≠ 1) && decide (q % 8 ≠ 1) && decide (pp % 8 ≠ 1) && decide (qp % 8 ≠ 1) &&
  decide (p % 8 ≠ q % 8) && decide (pp % 8 ≠ qp % 8)

/-! ### The representation proof interpreter (zkproof/representationproof.go) -/

structure LhsContribution where
  base : String
  power : Int
deriving Repr

structure RhsContribution where
  base : String
  secret : String
  power : Int
deriving Repr

structure ReprStructure where
  lhs : List LhsContribution
  rhs : List RhsContribution
deriving Repr

/-- what the interpreter uses of the group. `pow` is exponentiation by an integer. -/
structure GroupOps (G : Type) where
  one : G
  mul : G → G → G
  pow : G → Int → G

/-- a named base: its value and whether it is one of the group's own generators `g`, `h`
    (whose `Exp` folds a negative exponent by the order once and panics beyond the order). -/
structure NamedBase (G : Type) where
  val : G
  isGenerator : Bool

abbrev BaseLookup (G : Type) := String → Option (NamedBase G)

/-- `bases.Exp(ret, name, exp, P)`; `none` = panic (generator exponent out of bounds) or a name
    that is not bound (cannot happen for the fixed structures of package keyproof). -/
def baseExp {G : Type} (ops : GroupOps G) (order : Int) (bases : BaseLookup G) (name : String) (e : Int) : Option G :=
  match bases name with
  | none => none
  | some b =>
    if b.isGenerator then
      match groupFoldExp e order with
      | none => none
      | some e' => if e' < 0 then none else some (ops.pow b.val e')
    else some (ops.pow b.val e)

/-- the product over the right-hand side with exponents `power · value(secret) mod order`. -/
def rhsProduct {G : Type} (ops : GroupOps G) (order : Int) (bases : BaseLookup G) (value : String → Option Int)
    (rhs : List RhsContribution) (start : G) : Option G :=
  rhs.foldlM (fun acc r => do
    let v ← value r.secret
    let c ← baseExp ops order bases r.base ((r.power * v) % order)
    pure (ops.mul acc c)) start

/-- the product over the left-hand side `∏ base^power`. -/
def lhsProduct {G : Type} (ops : GroupOps G) (order : Int) (bases : BaseLookup G) (lhs : List LhsContribution) : Option G :=
  lhs.foldlM (fun acc l => do
    let c ← baseExp ops order bases l.base l.power
    pure (ops.mul acc c)) ops.one

/-- `RepresentationProofStructure.CommitmentsFromSecrets`: `∏ base^(power·randomizer)`. -/
def commitFromSecrets {G : Type} (ops : GroupOps G) (order : Int) (bases : BaseLookup G) (randomizer : String → Option Int)
    (s : ReprStructure) : Option G :=
  rhsProduct ops order bases randomizer s.rhs ops.one

/-- `RepresentationProofStructure.CommitmentsFromProof`: `lhs^challenge · ∏ base^(power·result)`. -/
def commitFromProof {G : Type} (ops : GroupOps G) (order : Int) (bases : BaseLookup G) (challenge : Int)
    (result : String → Option Int) (s : ReprStructure) : Option G := do
  let l ← lhsProduct ops order bases s.lhs
  rhsProduct ops order bases result s.rhs (ops.pow l challenge)

/-- `RepresentationProofStructure.IsTrue`: both sides, to be compared by the caller. -/
def reprSides {G : Type} (ops : GroupOps G) (order : Int) (bases : BaseLookup G) (secret : String → Option Int)
    (s : ReprStructure) : Option (G × G) := do
  let l ← lhsProduct ops order bases s.lhs
  let r ← rhsProduct ops order bases secret s.rhs ops.one
  pure (l, r)

/-- `secret.buildProof` (secret.go): the response `randomizer − secret·challenge mod order`. -/
def honestResult (order challenge : Int) (secret randomizer : String → Option Int) : String → Option Int :=
  fun name => match randomizer name, secret name with
    | some r, some s => some ((r - s * challenge) % order)
    | _, _ => none

/-- pointwise difference of two response tables (for the knowledge extractor). -/
def resultDiff (res' res : String → Option Int) : String → Option Int :=
  fun name => match res' name, res name with
    | some a, some b => some (a - b)
    | _, _ => none

def scaleValues (d : Int) (v : String → Option Int) : String → Option Int :=
  fun name => (v name).map (fun x => d * x)

/-! ### The concrete group (zkproof/group.go) -/

structure Group where
  p : Nat
  order : Nat
  g : Nat
  h : Nat
deriving Repr

/-- `zkproof.BuildGroup(prime)`; primality through the executable oracle. -/
def buildGroup (prime : Int) : Option Group :=
  if prime ≤ 0 then none else
  let p := prime.toNat
  if !probablyPrime p then none else
  if !probablyPrime (p / 2) then none else
  some { p := p, order := p / 2, g := powMod 0x41424344 0x45464748 p, h := powMod 0x494A4B4C 0x4D4E4F50 p }

/-- integers modulo the group prime; `pow` is `big.Int.Exp(base, e, P)` (inverse for negative
    exponents; 0 stands for "no result", which needs a base divisible by P). -/
def Group.ops (g : Group) : GroupOps Nat where
  one := 1 % g.p
  mul a b := a * b % g.p
  pow b e := match goExp (Int.ofNat b) e (Int.ofNat g.p) with
    | some v => v.toNat
    | none => 0

def Group.bases (g : Group) : BaseLookup Nat := fun name =>
  if name = "g" then some ⟨g.g, true⟩ else if name = "h" then some ⟨g.h, true⟩ else none

/-- `NewBaseMerge(a, b)`: the first lookup that knows the name wins. -/
def mergeBases {G : Type} (a b : BaseLookup G) : BaseLookup G := fun name =>
  match a name with
  | some v => some v
  | none => b name

def mergeValues (a b : String → Option Int) : String → Option Int := fun name =>
  match a name with
  | some v => some v
  | none => b name

def singleBase {G : Type} (name : String) (v : G) : BaseLookup G := fun n =>
  if n = name then some ⟨v, false⟩ else none

def singleValue (name : String) (v : Int) : String → Option Int := fun n =>
  if n = name then some v else none

def listValues (l : List (String × Int)) : String → Option Int := fun n => l.lookup n

/-! ### Pedersen commitments (pedersen.go) -/

/-- `PedersenProof` (all three parts present: the structure check has passed). -/
structure PedersenProof where
  commit : Int
  sresult : Int
  hresult : Int
deriving Repr

def pedersenRepr (name : String) : ReprStructure :=
  { lhs := [⟨name, 1⟩], rhs := [⟨"g", name, 1⟩, ⟨"h", name ++ "_hider", 1⟩] }

def PedersenProof.base (g : Group) (name : String) (p : PedersenProof) : BaseLookup Nat :=
  singleBase name (p.commit % g.p).toNat

def PedersenProof.results (name : String) (p : PedersenProof) : String → Option Int :=
  listValues [(name, p.sresult), (name ++ "_hider", p.hresult)]

/-- `pedersenStructure.commitmentsFromProof`: the commitment itself, then the representation
    commitment.  Entries of the hash input are integers. -/
def pedersenCommitments (g : Group) (name : String) (challenge : Int) (p : PedersenProof) : Option (List Int) := do
  let bases := mergeBases (p.base g name) g.bases
  let c ← commitFromProof g.ops g.order bases challenge (p.results name) (pedersenRepr name)
  pure [p.commit, Int.ofNat c]

/-! ### Range proof (rangeproof.go) -/

structure RangeStructure where
  repr : ReprStructure
  rangeSecret : String
  l1 : Nat
  l2 : Nat

def pedersenRange (name : String) (l1 l2 : Nat) : RangeStructure :=
  { repr := pedersenRepr name, rangeSecret := name, l1 := l1, l2 := l2 }

/-- `RangeProof.Results` as received: a map (list of pairs) from names to lists with possibly
    nil entries; `none` = nil map. -/
abbrev RangeResults := Option (List (String × List (Option Int)))

/-- `rangeProofStructure.verifyProofStructure`: every right-hand secret has `rangeProofIters`
    non-nil results, and the results of the range secret are below `2^(l2+ε+2)`.
    (There is no lower bound in the code: negative results pass this check.) -/
def rangeVerifyStructure (s : RangeStructure) (res : RangeResults) : Bool :=
  match res with
  | none => false
  | some m =>
    s.repr.rhs.all (fun r =>
      match m.lookup r.secret with
      | none => false
      | some l => l.length == Gen.kp_rangeProofIters && l.all Option.isSome) &&
    (match m.lookup s.rangeSecret with
      | none => true   -- a range secret that is no right-hand secret: nothing to compare
      | some l => l.all fun v => match v with
        | some x => decide (x < 2 ^ (s.l2 + Gen.kp_rangeProofEpsilon + 2))
        | none => true)

/-- bit `i` of a non-negative challenge (`challenge.Bit(i)`). -/
def bitOf (c : Int) (i : Nat) : Int := (c / 2 ^ i) % 2

/-- the result handed to the representation proof in round `i` (`rangeProofResultLookup`). -/
def rangeRoundResult (s : RangeStructure) (bit : Int) (name : String) (r : Int) : Int :=
  if name = s.rangeSecret then
    r - 2 ^ (s.l2 + Gen.kp_rangeProofEpsilon + 1) - (if bit = 1 then 2 ^ s.l1 else 0)
  else r

/-- `rangeProofStructure.commitmentsFromProof`: one representation commitment per round, with
    the round's challenge bit as challenge.  `none` = panic (a list shorter than the rounds). -/
def rangeCommitments {G : Type} (ops : GroupOps G) (order : Int) (bases : BaseLookup G) (s : RangeStructure)
    (challenge : Int) (res : List (String × List Int)) : Option (List G) :=
  rounds Gen.kp_rangeProofIters fun i => do
    let bit := bitOf challenge i
    let round ← res.mapM fun (name, l) => do
      let r ← l[i]?
      pure (name, rangeRoundResult s bit name r)
    commitFromProof ops order bases bit (listValues round) s.repr

def unwrapResults (m : List (String × List (Option Int))) : List (String × List Int) :=
  m.map fun (k, l) => (k, unwrap l)

/-! ### Multiplication proof (multiplicationproof.go) -/

structure MultProof where
  modMult : PedersenProof
  hider : Int
  range : RangeResults

def multName (m1 m2 md result : String) : String := "_".intercalate [m1, m2, md, result, "mul"]

def multRepr (m1 m2 md result : String) : ReprStructure :=
  let my := multName m1 m2 md result
  { lhs := [⟨result, 1⟩],
    rhs := [⟨m2, m1, 1⟩, ⟨md, my ++ "_mod", -1⟩, ⟨"h", my ++ "_hider", 1⟩] }

def multStructureOk (m1 m2 md result : String) (l : Nat) (p : MultProof) : Bool :=
  rangeVerifyStructure (pedersenRange (multName m1 m2 md result ++ "_mod") 0 l) p.range

/-- `multiplicationProofStructure.commitmentsFromProof`. -/
def multCommitments (g : Group) (m1 m2 md result : String) (l : Nat) (challenge : Int)
    (bases : BaseLookup Nat) (results : String → Option Int) (p : MultProof) : Option (List Int) := do
  let my := multName m1 m2 md result
  let modName := my ++ "_mod"
  let proofs := mergeValues (singleValue (my ++ "_hider") p.hider) (mergeValues (p.modMult.results modName) results)
  let inner := mergeBases (p.modMult.base g modName) bases
  let a ← pedersenCommitments g modName challenge p.modMult
  let b ← commitFromProof g.ops g.order inner challenge proofs (multRepr m1 m2 md result)
  let c ← rangeCommitments g.ops g.order inner (pedersenRange modName 0 l) challenge (unwrapResults (p.range.getD []))
  pure (a ++ [Int.ofNat b] ++ c.map Int.ofNat)

/-! ### One exponentiation step: branch A (bit = 0), branch B (bit = 1), their OR (expstep*.go) -/

structure StepAProof where
  bit : Int
  equalityHider : Int

structure StepBProof where
  mul : PedersenProof
  bit : Int
  mult : MultProof

/-- `ExpStepProof` with the parts that may be nil as options. -/
structure StepProof where
  achallenge : Option Int
  bchallenge : Option Int
  a : StepAProof
  b : StepBProof
  /-- all `Proof.Result` / `Commit` leaves of both branches are non-nil (they are plain
      integers in `a`, `b`; a nil one is recorded here) -/
  leavesPresent : Bool

/-- `big.Int.Xor` (two's complement semantics for negative operands). -/
def goXor (a b : Int) : Int :=
  if 0 ≤ a then
    if 0 ≤ b then Int.ofNat (a.toNat ^^^ b.toNat)
    else -(Int.ofNat (a.toNat ^^^ (-b - 1).toNat)) - 1
  else
    if 0 ≤ b then -(Int.ofNat ((-a - 1).toNat ^^^ b.toNat)) - 1
    else Int.ofNat ((-a - 1).toNat ^^^ (-b - 1).toNat)

/-- `expStepStructure.verifyProofStructure`: both sub-challenges present, **their XOR is the
    challenge**, both branches structurally complete. -/
def stepVerifyStructure (bitname prename postname mulname modname : String) (bitlen : Nat)
    (challenge : Int) (p : StepProof) : Bool :=
  match p.achallenge, p.bchallenge with
  | some a, some b =>
    decide (challenge = goXor a b) && p.leavesPresent &&
    multStructureOk mulname prename modname postname bitlen p.b.mult
  | _, _ => false

def stepACommitments (g : Group) (bitname prename postname : String) (challenge : Int)
    (bases : BaseLookup Nat) (p : StepAProof) : Option (List Int) := do
  let my := "_".intercalate [bitname, prename, postname, "expa"]
  let proofs := listValues [(bitname ++ "_hider", p.bit), (my ++ "_eqhider", p.equalityHider)]
  let bitRep : ReprStructure := { lhs := [⟨bitname, 1⟩], rhs := [⟨"h", bitname ++ "_hider", 1⟩] }
  let eqRep : ReprStructure := { lhs := [⟨prename, 1⟩, ⟨postname, -1⟩], rhs := [⟨"h", my ++ "_eqhider", 1⟩] }
  let a ← commitFromProof g.ops g.order bases challenge proofs bitRep
  let b ← commitFromProof g.ops g.order bases challenge proofs eqRep
  pure [Int.ofNat a, Int.ofNat b]

/-- `expStepBStructure.commitmentsFromProof`. `outerMul` is the commitment the environment binds
    to `mulname` (`bases.Base(s.mulname)`): the Pedersen representation of the `Mul` proof is
    recomputed on it, the proof's own copy `Mul.Commit` only occupies its place in the hash input
    (repair fix_C17_1: before, the copy was also the base, so the step was proven for a multiplier
    of the prover's choosing). -/
def stepBCommitments (g : Group) (bitname prename postname mulname modname : String) (bitlen : Nat)
    (challenge : Int) (bases : BaseLookup Nat) (outerMul : Option Int) (p : StepBProof) : Option (List Int) := do
  let mulProof : PedersenProof := match outerMul with
    | some c => { p.mul with commit := c }
    | none => p.mul
  let proofs := mergeValues (singleValue (bitname ++ "_hider") p.bit) (p.mul.results mulname)
  let bitRep : ReprStructure := { lhs := [⟨bitname, 1⟩, ⟨"g", -1⟩], rhs := [⟨"h", bitname ++ "_hider", 1⟩] }
  let a ← pedersenCommitments g mulname challenge mulProof
  let b ← commitFromProof g.ops g.order bases challenge proofs bitRep
  let c ← multCommitments g mulname prename modname postname bitlen challenge bases proofs p.mult
  pure (p.mul.commit :: a.drop 1 ++ [Int.ofNat b] ++ c)

/-- `expStepStructure.commitmentsFromProof`: branch A under `Achallenge`, branch B under
    `Bchallenge` (the global challenge is not used here). -/
def stepCommitments (g : Group) (bitname prename postname mulname modname : String) (bitlen : Nat)
    (bases : BaseLookup Nat) (outerMul : Option Int) (p : StepProof) : Option (List Int) := do
  let ac ← p.achallenge
  let bc ← p.bchallenge
  let a ← stepACommitments g bitname prename postname ac bases p.a
  let b ← stepBCommitments g bitname prename postname mulname modname bitlen bc bases outerMul p.b
  pure (a ++ b)

/-! ### The Fiat–Shamir input of the whole proof (validkeyproof.go:212-226) -/

/-- the parts of the hash input, one field per sub-proof. -/
structure ChallengeParts where
  pprime : List Int
  qprime : List Int
  p : List Int
  q : List Int
  groupPrime : Int
  n : Int
  pPprimeRel : List Int
  qQprimeRel : List Int
  pQNRel : List Int
  pprimeIsPrime : List Int
  qprimeIsPrime : List Int
  qspp : List Int
  basesValid : List Int

/-- the list `VerifyProof` (and `BuildProof`) hashes, in its order. -/
def ChallengeParts.input (c : ChallengeParts) : List Int :=
  c.pprime ++ c.qprime ++ c.p ++ c.q ++ [c.groupPrime, c.n] ++ c.pPprimeRel ++ c.qQprimeRel ++ c.pQNRel ++
    c.pprimeIsPrime ++ c.qprimeIsPrime ++ c.qspp ++ c.basesValid

def ChallengeParts.lengths (c : ChallengeParts) : List Nat :=
  [c.pprime.length, c.qprime.length, c.p.length, c.q.length, 1, 1, c.pPprimeRel.length, c.qQprimeRel.length,
   c.pQNRel.length, c.pprimeIsPrime.length, c.qprimeIsPrime.length, c.qspp.length, c.basesValid.length]

/-- `numCommitments` of the sub-structures, as functions of the structure alone. -/
def numPedersen : Nat := 2
def numRange : Nat := Gen.kp_rangeProofIters
def numMult : Nat := 1 + numPedersen + numRange
def numStep : Nat := 2 + (1 + numPedersen + numMult)
def numExp (b : Nat) : Nat :=
  b * numPedersen + 1 + b * numPedersen + b * numRange + b * numMult + numPedersen + 1 +
    (b - 1) * numPedersen + (b - 1) * numRange + b * numStep
def numPrime (b : Nat) : Nat :=
  numPedersen + 1 + numPedersen + numRange + numPedersen + numRange + numPedersen + numRange + 1 + numRange +
    numPedersen + numPedersen + 1 + 1 + 1 + 2 * numExp b
def numIsSquare (k : Nat) : Nat :=
  1 + k + numPedersen + k * numPedersen + k * numPedersen + 1 + k + k * numRange + k * numMult

/-- the lengths of the parts for a modulus of `nbits` bits and `k` bases. -/
def expectedLengths (nbits k : Nat) : List Nat :=
  let b := (nbits + 1) / 2
  [numPedersen, numPedersen, numPedersen, numPedersen, 1, 1, 1, 1, 1, numPrime b, numPrime b,
   Gen.kp_almostSafePrimeProductIters, numIsSquare k]

end Gabi.KeyProof
