package main

import (
	"crypto/rand"
	"fmt"
	"sync"
	"time"

	"github.com/privacybydesign/gabi"
	"github.com/privacybydesign/gabi/big"
	"github.com/privacybydesign/gabi/safeprime"
	"github.com/privacybydesign/gabi/zkproof"
)

// C19: number-theoretic helpers compute what they claim.

func okInt(x *big.Int, ok bool, none string) string {
	if !ok || x == nil {
		return none
	}
	return "ok " + showInt(x)
}

func init() {
	generators["C19"] = genC19
	executors["modinv"] = func(o Op) string {
		r, ok := gabi.VerifModInverse(unhx(o["a"]), unhx(o["n"]))
		return okInt(r, ok, "none")
	}
	executors["bigmodinv"] = func(o Op) string {
		r := new(big.Int).ModInverse(unhx(o["a"]), unhx(o["n"]))
		return okInt(r, r != nil, "none")
	}
	executors["modpow"] = func(o Op) string {
		r, err := gabi.VerifModPow(unhx(o["x"]), unhx(o["y"]), unhx(o["m"]))
		return okInt(r, err == nil, "err")
	}
	executors["helpers-concurrent"] = func(o Op) string {
		calls, _ := o["calls"].([]any)
		seq := make([]string, len(calls))
		for i, c := range calls {
			co := Op(c.(map[string]any))
			seq[i] = safely(func() string { return executors[co.str("op")](co) })
		}
		var mu sync.Mutex
		bad := 0
		var wg sync.WaitGroup
		for gi := 0; gi < o.int("goroutines"); gi++ {
			wg.Add(1)
			go func(gi int) {
				defer wg.Done()
				for r := 0; r < o.int("rounds"); r++ {
					i := (gi*7 + r) % len(calls)
					co := Op(c2m(calls[i]))
					if got := safely(func() string { return executors[co.str("op")](co) }); got != seq[i] {
						mu.Lock()
						bad++
						mu.Unlock()
					}
				}
			}(gi)
		}
		wg.Wait()
		if bad > 0 {
			return fmt.Sprintf("differs %d", bad)
		}
		return "ok"
	}
	executors["legendre"] = func(o Op) string {
		return fmt.Sprint(gabi.VerifLegendreSymbol(unhx(o["a"]), unhx(o["p"])))
	}
	executors["crt"] = func(o Op) string {
		return "ok " + showInt(gabi.VerifCrt(unhx(o["a"]), unhx(o["pa"]), unhx(o["b"]), unhx(o["pb"])))
	}
	executors["primesqrt"] = func(o Op) string {
		a, p := unhx(o["a"]), unhx(o["p"])
		var r *big.Int
		var ok bool
		if !returnsWithin(2*time.Second, func() { r, ok = gabi.VerifPrimeSqrt(new(big.Int).Set(a), new(big.Int).Set(p)) }) {
			return "diverges"
		}
		if !ok {
			return "none"
		}
		sq := new(big.Int).Mul(r, r)
		sq.Mod(sq, p)
		tag := " notsq"
		if sq.Cmp(new(big.Int).Mod(a, p)) == 0 {
			tag = " sq"
		}
		return "ok " + showInt(r) + tag
	}
	executors["modsqrt"] = func(o Op) string {
		a, fs := unhx(o["a"]), unhxs(o["factors"])
		n := big.NewInt(1)
		for _, f := range fs {
			n.Mul(n, f)
		}
		var r *big.Int
		var ok bool
		if !returnsWithin(2*time.Second, func() { r, ok = gabi.VerifModSqrt(new(big.Int).Set(a), fs) }) {
			return "diverges"
		}
		if !ok {
			return "none"
		}
		d := new(big.Int).Mul(r, r)
		d.Sub(d, a).Mod(d, n)
		// a returned root squares to a modulo the product of the factors (single verdict token)
		if d.Sign() != 0 {
			return "wrong-root " + showInt(r)
		}
		return "root " + showInt(r)
	}
	executors["sum4"] = func(o Op) string {
		n := unhx(o["n"])
		x, y, z, w := gabi.VerifSumFourSquares(new(big.Int).Set(n))
		s := new(big.Int)
		for _, v := range []*big.Int{x, y, z, w} {
			s.Add(s, new(big.Int).Mul(v, v))
		}
		ok := s.Cmp(n) == 0 && x.Sign() >= 0 && y.Sign() >= 0 && z.Sign() >= 0 && w.Sign() >= 0
		return fmt.Sprintf("%s %s %s %s arg=true sum=%v", showInt(x), showInt(y), showInt(z), showInt(w), ok)
	}
	executors["sum4-inner"] = func(o Op) string {
		n := unhx(o["n"])
		x, y, z, w := gabi.VerifSumFourSquaresSpecial(new(big.Int).Set(n))
		s := new(big.Int)
		for _, v := range []*big.Int{x, y, z, w} {
			s.Add(s, new(big.Int).Mul(v, v))
		}
		if s.Cmp(n) != 0 {
			return "wrong-sum"
		}
		return "ok"
	}
	executors["fastmod"] = func(o Op) string {
		var m gabi.VerifFastMod
		m.Set(unhx(o["p"]))
		x := unhx(o["x"])
		if o.boolean("alias") {
			return showInt(m.Mod(x, x))
		}
		ret := new(big.Int)
		if o.boolean("dirty") {
			ret.SetInt64(987654321)
		}
		return showInt(m.Mod(ret, x))
	}
	executors["randprime-member"] = func(o Op) string {
		start, length, p := uint(o.int("start")), uint(o.int("length")), unhx(o["p"])
		lo := new(big.Int).Lsh(big.NewInt(1), start)
		hi := new(big.Int).Add(lo, new(big.Int).Lsh(big.NewInt(1), length))
		ok := p.Cmp(lo) > 0 && p.Cmp(hi) < 0 && p.Bit(0) == 1 && p.ProbablyPrime(40)
		primes, prod := gabi.VerifSmallPrimes()
		md := new(big.Int).Mod(p, prod).Uint64()
		for _, q := range primes {
			if md%uint64(q) == 0 && (start > 6 || md != uint64(q)) {
				ok = false
			}
		}
		return fmt.Sprint(ok)
	}
	executors["safeprime"] = func(o Op) string {
		return fmt.Sprint(safeprime.ProbablySafePrime(unhx(o["x"]), 40))
	}
	executors["groupexp"] = func(o Op) string {
		g, ok := zkproof.BuildGroup(unhx(o["p"]))
		if !ok {
			return "nogroup"
		}
		ret := new(big.Int)
		if !g.Exp(ret, "g", unhx(o["exp"]), nil) {
			return "false"
		}
		return "ok " + showInt(ret)
	}
}

func smallPrimesUpTo(n int) []int {
	var ps []int
	for i := 2; i < n; i++ {
		isP := true
		for _, p := range ps {
			if p*p > i {
				break
			}
			if i%p == 0 {
				isP = false
				break
			}
		}
		if isP {
			ps = append(ps, i)
		}
	}
	return ps
}

func randPrime(g *Rng, bits int) *big.Int {
	for {
		x := g.exactBits(bits)
		x.SetBit(x, 0, 1)
		if x.ProbablyPrime(30) {
			return x
		}
	}
}

// innerArg replicates which argument SumFourSquares hands to its inner routine.
func sum4InnerArg(n *big.Int) *big.Int {
	if n.Sign() == 0 {
		return big.NewInt(0)
	}
	three := big.NewInt(3)
	r := new(big.Int).And(n, three).Int64()
	if r == 2 {
		return new(big.Int).Set(n)
	}
	if r == 0 {
		d := 1
		temp := new(big.Int).Rsh(n, 1)
		for new(big.Int).And(temp, three).Int64() != 2 {
			temp.Rsh(temp, 1)
			d++
		}
		if d%2 == 1 {
			temp.Rsh(temp, 1)
		}
		return sum4InnerArg(temp)
	}
	return new(big.Int).Lsh(n, 1)
}

func emitSum4(emit func(Op), n *big.Int, class string) {
	arg := sum4InnerArg(n)
	res := []*big.Int{bi(0), bi(0), bi(0), bi(0)}
	if arg.Sign() != 0 {
		panicked := func() (p bool) {
			defer func() {
				if recover() != nil {
					p = true
				}
			}()
			x, y, z, w := gabi.VerifSumFourSquaresSpecial(new(big.Int).Set(arg))
			res = []*big.Int{x, y, z, w}
			return false
		}()
		if panicked {
			// the inner routine must return for every argument it is handed: the argument is the
			// failing input
			emit(Op{"op": "sum4-inner", "class": class + "-inner-panics", "label": "ok", "nomodel": true, "n": hx(arg)})
			return
		}
	}
	emit(Op{"op": "sum4", "class": class, "n": hx(n), "innerArg": hx(arg), "innerRes": hxs(res)})
}

func genC19(g *Rng, tier string, emit func(Op)) {
	thorough := tier == "thorough"
	pmax, nmax, bmax, nrand := 1<<7, 1<<11, 8, 300
	if thorough {
		pmax, nmax, bmax, nrand = 1<<10, 1<<16, 12, 6000
	}
	primes := smallPrimesUpTo(pmax)
	// exhaustive: all a mod p (and a few outside [0,p)) for small primes
	for _, p := range primes {
		for a := -2; a < p+3; a++ {
			emit(Op{"ref": true, "op": "legendre", "class": "exh-prime", "a": hxi(int64(a)), "p": hxi(int64(p))})
			if a >= 0 && a < p+3 {
				// (the prime 2 included since a4f5330: before, PrimeSqrt(1, 2) never returned)
				emit(Op{"op": "primesqrt", "class": "exh-prime", "a": hxi(int64(a)), "p": hxi(int64(p))})
			}
			if a >= 0 {
				emit(Op{"ref": true, "op": "modinv", "class": "exh-prime", "a": hxi(int64(a)), "n": hxi(int64(p))})
			}
		}
	}
	// Jacobi symbols for all odd moduli, moduli with even values included to pin the model
	for m := 1; m < 64; m++ {
		for a := -3; a < 70; a++ {
			emit(Op{"ref": true, "op": "legendre", "class": "exh-modulus", "a": hxi(int64(a)), "p": hxi(int64(m))})
			emit(Op{"ref": true, "op": "modinv", "class": "exh-modulus", "a": hxi(int64(a)), "n": hxi(int64(m))})
			emit(Op{"ref": true, "op": "bigmodinv", "class": "exh-modulus", "a": hxi(int64(a)), "n": hxi(int64(m))})
		}
	}
	// four squares: all n below the bound
	for n := 0; n < nmax; n++ {
		emitSum4(emit, bi(int64(n)), "exh")
	}
	// fastmod: all moduli 2^b - c
	for b := 2; b <= bmax; b++ {
		for c := 1; c < (1 << (b - 1)); c++ {
			p := int64(1)<<b - int64(c)
			for _, x := range []int64{-p - 1, -1, 0, 1, p - 1, p, p + 1, 2*p - 1, 2 * p, 1<<b - 1, 1 << b, 1<<b + 1, p * p, p*p + p - 1, 1<<(2*b) - 1} {
				emit(Op{"ref": true, "op": "fastmod", "class": "exh", "p": hxi(p), "x": hxi(x), "alias": g.intn(3) == 0, "dirty": g.coin()})
			}
		}
	}
	// modsqrt with the factor 4 on small (also negative) arguments
	for a := -40; a < 200; a++ {
		emit(Op{"op": "modsqrt", "label": "root|none", "class": "exh4", "a": hxi(int64(a)), "factors": hxs([]*big.Int{bi(4), bi(5), bi(13)})})
		emit(Op{"op": "modsqrt", "label": "root|none", "class": "exh4", "a": hxi(int64(a)), "factors": hxs([]*big.Int{bi(4), bi(7)})})
		emit(Op{"op": "modsqrt", "label": "root|none", "class": "exh", "a": hxi(int64(a)), "factors": hxs([]*big.Int{bi(3), bi(11)})})
		emit(Op{"op": "modsqrt", "label": "root|none", "class": "exh-with-2", "fkey": "C19/prime-two", "a": hxi(int64(a)), "factors": hxs([]*big.Int{bi(2), bi(5)})})
		emit(Op{"op": "modsqrt", "label": "root|none", "class": "exh-with-2", "fkey": "C19/prime-two", "a": hxi(int64(a)), "factors": hxs([]*big.Int{bi(2), bi(3), bi(7)})})
	}
	// crt small exhaustive
	for pa := 1; pa < 14; pa++ {
		for pb := 1; pb < 14; pb++ {
			emit(Op{"ref": true, "op": "crt", "class": "exh", "a": hxi(int64(g.intn(pa))), "pa": hxi(int64(pa)), "b": hxi(int64(g.intn(pb))), "pb": hxi(int64(pb))})
			emit(Op{"ref": true, "op": "crt", "class": "exh-unreduced", "fkey": "C19/crt-unreduced", "a": hxi(int64(g.intn(pa) + pa*(1+g.intn(4)))), "pa": hxi(int64(pa)), "b": hxi(int64(g.intn(pb))), "pb": hxi(int64(pb))})
			emit(Op{"ref": true, "op": "crt", "class": "exh-unreduced", "fkey": "C19/crt-unreduced", "a": hxi(int64(g.intn(pa))), "pa": hxi(int64(pa)), "b": hxi(int64(g.intn(pb) + pb*(1+g.intn(4)))), "pb": hxi(int64(pb))})
			emit(Op{"ref": true, "op": "crt", "class": "exh-negative", "fkey": "C19/crt-unreduced", "a": hxi(-int64(g.intn(3 * pa))), "pa": hxi(int64(pa)), "b": hxi(-int64(g.intn(3 * pb))), "pb": hxi(int64(pb))})
		}
	}
	// random large operands
	sizes := []int{8, 31, 32, 63, 64, 65, 127, 128, 255, 256, 512, 1024, 2048, 4096}
	for i := 0; i < nrand; i++ {
		bits := sizes[g.intn(len(sizes))]
		p := randPrime(g, min(bits, 600))
		q := randPrime(g, min(bits, 600))
		a := g.bits(bits + g.intn(64))
		n := g.exactBits(bits)
		emit(Op{"ref": true, "op": "modinv", "class": "rand", "a": hx(new(big.Int).Mod(a, n)), "n": hx(n)})
		emit(Op{"ref": true, "op": "bigmodinv", "class": "rand", "a": hx(signed(g, a)), "n": hx(n)})
		y := g.bits(1 + g.intn(bits))
		emit(Op{"ref": true, "op": "modpow", "class": "rand", "x": hx(signed(g, a)), "y": hx(signed(g, y)), "m": hx(n)})
		emit(Op{"ref": true, "op": "legendre", "class": "rand", "a": hx(signed(g, a)), "p": hx(p)})
		nodd := new(big.Int).SetBit(n, 0, 1)
		emit(Op{"ref": true, "op": "legendre", "class": "rand-jacobi", "a": hx(a), "p": hx(nodd)})
		if p.Cmp(q) != 0 {
			emit(Op{"ref": true, "op": "crt", "class": "rand", "a": hx(g.below(p)), "pa": hx(p), "b": hx(g.below(q)), "pb": hx(q)})
			// residues that are not reduced (or negative): the result is still THE number below pa*pb
			emit(Op{"ref": true, "op": "crt", "class": "unreduced", "fkey": "C19/crt-unreduced", "a": hx(new(big.Int).Add(g.below(p), new(big.Int).Mul(p, bi(int64(1+g.intn(5)))))), "pa": hx(p), "b": hx(g.below(q)), "pb": hx(q)})
			emit(Op{"ref": true, "op": "crt", "class": "unreduced", "fkey": "C19/crt-unreduced", "a": hx(g.below(p)), "pa": hx(p), "b": hx(new(big.Int).Add(g.below(q), new(big.Int).Mul(q, bi(int64(1+g.intn(5)))))), "pb": hx(q)})
			emit(Op{"ref": true, "op": "crt", "class": "negative", "fkey": "C19/crt-unreduced", "a": hx(new(big.Int).Neg(g.below(p))), "pa": hx(p), "b": hx(g.below(q)), "pb": hx(q)})
		}
		if i%4 == 0 {
			// square and non-square inputs; p = 1 mod 8 exercised by volume and by construction
			pp := p
			if g.intn(3) == 0 {
				for j := 0; j < 200 && new(big.Int).Mod(pp, bi(8)).Int64() != 1; j++ {
					pp = randPrime(g, min(bits, 300))
				}
			}
			s := g.below(pp)
			sq := new(big.Int).Mul(s, s)
			sq.Mod(sq, pp)
			emit(Op{"op": "primesqrt", "class": "rand-square", "a": hx(sq), "p": hx(pp)})
			emit(Op{"op": "primesqrt", "class": "rand", "a": hx(g.below(pp)), "p": hx(pp)})
			if p.Cmp(q) != 0 {
				nn := new(big.Int).Mul(p, q)
				t := g.below(nn)
				t2 := new(big.Int).Mul(t, t)
				t2.Mod(t2, nn)
				emit(Op{"op": "modsqrt", "label": "root|none", "class": "rand-square", "a": hx(t2), "factors": hxs([]*big.Int{p, q})})
				emit(Op{"op": "modsqrt", "label": "root|none", "class": "rand", "a": hx(g.below(nn)), "factors": hxs([]*big.Int{p, q})})
				n4 := new(big.Int).Mul(nn, bi(4))
				t3 := g.below(n4)
				t3.Mul(t3, t3).Mod(t3, n4)
				emit(Op{"op": "modsqrt", "label": "root|none", "class": "rand-square4", "a": hx(t3), "factors": hxs([]*big.Int{bi(4), p, q})})
				emit(Op{"op": "modsqrt", "label": "root|none", "class": "rand4", "a": hx(g.below(n4)), "factors": hxs([]*big.Int{bi(4), p, q})})
				emit(Op{"op": "modsqrt", "label": "root|none", "class": "rand4-neg", "a": hx(new(big.Int).Neg(g.below(n4))), "factors": hxs([]*big.Int{bi(4), p, q})})
			}
		}
		if i%3 == 0 {
			nb := []int{20, 40, 64, 100, 128, 200, 256}[g.intn(7)]
			nv := g.bits(nb)
			if g.intn(4) == 0 { // multiples of 4 / powers of two times odd
				nv.Lsh(nv, uint(g.intn(9)))
			}
			emitSum4(emit, nv, "rand")
		}
		// fastmod with large p = 2^b - c
		{
			b := 64 + g.intn(2048)
			c := g.bits(1 + g.intn(62))
			c.SetBit(c, 0, 1)
			pm := new(big.Int).Lsh(bi(1), uint(b))
			pm.Sub(pm, c)
			x := g.bits(b * (1 + g.intn(3)))
			emit(Op{"ref": true, "op": "fastmod", "class": "rand", "p": hx(pm), "x": hx(signed(g, x)), "alias": g.intn(3) == 0, "dirty": g.coin()})
		}
	}
	// random primes in range, produced by the real generator
	nprimes := 60
	if thorough {
		nprimes = 1500
	}
	for i := 0; i < nprimes; i++ {
		start := uint(2 + g.intn(300))
		length := uint(12 + g.intn(int(start)))
		if g.intn(4) == 0 {
			start, length = uint(2+g.intn(8)), uint(1+g.intn(6))
		}
		// the generator loops forever when the interval holds no acceptable prime: only ask for
		// intervals that contain one (checked independently here)
		if !intervalHasPrime(start, length) {
			continue
		}
		p, err := gabi.VerifRandomPrimeInRange(rand.Reader, start, length)
		if err != nil {
			continue
		}
		emit(Op{"op": "randprime-member", "class": "generated", "label": "true", "start": int(start), "length": int(length), "p": hx(p)})
	}
	// safe-prime recognition
	for _, x := range []int64{0, 1, 2, 3, 4, 5, 7, 9, 11, 13, 23, 47, 59, 83, 107, 561, 1105, 1729, 2465, 2047, 3277, 4033} {
		emit(Op{"op": "safeprime", "class": "fixed", "x": hxi(x)})
	}
	// every small number, labelled by trial division (5 = 2*2+1 is the one safe prime that is 1 mod 4)
	isPrimeSmall := func(n int64) bool {
		if n < 2 {
			return false
		}
		for d := int64(2); d*d <= n; d++ {
			if n%d == 0 {
				return false
			}
		}
		return true
	}
	for x := int64(0); x < 3000; x++ {
		emit(Op{"op": "safeprime", "class": "small-by-trial-division", "label": fmt.Sprint(isPrimeSmall(x) && x%2 == 1 && isPrimeSmall((x-1)/2)), "fkey": "C19/safeprime-small", "x": hxi(x)})
	}
	// every size in a range that covers all residues of the size modulo 8 (the top byte of a
	// candidate has 1..8 significant bits): the result has exactly the requested length
	for bits := 9; bits <= 72; bits++ {
		for k := 0; k < 4; k++ {
			sp, err := safeprime.Generate(bits, nil)
			if err != nil {
				panic(err)
			}
			if sp.BitLen() != bits {
				emit(Op{"op": "safeprime", "class": "generated-size-sweep", "key": "safeprime-size", "label": "never", "x": hx(sp), "bits": bits, "bitlen": sp.BitLen()})
			} else if k == 0 {
				emit(Op{"op": "safeprime", "class": "generated-sweep", "label": "true", "x": hx(sp), "bits": bits, "bitlen": sp.BitLen()})
			}
		}
	}
	nsp := 6
	if thorough {
		nsp = 60
	}
	for i := 0; i < nsp; i++ {
		bits := 16 + g.intn(112)
		sp, err := safeprime.Generate(bits, nil)
		if err != nil {
			panic(err)
		}
		emit(Op{"op": "safeprime", "class": "generated", "label": "true", "x": hx(sp), "bits": bits, "bitlen": sp.BitLen()})
		if sp.BitLen() != bits {
			emit(Op{"op": "safeprime", "class": "generated-size", "key": "safeprime-size", "label": "never", "x": hx(sp)})
		}
		emit(Op{"op": "safeprime", "class": "prime-not-safe", "x": hx(randPrime(g, bits))})
		grp, ok := zkproof.BuildGroup(sp)
		if ok {
			for _, e := range []*big.Int{bi(0), bi(1), bi(-1), new(big.Int).Neg(g.below(grp.Order)), g.below(grp.Order), new(big.Int).Set(grp.Order), new(big.Int).Neg(grp.Order), new(big.Int).Sub(grp.Order, bi(1))} {
				emit(Op{"ref": true, "op": "groupexp", "class": "fold", "p": hx(sp), "base": hx(grp.G), "order": hx(grp.Order), "exp": hx(e)})
			}
		}
	}
	emitHelpersConcurrent(g, thorough, emit)
}

func signed(g *Rng, x *big.Int) *big.Int {
	if g.intn(4) == 0 {
		return new(big.Int).Neg(x)
	}
	return x
}

func intervalHasPrime(start, length uint) bool {
	if length >= 12 {
		return true // >= 4096 candidates near 2^start <= 2^302: empty with negligible probability
	}
	lo := new(big.Int).Lsh(bi(1), start)
	primes, prod := gabi.VerifSmallPrimes()
	for off := int64(1); off < int64(1)<<length; off += 2 {
		p := new(big.Int).Add(lo, bi(off))
		if !p.ProbablyPrime(20) {
			continue
		}
		md := new(big.Int).Mod(p, prod).Uint64()
		ok := true
		for _, q := range primes {
			if md%uint64(q) == 0 && (start > 6 || md != uint64(q)) {
				ok = false
			}
		}
		if ok {
			return true
		}
	}
	return false
}

func c2m(c any) map[string]any { return c.(map[string]any) }

// emitHelpersConcurrent: see genC19 (also part of the C16 battery: key generation calls the
// Legendre symbol from concurrent generations).
func emitHelpersConcurrent(g *Rng, thorough bool, emit func(Op)) {
	// the helpers are called from concurrent sessions (key generation, proofs): a batch of calls
	// evaluated one after the other, then again from many goroutines at once, must agree
	var calls []any
	n := 60
	for i := 0; i < n; i++ {
		p := new(big.Int).Or(g.bits(60+g.intn(400)), bi(1))
		a := g.bits(1 + g.intn(500))
		switch i % 4 {
		case 0, 1:
			calls = append(calls, map[string]any{"op": "legendre", "a": hx(a), "p": hx(p)})
		case 2:
			calls = append(calls, map[string]any{"op": "modinv", "a": hx(a), "n": hx(p)})
		default:
			calls = append(calls, map[string]any{"op": "fastmod", "p": hx(new(big.Int).Sub(new(big.Int).Lsh(bi(1), uint(40+g.intn(200))), bi(int64(1+2*g.intn(500))))), "x": hx(a), "alias": false, "dirty": false})
		}
	}
	rounds := 200
	if thorough {
		rounds = 3000
	}
	emit(Op{"op": "helpers-concurrent", "class": "helpers-concurrent", "label": "ok", "nomodel": true, "calls": calls, "rounds": rounds, "goroutines": 16})
}

// returnsWithin runs f and reports whether it returned in time (a call that never returns keeps
// its goroutine; the process is short-lived).
func returnsWithin(d time.Duration, f func()) bool {
	done := make(chan struct{})
	go func() {
		defer func() { recover(); close(done) }()
		f()
	}()
	select {
	case <-done:
		return true
	case <-time.After(d):
		return false
	}
}
