package main

import (
	"math/rand/v2"

	gobig "math/big"

	"github.com/privacybydesign/gabi/big"
)

// Rng: every generator choice derives from one seeded PRNG so that a case replays exactly.
type Rng struct{ r *rand.Rand }

func newRng(seed uint64, stream string) *Rng {
	var s [32]byte
	for i := 0; i < 8; i++ {
		s[i] = byte(seed >> (8 * i))
	}
	copy(s[8:], []byte(stream))
	return &Rng{rand.New(rand.NewChaCha8(s))}
}

func (g *Rng) intn(n int) int   { return g.r.IntN(n) }
func (g *Rng) coin() bool       { return g.r.IntN(2) == 0 }
func (g *Rng) pick(n int) int   { return g.r.IntN(n) }
func (g *Rng) u64() uint64      { return g.r.Uint64() }

// bits returns a uniformly random integer of at most n bits.
func (g *Rng) bits(n int) *big.Int {
	if n <= 0 {
		return big.NewInt(0)
	}
	b := make([]byte, (n+7)/8)
	for i := range b {
		b[i] = byte(g.r.Uint32())
	}
	b[0] &= byte(0xff >> ((8 - n%8) % 8))
	return new(big.Int).SetBytes(b)
}

// exactBits returns an integer of exactly n bits (top bit set).
func (g *Rng) exactBits(n int) *big.Int {
	if n <= 0 {
		return big.NewInt(0)
	}
	x := g.bits(n)
	return x.SetBit(x, n-1, 1)
}

// below returns uniform in [0, max).
func (g *Rng) below(max *big.Int) *big.Int {
	if max.Sign() <= 0 {
		return big.NewInt(0)
	}
	x := g.bits(max.BitLen() + 64)
	return x.Mod(x, max)
}

func (g *Rng) bytes(n int) []byte {
	b := make([]byte, n)
	for i := range b {
		b[i] = byte(g.r.Uint32())
	}
	return b
}

func (g *Rng) perm(n int) []int { return g.r.Perm(n) }

func gob(x *big.Int) *gobig.Int { return x.Go() }
